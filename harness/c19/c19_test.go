// C19 — all storage backends implement the same ordered map with atomic batches.
//
// One generated history (writes, deletes, batches, lookups, iterations, close-and-reopen) is
// applied in lockstep to MemDB, GoLevelDB, BoltDB and BadgerDB (one store each, DBCounts = 1) through
// the raw handle and through two PrefixDB views of every backend.  Every backend instance has its own
// sorted-map reference model (a Go map over the raw key space; a view's content is the projection of
// that map on the view's prefix).  Every lookup and the full key/value stream of every iterator must
// equal what the model says, and the backends must agree with each other.
//
// What the expectations are grounded in (libs/db/types.go unless noted):
//   - Get returns nil iff the key does not exist; a nil key is the empty key;
//   - Iterator(start,end): ascending, start inclusive (nil = from the first key), end exclusive (nil = to the last);
//   - ReverseIterator(start,end): descending, "start must be greater than end", start inclusive (nil = from the
//     greatest key), end exclusive (nil = down to the first key);
//   - usage `for ; itr.Valid(); itr.Next() { itr.Key(); itr.Value() }` then Close — the return value of Next is
//     NOT used (BoltDB returns true when stepping past the end, MemDB returns the validity before the step);
//   - NewIteratorWithPrefix / IteratePrefix: "iterating over a key domain restricted by prefix" (util.go);
//   - Seek(k): the interface says nothing; MemDB, GoLevelDB, BoltDB and BadgerDB all implement "continue as a
//     fresh iteration with start := k and the same end and direction", and the only production caller
//     (p2p/discover QuerySeeds) relies on that, also after the iterator ran off its end.  The harness only seeks
//     inside the original domain, where no other meaning is conceivable;
//   - Batch: "Reset resets the batch for reuse"; the production pattern is Commit(); Reset(); keep filling
//     (libs/trie/database.go).  Writing the same batch twice WITHOUT Reset is not generated: the contract is
//     silent and the backends differ (Bolt clears the batch on Write, the others replay it).
//
// Excluded by the property text: the error value for a missing key, empty values, DBCounts > 1.
package c19

import (
	"bytes"
	"fmt"
	"os"
	"os/exec"
	"path/filepath"
	"sort"
	"strings"
	"testing"

	dbm "github.com/lianxiangcloud/linkchain/libs/db"
	"github.com/lianxiangcloud/linkchain/libs/log"
	"pgregory.net/rapid"

	"verifharness/vstat"
)

const P = "C19"

// Root-cause keys of the defects this check meets on the unchanged tree (see KNOWN_FINDINGS.jsonl).
const (
	// BoltDB cannot store the empty key: bolt answers "key required", Set/SetSync/batch only log or ignore it.
	kBoltEmptyKey = "bolt:empty-key-write-dropped"
	// BadgerDB cannot store the empty key: Set swallows ErrEmptyKey, Get/Has/Delete panic on it.
	kBadgerEmptyKey = "badger:empty-key-dropped-or-panics"
	// badgerBatch wraps a badger.WriteBatch, which is single-use: after Write/Commit/Reset every further
	// Set is dropped and the next Write panics in a goroutine ("send on closed channel").
	kBadgerBatchReuse = "badger:batch-dead-after-write-or-reset"
	// badger treats Seek([]byte{}) as Rewind, so a reverse iteration from the (non-nil) empty key starts at the last key.
	kBadgerRevEmpty = "badger:reverse-empty-start-means-last"
	// IteratePrefix ends at cpIncr(prefix); with a carry (prefix ..x FF) that is ..x+1 00, and the key ..x+1 is inside.
	kIterPrefixCarry = "iterateprefix:cpincr-carry-admits-foreign-key"
	// prefixDB.ReverseIterator(nil, ·) starts at cpIncr(prefix) and skips only that one key; after a carry the
	// shorter foreign keys below it come first and end the iteration before it began.
	kPrefixRevCarry = "prefixdb:reverse-nil-start-stops-at-foreign-key-after-ff-prefix"
	// prefixIterator has value receivers: Seek assigns the new source to a copy and is a no-op.
	kPrefixSeek = "prefixdb:iterator-seek-has-no-effect"
	// GoLevelDB.Exist is "Load() != nil"; goleveldb answers a key whose tombstone is still in its memtable
	// with a non-nil empty slice plus ErrNotFound, so Exist says (true, ErrNotFound) for a deleted key.
	kLevelExistDeleted = "goleveldb:exist-true-for-deleted-key"
)

func TestMain(m *testing.M) {
	log.Root().SetHandler(log.DiscardHandler())
	if os.Getenv("C19_HELPER") != "" {
		os.Exit(m.Run()) // child process of a regression test: no stats record
	}
	vstat.Main(m)
}

// ---------------------------------------------------------------- small helpers

type kv struct{ k, v string }

func hx(b []byte) string {
	if b == nil {
		return "nil"
	}
	if len(b) == 0 {
		return "''"
	}
	return fmt.Sprintf("%x", b)
}

func hxs(s []kv) string {
	var sb strings.Builder
	sb.WriteString("[")
	for i, e := range s {
		if i > 0 {
			sb.WriteString(" ")
		}
		fmt.Fprintf(&sb, "%s=%s", hx([]byte(e.k)), shortv([]byte(e.v)))
	}
	sb.WriteString("]")
	return sb.String()
}

func shortv(v []byte) string {
	if len(v) > 6 {
		return fmt.Sprintf("%x..(%d)", v[:4], len(v))
	}
	return hx(v)
}

// cpb copies a slice and keeps nil nil: the code under test never shares a buffer with the harness
// (MemDB and the batches keep the caller's slices; the contract calls them read-only).
func cpb(b []byte) []byte {
	if b == nil {
		return nil
	}
	return append([]byte{}, b...)
}

func cat(a, b []byte) []byte { return append(append([]byte{}, a...), b...) }

// guard runs ONLY a call into the code under test and hands back a panic value; violations are
// reported outside (rapid's Fatalf is itself a panic).
func guard(f func()) (pan interface{}) {
	defer func() { pan = recover() }()
	f()
	return nil
}

func eqKVs(a, b []kv) bool {
	if len(a) != len(b) {
		return false
	}
	for i := range a {
		if a[i] != b[i] {
			return false
		}
	}
	return true
}

func commonPrefixLen(a, b string) int {
	n := 0
	for n < len(a) && n < len(b) && a[n] == b[n] {
		n++
	}
	return n
}

// sameLenIncr is the harness's own big-endian "+1 keeping the length" (nil on overflow): only used to
// recognise the known IteratePrefix finding, never for an expectation.
func sameLenIncr(b []byte) []byte {
	r := append([]byte{}, b...)
	for i := len(r) - 1; i >= 0; i-- {
		r[i]++
		if r[i] != 0 {
			return r
		}
	}
	return nil
}

// ---------------------------------------------------------------- backends

var kinds = []string{"mem", "level", "bolt", "badger"}

type inst struct {
	kind  string
	dir   string
	raw   dbm.DB
	h     []dbm.DB          // h[0] = raw store, h[i] = PrefixDB view i
	model map[string][]byte // reference content of the raw key space
	bat   [maxSlots]dbm.Batch
}

func (in *inst) open() error {
	var err error
	switch in.kind {
	case "mem":
		if in.raw == nil { // MemDB.Close is a documented no-op that must not lose data: the instance is kept
			in.raw = dbm.NewMemDB()
		}
	case "level":
		in.raw, err = dbm.NewGoLevelDB("c19", in.dir, 1)
	case "bolt":
		in.raw, err = dbm.NewBoltDB("c19", in.dir, 1)
	case "badger":
		in.raw, err = dbm.NewBadgerDB("c19", in.dir, 1)
	}
	return err
}

func (in *inst) mkViews(prefixes [][]byte) {
	in.h = []dbm.DB{in.raw}
	for _, p := range prefixes[1:] {
		in.h = append(in.h, dbm.NewPrefixDB(in.raw, cpb(p)))
	}
}

// view: the handle-relative content (sorted) of the handle with this prefix (nil = raw).
func (in *inst) view(prefix []byte) []kv {
	var out []kv
	for k, v := range in.model {
		if strings.HasPrefix(k, string(prefix)) {
			out = append(out, kv{k[len(prefix):], string(v)})
		}
	}
	sort.Slice(out, func(i, j int) bool { return out[i].k < out[j].k })
	return out
}

func scratchBase() string {
	if s := os.Getenv("VERIF_SCRATCH"); s != "" {
		return s
	}
	return os.TempDir()
}

// ---------------------------------------------------------------- generators

// A tiny alphabet makes keys, view prefixes and iterator bounds collide: shared prefixes, 0xFF tails,
// carries (x FF -> x+1 00) and neighbours of the views' key ranges all show up within a few keys.
var alphabet = []byte{0x00, 0x01, 0x02, 0xfe, 0xff}

var longPrefix = bytes.Repeat([]byte{0xab}, 12)

func genKey(t *rapid.T, label string) []byte {
	switch rapid.IntRange(0, 11).Draw(t, label+"_shape") {
	case 0:
		return nil
	case 1:
		return []byte{}
	case 2: // long shared prefix
		return cat(longPrefix, rapid.SliceOfN(rapid.SampledFrom(alphabet), 0, 2).Draw(t, label+"_tail"))
	case 3: // arbitrary binary
		return rapid.SliceOfN(rapid.Byte(), 1, 6).Draw(t, label+"_raw")
	case 4: // 0xFF… tail
		head := rapid.SliceOfN(rapid.SampledFrom(alphabet), 0, 2).Draw(t, label+"_head")
		return cat(head, bytes.Repeat([]byte{0xff}, rapid.IntRange(1, 3).Draw(t, label+"_nff")))
	default:
		return rapid.SliceOfN(rapid.SampledFrom(alphabet), 1, 3).Draw(t, label+"_k")
	}
}

// values are never empty (the property excludes empty values)
func genVal(t *rapid.T, label string) []byte {
	switch rapid.IntRange(0, 9).Draw(t, label+"_shape") {
	case 0: // incompressible and beyond badger's ValueThreshold (32): lives in the value log
		return rapid.SliceOfN(rapid.Byte(), 40, 64).Draw(t, label+"_big")
	case 1: // long but compressible (Bolt and Badger store snappy-encoded values)
		return bytes.Repeat([]byte{rapid.Byte().Draw(t, label+"_fill")}, rapid.IntRange(33, 120).Draw(t, label+"_len"))
	default:
		return rapid.SliceOfN(rapid.Byte(), 1, 5).Draw(t, label+"_v")
	}
}

// view prefixes are never empty: cpIncr/cpDecr state len > 0 as their contract and every caller of
// NewPrefixDB in the repository passes a constant non-empty prefix.
func genPrefix(t *rapid.T, label string) []byte {
	switch rapid.IntRange(0, 5).Draw(t, label+"_shape") {
	case 0:
		return []byte{rapid.SampledFrom(alphabet[:4]).Draw(t, label+"_x"), 0xff}
	case 1:
		return bytes.Repeat([]byte{0xff}, rapid.IntRange(1, 2).Draw(t, label+"_nff"))
	default:
		return rapid.SliceOfN(rapid.SampledFrom(alphabet), 1, 2).Draw(t, label+"_p")
	}
}

// ---------------------------------------------------------------- reference semantics of iterations

const (
	itFwd  = iota // Iterator(start, end)
	itRev         // ReverseIterator(start, end)
	itPfx         // NewIteratorWithPrefix(prefix)
	itIPfx        // IteratePrefix(db, prefix)
)

var itNames = []string{"Iterator", "ReverseIterator", "NewIteratorWithPrefix", "IteratePrefix"}

type iterSpec struct {
	kind       int
	start, end []byte
	prefix     []byte
	seekAt     int // Seek after this many entries (or when the iterator runs out earlier); -1 = no Seek
	seekKey    []byte
}

func (sp iterSpec) String() string {
	var s string
	switch sp.kind {
	case itFwd, itRev:
		s = fmt.Sprintf("%s(%s,%s)", itNames[sp.kind], hx(sp.start), hx(sp.end))
	default:
		s = fmt.Sprintf("%s(%s)", itNames[sp.kind], hx(sp.prefix))
	}
	if sp.seekAt >= 0 {
		s += fmt.Sprintf(".Seek@%d(%s)", sp.seekAt, hx(sp.seekKey))
	}
	return s
}

// quirks switch the reference to the behaviour of one listed finding, so that a mismatch can be
// attributed to exactly that finding and to nothing else.
type quirks struct {
	badgerEmptyAsNil bool // kBadgerRevEmpty
	ipfxCarry        bool // kIterPrefixCarry
	prefixRevBlocked bool // kPrefixRevCarry
}

// expect: the key/value stream a reference ordered map gives for the iteration (view is sorted ascending).
func expect(view []kv, sp iterSpec, q quirks) []kv {
	stream := func(start []byte) []kv {
		var out []kv
		switch sp.kind {
		case itFwd:
			for _, e := range view {
				if e.k >= string(start) && (sp.end == nil || e.k < string(sp.end)) {
					out = append(out, e)
				}
			}
		case itRev:
			if q.badgerEmptyAsNil && start != nil && len(start) == 0 {
				start = nil
			}
			for i := len(view) - 1; i >= 0; i-- {
				e := view[i]
				if (start == nil || e.k <= string(start)) && (sp.end == nil || e.k > string(sp.end)) {
					out = append(out, e)
				}
			}
		case itPfx, itIPfx:
			carry := sp.kind == itIPfx && q.ipfxCarry && len(sp.prefix) > 0
			var cend []byte
			if carry {
				cend = sameLenIncr(sp.prefix)
			}
			for _, e := range view {
				in := strings.HasPrefix(e.k, string(sp.prefix))
				if carry {
					in = e.k >= string(sp.prefix) && (cend == nil || e.k < string(cend))
				}
				if in && e.k >= string(start) {
					out = append(out, e)
				}
			}
		}
		return out
	}
	first := sp.start
	if sp.kind == itPfx || sp.kind == itIPfx {
		first = nil
	}
	out := stream(first)
	if sp.kind == itRev && q.prefixRevBlocked && sp.start == nil {
		out = nil
	}
	if sp.seekAt < 0 {
		return out
	}
	if len(out) > sp.seekAt {
		out = out[:sp.seekAt]
	}
	return append(append([]kv{}, out...), stream(sp.seekKey)...)
}

// runIter drives a real iterator the documented way and returns its stream.
func runIter(h dbm.DB, sp iterSpec, limit int) (got []kv, pan interface{}) {
	pan = guard(func() {
		var it dbm.Iterator
		switch sp.kind {
		case itFwd:
			it = h.Iterator(cpb(sp.start), cpb(sp.end))
		case itRev:
			it = h.ReverseIterator(cpb(sp.start), cpb(sp.end))
		case itPfx:
			it = h.NewIteratorWithPrefix(cpb(sp.prefix))
		case itIPfx:
			it = dbm.IteratePrefix(h, cpb(sp.prefix))
		}
		defer it.Close()
		seeked := sp.seekAt < 0
		n := 0
		for len(got) <= limit { // limit: a broken iterator must not spin for ever
			if !seeked && (n == sp.seekAt || !it.Valid()) {
				it.Seek(cpb(sp.seekKey))
				seeked = true
				continue
			}
			if !it.Valid() {
				break
			}
			got = append(got, kv{string(it.Key()), string(it.Value())})
			n++
			it.Next()
		}
	})
	return
}

// foreignBlocker: does the raw content hold one of the keys that make prefixDB.ReverseIterator(nil, ·)
// of this view give up (kPrefixRevCarry)?  For prefix = stem·x·FF^n (x < FF, n >= 1) these are
// stem·(x+1)·00^j for j < n: they lie between the view's range and cpIncr(prefix) = stem·(x+1)·00^n.
func foreignBlocker(model map[string][]byte, prefix []byte) bool {
	n := 0
	for n < len(prefix) && prefix[len(prefix)-1-n] == 0xff {
		n++
	}
	if n == 0 || n == len(prefix) {
		return false
	}
	stem := append([]byte{}, prefix[:len(prefix)-n]...)
	stem[len(stem)-1]++
	for j := 0; j < n; j++ {
		if _, ok := model[string(stem)]; ok {
			return true
		}
		stem = append(stem, 0x00)
	}
	return false
}

// ---------------------------------------------------------------- the history machine

const maxSlots = 2

type bop struct {
	del  bool
	k, v []byte
}

type slot struct {
	hi  int
	ops []bop
}

type tcase struct {
	t        *rapid.T
	insts    []*inst
	prefixes [][]byte // prefixes[0] = nil (raw handle)
	slots    [maxSlots]*slot
	hist     []string
	labels   map[string]bool
	abort    bool // a listed finding left an instance in an unknown state: stop the case
	// non-triviality
	effDelete, reopenAfterDelete, cutShared bool
}

func (c *tcase) logf(format string, args ...interface{}) {
	c.hist = append(c.hist, fmt.Sprintf(format, args...))
}

func (c *tcase) label(s string) { c.labels[s] = true }

// viol reports; it returns only when the key is a listed finding.
func (c *tcase) viol(key, format string, args ...interface{}) {
	vstat.Violation(c.t, P, key, "%s ; view prefixes %x ; history %v", fmt.Sprintf(format, args...), c.prefixes[1:], c.hist)
}

func (c *tcase) mem() *inst { return c.insts[0] }

func (c *tcase) full(hi int, k []byte) string { return string(c.prefixes[hi]) + string(k) }

// isExcl: shapes left out by construction because they only re-hit a listed finding (rule 5).
// write = the operation is a Set (direct or batched).
func isExcl(in *inst, hi int, key []byte, write bool) (string, bool) {
	if hi != 0 || len(key) != 0 {
		return "", false // through a view the empty key is stored under the (non-empty) prefix: fine everywhere
	}
	switch in.kind {
	case "bolt": // lookups and deletes of the empty key behave (nothing is there)
		if write && vstat.IsKnown(P, kBoltEmptyKey) {
			return kBoltEmptyKey, true
		}
	case "badger": // Get/Has/Delete of the empty key panic, Set drops it
		if vstat.IsKnown(P, kBadgerEmptyKey) {
			return kBadgerEmptyKey, true
		}
	}
	return "", false
}

func (c *tcase) excl(in *inst, hi int, key []byte, write bool) bool {
	k, ex := isExcl(in, hi, key, write)
	if ex {
		vstat.Excluded(k)
	}
	return ex
}

// keyFor: the root-cause key a mismatch on this instance/handle/key belongs to.
func keyFor(in *inst, hi int, key []byte, dflt string) string {
	if hi == 0 && len(key) == 0 {
		switch in.kind {
		case "bolt":
			return kBoltEmptyKey
		case "badger":
			return kBadgerEmptyKey
		}
	}
	return dflt
}

func (c *tcase) panicked(in *inst, hi int, key []byte, what string, pan interface{}) {
	c.viol(keyFor(in, hi, key, "panic"), "%s h%d: %s panicked: %v", in.kind, hi, what, pan)
	c.abort = true // the panic may have left a lock held; abandon the objects
}

func (c *tcase) drawHandle() int {
	return rapid.SampledFrom([]int{0, 0, 0, 1, 1, 2, 2}).Draw(c.t, "handle")
}

// drawKey: an existing key of the handle (taken from MemDB's model, which has no exclusions), or a
// fresh one; fresh keys for the raw handle often land inside or right next to a view's range.
func (c *tcase) drawKey(hi int, label string, reusePct int) []byte {
	view := c.mem().view(c.prefixes[hi])
	if len(view) > 0 && rapid.IntRange(0, 99).Draw(c.t, label+"_reuse") < reusePct {
		return []byte(rapid.SampledFrom(view).Draw(c.t, label+"_ek").k)
	}
	k := genKey(c.t, label)
	if hi == 0 && rapid.IntRange(0, 2).Draw(c.t, label+"_inview") == 0 {
		k = cat(c.prefixes[rapid.IntRange(1, len(c.prefixes)-1).Draw(c.t, label+"_vi")], k)
	}
	return k
}

func labelKey(c *tcase, k []byte) {
	switch {
	case k == nil:
		c.label("key_nil")
	case len(k) == 0:
		c.label("key_empty")
	case k[len(k)-1] == 0xff:
		c.label("key_ff_tail")
	case bytes.HasPrefix(k, longPrefix):
		c.label("key_long_shared_prefix")
	}
}

// ---- writes

func (c *tcase) opSet() {
	hi := c.drawHandle()
	k := c.drawKey(hi, "k", 30)
	v := genVal(c.t, "v")
	variant := rapid.IntRange(0, 2).Draw(c.t, "setvariant")
	name := []string{"Set", "SetSync", "Put"}[variant]
	c.logf("h%d.%s(%s,%s)", hi, name, hx(k), shortv(v))
	labelKey(c, k)
	c.label("op_" + name)
	for _, in := range c.insts {
		if c.excl(in, hi, k, true) {
			continue
		}
		var err error
		pan := guard(func() {
			switch variant {
			case 0:
				in.h[hi].Set(cpb(k), cpb(v))
			case 1:
				in.h[hi].SetSync(cpb(k), cpb(v))
			case 2:
				err = in.h[hi].Put(cpb(k), cpb(v))
			}
		})
		if pan != nil {
			c.panicked(in, hi, k, name, pan)
			return
		}
		if err != nil {
			c.viol(keyFor(in, hi, k, "write-error"), "%s h%d: Put(%s) of a non-empty value failed: %v", in.kind, hi, hx(k), err)
			c.abort = true
			return
		}
		in.model[c.full(hi, k)] = v
	}
}

func (c *tcase) opDelete() {
	hi := c.drawHandle()
	k := c.drawKey(hi, "k", 70)
	variant := rapid.IntRange(0, 2).Draw(c.t, "delvariant")
	name := []string{"Delete", "DeleteSync", "Del"}[variant]
	c.logf("h%d.%s(%s)", hi, name, hx(k))
	labelKey(c, k)
	c.label("op_" + name)
	if _, ok := c.mem().model[c.full(hi, k)]; ok {
		c.effDelete = true
	}
	for _, in := range c.insts {
		if c.excl(in, hi, k, false) {
			continue
		}
		var err error
		pan := guard(func() {
			switch variant {
			case 0:
				in.h[hi].Delete(cpb(k))
			case 1:
				in.h[hi].DeleteSync(cpb(k))
			case 2:
				err = in.h[hi].Del(cpb(k))
			}
		})
		if pan != nil {
			c.panicked(in, hi, k, name, pan)
			return
		}
		_, present := in.model[c.full(hi, k)]
		if err != nil && present {
			c.viol(keyFor(in, hi, k, "write-error"), "%s h%d: Del(%s) of an existing key failed: %v", in.kind, hi, hx(k), err)
			c.abort = true
			return
		}
		delete(in.model, c.full(hi, k))
	}
}

// ---- lookups

var lookupNames = []string{"Get", "Load", "Has", "Exist"}

// lookup checks one key on every instance against its model and the instances against each other.
func (c *tcase) lookup(hi int, k []byte, variant int, failKey, why string) {
	type ob struct {
		want, got string
		on        bool
	}
	var obs [4]ob
	for i, in := range c.insts {
		if c.excl(in, hi, k, false) {
			continue
		}
		want, present := in.model[c.full(hi, k)]
		var val []byte
		var found bool
		var err error
		pan := guard(func() {
			switch variant {
			case 0:
				val = in.h[hi].Get(cpb(k))
				found = val != nil // "Get returns nil iff key doesn't exist"
			case 1:
				val, err = in.h[hi].Load(cpb(k))
				found = len(val) > 0
			case 2:
				found = in.h[hi].Has(cpb(k))
			case 3:
				found, err = in.h[hi].Exist(cpb(k))
			}
		})
		if pan != nil {
			c.panicked(in, hi, k, lookupNames[variant], pan)
			return
		}
		key := keyFor(in, hi, k, failKey)
		listed := false
		switch {
		case in.kind == "level" && variant == 3 && !present && found && err != nil:
			// exactly the listed finding: (true, "not found") — callers such as libs/trie/sync.go drop the error
			listed = true
			c.viol(kLevelExistDeleted, "%s h%d: %s Exist(%s) = (true, %v), reference map does not have the key", in.kind, hi, why, hx(k), err)
		case found != present:
			c.viol(key, "%s h%d: %s %s(%s) found=%v, reference map has it: %v (value %s)", in.kind, hi, why, lookupNames[variant], hx(k), found, present, shortv(want))
		case present && variant <= 1 && !bytes.Equal(val, want):
			c.viol(key, "%s h%d: %s %s(%s) = %s, reference map has %s", in.kind, hi, why, lookupNames[variant], hx(k), hx(val), hx(want))
		case present && err != nil: // the excluded error value is the one for a MISSING key only
			c.viol(key, "%s h%d: %s %s(%s) of an existing key returned error %v", in.kind, hi, why, lookupNames[variant], hx(k), err)
		}
		// what is compared across backends: found / not found, and the value of a found key only (what
		// accompanies "not found" — nil, '' or an error — is backend-specific and excluded)
		gotDesc := fmt.Sprint(found)
		if found && variant <= 1 {
			gotDesc += " " + hx(val)
		}
		obs[i] = ob{fmt.Sprint(present, hx(want)), gotDesc, !listed}
	}
	for i := range obs {
		for j := i + 1; j < len(obs); j++ {
			if obs[i].on && obs[j].on && obs[i].want == obs[j].want && obs[i].got != obs[j].got {
				c.viol("cross-backend-lookup", "h%d %s(%s): %s answers %s, %s answers %s", hi, lookupNames[variant], hx(k), kinds[i], obs[i].got, kinds[j], obs[j].got)
			}
		}
	}
}

func (c *tcase) opLookup() {
	hi := c.drawHandle()
	k := c.drawKey(hi, "k", 55)
	variant := rapid.IntRange(0, 3).Draw(c.t, "lookupvariant")
	labelKey(c, k)
	c.label("op_" + lookupNames[variant])
	if _, ok := c.mem().model[c.full(hi, k)]; ok {
		c.label("lookup_present")
	} else {
		c.label("lookup_absent")
	}
	c.logf("h%d.%s(%s)", hi, lookupNames[variant], hx(k))
	c.lookup(hi, k, variant, "lookup", "")
}

// ---- batches

func (c *tcase) freeSlot() int {
	for i, s := range c.slots {
		if s == nil {
			return i
		}
	}
	return -1
}

func (c *tcase) openSlots() []int {
	var out []int
	for i, s := range c.slots {
		if s != nil {
			out = append(out, i)
		}
	}
	return out
}

func (c *tcase) opBatchNew() {
	si := c.freeSlot()
	if si < 0 {
		c.opBatchFinish()
		return
	}
	hi := c.drawHandle()
	c.logf("b%d=h%d.NewBatch()", si, hi)
	for _, in := range c.insts {
		if pan := guard(func() { in.bat[si] = in.h[hi].NewBatch() }); pan != nil {
			c.panicked(in, hi, []byte{1}, "NewBatch", pan)
			return
		}
	}
	c.slots[si] = &slot{hi: hi}
	c.batchAdd(si)
}

func (c *tcase) opBatchAdd() {
	open := c.openSlots()
	if len(open) == 0 {
		c.opBatchNew()
		return
	}
	c.batchAdd(rapid.SampledFrom(open).Draw(c.t, "slot"))
}

// batchAdd appends 1..4 operations; keys are often repeated inside the batch (set/delete/set of one
// key) so that the order of application matters.
func (c *tcase) batchAdd(si int) {
	s := c.slots[si]
	n := rapid.IntRange(1, 4).Draw(c.t, "nbops")
	if rapid.IntRange(0, 3).Draw(c.t, "bigbatch") == 0 {
		// long batches: a backend that reorders or groups the operations of a batch internally (sorting, sharding,
		// chunking) typically behaves like a short one below some size
		n = rapid.IntRange(13, 48).Draw(c.t, "nbops_big")
		c.label("batch_with_13_or_more_operations")
	}
	// heavy batches: a few dozen values of several KiB each (trie nodes with code blobs, block parts): a backend that
	// measures a batch in bytes (IdealBatchSize, internal flush thresholds) behaves like a light one below some weight
	heavy := n >= 13 && rapid.IntRange(0, 5).Draw(c.t, "heavybatch") == 0
	if heavy {
		c.label("batch_heavier_than_100KB")
	}
	for i := 0; i < n && !c.abort; i++ {
		var k []byte
		if len(s.ops) > 0 && rapid.IntRange(0, 9).Draw(c.t, "bk_again") < 4 {
			k = s.ops[rapid.IntRange(0, len(s.ops)-1).Draw(c.t, "bk_idx")].k
			c.label("batch_repeats_key")
		} else {
			k = c.drawKey(s.hi, "bk", 35)
		}
		del := rapid.IntRange(0, 9).Draw(c.t, "bdel") < 3
		var v []byte
		if del {
			c.logf("b%d.Delete(%s)", si, hx(k))
		} else {
			v = genVal(c.t, "bv")
			if heavy {
				v = bytes.Repeat([]byte{rapid.Byte().Draw(c.t, "bv_fill"), byte(i)}, rapid.IntRange(4096, 6144).Draw(c.t, "bv_half"))
			}
			c.logf("b%d.Set(%s,%s)", si, hx(k), shortv(v))
		}
		labelKey(c, k)
		for _, in := range c.insts {
			if c.excl(in, s.hi, k, !del) {
				continue
			}
			pan := guard(func() {
				if del {
					in.bat[si].Delete(cpb(k))
				} else {
					in.bat[si].Set(cpb(k), cpb(v))
				}
			})
			if pan != nil {
				c.panicked(in, s.hi, k, "Batch.Set/Delete", pan)
				return
			}
		}
		s.ops = append(s.ops, bop{del, k, v})
	}
}

// verifyTouched: every key the batch mentions reads exactly what the model says — after a write that is
// "entirely and in its own order", after a reset/abandon it is "not at all".
func (c *tcase) verifyTouched(s *slot, failKey, why string) {
	seen := map[string]bool{}
	for _, o := range s.ops {
		if seen[string(o.k)] || c.abort {
			continue
		}
		seen[string(o.k)] = true
		c.lookup(s.hi, o.k, 0, failKey, why)
	}
}

// renew: after Write/Commit/Reset the batch is used again (libs/trie/database.go does Commit, Reset, Set…).
func (c *tcase) renew(si int) {
	s := c.slots[si]
	for _, in := range c.insts {
		if in.kind == "badger" && vstat.IsKnown(P, kBadgerBatchReuse) {
			// listed finding: a badger batch is dead after Write/Reset and the next Write would crash
			// the process from a goroutine; the harness takes a new batch instead
			vstat.Excluded(kBadgerBatchReuse)
			if pan := guard(func() { in.bat[si] = in.h[s.hi].NewBatch() }); pan != nil {
				c.panicked(in, s.hi, []byte{1}, "NewBatch", pan)
				return
			}
		}
	}
	s.ops = nil
}

func (c *tcase) opBatchFinish() {
	open := c.openSlots()
	if len(open) == 0 {
		c.opBatchNew()
		return
	}
	si := rapid.SampledFrom(open).Draw(c.t, "slot")
	s := c.slots[si]
	mode := rapid.SampledFrom([]string{"Write", "Write", "Commit", "Commit", "WriteSync", "Reset", "abandon"}).Draw(c.t, "bmode")
	reuse := mode != "abandon" && rapid.IntRange(0, 2).Draw(c.t, "breuse") == 0
	c.logf("b%d.%s()", si, mode)
	c.label("batch_" + mode)
	for _, o := range s.ops {
		if _, ok := c.mem().model[c.full(s.hi, o.k)]; ok && o.del && mode != "Reset" && mode != "abandon" {
			c.effDelete = true
		}
	}
	switch mode {
	case "Write", "Commit", "WriteSync":
		for _, in := range c.insts {
			var err error
			pan := guard(func() {
				switch mode {
				case "Write":
					in.bat[si].Write()
				case "WriteSync":
					in.bat[si].WriteSync()
				case "Commit":
					err = in.bat[si].Commit()
				}
			})
			if pan != nil {
				c.panicked(in, s.hi, []byte{1}, "Batch."+mode, pan)
				return
			}
			if err != nil {
				c.viol("write-error", "%s h%d: Batch.Commit failed: %v", in.kind, s.hi, err)
				c.abort = true
				return
			}
			for _, o := range s.ops { // the model applies the batch in its own order
				if _, ex := isExcl(in, s.hi, o.k, !o.del); ex {
					continue
				}
				if o.del {
					delete(in.model, c.full(s.hi, o.k))
				} else {
					in.model[c.full(s.hi, o.k)] = o.v
				}
			}
		}
		c.verifyTouched(s, "batch-visibility", "after Batch."+mode)
	case "Reset":
		for _, in := range c.insts {
			if pan := guard(func() { in.bat[si].Reset() }); pan != nil {
				c.panicked(in, s.hi, []byte{1}, "Batch.Reset", pan)
				return
			}
		}
		c.verifyTouched(s, "batch-leak", "after Batch.Reset")
	case "abandon":
		c.verifyTouched(s, "batch-leak", "with an unwritten batch")
	}
	if c.abort {
		return
	}
	if !reuse {
		c.slots[si] = nil
		return
	}
	c.label("batch_reused")
	if mode != "Reset" { // the production pattern: Commit(); Reset(); keep filling
		c.logf("b%d.Reset()", si)
		for _, in := range c.insts {
			if pan := guard(func() { in.bat[si].Reset() }); pan != nil {
				c.panicked(in, s.hi, []byte{1}, "Batch.Reset", pan)
				return
			}
		}
	}
	c.renew(si)
}

// ---- iterations

// genBound: nil, empty, existing keys and their neighbours, prefixes of existing keys, 0xFF tails.
func (c *tcase) genBound(view []kv, label string) []byte {
	t := c.t
	shape := rapid.IntRange(0, 14).Draw(t, label+"_shape")
	if len(view) == 0 && ((shape >= 2 && shape <= 8) || shape == 14) {
		shape = 9
	}
	switch shape {
	case 0, 1:
		return nil
	case 2, 3, 4:
		return []byte(rapid.SampledFrom(view).Draw(t, label+"_ek").k)
	case 5: // just after an existing key
		return cat([]byte(rapid.SampledFrom(view).Draw(t, label+"_ek").k), []byte{0x00})
	case 6: // a proper prefix of an existing key
		k := []byte(rapid.SampledFrom(view).Draw(t, label+"_ek").k)
		return cpb(k[:rapid.IntRange(0, len(k)).Draw(t, label+"_cut")])
	case 7: // an existing key with 0xFF appended: cuts between the key's extensions
		return cat([]byte(rapid.SampledFrom(view).Draw(t, label+"_ek").k), []byte{0xff})
	case 8: // the end of an existing key's prefix range
		k := []byte(rapid.SampledFrom(view).Draw(t, label+"_ek").k)
		return dbmPrefixEnd(k[:rapid.IntRange(0, len(k)).Draw(t, label+"_cut")])
	case 9:
		return []byte{}
	case 10:
		return bytes.Repeat([]byte{0xff}, rapid.IntRange(1, 4).Draw(t, label+"_nff"))
	case 14: // the greatest short key below an existing key: ..x-1 FF..
		return carryBelow([]byte(rapid.SampledFrom(view).Draw(t, label+"_ek").k), rapid.IntRange(1, 2).Draw(t, label+"_nff"))
	default:
		return genKey(t, label)
	}
}

// carryBelow: for a key ..x (x > 0) the prefix ..(x-1)·FF^n, whose successor carries into the key; the
// key itself otherwise.
func carryBelow(k []byte, n int) []byte {
	if len(k) == 0 || k[len(k)-1] == 0 {
		return cpb(k)
	}
	r := cpb(k)
	r[len(r)-1]--
	return cat(r, bytes.Repeat([]byte{0xff}, n))
}

// dbmPrefixEnd: shortest key greater than every key with the prefix (nil if none) — harness-side, for bounds only.
func dbmPrefixEnd(p []byte) []byte {
	for i := len(p) - 1; i >= 0; i-- {
		if p[i] != 0xff {
			r := cpb(p[:i+1])
			r[i]++
			return r
		}
	}
	return nil
}

func (c *tcase) labelBound(b []byte, which string) {
	switch {
	case b == nil:
		c.label(which + "_nil")
	case len(b) == 0:
		c.label(which + "_empty")
	case b[len(b)-1] == 0xff:
		c.label(which + "_ff_tail")
	default:
		c.label(which + "_key")
	}
}

// cuts: the bound falls strictly between two neighbouring keys of the view that share a prefix.
func cuts(view []kv, b []byte) bool {
	if b == nil {
		return false
	}
	i := sort.Search(len(view), func(i int) bool { return view[i].k >= string(b) })
	return i > 0 && i < len(view) && commonPrefixLen(view[i-1].k, view[i].k) >= 1
}

func (c *tcase) opIter() {
	t := c.t
	hi := c.drawHandle()
	view := c.mem().view(c.prefixes[hi])
	sp := iterSpec{seekAt: -1}
	sp.kind = rapid.SampledFrom([]int{itFwd, itFwd, itFwd, itRev, itRev, itRev, itPfx, itPfx, itIPfx, itIPfx}).Draw(t, "itkind")
	switch sp.kind {
	case itFwd, itRev:
		sp.start = c.genBound(view, "start")
		sp.end = c.genBound(view, "end")
		if sp.start != nil && sp.end != nil && rapid.IntRange(0, 3).Draw(t, "order") != 0 {
			// mostly a proper domain (the reversed one is legal too: "or the Iterator is invalid")
			if lt := bytes.Compare(sp.start, sp.end) < 0; lt != (sp.kind == itFwd) {
				sp.start, sp.end = sp.end, sp.start
			}
		}
		c.labelBound(sp.start, "start")
		c.labelBound(sp.end, "end")
		if cuts(view, sp.start) || cuts(view, sp.end) {
			c.cutShared = true
			c.label("bound_cuts_shared_prefix")
		}
	default:
		switch s := rapid.IntRange(0, 11).Draw(t, "pfx_shape"); {
		case s <= 4 && len(view) > 0: // a prefix of an existing key (possibly all of it, possibly empty)
			k := []byte(rapid.SampledFrom(view).Draw(t, "pfx_ek").k)
			sp.prefix = cpb(k[:rapid.IntRange(0, len(k)).Draw(t, "pfx_cut")])
		case s >= 10 && len(view) > 0: // a prefix whose range ends right below an existing key: ..x-1 FF.. for a key ..x
			sp.prefix = carryBelow([]byte(rapid.SampledFrom(view).Draw(t, "pfx_ek").k), rapid.IntRange(1, 2).Draw(t, "pfx_nff"))
		case s == 5:
			sp.prefix = nil
		default:
			sp.prefix = genKey(t, "pfx")
		}
		c.labelBound(sp.prefix, "prefix")
		if len(sp.prefix) > 0 && (cuts(view, sp.prefix) || cuts(view, dbmPrefixEnd(sp.prefix))) {
			c.cutShared = true
			c.label("bound_cuts_shared_prefix")
		}
	}
	// Seek, only to a key inside the original domain.  On a PrefixDB view Seek is a listed no-op.
	if sp.kind != itIPfx && rapid.IntRange(0, 9).Draw(t, "seek") < 3 {
		if hi != 0 && vstat.IsKnown(P, kPrefixSeek) {
			vstat.Excluded(kPrefixSeek)
		} else {
			sp.seekAt = rapid.IntRange(0, 3).Draw(t, "seek_at")
			from := sp.start
			if sp.kind == itPfx {
				from = sp.prefix
			}
			switch {
			case sp.kind == itPfx: // any key with the prefix
				sp.seekKey = cat(from, rapid.SliceOfN(rapid.SampledFrom(alphabet), 0, 2).Draw(t, "seek_sfx"))
			case from == nil: // the whole key space is the domain on this side
				sp.seekKey = c.genBound(view, "seek_key")
			case sp.kind == itFwd: // >= start
				sp.seekKey = cat(from, rapid.SliceOfN(rapid.SampledFrom(alphabet), 0, 2).Draw(t, "seek_sfx"))
				if ge := keysFrom(view, string(from), true); len(ge) > 0 && rapid.Bool().Draw(t, "seek_existing") {
					sp.seekKey = []byte(rapid.SampledFrom(ge).Draw(t, "seek_ek"))
				}
			default: // reverse: <= start
				sp.seekKey = cpb(from[:rapid.IntRange(0, len(from)).Draw(t, "seek_cut")])
				if le := keysFrom(view, string(from), false); len(le) > 0 && rapid.Bool().Draw(t, "seek_existing") {
					sp.seekKey = []byte(rapid.SampledFrom(le).Draw(t, "seek_ek"))
				}
			}
			c.label("iter_with_seek")
		}
	}
	c.logf("h%d.%s", hi, sp)
	c.label("iter_" + itNames[sp.kind])
	if hi == 0 {
		c.label("iter_on_raw")
	} else {
		c.label("iter_on_view")
	}
	c.checkIter(hi, sp, "")
}

func keysFrom(view []kv, pivot string, ge bool) []string {
	var out []string
	for _, e := range view {
		if (ge && e.k >= pivot) || (!ge && e.k <= pivot) {
			out = append(out, e.k)
		}
	}
	return out
}

var iterFailKeys = []string{"iter-forward", "iter-reverse", "iter-prefix", "iterateprefix"}

// checkIter runs one iteration on every instance: stream == model, and the instances agree.
func (c *tcase) checkIter(hi int, sp iterSpec, why string) {
	type ob struct {
		want, got []kv
		on        bool
	}
	var obs [4]ob
	for i, in := range c.insts {
		view := in.view(c.prefixes[hi])
		want := expect(view, sp, quirks{})
		got, pan := runIter(in.h[hi], sp, 2*len(in.model)+8)
		if pan != nil {
			c.panicked(in, hi, []byte{1}, sp.String(), pan)
			return
		}
		obs[i] = ob{want, got, true}
		if eqKVs(got, want) {
			if len(want) > 0 {
				c.label("iter_nonempty_result")
			} else {
				c.label("iter_empty_result")
			}
			continue
		}
		// a mismatch: is it exactly one of the listed findings?
		key := iterFailKeys[sp.kind]
		if sp.seekAt >= 0 {
			key = "iter-seek"
			if hi != 0 {
				key = kPrefixSeek
			}
		}
		var q quirks
		qkey := ""
		switch {
		case sp.kind == itIPfx:
			q, qkey = quirks{ipfxCarry: true}, kIterPrefixCarry
		case sp.kind == itRev && hi == 0 && in.kind == "badger":
			q, qkey = quirks{badgerEmptyAsNil: true}, kBadgerRevEmpty
		case sp.kind == itRev && hi != 0 && sp.start == nil && sp.seekAt < 0 && foreignBlocker(in.model, c.prefixes[hi]):
			q, qkey = quirks{prefixRevBlocked: true}, kPrefixRevCarry
		}
		if qkey != "" && eqKVs(got, expect(view, sp, q)) {
			key = qkey
			obs[i].on = false // a listed deviation: not an input to the cross-backend comparison
		} else if hi == 0 && len(view) > 0 && view[0].k == "" && eqKVs(got, expect(view[1:], sp, quirks{})) {
			// the stream is right except that the raw store never took the empty key (only reachable
			// when that finding is not listed, otherwise such writes are not generated for this backend)
			key = keyFor(in, hi, nil, key)
			obs[i].on = false
		}
		c.viol(key, "%s h%d: %s %s yields %s, reference map yields %s (view content %s)", in.kind, hi, why, sp, hxs(got), hxs(want), hxs(view))
	}
	for i := range obs {
		for j := i + 1; j < len(obs); j++ {
			if obs[i].on && obs[j].on && eqKVs(obs[i].want, obs[j].want) && !eqKVs(obs[i].got, obs[j].got) {
				c.viol("cross-backend-iter", "h%d %s: %s yields %s, %s yields %s", hi, sp, kinds[i], hxs(obs[i].got), kinds[j], hxs(obs[j].got))
			}
		}
	}
}

// sweep: the whole content of every handle, forwards, backwards and key by key.
func (c *tcase) sweep(why string) {
	for hi := range c.prefixes {
		if c.abort {
			return
		}
		c.checkIter(hi, iterSpec{kind: itFwd, seekAt: -1}, why)
		c.checkIter(hi, iterSpec{kind: itRev, seekAt: -1}, why)
	}
	for _, e := range c.mem().view(nil) {
		if c.abort {
			return
		}
		c.lookup(0, []byte(e.k), 0, "lookup", why)
	}
}

func (c *tcase) opReopen() {
	// batches of the closed store are gone with it (never written: they must leave no trace)
	for si, s := range c.slots {
		if s != nil {
			c.logf("b%d abandoned", si)
			c.slots[si] = nil
		}
	}
	c.logf("close+reopen")
	c.label("op_reopen")
	if c.effDelete {
		c.reopenAfterDelete = true
	}
	for _, in := range c.insts {
		if pan := guard(func() { in.raw.Close() }); pan != nil {
			c.panicked(in, 0, []byte{1}, "Close", pan)
			return
		}
		var err error
		if pan := guard(func() { err = in.open() }); pan != nil || err != nil {
			c.viol("reopen-failed", "%s: reopen failed: %v %v", in.kind, err, pan)
			c.abort = true
			return
		}
		in.mkViews(c.prefixes)
	}
	c.sweep("after close+reopen:")
}

func runHistory(t *rapid.T) {
	vstat.Eval()
	c := &tcase{t: t, labels: map[string]bool{}}
	root, err := os.MkdirTemp(scratchBase(), "c19-")
	if err != nil {
		t.Fatalf("scratch dir: %v", err)
	}
	defer os.RemoveAll(root)
	c.prefixes = [][]byte{nil, genPrefix(t, "p1"), genPrefix(t, "p2")}
	defer func() { // runs on a failing case too (rapid fails by panicking)
		for _, in := range c.insts {
			if in.raw != nil {
				guard(func() { in.raw.Close() })
			}
		}
	}()
	for _, kind := range kinds {
		in := &inst{kind: kind, dir: filepath.Join(root, kind), model: map[string][]byte{}}
		if kind != "mem" {
			if err := os.MkdirAll(in.dir, 0o755); err != nil {
				t.Fatalf("mkdir: %v", err)
			}
		}
		if err := in.open(); err != nil {
			t.Fatalf("open %s: %v", kind, err)
		}
		in.mkViews(c.prefixes)
		c.insts = append(c.insts, in)
	}
	maxOps := 40
	if vstat.Tier() == "thorough" {
		maxOps = 60
	}
	n := rapid.IntRange(1, maxOps).Draw(t, "nops")
	ops := []string{
		"set", "set", "set", "set", "set", "set", "set",
		"del", "del", "del",
		"bnew", "bnew", "bnew", "badd", "badd", "bfin", "bfin", "bfin",
		"get", "get", "get", "get",
		"iter", "iter", "iter", "iter", "iter", "iter", "iter", "iter", "iter",
		"reopen", "sweep",
	}
	// some content first, so that bounds and prefixes have neighbours to cut between
	for i, npre := 0, rapid.IntRange(0, 10).Draw(t, "npreload"); i < npre && !c.abort; i++ {
		c.opSet()
	}
	for i := 0; i < n && !c.abort; i++ {
		switch rapid.SampledFrom(ops).Draw(t, "op") {
		case "set":
			c.opSet()
		case "del":
			c.opDelete()
		case "bnew":
			c.opBatchNew()
		case "badd":
			c.opBatchAdd()
		case "bfin":
			c.opBatchFinish()
		case "get":
			c.opLookup()
		case "iter":
			c.opIter()
		case "reopen":
			c.opReopen()
		case "sweep":
			c.sweep("")
		}
	}
	if !c.abort {
		// batches still open here are abandoned: the final sweep must not see them
		c.sweep("at the end:")
	}
	if c.abort {
		vstat.Label("case_cut_short_by_listed_finding")
	}
	for l := range c.labels {
		vstat.Label(l)
	}
	vstat.Label(fmt.Sprintf("final_keys_%s", bucket(len(c.mem().model))))
	if c.effDelete {
		vstat.Label("has_effective_delete")
	}
	if c.reopenAfterDelete {
		vstat.Label("nt_reopen_after_delete")
	}
	if c.reopenAfterDelete || c.cutShared {
		vstat.NonTrivial(fmt.Sprintf("%x|%v", c.prefixes[1:], c.hist))
		if vstat.WantSample() {
			vstat.Sample(map[string]interface{}{"view_prefixes": fmt.Sprintf("%x", c.prefixes[1:]), "history": c.hist, "final_keys": len(c.mem().model)})
		}
	}
}

func bucket(n int) string {
	switch {
	case n == 0:
		return "0"
	case n <= 3:
		return "1-3"
	case n <= 8:
		return "4-8"
	default:
		return "9+"
	}
}

// TestBackendsHistory: the model-based machine over all four backends and their prefix views.
func TestBackendsHistory(t *testing.T) {
	rapid.Check(t, runHistory)
}

// ---------------------------------------------------------------- regressions of the listed findings
//
// Each reproduces one finding deterministically and reports it through vstat.Violation, so the finding
// stays observed while the machine above steps around it.  If a finding is repaired the test simply passes.

func regDir(t *testing.T, name string) string {
	d, err := os.MkdirTemp(scratchBase(), "c19-"+name+"-")
	if err != nil {
		t.Fatal(err)
	}
	t.Cleanup(func() { os.RemoveAll(d) })
	return d
}

func drain(it dbm.Iterator) (out []kv) {
	defer it.Close()
	for ; it.Valid(); it.Next() {
		out = append(out, kv{string(it.Key()), string(it.Value())})
	}
	return
}

func TestRegressionBoltEmptyKey(t *testing.T) {
	vstat.Eval()
	vstat.NonTrivial("regression:" + kBoltEmptyKey)
	d, err := dbm.NewBoltDB("c19", regDir(t, "bolt"), 1)
	if err != nil {
		t.Fatal(err)
	}
	defer d.Close()
	ref := dbm.NewMemDB()
	for _, db := range []dbm.DB{ref, d} {
		db.Set(nil, []byte("v"))
		b := db.NewBatch()
		b.Set([]byte{}, []byte("w"))
		b.Set([]byte{1}, []byte("x"))
		b.Write()
	}
	if got, want := d.Get(nil), ref.Get(nil); !bytes.Equal(got, want) {
		vstat.Violation(t, P, kBoltEmptyKey, "BoltDB: Set(nil,'v') then batch{Set('',w),Set(01,x)}.Write(): Get(nil) = %s, MemDB (reference map) = %s; iteration %s", hx(got), hx(want), hxs(drain(d.Iterator(nil, nil))))
	}
}

func TestRegressionBadgerEmptyKey(t *testing.T) {
	vstat.Eval()
	vstat.NonTrivial("regression:" + kBadgerEmptyKey)
	d, err := dbm.NewBadgerDB("c19", regDir(t, "badger"), 1)
	if err != nil {
		t.Fatal(err)
	}
	defer d.Close()
	d.Set(nil, []byte("v"))
	var got []byte
	panGet := guard(func() { got = d.Get(nil) })
	panDel := guard(func() { d.Delete(nil) })
	all := drain(d.Iterator(nil, nil))
	if panGet != nil || panDel != nil || !bytes.Equal(got, []byte("v")) {
		vstat.Violation(t, P, kBadgerEmptyKey, "BadgerDB: Set(nil,'v'): Get(nil) = %s (panic: %v), Delete(nil) panic: %v, content %s; a reference map answers 'v' and deletes quietly", hx(got), panGet, panDel, hxs(all))
	}
}

// The crash happens in a goroutine started by badgerBatch.Commit, so it cannot be recovered: the
// scenario runs in a child process (this test binary, TestHelperBadgerBatchReuse).
func TestRegressionBadgerBatchReuse(t *testing.T) {
	vstat.Eval()
	vstat.NonTrivial("regression:" + kBadgerBatchReuse)
	exe, err := os.Executable()
	if err != nil {
		t.Fatal(err)
	}
	cmd := exec.Command(exe, "-test.run", "^TestHelperBadgerBatchReuse$", "-test.v")
	cmd.Dir = regDir(t, "helper")
	cmd.Env = append(os.Environ(), "C19_HELPER=1", "VERIF_STATS=", "VERIF_SCRATCH="+cmd.Dir, "TMPDIR="+cmd.Dir)
	out, err := cmd.CombinedOutput()
	if err == nil && bytes.Contains(out, []byte("C19-HELPER second batch visible")) {
		return
	}
	if _, ran := err.(*exec.ExitError); err != nil && !ran {
		t.Fatalf("cannot run the helper process: %v", err) // infrastructure, not a finding
	}
	reason := "second fill of the batch is not visible"
	for _, line := range strings.Split(string(out), "\n") {
		if strings.HasPrefix(line, "panic:") {
			reason = "process died: " + strings.Replace(line, "panic:", "panic ->", 1)
		}
	}
	vstat.Violation(t, P, kBadgerBatchReuse, "BadgerDB: b.Set(01,a); b.Commit(); b.Reset(); b.Set(02,b); b.Commit(): %s (exit: %v)", reason, err)
}

func TestHelperBadgerBatchReuse(t *testing.T) {
	if os.Getenv("C19_HELPER") == "" {
		t.Skip("helper of TestRegressionBadgerBatchReuse")
	}
	d, err := dbm.NewBadgerDB("c19", scratchBase(), 1)
	if err != nil {
		t.Fatal(err)
	}
	b := d.NewBatch()
	b.Set([]byte{1}, []byte("a"))
	if err := b.Commit(); err != nil {
		t.Fatal(err)
	}
	b.Reset()
	b.Set([]byte{2}, []byte("b"))
	if err := b.Commit(); err != nil {
		t.Fatal(err)
	}
	if bytes.Equal(d.Get([]byte{2}), []byte("b")) {
		fmt.Println("C19-HELPER second batch visible")
	}
	d.Close()
}

func TestRegressionBadgerReverseEmptyStart(t *testing.T) {
	vstat.Eval()
	vstat.NonTrivial("regression:" + kBadgerRevEmpty)
	d, err := dbm.NewBadgerDB("c19", regDir(t, "badger"), 1)
	if err != nil {
		t.Fatal(err)
	}
	defer d.Close()
	ref := dbm.NewMemDB()
	for _, db := range []dbm.DB{ref, d} {
		db.Set([]byte{1}, []byte("a"))
		db.Set([]byte{2}, []byte("b"))
	}
	got, want := drain(d.ReverseIterator([]byte{}, nil)), drain(ref.ReverseIterator([]byte{}, nil))
	if !eqKVs(got, want) {
		vstat.Violation(t, P, kBadgerRevEmpty, "BadgerDB {01,02}: ReverseIterator('',nil) yields %s, MemDB/GoLevelDB/BoltDB and the reference map (keys <= '') yield %s", hxs(got), hxs(want))
	}
}

func TestRegressionIteratePrefixCarry(t *testing.T) {
	vstat.Eval()
	vstat.NonTrivial("regression:" + kIterPrefixCarry)
	d := dbm.NewMemDB()
	d.Set([]byte{0x01, 0xff}, []byte("a"))
	d.Set([]byte{0x01, 0xff, 0x07}, []byte("b"))
	d.Set([]byte{0x02}, []byte("foreign"))
	got := drain(dbm.IteratePrefix(d, []byte{0x01, 0xff}))
	want := drain(d.NewIteratorWithPrefix([]byte{0x01, 0xff}))
	if len(got) != 2 {
		vstat.Violation(t, P, kIterPrefixCarry, "MemDB {01ff,01ff07,02}: IteratePrefix(01ff) yields %s, keys with the prefix are %s", hxs(got), hxs(want))
	}
}

func TestRegressionPrefixReverseCarry(t *testing.T) {
	vstat.Eval()
	vstat.NonTrivial("regression:" + kPrefixRevCarry)
	d := dbm.NewMemDB()
	d.Set([]byte{0x01, 0xff}, []byte("a"))
	d.Set([]byte{0x01, 0xff, 0x07}, []byte("b"))
	d.Set([]byte{0x02}, []byte("foreign"))
	got := drain(dbm.NewPrefixDB(d, []byte{0x01, 0xff}).ReverseIterator(nil, nil))
	if len(got) != 2 {
		vstat.Violation(t, P, kPrefixRevCarry, "MemDB {01ff,01ff07,02}: NewPrefixDB(01ff).ReverseIterator(nil,nil) yields %s, the view holds 07 and ''", hxs(got))
	}
}

func TestRegressionLevelExistDeleted(t *testing.T) {
	vstat.Eval()
	vstat.NonTrivial("regression:" + kLevelExistDeleted)
	d, err := dbm.NewGoLevelDB("c19", regDir(t, "level"), 1)
	if err != nil {
		t.Fatal(err)
	}
	defer d.Close()
	d.Set([]byte{1}, []byte("a"))
	d.Delete([]byte{1})
	if ok, err := d.Exist([]byte{1}); ok {
		vstat.Violation(t, P, kLevelExistDeleted, "GoLevelDB: Set(01,a); Delete(01); Exist(01) = (%v, %v) while Has(01) = %v and Get(01) = %s", ok, err, d.Has([]byte{1}), hx(d.Get([]byte{1})))
	}
}

func TestRegressionPrefixSeek(t *testing.T) {
	vstat.Eval()
	vstat.NonTrivial("regression:" + kPrefixSeek)
	d := dbm.NewMemDB()
	for _, k := range []byte{1, 2, 3} {
		d.Set([]byte{0x61, k}, []byte{k})
	}
	it := dbm.NewPrefixDB(d, []byte{0x61}).Iterator(nil, nil)
	it.Seek([]byte{3})
	got := drain(it)
	raw := d.Iterator(nil, nil)
	raw.Seek([]byte{0x61, 3})
	if want := drain(raw); len(got) != len(want) {
		vstat.Violation(t, P, kPrefixSeek, "MemDB {6101,6102,6103}: NewPrefixDB(61).Iterator(nil,nil).Seek(03) then yields %s; the same on the raw store yields %s", hxs(got), hxs(want))
	}
}
