package consim

import (
	"sync"

	"github.com/lianxiangcloud/linkchain/types"

	"verifharness/world"
)

// RealApp plugs a real LinkApplication (from package world) into the simulator.  Only the validator list is
// scripted: the genesis contracts that would provide it are not deployed, so the adapter answers the three
// validator questions with the simulation's fixed set and passes everything else through.
type RealApp struct {
	W      *world.World
	Vals   []*types.Validator
	ValsAt func(h uint64) []*types.Validator // optional: the scripted answer of GetValidators(h) / CommitBlock at height h
	Before func(b *types.Block)              // optional: called just before / just after the application's CommitBlock
	After  func(b *types.Block)
	// FastSync: hand blocks to the application the way the block-sync reactor does (CommitBlock(..., fastsync=true), then
	// ApplyBlock - the same two calls in the same order as finalizeCommit, only the flag differs)
	FastSync bool
	mu       sync.Mutex
	Commits  []CommitRec
}

func (a *RealApp) vals(h uint64) []*types.Validator {
	if a.ValsAt != nil {
		return a.ValsAt(h)
	}
	return a.Vals
}

func (a *RealApp) Height() uint64                                   { return a.W.App.Height() }
func (a *RealApp) LoadBlockMeta(h uint64) *types.BlockMeta          { return a.W.App.LoadBlockMeta(h) }
func (a *RealApp) LoadBlock(h uint64) *types.Block                  { return a.W.App.LoadBlock(h) }
func (a *RealApp) LoadBlockPart(h uint64, i int) *types.Part        { return a.W.App.LoadBlockPart(h, i) }
func (a *RealApp) LoadBlockCommit(h uint64) *types.Commit           { return a.W.App.LoadBlockCommit(h) }
func (a *RealApp) LoadSeenCommit(h uint64) *types.Commit            { return a.W.App.LoadSeenCommit(h) }
func (a *RealApp) GetValidators(h uint64) []*types.Validator        { return a.vals(h) }
func (a *RealApp) GetRecoverValidators(h uint64) []*types.Validator { return a.vals(h) }
func (a *RealApp) SetLastChangedVals(h uint64, v []*types.Validator) {
	a.W.App.SetLastChangedVals(h, v)
}
func (a *RealApp) CreateBlock(height uint64, maxTxs int, gasLimit uint64, timeUnix uint64) *types.Block {
	return a.W.App.CreateBlock(height, maxTxs, gasLimit, timeUnix)
}
func (a *RealApp) PreRunBlock(b *types.Block)     { a.W.App.PreRunBlock(b) }
func (a *RealApp) CheckBlock(b *types.Block) bool { return a.W.App.CheckBlock(b) }
func (a *RealApp) CommitBlock(b *types.Block, parts *types.PartSet, seen *types.Commit, fastsync bool) ([]*types.Validator, error) {
	if a.Before != nil {
		a.Before(b)
	}
	_, err := a.W.App.CommitBlock(b, parts, seen, fastsync || a.FastSync)
	if err != nil {
		return nil, err
	}
	if a.After != nil {
		a.After(b)
	}
	round := -1
	if fp := seen.FirstPrecommit(); fp != nil {
		round = fp.Round
	}
	a.mu.Lock()
	a.Commits = append(a.Commits, CommitRec{b.Height, b.Hash(), round})
	a.mu.Unlock()
	return a.vals(b.Height), nil
}
