package consim

import (
	"testing"

	"github.com/lianxiangcloud/linkchain/libs/log"
)

// A fair schedule with 4 correct validators commits blocks.
func TestSmokeFair(t *testing.T) {
	log.Root().SetHandler(log.DiscardHandler())
	vals := []*ValKey{DetVal(0, 1), DetVal(1, 1), DetVal(2, 1), DetVal(3, 1)}
	n := NewNet(vals, map[int]bool{}, true)
	defer n.Close()
	for i := range vals {
		if _, err := n.AddNode(i); err != nil {
			t.Fatal(err)
		}
	}
	for _, nd := range n.Nodes {
		n.Start(nd)
	}
	for step := 0; step < 400; step++ {
		progressed := false
		for k := range n.Pool {
			for _, nd := range n.Nodes {
				if !nd.Delivered[k] {
					n.Deliver(nd, k)
					progressed = true
				}
			}
		}
		if !progressed {
			// fire the newest timeout of every node
			for _, nd := range n.Nodes {
				sch := nd.Ticker.Scheduled()
				for j := len(sch) - 1; j >= 0; j-- {
					if !nd.Fired[j] {
						n.FireTimeout(nd, j)
						break
					}
				}
			}
		}
		if n.Nodes[0].Script.Height() >= 3 {
			break
		}
	}
	for _, nd := range n.Nodes {
		t.Logf("node %d height %d crashed=%v commits=%v", nd.Idx, nd.Script.Height(), nd.Crashed, nd.Script.Commits)
	}
	for _, l := range n.Trace {
		t.Log(l)
	}
	if n.Nodes[0].Script.Height() < 3 {
		t.Fatalf("no progress: pool=%d", len(n.Pool))
	}
}
