// Package consim runs N real consensus.ConsensusState machines in one process without goroutines of their
// own: every message delivery, timeout firing and Byzantine action is an explicit call made by the harness
// (through the verif build-tag hooks), so a whole run is a function of the scheduler's decisions.
package consim

import (
	"fmt"
	"sort"
	"sync"
	"time"

	cfg "github.com/lianxiangcloud/linkchain/config"
	"github.com/lianxiangcloud/linkchain/consensus"
	"github.com/lianxiangcloud/linkchain/libs/common"
	"github.com/lianxiangcloud/linkchain/libs/crypto"
	dbm "github.com/lianxiangcloud/linkchain/libs/db"
	"github.com/lianxiangcloud/linkchain/libs/log"
	"github.com/lianxiangcloud/linkchain/libs/ser"
	"github.com/lianxiangcloud/linkchain/metrics"
	"github.com/lianxiangcloud/linkchain/types"
)

// ChainID of every simulated network.
const ChainID = "consim-chain"

// PartSize used by simulated proposers (small, so blocks have several parts).
const PartSize = 256

var initOnce sync.Once

// Init performs the process-wide set-up every real start-up does (quiet logger, metrics singleton).
func Init() {
	initOnce.Do(func() {
		log.Root().SetHandler(log.DiscardHandler())
		sk := crypto.GenPrivKeyEd25519()
		metrics.PrometheusMetricInstance.Init(cfg.DefaultConfig(), sk.PubKey(), log.NewNopLogger())
		metrics.PrometheusMetricInstance.SetRole(types.NodePeer)
	})
}

// ---------------------------------------------------------------- keys

// ValKey is a validator identity the harness holds the key of.
type ValKey struct {
	Priv     crypto.PrivKeyEd25519
	Pub      crypto.PubKey
	Addr     crypto.Address
	Power    int64
	CoinBase common.Address
}

// DetVal derives a validator key deterministically.
func DetVal(i int, power int64) *ValKey {
	priv := crypto.GenPrivKeyEd25519FromSecret([]byte(fmt.Sprintf("consim-validator-%d", i)))
	pub := priv.PubKey()
	return &ValKey{Priv: priv, Pub: pub, Addr: pub.Address(), Power: power, CoinBase: common.BytesToAddress([]byte(fmt.Sprintf("coinbase-%d", i)))}
}

// SignReq is one signing request a node made to its validator key.
type SignReq struct {
	Kind     string // "vote" | "proposal"
	Vote     *types.Vote
	Proposal *types.Proposal
}

// RecPV is a PrivValidator that signs everything it is asked to and records the requests
// (the outbound tap: no double-sign protection here on purpose, the state machine's own discipline is under test).
type RecPV struct {
	Key    *ValKey
	mu     sync.Mutex
	Log    []SignReq
	OnSign func(SignReq)
}

func (p *RecPV) GetAddress() crypto.Address        { return p.Key.Addr }
func (p *RecPV) GetPubKey() crypto.PubKey          { return p.Key.Pub }
func (p *RecPV) UpdatePrikey(priv crypto.PrivKey)  {}
func (p *RecPV) GetPrikey() crypto.PrivKey         { return p.Key.Priv }
func (p *RecPV) SignData(d []byte) ([]byte, error) { s, e := p.Key.Priv.Sign(d); return s.Bytes(), e }
func (p *RecPV) SignVote(chainID string, v *types.Vote) error {
	sig, err := p.Key.Priv.Sign(v.SignBytes(chainID))
	if err != nil {
		return err
	}
	v.Signature = sig
	p.mu.Lock()
	r := SignReq{Kind: "vote", Vote: v.Copy()}
	p.Log = append(p.Log, r)
	p.mu.Unlock()
	if p.OnSign != nil {
		p.OnSign(r)
	}
	return nil
}
func (p *RecPV) SignVoteWithoutSave(chainID string, v *types.Vote) error {
	return p.SignVote(chainID, v)
}
func (p *RecPV) SignProposal(chainID string, pr *types.Proposal) error {
	sig, err := p.Key.Priv.Sign(pr.SignBytes(chainID))
	if err != nil {
		return err
	}
	pr.Signature = sig
	p.mu.Lock()
	cp := *pr
	r := SignReq{Kind: "proposal", Proposal: &cp}
	p.Log = append(p.Log, r)
	p.mu.Unlock()
	if p.OnSign != nil {
		p.OnSign(r)
	}
	return nil
}
func (p *RecPV) SignHeartbeat(chainID string, hb *types.Heartbeat) error {
	sig, err := p.Key.Priv.Sign(hb.SignBytes(chainID))
	hb.Signature = sig
	return err
}

// ---------------------------------------------------------------- scripted application

// CommitRec is one CommitBlock call.
type CommitRec struct {
	Height uint64
	Hash   common.Hash
	Round  int
}

type stored struct {
	block *types.Block
	parts *types.PartSet
	seen  *types.Commit
}

// ScriptApp is a thin deterministic BlockChainApp: empty blocks, an in-memory block store, a fixed validator list
// (or a generated per-height update), and a record of every commit.
type ScriptApp struct {
	mu     sync.Mutex
	blocks map[uint64]*stored
	height uint64
	Vals   func(height uint64) []*types.Validator
	// RecoverVals, if set, is the recover validator set (consensus switches to it when a height stays undecided for
	// timeoutRecover); nil = the regular set
	RecoverVals func(height uint64) []*types.Validator
	Commits     []CommitRec
	Salt        uint64 // makes blocks of different proposers/nodes differ
	// CheckHook, if set, can veto blocks (used by tests of the application check)
	CheckHook func(*types.Block) bool
}

// NewScriptApp creates the store with a genesis block at height 0.
func NewScriptApp(vals func(uint64) []*types.Validator, salt uint64) *ScriptApp {
	a := &ScriptApp{blocks: map[uint64]*stored{}, Vals: vals, Salt: salt}
	g := &types.Block{
		Header:     &types.Header{ChainID: ChainID, Height: 0, Time: 1569409200},
		Data:       &types.Data{},
		LastCommit: &types.Commit{},
	}
	a.blocks[0] = &stored{block: g, parts: g.MakePartSet(PartSize)}
	return a
}

func (a *ScriptApp) Height() uint64 { a.mu.Lock(); defer a.mu.Unlock(); return a.height }
func (a *ScriptApp) get(h uint64) *stored {
	a.mu.Lock()
	defer a.mu.Unlock()
	return a.blocks[h]
}

// Prune forgets what BlockStore.DeleteHistoricalData(keep) deletes: every block (meta, parts, commits) of a height
// <= Height()-keep.
func (a *ScriptApp) Prune(keep uint64) (deleted int) {
	a.mu.Lock()
	defer a.mu.Unlock()
	if keep > a.height {
		return 0
	}
	for h := uint64(1); h <= a.height-keep; h++ {
		if _, ok := a.blocks[h]; ok {
			delete(a.blocks, h)
			deleted++
		}
	}
	return deleted
}

func (a *ScriptApp) LoadBlockMeta(h uint64) *types.BlockMeta {
	if s := a.get(h); s != nil {
		return types.NewBlockMeta(s.block, s.parts)
	}
	return nil
}
func (a *ScriptApp) LoadBlock(h uint64) *types.Block {
	if s := a.get(h); s != nil {
		return s.block
	}
	return nil
}
func (a *ScriptApp) LoadBlockPart(h uint64, i int) *types.Part {
	if s := a.get(h); s != nil && i >= 0 && i < s.parts.Total() {
		return s.parts.GetPart(i)
	}
	return nil
}
func (a *ScriptApp) LoadBlockCommit(h uint64) *types.Commit {
	if s := a.get(h + 1); s != nil {
		return s.block.LastCommit
	}
	return nil
}
func (a *ScriptApp) LoadSeenCommit(h uint64) *types.Commit {
	if s := a.get(h); s != nil {
		return s.seen
	}
	return nil
}
func (a *ScriptApp) GetValidators(h uint64) []*types.Validator { return a.Vals(h) }
func (a *ScriptApp) GetRecoverValidators(h uint64) []*types.Validator {
	if a.RecoverVals != nil {
		return a.RecoverVals(h)
	}
	return a.Vals(h)
}
func (a *ScriptApp) SetLastChangedVals(uint64, []*types.Validator) {}

func (a *ScriptApp) CreateBlock(height uint64, maxTxs int, gasLimit uint64, timeUnix uint64) *types.Block {
	prev := a.get(height - 1)
	if prev == nil || height != a.Height()+1 {
		return nil
	}
	b := &types.Block{
		Header: &types.Header{
			Height:     height,
			Time:       1569409200 + height*10, // not the wall clock: block content is a function of the schedule only
			NumTxs:     0,
			TotalTxs:   prev.block.TotalTxs,
			ParentHash: prev.block.Hash(),
			GasLimit:   gasLimit,
			GasUsed:    a.Salt, // distinguishes blocks built by different nodes / attempts
		},
		Data: &types.Data{},
	}
	b.DataHash = b.Data.Hash()
	return b
}
func (a *ScriptApp) PreRunBlock(b *types.Block) {}
func (a *ScriptApp) CheckBlock(b *types.Block) bool {
	prev := a.get(b.Height - 1)
	if prev == nil || b.Height != a.Height()+1 || b.Header.ParentHash != prev.block.Hash() || b.DataHash != b.Data.Hash() {
		return false
	}
	if a.CheckHook != nil {
		return a.CheckHook(b)
	}
	return true
}
func (a *ScriptApp) CommitBlock(b *types.Block, parts *types.PartSet, seen *types.Commit, fastsync bool) ([]*types.Validator, error) {
	a.mu.Lock()
	defer a.mu.Unlock()
	if b.Height != a.height+1 {
		return nil, fmt.Errorf("commit of height %d on top of %d", b.Height, a.height)
	}
	a.blocks[b.Height] = &stored{block: b, parts: parts, seen: seen}
	a.height = b.Height
	round := -1
	if fp := seen.FirstPrecommit(); fp != nil {
		round = fp.Round
	}
	a.Commits = append(a.Commits, CommitRec{b.Height, b.Hash(), round})
	return a.Vals(b.Height), nil
}

// ---------------------------------------------------------------- nodes and the network

// Emitted is a message some validator put on the network.
type Emitted struct {
	From int // validator index (position in Net.Vals); -1 = fabricated by the harness without a validator key
	Msg  consensus.ConsensusMessage
	Byz  bool
}

// Node is one correct validator.
type Node struct {
	Idx       int
	CS        *consensus.ConsensusState
	Ticker    *consensus.VerifTicker
	PV        *RecPV
	App       consensus.BlockChainApp
	Script    *ScriptApp // nil when a real application is plugged in
	StatusDB  dbm.DB
	BlockExec *consensus.BlockExecutor
	Bus       *types.EventBus
	Crashed   interface{} // the recovered panic, if the node died
	Acked     []*types.Vote
	Events    []Event      // acknowledged votes and own signing requests, in the order they happened
	Delivered map[int]bool // indices into Net.Pool
	Fired     map[int]bool // indices into Ticker.Scheduled()
}

// Event is one entry of a node's observable history.
type Event struct {
	Kind string // "ack" (the node admitted this vote) | "sign" (the node asked its key to sign this)
	Vote *types.Vote
	Prop *types.Proposal
}

// Net is a simulated network.
type Net struct {
	Vals    []*ValKey
	Byz     map[int]bool
	Nodes   []*Node // correct nodes only; Nodes[i].Idx is the validator index
	Pool    []Emitted
	ValSet  *types.ValidatorSet
	GenDoc  *types.GenesisDoc
	Config  *cfg.ConsensusConfig
	Trace   []string
	MaxLog  int
	AppFor  func(idx int) (consensus.BlockChainApp, *ScriptApp) // how a node gets its application
	PoolFor func(idx int) consensus.Mempool                     // and its mempool (nil = MockMempool)
	StatusF func(idx int) dbm.DB
	// genuine: every vote a validator's key was really asked to sign (by a correct node through its signer, by the harness for
	// a validator it plays), by content.  The oracles decide "validly signed" from these books, not by running the verifier.
	genuine map[string]bool
}

func voteKey(v *types.Vote) string {
	return fmt.Sprintf("%x|%d|%d|%d|%s", []byte(v.ValidatorAddress), v.Type, v.Height, v.Round, v.BlockID.String())
}

// MarkGenuine records that the validator named in v signed exactly this content.
func (n *Net) MarkGenuine(v *types.Vote) {
	if n.genuine == nil {
		n.genuine = map[string]bool{}
	}
	n.genuine[voteKey(v)] = true
}

// TypesVals converts the key list into a validator list.
func TypesVals(vals []*ValKey) []*types.Validator {
	out := make([]*types.Validator, len(vals))
	for i, v := range vals {
		out[i] = &types.Validator{Address: v.Addr, PubKey: v.Pub, VotingPower: v.Power, CoinBase: v.CoinBase}
	}
	return out
}

// NewNet builds the genesis for the given validators; byz marks the validators the harness plays itself.
func NewNet(vals []*ValKey, byz map[int]bool, skipTimeoutCommit bool) *Net {
	Init()
	n := &Net{Vals: vals, Byz: byz, MaxLog: 600}
	gv := make([]types.GenesisValidator, len(vals))
	for i, v := range vals {
		gv[i] = types.GenesisValidator{PubKey: v.Pub, Power: v.Power, CoinBase: v.CoinBase}
	}
	n.GenDoc = &types.GenesisDoc{ChainID: ChainID, GenesisTime: "2019-09-25", ConsensusParams: types.DefaultConsensusParams(), Validators: gv}
	n.GenDoc.ConsensusParams.BlockGossip.BlockPartSizeBytes = PartSize
	n.ValSet = types.NewValidatorSet(TypesVals(vals))
	c := cfg.DefaultConsensusConfig()
	c.CreateEmptyBlocks = true
	c.CreateEmptyBlocksInterval = 0
	c.SkipTimeoutCommit = skipTimeoutCommit
	n.Config = c
	tv := TypesVals(vals)
	n.AppFor = func(idx int) (consensus.BlockChainApp, *ScriptApp) {
		a := NewScriptApp(func(uint64) []*types.Validator { return tv }, uint64(idx+1))
		return a, a
	}
	n.StatusF = func(int) dbm.DB { return dbm.NewMemDB() }
	return n
}

// Logf appends to the trace.
func (n *Net) Logf(f string, a ...interface{}) {
	if len(n.Trace) < n.MaxLog {
		n.Trace = append(n.Trace, fmt.Sprintf(f, a...))
	}
}

// AddNode creates the correct node for validator idx (not started: call Start).
func (n *Net) AddNode(idx int) (*Node, error) {
	types.UpdateBlockHeightZero(0)
	nd := &Node{Idx: idx, Delivered: map[int]bool{}, Fired: map[int]bool{}}
	nd.StatusDB = n.StatusF(idx)
	gd := *n.GenDoc
	// like node.NewNode: a status already in the database wins (a restart), otherwise it is made from the genesis document
	status, err := consensus.LoadStatus(nd.StatusDB)
	if err != nil {
		status, err = consensus.CreateStatusFromGenesisDoc(nd.StatusDB, &gd)
		if err != nil {
			return nil, err
		}
	}
	nd.App, nd.Script = n.AppFor(idx)
	ev := consensus.MockEvidencePool{}
	be := consensus.NewBlockExecutor(nd.StatusDB, log.NewNopLogger(), ev)
	cc := *n.Config
	var mp consensus.Mempool = consensus.MockMempool{}
	if n.PoolFor != nil {
		mp = n.PoolFor(idx)
	}
	nd.BlockExec = be
	nd.CS = consensus.NewConsensusState(&cc, status.Copy(), be, nd.App, mp, ev)
	nd.CS.SetLogger(log.NewNopLogger())
	nd.Bus = types.NewEventBus()
	nd.Bus.SetLogger(log.NewNopLogger())
	if err := nd.Bus.Start(); err != nil {
		return nil, err
	}
	nd.CS.SetEventBus(nd.Bus)
	nd.PV = &RecPV{Key: n.Vals[idx]}
	nd.PV.OnSign = func(r SignReq) {
		nd.Events = append(nd.Events, Event{Kind: "sign", Vote: r.Vote, Prop: r.Proposal})
		if r.Vote != nil {
			n.MarkGenuine(r.Vote)
		}
	}
	nd.CS.SetPrivValidator(nd.PV)
	nd.Ticker = consensus.NewVerifTicker()
	nd.CS.SetTimeoutTicker(nd.Ticker)
	nd.CS.VerifOnVoteAdded(fmt.Sprintf("consim-%d", idx), func(v *types.Vote) {
		nd.Acked = append(nd.Acked, v)
		nd.Events = append(nd.Events, Event{Kind: "ack", Vote: v})
	})
	n.Nodes = append(n.Nodes, nd)
	return nd, nil
}

// Close stops the per-node event bus goroutine.
func (n *Net) Close() {
	for _, nd := range n.Nodes {
		if nd.Bus != nil {
			nd.Bus.Stop()
		}
	}
}

func (n *Net) emit(from int, msgs []consensus.ConsensusMessage, byz bool) {
	for _, m := range msgs {
		n.Pool = append(n.Pool, Emitted{From: from, Msg: m, Byz: byz})
	}
}

// Inject puts a harness-made message on the network.
func (n *Net) Inject(from int, m consensus.ConsensusMessage) int {
	n.Pool = append(n.Pool, Emitted{From: from, Msg: m, Byz: true})
	return len(n.Pool) - 1
}

func (n *Net) after(nd *Node, rec interface{}, what string) {
	if rec != nil {
		nd.Crashed = rec
		n.Logf("node %d CRASHED during %s: %v", nd.Idx, what, rec)
		return
	}
	sent, rec2 := nd.CS.VerifDrainInternal()
	n.emit(nd.Idx, sent, false)
	if rec2 != nil {
		nd.Crashed = rec2
		n.Logf("node %d CRASHED while handling its own messages after %s: %v", nd.Idx, what, rec2)
	}
}

// Start fires the node's round-0 timeout of its current height (what scheduleRound0 + the ticker do).
func (n *Net) Start(nd *Node) {
	rs := nd.CS.GetRoundState()
	rec := nd.CS.VerifFireTimeout(rs.Height, 0, 1 /*RoundStepNewHeight*/, 0)
	n.after(nd, rec, "start")
}

// Deliver hands pool message k to node nd.
func (n *Net) Deliver(nd *Node, k int) {
	if nd.Crashed != nil {
		return
	}
	nd.Delivered[k] = true
	m := n.Pool[k]
	rec := nd.CS.VerifDeliver(m.Msg, fmt.Sprintf("peer-%d", m.From))
	n.after(nd, rec, fmt.Sprintf("delivery of message %d", k))
}

// RecoverTimeout lets the node's recover timer expire (as if timeoutRecover had passed since the height started).
func (n *Net) RecoverTimeout(nd *Node) {
	if nd.Crashed != nil {
		return
	}
	rec := nd.CS.VerifRecoverTimeout()
	n.after(nd, rec, "recover timer")
}

// FireTimeout fires the j-th timeout the node ever scheduled (stale ones included).
func (n *Net) FireTimeout(nd *Node, j int) {
	if nd.Crashed != nil {
		return
	}
	sch := nd.Ticker.Scheduled()
	if j < 0 || j >= len(sch) {
		return
	}
	nd.Fired[j] = true
	s := sch[j]
	rec := nd.CS.VerifFireTimeout(s.Height, s.Round, s.Step, s.Duration)
	n.after(nd, rec, fmt.Sprintf("timeout h=%d r=%d step=%d", s.Height, s.Round, s.Step))
}

// Describe renders a message for traces.
func Describe(m consensus.ConsensusMessage) string {
	switch v := m.(type) {
	case *consensus.VoteMessage:
		if v.Vote == nil {
			return "vote(nil)"
		}
		t := "prevote"
		if v.Vote.Type == types.VoteTypePrecommit {
			t = "precommit"
		}
		return fmt.Sprintf("%s h=%d r=%d val=%d block=%s", t, v.Vote.Height, v.Vote.Round, v.Vote.ValidatorIndex, short(v.Vote.BlockID.Hash))
	case *consensus.ProposalMessage:
		if v.Proposal == nil {
			return "proposal(nil)"
		}
		return fmt.Sprintf("proposal h=%d r=%d pol=%d parts=%d/%s", v.Proposal.Height, v.Proposal.Round, v.Proposal.POLRound, v.Proposal.BlockPartsHeader.Total, fmt.Sprintf("%x", []byte(v.Proposal.BlockPartsHeader.Hash))[:8])
	case *consensus.BlockPartMessage:
		if v.Part == nil {
			return "part(nil)"
		}
		return fmt.Sprintf("part h=%d r=%d idx=%d", v.Height, v.Round, v.Part.Index)
	}
	return fmt.Sprintf("%T", m)
}

func short(h common.Hash) string {
	if h == (common.Hash{}) {
		return "nil"
	}
	return h.Hex()[2:10]
}

// ---------------------------------------------------------------- Byzantine helpers

// SignedVote makes a vote by validator idx with arbitrary content.
func (n *Net) SignedVote(idx int, typ byte, height uint64, round int, id types.BlockID) *types.Vote {
	v := &types.Vote{
		ValidatorAddress: n.Vals[idx].Addr, ValidatorIndex: n.indexOf(idx), ValidatorSize: n.ValSet.Size(),
		Height: height, Round: round, Timestamp: time.Unix(1569409200, 0).UTC(), Type: typ, BlockID: id,
	}
	sig, _ := n.Vals[idx].Priv.Sign(v.SignBytes(ChainID))
	v.Signature = sig
	n.MarkGenuine(v)
	return v
}

// indexOf maps a key index to the validator's index in the (address-sorted) validator set.
func (n *Net) indexOf(idx int) int {
	i, _ := n.ValSet.GetByAddress(n.Vals[idx].Addr)
	return i
}

// KeyIndexOfValIndex is the inverse of indexOf.
func (n *Net) KeyIndexOfValIndex(vi int) int {
	addr, _ := n.ValSet.GetByIndex(vi)
	for i, v := range n.Vals {
		if string(v.Addr) == string(addr) {
			return i
		}
	}
	return -1
}

// ByzProposal builds a block on top of a correct node's view of the chain, signs a proposal for (height, round) with
// validator idx's key and returns the proposal and part messages.  mutate may change the block before it is cut into parts.
func (n *Net) ByzProposal(idx int, view *Node, height uint64, round int, polRound int, polID types.BlockID, salt uint64, mutate func(*types.Block)) ([]consensus.ConsensusMessage, *types.Block) {
	// the wall clock like an honest proposer (the real application refuses blocks much older than their parent; the
	// scripted application ignores the argument)
	b := view.App.CreateBlock(height, 1000, n.GenDoc.ConsensusParams.BlockSize.MaxGas, uint64(time.Now().Unix()))
	if b == nil {
		return nil, nil
	}
	if view.Script != nil {
		b.Header.GasUsed = 1000 + salt
	}
	b.Header.Coinbase = n.Vals[idx].CoinBase
	rs := view.CS.GetRoundState()
	st := view.CS.GetState()
	if height == types.BlockHeightOne {
		b.LastCommit = &types.Commit{}
	} else if rs.LastCommit != nil && rs.LastCommit.HasTwoThirdsMajority() {
		b.LastCommit = rs.LastCommit.MakeCommit()
	} else {
		return nil, nil
	}
	b.ChainID = st.ChainID
	b.LastBlockID = st.LastBlockID
	b.LastCommitHash = b.LastCommit.Hash()
	b.ConsensusHash = common.BytesToHash(st.ConsensusParams.Hash())
	b.ValidatorsHash = common.BytesToHash(st.Validators.Hash())
	if height > types.BlockHeightOne {
		// the mandatory fault-validator evidence, as an honest proposer computes it
		lastRound := b.LastCommit.FirstPrecommit().Round
		fvi := &types.FaultValidatorsEvidence{BlockHeight: height - 1, Round: lastRound}
		lv := st.LastValidators
		if lastRound == 0 {
			fvi.Proposer = lv.GetProposer().PubKey
		} else {
			fvi.FaultVal = lv.GetProposer().PubKey
			c := lv.Copy()
			c.IncrementAccum(lastRound)
			fvi.Proposer = c.GetProposer().PubKey
		}
		b.AddEvidence([]types.Evidence{fvi})
	}
	b.EvidenceHash = b.Evidence.Hash()
	if view.Script == nil {
		view.App.PreRunBlock(b) // real application: fills state hash, receipt hash, gas used
	}
	if mutate != nil {
		// like every receiver, work on the block as decoded from its bytes (PreRunBlock memoises a stale hash)
		var nb *types.Block
		if bz, err := ser.EncodeToBytes(b); err == nil && ser.DecodeBytes(bz, &nb) == nil {
			b = nb
		}
		mutate(b)
	}
	parts := b.MakePartSet(PartSize)
	p := types.NewProposal(height, round, parts.Header(), polRound, polID)
	p.Type = types.ProposalTypeNormal
	sig, _ := n.Vals[idx].Priv.Sign(p.SignBytes(ChainID))
	p.Signature = sig
	msgs := []consensus.ConsensusMessage{&consensus.ProposalMessage{Proposal: p}}
	for i := 0; i < parts.Total(); i++ {
		msgs = append(msgs, &consensus.BlockPartMessage{Height: height, Round: round, Part: parts.GetPart(i)})
	}
	return msgs, b
}

// ---------------------------------------------------------------- observations for the oracles

// PowerOf sums the voting power of the validator-set indices in idx.
func (n *Net) PowerOf(set map[int]bool) int64 {
	var p int64
	for vi := range set {
		_, v := n.ValSet.GetByIndex(vi)
		if v != nil {
			p += v.VotingPower
		}
	}
	return p
}

// MoreThanTwoThirds tells whether power exceeds 2/3 of the total.
func (n *Net) MoreThanTwoThirds(power int64) bool {
	return power*3 > n.ValSet.TotalVotingPower()*2
}

// ValidVote checks the signature and membership of a vote against the genesis validator set.
func (n *Net) ValidVote(v *types.Vote) bool {
	if v == nil || v.ValidatorIndex < 0 || v.ValidatorIndex >= n.ValSet.Size() {
		return false
	}
	addr, val := n.ValSet.GetByIndex(v.ValidatorIndex)
	if val == nil || string(addr) != string(v.ValidatorAddress) {
		return false
	}
	// from the books: the validator was asked to sign exactly this content (a signature that verifies over OTHER content - a
	// relabelled vote type, say - does not make a vote genuine, whatever the verifier under test thinks of it)
	return n.genuine[voteKey(v)]
}

// Commits returns, per height, the set of hashes the correct nodes committed.
func (n *Net) Commits() map[uint64]map[common.Hash][]int {
	out := map[uint64]map[common.Hash][]int{}
	for _, nd := range n.Nodes {
		if nd.Script == nil {
			continue
		}
		for _, c := range nd.Script.Commits {
			if out[c.Height] == nil {
				out[c.Height] = map[common.Hash][]int{}
			}
			out[c.Height][c.Hash] = append(out[c.Height][c.Hash], nd.Idx)
		}
	}
	return out
}

// SortedKeys helps deterministic iteration.
func SortedKeys(m map[int]bool) []int {
	out := make([]int, 0, len(m))
	for k := range m {
		out = append(out, k)
	}
	sort.Ints(out)
	return out
}

// SortedStrings returns the keys of m in order (rapid draws must not depend on map order).
func SortedStrings(m map[string]bool) []string {
	out := make([]string, 0, len(m))
	for k := range m {
		out = append(out, k)
	}
	sort.Strings(out)
	return out
}
