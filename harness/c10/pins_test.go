package c10

// TestNodeCachePins: "the root ... and lookups do not depend on caching".  Between a trie commit and the flush to disk
// the nodes live only in trie.Database's node cache, which is garbage collected by reference counts: a root is pinned
// with Reference(root, EmptyHash) - once per holder, the same root possibly several times (two snapshots with the same
// content) - and released with Dereference(root).  Model: a pin count per root and the content each root commits to.
// Oracle: as long as a root is pinned at least once (or was flushed), it opens from the database and reads exactly its
// content, whatever was pinned, released or flushed around it.
//
// Rules of use the generator respects (they are upstream's: the node cache only counts references it was told about):
// a root is released only as often as it was pinned, and the newest snapshot - the one the working trie continues from -
// keeps one pin until there is a newer one.

import (
	"bytes"
	"fmt"
	"testing"

	"github.com/lianxiangcloud/linkchain/libs/common"
	dbm "github.com/lianxiangcloud/linkchain/libs/db"
	"github.com/lianxiangcloud/linkchain/libs/trie"
	"pgregory.net/rapid"

	"verifharness/vstat"
)

func TestNodeCachePins(t *testing.T) {
	rapid.Check(t, func(t *rapid.T) {
		vstat.Eval()
		disk := copyDB{dbm.NewMemDB()}
		tdb := trie.NewDatabase(disk)
		tr, err := trie.New(common.EmptyHash, tdb)
		if err != nil {
			t.Fatalf("new: %v", err)
		}
		model := sortedModel{}
		content := map[common.Hash]sortedModel{} // what each snapshot root commits to
		pins := map[common.Hash]int{}
		flushed := map[common.Hash]bool{}
		var order []common.Hash // snapshot roots, oldest first (distinct)
		var latest common.Hash
		var hist []string
		doublePinned, releasedWhileDouble, capped := false, false, false

		verify := func(when string) bool {
			for _, r := range order {
				if pins[r] == 0 && !flushed[r] {
					continue
				}
				t2, err := trie.New(r, tdb)
				if err != nil {
					vstat.Violation(t, P, "node-cache:pinned-root-lost", "%s: root %x (pinned %d times, flushed %v) cannot be opened: %v ; history %v", when, r[:4], pins[r], flushed[r], err, hist)
					return false
				}
				for k, want := range content[r] {
					got, err := t2.TryGet([]byte(k))
					if err != nil || !bytes.Equal(got, want) {
						vstat.Violation(t, P, "node-cache:pinned-root-lost", "%s: root %x (pinned %d times, flushed %v): Get(%x) = %x, %v, want %x ; history %v", when, r[:4], pins[r], flushed[r], k, got, err, want, hist)
						return false
					}
				}
				if t2.Hash() != r {
					vstat.Violation(t, P, "node-cache:pinned-root-lost", "%s: root %x re-hashes to %x", when, r[:4], t2.Hash())
					return false
				}
			}
			return true
		}

		n := rapid.IntRange(2, 40).Draw(t, "nops")
		for i := 0; i < n; i++ {
			op := rapid.SampledFrom([]string{"upd", "upd", "del", "snapshot", "snapshot", "snapshot", "release", "release", "flush", "cap"}).Draw(t, "op")
			switch op {
			case "upd":
				k, v := genKey(t, "k"), genVal(t, "v")
				if len(v) == 0 {
					v = []byte{1}
				}
				tr.Update(k, v)
				model[string(k)] = v
				hist = append(hist, fmt.Sprintf("upd(%x)", k))
			case "del":
				ks := model.keys()
				if len(ks) == 0 {
					continue
				}
				k := ks[rapid.IntRange(0, len(ks)-1).Draw(t, "which")]
				tr.Delete([]byte(k))
				delete(model, k)
				hist = append(hist, fmt.Sprintf("del(%x)", k))
			case "snapshot":
				root, err := tr.Commit(nil)
				if err != nil {
					vstat.Violation(t, P, "commit-error", "Commit error %v", err)
					return
				}
				if _, seen := content[root]; !seen {
					cp := sortedModel{}
					for k, v := range model {
						cp[k] = v
					}
					content[root] = cp
					order = append(order, root)
				}
				tdb.Reference(root, common.EmptyHash)
				pins[root]++
				if pins[root] >= 2 && !flushed[root] {
					doublePinned = true
				}
				latest = root
				hist = append(hist, fmt.Sprintf("snapshot=%x(pins %d)", root[:4], pins[root]))
			case "release":
				var cands []common.Hash
				for _, r := range order {
					if pins[r] > 1 || (pins[r] == 1 && r != latest) {
						cands = append(cands, r)
					}
				}
				if len(cands) == 0 {
					continue
				}
				r := cands[rapid.IntRange(0, len(cands)-1).Draw(t, "which")]
				if pins[r] >= 2 && !flushed[r] {
					releasedWhileDouble = true
				}
				tdb.Dereference(r)
				pins[r]--
				hist = append(hist, fmt.Sprintf("release(%x)->pins %d", r[:4], pins[r]))
			case "cap":
				// the size-driven flush: the oldest cached nodes go to disk until the cache is below the limit; whatever is
				// pinned stays readable (from the cache and the disk together)
				lim := common.StorageSize(rapid.SampledFrom([]int{0, 64, 256, 1024, 4096, 1 << 20}).Draw(t, "caplimit"))
				if err := tdb.Cap(lim); err != nil {
					vstat.Violation(t, P, "commit-error", "db.Cap error %v", err)
					return
				}
				capped = true
				hist = append(hist, fmt.Sprintf("cap(%d)", int(lim)))
			case "flush":
				var cands []common.Hash
				for _, r := range order {
					if pins[r] > 0 && !flushed[r] {
						cands = append(cands, r)
					}
				}
				if len(cands) == 0 {
					continue
				}
				r := cands[rapid.IntRange(0, len(cands)-1).Draw(t, "which")]
				if err := tdb.Commit(r, false); err != nil {
					vstat.Violation(t, P, "commit-error", "db.Commit error %v", err)
					return
				}
				flushed[r] = true
				hist = append(hist, fmt.Sprintf("flush(%x)", r[:4]))
			}
			if op == "release" || op == "flush" || op == "snapshot" || op == "cap" {
				if !verify("after " + hist[len(hist)-1]) {
					return
				}
			}
		}
		if len(order) >= 2 {
			vstat.NonTrivial(fmt.Sprintf("%v", hist))
		}
		if doublePinned {
			vstat.Label("root_pinned_twice")
		}
		if capped && len(order) >= 2 {
			vstat.Label("node_cache_capped")
		}
		if releasedWhileDouble {
			vstat.Label("root_released_once_while_pinned_twice")
		}
		if vstat.WantSample() {
			vstat.Sample(map[string]interface{}{"test": "TestNodeCachePins", "history": hist})
		}
	})
}
