// C10 — the state trie root is a canonical commitment and its proofs are sound.
package c10

import (
	"bytes"
	"fmt"
	"sort"
	"strings"
	"testing"

	"github.com/lianxiangcloud/linkchain/libs/common"
	"github.com/lianxiangcloud/linkchain/libs/crypto"
	dbm "github.com/lianxiangcloud/linkchain/libs/db"
	"github.com/lianxiangcloud/linkchain/libs/log"
	"github.com/lianxiangcloud/linkchain/libs/trie"
	"pgregory.net/rapid"

	"verifharness/vstat"
)

const P = "C10"

func TestMain(m *testing.M) {
	log.Root().SetHandler(log.DiscardHandler())
	vstat.Main(m)
}

// ---------------------------------------------------------------- generators

var alphabet = []byte{0x00, 0x01, 0x0f, 0x10, 0x11, 0xf0, 0xff}

func genKey(t *rapid.T, label string) []byte {
	switch rapid.IntRange(0, 9).Draw(t, label+"_shape") {
	case 0: // long key with a long shared prefix
		n := rapid.IntRange(30, 40).Draw(t, label+"_len")
		k := bytes.Repeat([]byte{0xab}, n)
		tail := rapid.SliceOfN(rapid.SampledFrom(alphabet), 1, 3).Draw(t, label+"_tail")
		copy(k[n-len(tail):], tail)
		return k
	case 1: // arbitrary bytes
		return rapid.SliceOfN(rapid.Byte(), 1, 8).Draw(t, label+"_raw")
	default:
		return rapid.SliceOfN(rapid.SampledFrom(alphabet), 1, 5).Draw(t, label+"_k")
	}
}

func genVal(t *rapid.T, label string) []byte {
	switch rapid.IntRange(0, 9).Draw(t, label+"_shape") {
	case 0:
		return nil // empty value == delete
	case 1, 2:
		n := rapid.IntRange(33, 90).Draw(t, label+"_len")
		b := rapid.Byte().Draw(t, label+"_fill")
		return bytes.Repeat([]byte{b}, n)
	default:
		return rapid.SliceOfN(rapid.Byte(), 1, 12).Draw(t, label+"_v")
	}
}

// ---------------------------------------------------------------- helpers

type proofList struct{ nodes [][]byte }

func (p *proofList) Put(key []byte, value []byte) error {
	p.nodes = append(p.nodes, common.CopyBytes(value))
	return nil
}

// proofDB is what a verifier builds from a list of node blobs: every blob is stored under its own hash.
type proofDB map[string][]byte

func (p proofDB) Load(key []byte) ([]byte, error) { return p[string(key)], nil }
func (p proofDB) Exist(key []byte) (bool, error)  { _, ok := p[string(key)]; return ok, nil }
func toDB(nodes [][]byte) proofDB {
	db := proofDB{}
	for _, n := range nodes {
		db[string(crypto.Keccak256(n))] = n
	}
	return db
}

// copyDB is a MemDB whose batches copy keys and values on Set/Delete, like the LevelDB batch the
// node database sits on in production.  (trie.Database.Commit hands every preimage to the batch
// through one re-used key buffer; MemDB's own batch keeps the caller's slice, so with a bare MemDB
// all preimages of one commit end up under the last key.  That is an aliasing hazard between
// libs/trie/database.go secureKey and libs/db/mem_batch.go, not reachable with the production
// backend and outside what C10 states, so the harness does not trip over it.)
type copyDB struct{ *dbm.MemDB }
type copyBatch struct{ dbm.Batch }

func (d copyDB) NewBatch() dbm.Batch { return copyBatch{d.MemDB.NewBatch()} }
func (b copyBatch) Set(key, value []byte) {
	b.Batch.Set(common.CopyBytes(key), common.CopyBytes(value))
}
func (b copyBatch) Delete(key []byte) { b.Batch.Delete(common.CopyBytes(key)) }

type kvTrie interface {
	TryGet(key []byte) ([]byte, error)
	TryUpdate(key, value []byte) error
	TryDelete(key []byte) error
	Hash() common.Hash
	Prove(key []byte, fromLevel uint, proofDb dbm.Putter) error
	NodeIterator(start []byte) trie.NodeIterator
}

type sortedModel map[string][]byte

func (m sortedModel) keys() []string {
	ks := make([]string, 0, len(m))
	for k := range m {
		ks = append(ks, k)
	}
	sort.Strings(ks)
	return ks
}

func hasProperPrefixPair(m sortedModel) bool {
	ks := m.keys()
	for i := 0; i+1 < len(ks); i++ {
		if len(ks[i]) < len(ks[i+1]) && strings.HasPrefix(ks[i+1], ks[i]) {
			return true
		}
	}
	return false
}

// checkProofs: for a present/absent key, Prove + VerifyProof gives exactly the model answer; every
// tampering fails or still gives the true answer.
func checkProofs(t *rapid.T, tr kvTrie, keyOf func([]byte) []byte, model sortedModel, other [][]byte, key []byte, tag string) {
	root := tr.Hash()
	var pl proofList
	if err := tr.Prove(keyOf(key), 0, &pl); err != nil { // SecureTrie.Prove takes the hashed key, like VerifyProof
		vstat.Violation(t, P, "prove-error", "%s: Prove(%x) error %v", tag, key, err)
		return
	}
	want := model[string(key)]
	vkey := keyOf(key)
	got, _, err := trie.VerifyProof(root, vkey, toDB(pl.nodes))
	if len(model) == 0 {
		// empty trie: nothing to prove against the empty root
		return
	}
	if err != nil {
		vstat.Violation(t, P, "proof-complete", "%s: honest proof for key %x rejected: %v (present=%v)", tag, key, err, want != nil)
		return
	}
	if !bytes.Equal(got, want) {
		vstat.Violation(t, P, "proof-sound", "%s: honest proof for key %x gives %x, content has %x", tag, key, got, want)
		return
	}
	vstat.Label("proof_depth_" + fmt.Sprint(min(len(pl.nodes), 6)))
	if want == nil {
		vstat.Label("proof_absent")
	} else {
		vstat.Label("proof_present")
	}
	// tamperings
	nt := rapid.IntRange(1, 4).Draw(t, tag+"_ntamper")
	for i := 0; i < nt; i++ {
		nodes := make([][]byte, len(pl.nodes))
		for j := range pl.nodes {
			nodes[j] = common.CopyBytes(pl.nodes[j])
		}
		kind := rapid.IntRange(0, 5).Draw(t, tag+"_tk")
		claimKey := vkey
		switch kind {
		case 0: // flip one byte of one node
			if len(nodes) == 0 {
				continue
			}
			j := rapid.IntRange(0, len(nodes)-1).Draw(t, tag+"_tj")
			o := rapid.IntRange(0, len(nodes[j])-1).Draw(t, tag+"_to")
			nodes[j][o] ^= byte(rapid.IntRange(1, 255).Draw(t, tag+"_tx"))
		case 1: // drop a node
			if len(nodes) == 0 {
				continue
			}
			j := rapid.IntRange(0, len(nodes)-1).Draw(t, tag+"_tj")
			nodes = append(nodes[:j], nodes[j+1:]...)
		case 2: // substitute a node by one from another trie
			if len(nodes) == 0 || len(other) == 0 {
				continue
			}
			j := rapid.IntRange(0, len(nodes)-1).Draw(t, tag+"_tj")
			nodes[j] = other[rapid.IntRange(0, len(other)-1).Draw(t, tag+"_tother")]
		case 3: // add foreign nodes
			nodes = append(nodes, other...)
		case 4: // truncate a node
			if len(nodes) == 0 {
				continue
			}
			j := rapid.IntRange(0, len(nodes)-1).Draw(t, tag+"_tj")
			nodes[j] = nodes[j][:rapid.IntRange(0, len(nodes[j])-1).Draw(t, tag+"_tl")]
		case 5: // use the proof for a different claim key
			k2 := genKey(t, tag+"_k2")
			claimKey = keyOf(k2)
			want = model[string(k2)]
		}
		vstat.Label(fmt.Sprintf("tamper_%d", kind))
		var got []byte
		var err error
		var pan interface{}
		func() {
			// only the call under test runs inside recover(): rapid's Fatalf is itself a panic
			defer func() { pan = recover() }()
			got, _, err = trie.VerifyProof(root, claimKey, toDB(nodes))
		}()
		if pan != nil {
			vstat.Violation(t, P, "verifyproof-panic", "%s: VerifyProof panicked on tampered proof (kind %d): %v", tag, kind, pan)
		} else if err == nil && !bytes.Equal(got, want) {
			vstat.Violation(t, P, "proof-forged", "%s: tampered proof (kind %d) verifies a false claim: key %x -> %x, content has %x", tag, kind, claimKey, got, want)
		}
		want = model[string(key)]
	}
}

// nibbles: hex-nibble expansion of a key, optionally with the end-of-key terminator (16).  The node
// iterator walks keys nibble by nibble with the terminator sorting AFTER every nibble, so a key that
// is a proper prefix of another comes after it; that coincides with byte order unless one key is a
// proper prefix of the other.
func nibbles(k string, term bool) []byte {
	out := make([]byte, 0, 2*len(k)+1)
	for i := 0; i < len(k); i++ {
		out = append(out, k[i]>>4, k[i]&15)
	}
	if term {
		out = append(out, 16)
	}
	return out
}

const kIterOrder = "iter-order:key-that-is-a-proper-prefix-is-enumerated-after-its-extensions"

// checkIter: iteration enumerates exactly the model in key order (plain trie), from a random start too.
func checkIter(t *rapid.T, tr kvTrie, model sortedModel, keyBack func([]byte) []byte, ordered bool, start []byte, tag string) {
	it := trie.NewIterator(tr.NodeIterator(start))
	type kv struct{ k, v string }
	var got []kv
	for it.Next() {
		k := it.Key
		if keyBack != nil {
			k = keyBack(k)
		}
		got = append(got, kv{string(k), string(it.Value)})
	}
	if it.Err != nil {
		vstat.Violation(t, P, "iter-error", "%s: iterator error %v", tag, it.Err)
		return
	}
	var want []kv
	for _, k := range model.keys() {
		if ordered && start != nil && k < string(start) {
			continue
		}
		want = append(want, kv{k, string(model[k])})
	}
	if !ordered {
		sort.Slice(got, func(i, j int) bool { return got[i].k < got[j].k })
	}
	if ordered {
		same := len(got) == len(want)
		for i := 0; same && i < len(got); i++ {
			same = got[i] == want[i]
		}
		if !same {
			// Does the enumeration equal the content in "terminator-last" nibble order?  Then this is
			// exactly the listed finding and nothing else.
			var alt []kv
			for _, k := range model.keys() {
				if start != nil && bytes.Compare(nibbles(k, true), nibbles(string(start), false)) < 0 {
					continue
				}
				alt = append(alt, kv{k, string(model[k])})
			}
			sort.SliceStable(alt, func(i, j int) bool { return bytes.Compare(nibbles(alt[i].k, true), nibbles(alt[j].k, true)) < 0 })
			isAlt := len(alt) == len(got)
			for i := 0; isAlt && i < len(got); i++ {
				isAlt = got[i] == alt[i]
			}
			if isAlt {
				vstat.Violation(t, P, kIterOrder, "%s: keys %x enumerated from start %x in an order that is not key order: got %x", tag, model.keys(), start, func() (ks []string) {
					for _, e := range got {
						ks = append(ks, e.k)
					}
					return
				}())
				return // listed finding: counted, the case is otherwise fine
			}
		}
	}
	if len(got) != len(want) {
		vstat.Violation(t, P, "iter-content", "%s: iterator from %x yields %d entries, content has %d", tag, start, len(got), len(want))
		return
	}
	for i := range got {
		if got[i] != want[i] {
			vstat.Violation(t, P, "iter-content", "%s: iterator entry %d is %x=%x, want %x=%x", tag, i, got[i].k, got[i].v, want[i].k, want[i].v)
			return
		}
	}
}

type opRec struct {
	Op string `json:"op"`
	K  string `json:"k,omitempty"`
	V  string `json:"v,omitempty"`
}

func runHistory(t *rapid.T, secure bool) {
	vstat.Eval()
	disk := copyDB{dbm.NewMemDB()}
	tdb := trie.NewDatabase(disk)
	var tr kvTrie
	var plain *trie.Trie
	var sec *trie.SecureTrie
	open := func(root common.Hash) {
		var err error
		if secure {
			sec, err = trie.NewSecure(root, tdb, uint16(rapid.IntRange(0, 3).Draw(t, "cachelimit")))
			tr = sec
		} else {
			plain, err = trie.New(root, tdb)
			tr = plain
		}
		if err != nil {
			vstat.Violation(t, P, "reopen-failed", "open at root %x: %v", root, err)
		}
	}
	open(common.EmptyHash)
	keyOf := func(k []byte) []byte { return k }
	if secure {
		keyOf = func(k []byte) []byte { return crypto.Keccak256(k) }
	}
	// a second, unrelated trie provides foreign proof nodes
	otherT, _ := trie.New(common.EmptyHash, trie.NewDatabase(dbm.NewMemDB()))
	for i := 0; i < 6; i++ {
		otherT.Update([]byte{byte(i), 0x10, byte(i * 7)}, bytes.Repeat([]byte{byte(i + 1)}, 40))
	}
	var otherPL proofList
	otherT.Prove([]byte{3, 0x10, 21}, 0, &otherPL)

	forks := 0
	model := sortedModel{}
	// hashed key -> key: the trie's own preimage lookup, or - once the trie has been forked (a copy starts with an empty
	// preimage cache and knows only what was committed: upstream behaviour, not part of the property) - the harness' books
	written := map[string][]byte{}
	preimage := func(hk []byte) []byte {
		if forks > 0 {
			return written[string(hk)]
		}
		return sec.GetKey(hk)
	}
	var sib kvTrie
	var sibPlain *trie.Trie
	var sibSec *trie.SecureTrie
	var sibModel sortedModel
	var sibTdb *trie.Database
	var hist []opRec
	n := rapid.IntRange(1, 50).Draw(t, "nops")
	deletes, commits, reopens, overw := 0, 0, 0, 0
	everPrefix := false
	for i := 0; i < n; i++ {
		op := rapid.SampledFrom([]string{"upd", "upd", "upd", "upd", "del", "del", "get", "hash", "commit", "reopen", "iter", "prove", "fork", "switch"}).Draw(t, "op")
		switch op {
		case "fork":
			// the trie is forked the way its users fork it (SecureTrie.Copy; a struct copy of a plain trie - state.CopyTrie,
			// StateDB.Copy): from here on there are two tries with their own content, whatever is still uncommitted in them
			hist = append(hist, opRec{Op: "fork"})
			sibModel = sortedModel{}
			for k, v := range model {
				sibModel[k] = v
			}
			if secure {
				sibSec = sec.Copy()
				sib = sibSec
			} else {
				cp := *plain
				sibPlain = &cp
				sib = sibPlain
			}
			sibTdb = tdb // a fork shares the node database of its origin
			forks++
		case "switch":
			if sib == nil {
				continue
			}
			hist = append(hist, opRec{Op: "switch"})
			tr, sib = sib, tr
			model, sibModel = sibModel, model
			plain, sibPlain = sibPlain, plain
			sec, sibSec = sibSec, sec
			tdb, sibTdb = sibTdb, tdb
		case "upd":
			var k []byte
			if len(model) > 0 && rapid.IntRange(0, 3).Draw(t, "reuse") == 0 {
				k = []byte(rapid.SampledFrom(model.keys()).Draw(t, "ek"))
				overw++
			} else {
				k = genKey(t, "k")
			}
			v := genVal(t, "v")
			hist = append(hist, opRec{"upd", fmt.Sprintf("%x", k), fmt.Sprintf("%x", v)})
			written[string(crypto.Keccak256(k))] = k
			if err := tr.TryUpdate(k, v); err != nil {
				vstat.Violation(t, P, "update-error", "TryUpdate(%x) error %v", k, err)
			}
			if len(v) == 0 {
				if _, ok := model[string(k)]; ok {
					deletes++
				}
				delete(model, string(k))
			} else {
				model[string(k)] = v
			}
		case "del":
			var k []byte
			if len(model) > 0 && rapid.IntRange(0, 3).Draw(t, "reuse") != 0 {
				k = []byte(rapid.SampledFrom(model.keys()).Draw(t, "ek"))
				deletes++
			} else {
				k = genKey(t, "k")
			}
			hist = append(hist, opRec{Op: "del", K: fmt.Sprintf("%x", k)})
			if err := tr.TryDelete(k); err != nil {
				vstat.Violation(t, P, "delete-error", "TryDelete(%x) error %v", k, err)
			}
			delete(model, string(k))
		case "get":
			var k []byte
			if len(model) > 0 && rapid.Bool().Draw(t, "reuse") {
				k = []byte(rapid.SampledFrom(model.keys()).Draw(t, "ek"))
			} else {
				k = genKey(t, "k")
			}
			got, err := tr.TryGet(k)
			if err != nil || !bytes.Equal(got, model[string(k)]) {
				vstat.Violation(t, P, "get-mismatch", "Get(%x) = %x, %v ; last written %x ; history %v", k, got, err, model[string(k)], hist)
			}
		case "hash":
			hist = append(hist, opRec{Op: "hash"})
			tr.Hash()
		case "commit", "reopen":
			before := tr.Hash()
			var root common.Hash
			var err error
			if secure {
				root, err = sec.Commit(nil, uint64(i))
			} else {
				root, err = plain.Commit(nil)
			}
			if err != nil {
				vstat.Violation(t, P, "commit-error", "Commit error %v", err)
			}
			if root != before {
				vstat.Violation(t, P, "root-commit", "root changed by commit: %x -> %x", before, root)
			}
			commits++
			hist = append(hist, opRec{Op: op})
			if op == "reopen" {
				if err := tdb.Commit(root, false); err != nil {
					vstat.Violation(t, P, "commit-error", "db.Commit error %v", err)
				}
				// brand-new node cache over the same disk
				tdb = trie.NewDatabase(disk)
				open(root)
				reopens++
				if tr.Hash() != before {
					vstat.Violation(t, P, "root-reopen", "root after reopen %x != %x", tr.Hash(), before)
				}
			}
		case "iter":
			var start []byte
			if !secure && rapid.Bool().Draw(t, "withstart") {
				start = genKey(t, "start")
			}
			if secure {
				checkIter(t, tr, model, preimage, false, nil, "iter")
			} else {
				checkIter(t, tr, model, nil, true, start, "iter")
			}
		case "prove":
			var k []byte
			if len(model) > 0 && rapid.IntRange(0, 2).Draw(t, "reuse") != 0 {
				k = []byte(rapid.SampledFrom(model.keys()).Draw(t, "ek"))
			} else {
				k = genKey(t, "k")
			}
			checkProofs(t, tr, keyOf, model, otherPL.nodes, k, "prove")
		}
		if !everPrefix && hasProperPrefixPair(model) {
			everPrefix = true
		}
		// the other trie of a fork still reads what was written to IT
		if sib != nil {
			probe := map[string]bool{}
			for k := range model {
				probe[k] = true
			}
			for k := range sibModel {
				probe[k] = true
			}
			for k := range probe {
				got, err := sib.TryGet([]byte(k))
				if err != nil || !bytes.Equal(got, sibModel[k]) {
					vstat.Violation(t, P, "fork:other-trie-sees-foreign-content", "after %s on one trie of a fork, the OTHER trie reads Get(%x) = %x, %v ; last written to it: %x ; history %v", op, k, got, err, sibModel[k], hist)
					return
				}
			}
		}
	}
	if sib != nil && forks > 0 {
		vstat.Label("history_with_fork")
		// its root is the canonical root of ITS content
		var ref kvTrie
		if secure {
			r2, _ := trie.NewSecure(common.EmptyHash, trie.NewDatabase(dbm.NewMemDB()), 0)
			ref = r2
		} else {
			r2, _ := trie.New(common.EmptyHash, trie.NewDatabase(dbm.NewMemDB()))
			ref = r2
		}
		for _, k := range sibModel.keys() {
			ref.TryUpdate([]byte(k), sibModel[k])
		}
		if sib.Hash() != ref.Hash() {
			vstat.Violation(t, P, "fork:other-trie-root-not-of-its-content", "the other trie of a fork has root %x, its content gives %x ; history %v", sib.Hash(), ref.Hash(), hist)
			return
		}
	}
	// every key reads back; a sample of absent keys reads nil
	for k, v := range model {
		got, err := tr.TryGet([]byte(k))
		if err != nil || !bytes.Equal(got, v) {
			vstat.Violation(t, P, "get-mismatch", "final Get(%x) = %x, %v ; last written %x ; history %v", k, got, err, v, hist)
		}
	}
	finalRoot := tr.Hash()

	// canonical root: the same final content, inserted in a generated order with junk on the way, gives the same root
	keys := model.keys()
	perm := rapid.Permutation(keys).Draw(t, "perm")
	var t2 kvTrie
	if secure {
		s2, _ := trie.NewSecure(common.EmptyHash, trie.NewDatabase(dbm.NewMemDB()), 0)
		t2 = s2
	} else {
		p2, _ := trie.New(common.EmptyHash, trie.NewDatabase(dbm.NewMemDB()))
		t2 = p2
	}
	junkN := rapid.IntRange(0, 4).Draw(t, "junkn")
	var junk [][]byte
	for i := 0; i < junkN; i++ {
		jk := genKey(t, "junk")
		if _, ok := model[string(jk)]; ok {
			continue
		}
		junk = append(junk, jk)
		t2.TryUpdate(jk, []byte("junk-value-junk-value-junk-value-junk-value"))
	}
	for i, k := range perm {
		t2.TryUpdate([]byte(k), model[k])
		if i == len(perm)/2 {
			t2.Hash() // intermediate hashing populates node caches
		}
	}
	for _, jk := range junk {
		t2.TryDelete(jk)
	}
	if r2 := t2.Hash(); r2 != finalRoot {
		vstat.Violation(t, P, "root-order-dependent", "same content, different root: history root %x, permuted-insert root %x; content %d keys; history %v", finalRoot, r2, len(model), hist)
	}
	if len(model) == 0 && finalRoot != common.HexToHash("56e81f171bcc55a6ff8345e692c0f86e5b48e01b996cadc001622fb5e363b421") {
		vstat.Violation(t, P, "root-empty", "empty content has root %x", finalRoot)
	}
	// final full iteration and proofs for every key (bounded) on the history trie
	if secure {
		checkIter(t, tr, model, preimage, false, nil, "final-iter")
	} else {
		checkIter(t, tr, model, nil, true, nil, "final-iter")
	}
	for i, k := range keys {
		if i >= 4 {
			break
		}
		checkProofs(t, tr, keyOf, model, otherPL.nodes, []byte(k), fmt.Sprintf("final-prove%d", i))
	}
	checkProofs(t, tr, keyOf, model, otherPL.nodes, genKey(t, "absent"), "final-prove-absent")

	if deletes > 0 {
		vstat.Label("has_effective_delete")
	}
	if everPrefix {
		vstat.Label("has_prefix_pair")
	}
	if reopens > 0 {
		vstat.Label("has_reopen")
	}
	if commits > 0 {
		vstat.Label("has_commit")
	}
	if overw > 0 {
		vstat.Label("has_overwrite")
	}
	if (deletes > 0 && len(model) >= 2) || everPrefix {
		vstat.NonTrivial(fmt.Sprintf("%v|%v", secure, hist))
		if vstat.WantSample() {
			vstat.Sample(map[string]interface{}{"secure": secure, "history": hist, "final_keys": len(model), "root": finalRoot.Hex()})
		}
	}
}

func TestTrieHistory(t *testing.T) {
	rapid.Check(t, func(t *rapid.T) { runHistory(t, false) })
}

func TestSecureTrieHistory(t *testing.T) {
	rapid.Check(t, func(t *rapid.T) { runHistory(t, true) })
}
