package c13

// Part 2: pruning.  A single-validator node (real ConsensusState, real LinkApplication) grows a chain with validator-set
// changes at generated heights; at generated moments the node prunes exactly like node.clearHistoricalDataRoutine does
// (BlockStore.DeleteHistoricalData(K) then ConsensusState.DeleteHistoricalData(K)) with its configured window K, or is
// restarted.  After every pruning: everything of the last K heights is still served, the validator and parameter records
// of those heights and of the next one load, the pruning terminated within a work budget, and the node goes on.
// The block store and the status database are real goleveldb instances (their "not found" behaviour differs from MemDB's
// and the pruning code depends on it).

import (
	"fmt"
	"strings"
	"sync/atomic"
	"testing"

	"github.com/lianxiangcloud/linkchain/consensus"
	"github.com/lianxiangcloud/linkchain/libs/common"
	dbm "github.com/lianxiangcloud/linkchain/libs/db"
	"github.com/lianxiangcloud/linkchain/types"
	"pgregory.net/rapid"

	"verifharness/chainsim"
	"verifharness/consim"
	"verifharness/vstat"
	"verifharness/world"
)

// budgetDB counts reads and deletes while armed and panics past the budget: a pruning loop that runs away (towards 2^64)
// is turned into a verdict by what it did, never by a timeout.
type budgetDB struct {
	dbm.DB
	armed  *int32
	budget *int64
}

type budgetExceeded struct{}

func (b *budgetDB) spend() {
	if atomic.LoadInt32(b.armed) == 1 && atomic.AddInt64(b.budget, -1) < 0 {
		panic(budgetExceeded{})
	}
}
func (b *budgetDB) Get(k []byte) []byte           { b.spend(); return b.DB.Get(k) }
func (b *budgetDB) Load(k []byte) ([]byte, error) { b.spend(); return b.DB.Load(k) }
func (b *budgetDB) Delete(k []byte)               { b.spend(); b.DB.Delete(k) }
func (b *budgetDB) DeleteSync(k []byte)           { b.spend(); b.DB.DeleteSync(k) }
func (b *budgetDB) Has(k []byte) bool             { b.spend(); return b.DB.Has(k) }
func (b *budgetDB) Exist(k []byte) (bool, error)  { b.spend(); return b.DB.Exist(k) }

type pruneFacts struct {
	hash    common.Hash
	valHash common.Hash // ValidatorsHash of the block's header: the set in force at that height
}

func runPrune(t *rapid.T) {
	commitAsFastSync = false
	vstat.Eval()
	isTrie := rapid.Bool().Draw(t, "isTrie")
	a0 := world.DetAcct(100)
	spec := &world.Spec{ChainID: consim.ChainID, IsTrie: isTrie, Accounts: []world.GenesisAccount{{Addr: a0.Addr, Balance: chainsim.E(1000000)}}}
	mc := world.DefaultMempoolConfig()
	mc.CacheSize = 0
	spec.Mempool = mc
	dbs := world.NewMemDBSet()
	defer dbs.Remove()
	armed, budget := int32(0), int64(0)
	blockLDB := dbm.NewDB("blockstore", dbm.GoLevelDBBackend, dbs.Dir, 0)
	statusLDB := dbm.NewDB("consensus_state", dbm.GoLevelDBBackend, dbs.Dir, 0)
	defer blockLDB.Close()
	defer statusLDB.Close()
	dbs.Block = &budgetDB{blockLDB, &armed, &budget}
	dbs.Status = &budgetDB{statusLDB, &armed, &budget}
	if err := world.Genesis(spec, dbs); err != nil {
		t.Fatalf("genesis: %v", err)
	}
	w, err := world.Open(spec, dbs)
	if err != nil {
		t.Fatalf("open: %v", err)
	}
	defer func() { w.Mempool.Stop() }()

	K := uint64(rapid.IntRange(1, 12).Draw(t, "keep"))
	if rapid.IntRange(0, 5).Draw(t, "hugekeep") == 0 {
		K = uint64(rapid.SampledFrom([]int{50, 1000, 1 << 20}).Draw(t, "keepbig"))
	}
	changes := map[uint64]int64{}
	for h := 1; h <= 40; h++ {
		if rapid.IntRange(0, 5).Draw(t, "valchange") == 0 {
			changes[uint64(h)] = int64(rapid.IntRange(1, 50).Draw(t, "power"))
		}
	}
	power := powerAt(changes)
	val := consim.DetVal(0, 10)
	x, err := startNode(w, dbs.Status, val, power)
	if err != nil {
		t.Fatalf("node: %v", err)
	}
	defer func() { x.net.Close() }()

	facts := map[uint64]pruneFacts{}
	var trace []string
	prunedBelow := uint64(1) // model: heights < prunedBelow may be gone, heights >= prunedBelow must be served
	prunes, restarts, prunesThatDeleted, changesInWindow := 0, 0, 0, 0
	nonce := uint64(0)
	fail := func(key, f string, a ...interface{}) bool {
		return vstat.Violation(t, P, key, "%s\nkeep_latest_blocks=%d, storage mode trie=%v, validator changes at %v\nhistory:\n%s", fmt.Sprintf(f, a...), K, isTrie, changes, strings.Join(trace, "\n"))
	}
	// served checks everything the last K heights need
	served := func(when string) bool {
		L := w.BlockStore.Height()
		for h := prunedBelow; h <= L; h++ {
			if h == 0 {
				continue
			}
			var b *types.Block
			var meta *types.BlockMeta
			var seen, canon *types.Commit
			if rec := try(func() {
				b, meta, seen = w.BlockStore.LoadBlock(h), w.BlockStore.LoadBlockMeta(h), w.BlockStore.LoadSeenCommit(h)
				if h < L {
					canon = w.BlockStore.LoadBlockCommit(h)
				}
			}); rec != nil {
				return fail("pruning:retained-block-read-panics", "%s: reading block %d (chain height %d) panics: %v", when, h, L, rec)
			}
			if b == nil || meta == nil || b.Hash() != facts[h].hash {
				return fail("pruning:retained-block-missing", "%s: block %d is within the last %d heights of a chain of height %d but block=%v meta=%v", when, h, K, L, b != nil, meta != nil)
			}
			if seen == nil || (h < L && canon == nil) {
				return fail("pruning:retained-commit-missing", "%s: block %d (chain height %d, window %d): seen commit %v, block commit %v", when, h, L, K, seen != nil, canon != nil || h == L)
			}
		}
		for h := prunedBelow; h <= L+1; h++ {
			if h == 0 {
				continue
			}
			var vs *types.ValidatorSet
			var e1, e2 error
			if rec := try(func() {
				vs, _, e1 = consensus.LoadValidators(dbs.Status, h)
				_, e2 = consensus.LoadConsensusParams(dbs.Status, h)
			}); rec != nil {
				return fail("pruning:validator-record-of-retained-height-unreadable", "%s: loading the validator set / parameters of height %d (chain height %d, window %d) panics: %v", when, h, L, K, rec)
			}
			if e1 != nil || e2 != nil || vs == nil {
				return fail("pruning:validator-record-of-retained-height-unreadable", "%s: height %d (chain height %d, window %d): LoadValidators: %v, LoadConsensusParams: %v", when, h, L, K, e1, e2)
			}
			if f, ok := facts[h]; ok && common.BytesToHash(vs.Hash()) != f.valHash {
				return fail("pruning:validator-record-wrong", "%s: LoadValidators(%d) is not the set block %d was made with", when, h, h)
			}
		}
		return true
	}
	nsteps := rapid.IntRange(3, 14).Draw(t, "nsteps")
	for s := 0; s < nsteps; s++ {
		switch act := rapid.IntRange(0, 9).Draw(t, "act"); {
		case act < 5 && w.BlockStore.Height() < 36: // grow
			nb := rapid.IntRange(1, 6).Draw(t, "nblocks")
			for i := 0; i < nb; i++ {
				if rapid.IntRange(0, 2).Draw(t, "withtx") == 0 {
					_ = w.Submit(chainsim.Fresh(world.Transfer(a0, nonce, world.DetAcct(101).Addr, chainsim.E(1))))
					nonce++
				}
				if c := x.advance(); c != nil {
					if !fail("pruning:node-cannot-continue", "the node crashes on block %d: %v\n%s", w.BlockStore.Height()+1, c, consensus.VerifLastPanicStack()) {
						return
					}
					return
				}
				h := w.BlockStore.Height()
				b := w.BlockStore.LoadBlock(h)
				if b == nil {
					t.Fatalf("block %d not stored", h)
				}
				facts[h] = pruneFacts{hash: b.Hash(), valHash: b.ValidatorsHash}
			}
			trace = append(trace, fmt.Sprintf("grow to height %d", w.BlockStore.Height()))
		case act < 8: // prune, like node.clearHistoricalDataRoutine
			L := w.BlockStore.Height()
			prunes++
			atomic.StoreInt64(&budget, 200000)
			atomic.StoreInt32(&armed, 1)
			rec := try(func() {
				w.BlockStore.DeleteHistoricalData(K)
				x.nd.CS.DeleteHistoricalData(K)
			})
			atomic.StoreInt32(&armed, 0)
			trace = append(trace, fmt.Sprintf("prune at height %d keeping %d", L, K))
			if _, over := rec.(budgetExceeded); over {
				// what did it do? the head block tells
				gone := try(func() {
					if w.BlockStore.LoadBlock(L) == nil {
						panic("head block deleted")
					}
				})
				if !fail("pruning:runs-away", "pruning a chain of height %d with a window of %d did not stop within 200000 database operations (head block still there: %v)", L, K, gone == nil) {
					return
				}
				return
			}
			if rec != nil {
				if !fail("pruning:panics", "pruning at height %d with window %d panics: %v", L, K, rec) {
					return
				}
				return
			}
			if L > K && L-K+1 > prunedBelow {
				prunedBelow = L - K + 1
				prunesThatDeleted++
				for c := range changes {
					if c >= prunedBelow && c <= L {
						changesInWindow++
					}
				}
			}
			if !served(fmt.Sprintf("after pruning at height %d", L)) {
				return
			}
		default: // restart on the same databases
			restarts++
			w.Mempool.Stop()
			x.net.Close()
			var e error
			if rec := try(func() { w, e = world.Open(spec, dbs) }); rec != nil || e != nil {
				trace = append(trace, "restart")
				fail("pruning:restart-fails", "the application does not open after pruning: %v %v", rec, e)
				return
			}
			status, e := consensus.LoadStatus(dbs.Status)
			if e != nil {
				fail("pruning:restart-fails", "LoadStatus: %v", e)
				return
			}
			x, e = startNodeLikeNewNode(w, dbs.Status, val, power, status)
			if e != nil {
				fail("pruning:restart-fails", "the node does not start after pruning: %v", e)
				return
			}
			trace = append(trace, fmt.Sprintf("restart at height %d", w.BlockStore.Height()))
			if !served("after a restart") {
				return
			}
		}
	}
	if !served("at the end") {
		return
	}
	lab := func(name string, c bool) {
		if c {
			vstat.Label(name)
		}
	}
	lab("pruned", prunes > 0)
	lab("prune_deleted_something", prunesThatDeleted > 0)
	lab("window_larger_than_chain", prunes > 0 && K > w.BlockStore.Height())
	lab("validator_change_inside_window", changesInWindow > 0)
	lab("restart_after_prune", restarts > 0 && prunes > 0)
	if prunesThatDeleted > 0 {
		vstat.NonTrivial(strings.Join(trace, "|") + fmt.Sprint(K, changes))
		if vstat.WantSample() {
			vstat.Sample(map[string]interface{}{"keep": K, "validator_changes": fmt.Sprint(changes), "history": trace})
		}
	}
}

func TestPruning(t *testing.T) {
	rapid.Check(t, runPrune)
}
