// C13 — committed history survives crashes and pruning.
//
// Part 1 (this file): a single-validator node (the REAL ConsensusState.finalizeCommit over the REAL LinkApplication,
// block store, UTXO store, tx index and consensus status) builds a generated chain; every durable write of the last
// block's whole commit sequence is recorded in program order (package crashdb).  For EVERY prefix of that write log
// the on-disk image a crash would leave is materialised, a node is restarted on it (the reconciliation steps of
// node.NewNode, transcribed) and the stores are compared with each other and with the uncrashed run.
package c13

import (
	"bytes"
	"fmt"
	"net"
	"os"
	"path/filepath"
	"sort"
	"strings"
	"sync"
	"testing"

	cfg "github.com/lianxiangcloud/linkchain/config"
	"github.com/lianxiangcloud/linkchain/consensus"
	"github.com/lianxiangcloud/linkchain/libs/common"
	"github.com/lianxiangcloud/linkchain/libs/crypto"
	lktypes "github.com/lianxiangcloud/linkchain/libs/cryptonote/types"
	dbm "github.com/lianxiangcloud/linkchain/libs/db"
	"github.com/lianxiangcloud/linkchain/libs/log"
	realnode "github.com/lianxiangcloud/linkchain/node"
	"github.com/lianxiangcloud/linkchain/types"
	"pgregory.net/rapid"

	"verifharness/chainsim"
	"verifharness/consim"
	"verifharness/crashdb"
	"verifharness/vstat"
	"verifharness/world"
)

const P = "C13"

func TestMain(m *testing.M) {
	world.Init()
	consim.Init()
	vstat.Main(m)
}

var accountKinds = []string{"transfer", "transfer", "token", "call-forward", "call-revert", "call-issue", "call-store", "call-store", "create", "prefund-create"}

var dbNames = []string{"state", "block", "tx", "balance", "utxo", "utxoout", "utxotok", "status"}

// dbOf maps a recorder name to the database of a set.
func dbOf(d *world.DBSet, name string) dbm.DB {
	switch name {
	case "state":
		return d.State
	case "block":
		return d.Block
	case "tx":
		return d.Tx
	case "balance":
		return d.Balance
	case "utxo":
		return d.Utxo
	case "utxoout":
		return d.UtxoOut
	case "utxotok":
		return d.UtxoTok
	case "status":
		return d.Status
	}
	panic("unknown db " + name)
}

// blockFacts is what the uncrashed run knows about one committed block.
type blockFacts struct {
	height    uint64
	hash      common.Hash
	txs       []common.Hash
	keyImages []lktypes.Key
	outs      map[common.Address]int // confidential outputs created, by token
	holdings  *chainsim.Holdings     // account-side state after the block
	rotates   bool
	signers   string                 // the upgrade signer set in force after the block (installed by validator-signed rotations)
	hasUTXO   bool
	valChange bool
}

// signersOf renders the upgrade signer set a node works with.
func signersOf(w *world.World) string {
	info := w.TxService.GetMultiSignersInfo(types.TxContractCreateType)
	if info == nil {
		return "none"
	}
	var out []string
	for _, e := range info.Signers {
		out = append(out, fmt.Sprintf("%s:%d", e.Addr.Hex()[:10], e.Power))
	}
	sort.Strings(out)
	return fmt.Sprintf("min %d %v", info.MinSignerPower, out)
}

func factsOf(s *chainsim.Sim, b *types.Block) *blockFacts {
	f := &blockFacts{height: b.Height, hash: b.Hash(), outs: map[common.Address]int{}, holdings: s.Snapshot(), signers: signersOf(s.W)}
	for _, tx := range b.Data.Txs {
		f.txs = append(f.txs, tx.Hash())
		if _, ok := tx.(*types.MultiSignAccountTx); ok {
			f.rotates = true
		}
		if u, ok := tx.(*types.UTXOTransaction); ok {
			f.hasUTXO = true
			for _, ki := range u.GetInputKeyImages() {
				f.keyImages = append(f.keyImages, *ki)
			}
			f.outs[u.TokenID] += len(u.GetOutputData(b.Height))
		}
	}
	return f
}

func sameHoldings(a, b *chainsim.Holdings, universe map[common.Address]struct{}) string {
	for i := range a.Slots {
		if a.Slots[i] != b.Slots[i] {
			return fmt.Sprintf("storage slot %d of the storing contract is %s, expected %s", i, a.Slots[i], b.Slots[i])
		}
	}
	var addrs []common.Address
	for ad := range universe {
		addrs = append(addrs, ad)
	}
	sort.Slice(addrs, func(i, j int) bool { return bytes.Compare(addrs[i][:], addrs[j][:]) < 0 })
	for _, ad := range addrs {
		if a.Bal(ad).Cmp(b.Bal(ad)) != 0 {
			return fmt.Sprintf("balance of %s is %v, expected %v", ad.Hex(), a.Bal(ad), b.Bal(ad))
		}
		if a.Nonces[ad] != b.Nonces[ad] {
			return fmt.Sprintf("nonce of %s is %d, expected %d", ad.Hex(), a.Nonces[ad], b.Nonces[ad])
		}
		ta, tb := a.Tokens[ad], b.Tokens[ad]
		for tok, v := range tb {
			if w := ta[tok]; (w == nil && v.Sign() != 0) || (w != nil && w.Cmp(v) != 0) {
				return fmt.Sprintf("token %s balance of %s is %v, expected %v", tok.Hex(), ad.Hex(), w, v)
			}
		}
		for tok, w := range ta {
			if v := tb[tok]; (v == nil && w.Sign() != 0) || (v != nil && w.Cmp(v) != 0) {
				return fmt.Sprintf("token %s balance of %s is %v, expected %v", tok.Hex(), ad.Hex(), w, v)
			}
		}
	}
	return ""
}

// node is one (re)started single-validator node.
type node struct {
	w   *world.World
	app *consim.RealApp
	net *consim.Net
	nd  *consim.Node
}

// powerAt scripts the validator's voting power: it changes at the given heights (a validator-set change).
func powerAt(changes map[uint64]int64) func(h uint64) int64 {
	return func(h uint64) int64 {
		p := int64(10)
		var hs []uint64
		for c := range changes {
			hs = append(hs, c)
		}
		sort.Slice(hs, func(i, j int) bool { return hs[i] < hs[j] })
		for _, c := range hs {
			if c <= h {
				p = changes[c]
			}
		}
		return p
	}
}

// startNode builds the consensus node over an opened world and a status database.
func startNode(w *world.World, status dbm.DB, val *consim.ValKey, power func(h uint64) int64) (*node, error) {
	vals := []*consim.ValKey{val}
	// no SkipTimeoutCommit: a lone validator holding all its own precommits would run from height to height inside one call
	n := consim.NewNet(vals, map[int]bool{}, false)
	app := &consim.RealApp{W: w, FastSync: commitAsFastSync}
	app.ValsAt = func(h uint64) []*types.Validator {
		return []*types.Validator{{Address: val.Addr, PubKey: val.Pub, VotingPower: power(h), CoinBase: val.CoinBase}}
	}
	n.AppFor = func(int) (consensus.BlockChainApp, *consim.ScriptApp) { return app, nil }
	n.PoolFor = func(int) consensus.Mempool { return w.Mempool }
	n.StatusF = func(int) dbm.DB { return status }
	nd, err := n.AddNode(0)
	if err != nil {
		return nil, err
	}
	return &node{w: w, app: app, net: n, nd: nd}, nil
}

// advance lets the node run until its application height grew by one (its own proposal, votes and commit).
func (x *node) advance() (crashed interface{}) {
	start := x.w.Height()
	for i := 0; i < 40 && x.w.Height() == start && x.nd.Crashed == nil; i++ {
		x.net.Start(x.nd)
	}
	return x.nd.Crashed
}

// try runs f and returns its panic.
func try(f func()) (rec interface{}) {
	defer func() { rec = recover() }()
	f()
	return nil
}

type cut struct {
	k       int               // number of recorded writes that reached the disk
	files   map[string][]byte // side files at the moment of the crash
	between string            // the two writes the crash separates
	inside  string            // the phase of the commit sequence
}

func describe(op crashdb.Op) string {
	if op.Mark != "" {
		return "<" + op.Mark + ">"
	}
	k := ""
	if len(op.KVs) > 0 {
		k = keyClass(op.DB, op.KVs[0].Key)
	}
	if op.Batch {
		return fmt.Sprintf("%s:batch(%d)[%s]", op.DB, len(op.KVs), k)
	}
	return fmt.Sprintf("%s:%s", op.DB, k)
}

// keyClass abbreviates a key to its record family.
func keyClass(db string, key []byte) string {
	s := string(key)
	for _, p := range []string{"BM:", "BP:", "BC:", "BSC:", "BR:", "BH:", "TR:", "blockStore", "statusKey_", "statusKey", "VALDK:", "CSPK:", "kvHeight", "TxEntry", "tx_entry"} {
		if strings.HasPrefix(s, p) {
			return p
		}
	}
	if db == "utxo" && len(key) == 32 {
		return "keyimage"
	}
	if len(s) > 10 {
		s = s[:10]
	}
	printable := true
	for _, c := range []byte(s) {
		if c < 32 || c > 126 {
			printable = false
		}
	}
	if !printable {
		return fmt.Sprintf("%x", []byte(s))
	}
	return s
}

// commitAsFastSync: the chain of the current case reaches the application with the fast-sync flag set (a node that is catching
// up commits through the block-sync reactor: the same CommitBlock / ApplyBlock pair as finalizeCommit, with fastsync=true).
var commitAsFastSync bool

func runCrash(t *rapid.T) {
	vstat.Eval()
	commitAsFastSync = rapid.IntRange(0, 2).Draw(t, "fastsync") == 0
	if commitAsFastSync {
		vstat.Label("blocks_committed_with_fastsync_flag")
	}
	s := chainsim.New(t, chainsim.Options{Contracts: true, Tokens: true, RichBalance: true, MultiSign: true})
	defer func() { s.Close() }()
	mode := "flat-kv"
	if s.Spec.IsTrie {
		mode = "trie"
	}
	vstat.Label("mode_" + mode)

	// re-open the application over recording databases
	plain := s.W.DBs
	walPath := filepath.Join(plain.Dir, "kvState.wal")
	rec := crashdb.NewRecorder(walPath)
	plainStatus := dbm.NewMemDB()
	wrapped := &world.DBSet{Dir: plain.Dir,
		State: rec.Wrap("state", plain.State), Block: rec.Wrap("block", plain.Block), Tx: rec.Wrap("tx", plain.Tx), Balance: rec.Wrap("balance", plain.Balance),
		Utxo: rec.Wrap("utxo", plain.Utxo), UtxoOut: rec.Wrap("utxoout", plain.UtxoOut), UtxoTok: rec.Wrap("utxotok", plain.UtxoTok),
		Status: rec.Wrap("status", plainStatus), Evidence: plain.Evidence}
	plain.Status = plainStatus
	s.W.Mempool.Stop()
	w, err := world.Open(s.Spec, wrapped)
	if err != nil {
		t.Fatalf("open: %v", err)
	}
	s.W = w

	nblocks := rapid.IntRange(1, 4).Draw(t, "nblocks")
	changes := map[uint64]int64{}
	for h := 1; h <= nblocks; h++ {
		if rapid.IntRange(0, 2).Draw(t, fmt.Sprintf("valchange%d", h)) == 0 {
			changes[uint64(h)] = int64(rapid.IntRange(1, 50).Draw(t, "power"))
		}
	}
	power := powerAt(changes)
	val := consim.DetVal(0, 10)
	x, err := startNode(w, wrapped.Status, val, power)
	if err != nil {
		t.Fatalf("node: %v", err)
	}
	defer x.net.Close()
	// the validator set the application hears about from consensus is the lone validator: its key signs the rotations
	s.ValKeys = []crypto.PrivKeyEd25519{val.Priv}

	var facts []*blockFacts // facts[h] for h >= 1; facts[0] = genesis
	facts = append(facts, &blockFacts{height: 0, holdings: s.Snapshot(), outs: map[common.Address]int{}, signers: signersOf(s.W)})
	var hist []string
	var base *world.DBSet
	var baseWAL []byte
	var ops []crashdb.Op
	for b := 1; b <= nblocks; b++ {
		ntx := rapid.IntRange(0, 5).Draw(t, "ntx")
		gen := map[common.Hash]*chainsim.Tx{}
		for i := 0; i < ntx; i++ {
			var g *chainsim.Tx
			class := rapid.IntRange(0, 11).Draw(t, "class")
			if b == 1 && i < 2 {
				class = 0
			}
			switch class {
			case 10:
				// a validator-signed rotation of the upgrade signer set (kept in the transaction database)
				g = s.GenMultiSign(t)
			case 11:
				if g = s.GenTokenSpend(t); g == nil {
					g = s.GenTokenDeposit(t)
				}
			case 0, 1, 2:
				g = s.GenA2U(t)
			case 3, 4, 5:
				g = s.GenUSpend(t, nil)
				if g == nil {
					g = s.GenA2U(t)
				}
			default:
				g = s.GenAccountTx(t, accountKinds)
			}
			if g == nil {
				continue
			}
			err := s.W.Submit(g.Tx)
			hist = append(hist, fmt.Sprintf("b%d %s => %v", b, g.Desc, err))
			if err == nil {
				gen[g.Tx.Hash()] = g
			}
		}
		last := b == nblocks
		if last {
			// durable image before the block under test: everything earlier is acknowledged
			base = plain.Clone()
			baseWAL, _ = os.ReadFile(walPath)
			rec.Start()
			x.app.Before = func(*types.Block) { rec.Mark("CommitBlock-begins") }
			x.app.After = func(*types.Block) { rec.Mark("CommitBlock-returned") }
		}
		pre := s.Snapshot()
		if c := x.advance(); c != nil {
			t.Fatalf("the node crashed while building block %d (cs height %d, zero %d): %v\n%s\n%s", b, x.nd.CS.GetRoundState().Height, types.BlockHeightZero, c, strings.Join(x.net.Trace, "\n"), consensus.VerifLastPanicStack())
		}
		if s.W.Height() != uint64(b) {
			t.Fatalf("the node did not commit block %d (height %d)\n%s", b, s.W.Height(), strings.Join(x.net.Trace, "\n"))
		}
		if last {
			rec.Mark("finalizeCommit-returned")
			ops = rec.Stop()
		}
		blk := s.W.BlockStore.LoadBlock(uint64(b))
		if err := s.AfterCommit(blk, gen, pre); err != nil {
			t.Fatalf("bookkeeping: %v", err)
		}
		f := factsOf(s, blk)
		_, f.valChange = changes[uint64(b)]
		facts = append(facts, f)
	}
	H := uint64(nblocks)
	fl := facts[H]
	if fl.hasUTXO {
		vstat.Label("last_block_has_confidential_tx")
	}
	if fl.valChange {
		vstat.Label("last_block_changes_validators")
	}
	if fl.rotates {
		vstat.Label("last_block_rotates_signer_set")
	}
	if len(fl.txs) == 0 {
		vstat.Label("last_block_empty")
	}

	// ---- the crash points: after every recorded write, with the side file as it was just before the next write and, where
	// that differs, as it was right after this one
	type point struct {
		k     int
		files map[string][]byte
		tag   string
	}
	var points []point
	realIdx := []int{}
	for i, op := range ops {
		if op.Mark == "" {
			realIdx = append(realIdx, i)
		}
	}
	phaseAt := func(i int) string {
		ph := "before-CommitBlock"
		for j := 0; j < i && j < len(ops); j++ {
			if ops[j].Mark != "" {
				ph = "after-" + ops[j].Mark
			}
		}
		return ph
	}
	same := func(a, b map[string][]byte) bool {
		for k, v := range a {
			if !bytes.Equal(v, b[k]) || (v == nil) != (b[k] == nil) {
				return false
			}
		}
		return true
	}
	startFiles := map[string][]byte{walPath: baseWAL}
	if baseWAL == nil {
		if _, err := os.Stat(walPath); err == nil {
			startFiles[walPath] = []byte{}
		}
	}
	for n := 0; n <= len(realIdx); n++ {
		// n real writes are durable
		var after map[string][]byte // right after write n-1
		var before map[string][]byte
		if n == 0 {
			after = startFiles
		} else {
			after = ops[realIdx[n-1]].FilePost
		}
		if n < len(realIdx) {
			before = ops[realIdx[n]].FilePre
		} else {
			before = after
		}
		left, right := "<start>", "<end>"
		if n > 0 {
			left = describe(ops[realIdx[n-1]])
		}
		if n < len(realIdx) {
			right = describe(ops[realIdx[n]])
		}
		pos := len(ops)
		if n < len(realIdx) {
			pos = realIdx[n]
		}
		tag := fmt.Sprintf("%s | %s  (%s)", left, right, phaseAt(pos))
		points = append(points, point{n, after, tag})
		if !same(after, before) {
			points = append(points, point{n, before, tag + " [side file already updated]"})
			vstat.Label("crash_point_between_side_file_update_and_next_db_write")
		}
	}
	vstat.LabelN("crash_points", len(points))
	// positions (counted in durable writes) of the block store's height descriptor and of the last UTXO-store write
	descIdx, lastUtxoIdx := len(realIdx)+1, 0
	signerIdx := len(realIdx) + 1 // position of the transaction database's signer-set record
	for n, i := range realIdx {
		if ops[i].DB == "tx" && strings.Contains(describe(ops[i]), "multisign_") && signerIdx > len(realIdx) {
			signerIdx = n
		}
		if ops[i].DB == "block" && len(ops[i].KVs) == 1 && string(ops[i].KVs[0].Key) == "blockStore" {
			descIdx = n
		}
		if strings.HasPrefix(ops[i].DB, "utxo") {
			lastUtxoIdx = n
		}
	}

	realBudget.reset()
	for _, pt := range points {
		vstat.LabelN("crash_points_restarted", 1)
		img := base.Clone()
		for i := 0; i < pt.k; i++ {
			op := ops[realIdx[i]]
			crashdb.Apply(dbOf(img, op.DB), op)
		}
		imgWAL := filepath.Join(img.Dir, "kvState.wal")
		if b := pt.files[walPath]; b != nil {
			_ = os.WriteFile(imgWAL, b, 0o600)
		} else {
			_ = os.Remove(imgWAL)
		}
		acked := H - 1
		if pt.k == len(realIdx) {
			acked = H
		}
		verdict := restartAndCheck(s, img, val, power, facts, acked, H)
		img.Remove()
		if verdict != nil {
			key := verdict.key
			if strings.HasPrefix(key, "restart-inconsistent:utxo-store-behind") {
				// the window the crash fell into is part of the root cause: the same observation elsewhere is another defect
				switch {
				case pt.k > descIdx && pt.k <= lastUtxoIdx:
					key += ":crash-between-block-store-height-and-end-of-utxo-save"
				case pt.k <= descIdx:
					key += ":crash-before-block-store-height"
				default:
					key += ":crash-after-utxo-save"
				}
			}
			if key == "restart-inconsistent:signer-set-ahead" {
				// likewise: the record of the signer set is written before the block store's height and nothing takes it back
				if pt.k > signerIdx && pt.k <= descIdx {
					key += ":crash-between-signer-record-and-block-store-height"
				} else {
					key += ":crash-elsewhere"
				}
			}
			vstat.Label("finding_" + key)
			if !vstat.Violation(t, P, key, "%s\ncrash point: %d of %d writes of block %d's commit sequence durable, between %s\nstorage mode: %s; block %d: %d txs, confidential=%v, validator change=%v\nhistory:\n%s\nwrite log of the block:\n%s",
				verdict.detail, pt.k, len(realIdx), H, pt.tag, mode, H, len(fl.txs), fl.hasUTXO, fl.valChange, strings.Join(hist, "\n"), writeLog(ops)) {
				continue // a listed finding: the other crash points are still examined
			}
			return
		}
	}
	if fl.hasUTXO || fl.valChange || fl.rotates {
		vstat.NonTrivial(mode + "|" + strings.Join(hist, "|") + "|" + writeLog(ops))
	}
	if vstat.WantSample() {
		vstat.Sample(map[string]interface{}{"mode": mode, "blocks": nblocks, "last_block_txs": len(fl.txs), "confidential": fl.hasUTXO, "validator_change": fl.valChange, "crash_points": len(points), "write_log": strings.Split(writeLog(ops), "\n")})
	}
}

func writeLog(ops []crashdb.Op) string {
	var b strings.Builder
	n := 0
	for _, op := range ops {
		if op.Mark != "" {
			fmt.Fprintf(&b, "      %s\n", describe(op))
			continue
		}
		n++
		fmt.Fprintf(&b, "  %3d %s\n", n, describe(op))
	}
	return b.String()
}

type verdict struct{ key, detail string }

// restartAndCheck starts a node on a crash image the way node.NewNode does and compares the stores.
func restartAndCheck(s *chainsim.Sim, img *world.DBSet, val *consim.ValKey, power func(uint64) int64, facts []*blockFacts, acked, H uint64) *verdict {
	var w *world.World
	var err error
	// the same image once more, untouched, for the real node.NewNode at the end
	img2 := img.Clone()
	defer img2.Remove()
	if rec := try(func() { w, err = world.Open(s.Spec, img) }); rec != nil {
		return &verdict{"restart-fails:application-panics", fmt.Sprintf("opening the application on the crash image panics: %v", rec)}
	}
	if err != nil {
		return &verdict{"restart-fails:application-error", fmt.Sprintf("opening the application on the crash image fails: %v", err)}
	}
	defer w.Mempool.Stop()
	h := w.BlockStore.Height()
	if h < acked {
		return &verdict{"acknowledged-block-lost", fmt.Sprintf("the block store is at height %d after the restart, but block %d had been acknowledged (finalizeCommit had returned)", h, acked)}
	}
	if h > H {
		return &verdict{"restart-inconsistent:block-store-ahead", fmt.Sprintf("block store height %d > %d", h, H)}
	}
	// the block store serves every block up to its height
	for k := uint64(1); k <= h; k++ {
		var b *types.Block
		if rec := try(func() { b = w.BlockStore.LoadBlock(k) }); rec != nil || b == nil {
			return &verdict{"restart-inconsistent:block-unreadable", fmt.Sprintf("block %d of a store at height %d cannot be loaded (%v)", k, h, rec)}
		}
		if b.Hash() != facts[k].hash {
			return &verdict{"restart-inconsistent:block-differs", fmt.Sprintf("block %d is not the committed one", k)}
		}
		if w.BlockStore.LoadSeenCommit(k) == nil {
			return &verdict{"restart-inconsistent:seen-commit-missing", fmt.Sprintf("no seen commit for block %d of a store at height %d", k, h)}
		}
	}
	// world state == state after exactly h blocks
	cs := &chainsim.Sim{W: w, Universe: s.Universe, Contracts: s.Contracts}
	var got *chainsim.Holdings
	if rec := try(func() { got = cs.Snapshot() }); rec != nil {
		return &verdict{"restart-fails:state-unreadable", fmt.Sprintf("reading the state panics: %v", rec)}
	}
	if d := sameHoldings(got, facts[h].holdings, s.Universe); d != "" {
		which := "behind"
		if d2 := sameHoldings(got, facts[H].holdings, s.Universe); d2 == "" && h < H {
			which = "ahead"
		}
		return &verdict{"restart-inconsistent:world-state-" + which, fmt.Sprintf("block store is at height %d but the world state is not the state after block %d: %s", h, h, d)}
	}
	// the signer set in force is the one after exactly h blocks
	if got := signersOf(w); got != facts[h].signers {
		which := "behind"
		if h < H && got == facts[H].signers {
			which = "ahead"
		}
		return &verdict{"restart-inconsistent:signer-set-" + which, fmt.Sprintf("block store is at height %d but the upgrade signer set the node works with is %s, after block %d it is %s", h, got, h, facts[h].signers)}
	}
	// spent key images == those of blocks <= h
	for k := uint64(1); k <= H; k++ {
		for _, ki := range facts[k].keyImages {
			ki := ki
			spent := w.UtxoStore.HaveTxKeyimgAsSpent(&ki)
			if k <= h && !spent {
				return &verdict{"restart-inconsistent:utxo-store-behind:key-image-of-committed-block-unspent", fmt.Sprintf("block %d is committed (store height %d) but the key image %x of its transaction is not recorded as spent: the output can be spent again", k, h, ki[:6])}
			}
			if k > h && spent {
				return &verdict{"restart-inconsistent:key-image-of-uncommitted-block-spent", fmt.Sprintf("block %d is not committed (store height %d) but the key image %x of its transaction is recorded as spent: the block can no longer be validated", k, h, ki[:6])}
			}
		}
	}
	// confidential output index == outputs of blocks <= h
	want := map[common.Address]int{}
	toks := map[common.Address]bool{}
	for k := uint64(1); k <= H; k++ {
		for tok, n := range facts[k].outs {
			toks[tok] = true
			if k <= h {
				want[tok] += n
			}
		}
	}
	for tok := range toks {
		if gotSeq := w.UtxoStore.GetMaxUtxoOutputSeq(tok); gotSeq != int64(want[tok])-1 {
			which := "behind"
			if gotSeq > int64(want[tok])-1 {
				which = "ahead"
			}
			if which == "behind" {
				which = "utxo-store-behind:output-index"
			} else {
				which = "output-index-ahead"
			}
			return &verdict{"restart-inconsistent:" + which, fmt.Sprintf("store height %d: the confidential output index of token %s ends at %d, the blocks up to %d created %d outputs", h, tok.Hex(), gotSeq, h, want[tok])}
		}
		for i := 0; i < want[tok]; i++ {
			var o *types.UTXOOutputData
			var e error
			if rec := try(func() { o, e = w.UtxoStore.GetUtxoOutput(tok, uint64(i)) }); rec != nil || e != nil || o == nil {
				return &verdict{"restart-inconsistent:output-unreadable", fmt.Sprintf("store height %d: output %d of token %s cannot be read (%v %v)", h, i, tok.Hex(), rec, e)}
			}
		}
	}
	// transaction index == transactions of blocks <= h, as the lookups a client uses see it (BlockStore.GetTx and
	// GetTransactionReceipt, behind eth_getTransactionByHash / eth_getTransactionReceipt)
	for k := uint64(1); k <= H; k++ {
		for _, th := range facts[k].txs {
			var tx types.Tx
			var e *types.TxEntry
			var rcpt *types.Receipt
			if rec := try(func() { tx, e = w.BlockStore.GetTx(th); rcpt, _, _, _ = w.BlockStore.GetTransactionReceipt(th) }); rec != nil {
				return &verdict{"restart-fails:tx-lookup-panics", fmt.Sprintf("looking up transaction %s of block %d panics at store height %d: %v", th.Hex(), k, h, rec)}
			}
			if k <= h && (tx == nil || e == nil || e.BlockHeight != k || rcpt == nil) {
				return &verdict{"restart-inconsistent:tx-index-behind", fmt.Sprintf("transaction %s of committed block %d is not found through the index (tx %v, entry %v, receipt %v)", th.Hex(), k, tx != nil, e, rcpt != nil)}
			}
			if k > h && (tx != nil || rcpt != nil) {
				return &verdict{"restart-inconsistent:tx-index-ahead", fmt.Sprintf("store height %d: a lookup of transaction %s answers with block %d (transaction found: %v, receipt found: %v), which is not committed and whose effects are not in the state", h, th.Hex(), k, tx != nil, rcpt != nil)}
			}
		}
	}
	// consensus status: NewNode rebuilds a status that lags by exactly one block
	var status consensus.NewStatus
	if rec := try(func() { status, err = consensus.LoadStatus(img.Status) }); rec != nil || err != nil {
		return &verdict{"restart-fails:status-unreadable", fmt.Sprintf("LoadStatus: %v %v", rec, err)}
	}
	if status.LastBlockHeight > h {
		return &verdict{"restart-inconsistent:status-ahead", fmt.Sprintf("consensus status is at height %d, the application at %d", status.LastBlockHeight, h)}
	}
	if status.LastBlockHeight+1 < h {
		return &verdict{"restart-inconsistent:status-behind", fmt.Sprintf("consensus status is at height %d, the application at %d: NewNode only rebuilds a lag of one", status.LastBlockHeight, h)}
	}
	x, err := startNodeLikeNewNode(w, img.Status, val, power, status)
	if err != nil {
		return &verdict{"restart-fails:status-rebuild", fmt.Sprintf("rebuilding the consensus status for block %d fails: %v", h, err)}
	}
	defer x.net.Close()
	if st, _ := consensus.LoadStatus(img.Status); st.LastBlockHeight != h {
		return &verdict{"restart-inconsistent:status-after-rebuild", fmt.Sprintf("after the rebuild the status is at %d, the application at %d", st.LastBlockHeight, h)}
	}
	// the REAL node.NewNode on the same crash image: it must come up, and leave block store, application and consensus
	// status at the same height, with the same last block, as the transcription above (what it reads the next
	// validators from - the elected candidates instead of the harness's script - may differ, so those fields are
	// left out of the comparison)
	// (node.NewNode leaves goroutines and their caches behind that nothing can stop from outside, so it is run on a
	// bounded number of images per history: those where the status lagged - the reconciliation proper - first)
	lagged := status.LastBlockHeight+1 == h
	if !loopbackOK() {
		// NewP2pManager binds a TCP listener at construction; without a loopback interface node.NewNode cannot be built at
		// all and its failure would say nothing about the crash image
		vstat.Label("real_newnode_skipped_no_loopback_listener")
	} else if realBudget.take(lagged) {
		if v := realNewNodeAgrees(s, img2, img.Status, val, h, facts[h].hash); v != nil {
			return v
		}
		vstat.Label(fmt.Sprintf("real_newnode_status_lagged_%v", lagged))
	}
	// the validator and parameter records the node needs for its next height are there
	for _, k := range []uint64{h, h + 1} {
		if k == 0 {
			continue
		}
		if rec := try(func() { _, _, err = consensus.LoadValidators(img.Status, k) }); rec != nil || err != nil {
			return &verdict{"restart-inconsistent:validators-unreadable", fmt.Sprintf("LoadValidators(%d) at status height %d: %v %v", k, h, rec, err)}
		}
		if rec := try(func() { _, err = consensus.LoadConsensusParams(img.Status, k) }); rec != nil || err != nil {
			return &verdict{"restart-inconsistent:params-unreadable", fmt.Sprintf("LoadConsensusParams(%d) at status height %d: %v %v", k, h, rec, err)}
		}
	}
	// ... and the node goes on: it builds and commits block h+1
	if c := x.advance(); c != nil {
		return &verdict{"restart-fails:node-cannot-continue", fmt.Sprintf("after the restart at height %d the node crashes on its next block: %v\n%s", h, c, strings.Join(x.net.Trace, "\n"))}
	}
	if w.BlockStore.Height() != h+1 {
		return &verdict{"restart-fails:node-cannot-continue", fmt.Sprintf("after the restart at height %d the node does not commit block %d\n%s", h, h+1, strings.Join(x.net.Trace, "\n"))}
	}
	if st, _ := consensus.LoadStatus(img.Status); st.LastBlockHeight != h+1 {
		return &verdict{"restart-inconsistent:status-after-next-block", fmt.Sprintf("status at %d after committing block %d", st.LastBlockHeight, h+1)}
	}
	vstat.Label(fmt.Sprintf("restart_height_%s", map[bool]string{true: "includes_block", false: "excludes_block"}[h == H]))
	return nil
}

var loopbackOnce sync.Once
var loopbackUsable bool

// loopbackOK probes once whether this machine lets a process listen on a loopback TCP port.
func loopbackOK() bool {
	loopbackOnce.Do(func() {
		l, err := net.Listen("tcp", "127.0.0.1:0")
		if err == nil {
			l.Close()
			loopbackUsable = true
		}
	})
	return loopbackUsable
}

// realBudget bounds the node.NewNode calls of one history (reset by runCrash).
var realBudget budget

type budget struct{ lag, noLag, process int }

func (b *budget) reset() { b.lag, b.noLag = 2, 1 }
func (b *budget) take(lagged bool) bool {
	c := &b.noLag
	if lagged {
		c = &b.lag
	}
	// every call leaks some 20 MB (two 100 000-entry transaction heaps kept alive by their goroutines): a process
	// stops after 30 of them; a replay of a saved case starts a fresh process and so always has the budget
	if *c == 0 || b.process >= 30 {
		return false
	}
	*c--
	b.process++
	return true
}

// realNewNodeAgrees calls node.NewNode (the node is not started) on the databases of a crash image.
func realNewNodeAgrees(s *chainsim.Sim, img *world.DBSet, transcribed dbm.DB, val *consim.ValKey, h uint64, hash common.Hash) *verdict {
	c := cfg.DefaultConfig()
	c.SetRoot(img.Dir)
	c.IsTestMode = true
	c.FullNode = s.Spec.IsTrie
	c.BootNodeSvr.Addrs = nil
	c.ProfListenAddress = ""
	// NewP2pManager binds its TCP listener at construction: any free loopback port, no look-up of an external interface
	c.P2P.ListenAddress = "tcp://127.0.0.1:0"
	c.P2P.ExternalAddress = "127.0.0.1"
	c.Mempool.Broadcast = false
	c.Mempool.BroadcastChanSize = 16
	c.Mempool.CacheSize = 1000
	c.Mempool.FutureSize = 1000
	prov := func(ctx *realnode.DBContext) (dbm.DB, error) {
		switch ctx.ID {
		case "blockstore":
			return img.Block, nil
		case "balance_record":
			return img.Balance, nil
		case "txmgr":
			return img.Tx, nil
		case "consensus_state":
			return img.Status, nil
		case "state":
			return img.State, nil
		case "evidence":
			return img.Evidence, nil
		case "utxo":
			return img.Utxo, nil
		case "utxo_output":
			return img.UtxoOut, nil
		case "utxo_output_token":
			return img.UtxoTok, nil
		}
		return dbm.NewMemDB(), nil
	}
	var n *realnode.Node
	var err error
	if rec := try(func() {
		n, err = realnode.NewNode(c, &consim.RecPV{Key: val}, prov, realnode.NopMetricsProvider, log.NewNopLogger())
	}); rec != nil {
		return &verdict{"restart-fails:newnode-panics", fmt.Sprintf("node.NewNode panics on the crash image (block store at %d): %v", h, rec)}
	}
	if err != nil || n == nil {
		return &verdict{"restart-fails:newnode-error", fmt.Sprintf("node.NewNode fails on the crash image (block store at %d) although the transcribed start-up succeeds: %v", h, err)}
	}
	vstat.Label("real_newnode_started")
	if got := n.BlockStore().Height(); got != h {
		return &verdict{"restart-inconsistent:newnode-block-store", fmt.Sprintf("node.NewNode leaves the block store at %d, the image had %d", got, h)}
	}
	st, e1 := consensus.LoadStatus(img.Status)
	ref, e2 := consensus.LoadStatus(transcribed)
	if e1 != nil || e2 != nil {
		return &verdict{"restart-fails:status-unreadable", fmt.Sprintf("LoadStatus after node.NewNode: %v %v", e1, e2)}
	}
	if st.LastBlockHeight != h {
		return &verdict{"restart-inconsistent:newnode-status-height", fmt.Sprintf("after node.NewNode the consensus status is at height %d, block store and application at %d", st.LastBlockHeight, h)}
	}
	if h > 0 && st.LastBlockID.Hash != hash {
		return &verdict{"restart-inconsistent:newnode-status-block", fmt.Sprintf("after node.NewNode the status at height %d names block %s, the committed one is %s", h, st.LastBlockID.Hash.Hex(), hash.Hex())}
	}
	if st.ChainID != ref.ChainID || st.LastBlockTotalTx != ref.LastBlockTotalTx || st.LastBlockTime != ref.LastBlockTime || !st.LastBlockID.Equals(ref.LastBlockID) {
		return &verdict{"restart-inconsistent:newnode-status-differs", fmt.Sprintf("after node.NewNode the status at height %d is (chain %q, total txs %d, time %d, block %v), the transcribed start-up has (%q, %d, %d, %v)", h, st.ChainID, st.LastBlockTotalTx, st.LastBlockTime, st.LastBlockID, ref.ChainID, ref.LastBlockTotalTx, ref.LastBlockTime, ref.LastBlockID)}
	}
	if rs := n.ConsensusState().GetRoundState(); rs.Height != h+1 {
		return &verdict{"restart-inconsistent:newnode-consensus-height", fmt.Sprintf("after node.NewNode on an image at height %d the consensus state works on height %d", h, rs.Height)}
	}
	return nil
}

// startNodeLikeNewNode performs the status reconciliation of node.NewNode ("rebuild status") and builds the node.
func startNodeLikeNewNode(w *world.World, statusDB dbm.DB, val *consim.ValKey, power func(uint64) int64, status consensus.NewStatus) (x *node, err error) {
	appHeight := w.App.Height()
	app := &consim.RealApp{W: w}
	app.ValsAt = func(h uint64) []*types.Validator {
		return []*types.Validator{{Address: val.Addr, PubKey: val.Pub, VotingPower: power(h), CoinBase: val.CoinBase}}
	}
	if status.LastBlockHeight+1 == appHeight {
		blockExec := consensus.NewBlockExecutor(statusDB, log.NewNopLogger(), consensus.MockEvidencePool{})
		blockMeta := w.App.LoadBlockMeta(appHeight)
		block := w.App.LoadBlock(appHeight)
		if blockMeta == nil || block == nil {
			return nil, types.ErrUnknownBlock
		}
		var e error
		if rec := try(func() { _, e = blockExec.ApplyBlock(status, blockMeta.BlockID, block, app.GetValidators(appHeight)) }); rec != nil {
			return nil, fmt.Errorf("ApplyBlock panics: %v", rec)
		}
		if e != nil {
			return nil, e
		}
		vstat.Label("status_rebuilt_on_restart")
	}
	var nd *node
	if rec := try(func() { nd, err = startNode(w, statusDB, val, power) }); rec != nil {
		return nil, fmt.Errorf("building the consensus state panics: %v", rec)
	}
	return nd, err
}

func TestCrashAtEveryWrite(t *testing.T) {
	rapid.Check(t, runCrash)
}
