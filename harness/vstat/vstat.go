// Package vstat is the bookkeeping every /verif check shares: evaluation counters,
// non-trivial-case fingerprints, labels, samples, the known-findings table and the
// violation channel.  A test binary writes one JSON record to $VERIF_STATS on exit.
package vstat

import (
	"bufio"
	"encoding/json"
	"fmt"
	"hash/fnv"
	"os"
	"sort"
	"strconv"
	"sync"
	"testing"
	"time"
)

// TB is the subset of testing.TB / *rapid.T that vstat needs.
type TB interface {
	Fatalf(format string, args ...interface{})
	Logf(format string, args ...interface{})
}

type finding struct {
	Property string `json:"property"`
	Key      string `json:"key"`
	Status   string `json:"status"`
	What     string `json:"what"`
}

type knownHit struct {
	Key    string `json:"key"`
	Count  int    `json:"count"`
	Detail string `json:"detail"`
}

type record struct {
	Evaluations int64            `json:"evaluations"`
	NonTrivial  int64            `json:"nontrivial_total"`
	Distinct    []string         `json:"distinct"`
	Labels      map[string]int64 `json:"labels"`
	Samples     []interface{}    `json:"samples"`
	Known       []knownHit       `json:"known_hits"`
	Excluded    map[string]int64 `json:"excluded"`
	Notes       []string         `json:"notes"`
	Observed    []knownHit       `json:"observed_violations"`
}

const maxDistinct = 400000
const maxSamples = 6

var (
	mu       sync.Mutex
	evals    int64
	nontriv  int64
	distinct = map[uint64]struct{}{}
	labels   = map[string]int64{}
	samples  []interface{}
	known    = map[string]finding{}
	hits     = map[string]*knownHit{}
	excluded = map[string]int64{}
	observed []knownHit
	notes    []string
	loaded   bool
)

func load() {
	if loaded {
		return
	}
	loaded = true
	path := os.Getenv("VERIF_KNOWN")
	if path == "" {
		return
	}
	f, err := os.Open(path)
	if err != nil {
		return
	}
	defer f.Close()
	sc := bufio.NewScanner(f)
	sc.Buffer(make([]byte, 1<<20), 1<<20)
	for sc.Scan() {
		line := sc.Bytes()
		if len(line) == 0 || line[0] != '{' {
			continue
		}
		var fd finding
		if json.Unmarshal(line, &fd) == nil && fd.Status == "known" {
			known[fd.Property+"/"+fd.Key] = fd
		}
	}
}

// Tier returns "quick" or "thorough".
func Tier() string {
	if os.Getenv("VERIF_TIER") == "thorough" {
		return "thorough"
	}
	return "quick"
}

// Seed returns VERIF_SEED (default 1).
func Seed() int64 {
	n, err := strconv.ParseInt(os.Getenv("VERIF_SEED"), 10, 64)
	if err != nil {
		return 1
	}
	return n
}

// Eval counts one generated case.
func Eval() {
	mu.Lock()
	evals++
	mu.Unlock()
}

// EvalN counts n generated cases.
func EvalN(n int) {
	mu.Lock()
	evals += int64(n)
	mu.Unlock()
}

// NonTrivial records a case that is non-trivial by the check's stated rule; fp is a
// fingerprint of the case (distinct fingerprints are counted).
func NonTrivial(fp string) {
	h := fnv.New64a()
	h.Write([]byte(fp))
	mu.Lock()
	nontriv++
	if len(distinct) < maxDistinct {
		distinct[h.Sum64()] = struct{}{}
	}
	mu.Unlock()
}

// Label counts a class of case.
func Label(name string) {
	mu.Lock()
	labels[name]++
	mu.Unlock()
}

// LabelN adds n to a class counter.
func LabelN(name string, n int) {
	mu.Lock()
	labels[name] += int64(n)
	mu.Unlock()
}

// Sample keeps the first few concrete cases verbatim.
func Sample(v interface{}) {
	mu.Lock()
	if len(samples) < maxSamples {
		samples = append(samples, v)
	}
	mu.Unlock()
}

// WantSample says whether another sample is still wanted (so callers can avoid the formatting cost).
func WantSample() bool {
	mu.Lock()
	defer mu.Unlock()
	return len(samples) < maxSamples
}

// Note attaches a free-text remark to the evidence.
func Note(s string) {
	mu.Lock()
	notes = append(notes, s)
	mu.Unlock()
}

// IsKnown reports whether a root-cause key is listed as a known (unrepaired) finding.
func IsKnown(property, key string) bool {
	mu.Lock()
	defer mu.Unlock()
	load()
	_, ok := known[property+"/"+key]
	return ok
}

// Excluded counts a case the generator left out because it would only re-hit a known finding.
func Excluded(key string) {
	mu.Lock()
	excluded[key]++
	mu.Unlock()
}

// Violation reports a property violation with its root-cause key.  If the key is a listed
// known finding it is counted and false is returned (the caller abandons the case);
// otherwise the test fails with a line the driver recognises.
func Violation(t TB, property, key, format string, args ...interface{}) bool {
	detail := fmt.Sprintf(format, args...)
	mu.Lock()
	load()
	_, ok := known[property+"/"+key]
	if ok {
		h := hits[key]
		if h == nil {
			h = &knownHit{Key: key, Detail: detail}
			hits[key] = h
		}
		h.Count++
	}
	mu.Unlock()
	if ok {
		return false
	}
	// remember it durably first: a process that dies afterwards (out of memory while shrinking, a wedged goroutine)
	// must not turn an observed violation into an infrastructure problem
	mu.Lock()
	if len(observed) < 5 {
		d := detail
		if len(d) > 2000 {
			d = d[:2000]
		}
		observed = append(observed, knownHit{Key: property + "/" + key, Detail: d, Count: 1})
	}
	mu.Unlock()
	Flush()
	t.Fatalf("VIOLATION-KEY %s/%s :: %s", property, key, detail)
	return true
}

// Flush writes the record; called from Main.
func Flush() {
	path := os.Getenv("VERIF_STATS")
	if path == "" {
		return
	}
	mu.Lock()
	defer mu.Unlock()
	r := record{Evaluations: evals, NonTrivial: nontriv, Labels: labels, Samples: samples, Excluded: excluded, Notes: notes, Observed: observed}
	for h := range distinct {
		r.Distinct = append(r.Distinct, strconv.FormatUint(h, 36))
	}
	sort.Strings(r.Distinct)
	for _, h := range hits {
		r.Known = append(r.Known, *h)
	}
	b, err := json.Marshal(r)
	if err != nil {
		b, _ = json.Marshal(map[string]interface{}{"evaluations": evals, "error": err.Error()})
	}
	_ = os.WriteFile(path+".tmp", b, 0o644)
	_ = os.Rename(path+".tmp", path)
}

// Main wraps testing.M so the record is written whatever the outcome.
func Main(m *testing.M) {
	stop := make(chan struct{})
	go func() {
		tk := time.NewTicker(2 * time.Second)
		defer tk.Stop()
		for {
			select {
			case <-tk.C:
				Flush()
			case <-stop:
				return
			}
		}
	}()
	code := m.Run()
	close(stop)
	Flush()
	os.Exit(code)
}
