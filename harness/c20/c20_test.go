// C20 — contract execution is metered, atomic and crash-free for arbitrary programs.
//
// One case = a world (1-3 deployed contracts in a StateDB over MemDB), one top-level execution
// (evm.Call / evm.UTXOCall / evm.Create / runtime.Execute) and optionally a warm-up execution.
// The case is executed
//
//	A: on a fresh copy of the state, through a recording StateDB wrapper, with the tracer attached;
//	B: on a second fresh copy, on the bare StateDB, without tracer (the production configuration);
//	C: on a third copy, on an EVM object that first ran the warm-up execution, which the harness then
//	   reverted (the node re-uses one EVM per block and reverts failed transactions the same way).
//
// Oracle: no panic; the work done (sum of the cost of all executed non-call steps, all frames) never
// exceeds the gas given and leftOverGas <= gas; every step is charged its cost, memory only grows by
// what the operands need and the step paid for (reference model), a refused step grows nothing;
// A, B and C agree on return data, error, gas, logs and the getter digest of the touched universe
// (A and B also on the state root); a top-level execution that returns an error leaves the digest
// as it was and the value with the caller; every inner CALL/CREATE-family frame that pushes 0
// leaves every account / slot / log it (or its children) wrote as at frame entry (creator nonce +1
// allowed for CREATE); a successful STATICCALL frame leaves everything as it was.
package c20

import (
	"bytes"
	"fmt"
	"math/big"
	"os"
	"regexp"
	"runtime/debug"
	"sort"
	"strings"
	"sync"
	"testing"

	"github.com/lianxiangcloud/linkchain/config"
	"github.com/lianxiangcloud/linkchain/libs/common"
	"github.com/lianxiangcloud/linkchain/libs/crypto"
	"github.com/lianxiangcloud/linkchain/libs/log"
	"github.com/lianxiangcloud/linkchain/state"
	"github.com/lianxiangcloud/linkchain/types"
	"github.com/lianxiangcloud/linkchain/vm/evm"
	vmruntime "github.com/lianxiangcloud/linkchain/vm/runtime"
	"pgregory.net/rapid"

	"verifharness/vstat"
)

const P = "C20"

// Root causes found on the unchanged tree (see /verif/KNOWN_FINDINGS.jsonl).
const (
	// vm/evm/analysis.go destinations.has caches the JUMPDEST bitmap of CREATE init code under the
	// zero code hash (contract.go SetCodeOptionalHash leaves CodeHash empty); the map is shared by
	// all frames of a top-level call, so a second, longer init code that jumps indexes out of range.
	kJumpdest = "panic:jumpdest-bitmap-of-init-code-cached-under-zero-code-hash"
	// vm/evm/evm.go: after a frame that executed ISSUE the EVM sends a read-only decimals() call to
	// the contract with a fixed 1e10 gas that is taken from nobody.
	kIssueGas = "meter:issue-decimals-query-runs-on-1e10-gas-outside-the-callers-gas"
)

func TestMain(m *testing.M) {
	log.Root().SetHandler(log.DiscardHandler())
	vstat.Main(m)
}

// ---------------------------------------------------------------- one execution

type caseData struct {
	World worldSpec `json:"world"`
	Main  execSpec  `json:"main"`
	Warm  *execSpec `json:"warm,omitempty"`
}

type chainStub struct{}

// GetHeader: synthetic ancestors, so that BLOCKHASH has something to return.
func (chainStub) GetHeader(h uint64) *types.Header {
	if h >= blockNumber {
		return nil
	}
	return &types.Header{Height: h, ParentHash: common.BigToHash(new(big.Int).SetUint64(0xb10c0000 + h))}
}

var gasPrice = big.NewInt(100000000000)

func newEVM(st types.StateDB, es execSpec, tr *tracer) *evm.EVM {
	hdr := &types.Header{Height: blockNumber, Time: 1600000000, GasLimit: 50000000, Coinbase: coinbase,
		ParentHash: common.BigToHash(big.NewInt(0xb10c0000 + blockNumber))}
	ctx := evm.NewEVMContext(hdr, chainStub{}, nil, config.EvmGasRate)
	// what vm.Reset(msg) + vm.SetToken do in app/state_transition.go
	ctx.Origin = senderAddr
	ctx.GasPrice = new(big.Int).Set(gasPrice)
	ctx.Token = es.token()
	cfg := evm.Config{}
	if tr != nil {
		cfg.Debug, cfg.Tracer = true, tr
	}
	return evm.NewEVM(ctx, st, cfg)
}

var runtimeAddr = common.BytesToAddress([]byte("contract")) // where runtime.Execute puts the code

// effectiveValue: evm.Call checks the caller's balance itself; UTXOCall and top-level Create credit
// the value without debiting anybody, because app/state_transition.go has checked and debited the
// sender before (transitInputs) - the harness does the same and never passes more than the balance.
func effectiveValue(st *state.StateDB, es execSpec) *big.Int {
	v := bigOf(es.Value)
	if es.Mode == "utxocall" || es.Mode == "create" {
		tk := es.token()
		if es.Mode == "create" {
			tk = common.EmptyAddress
		}
		if bal := st.GetTokenBalance(senderAddr, tk); bal.Cmp(v) < 0 {
			v = new(big.Int).Set(bal)
		}
	}
	return v
}

// prep applies what the real caller does to the state before it enters the EVM.
func prep(st *state.StateDB, es execSpec) *big.Int {
	v := effectiveValue(st, es)
	switch es.Mode {
	case "utxocall":
		st.SubTokenBalance(senderAddr, es.token(), v)
	case "create":
		st.SubTokenBalance(senderAddr, common.EmptyAddress, v)
	case "runtime":
		st.CreateAccount(runtimeAddr)
		st.SetCode(runtimeAddr, es.Code)
	}
	return v
}

type outcome struct {
	ret      []byte
	gasLeft  uint64
	haveGas  bool
	err      error
	addr     common.Address
	pan      interface{}
	panStack string
}

func (o *outcome) errString() string {
	if o.err == nil {
		return ""
	}
	return o.err.Error()
}

// execute runs es on vm; only this call is wrapped in recover().
func execute(vm *evm.EVM, st *state.StateDB, es execSpec, value *big.Int, tr *tracer) (o outcome) {
	defer func() {
		if r := recover(); r != nil {
			o.pan = r
			o.panStack = string(debug.Stack())
		}
	}()
	caller := evm.AccountRef(senderAddr)
	switch es.Mode {
	case "call":
		o.ret, o.gasLeft, _, o.err = vm.Call(caller, contractAt[es.Target], es.token(), es.Input, es.Gas, value)
		o.haveGas = true
	case "utxocall":
		o.ret, o.gasLeft, _, o.err = vm.UTXOCall(caller, contractAt[es.Target], es.token(), es.Input, es.Gas, value)
		o.haveGas = true
	case "create":
		o.ret, o.addr, o.gasLeft, o.err = vm.Create(caller, es.Code, es.Gas, value)
		o.haveGas = true
	case "runtime":
		cfg := &vmruntime.Config{Difficulty: big.NewInt(1), Origin: senderAddr, Coinbase: coinbase, BlockNumber: big.NewInt(blockNumber),
			Time: big.NewInt(1600000000), GasLimit: es.Gas, GasPrice: new(big.Int).Set(gasPrice), Value: value, State: st}
		if tr != nil {
			cfg.EVMConfig = evm.Config{Debug: true, Tracer: tr}
		}
		o.ret, _, o.err = vmruntime.Execute(es.Code, es.Input, cfg)
	}
	o.ret = common.CopyBytes(o.ret)
	return
}

func errClass(err error) string {
	if err == nil {
		return "ok"
	}
	s := err.Error()
	switch {
	case err == types.ExecutionReverted:
		return "revert"
	case err == evm.ErrOutOfGas:
		return "out-of-gas"
	case err == evm.ErrCodeStoreOutOfGas:
		return "code-store-out-of-gas"
	case err == evm.ErrDepth:
		return "depth"
	case err == evm.ErrInsufficientBalance:
		return "insufficient-balance"
	case err == evm.ErrContractAddressCollision:
		return "address-collision"
	case strings.HasPrefix(s, "invalid opcode"):
		return "invalid-opcode"
	case strings.HasPrefix(s, "invalid jump"):
		return "invalid-jump"
	case strings.HasPrefix(s, "stack underflow"):
		return "stack-underflow"
	case strings.HasPrefix(s, "stack limit"):
		return "stack-limit"
	case strings.Contains(s, "write protection"):
		return "write-protection"
	case strings.Contains(s, "return data out of bounds"):
		return "returndata-oob"
	case strings.Contains(s, "max code size"):
		return "max-code-size"
	case strings.Contains(s, "gas uint64 overflow"):
		return "gas-overflow"
	}
	return "other"
}

func logStrings(st *state.StateDB) []string {
	var out []string
	for _, l := range st.GetLogs(txHash) {
		out = append(out, fmt.Sprintf("%x|%x|%x|#%d", l.Address[18:], l.Topics, l.Data, l.Index))
	}
	return out
}

var reRepoFunc = regexp.MustCompile(`linkchain/([A-Za-z0-9_/]+)\.([A-Za-z0-9_.()*]+)\(`)

// panicKey names an unexpected panic after the innermost /repo function on its stack.
func panicKey(stack string) string {
	for _, line := range strings.Split(stack, "\n") {
		if strings.Contains(line, "verifharness") || strings.Contains(line, "runtime/debug") {
			continue
		}
		if m := reRepoFunc.FindStringSubmatch(line); m != nil {
			return "panic:" + m[1] + "." + strings.NewReplacer("(", "", ")", "", "*", "").Replace(m[2])
		}
	}
	return "panic:unknown-site"
}

// ---------------------------------------------------------------- the oracle

// report returns false when a violation was a listed finding (the caller abandons the case).
func report(t vstat.TB, cd *caseData, key, format string, args ...interface{}) bool {
	msg := fmt.Sprintf(format, args...)
	if vstat.Violation(t, P, key, "%s ; case: mode=%s target=%d token=%q gas=%d value=%s input=%x code=%x contracts=%s", msg,
		cd.Main.Mode, cd.Main.Target, cd.Main.Token, cd.Main.Gas, cd.Main.Value, []byte(cd.Main.Input), []byte(cd.Main.Code), contractsHex(cd.World)) {
		return true
	}
	seenMu.Lock()
	seenKnown[key]++
	seenMu.Unlock()
	vstat.Label("known-finding-hit:" + key)
	return false
}

// how often a listed finding was met in this process (the regression tests insist on > 0)
var (
	seenMu    sync.Mutex
	seenKnown = map[string]int{}
)

func knownHits(key string) int {
	seenMu.Lock()
	defer seenMu.Unlock()
	return seenKnown[key]
}

func contractsHex(ws worldSpec) string {
	var sb strings.Builder
	for i, c := range ws.Contracts {
		fmt.Fprintf(&sb, "[C%d bal=%s tokT=%s own=%s st=%v code=%x]", i, c.Balance, c.TokT, c.OwnTok, c.Storage, []byte(c.Code))
	}
	return sb.String()
}

// checkCase evaluates one case completely.
func checkCase(t vstat.TB, cd *caseData) {
	vstat.Eval()
	if cd.Main.Mode == "runtime" && cd.Main.Gas == 0 {
		cd.Main.Gas = 1 // runtime.Config treats 0 as "no limit"
	}
	w, err := buildWorld(cd.World)
	if err != nil {
		t.Fatalf("harness: cannot build the world: %v", err)
	}
	es := cd.Main
	vstat.Label("mode:" + es.Mode)

	// ---- run A: recorded and traced
	stA := w.fresh()
	value := prep(stA, es)
	callerBefore := new(big.Int).Set(stA.GetTokenBalance(senderAddr, es.token()))
	rec := newRecDB(stA)
	var trA *tracer
	var oA outcome
	if es.Mode == "runtime" {
		trA = newTracer(nil, es.Gas)
		oA = execute(nil, stA, es, value, trA)
	} else {
		trA = newTracer(rec, es.Gas)
		vm := newEVM(rec, es, trA)
		top := rec.openBracket(nil, 0, false, senderAddr)
		oA = execute(vm, stA, es, value, trA)
		if oA.pan == nil && !trA.cancelled {
			for _, d := range rec.closeBracket(top, oA.err != nil, false) {
				if !report(t, cd, "atomic:failed-top-level-call-left-a-state-change", "top-level %s returned %q but %s", es.Mode, oA.errString(), d) {
					return
				}
			}
		}
	}
	if trA.harness != nil {
		t.Fatalf("harness error inside the tracer: %v", trA.harness)
	}
	if oA.pan != nil {
		if trA.k1Predicted != "" && strings.Contains(fmt.Sprint(oA.pan), "index out of range") {
			report(t, cd, kJumpdest, "panic %v: %s", oA.pan, trA.k1Predicted)
			return
		}
		report(t, cd, panicKey(oA.panStack), "panic: %v\n%s", oA.pan, trimStack(oA.panStack))
		return
	}
	if trA.cancelled {
		if trA.overGasFrame {
			report(t, cd, kIssueGas, "executed steps costing %d gas although only %d gas were given: %s", trA.work, es.Gas, trA.overGasInfo)
		} else {
			report(t, cd, "meter:work-exceeds-gas-given", "executed steps costing %d gas although only %d gas were given", trA.work, es.Gas)
		}
		return
	}
	for _, f := range trA.finds {
		if !report(t, cd, f.key, "%s", f.msg) {
			return
		}
	}
	if oA.haveGas && oA.gasLeft > es.Gas {
		if !report(t, cd, "meter:leftover-exceeds-gas-given", "leftOverGas %d > gas %d", oA.gasLeft, es.Gas) {
			return
		}
	}

	// ---- the universe and the pre-state digest (from a third fresh copy)
	u := newUniverse()
	u.merge(rec.u)
	if es.Mode == "runtime" {
		u.addrs[runtimeAddr] = struct{}{}
		for i := 0; i < 4; i++ {
			u.slots[slotKey{runtimeAddr, common.BigToHash(big.NewInt(int64(i)))}] = struct{}{}
		}
	}
	if oA.addr != (common.Address{}) {
		u.addrs[oA.addr] = struct{}{}
	}
	stPre := w.fresh()
	prep(stPre, es)
	pre := takeDigest(stPre, u)
	postA := takeDigest(stA, u)
	if oA.err != nil {
		if d := pre.diff(postA); len(d) > 0 {
			if !report(t, cd, "atomic:failed-top-level-call-left-a-state-change", "top-level %s returned %q but the state differs from the pre-state: %s", es.Mode, oA.errString(), strings.Join(d, " ; ")) {
				return
			}
		}
		if now := stA.GetTokenBalance(senderAddr, es.token()); now.Cmp(callerBefore) != 0 {
			if !report(t, cd, "atomic:value-of-failed-call-left-the-caller", "top-level %s returned %q; the caller held %s before and holds %s now (value %s)", es.Mode, oA.errString(), callerBefore, now, value) {
				return
			}
		}
	}

	// ---- run B: bare state, no tracer (unless A met the 1e10-gas frame: then B needs the guard too)
	stB := w.fresh()
	prep(stB, es)
	var trB *tracer
	if trA.overGasFrame {
		trB = newTracer(nil, es.Gas)
	}
	var oB outcome
	if es.Mode == "runtime" {
		oB = execute(nil, stB, es, value, trB)
	} else {
		oB = execute(newEVM(stB, es, trB), stB, es, value, trB)
	}
	if oB.pan != nil {
		report(t, cd, "determinism:second-run-panics", "the first run finished (%q), an identical second run panics: %v\n%s", oA.errString(), oB.pan, trimStack(oB.panStack))
		return
	}
	if trB != nil && trB.cancelled {
		report(t, cd, "determinism:second-run-diverges", "the first run stayed within its gas, an identical second run did not")
		return
	}
	postB := takeDigest(stB, u)
	if !compareRuns(t, cd, "an identical second run (bare StateDB, no tracer)", &oA, &oB, stA, stB, postA, postB, true) {
		return
	}

	// ---- run C: the same execution on a re-used EVM after a reverted warm-up execution
	if cd.Warm != nil && es.Mode != "runtime" && cd.Warm.Mode != "runtime" {
		runReuse(t, cd, w, &oA, stA, u)
	}

	// roots last: IntermediateRoot finalises the state (app.go calls IntermediateRoot(false) on the
	// state the transactions ran on; a state it cannot encode takes the node down just as a panic
	// inside the VM does)
	rA, panA := rootOf(stA)
	rB, _ := rootOf(stB)
	if panA != nil {
		report(t, cd, "panic:post-state-cannot-be-committed", "the execution finished (%q) but IntermediateRoot panics on the state it left: %v", oA.errString(), panA)
		return
	}
	if rA != rB {
		if !report(t, cd, "determinism:state-root", "two identical executions give state roots %x and %x", rA, rB) {
			return
		}
	}

	classify(cd, &oA, trA, rec)
}

func rootOf(st *state.StateDB) (root common.Hash, pan interface{}) {
	defer func() { pan = recover() }()
	return st.IntermediateRoot(false), nil
}

func trimStack(s string) string {
	lines := strings.Split(s, "\n")
	var keep []string
	for _, l := range lines {
		if strings.Contains(l, "linkchain/") && !strings.HasPrefix(strings.TrimSpace(l), "/") {
			keep = append(keep, strings.TrimSpace(l))
		}
		if len(keep) >= 6 {
			break
		}
	}
	return strings.Join(keep, " <- ")
}

// compareRuns: everything observable about two executions of the same case must agree.
func compareRuns(t vstat.TB, cd *caseData, what string, a, b *outcome, stA, stB *state.StateDB, da, db *digest, refund bool) bool {
	var diffs []string
	if !bytes.Equal(a.ret, b.ret) {
		diffs = append(diffs, fmt.Sprintf("return data %x vs %x", a.ret, b.ret))
	}
	if a.errString() != b.errString() {
		diffs = append(diffs, fmt.Sprintf("error %q vs %q", a.errString(), b.errString()))
	}
	if a.gasLeft != b.gasLeft {
		diffs = append(diffs, fmt.Sprintf("leftOverGas %d vs %d", a.gasLeft, b.gasLeft))
	}
	if a.addr != b.addr {
		diffs = append(diffs, fmt.Sprintf("created address %x vs %x", a.addr, b.addr))
	}
	la, lb := logStrings(stA), logStrings(stB)
	if strings.Join(la, "\n") != strings.Join(lb, "\n") {
		diffs = append(diffs, fmt.Sprintf("logs %v vs %v", la, lb))
	}
	if refund && stA.GetRefund() != stB.GetRefund() {
		diffs = append(diffs, fmt.Sprintf("refund counter %d vs %d", stA.GetRefund(), stB.GetRefund()))
	}
	diffs = append(diffs, da.diff(db)...)
	if len(diffs) == 0 {
		return true
	}
	key := "determinism:second-run-differs"
	if !refund {
		key = "determinism:run-after-reverted-execution-differs"
	}
	return report(t, cd, key, "%s disagrees with the first run: %s", what, strings.Join(diffs, " ; "))
}

// runReuse: warm-up execution on the EVM object, harness-level revert (what refundGas does for a
// failed transaction), Reset, then the main execution; must be indistinguishable from run A.
func runReuse(t vstat.TB, cd *caseData, w *world, oA *outcome, stA *state.StateDB, u *universe) {
	warm, es := *cd.Warm, cd.Main
	st := w.fresh()
	rec := newRecDB(st)
	tr := newTracer(nil, warm.Gas)
	vm := newEVM(rec, warm, tr)
	snap := st.Snapshot()
	wv := prep(st, warm)
	ow := execute(vm, st, warm, wv, tr)
	if ow.pan != nil || tr.cancelled || tr.harness != nil {
		vstat.Label("reuse:skipped-warmup-hit-known-finding")
		return
	}
	st.RevertToSnapshot(snap)
	vm.Reset(types.NewMessage(senderAddr, nil, es.token(), st.GetNonce(senderAddr), nil, 0, gasPrice, nil))
	vm.SetToken(es.token())
	*tr = *newTracer(nil, es.Gas)
	value := prep(st, es)
	oC := execute(vm, st, es, value, tr)
	if oC.pan != nil {
		report(t, cd, "determinism:run-after-reverted-execution-differs", "the execution finished on a fresh EVM (%q) but panics on an EVM that ran (and reverted) another execution before: %v\n%s", oA.errString(), oC.pan, trimStack(oC.panStack))
		return
	}
	if tr.cancelled {
		report(t, cd, "determinism:run-after-reverted-execution-differs", "the execution stayed within its gas on a fresh EVM but not on a re-used one")
		return
	}
	u2 := newUniverse()
	u2.merge(u)
	u2.merge(rec.u)
	vstat.Label("reuse:compared")
	compareRuns(t, cd, fmt.Sprintf("the same execution on an EVM that first ran (and reverted) mode=%s target=%d gas=%d value=%s input=%x code=%x",
		warm.Mode, warm.Target, warm.Gas, warm.Value, []byte(warm.Input), []byte(warm.Code)), oA, &oC, stA, st, takeDigest(stA, u2), takeDigest(st, u2), false)
}

// ---------------------------------------------------------------- bookkeeping

func bucket(n int) string {
	switch {
	case n == 0:
		return "0"
	case n == 1:
		return "1"
	case n <= 5:
		return "2-5"
	case n <= 20:
		return "6-20"
	case n <= 100:
		return "21-100"
	case n <= 1000:
		return "101-1000"
	}
	return ">1000"
}

// opsSeen: per process, in how many cases each opcode executed successfully
var opsSeen [256]int

func classify(cd *caseData, o *outcome, tr *tracer, rec *recDB) {
	vstat.Label("result:" + errClass(o.err))
	if o.err == evm.ErrOutOfGas && tr.topFailOp != "" {
		vstat.Label("top-level-out-of-gas-at:" + tr.topFailOp)
	}
	vstat.Label("depth:" + bucket(tr.maxDepth))
	vstat.Label("steps:" + bucket(tr.steps))
	vstat.Label("inner_frames:" + bucket(tr.innerFrames))
	vstat.Label("failed_inner_frames:" + bucket(tr.failedInner))
	if tr.failedInner > 0 && o.err == nil {
		vstat.Label("has:failed-inner-frame-under-successful-top-level")
	}
	if tr.failedInner > 0 && rec.writes > 0 {
		vstat.Label("has:failed-inner-frame-and-state-writes")
	}
	if tr.staticFrames > 0 {
		vstat.Label("has:staticcall")
	}
	if tr.created > 0 {
		vstat.Label("has:successful-create")
	}
	if tr.issued > 0 {
		vstat.Label("has:issue")
	}
	if tr.overGasFrame {
		vstat.Label("has:decimals-query-frame")
	}
	if tr.suicides > 0 {
		vstat.Label("has:selfdestruct")
	}
	if tr.tokenMoves > 0 {
		vstat.Label("has:transfertoken-nonzero")
	}
	if tr.zeroShared {
		vstat.Label("has:two-init-codes-sharing-jumpdest-analysis")
	}
	if len(logStrings(rec.StateDB)) > 0 {
		vstat.Label("has:logs-kept")
	}
	for op, n := range tr.ops {
		if n > 0 {
			vstat.Label("op:" + evm.OpCode(op).String())
			opsSeen[op]++
		}
	}
	if tr.steps >= 10 || tr.innerFrames >= 1 {
		// the fingerprint describes the behaviour: entry, outcome, the first executed opcodes, frame profile
		vstat.NonTrivial(fmt.Sprintf("%s|%s|%x|d%d|f%d|x%d|s%d", cd.Main.Mode, errClass(o.err), tr.opSeq, tr.maxDepth, tr.innerFrames, tr.failedInner, tr.steps))
		if vstat.WantSample() && tr.innerFrames >= 1 && tr.failedInner >= 1 {
			vstat.Sample(map[string]interface{}{"case": cd, "result": errClass(o.err), "steps": tr.steps, "max_depth": tr.maxDepth,
				"inner_frames": tr.innerFrames, "failed_inner_frames": tr.failedInner, "gas_left": o.gasLeft})
		}
	}
}

// ---------------------------------------------------------------- tests

func TestGrammarPrograms(t *testing.T) {
	rapid.Check(t, func(t *rapid.T) {
		ws := genWorld(t)
		cd := &caseData{World: ws, Main: genExec(t, ws, "main")}
		if rapid.IntRange(0, 2).Draw(t, "withwarmup") == 0 {
			warm := genExec(t, ws, "warm")
			cd.Warm = &warm
		}
		checkCase(t, cd)
	})
}

// TestUniformBytes: code and call data are uniform byte strings (plus a fixed wrapper contract that
// calls the uniform code, so that its failures are inner-frame failures too).
func TestUniformBytes(t *testing.T) {
	rapid.Check(t, func(t *rapid.T) {
		code := rapid.SliceOfN(rapid.Byte(), 0, 96).Draw(t, "code")
		cd := uniformCase(code, rapid.SliceOfN(rapid.Byte(), 0, 64).Draw(t, "input"), genGas(t),
			uint64(rapid.IntRange(0, 1000001).Draw(t, "value")), uint8(rapid.IntRange(0, 4).Draw(t, "mode")))
		checkCase(t, cd)
	})
}

// fixed helper contracts of the byte-level tests
var (
	// forwards its call data to C0 with all gas, stores the success flag and the size of the answer
	wrapperCode = prog(func(a *asm) {
		a.pushU(7).pushU(2).op(evm.SSTORE)
		a.op(evm.CALLDATASIZE).pushU(0).pushU(0).op(evm.CALLDATACOPY)
		a.pushU(32).pushU(0).op(evm.CALLDATASIZE).pushU(0).pushU(0).pushAddr(contractAt[0]).op(evm.GAS, evm.CALL)
		a.pushU(0).op(evm.SSTORE, evm.RETURNDATASIZE).pushU(1).op(evm.SSTORE, evm.STOP)
	})
	// the same through STATICCALL
	staticWrapperCode = prog(func(a *asm) {
		a.op(evm.CALLDATASIZE).pushU(0).pushU(0).op(evm.CALLDATACOPY)
		a.pushU(32).pushU(0).op(evm.CALLDATASIZE).pushU(0).pushAddr(contractAt[0]).op(evm.GAS, evm.STATICCALL)
		a.pushU(0).op(evm.SSTORE, evm.STOP)
	})
)

func uniformCase(code, input []byte, gas, value uint64, mode uint8) *caseData {
	if len(code) > 8192 {
		code = code[:8192]
	}
	ws := worldSpec{IsTrie: true, SenderBal: "1000000", SenderT: "1000", PrecompFunds: mode&1 == 0,
		Contracts: []contractSpec{
			{Code: code, Balance: "1000", TokT: "1000", OwnTok: "50", Storage: map[string]string{"0": "1", "1": "2"}},
			{Code: wrapperCode, Balance: "1000", TokT: "1000"},
			{Code: staticWrapperCode, Balance: "1", TokT: "1000"},
		}}
	es := execSpec{Gas: gas % 10000001, Input: input, Value: fmt.Sprint(value % 1000002)}
	switch mode % 5 {
	case 0:
		es.Mode, es.Target = "call", 0
	case 1:
		es.Mode, es.Target = "call", 1
	case 2:
		es.Mode, es.Target, es.Value = "call", 2, "0"
	case 3:
		es.Mode, es.Code, es.Input = "create", code, nil
	default:
		es.Mode, es.Code = "runtime", code
	}
	return &caseData{World: ws, Main: es}
}

// FuzzExec: native fuzzing on (code, input, gas, value); the three low bits of gas pick the entry
// point (call the code / call it through a CALL wrapper / through a STATICCALL wrapper / run it as
// init code of a top-level Create / runtime.Execute), the rest is the gas limit (mod 10M+1).
func FuzzExec(f *testing.F) {
	for _, s := range seedPrograms() {
		f.Add(s.code, s.input, uint64(s.gas), uint64(s.value))
	}
	f.Fuzz(func(t *testing.T, code, input []byte, gas, value uint64) {
		if len(input) > 4096 {
			input = input[:4096]
		}
		checkCase(t, uniformCase(code, input, gas>>3, value, uint8(gas&7)))
	})
}

// TestOpcodeTable: every byte value once as the only interesting opcode of a program, through
// every entry point: the whole jump table is covered by construction.  Layout: 16 x PUSH1 0,
// PUSH1 35, <op> at pc 34, JUMPDEST at pc 35, STOP - so that the op finds 17 operands, a JUMP /
// JUMPI lands on the JUMPDEST and sizes are zero.
func TestOpcodeTable(t *testing.T) {
	var valid, unseen []string
	for op := 0; op < 256; op++ {
		code := prog(func(a *asm) {
			for i := 0; i < 16; i++ {
				a.pushU(0)
			}
			a.pushU(35).raw(byte(op)).op(evm.JUMPDEST, evm.STOP)
		})
		before := opsSeen[op]
		for mode := uint8(0); mode < 5; mode++ {
			checkCase(t, uniformCase(code, []byte{1, 2, 3, 4}, 3000000, 0, mode))
		}
		// is it in the jump table?  (ask the interpreter, the table is private)
		cd := uniformCase(code, nil, 3000000, 0, 0)
		w, err := buildWorld(cd.World)
		if err != nil {
			t.Fatal(err)
		}
		st := w.fresh()
		tr := newTracer(nil, cd.Main.Gas)
		o := execute(newEVM(st, cd.Main, tr), st, cd.Main, new(big.Int), tr)
		if o.pan == nil && errClass(o.err) != "invalid-opcode" {
			valid = append(valid, evm.OpCode(op).String())
			if opsSeen[op] == before {
				unseen = append(unseen, evm.OpCode(op).String())
			}
		}
	}
	vstat.Note(fmt.Sprintf("TestOpcodeTable ran all 256 byte values as opcodes through 5 entry points; %d are valid in the jump table of the interpreter; valid opcodes that did not execute successfully in this enumeration: %v (the labels op:<NAME> count, over all tests, the cases in which an opcode executed successfully)", len(valid), unseen))
	if len(unseen) > 0 {
		t.Errorf("harness: opcode enumeration does not execute %v successfully", unseen)
	}
}

// ---------------------------------------------------------------- regressions of the listed findings

// jumpdestCrashCode: CREATE child1 (5 bytes, jumps), then CREATE child2 (52 bytes, jumps to 50).
func jumpdestCrashCode() []byte {
	child1 := prog(func(a *asm) { a.pushU(4).op(evm.JUMP, evm.STOP, evm.JUMPDEST) })
	child2 := make([]byte, 52)
	copy(child2, []byte{byte(evm.PUSH1), 50, byte(evm.JUMP)})
	child2[50] = byte(evm.JUMPDEST)
	return prog(func(a *asm) {
		a.create(child1, 0).op(evm.POP)
		a.create(child2, 0).op(evm.POP, evm.STOP)
	})
}

// TestRegressionJumpdestZeroHash keeps finding kJumpdest observed: it must be reported (as the
// listed finding) by the same oracle the generated tests use.
func TestRegressionJumpdestZeroHash(t *testing.T) {
	before := knownHits(kJumpdest)
	checkCase(t, uniformCase(jumpdestCrashCode(), nil, 1000000, 0, 0))
	if vstat.IsKnown(P, kJumpdest) && knownHits(kJumpdest) == before {
		// the finding is listed but did not show: either it has been repaired (then the listing is
		// stale) or the check lost its grip
		t.Fatalf("the listed finding %s was not reproduced", kJumpdest)
	}
}

// issueLoopCode: ISSUE 1 when called without data, an endless loop when called with data (as the
// decimals() query does).
func issueLoopCode() []byte {
	return prog(func(a *asm) {
		l := a.label()
		a.op(evm.CALLDATASIZE).pushLabel(l).op(evm.JUMPI).pushU(1).op(evm.ISSUE, evm.STOP)
		a.dest(l).pushLabel(l).op(evm.JUMP)
	})
}

func TestRegressionIssueDecimalsGas(t *testing.T) {
	before := knownHits(kIssueGas)
	checkCase(t, uniformCase(issueLoopCode(), nil, 100000, 0, 0))
	if vstat.IsKnown(P, kIssueGas) && knownHits(kIssueGas) == before {
		t.Fatalf("the listed finding %s was not reproduced", kIssueGas)
	}
}

// issueNestedQueryCode: the memory side of the same finding.  Called without data it issues; called
// with data (the decimals() query) it CALLCODEs an account without code with a 16 MiB return area.
// The inner frame ends without error, evm.CallCode finds the marker GetUTXOChangeRate left in
// evm.Issued (it does not look at its value), and starts another decimals() query on fresh 1e10
// gas - nested up to the depth limit, 16 MiB per level (met by the thorough tier as an out-of-memory
// death of the test process before the tracer counted the memory expansion of CALL steps as work).
func issueNestedQueryCode() []byte {
	return prog(func(a *asm) {
		l := a.label()
		a.op(evm.CALLDATASIZE).pushLabel(l).op(evm.JUMPI).pushU(1).op(evm.ISSUE, evm.STOP)
		a.dest(l).pushU(32).pushU(1<<24).pushU(0).pushU(0).pushU(0).pushAddr(ghostAddr).op(evm.GAS, evm.CALLCODE, evm.STOP)
	})
}

func TestRegressionIssueDecimalsNestedMemory(t *testing.T) {
	before := knownHits(kIssueGas)
	checkCase(t, uniformCase(issueNestedQueryCode(), nil, 100000, 0, 0))
	if vstat.IsKnown(P, kIssueGas) && knownHits(kIssueGas) == before {
		t.Fatalf("the listed finding %s was not reproduced", kIssueGas)
	}
}

// ---------------------------------------------------------------- seed corpus

type seed struct {
	name  string
	code  []byte
	input []byte
	gas   uint64 // as passed to the fuzz target (gas<<3 | entry)
	value uint64
}

var purchaseContract = common.Hex2Bytes("6060604052361561006c5760e060020a600035046308551a53811461007457806335a063b4146100865780633fa4f245146100a6578063590e1ae3146100af5780637150d8ae146100cf57806373fac6f0146100e1578063c19d93fb146100fe578063d696069714610112575b610131610002565b610133600154600160a060020a031681565b610131600154600160a060020a0390811633919091161461015057610002565b61014660005481565b610131600154600160a060020a039081163391909116146102d557610002565b610133600254600160a060020a031681565b610131600254600160a060020a0333811691161461023757610002565b61014660025460ff60a060020a9091041681565b61013160025460009060ff60a060020a9091041681146101cc57610002565b005b600160a060020a03166060908152602090f35b6060908152602090f35b60025460009060a060020a900460ff16811461016b57610002565b600154600160a060020a03908116908290301631606082818181858883f150506002805460a060020a60ff02191660a160020a179055506040517f72c874aeff0b183a56e2b79c71b46e1aed4dee5e09862134b8821ba2fddbf8bf9250a150565b80546002023414806101dd57610002565b6002805460a060020a60ff021973ffffffffffffffffffffffffffffffffffffffff1990911633171660a060020a1790557fd5d55c8a68912e9a110618df8d5e2e83b8d83211c57a8ddd1203df92885dc881826060a15050565b60025460019060a060020a900460ff16811461025257610002565b60025460008054600160a060020a0390921691606082818181858883f150508354604051600160a060020a0391821694503090911631915082818181858883f150506002805460a060020a60ff02191660a160020a179055506040517fe89152acd703c9d8c7d28829d443260b411454d45394e7995815140c8cbcbcf79250a150565b60025460019060a060020a900460ff1681146102f057610002565b6002805460008054600160a060020a0390921692909102606082818181858883f150508354604051600160a060020a0391821694503090911631915082818181858883f150506002805460a060020a60ff02191660a160020a179055506040517f8616bbbbad963e4e65b1366f1d75dfb63f9e9704bbbf91fb01bec70849906cf79250a15056")

func seedPrograms() []seed {
	g := func(gas uint64, entry uint64) uint64 { return gas<<3 | entry }
	ret42 := prog(func(a *asm) { a.pushU(42).pushU(0).op(evm.MSTORE).pushU(32).pushU(0).op(evm.RETURN) })
	return []seed{
		{"empty", nil, nil, g(100000, 0), 0},
		{"return42", ret42, nil, g(100000, 0), 0},
		{"sstore-revert", prog(func(a *asm) { a.pushU(9).pushU(0).op(evm.SSTORE).pushU(0).pushU(0).op(evm.REVERT) }), nil, g(100000, 1), 5},
		{"sstore-invalid", prog(func(a *asm) { a.pushU(9).pushU(0).op(evm.SSTORE).raw(0xfe) }), nil, g(100000, 1), 0},
		{"log-then-oog", prog(func(a *asm) {
			l := a.label()
			a.pushU(1).pushU(32).pushU(0).op(evm.LOG1).dest(l).pushLabel(l).op(evm.JUMP)
		}), nil, g(30000, 1), 0},
		{"selfdestruct-to-caller", prog(func(a *asm) { a.op(evm.CALLER, evm.SELFDESTRUCT) }), nil, g(100000, 1), 1},
		{"selfdestruct-to-self", prog(func(a *asm) { a.op(evm.ADDRESS, evm.SELFDESTRUCT) }), nil, g(100000, 0), 0},
		{"self-recursion", prog(func(a *asm) {
			a.pushU(1).pushU(0).op(evm.SLOAD, evm.ADD).pushU(0).op(evm.SSTORE)
			a.pushU(0).pushU(0).pushU(0).pushU(0).pushU(0).op(evm.ADDRESS, evm.GAS, evm.CALL, evm.POP)
		}), nil, g(2000000, 0), 0},
		{"delegate-recursion", prog(func(a *asm) {
			a.pushU(0).pushU(0).pushU(0).pushU(0).op(evm.ADDRESS, evm.GAS, evm.DELEGATECALL, evm.POP)
		}), nil, g(500000, 1), 0},
		{"huge-mstore", prog(func(a *asm) { a.pushU(1).pushBig(pow2(32)).op(evm.MSTORE) }), nil, g(1000000, 0), 0},
		{"big-return", prog(func(a *asm) { a.pushU(1 << 20).pushU(0).op(evm.RETURN) }), nil, g(9000000, 1), 0},
		{"returndatacopy-oob", prog(func(a *asm) { a.pushU(1).pushU(0).pushU(0).op(evm.RETURNDATACOPY) }), nil, g(100000, 0), 0},
		{"jump-into-pushdata", prog(func(a *asm) {
			l := a.label()
			a.pushLabel(l).op(evm.JUMP).raw(byte(evm.PUSH2)).here(l).raw(0x5b, 0x5b).op(evm.STOP)
		}), nil, g(100000, 0), 0},
		{"truncated-push32", append([]byte{byte(evm.PUSH32)}, 0x5b, 0x5b, 0x5b), nil, g(100000, 0), 0},
		{"stack-limit", prog(func(a *asm) {
			l := a.label()
			a.dest(l).pushU(0).pushLabel(l).op(evm.JUMP)
		}), nil, g(100000, 0), 0},
		{"transfertoken-T", prog(func(a *asm) { a.pushAddr(eoaAddr).pushAddr(tokenT).pushU(10).op(evm.TRANSFERTOKEN, evm.STOP) }), nil, g(100000, 2), 0},
		{"transfertoken-native-then-revert", prog(func(a *asm) {
			a.op(evm.CALLER).pushU(0).pushU(10).op(evm.TRANSFERTOKEN).pushU(0).pushU(0).op(evm.REVERT)
		}), nil, g(2000000, 1), 0},
		{"issue-with-decimals", prog(func(a *asm) {
			l := a.label()
			a.pushU(0).op(evm.CALLDATALOAD).pushU(0xe0).op(evm.SHR).pushN(decimalsSelector).op(evm.EQ, evm.ISZERO).pushLabel(l).op(evm.JUMPI)
			a.pushU(8).pushU(0).op(evm.MSTORE).pushU(32).pushU(0).op(evm.RETURN)
			a.dest(l).pushU(1000).op(evm.ISSUE, evm.STOP)
		}), nil, g(1000000, 0), 0},
		{"issue-without-decimals", prog(func(a *asm) { a.pushU(1000).op(evm.ISSUE, evm.STOP) }), nil, g(1000000, 1), 0},
		{"create-child-and-call-it", prog(func(a *asm) {
			a.create(deployer(ret42), 0)
			a.pushU(0).pushU(0).pushU(0).pushU(0).pushU(0).op(evm.DUP6, evm.GAS, evm.CALL, evm.POP, evm.POP, evm.STOP)
		}), nil, g(1000000, 0), 0},
		{"create2-twice-collision", prog(func(a *asm) {
			for i := 0; i < 2; i++ {
				init := deployer(ret42)
				a.copyBlobToMem(init)
				a.pushU(1).pushU(uint64(len(init))).pushU(0).pushU(0).op(evm.CREATE2, evm.POP)
			}
		}), nil, g(1000000, 1), 0},
		{"create-failing-init", prog(func(a *asm) {
			a.create(prog(func(b *asm) { b.pushU(5).pushU(1).op(evm.SSTORE).raw(0xfe) }), 1)
			a.pushU(3).op(evm.SSTORE)
		}), nil, g(1000000, 0), 0},
		{"call-precompiles", prog(func(a *asm) {
			for p := uint64(1); p <= 5; p++ {
				a.pushU(32).pushU(0).pushU(64).pushU(0).pushU(0).pushU(p).op(evm.GAS, evm.CALL, evm.POP)
			}
		}), []byte("hello"), g(1000000, 0), 0},
		{"call-with-value-to-ghost", prog(func(a *asm) {
			a.pushU(0).pushU(0).pushU(0).pushU(0).pushU(1).pushAddr(ghostAddr).op(evm.GAS, evm.CALL).pushU(0).op(evm.SSTORE)
		}), nil, g(3000000, 0), 0},
		{"sha3-exp-arith", prog(func(a *asm) {
			a.pushBig(pow2m1(256)).pushU(3).op(evm.EXP).pushU(0).op(evm.MSTORE).pushU(32).pushU(0).op(evm.SHA3)
			a.pushU(7).op(evm.SWAP1, evm.SMOD).pushU(1).op(evm.SAR, evm.POP)
		}), nil, g(100000, 4), 0},
		{"extcodecopy-self", prog(func(a *asm) {
			a.pushU(64).pushU(0).pushU(0).op(evm.ADDRESS, evm.EXTCODECOPY).pushU(64).pushU(0).op(evm.RETURN)
		}), nil, g(100000, 0), 0},
		{"init-code-deploying", deployer(ret42), nil, g(1000000, 3), 0},
		// the Solidity contract of vm/runtime/runtime_test.go (BenchmarkCall) with its three calls
		{"solidity-purchase-confirmPurchase", purchaseContract, crypto.Keccak256([]byte("confirmPurchase()"))[:4], g(3000000, 0), 2},
		{"solidity-purchase-confirmReceived", purchaseContract, crypto.Keccak256([]byte("confirmReceived()"))[:4], g(3000000, 1), 0},
		{"solidity-purchase-refund", purchaseContract, crypto.Keccak256([]byte("refund()"))[:4], g(3000000, 0), 0},
		{"two-creates-jumping-init-codes", jumpdestCrashCode(), nil, g(1000000, 0), 0},
		{"issue-then-loop-on-decimals-query", issueLoopCode(), nil, g(100000, 0), 0},
		{"issue-then-nested-decimals-queries", issueNestedQueryCode(), nil, g(100000, 0), 0},
		{"blockhash-env", prog(func(a *asm) {
			a.pushU(blockNumber-1).op(evm.BLOCKHASH, evm.NUMBER, evm.TIMESTAMP, evm.COINBASE, evm.GASLIMIT, evm.DIFFICULTY, evm.GASPRICE, evm.ORIGIN, evm.CALLTOKENADDRESS, evm.CALLTOKENVALUE, evm.CALLVALUE)
		}), nil, g(100000, 0), 7},
	}
}

// TestSeedPrograms runs the hand-written seed programs through the whole oracle, through every
// entry point.
func TestSeedPrograms(t *testing.T) {
	for _, s := range seedPrograms() {
		for mode := uint8(0); mode < 5; mode++ {
			checkCase(t, uniformCase(s.code, s.input, s.gas>>3, s.value, mode))
		}
	}
}

// TestWriteSeedCorpus regenerates testdata/fuzz/FuzzExec from seedPrograms (maintenance helper:
// only runs with C20_WRITE_CORPUS=<dir>).
func TestWriteSeedCorpus(t *testing.T) {
	dir := os.Getenv("C20_WRITE_CORPUS")
	if dir == "" {
		t.Skip("set C20_WRITE_CORPUS=<dir> to write the seed corpus")
	}
	if err := os.MkdirAll(dir, 0o755); err != nil {
		t.Fatal(err)
	}
	names := map[string]bool{}
	for _, s := range seedPrograms() {
		if names[s.name] {
			t.Fatalf("duplicate seed name %s", s.name)
		}
		names[s.name] = true
		body := fmt.Sprintf("go test fuzz v1\n[]byte(%q)\n[]byte(%q)\nuint64(%d)\nuint64(%d)\n", s.code, s.input, s.gas, s.value)
		if err := os.WriteFile(dir+"/seed-"+s.name, []byte(body), 0o644); err != nil {
			t.Fatal(err)
		}
	}
	var list []string
	for n := range names {
		list = append(list, n)
	}
	sort.Strings(list)
	t.Logf("wrote %d seeds: %v", len(list), list)
}
