package c20

// A tiny EVM assembler: minimal-width pushes, labels (PUSH2 operands patched at the end) and data
// blobs appended after the code (referenced by their offset, for CODECOPY of init code).

import (
	"math/big"

	"github.com/lianxiangcloud/linkchain/libs/common"
	"github.com/lianxiangcloud/linkchain/vm/evm"
)

type fixup struct {
	pos   int // position of the 2 operand bytes
	label int // >=0: label id
	blob  int // >=0: blob id
}

type asm struct {
	code   []byte
	fixups []fixup
	labels []int
	blobs  [][]byte
}

func (a *asm) op(ops ...evm.OpCode) *asm {
	for _, o := range ops {
		a.code = append(a.code, byte(o))
	}
	return a
}

func (a *asm) raw(bs ...byte) *asm {
	a.code = append(a.code, bs...)
	return a
}

// pushBig pushes v (mod 2^256) with the smallest PUSHn.
func (a *asm) pushBig(v *big.Int) *asm {
	bs := v.Bytes()
	if len(bs) > 32 {
		bs = bs[len(bs)-32:]
	}
	if len(bs) == 0 {
		bs = []byte{0}
	}
	a.code = append(a.code, byte(evm.PUSH1)+byte(len(bs)-1))
	a.code = append(a.code, bs...)
	return a
}

func (a *asm) pushU(u uint64) *asm { return a.pushBig(new(big.Int).SetUint64(u)) }

// pushN pushes bs with exactly PUSHn, n = len(bs) (1..32).
func (a *asm) pushN(bs []byte) *asm {
	a.code = append(a.code, byte(evm.PUSH1)+byte(len(bs)-1))
	a.code = append(a.code, bs...)
	return a
}

func (a *asm) pushAddr(ad common.Address) *asm {
	return a.pushBig(new(big.Int).SetBytes(ad.Bytes()))
}

func (a *asm) label() int {
	a.labels = append(a.labels, -1)
	return len(a.labels) - 1
}

func (a *asm) pushLabel(l int) *asm {
	a.code = append(a.code, byte(evm.PUSH2), 0, 0)
	a.fixups = append(a.fixups, fixup{pos: len(a.code) - 2, label: l, blob: -1})
	return a
}

// dest places label l here and emits a JUMPDEST.
func (a *asm) dest(l int) *asm {
	a.labels[l] = len(a.code)
	return a.op(evm.JUMPDEST)
}

// here places label l at the current position without emitting anything (for jumps into data).
func (a *asm) here(l int) *asm {
	a.labels[l] = len(a.code)
	return a
}

// pushBlob appends data after the code and pushes its offset.
func (a *asm) pushBlob(data []byte) *asm {
	a.blobs = append(a.blobs, data)
	a.code = append(a.code, byte(evm.PUSH2), 0, 0)
	a.fixups = append(a.fixups, fixup{pos: len(a.code) - 2, label: -1, blob: len(a.blobs) - 1})
	return a
}

func (a *asm) assemble() []byte {
	out := append([]byte{}, a.code...)
	offs := make([]int, len(a.blobs))
	for i, bl := range a.blobs {
		offs[i] = len(out)
		out = append(out, bl...)
	}
	for _, f := range a.fixups {
		v := 0
		if f.label >= 0 {
			v = a.labels[f.label]
			if v < 0 {
				v = len(a.code) // unplaced label: one past the code (an invalid destination)
			}
		} else {
			v = offs[f.blob]
		}
		out[f.pos] = byte(v >> 8)
		out[f.pos+1] = byte(v)
	}
	return out
}

// small helpers used by hand-written programs (regressions, seed corpus, enumeration)

func prog(f func(a *asm)) []byte {
	a := &asm{}
	f(a)
	return a.assemble()
}

// copyBlobToMem emits: CODECOPY(mem 0, blob, len) and leaves nothing on the stack.
func (a *asm) copyBlobToMem(blob []byte) *asm {
	a.pushU(uint64(len(blob)))
	a.pushBlob(blob)
	a.pushU(0)
	return a.op(evm.CODECOPY)
}

// create emits CREATE(value, mem 0, len(init)) of the given init code, leaving the address on the stack.
func (a *asm) create(init []byte, value uint64) *asm {
	a.copyBlobToMem(init)
	a.pushU(uint64(len(init))).pushU(0).pushU(value)
	return a.op(evm.CREATE)
}

// deployer returns init code that deploys runtime.
func deployer(runtime []byte) []byte {
	return prog(func(a *asm) {
		a.copyBlobToMem(runtime)
		a.pushU(uint64(len(runtime))).pushU(0).op(evm.RETURN)
	})
}
