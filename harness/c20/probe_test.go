package c20

import (
	"fmt"
	"math/big"
	"testing"
	"time"

	"github.com/lianxiangcloud/linkchain/libs/common"
	dbm "github.com/lianxiangcloud/linkchain/libs/db"
	"github.com/lianxiangcloud/linkchain/libs/log"
	"github.com/lianxiangcloud/linkchain/state"
	"github.com/lianxiangcloud/linkchain/types"
	"github.com/lianxiangcloud/linkchain/vm/evm"
)

type nochain struct{}

func (nochain) GetHeader(uint64) *types.Header { return nil }

func TestProbe(t *testing.T) {
	log.Root().SetHandler(log.DiscardHandler())
	for _, isTrie := range []bool{true, false} {
		sdb, err := state.New(common.EmptyHash, state.NewKeyValueDBWithCache(dbm.NewMemDB(), 0, isTrie, 0))
		if err != nil {
			t.Fatal(err)
		}
		sender := common.HexToAddress("0x1000000000000000000000000000000000000001")
		c1 := common.HexToAddress("0x2000000000000000000000000000000000000001")
		sdb.SetBalance(sender, big.NewInt(1e18))
		// ISSUE 1; STOP  -- but on any call loops forever: JUMPDEST PUSH1 0 JUMP
		// code: CALLDATASIZE PUSH1 8 JUMPI  PUSH1 1 ISSUE STOP  JUMPDEST(8) PUSH1 8 JUMP
		code := []byte{0x36, 0x60, 0x08, 0x57, 0x60, 0x01, 0xe0, 0x00, 0x5b, 0x60, 0x08, 0x56}
		sdb.SetCode(c1, code)
		sdb.SetNonce(c1, 1)
		root, err := sdb.Commit(false, 1)
		fmt.Println("isTrie", isTrie, "root", root.Hex(), err)
		s2, err := state.New(root, sdb.Database())
		if err != nil {
			t.Fatal(err)
		}
		fmt.Println("code read back", len(s2.GetCode(c1)), s2.GetBalance(sender))
		hdr := &types.Header{Height: 10, Time: 1000, GasLimit: 1e9}
		ctx := evm.NewEVMContext(hdr, nochain{}, nil, 1)
		ctx.Origin = sender
		ctx.GasPrice = big.NewInt(1)
		vm := evm.NewEVM(ctx, s2, evm.Config{})
		go func() { time.Sleep(3 * time.Second); vm.Cancel() }()
		t0 := time.Now()
		ret, left, bcg, err := vm.Call(evm.AccountRef(sender), c1, common.EmptyAddress, nil, 100000, big.NewInt(0))
		fmt.Println("ret", ret, "left", left, "bcg", bcg, "err", err, "took", time.Since(t0))
	}
}

func TestProbeJumpdest(t *testing.T) {
	log.Root().SetHandler(log.DiscardHandler())
	sdb, _ := state.New(common.EmptyHash, state.NewKeyValueDBWithCache(dbm.NewMemDB(), 0, true, 0))
	sender := common.HexToAddress("0x1000000000000000000000000000000000000001")
	c1 := common.HexToAddress("0x2000000000000000000000000000000000000001")
	sdb.SetBalance(sender, big.NewInt(1e18))
	child1 := []byte{0x60, 0x04, 0x56, 0x00, 0x5b}
	child2 := make([]byte, 52)
	child2[0], child2[1], child2[2] = 0x60, 50, 0x56
	child2[50] = 0x5b
	mk := func(l, off int) []byte {
		return []byte{0x60, byte(l), 0x60, byte(off), 0x60, 0x00, 0x39, 0x60, byte(l), 0x60, 0x00, 0x60, 0x00, 0xf0, 0x50}
	}
	hl := 31
	code := append(mk(len(child1), hl), mk(len(child2), hl+len(child1))...)
	code = append(code, 0x00)
	if len(code) != hl {
		t.Fatal(len(code))
	}
	code = append(code, child1...)
	code = append(code, child2...)
	sdb.SetCode(c1, code)
	sdb.SetNonce(c1, 1)
	hdr := &types.Header{Height: 10, Time: 1000, GasLimit: 1e9}
	ctx := evm.NewEVMContext(hdr, nochain{}, nil, 1)
	ctx.Origin = sender
	ctx.GasPrice = big.NewInt(1)
	vm := evm.NewEVM(ctx, sdb, evm.Config{})
	var pan interface{}
	func() {
		defer func() { pan = recover() }()
		ret, left, _, err := vm.Call(evm.AccountRef(sender), c1, common.EmptyAddress, nil, 1000000, big.NewInt(0))
		fmt.Println("ret", ret, left, err)
	}()
	fmt.Println("panic:", pan)
}
