package c20

// The world the programs run in: a StateDB over MemDB built the way the node builds it
// (state.NewKeyValueDBWithCache, trie or flat mode), committed once, and re-opened from the
// committed root for every execution, so that "identical state copies" never depends on
// StateDB.Copy.  Plus: a recording StateDB wrapper (touched universe, shadow pre-images for frame
// atomicity) and the getter-based digest.

import (
	"fmt"
	"math/big"
	"sort"
	"strings"

	"github.com/lianxiangcloud/linkchain/libs/common"
	dbm "github.com/lianxiangcloud/linkchain/libs/db"
	"github.com/lianxiangcloud/linkchain/state"
	"github.com/lianxiangcloud/linkchain/types"
)

// ---------------------------------------------------------------- fixed address plan

func smallAddr(hi, lo byte) common.Address { return common.BytesToAddress([]byte{hi, lo}) }

var (
	senderAddr = smallAddr(0x0a, 0x01) // the transaction sender (EOA)
	eoaAddr    = smallAddr(0x0a, 0x02) // another funded EOA
	ghostAddr  = smallAddr(0x0a, 0x03) // never exists in the pre-state
	tokenT     = smallAddr(0x07, 0x01) // a token id that is not a contract of the world
	coinbase   = smallAddr(0x0b, 0x01)
	contractAt = []common.Address{smallAddr(0x0c, 0x01), smallAddr(0x0c, 0x02), smallAddr(0x0c, 0x03)}
)

// fixedPool is always part of the digest universe.
func fixedPool() []common.Address {
	p := []common.Address{senderAddr, eoaAddr, ghostAddr, tokenT, coinbase, common.EmptyAddress}
	p = append(p, contractAt...)
	for i := 1; i <= 9; i++ {
		p = append(p, common.BytesToAddress([]byte{byte(i)}))
	}
	return p
}

// ---------------------------------------------------------------- world description (JSON-serialisable)

type hexBytes []byte

func (h hexBytes) MarshalJSON() ([]byte, error) {
	return []byte(fmt.Sprintf("%q", fmt.Sprintf("%x", []byte(h)))), nil
}

type contractSpec struct {
	Code    hexBytes          `json:"code"`
	Balance string            `json:"balance"`
	TokT    string            `json:"tokT"`
	OwnTok  string            `json:"ownTok"`
	Storage map[string]string `json:"storage,omitempty"` // slot (decimal) -> value (decimal)
}

type worldSpec struct {
	IsTrie       bool           `json:"isTrie"`
	Contracts    []contractSpec `json:"contracts"`
	SenderBal    string         `json:"senderBal"`
	SenderT      string         `json:"senderT"`
	PrecompFunds bool           `json:"precompFunded"` // precompile accounts 1..4 exist with 1 wei
}

func bigOf(s string) *big.Int {
	if s == "" {
		return new(big.Int)
	}
	v, ok := new(big.Int).SetString(s, 10)
	if !ok {
		panic("bad decimal " + s)
	}
	return v
}

// copyDB: MemDB batches keep the caller's key slice; the trie database re-uses its key buffer
// (see harness/c10).  LevelDB, the production backend, copies.
type copyDB struct{ *dbm.MemDB }
type copyBatch struct{ dbm.Batch }

func (d copyDB) NewBatch() dbm.Batch { return copyBatch{d.MemDB.NewBatch()} }
func (b copyBatch) Set(key, value []byte) {
	b.Batch.Set(common.CopyBytes(key), common.CopyBytes(value))
}
func (b copyBatch) Delete(key []byte) { b.Batch.Delete(common.CopyBytes(key)) }

type world struct {
	spec worldSpec
	db   state.Database
	root common.Hash
}

func buildWorld(ws worldSpec) (*world, error) {
	db := state.NewKeyValueDBWithCache(copyDB{dbm.NewMemDB()}, 0, ws.IsTrie, 0)
	s, err := state.New(common.EmptyHash, db)
	if err != nil {
		return nil, err
	}
	s.SetBalance(senderAddr, bigOf(ws.SenderBal))
	if v := bigOf(ws.SenderT); v.Sign() > 0 {
		s.SetTokenBalance(senderAddr, tokenT, v)
	}
	s.SetNonce(senderAddr, 5)
	s.SetBalance(eoaAddr, big.NewInt(1000))
	s.SetTokenBalance(eoaAddr, tokenT, big.NewInt(7))
	if ws.PrecompFunds {
		for i := 1; i <= 4; i++ {
			s.SetBalance(common.BytesToAddress([]byte{byte(i)}), big.NewInt(1))
		}
	}
	for i, c := range ws.Contracts {
		ad := contractAt[i]
		s.SetCode(ad, c.Code)
		s.SetNonce(ad, 1)
		if v := bigOf(c.Balance); v.Sign() > 0 {
			s.SetBalance(ad, v)
		}
		if v := bigOf(c.TokT); v.Sign() > 0 {
			s.SetTokenBalance(ad, tokenT, v)
		}
		if v := bigOf(c.OwnTok); v.Sign() > 0 {
			s.SetTokenBalance(ad, ad, v)
		}
		for k, v := range c.Storage {
			s.SetState(ad, common.BigToHash(bigOf(k)), bigOf(v).Bytes())
		}
	}
	root, err := s.Commit(false, 1)
	if err != nil {
		return nil, err
	}
	if ws.IsTrie {
		if err := db.TrieDB().Commit(root, false); err != nil {
			return nil, err
		}
	}
	return &world{spec: ws, db: db, root: root}, nil
}

var (
	txHash    = common.HexToHash("0x7478000000000000000000000000000000000000000000000000000000000001")
	blockHash = common.HexToHash("0x626c000000000000000000000000000000000000000000000000000000000001")
)

// fresh opens a new StateDB at the committed root: nothing cached, nothing dirty.
func (w *world) fresh() *state.StateDB {
	s, err := state.New(w.root, w.db)
	if err != nil {
		panic(fmt.Errorf("harness: reopen state: %v", err))
	}
	s.Prepare(txHash, blockHash, 0)
	return s
}

// ---------------------------------------------------------------- digest over the getter set

type slotKey struct {
	a common.Address
	k common.Hash
}

// universe: the addresses and storage slots a digest ranges over.
type universe struct {
	addrs map[common.Address]struct{}
	slots map[slotKey]struct{}
}

func newUniverse() *universe {
	u := &universe{addrs: map[common.Address]struct{}{}, slots: map[slotKey]struct{}{}}
	for _, a := range fixedPool() {
		u.addrs[a] = struct{}{}
	}
	for _, a := range contractAt {
		for i := 0; i < 4; i++ {
			u.slots[slotKey{a, common.BigToHash(big.NewInt(int64(i)))}] = struct{}{}
		}
	}
	return u
}

func (u *universe) merge(o *universe) {
	for a := range o.addrs {
		u.addrs[a] = struct{}{}
	}
	for s := range o.slots {
		u.slots[s] = struct{}{}
		u.addrs[s.a] = struct{}{}
	}
}

// acct is what the getters say about one account.
type acct struct {
	exist  bool
	vacant bool   // exists, but nonce 0, no balance, no token, no code (what EIP-161 would delete)
	s      string // everything else, formatted
	nonce  uint64
	rest   string // s without the nonce (for the CREATE nonce allowance)
}

func readAcct(s *state.StateDB, a common.Address) acct {
	if !s.Exist(a) {
		return acct{s: "absent", rest: "absent"}
	}
	tv := s.GetTokenBalances(a) // positive entries only, map order
	sort.Slice(tv, func(i, j int) bool {
		return strings.Compare(string(tv[i].TokenAddr[:]), string(tv[j].TokenAddr[:])) < 0
	})
	var tb strings.Builder
	for _, e := range tv {
		fmt.Fprintf(&tb, "%x=%s,", e.TokenAddr[:], e.Value)
	}
	bal := s.GetBalance(a)
	// balances the enumeration would hide (zero or negative): read the pool tokens directly as well
	for _, tk := range []common.Address{tokenT, contractAt[0], contractAt[1], contractAt[2]} {
		if v := s.GetTokenBalance(a, tk); v.Sign() < 0 {
			fmt.Fprintf(&tb, "NEG:%x=%s,", tk[:], v)
		}
	}
	code := s.GetCode(a)
	ch := s.GetCodeHash(a)
	n := s.GetNonce(a)
	rest := fmt.Sprintf("bal=%s tok=[%s] credits=%d code=%x/%d suicided=%v", bal, tb.String(), s.GetCredits(a), ch[:6], len(code), s.HasSuicided(a))
	return acct{
		exist:  true,
		vacant: n == 0 && bal.Sign() == 0 && len(tv) == 0 && len(code) == 0 && !s.HasSuicided(a),
		nonce:  n,
		rest:   rest,
		s:      fmt.Sprintf("nonce=%d %s", n, rest),
	}
}

// same: strict equality, or (relaxed) absent == vacant, which is what a successful read-only
// frame may legitimately turn into one another (CALL to a not-yet-existing precompile account
// creates the vacant object).
func (x acct) same(y acct, relaxed bool) bool {
	if relaxed && (!x.exist || x.vacant) && (!y.exist || y.vacant) {
		return true
	}
	return x.exist == y.exist && x.s == y.s
}

type digest struct {
	accts map[common.Address]acct
	slots map[slotKey]string
	logs  int
}

func takeDigest(s *state.StateDB, u *universe) *digest {
	d := &digest{accts: map[common.Address]acct{}, slots: map[slotKey]string{}}
	for a := range u.addrs {
		d.accts[a] = readAcct(s, a)
	}
	for k := range u.slots {
		d.slots[k] = fmt.Sprintf("%x", s.GetState(k.a, k.k))
	}
	d.logs = len(s.Logs())
	return d
}

// diff lists the differences between two digests over the same universe (sorted, bounded).
func (d *digest) diff(o *digest) []string {
	var out []string
	for a, x := range d.accts {
		if y := o.accts[a]; !x.same(y, false) {
			out = append(out, fmt.Sprintf("account %x: {%s} vs {%s}", a[18:], x.s, y.s))
		}
	}
	for k, x := range d.slots {
		if y := o.slots[k]; x != y {
			out = append(out, fmt.Sprintf("storage %x[%x]: %s vs %s", k.a[18:], k.k[28:], x, y))
		}
	}
	if d.logs != o.logs {
		out = append(out, fmt.Sprintf("logs: %d vs %d", d.logs, o.logs))
	}
	sort.Strings(out)
	if len(out) > 6 {
		out = append(out[:6], fmt.Sprintf("... %d more", len(out)-6))
	}
	return out
}

// ---------------------------------------------------------------- recording wrapper

// bracket: one pending frame (opened by the tracer at a CALL/CREATE-family step, or by the harness
// around the top-level call).  It collects the pre-image of every account / slot the first time it
// is written while the bracket is open.
type bracket struct {
	key     interface{} // the parent *evm.Contract (nil for the top-level bracket)
	op      byte
	static  bool
	creator common.Address
	accts   map[common.Address]acct
	slots   map[slotKey]string
	logs    int
}

// recDB wraps the real StateDB; the EVM only sees the types.StateDB interface, so every access of
// the code under test passes through here.
type recDB struct {
	*state.StateDB
	u    *universe
	open []*bracket
	// statistics
	writes int
}

var _ types.StateDB = (*recDB)(nil)

func newRecDB(s *state.StateDB) *recDB { return &recDB{StateDB: s, u: newUniverse()} }

func (r *recDB) touch(a common.Address) { r.u.addrs[a] = struct{}{} }

func (r *recDB) beforeWrite(a common.Address) {
	r.touch(a)
	r.writes++
	var pre acct
	have := false
	for _, b := range r.open {
		if _, ok := b.accts[a]; !ok {
			if !have {
				pre, have = readAcct(r.StateDB, a), true
			}
			b.accts[a] = pre
		}
	}
}

func (r *recDB) beforeSlotWrite(a common.Address, k common.Hash) {
	sk := slotKey{a, k}
	r.u.slots[sk] = struct{}{}
	var pre string
	have := false
	for _, b := range r.open {
		if _, ok := b.slots[sk]; !ok {
			if !have {
				pre, have = fmt.Sprintf("%x", r.StateDB.GetState(a, k)), true
			}
			b.slots[sk] = pre
		}
	}
}

func (r *recDB) openBracket(key interface{}, op byte, static bool, creator common.Address) *bracket {
	b := &bracket{key: key, op: op, static: static, creator: creator, accts: map[common.Address]acct{}, slots: map[slotKey]string{}, logs: len(r.StateDB.Logs())}
	r.open = append(r.open, b)
	return b
}

// closeBracket removes b (and anything opened after it) and, if the frame failed (or was
// read-only), compares every pre-image with the present.  nonceBump: the creator of a CREATE frame
// may keep nonce+1 (the increment belongs to the creating frame, as in Ethereum).
func (r *recDB) closeBracket(b *bracket, failed bool, nonceBump bool) []string {
	for i := len(r.open) - 1; i >= 0; i-- {
		if r.open[i] == b {
			r.open = r.open[:i]
			break
		}
	}
	if !failed && !b.static {
		return nil
	}
	relaxed := !failed
	var out []string
	for a, pre := range b.accts {
		now := readAcct(r.StateDB, a)
		if now.same(pre, relaxed) {
			continue
		}
		if nonceBump && a == b.creator && now.exist && pre.exist && now.rest == pre.rest && now.nonce == pre.nonce+1 {
			continue
		}
		out = append(out, fmt.Sprintf("account %x: at frame entry {%s}, after the frame {%s}", a[18:], pre.s, now.s))
	}
	for k, pre := range b.slots {
		if now := fmt.Sprintf("%x", r.StateDB.GetState(k.a, k.k)); now != pre {
			out = append(out, fmt.Sprintf("storage %x[%x]: at frame entry %s, after the frame %s", k.a[18:], k.k[28:], pre, now))
		}
	}
	if n := len(r.StateDB.Logs()); n != b.logs {
		out = append(out, fmt.Sprintf("logs: %d at frame entry, %d after the frame", b.logs, n))
	}
	sort.Strings(out)
	if len(out) > 5 {
		out = out[:5]
	}
	return out
}

// --- mutators

func (r *recDB) CreateAccount(a common.Address) { r.beforeWrite(a); r.StateDB.CreateAccount(a) }
func (r *recDB) SubBalance(a common.Address, v *big.Int) {
	r.beforeWrite(a)
	r.StateDB.SubBalance(a, v)
}
func (r *recDB) AddBalance(a common.Address, v *big.Int) {
	r.beforeWrite(a)
	r.StateDB.AddBalance(a, v)
}
func (r *recDB) SetNonce(a common.Address, n uint64)   { r.beforeWrite(a); r.StateDB.SetNonce(a, n) }
func (r *recDB) SetCredits(a common.Address, n uint64) { r.beforeWrite(a); r.StateDB.SetCredits(a, n) }
func (r *recDB) SetCode(a common.Address, c []byte)    { r.beforeWrite(a); r.StateDB.SetCode(a, c) }
func (r *recDB) SetState(a common.Address, k common.Hash, v []byte) {
	r.beforeWrite(a)
	r.beforeSlotWrite(a, k)
	r.StateDB.SetState(a, k, v)
}
func (r *recDB) Suicide(a common.Address) bool { r.beforeWrite(a); return r.StateDB.Suicide(a) }
func (r *recDB) SubTokenBalance(a, tk common.Address, v *big.Int) {
	r.beforeWrite(a)
	r.StateDB.SubTokenBalance(a, tk, v)
}
func (r *recDB) AddTokenBalance(a, tk common.Address, v *big.Int) {
	r.beforeWrite(a)
	r.StateDB.AddTokenBalance(a, tk, v)
}
func (r *recDB) AddLog(l *types.Log) { r.writes++; r.StateDB.AddLog(l) }

// --- getters (universe only)

func (r *recDB) GetBalance(a common.Address) *big.Int { r.touch(a); return r.StateDB.GetBalance(a) }
func (r *recDB) GetNonce(a common.Address) uint64     { r.touch(a); return r.StateDB.GetNonce(a) }
func (r *recDB) GetCodeHash(a common.Address) common.Hash {
	r.touch(a)
	return r.StateDB.GetCodeHash(a)
}
func (r *recDB) GetCode(a common.Address) []byte  { r.touch(a); return r.StateDB.GetCode(a) }
func (r *recDB) GetCodeSize(a common.Address) int { r.touch(a); return r.StateDB.GetCodeSize(a) }
func (r *recDB) IsContract(a common.Address) bool { r.touch(a); return r.StateDB.IsContract(a) }
func (r *recDB) GetState(a common.Address, k common.Hash) []byte {
	r.u.slots[slotKey{a, k}] = struct{}{}
	r.touch(a)
	return r.StateDB.GetState(a, k)
}
func (r *recDB) HasSuicided(a common.Address) bool { r.touch(a); return r.StateDB.HasSuicided(a) }
func (r *recDB) Exist(a common.Address) bool       { r.touch(a); return r.StateDB.Exist(a) }
func (r *recDB) Empty(a common.Address) bool       { r.touch(a); return r.StateDB.Empty(a) }
func (r *recDB) GetTokenBalance(a, tk common.Address) *big.Int {
	r.touch(a)
	return r.StateDB.GetTokenBalance(a, tk)
}
func (r *recDB) GetTokenBalances(a common.Address) types.TokenValues {
	r.touch(a)
	return r.StateDB.GetTokenBalances(a)
}
