package c20

// Generators: EVM programs from a grammar of stack-neutral snippets with operands biased to the
// interesting values, worlds of 1-3 deployed contracts, and top-level calls.

import (
	"fmt"
	"math/big"

	"github.com/lianxiangcloud/linkchain/libs/common"
	"github.com/lianxiangcloud/linkchain/vm/evm"
	"pgregory.net/rapid"
)

func pow2(n uint) *big.Int { return new(big.Int).Lsh(big.NewInt(1), n) }
func pow2m1(n uint) *big.Int {
	return new(big.Int).Sub(pow2(n), big.NewInt(1))
}

var (
	memSmall  = []uint64{0, 0, 0, 1, 31, 32, 33, 64, 96, 128, 255}
	memMedium = []uint64{1000, 4096, 0x5fe0, 0x6000, 0x6001, 0xffff, 1 << 16}
	memLarge  = []uint64{1 << 18, 1 << 20, 3 << 19} // affordable with a few million gas
	// not affordable with <= 10M gas, but an EVM that allocates before it charges survives them
	memOversize = []uint64{1 << 22, 1 << 24, 1 << 26, 1 << 27}
	memAbsurd   = []*big.Int{pow2m1(32), pow2(32), new(big.Int).SetUint64(0xffffffffe0 - 31), new(big.Int).SetUint64(0xffffffffe0),
		new(big.Int).SetUint64(0xffffffffe1), pow2(40), pow2(62), pow2(63), pow2m1(64), pow2(64), pow2(255), pow2m1(256)}
	lenSmall = []uint64{1, 2, 4, 20, 31, 32, 33, 64, 100}
	words    = []*big.Int{big.NewInt(0), big.NewInt(1), big.NewInt(2), big.NewInt(31), big.NewInt(32), big.NewInt(255), big.NewInt(256),
		pow2m1(256), pow2(255), pow2m1(255), pow2(64), pow2m1(64), pow2(63), pow2(160), pow2m1(160), pow2(248)}
	srcOffs   = []*big.Int{big.NewInt(0), big.NewInt(0), big.NewInt(1), big.NewInt(32), big.NewInt(1000), pow2m1(64), pow2(64), pow2m1(256)}
	amounts   = []*big.Int{big.NewInt(0), big.NewInt(1), big.NewInt(1), big.NewInt(2), big.NewInt(1000), big.NewInt(1001), pow2(255), pow2m1(256)}
	gasWords  = []*big.Int{big.NewInt(0), big.NewInt(1), big.NewInt(700), big.NewInt(2300), big.NewInt(5000), big.NewInt(50000), big.NewInt(1000000), pow2m1(64), pow2(64), pow2m1(256)}
	undefOps  = []byte{0x0c, 0x0d, 0x1e, 0x21, 0x2f, 0x46, 0x5c, 0x5f, 0xa5, 0xb0, 0xe5, 0xef, 0xf6, 0xfb, 0xfc}
	binaryOps = []evm.OpCode{evm.ADD, evm.MUL, evm.SUB, evm.DIV, evm.SDIV, evm.MOD, evm.SMOD, evm.EXP, evm.SIGNEXTEND, evm.LT, evm.GT, evm.SLT,
		evm.SGT, evm.EQ, evm.AND, evm.OR, evm.XOR, evm.BYTE, evm.SHL, evm.SHR, evm.SAR}
	nullaryOps = []evm.OpCode{evm.ADDRESS, evm.ORIGIN, evm.CALLER, evm.CALLVALUE, evm.CALLDATASIZE, evm.CODESIZE, evm.GASPRICE, evm.RETURNDATASIZE,
		evm.COINBASE, evm.TIMESTAMP, evm.NUMBER, evm.DIFFICULTY, evm.GASLIMIT, evm.PC, evm.MSIZE, evm.GAS, evm.CALLTOKENADDRESS, evm.CALLTOKENVALUE}
	decimalsSelector = []byte{0x31, 0x3c, 0xe5, 0x67}
)

const blockNumber = 10

type pgen struct {
	t   *rapid.T
	a   *asm
	lvl int // 0: a deployed contract or top-level init code; >0: code it creates
}

func (g *pgen) n(label string, n int) int { return rapid.IntRange(0, n-1).Draw(g.t, label) }

func pickU(g *pgen, label string, s []uint64) uint64     { return s[g.n(label, len(s))] }
func pickB(g *pgen, label string, s []*big.Int) *big.Int { return s[g.n(label, len(s))] }

// ---------------------------------------------------------------- operands

func (g *pgen) pushMemOff(wild bool) {
	c := 0
	if wild {
		c = g.n("offclass", 10)
	}
	switch {
	case c <= 1:
		g.a.pushU(pickU(g, "off", memSmall))
	case c <= 3:
		g.a.pushU(pickU(g, "off", memMedium))
	case c == 4:
		g.a.pushU(pickU(g, "off", memLarge))
	case c <= 7:
		g.a.pushU(pickU(g, "off", memOversize))
	default:
		g.a.pushBig(pickB(g, "off", memAbsurd))
	}
}

func (g *pgen) pushMemLen(wild bool) {
	c := g.n("lenclass", 10)
	if !wild && c >= 8 {
		c = 3
	}
	switch {
	case c <= 1:
		g.a.pushU(0)
	case c <= 6:
		g.a.pushU(pickU(g, "len", lenSmall))
	case c == 7:
		g.a.pushU(pickU(g, "len", memMedium))
	case c == 8:
		if g.n("lenbig", 3) == 0 {
			g.a.pushU(pickU(g, "len", memLarge))
		} else {
			g.a.pushU(pickU(g, "len", memOversize))
		}
	default:
		g.a.pushBig(pickB(g, "len", memAbsurd))
	}
}

func (g *pgen) pushWord() {
	if g.n("wordkind", 5) == 0 {
		g.a.pushN(rapid.SliceOfN(rapid.Byte(), 1, 32).Draw(g.t, "rawword"))
		return
	}
	g.a.pushBig(pickB(g, "word", words))
}

func (g *pgen) pushAddrOperand() {
	switch c := g.n("addr", 16); c {
	case 0, 1, 2:
		g.a.pushAddr(contractAt[c])
	case 3, 4:
		g.a.pushAddr(contractAt[g.n("addrc", 3)])
	case 5:
		g.a.op(evm.ADDRESS)
	case 6:
		g.a.op(evm.CALLER)
	case 7:
		g.a.op(evm.ORIGIN)
	case 8:
		g.a.pushU(uint64(1 + g.n("precomp", 4)))
	case 9:
		g.a.pushU(uint64(5 + g.n("precomp2", 5)))
	case 10:
		g.a.pushAddr(ghostAddr)
	case 11:
		g.a.pushAddr(eoaAddr)
	case 12:
		g.a.pushU(0)
	case 13: // a contract address with garbage above the low 20 bytes
		w := make([]byte, 32)
		for i := 0; i < 12; i++ {
			w[i] = 0xee
		}
		copy(w[12:], contractAt[g.n("addrc", 3)].Bytes())
		g.a.pushN(w)
	case 14:
		g.a.pushN(rapid.SliceOfN(rapid.Byte(), 20, 20).Draw(g.t, "rawaddr"))
	default:
		g.a.pushAddr(tokenT)
	}
}

// pushCallTarget: what CALL-family ops call: mostly the deployed contracts (so that frames nest).
func (g *pgen) pushCallTarget() {
	switch c := g.n("calltarget", 10); {
	case c <= 5:
		g.a.pushAddr(contractAt[g.n("addrc", 3)])
	case c == 6:
		g.a.op(evm.ADDRESS)
	case c == 7:
		g.a.pushU(uint64(1 + g.n("precomp", 4)))
	default:
		g.pushAddrOperand()
	}
}

func (g *pgen) pushToken() {
	switch g.n("token", 8) {
	case 0, 1, 2:
		g.a.pushAddr(tokenT)
	case 3:
		g.a.pushU(0) // the native coin
	case 4:
		g.a.op(evm.ADDRESS) // the token this contract issues
	case 5:
		g.a.pushAddr(contractAt[g.n("tokc", 3)])
	case 6:
		g.a.op(evm.CALLTOKENADDRESS)
	default:
		g.a.pushAddr(ghostAddr)
	}
}

// pushValueOperand: the value of an inner CALL / CREATE: mostly 0, else small, the whole balance,
// one more than the balance, or absurd.
func (g *pgen) pushValueOperand() {
	switch c := g.n("value", 20); {
	case c <= 13:
		g.a.pushU(0)
	case c <= 15:
		g.a.pushU(1)
	case c == 16:
		g.a.op(evm.ADDRESS, evm.BALANCE)
	case c == 17:
		g.a.op(evm.ADDRESS, evm.BALANCE).pushU(1).op(evm.ADD)
	case c == 18:
		g.a.pushU(1000)
	default:
		g.a.pushBig(pickB(g, "absval", []*big.Int{pow2(255), pow2m1(256), pow2(64)}))
	}
}

func (g *pgen) pushGasOperand() {
	if g.n("gaskind", 3) != 0 {
		g.a.op(evm.GAS)
		return
	}
	g.a.pushBig(pickB(g, "gasw", gasWords))
}

func (g *pgen) pushCond() {
	switch g.n("cond", 8) {
	case 0:
		g.a.pushU(0)
	case 1:
		g.a.pushU(1)
	case 2:
		g.a.op(evm.CALLDATASIZE)
	case 3:
		g.a.pushU(0).op(evm.CALLDATALOAD)
	case 4:
		g.a.pushU(uint64(g.n("condslot", 3))).op(evm.SLOAD)
	case 5:
		g.a.pushU(uint64(g.n("condslot", 3))).op(evm.SLOAD, evm.ISZERO)
	case 6:
		g.a.op(evm.CALLVALUE)
	default:
		g.a.pushU(100000).op(evm.GAS, evm.GT)
	}
}

// ---------------------------------------------------------------- snippets (stack-neutral unless said otherwise)

func (g *pgen) snippet(inLoop bool) {
	kinds := []string{"arith", "arith", "env", "env", "copy", "mem", "mem", "sha3", "sstore", "sstore", "sload", "log",
		"call", "call", "call", "call", "call", "call", "recurse", "create", "create", "create", "token", "token", "token", "jump", "jump", "loop", "guard", "raw", "unbalance", "returndata"}
	k := kinds[g.n("snippet", len(kinds))]
	if inLoop && (k == "loop" || k == "create" || k == "raw" || k == "guard") {
		k = "sstore"
	}
	wild := g.n("wild", 12) == 0 // operands from the whole pool, absurd sizes included (usually ends the frame)
	a := g.a
	switch k {
	case "arith":
		switch g.n("arity", 6) {
		case 0:
			g.pushWord()
			a.op([]evm.OpCode{evm.ISZERO, evm.NOT}[g.n("op1", 2)])
			g.sink()
		case 1:
			g.pushWord()
			g.pushWord()
			g.pushWord()
			a.op([]evm.OpCode{evm.ADDMOD, evm.MULMOD}[g.n("op3", 2)])
			g.sink()
		default:
			g.pushWord()
			g.pushWord()
			a.op(binaryOps[g.n("op2", len(binaryOps))])
			g.sink()
		}
	case "env":
		switch g.n("envkind", 5) {
		case 0:
			g.pushAddrOperand()
			a.op([]evm.OpCode{evm.BALANCE, evm.EXTCODESIZE, evm.EXTCODEHASH}[g.n("envaddr", 3)])
			g.sink()
		case 1:
			a.pushBig(pickB(g, "blockno", []*big.Int{big.NewInt(0), big.NewInt(1), big.NewInt(blockNumber - 1), big.NewInt(blockNumber), big.NewInt(blockNumber + 1), pow2(64), pow2m1(256)}))
			a.op(evm.BLOCKHASH)
			g.sink()
		case 2:
			a.pushBig(pickB(g, "cdoff", []*big.Int{big.NewInt(0), big.NewInt(4), big.NewInt(31), big.NewInt(32), big.NewInt(100), pow2m1(64), pow2m1(256)}))
			a.op(evm.CALLDATALOAD)
			g.sink()
		default:
			a.op(nullaryOps[g.n("op0", len(nullaryOps))])
			g.sink()
		}
	case "copy":
		g.pushMemLen(wild)
		a.pushBig(pickB(g, "src", srcOffs))
		g.pushMemOff(wild)
		switch g.n("copyop", 3) {
		case 0:
			a.op(evm.CALLDATACOPY)
		case 1:
			a.op(evm.CODECOPY)
		default:
			g.pushAddrOperand()
			a.op(evm.EXTCODECOPY)
		}
	case "returndata":
		if g.n("rdc", 3) == 0 { // exactly what was returned
			a.op(evm.RETURNDATASIZE).pushU(0).pushU(0).op(evm.RETURNDATACOPY)
		} else { // frequently out of bounds
			g.pushMemLen(false)
			a.pushBig(pickB(g, "src", srcOffs))
			g.pushMemOff(false)
			a.op(evm.RETURNDATACOPY)
		}
	case "mem":
		switch g.n("memop", 3) {
		case 0:
			g.pushMemOff(wild)
			a.op(evm.MLOAD)
			g.sink()
		case 1:
			g.pushWord()
			g.pushMemOff(wild)
			a.op(evm.MSTORE)
		default:
			g.pushWord()
			g.pushMemOff(wild)
			a.op(evm.MSTORE8)
		}
	case "sha3":
		g.pushMemLen(wild)
		g.pushMemOff(wild)
		a.op(evm.SHA3)
		g.sink()
	case "sstore":
		if g.n("sval", 3) == 0 {
			a.pushU(0)
		} else {
			g.pushWord()
		}
		g.pushSlot()
		a.op(evm.SSTORE)
	case "sload":
		g.pushSlot()
		a.op(evm.SLOAD)
		g.sink()
	case "log":
		nt := g.n("topics", 5)
		for i := 0; i < nt; i++ {
			g.pushWord()
		}
		g.pushMemLen(wild)
		g.pushMemOff(wild)
		a.op(evm.LOG0 + evm.OpCode(nt))
	case "call":
		g.call(wild)
	case "recurse":
		op := []evm.OpCode{evm.CALL, evm.CALL, evm.CALLCODE, evm.DELEGATECALL, evm.STATICCALL}[g.n("recop", 5)]
		a.pushU(0).pushU(0).pushU(0).pushU(0)
		if op == evm.CALL || op == evm.CALLCODE {
			a.pushU(0)
		}
		a.op(evm.ADDRESS, evm.GAS, op)
		g.afterCall()
	case "create":
		if g.lvl >= 2 {
			a.op(evm.GAS, evm.POP)
			return
		}
		g.create()
	case "token":
		switch g.n("tokop", 6) {
		case 0:
			a.pushBig(pickB(g, "issue", amounts))
			a.op(evm.ISSUE)
		case 1:
			g.pushAddrOperand() // holder
			g.pushToken()
			a.op(evm.BALANCETOKEN)
			g.sink()
		default:
			g.pushAddrOperand() // to
			g.pushToken()
			if g.n("tamt", 6) == 0 { // everything this contract has of the token
				a.op(evm.DUP1, evm.ADDRESS, evm.SWAP1, evm.BALANCETOKEN)
			} else {
				a.pushBig(pickB(g, "amount", amounts))
			}
			a.op(evm.TRANSFERTOKEN)
		}
	case "jump":
		l := a.label()
		if g.n("jumpkind", 2) == 0 {
			a.pushLabel(l).op(evm.JUMP)
		} else {
			g.pushCond()
			a.pushLabel(l).op(evm.JUMPI)
		}
		// what is jumped over: junk, a push whose data looks like JUMPDEST, an invalid op
		switch g.n("junk", 4) {
		case 0:
			a.raw(rapid.SliceOfN(rapid.Byte(), 0, 6).Draw(g.t, "junkbytes")...)
		case 1:
			a.pushN([]byte{0x5b, 0x5b}).op(evm.POP)
		case 2:
			a.raw(0xfe)
		default:
		}
		a.dest(l)
	case "loop":
		cnt := []uint64{1, 2, 3, 5, 20}[g.n("loopn", 5)]
		l := a.label()
		a.pushU(cnt).dest(l)
		for i, m := 0, 1+g.n("loopbody", 2); i < m; i++ {
			g.snippet(true)
		}
		a.pushU(1).op(evm.SWAP1, evm.SUB, evm.DUP1).pushLabel(l).op(evm.JUMPI, evm.POP)
	case "guard": // an input/state dependent early exit
		l := a.label()
		g.pushCond()
		a.pushLabel(l).op(evm.JUMPI)
		g.terminator(false)
		a.dest(l)
	case "raw":
		a.raw(rapid.SliceOfN(rapid.Byte(), 1, 6).Draw(g.t, "rawbytes")...)
	case "unbalance":
		switch g.n("unb", 4) {
		case 0:
			g.pushWord()
		case 1:
			a.op(evm.POP)
		case 2:
			a.op(evm.DUP1 + evm.OpCode(g.n("dupn", 16)))
		default:
			a.op(evm.SWAP1 + evm.OpCode(g.n("swapn", 16)))
		}
	}
}

// sink consumes the value a snippet computed: mostly dropped, otherwise made observable (storage,
// memory that a later RETURN / LOG / SHA3 may read, a log topic), so that a value that differs
// between two runs shows up in their results.
func (g *pgen) sink() {
	a := g.a
	switch c := g.n("sink", 10); {
	case c <= 4:
		a.op(evm.POP)
	case c <= 6:
		a.pushU(uint64(g.n("sinkslot", 4))).op(evm.SSTORE)
	case c <= 8:
		a.pushU([]uint64{0, 32, 64}[g.n("sinkmem", 3)]).op(evm.MSTORE)
	default:
		a.pushU(0).pushU(0).op(evm.LOG1)
	}
}

func (g *pgen) pushSlot() {
	if g.n("slotkind", 6) == 0 {
		g.pushWord()
		return
	}
	g.a.pushU(uint64(g.n("slot", 4)))
}

// afterCall consumes the success flag a CALL-family op left on the stack.
func (g *pgen) afterCall() {
	a := g.a
	switch g.n("aftercall", 6) {
	case 0, 1:
		a.op(evm.POP)
	case 2, 3: // record it, so that a successful outer frame remembers a failed inner one
		a.pushU(uint64(g.n("flagslot", 4))).op(evm.SSTORE)
	case 4: // bubble the failure up
		l := a.label()
		a.pushLabel(l).op(evm.JUMPI).pushU(0).pushU(0).op(evm.REVERT).dest(l)
	default:
		a.op(evm.POP, evm.RETURNDATASIZE).pushU(0).pushU(0).op(evm.RETURNDATACOPY)
	}
}

func (g *pgen) call(wild bool) {
	a := g.a
	op := []evm.OpCode{evm.CALL, evm.CALL, evm.CALL, evm.CALLCODE, evm.DELEGATECALL, evm.STATICCALL, evm.STATICCALL}[g.n("callop", 7)]
	if g.n("callinput", 3) == 0 { // put a selector-like word at memory 0
		g.pushWord()
		a.pushU(0).op(evm.MSTORE)
	}
	g.pushMemLen(wild) // retSize
	g.pushMemOff(wild) // retOff
	g.pushMemLen(wild) // inSize
	g.pushMemOff(wild) // inOff
	if op == evm.CALL || op == evm.CALLCODE {
		g.pushValueOperand()
	}
	g.pushCallTarget()
	g.pushGasOperand()
	a.op(op)
	g.afterCall()
}

func (g *pgen) create() {
	a := g.a
	sub := &pgen{t: g.t, a: &asm{}, lvl: g.lvl + 1}
	init := sub.program(true)
	times := 1
	if g.n("createtwice", 4) == 0 {
		times = 2 // the same init code again: address collision for CREATE2, next nonce for CREATE
	}
	for i := 0; i < times; i++ {
		a.copyBlobToMem(init)
		two := g.n("create2", 3) == 0
		if two {
			a.pushU(uint64(g.n("salt", 2)))
		}
		if g.n("createlen", 8) == 0 {
			g.pushMemLen(true)
		} else {
			a.pushU(uint64(len(init)))
		}
		a.pushU(0)
		g.pushValueOperand()
		if two {
			a.op(evm.CREATE2)
		} else {
			a.op(evm.CREATE)
		}
		switch g.n("aftercreate", 4) {
		case 0:
			a.op(evm.POP)
		case 1:
			a.pushU(uint64(g.n("flagslot", 4))).op(evm.SSTORE)
		default: // call what was just created
			a.pushU(0).pushU(0).pushU(0).pushU(0).pushU(0).op(evm.DUP6, evm.GAS, evm.CALL, evm.POP, evm.POP)
		}
	}
}

// terminator ends the frame (final: it is the last thing of the program, so code may be truncated).
func (g *pgen) terminator(final bool) {
	a := g.a
	c := g.n("term", 24)
	if !final && c >= 19 {
		c = 9
	}
	switch {
	case c <= 3:
		a.op(evm.STOP)
	case c <= 5:
		if final {
			return // run off the end
		}
		a.op(evm.STOP)
	case c <= 8:
		g.pushMemLen(g.n("wildret", 6) == 0)
		g.pushMemOff(g.n("wildret", 6) == 0)
		a.op(evm.RETURN)
	case c <= 11:
		g.pushMemLen(false)
		g.pushMemOff(false)
		a.op(evm.REVERT)
	case c <= 13:
		g.pushAddrOperand()
		a.op(evm.SELFDESTRUCT)
	case c == 14:
		a.raw(0xfe)
	case c == 15:
		a.raw(undefOps[g.n("undef", len(undefOps))])
	case c <= 17:
		g.badJump()
	case c == 18: // push until the stack limit
		l := a.label()
		a.dest(l).pushU(0).pushLabel(l).op(evm.JUMP)
	case c <= 21: // truncated PUSH
		n := 1 + g.n("pushn", 32)
		have := g.n("pushhave", n)
		a.raw(byte(evm.PUSH1) + byte(n-1))
		for i := 0; i < have; i++ {
			a.raw(0x5b)
		}
	case c == 22: // burn everything
		if g.n("really", 3) == 0 {
			l := a.label()
			a.dest(l).pushLabel(l).op(evm.JUMP)
		} else {
			a.op(evm.STOP)
		}
	default:
		a.op(evm.STOP)
	}
}

func (g *pgen) badJump() {
	a := g.a
	switch g.n("badjump", 6) {
	case 0: // into push data that looks like a JUMPDEST
		l := a.label()
		a.pushLabel(l).op(evm.JUMP)
		a.raw(byte(evm.PUSH2)).here(l).raw(0x5b, 0x5b).op(evm.STOP)
	case 1: // one past the end
		l := a.label()
		a.pushLabel(l).op(evm.JUMP)
	case 2:
		a.pushBig(pickB(g, "hugejump", []*big.Int{pow2(62), pow2(63), pow2m1(64), pow2(64), pow2m1(256)})).op(evm.JUMP)
	case 3: // a real opcode that is not a JUMPDEST
		a.pushU(0).op(evm.JUMP)
	case 4: // conditional, taken
		a.pushU(1).pushBig(pow2(63)).op(evm.JUMPI)
	default: // JUMPDEST that is the data byte of a PUSH1 right at the end of the code
		l := a.label()
		a.pushLabel(l).op(evm.JUMP)
		a.raw(byte(evm.PUSH1)).here(l).raw(0x5b)
	}
}

// prologue answers the decimals() query the EVM sends (read-only) to every contract whose frame
// executed ISSUE, so that such frames can survive.
func (g *pgen) prologue() {
	a := g.a
	l := a.label()
	a.pushU(0).op(evm.CALLDATALOAD).pushU(0xe0).op(evm.SHR).pushN(decimalsSelector).op(evm.EQ, evm.ISZERO).pushLabel(l).op(evm.JUMPI)
	a.pushU([]uint64{8, 8, 8, 0, 26, 27, 255}[g.n("decimals", 7)]).pushU(0).op(evm.MSTORE).pushU(32).pushU(0).op(evm.RETURN)
	a.dest(l)
}

// program emits a whole program. init: it is init code (prefer returning runtime code).
func (g *pgen) program(init bool) []byte {
	if g.n("prologue", 3) == 0 {
		g.prologue()
	}
	max := 24
	if g.lvl == 1 {
		max = 8
	} else if g.lvl >= 2 {
		max = 3
	}
	for i, n := 0, g.n("nsnippets", max+1); i < n; i++ {
		g.snippet(false)
	}
	if init && g.n("deploys", 2) == 0 {
		rt := (&pgen{t: g.t, a: &asm{}, lvl: 2}).program(false)
		g.a.copyBlobToMem(rt)
		g.a.pushU(uint64(len(rt))).pushU(0).op(evm.RETURN)
	} else {
		g.terminator(true)
	}
	return g.a.assemble()
}

// ---------------------------------------------------------------- contracts, worlds, calls

func genContractCode(t *rapid.T, idx, n int) []byte {
	g := &pgen{t: t, a: &asm{}}
	c := g.n("shape", 20)
	if idx > 0 && c > 6 && g.n("morewrappers", 3) == 0 {
		c = 1
	}
	switch {
	case c == 0: // uniform bytes
		return rapid.SliceOfN(rapid.Byte(), 0, 64).Draw(t, "uniformcode")
	case c <= 5: // wrapper: call another contract, remember whether it failed, finish normally
		a := g.a
		if g.n("prologue", 2) == 0 {
			g.prologue()
		}
		op := []evm.OpCode{evm.CALL, evm.CALL, evm.STATICCALL, evm.STATICCALL, evm.DELEGATECALL, evm.CALLCODE}[g.n("wrapop", 6)]
		if g.n("wrappre", 2) == 0 {
			a.pushU(7).pushU(2).op(evm.SSTORE)
		}
		a.op(evm.CALLDATASIZE).pushU(0).pushU(0).op(evm.CALLDATACOPY) // forward the call data
		a.pushU(32).pushU(0).op(evm.CALLDATASIZE).pushU(0)
		if op == evm.CALL || op == evm.CALLCODE {
			g.pushValueOperand()
		}
		a.pushAddr(contractAt[(idx+1+g.n("wraptarget", 2))%3])
		g.pushGasOperand()
		a.op(op).pushU(0).op(evm.SSTORE)
		a.op(evm.RETURNDATASIZE).pushU(1).op(evm.SSTORE)
		if g.n("wrappost", 2) == 0 {
			g.snippet(false)
		}
		a.op(evm.STOP)
		return a.assemble()
	case c == 6: // plain recursion
		a := g.a
		op := []evm.OpCode{evm.CALL, evm.CALLCODE, evm.DELEGATECALL, evm.STATICCALL}[g.n("recop", 4)]
		if op != evm.STATICCALL && g.n("recstore", 2) == 0 {
			a.pushU(1).pushU(0).op(evm.SLOAD, evm.ADD).pushU(0).op(evm.SSTORE)
		}
		a.pushU(0).pushU(0).pushU(0).pushU(0)
		if op == evm.CALL || op == evm.CALLCODE {
			a.pushU(0)
		}
		a.op(evm.ADDRESS, evm.GAS, op)
		g.afterCall()
		g.terminator(true)
		return a.assemble()
	default:
		return g.program(false)
	}
}

func genBalance(t *rapid.T, label string) string {
	return rapid.SampledFrom([]string{"0", "0", "1", "1000", "1000", "1000000000000000000", "1000000000000000000000000"}).Draw(t, label)
}

func genWorld(t *rapid.T) worldSpec {
	ws := worldSpec{
		IsTrie:       rapid.IntRange(0, 3).Draw(t, "statemode") != 0,
		SenderBal:    rapid.SampledFrom([]string{"0", "1", "1000", "1000000", "1000000000000000000000000"}).Draw(t, "senderbal"),
		SenderT:      rapid.SampledFrom([]string{"0", "5", "1000"}).Draw(t, "sendert"),
		PrecompFunds: rapid.Bool().Draw(t, "precompfunded"),
	}
	n := rapid.IntRange(1, 3).Draw(t, "ncontracts")
	for i := 0; i < n; i++ {
		c := contractSpec{
			Code:    genContractCode(t, i, n),
			Balance: genBalance(t, "cbal"),
			TokT:    rapid.SampledFrom([]string{"0", "1000", "1000", "1000"}).Draw(t, "ctokt"),
			OwnTok:  rapid.SampledFrom([]string{"0", "0", "50"}).Draw(t, "cowntok"),
		}
		if rapid.Bool().Draw(t, "hasstorage") {
			c.Storage = map[string]string{}
			for s := 0; s < 3; s++ {
				if rapid.Bool().Draw(t, "slotset") {
					c.Storage[fmt.Sprint(s)] = rapid.SampledFrom([]string{"1", "2", "255", "115792089237316195423570985008687907853269984665640564039457584007913129639935"}).Draw(t, "slotval")
				}
			}
		}
		ws.Contracts = append(ws.Contracts, c)
	}
	return ws
}

// execSpec is one top-level execution.
type execSpec struct {
	Mode   string   `json:"mode"`   // call | utxocall | create | runtime
	Target int      `json:"target"` // contract index (call modes)
	Token  string   `json:"token"`  // "" (native) | "T" | "C0"
	Input  hexBytes `json:"input"`
	Gas    uint64   `json:"gas"`
	Value  string   `json:"value"`
	Code   hexBytes `json:"code,omitempty"` // init code (create) or code (runtime)
}

func (s execSpec) token() common.Address {
	switch s.Token {
	case "T":
		return tokenT
	case "C0":
		return contractAt[0]
	}
	return common.EmptyAddress
}

func genGas(t *rapid.T) uint64 {
	switch c := rapid.IntRange(0, 19).Draw(t, "gasclass"); {
	case c == 0:
		return rapid.SampledFrom([]uint64{0, 1, 2, 3, 20, 99, 100}).Draw(t, "gastiny")
	case c <= 2:
		return uint64(rapid.IntRange(700, 100000).Draw(t, "gassmall"))
	case c <= 11:
		return uint64(rapid.IntRange(100000, 2000000).Draw(t, "gasmid"))
	default:
		return uint64(rapid.IntRange(2000000, 10000000).Draw(t, "gasbig"))
	}
}

func genInput(t *rapid.T) []byte {
	switch rapid.IntRange(0, 7).Draw(t, "inputkind") {
	case 0, 1:
		return nil
	case 2:
		return decimalsSelector
	case 3:
		return rapid.SliceOfN(rapid.Byte(), 4, 4).Draw(t, "selector")
	case 4:
		return rapid.SliceOfN(rapid.Byte(), 32, 36).Draw(t, "wordinput")
	case 5:
		return make([]byte, 1024)
	default:
		return rapid.SliceOfN(rapid.Byte(), 0, 100).Draw(t, "rawinput")
	}
}

// genValue: 0 .. balance+1 of the sender in the token of the call.
func genValue(t *rapid.T, ws worldSpec, token string) string {
	bal := bigOf(ws.SenderBal)
	switch token {
	case "T":
		bal = bigOf(ws.SenderT)
	case "C0":
		bal = new(big.Int)
	}
	switch rapid.IntRange(0, 19).Draw(t, "valuekind") {
	case 0, 1, 2, 3, 4, 5, 6, 7, 8, 9, 10:
		return "0"
	case 11, 12, 13:
		return "1"
	case 14, 15:
		return bal.String()
	case 16:
		return new(big.Int).Add(bal, big.NewInt(1)).String()
	case 17:
		return new(big.Int).Rsh(bal, 1).String()
	default:
		return rapid.SampledFrom([]string{"2", "999", "1000"}).Draw(t, "valuesmall")
	}
}

func genExec(t *rapid.T, ws worldSpec, label string) execSpec {
	es := execSpec{Gas: genGas(t), Input: genInput(t)}
	switch c := rapid.IntRange(0, 9).Draw(t, label+"mode"); {
	case c <= 4:
		es.Mode = "call"
	case c <= 6:
		es.Mode = "utxocall"
	case c <= 8:
		es.Mode = "create"
	default:
		es.Mode = "runtime"
	}
	es.Target = rapid.IntRange(0, len(ws.Contracts)-1).Draw(t, "target")
	if es.Mode == "call" || es.Mode == "utxocall" {
		es.Token = rapid.SampledFrom([]string{"", "", "", "", "T", "T", "C0"}).Draw(t, "calltoken")
	}
	es.Value = genValue(t, ws, es.Token)
	switch es.Mode {
	case "create":
		es.Code = (&pgen{t: t, a: &asm{}}).program(true)
		es.Input = nil
	case "runtime":
		es.Code = (&pgen{t: t, a: &asm{}}).program(false)
	}
	return es
}
