package c20

// "A failed frame leaves nothing behind except gas" as a metamorphic relation over generated programs: a parent frame calls a
// child that does SOMETHING and then fails (revert, invalid opcode, stack underflow, bad jump, out of gas), then goes on with
// effects of its own and returns.  Whatever the child did before it failed - issue tokens, write storage, log, transfer, call
// on - the parent's result, the state and the logs must be the same as with a child that fails right away; only the gas may
// differ.

import (
	"bytes"
	"fmt"
	"regexp"
	"strings"
	"testing"

	"github.com/lianxiangcloud/linkchain/vm/evm"
	"pgregory.net/rapid"

	"verifharness/vstat"
)

var codeField = regexp.MustCompile(`code=[0-9a-f]*/[0-9]+`)

func TestFailedChildLeavesNothingBehind(t *testing.T) {
	rapid.Check(t, func(t *rapid.T) {
		vstat.Eval()
		failKind := rapid.SampledFrom([]string{"revert", "revert-with-data", "invalid", "stack-underflow", "bad-jump", "out-of-gas"}).Draw(t, "fail")
		noise := rapid.SampledFrom([]string{"issue", "issue", "issue-big", "sstore", "log", "issue+sstore", "transfer-token", "call-sibling"}).Draw(t, "noise")
		entry := rapid.SampledFrom([]evm.OpCode{evm.CALL, evm.CALL, evm.CALLCODE, evm.DELEGATECALL}).Draw(t, "entry")
		after := rapid.SampledFrom([]string{"sstore-stop", "return-data", "log-stop", "second-child-then-sstore"}).Draw(t, "after")
		childGas := uint64(rapid.SampledFrom([]int{30000, 100000, 600000}).Draw(t, "childgas"))
		child := func(withNoise bool) []byte {
			return prog(func(a *asm) {
				if withNoise {
					switch noise {
					case "issue":
						a.pushU(1).op(evm.ISSUE)
					case "issue-big":
						a.pushU(1 << 40).op(evm.ISSUE)
					case "sstore":
						a.pushU(77).pushU(3).op(evm.SSTORE)
					case "log":
						a.pushU(0).pushU(0).op(evm.LOG0)
					case "issue+sstore":
						a.pushU(5).op(evm.ISSUE).pushU(78).pushU(4).op(evm.SSTORE)
					case "transfer-token":
						// TRANSFERTOKEN(to, token, amount): to = sender's address slot 2 contract, token = native
						a.pushU(1).pushU(0).pushAddr(contractAt[2]).op(evm.TRANSFERTOKEN)
					case "call-sibling":
						a.pushU(0).pushU(0).pushU(0).pushU(0).pushU(0).pushAddr(contractAt[2]).op(evm.GAS, evm.CALL, evm.POP)
					}
				}
				switch failKind {
				case "revert":
					a.pushU(0).pushU(0).op(evm.REVERT)
				case "revert-with-data":
					a.pushU(0xabcd).pushU(0).op(evm.MSTORE).pushU(32).pushU(0).op(evm.REVERT)
				case "invalid":
					a.raw(0xfe)
				case "stack-underflow":
					a.op(evm.ADD)
				case "bad-jump":
					a.pushU(1).op(evm.JUMP)
				case "out-of-gas":
					l := a.label()
					a.dest(l).pushLabel(l).op(evm.JUMP)
				}
			})
		}
		parent := prog(func(a *asm) {
			callChild := func() {
				if entry == evm.DELEGATECALL {
					a.pushU(0).pushU(0).pushU(0).pushU(0).pushAddr(contractAt[1]).pushU(childGas).op(entry, evm.POP)
				} else {
					a.pushU(0).pushU(0).pushU(0).pushU(0).pushU(0).pushAddr(contractAt[1]).pushU(childGas).op(entry, evm.POP)
				}
			}
			callChild()
			switch after {
			case "sstore-stop":
				a.pushU(9).pushU(5).op(evm.SSTORE, evm.STOP)
			case "return-data":
				a.pushU(0x1234).pushU(0).op(evm.MSTORE).pushU(32).pushU(0).op(evm.RETURN)
			case "log-stop":
				a.pushU(0).pushU(0).op(evm.LOG0, evm.STOP)
			default:
				callChild()
				a.pushU(10).pushU(6).op(evm.SSTORE, evm.STOP)
			}
		})
		run := func(withNoise bool) (o outcome, dg *digest, logs []string) {
			ws := worldSpec{IsTrie: true, SenderBal: "1000000", SenderT: "1000", PrecompFunds: true,
				Contracts: []contractSpec{
					{Code: parent, Balance: "1000", TokT: "1000", OwnTok: "50", Storage: map[string]string{"0": "1"}},
					{Code: child(withNoise), Balance: "1000", TokT: "1000", OwnTok: "50", Storage: map[string]string{"3": "1"}},
					{Code: prog(func(a *asm) { a.op(evm.STOP) }), Balance: "1", TokT: "1"},
				}}
			w, err := buildWorld(ws)
			if err != nil {
				t.Fatalf("harness: world: %v", err)
			}
			es := execSpec{Mode: "call", Target: 0, Gas: 3000000, Value: "0"}
			st := w.fresh()
			value := prep(st, es)
			rec := newRecDB(st)
			vm := newEVM(rec, es, nil)
			o = execute(vm, st, es, value, nil)
			return o, takeDigest(st, rec.u), logStrings(st)
		}
		o0, d0, l0 := run(false)
		o1, d1, l1 := run(true)
		desc := fmt.Sprintf("the child is entered with %v, does %q and fails by %q (gas %d); the parent goes on with %q", entry, noise, failKind, childGas, after)
		vstat.Label("failed_child_noise_" + noise)
		vstat.NonTrivial(desc)
		if o0.pan != nil || o1.pan != nil {
			vstat.Violation(t, P, "failed-child:panic", "%s: panic %v / %v", desc, o0.pan, o1.pan)
			return
		}
		if o0.errString() != o1.errString() || !bytes.Equal(o0.ret, o1.ret) {
			vstat.Violation(t, P, "failed-child:parent-result-depends-on-what-the-failed-child-did", "%s: with a child that fails right away the parent returns err=%q ret=%x, with this child err=%q ret=%x", desc, o0.errString(), o0.ret, o1.errString(), o1.ret)
			return
		}
		// (the two worlds differ, by construction, in the child's code: that is not a difference the run made)
		var df []string
		for _, d := range d0.diff(d1) {
			n := codeField.ReplaceAllString(d, "code=*")
			if i := strings.Index(n, ": "); i >= 0 {
				if h := strings.SplitN(n[i+2:], " vs ", 2); len(h) == 2 && h[0] == h[1] {
					continue
				}
			}
			df = append(df, d)
		}
		if len(df) > 0 {
			vstat.Violation(t, P, "failed-child:state-depends-on-what-the-failed-child-did", "%s: the state after the call differs: %s", desc, strings.Join(df, "; "))
			return
		}
		if strings.Join(l0, "|") != strings.Join(l1, "|") {
			vstat.Violation(t, P, "failed-child:logs-depend-on-what-the-failed-child-did", "%s: logs %v vs %v", desc, l0, l1)
		}
	})
}
