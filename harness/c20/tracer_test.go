package c20

// The tracer is the observation point inside an execution.  It is called by the interpreter for
// every step of every frame (evm.Config{Debug: true}); frame entry / exit is inferred from the
// depth and the *Contract identity.  It never fails the test itself (it runs inside the recover()
// that wraps the call under test): it records findings, the caller reports them afterwards.

import (
	"fmt"
	"math/big"
	"time"

	"github.com/lianxiangcloud/linkchain/libs/common"
	"github.com/lianxiangcloud/linkchain/libs/crypto"
	"github.com/lianxiangcloud/linkchain/vm/evm"
)

type finding struct {
	key string
	msg string
}

type frameRec struct {
	contract *evm.Contract
	steps    int
	mem      int // memory size observed at the last charged step (i.e. after that step's expansion)
	memPrev  int // memory size before the last charged step
	lastGas  uint64
	lastCost uint64
	lastOp   evm.OpCode
	haveLast bool
	pending  *bracket // opened by the last step (a CALL/CREATE-family op), closed by the next one
	static   bool
}

type tracer struct {
	db      *recDB // nil: no frame-atomicity brackets (runtime.Execute, untraced-equivalent guard runs)
	topGas  uint64
	frames  []*frameRec
	finds   []finding
	harness interface{} // a panic inside the tracer itself = harness bug

	steps        int
	work         uint64 // lower bound of the gas actually consumed: cost of all non-call steps + memory expansion of call steps
	maxDepth     int
	innerFrames  int
	failedFrames int // frames that ended in an error (any depth)
	failedInner  int // CALL/CREATE-family ops that pushed 0
	okInner      int
	staticFrames int
	brackets     int
	ops          [256]int
	opSeq        []byte
	cancelled    bool
	overGasFrame bool   // a frame started with more gas than the whole execution was given
	overGasInfo  string // where
	created      int
	issued       int
	suicides     int
	topFailOp    string // the op the top-level frame was refused at (distribution is reported)
	tokenMoves   int

	// jump-destination analysis shared under the zero code hash (finding K1): length of the bitmap
	// cached by the first init-code frame that jumped, and whether the crash is predicted.
	zeroBitmapLen int
	zeroCodeHash  common.Hash
	zeroShared    bool
	k1Predicted   string
}

const maxBrackets = 400

func newTracer(db *recDB, topGas uint64) *tracer { return &tracer{db: db, topGas: topGas} }

func (t *tracer) find(key, format string, args ...interface{}) {
	if len(t.finds) < 8 {
		t.finds = append(t.finds, finding{key, fmt.Sprintf(format, args...)})
	}
}

func isCallFamily(op evm.OpCode) bool {
	switch op {
	case evm.CALL, evm.CALLCODE, evm.DELEGATECALL, evm.STATICCALL, evm.CREATE, evm.CREATE2:
		return true
	}
	return false
}

// memCost is the yellow-paper memory fee for w words (reference model, independent of gas_table.go).
func memCost(w uint64) uint64 { return 3*w + w*w/512 }

var big32 = big.NewInt(32)
var bigMaxMem = new(big.Int).SetUint64(1 << 40)

// memNeed: reference model of the memory an op touches, from its operands (nil if unknown / none).
// Returned value is the byte size rounded up to words, or -1 if it does not fit any real memory.
func memNeed(op evm.OpCode, st []*big.Int) int64 {
	back := func(n int) *big.Int { return st[len(st)-1-n] }
	span := func(off, size *big.Int) *big.Int {
		if size.Sign() == 0 {
			return new(big.Int)
		}
		return new(big.Int).Add(off, size)
	}
	var need *big.Int
	switch {
	case op == evm.MLOAD || op == evm.MSTORE:
		need = span(back(0), big32)
	case op == evm.MSTORE8:
		need = span(back(0), big.NewInt(1))
	case op == evm.SHA3 || op == evm.RETURN || op == evm.REVERT || (op >= evm.LOG0 && op <= evm.LOG4):
		need = span(back(0), back(1))
	case op == evm.CALLDATACOPY || op == evm.CODECOPY || op == evm.RETURNDATACOPY:
		need = span(back(0), back(2))
	case op == evm.EXTCODECOPY:
		need = span(back(1), back(3))
	case op == evm.CREATE || op == evm.CREATE2:
		need = span(back(1), back(2))
	case op == evm.CALL || op == evm.CALLCODE:
		need = span(back(3), back(4))
		if o := span(back(5), back(6)); o.Cmp(need) > 0 {
			need = o
		}
	case op == evm.DELEGATECALL || op == evm.STATICCALL:
		need = span(back(2), back(3))
		if o := span(back(4), back(5)); o.Cmp(need) > 0 {
			need = o
		}
	default:
		return 0
	}
	if need.Cmp(bigMaxMem) > 0 {
		return -1
	}
	n := need.Int64()
	return (n + 31) / 32 * 32
}

// sync keeps the frame stack in step with (contract, depth) and returns the current frame.
func (t *tracer) sync(contract *evm.Contract, depth int, gas uint64) *frameRec {
	for len(t.frames) > depth {
		t.frames = t.frames[:len(t.frames)-1]
	}
	if len(t.frames) == depth && t.frames[depth-1].contract != contract {
		// A new frame at the same depth without a step of the parent in between: the only place the
		// EVM does that is the read-only decimals() call it makes after a frame that executed ISSUE.
		t.frames = t.frames[:depth-1]
	}
	if len(t.frames) < depth-1 {
		panic(fmt.Sprintf("frame at depth %d appeared while only %d frames are known", depth, len(t.frames)))
	}
	if len(t.frames) == depth-1 {
		f := &frameRec{contract: contract}
		if depth > 1 {
			t.innerFrames++
			parent := t.frames[depth-2]
			f.static = parent.static || (parent.haveLast && parent.lastOp == evm.STATICCALL && parent.pending != nil)
		}
		if gas > t.topGas && !t.overGasFrame {
			t.overGasFrame = true
			t.overGasInfo = fmt.Sprintf("frame of %x at depth %d starts with %d gas, the execution was given %d", contract.Address().Bytes()[18:], depth, gas, t.topGas)
		}
		t.frames = append(t.frames, f)
		if depth > t.maxDepth {
			t.maxDepth = depth
		}
	}
	return t.frames[depth-1]
}

func (t *tracer) closePending(f *frameRec, stack *evm.Stack) {
	b := f.pending
	if b == nil {
		return
	}
	f.pending = nil
	st := stack.Data()
	failed := len(st) == 0 || st[len(st)-1].Sign() == 0
	if failed {
		t.failedInner++
	} else {
		t.okInner++
		if f.lastOp == evm.CREATE || f.lastOp == evm.CREATE2 {
			t.created++
		}
	}
	if t.db == nil || b.accts == nil || t.cancelled {
		return
	}
	isCreate := f.lastOp == evm.CREATE || f.lastOp == evm.CREATE2
	for _, d := range t.db.closeBracket(b, failed, isCreate) {
		if failed {
			t.find("atomic:failed-inner-frame-left-a-state-change", "%v frame issued by %x at depth %d failed, but %s", f.lastOp, b.creator[18:], len(t.frames), d)
		} else {
			t.find("static:read-only-frame-changed-state", "STATICCALL frame issued by %x at depth %d succeeded, but %s", b.creator[18:], len(t.frames), d)
		}
	}
}

func (t *tracer) CaptureStart(from common.Address, to common.Address, call bool, input []byte, gas uint64, value *big.Int) error {
	return nil
}

func (t *tracer) CaptureEnd(output []byte, gasUsed uint64, d time.Duration, err error) error {
	return nil
}

// CaptureState: (err == nil) the step has been validated and charged, memory is already expanded,
// the op runs next; (err != nil) the step was refused before execution (stack, write protection,
// gas) and the frame ends.
func (t *tracer) CaptureState(env *evm.EVM, pc uint64, op evm.OpCode, gas, cost uint64, memory *evm.Memory, stack *evm.Stack, contract *evm.Contract, depth int, err error) error {
	defer func() {
		if r := recover(); r != nil && t.harness == nil {
			t.harness = r
		}
	}()
	f := t.sync(contract, depth, gas)
	t.closePending(f, stack)
	if err != nil {
		t.failedFrames++
		if depth == 1 {
			t.topFailOp = op.String()
		}
		if memory.Len() != f.mem {
			t.find("meter:refused-step-expanded-memory", "%v at pc %d (depth %d) was refused (%v) but memory grew from %d to %d bytes", op, pc, depth, err, f.mem, memory.Len())
		}
		return nil
	}
	st := stack.Data()
	t.steps++
	f.steps++
	t.ops[byte(op)]++
	if len(t.opSeq) < 48 {
		t.opSeq = append(t.opSeq, byte(op))
	}
	// gas continuity inside the frame
	if f.haveLast {
		if isCallFamily(f.lastOp) {
			if gas > f.lastGas {
				t.find("meter:gas-grew-across-inner-frame", "gas of the frame at depth %d was %d before %v and is %d after it", depth, f.lastGas, f.lastOp, gas)
			}
		} else if gas != f.lastGas-f.lastCost {
			t.find("meter:step-not-charged-its-cost", "depth %d: %v had %d gas and cost %d, the next step sees %d", depth, f.lastOp, f.lastGas, f.lastCost, gas)
		}
	}
	if cost > gas {
		t.find("meter:step-charged-more-than-available", "%v at pc %d: cost %d > gas %d yet executed", op, pc, cost, gas)
	}
	// memory: growth must be paid for by this very step, and must be what the operands require
	w0, w1 := uint64(f.mem/32), uint64(memory.Len()/32)
	if w1 > w0 {
		if need := memCost(w1) - memCost(w0); cost < need {
			t.find("meter:memory-expansion-undercharged", "%v at pc %d (depth %d) grew memory %d -> %d bytes, which costs %d gas, but was charged %d in total", op, pc, depth, f.mem, memory.Len(), need, cost)
		}
	}
	if n := memNeed(op, st); n >= 0 {
		want := f.mem
		if int(n) > want {
			want = int(n)
		}
		if memory.Len() != want {
			t.find("meter:memory-size-differs-from-operands", "%v at pc %d (depth %d): memory is %d bytes, operands require %d (was %d)", op, pc, depth, memory.Len(), want, f.mem)
		}
	} else {
		t.find("meter:memory-size-differs-from-operands", "%v at pc %d (depth %d) passed the gas check with a memory requirement beyond 2^40 bytes", op, pc, depth)
	}
	f.memPrev, f.mem = f.mem, memory.Len()
	f.lastGas, f.lastCost, f.lastOp, f.haveLast = gas, cost, op, true

	// work actually done vs gas given.  The cost of a CALL/CREATE-family step contains the gas it
	// hands to the inner frame (counted there), so only its memory expansion is added, priced by the
	// reference model.
	if !isCallFamily(op) {
		t.work += cost
	} else if w1 > w0 {
		t.work += memCost(w1) - memCost(w0)
	}
	if t.work > t.topGas && !t.cancelled {
		t.cancelled = true
		env.Cancel()
	}

	switch op {
	case evm.JUMP, evm.JUMPI:
		t.watchJump(op, st, contract)
	case evm.ISSUE:
		t.issued++
	case evm.SELFDESTRUCT:
		t.suicides++
	case evm.TRANSFERTOKEN:
		if st[len(st)-1].Sign() > 0 {
			t.tokenMoves++
		}
	}
	if isCallFamily(op) {
		if op == evm.STATICCALL {
			t.staticFrames++
		}
		if t.db != nil && t.brackets < maxBrackets && !t.cancelled {
			t.brackets++
			f.pending = t.db.openBracket(contract, byte(op), op == evm.STATICCALL, contract.Address())
		} else {
			f.pending = &bracket{} // not registered with the recorder: only the outcome is counted
		}
	}
	return nil
}

// CaptureFault: the op was executed and returned an error (bad jump, REVERT, return data out of
// bounds, ...).
func (t *tracer) CaptureFault(env *evm.EVM, pc uint64, op evm.OpCode, gas, cost uint64, memory *evm.Memory, stack *evm.Stack, contract *evm.Contract, depth int, err error) error {
	defer func() {
		if r := recover(); r != nil && t.harness == nil {
			t.harness = r
		}
	}()
	t.failedFrames++
	if depth >= 1 && depth <= len(t.frames) {
		f := t.frames[depth-1]
		if err == evm.ErrOutOfGas && memory.Len() > f.memPrev {
			t.find("meter:refused-step-expanded-memory", "%v at pc %d (depth %d) ran and only then failed with out of gas; memory grew from %d to %d bytes", op, pc, depth, f.memPrev, memory.Len())
		}
	}
	return nil
}

// watchJump predicts finding K1: destinations.has() caches the JUMPDEST bitmap of CREATE init code
// under the zero code hash in the map shared by all frames of one top-level call; a later init
// code that jumps beyond that bitmap indexes out of range.
func (t *tracer) watchJump(op evm.OpCode, st []*big.Int, c *evm.Contract) {
	if c.CodeHash != (common.Hash{}) || len(c.Code) == 0 {
		return
	}
	dest := st[len(st)-1]
	if op == evm.JUMPI && st[len(st)-2].Sign() == 0 {
		return
	}
	if dest.BitLen() >= 63 || dest.Uint64() >= uint64(len(c.Code)) {
		return
	}
	h := crypto.Keccak256Hash(c.Code)
	if t.zeroBitmapLen == 0 {
		t.zeroBitmapLen, t.zeroCodeHash = len(c.Code)/8+1+4, h
		return
	}
	if h != t.zeroCodeHash {
		t.zeroShared = true
		if c.Code[dest.Uint64()] == byte(evm.JUMPDEST) && int(dest.Uint64()/8) >= t.zeroBitmapLen {
			t.k1Predicted = fmt.Sprintf("init code of %d bytes jumps to %d while the bitmap cached under the zero code hash has %d bytes", len(c.Code), dest.Uint64(), t.zeroBitmapLen)
		}
	}
}
