// C15 — the mempool offers consensus only executable, non-conflicting, ordered transactions.
package c15

import (
	"fmt"
	"math/big"
	"sort"
	"strings"
	"sync"
	"testing"
	"time"

	cfg "github.com/lianxiangcloud/linkchain/config"
	"github.com/lianxiangcloud/linkchain/libs/common"
	lktypes "github.com/lianxiangcloud/linkchain/libs/cryptonote/types"
	"github.com/lianxiangcloud/linkchain/mempool"
	"github.com/lianxiangcloud/linkchain/types"
	"pgregory.net/rapid"

	"verifharness/chainsim"
	"verifharness/vstat"
	"verifharness/world"
)

const P = "C15"

func TestMain(m *testing.M) {
	world.Init()
	vstat.Main(m)
}

type env struct {
	s     *chainsim.Sim // main node (its mempool is under test)
	other *chainsim.Sim // a second node with its own mempool: the "block built elsewhere" source
	hist  []string
	// accepted[sender][nonce] = hash of the transaction the main mempool admitted (nil error) and that is neither
	// committed nor known to be invalidated
	accepted map[common.Address]map[uint64]types.Tx
	pendingU map[common.Hash][]lktypes.Key // admitted pure-confidential spends and their key images
	capsBind bool
	promos   int
	removed  int
	truncs   int
}

func (e *env) logf(f string, a ...interface{}) {
	e.hist = append(e.hist, fmt.Sprintf(f, a...))
}

func (e *env) fail(t *rapid.T, key, f string, a ...interface{}) {
	vstat.Violation(t, P, key, "%s\nhistory:\n%s", fmt.Sprintf(f, a...), strings.Join(e.hist, "\n"))
}

func senderOf(tx types.Tx) (common.Address, uint64, bool) { return chainsim.SenderOf(tx) }

// costOf is what admission debits from the sender for a transaction.
func costOf(tx types.Tx) *big.Int {
	switch v := tx.(type) {
	case *types.Transaction:
		return v.Cost()
	case *types.TokenTransaction:
		return v.Cost()
	case *types.UTXOTransaction:
		for _, in := range v.Inputs {
			if ai, ok := in.(*types.AccountInput); ok {
				if v.TokenID != common.EmptyAddress {
					return new(big.Int).Set(v.Fee) // the amount comes out of the token balance, the fee out of the native one
				}
				return new(big.Int).Set(ai.Amount)
			}
		}
	}
	return new(big.Int)
}

// checkOffer is the soundness oracle on what the mempool offers right now (Reap with a huge cap).
func (e *env) checkOffer(t *rapid.T, when string) types.Txs {
	w := e.s.W
	offer := w.Mempool.Reap(1 << 30)
	seen := map[common.Hash]bool{}
	kis := map[lktypes.Key]common.Hash{}
	next := map[common.Address]uint64{}
	st := e.s.Committed()
	for _, tx := range offer {
		h := tx.Hash()
		if seen[h] {
			e.fail(t, "offer:duplicate-tx", "%s: transaction %s offered twice", when, h.Hex())
		}
		seen[h] = true
		if got, _ := w.BlockStore.GetTx(h); got != nil {
			e.fail(t, "offer:already-committed", "%s: offered transaction %s is already committed", when, h.Hex())
		}
		if u, ok := tx.(*types.UTXOTransaction); ok {
			for _, ki := range u.GetInputKeyImages() {
				if prev, dup := kis[*ki]; dup {
					e.fail(t, "offer:shared-key-image", "%s: transactions %s and %s share key image %x", when, prev.Hex(), h.Hex(), ki[:6])
				}
				kis[*ki] = h
				if w.UtxoStore.HaveTxKeyimgAsSpent(ki) {
					e.fail(t, "offer:spent-key-image", "%s: offered transaction %s spends key image %x that is spent on chain", when, h.Hex(), ki[:6])
				}
			}
		}
		if from, nonce, ok := senderOf(tx); ok {
			want, started := next[from]
			if !started {
				want = st.GetNonce(from)
			}
			if nonce != want {
				e.fail(t, "offer:nonce-sequence", "%s: sender %s: offered nonce %d where %d is next (committed nonce %d)", when, from.Hex()[:10], nonce, want, st.GetNonce(from))
			}
			next[from] = nonce + 1
		}
	}
	// the decisive end-to-end check: a block built from exactly the offer executes on the proposer path
	if len(offer) > 0 {
		blk := w.BlockOf(offer, world.GenesisTime+uint64(10*(w.Height()+1)), cfg.ContractFoundationAddr)
		var pan interface{}
		func() {
			defer func() { pan = recover() }()
			w.App.PreRunBlock(blk)
		}()
		if pan != nil {
			e.fail(t, "offer:block-does-not-execute", "%s: a block built from the %d offered transactions does not execute: %v", when, len(offer), pan)
		}
		// ... and it is a block the validator path of the same node accepts (what the proposer path does not look at -
		// signatures of special transactions against the signer set in force - is checked there)
		if cp, err := world.CopyBlock(blk); err == nil && !w.Check(cp) {
			var kinds []string
			for _, tx := range offer {
				kinds = append(kinds, tx.TypeName())
			}
			e.fail(t, "offer:block-rejected-by-validator-path", "%s: a block built from the %d offered transactions %v is rejected by CheckBlock of the node that offers them", when, len(offer), kinds)
		}
	}
	return offer
}

// signerInForce tells whether addr belongs to the node's committed upgrade signer set.
func (e *env) signerInForce(addr common.Address) bool {
	info := e.s.W.TxService.GetMultiSignersInfo(types.TxContractCreateType)
	if info == nil {
		return false
	}
	for _, s := range info.Signers {
		if s.Addr == addr {
			return true
		}
	}
	return false
}

// checkComplete is the completeness oracle (only while no size cap binds): every admitted transaction that is
// executable from the committed state — the consecutive run from the sender's committed nonce — is offered.
func (e *env) checkComplete(t *rapid.T, offer types.Txs, when string) {
	if e.capsBind {
		return
	}
	in := map[common.Hash]bool{}
	for _, tx := range offer {
		in[tx.Hash()] = true
	}
	st := e.s.Committed()
	for from, m := range e.accepted {
		bal := new(big.Int).Set(st.GetBalance(from))
		for n := st.GetNonce(from); ; n++ {
			tx, ok := m[n]
			if !ok {
				break
			}
			if up, isUp := tx.(*types.ContractUpgradeTx); isUp && !e.signerInForce(up.FromAddr) {
				break // signed under a signer set that was rotated away: invalidated, must not be offered
			}
			c := costOf(tx)
			if c.Cmp(bal) > 0 {
				break // not covered by the balance any more: legitimately not executable
			}
			bal.Sub(bal, c)
			if !in[tx.Hash()] {
				e.fail(t, "offer:executable-tx-not-promoted", "%s: sender %s: admitted transaction %s at nonce %d is executable (committed nonce %d, funds suffice) but is not offered", when, from.Hex()[:10], tx.Hash().Hex(), n, st.GetNonce(from))
			}
		}
	}
	for h := range e.pendingU {
		if !in[h] {
			e.fail(t, "offer:confidential-tx-lost", "%s: admitted confidential spend %s is neither offered nor invalidated", when, h.Hex())
		}
	}
}

// afterCommit updates the model with a committed block.
func (e *env) afterCommit(blk *types.Block) {
	st := e.s.Committed()
	spent := map[lktypes.Key]bool{}
	for _, tx := range blk.Data.Txs {
		if u, ok := tx.(*types.UTXOTransaction); ok {
			for _, ki := range u.GetInputKeyImages() {
				spent[*ki] = true
			}
		}
		delete(e.pendingU, tx.Hash())
	}
	for h, kis := range e.pendingU {
		for _, ki := range kis {
			if spent[ki] {
				delete(e.pendingU, h) // invalidated by a conflicting committed spend
				e.removed++
				break
			}
		}
	}
	for from, m := range e.accepted {
		cn := st.GetNonce(from)
		for n, tx := range m {
			if up, isUp := tx.(*types.ContractUpgradeTx); isUp && !e.signerInForce(up.FromAddr) {
				// the committed block rotated the signer set: the recheck drops what was signed under the old one
				delete(m, n)
				e.removed++
				continue
			}
			if n < cn {
				if got, _ := e.s.W.BlockStore.GetTx(tx.Hash()); got == nil {
					e.removed++ // a different transaction took this nonce: ours is invalidated
				}
				delete(m, n)
			}
		}
		// the post-commit recheck drops what the new committed balance no longer covers; everything queued behind
		// a dropped transaction waits for that nonce again
		bal := new(big.Int).Set(st.GetBalance(from))
		for n := cn; ; n++ {
			tx, ok := m[n]
			if !ok {
				break
			}
			c := costOf(tx)
			if c.Cmp(bal) > 0 {
				delete(m, n)
				e.removed++
				break
			}
			bal.Sub(bal, c)
		}
	}
}

func commitBoth(t *rapid.T, e *env, blk *types.Block, builtBy *chainsim.Sim) bool {
	for _, n := range []*chainsim.Sim{e.s, e.other} {
		cp := blk
		if n != builtBy {
			var err error
			if cp, err = world.CopyBlock(blk); err != nil {
				t.Fatalf("copy: %v", err)
			}
		}
		pre := n.Snapshot()
		if err := n.W.Commit(cp); err != nil {
			e.fail(t, "block-from-mempool-rejected", "node rejects a block built from a correct node's mempool offer: %v", err)
			return false
		}
		if err := n.AfterCommit(cp, nil, pre); err != nil {
			t.Fatalf("bookkeeping: %v", err)
		}
	}
	e.afterCommit(blk)
	return true
}

func runHistory(t *rapid.T, concurrent bool) {
	vstat.Eval()
	mc := world.DefaultMempoolConfig()
	e := &env{accepted: map[common.Address]map[uint64]types.Tx{}, pendingU: map[common.Hash][]lktypes.Key{}}
	switch rapid.IntRange(0, 3).Draw(t, "poolshape") {
	case 0: // tiny pools: caps bind, only soundness is demanded
		mc.Size = rapid.IntRange(1, 4).Draw(t, "size")
		mc.FutureSize = rapid.IntRange(1, 4).Draw(t, "futuresize")
		mc.UTXOSize = rapid.IntRange(1, 3).Draw(t, "utxosize")
		mc.MaxReapSize = rapid.IntRange(1, 6).Draw(t, "maxreap")
		mc.AccountQueue = rapid.IntRange(1, 2).Draw(t, "accountqueue")
		mc.RemoveFutureTx = rapid.Bool().Draw(t, "removefuture")
		e.capsBind = true
		vstat.Label("pool_tiny")
	case 1: // only the per-block quota of confidential transactions binds: the offer stops inside the executable list
		mc.UTXOSize = rapid.IntRange(1, 2).Draw(t, "utxosize")
		e.capsBind = true
		vstat.Label("pool_utxo_quota_binds")
	default:
		vstat.Label("pool_default")
	}
	// a third of the histories run with a short life time of pending transactions (mempool.GoodTxDropTime, 60 s by
	// default, is the node's knob): at a commit the pool drops what has been pending for longer.  Then a pending
	// transaction may disappear by design, so only soundness is demanded (like with binding caps).  The op "age" lets
	// that time pass; the clock steers the scenario only - the oracle (what is offered is gap-free from the committed
	// nonce, ...) holds on a correct pool whatever the timing.
	dropMode := rapid.IntRange(0, 2).Draw(t, "dropmode") == 0
	if dropMode {
		old := mempool.GoodTxDropTime
		mempool.GoodTxDropTime = 30 * time.Millisecond
		defer func() { mempool.GoodTxDropTime = old }()
		e.capsBind = true
		vstat.Label("pool_short_pending_lifetime")
	}
	e.s = chainsim.New(t, chainsim.Options{NumAccts: rapid.IntRange(2, 4).Draw(t, "naccts"), NumWallets: 2, AllRich: true, RealCache: true, MempoolCfg: mc, Wasm: true, MultiSign: true, Tokens: true})
	e.s.UnderpayRate = 4
	defer e.s.Close()
	// seed the confidential pool (one transaction per block: the generated pool may hold a single transaction),
	// then start the second node from the same state
	rich := e.s.Accts[0]
	for i := 0; i < 3; i++ {
		tot := chainsim.E(int64(500 + 100*i))
		fee := new(big.Int).Mul(new(big.Int).SetUint64(types.CalNewAmountGas(tot, types.EverLiankeFee)), world.GasPrice)
		tx, err := world.AccountToUTXO(rich, e.s.W.App.GetNonce(rich.Addr), new(big.Int).Add(tot, fee), []types.DestEntry{e.s.Wallets[i%2].Dest(0, tot)}, common.EmptyAddress, big.NewInt(0))
		if err != nil {
			t.Fatalf("seed a2u: %v", err)
		}
		if err := e.s.W.Submit(tx); err != nil {
			t.Fatalf("seed submit: %v", err)
		}
		blk := e.s.W.Propose(1000, world.GenesisTime+uint64(10*(e.s.W.Height()+1)), cfg.ContractFoundationAddr)
		pre := e.s.Snapshot()
		if err := e.s.W.Commit(blk); err != nil {
			t.Fatalf("seed commit: %v", err)
		}
		if err := e.s.AfterCommit(blk, nil, pre); err != nil {
			t.Fatalf("seed book: %v", err)
		}
	}
	ow, err := e.s.W.Replica()
	if err != nil {
		t.Fatalf("replica: %v", err)
	}
	o2 := *e.s
	o2.W = ow
	e.other = &o2
	defer ow.Close()

	nops := rapid.IntRange(3, 30).Draw(t, "nops")
	for i := 0; i < nops; i++ {
		op := rapid.SampledFrom([]string{"next", "next", "next", "future", "future", "dup", "stale", "underfunded", "lowfee-a2u", "a2u", "uspend", "uspend", "reap", "commit-own", "commit-own", "commit-other", "age", "upgrade", "upgrade", "rotate", "token-deposit", "token-spend", "token-spend"}).Draw(t, "op")
		w := e.s.W
		submit := func(tx types.Tx, desc string) error {
			err := w.Submit(tx)
			e.logf("%-12s %s => %v", op, desc, err)
			if err == nil {
				if from, nonce, ok := senderOf(tx); ok {
					if e.accepted[from] == nil {
						e.accepted[from] = map[uint64]types.Tx{}
					}
					e.accepted[from][nonce] = tx
				}
			}
			return err
		}
		switch op {
		case "age":
			// what is pending now grows older than the pool's life time; then the next transaction of some sender arrives,
			// younger than its predecessors
			if !dropMode {
				continue
			}
			time.Sleep(40 * time.Millisecond)
			from := e.s.Accts[rapid.IntRange(0, len(e.s.Accts)-1).Draw(t, "from")]
			n := w.App.GetNonce(from.Addr)
			if n > e.s.Committed().GetNonce(from.Addr) {
				vstat.Label("young_successor_of_aged_pending_tx")
			}
			submit(world.Transfer(from, n, rapid.SampledFrom(e.s.Recipients()).Draw(t, "to"), big.NewInt(int64(1+i))), fmt.Sprintf("after ageing: transfer from %s nonce %d", from.Addr.Hex()[:10], n))
		case "next":
			// amounts stay far below the balances (every account holds 1e6 ether): the mempool judges funds against its
			// speculative state, which debits senders but does not credit recipients before the commit, so with
			// balance-sized amounts "covered by its balance" would depend on that internal view; under-funding has its own op
			from := e.s.Accts[rapid.IntRange(0, len(e.s.Accts)-1).Draw(t, "from")]
			to := rapid.SampledFrom(e.s.Recipients()).Draw(t, "to")
			amt := new(big.Int).Mul(big.NewInt(int64(rapid.IntRange(0, 1000).Draw(t, "amt"))), big.NewInt(1e15))
			n := w.App.GetNonce(from.Addr)
			submit(world.Transfer(from, n, to, amt), fmt.Sprintf("transfer %s->%s %v nonce %d", from.Addr.Hex()[:10], to.Hex()[:10], amt, n))
		case "future":
			from := e.s.Accts[rapid.IntRange(0, len(e.s.Accts)-1).Draw(t, "from")]
			n := w.App.GetNonce(from.Addr) + uint64(rapid.IntRange(1, 3).Draw(t, "gap"))
			if e.accepted[from.Addr] != nil {
				if _, taken := e.accepted[from.Addr][n]; taken {
					continue
				}
			}
			tx := world.Transfer(from, n, e.s.Sinks()[0], big.NewInt(int64(rapid.IntRange(1, 1000).Draw(t, "amt"))))
			submit(tx, fmt.Sprintf("future nonce %d from %s", n, from.Addr.Hex()[:10]))
		case "dup":
			var hs []common.Hash
			for _, m := range e.accepted {
				for _, tx := range m {
					hs = append(hs, tx.Hash())
				}
			}
			if len(hs) == 0 {
				continue
			}
			sort.Slice(hs, func(a, b int) bool { return hs[a].Hex() < hs[b].Hex() })
			h := rapid.SampledFrom(hs).Draw(t, "duphash")
			if tx := w.Mempool.GetTxFromCache(h); tx != nil {
				if err := w.Submit(tx); err == nil {
					e.fail(t, "admission:duplicate-accepted", "the same transaction %s was admitted twice", h.Hex())
				} else {
					e.logf("%-12s %s => %v", op, h.Hex()[:12], err)
				}
			}
		case "stale":
			from := e.s.Accts[rapid.IntRange(0, len(e.s.Accts)-1).Draw(t, "from")]
			cn := e.s.Committed().GetNonce(from.Addr)
			if cn == 0 {
				continue
			}
			tx := world.Transfer(from, uint64(rapid.IntRange(0, int(cn)-1).Draw(t, "stalenonce")), e.s.Sinks()[1], big.NewInt(5))
			if err := submit(tx, "stale nonce"); err == nil {
				e.fail(t, "admission:stale-nonce-accepted", "a transaction below the committed nonce %d was admitted", cn)
			}
		case "underfunded":
			from := e.s.Accts[rapid.IntRange(0, len(e.s.Accts)-1).Draw(t, "from")]
			bal := w.App.GetPendingStateDB().GetBalance(from.Addr)
			tx := world.Transfer(from, w.App.GetNonce(from.Addr), e.s.Sinks()[0], new(big.Int).Add(bal, big.NewInt(1)))
			if err := submit(tx, "underfunded"); err == nil {
				delete(e.accepted[from.Addr], tx.Nonce())
				e.fail(t, "admission:underfunded-accepted", "a transfer of balance+1 was admitted")
			}
		case "lowfee-a2u":
			from := e.s.Accts[rapid.IntRange(0, len(e.s.Accts)-1).Draw(t, "from")]
			tot := chainsim.E(int64(rapid.IntRange(1, 50).Draw(t, "tot")))
			fee := new(big.Int).Mul(big.NewInt(int64(rapid.IntRange(0, 1000).Draw(t, "gas"))), world.GasPrice)
			tx, err := world.AccountToUTXO(from, w.App.GetNonce(from.Addr), new(big.Int).Add(tot, fee), []types.DestEntry{e.s.Wallets[0].Dest(0, tot)}, common.EmptyAddress, big.NewInt(0))
			if err == nil {
				submit(tx, "account->confidential with too low a fee")
			}
		case "token-deposit":
			// a non-native token enters the confidential pool: amount from the token balance, fee from the native one
			if g := e.s.GenTokenDeposit(t); g != nil {
				if submit(g.Tx, g.Desc) == nil {
					vstat.Label("token_deposit_admitted")
				}
			}
		case "token-spend":
			// a confidential token spend: a generated account signs it and pays the fee (it may not be able to)
			if g := e.s.GenTokenSpend(t); g != nil {
				if err := submit(g.Tx, g.Desc); err == nil {
					e.pendingU[g.Tx.Hash()] = g.KeyImages
					vstat.Label("token_spend_admitted")
				}
			}
		case "upgrade":
			// a contract upgrade signed by a member of the committed signer set (or, stale, by the genesis signer)
			if g := e.s.GenUpgradeBy(t); g != nil {
				if submit(g.Tx, g.Desc) == nil {
					vstat.Label("upgrade_admitted")
				}
			}
		case "rotate":
			// a validator-signed rotation of the upgrade signer set, submitted here
			if g := e.s.GenMultiSign(t); g != nil {
				if submit(g.Tx, g.Desc) == nil {
					vstat.Label("rotation_admitted")
				}
			}
		case "a2u":
			if g := e.s.GenA2U(t); g != nil {
				submit(g.Tx, g.Desc)
			}
		case "uspend":
			if g := e.s.GenUSpend(t, nil); g != nil {
				if g.Underpaid {
					vstat.Label("underpaying_spend_" + g.Kind)
				}
				if err := submit(g.Tx, g.Desc); err == nil {
					e.pendingU[g.Tx.Hash()] = g.KeyImages
					if g.Underpaid {
						e.fail(t, "admission:underpaying-confidential-spend-accepted", "a confidential spend paying less than the required fee was admitted: %s", g.Desc)
					}
				}
			}
		case "reap":
			n := rapid.IntRange(-1, 8).Draw(t, "reapn")
			got := w.Mempool.Reap(n)
			lim := n
			if lim < 0 {
				lim = 0
			}
			// the cap bounds the ordinary list; special and pure-confidential lists have their own caps
			ordinary := 0
			for _, tx := range got {
				if _, special := tx.(*types.MultiSignAccountTx); special {
					continue
				}
				if _, _, ok := senderOf(tx); ok {
					ordinary++
				}
			}
			if ordinary > lim {
				e.fail(t, "reap:cap-exceeded", "Reap(%d) returned %d ordinary transactions", n, ordinary)
			}
			e.logf("%-12s Reap(%d) -> %d txs", op, n, len(got))
			e.truncs++
		case "commit-own":
			maxTxs := rapid.IntRange(1, 12).Draw(t, "maxtxs")
			var blk *types.Block
			var pan interface{}
			func() {
				defer func() { pan = recover() }()
				blk = w.Propose(maxTxs, world.GenesisTime+uint64(10*(w.Height()+1)), cfg.ContractFoundationAddr)
			}()
			if pan != nil {
				e.fail(t, "offer:block-does-not-execute", "proposer path panicked on its own mempool's offer (maxTxs %d): %v", maxTxs, pan)
				return
			}
			e.logf("%-12s block %d with %d txs (maxTxs %d)", op, blk.Height, len(blk.Data.Txs), maxTxs)
			before := w.Mempool.GoodTxsSize()
			if !commitBoth(t, e, blk, e.s) {
				return
			}
			if w.Mempool.GoodTxsSize() > before-len(blk.Data.Txs) {
				e.promos++
			}
		case "commit-other":
			// the other node collects its own transactions from the same senders and proposes
			k := rapid.IntRange(1, 3).Draw(t, "otherntx")
			for j := 0; j < k; j++ {
				from := e.s.Accts[rapid.IntRange(0, len(e.s.Accts)-1).Draw(t, "ofrom")]
				amt := new(big.Int).Mul(big.NewInt(int64(rapid.IntRange(0, 1000).Draw(t, "oamt"))), big.NewInt(1e15))
				n := e.other.W.App.GetNonce(from.Addr)
				err := e.other.W.Submit(world.Transfer(from, n, e.s.Sinks()[j%2], amt))
				e.logf("%-12s other node: transfer from %s nonce %d => %v", op, from.Addr.Hex()[:10], n, err)
			}
			if rapid.IntRange(0, 2).Draw(t, "otherrotates") == 0 {
				// the signer set is rotated by a transaction this node never saw: what it holds pending was signed under the old set
				if g := e.other.GenMultiSign(t); g != nil {
					err := e.other.W.Submit(g.Tx)
					e.logf("%-12s other node: %s => %v", op, g.Desc, err)
					if err == nil {
						vstat.Label("rotation_committed_elsewhere")
					}
				}
			}
			if rapid.Bool().Draw(t, "otheruspend") {
				if g := e.other.GenUSpend(t, nil); g != nil {
					err := e.other.W.Submit(g.Tx)
					e.logf("%-12s other node: %s => %v", op, g.Desc, err)
				}
			}
			blk := e.other.W.Propose(1000, world.GenesisTime+uint64(10*(w.Height()+1)), cfg.ContractFoundationAddr)
			e.logf("%-12s block %d built elsewhere with %d txs", op, blk.Height, len(blk.Data.Txs))
			if !commitBoth(t, e, blk, e.other) {
				return
			}
		}
		if concurrent && rapid.IntRange(0, 3).Draw(t, "burst") == 0 {
			concurrentBurst(t, e)
		}
		offer := e.checkOffer(t, fmt.Sprintf("after op %d (%s)", i, op))
		e.checkComplete(t, offer, fmt.Sprintf("after op %d (%s)", i, op))
	}
	if e.promos > 0 {
		vstat.Label("has_promotion")
	}
	if e.removed > 0 {
		vstat.Label("has_recheck_removal")
	}
	if e.capsBind {
		vstat.Label("caps_bind")
	}
	if e.promos > 0 || e.removed > 0 || (e.capsBind && e.truncs > 0) {
		vstat.NonTrivial(strings.Join(e.hist, "|"))
		if vstat.WantSample() {
			vstat.Sample(map[string]interface{}{"history": e.hist, "caps_bind": e.capsBind})
		}
	}
}

// concurrentBurst submits pre-drawn transactions from several goroutines while a block commit runs, then
// quiesces.  Which interleaving happens is up to the scheduler (sampled, DESIGN.md section 5.4); the invariants are
// evaluated by the caller afterwards on the quiescent pool.
func concurrentBurst(t *rapid.T, e *env) {
	w := e.s.W
	type sub struct {
		tx   types.Tx
		desc string
	}
	var subs []sub
	// per sender a short consecutive run, so every interleaving is a legal submission history
	for ai, a := range e.s.Accts {
		base := w.App.GetNonce(a.Addr)
		k := rapid.IntRange(0, 3).Draw(t, fmt.Sprintf("burst%d", ai))
		for j := 0; j < k; j++ {
			n := base + uint64(j)
			if e.accepted[a.Addr] != nil {
				if _, taken := e.accepted[a.Addr][n]; taken {
					break
				}
			}
			subs = append(subs, sub{world.Transfer(a, n, e.s.Sinks()[j%2], big.NewInt(int64(10+j))), fmt.Sprintf("burst %s nonce %d", a.Addr.Hex()[:10], n)})
		}
	}
	if len(subs) == 0 {
		return
	}
	blk := w.Propose(2, world.GenesisTime+uint64(10*(w.Height()+1)), cfg.ContractFoundationAddr)
	var wg sync.WaitGroup
	errs := make([]error, len(subs))
	workers := rapid.IntRange(2, 6).Draw(t, "workers")
	for g := 0; g < workers; g++ {
		wg.Add(1)
		go func(g int) {
			defer wg.Done()
			for i := g; i < len(subs); i += workers {
				errs[i] = w.Submit(subs[i].tx)
			}
		}(g)
	}
	ok := commitBoth(t, e, blk, e.s)
	wg.Wait()
	for i, s := range subs {
		e.logf("concurrent   %s => %v", s.desc, errs[i])
		if errs[i] == nil {
			if from, nonce, okk := senderOf(s.tx); okk {
				if e.accepted[from] == nil {
					e.accepted[from] = map[uint64]types.Tx{}
				}
				e.accepted[from][nonce] = s.tx
			}
		}
	}
	// submissions raced with the commit: which of them were admitted is schedule dependent, so completeness is
	// not demanded for this history any more; soundness still is.
	e.capsBind = true
	vstat.Label("concurrent_burst")
	_ = ok
}

func TestMempoolHistory(t *testing.T) {
	rapid.Check(t, func(t *rapid.T) { runHistory(t, false) })
}

func TestMempoolConcurrent(t *testing.T) {
	rapid.Check(t, func(t *rapid.T) { runHistory(t, true) })
}

// TestRegressionRejectedTxLeavesNoTrace replays, without any library, the shrunk history of the fixed finding
// mempool:rejected-utxo-tx-mutates-speculative-state.
func TestRegressionRejectedTxLeavesNoTrace(t *testing.T) {
	for _, isTrie := range []bool{true, false} {
		vstat.Eval()
		a := world.DetAcct(100)
		w, err := world.New(&world.Spec{IsTrie: isTrie, Accounts: []world.GenesisAccount{{Addr: a.Addr, Balance: chainsim.E(1000000)}}})
		if err != nil {
			t.Fatal(err)
		}
		wal := world.NewWallet(1, 0)
		tot := chainsim.E(500000)
		lowFee := new(big.Int).Mul(big.NewInt(2500), world.GasPrice) // far below the required transfer fee
		tx, err := world.AccountToUTXO(a, 0, new(big.Int).Add(tot, lowFee), []types.DestEntry{wal.Dest(0, tot)}, common.EmptyAddress, big.NewInt(0))
		if err != nil {
			t.Fatal(err)
		}
		if err := w.Submit(tx); err == nil {
			t.Fatalf("low-fee tx admitted")
		}
		next := w.App.GetNonce(a.Addr)
		err2 := w.Submit(world.Transfer(a, next, world.DetAcct(101).Addr, big.NewInt(1)))
		offer := w.Mempool.Reap(100)
		vstat.NonTrivial(fmt.Sprintf("regression isTrie=%v", isTrie))
		for _, otx := range offer {
			if from, nonce, ok := senderOf(otx); ok && nonce != w.App.GetLatestStateDB().GetNonce(from) {
				vstat.Violation(t, P, "mempool:rejected-utxo-tx-mutates-speculative-state", "after a rejected low-fee account->confidential tx at nonce 0 the pool admits (%v) and offers a transfer at nonce %d while the committed nonce is %d", err2, nonce, w.App.GetLatestStateDB().GetNonce(from))
			}
		}
		var pan interface{}
		func() {
			defer func() { pan = recover() }()
			w.Propose(100, world.GenesisTime+10, cfg.ContractFoundationAddr)
		}()
		if pan != nil {
			vstat.Violation(t, P, "mempool:rejected-utxo-tx-mutates-speculative-state", "proposer panics on the pool's offer: %v", pan)
		}
		w.Close()
	}
}
