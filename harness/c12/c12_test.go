// C12 — block identity commits to its content; part sets reassemble only the original.
//
// Three generators share one block generator (genBlock):
//
//	TestBlockIdentity     single-field perturbations of a block as a peer would receive it (part A)
//	TestPartSetAssembly   a receiver's PartSet fed genuine, duplicated and forged parts in any order (part B)
//	TestStoreRoundTrip    SaveBlock / LoadBlock / LoadBlockPart / LoadBlockMeta / commits (part C)
//
// Blocks are built directly as types.Block values: every header field populated, transactions of
// every kind the chain registers (plain, with payload, contract creation, token, multi-sign,
// account->confidential), evidence made from really signed votes, a LastCommit of really signed
// precommits of a small ed25519 validator set.  No node runs.
//
// Block, Data, Commit, EvidenceData and every Tx memoise their hashes.  A perturbation is therefore
// always applied to a freshly decoded copy, and the perturbed block is re-encoded and decoded once
// more before it is observed: "the perturbed block" is defined by its wire bytes, which is the only
// thing a peer can hand to a node.
package c12

import (
	"bytes"
	"encoding/binary"
	"fmt"
	"io"
	"math/big"
	"reflect"
	"sort"
	"strings"
	"sync"
	"testing"
	"time"

	bc "github.com/lianxiangcloud/linkchain/blockchain"
	"github.com/lianxiangcloud/linkchain/libs/common"
	"github.com/lianxiangcloud/linkchain/libs/crypto"
	dbm "github.com/lianxiangcloud/linkchain/libs/db"
	"github.com/lianxiangcloud/linkchain/libs/log"
	"github.com/lianxiangcloud/linkchain/libs/ser"
	"github.com/lianxiangcloud/linkchain/types"
	"pgregory.net/rapid"

	"verifharness/vstat"
	"verifharness/world"
)

const P = "C12"

// keyNegIdx: PartSet.AddPart indexes ps.parts[part.Index] before any sign check, so a part with a
// negative index panics (index out of range) instead of being refused.  Nothing is accepted and the
// set is unchanged (the mutex is released by a deferred Unlock), so the C12 text — which constrains
// WHAT is accepted and reassembled — is not violated; the crash is a C16 matter ("no message from a
// single peer halts consensus").  This check therefore treats "panicked" like "refused" for negative
// indices only, labels it, and verifies that the set is unchanged afterwards.  Should the finding be
// listed under C12 after all, the shape is excluded from the generator and counted (vstat.Excluded).
const keyNegIdx = "partset:addpart-negative-index-panics"

func TestMain(m *testing.M) {
	log.Root().SetHandler(log.DiscardHandler())
	world.Init()
	vstat.Main(m)
}

// ---------------------------------------------------------------- fixed key material

const nValKeys = 10

// valKeys: real ed25519 validator keys from fixed secrets, so cases replay.
var valKeys = func() []crypto.PrivKeyEd25519 {
	ks := make([]crypto.PrivKeyEd25519, nValKeys)
	for i := range ks {
		ks[i] = crypto.GenPrivKeyEd25519FromSecret([]byte(fmt.Sprintf("c12-validator-key-%d", i)))
	}
	return ks
}()

var baseTime = time.Unix(1600000000, 0).UTC()

// src derives bulk "random" material (hashes, addresses, payloads) from one rapid-drawn seed, so a
// block costs a handful of draws instead of hundreds; everything structural is drawn explicitly.
type src struct{ seed uint64 }

func (s src) bytes(tag string, n int) []byte {
	var out []byte
	var b [8]byte
	binary.BigEndian.PutUint64(b[:], s.seed)
	for ctr := 0; len(out) < n; ctr++ {
		out = append(out, crypto.Keccak256(b[:], []byte(tag), []byte{byte(ctr)})...)
	}
	return out[:n]
}
func (s src) hash(tag string) common.Hash    { return common.BytesToHash(s.bytes(tag, 32)) }
func (s src) addr(tag string) common.Address { return common.BytesToAddress(s.bytes(tag, 20)) }
func (s src) u64(tag string) uint64          { return binary.BigEndian.Uint64(s.bytes(tag, 8)) }

// ---------------------------------------------------------------- confidential transactions

// Account->confidential transactions are expensive to build (range proofs) and the crypto substitute
// draws its nonces from its own DRBG, so a small pool is built once, in a fixed order, and kept as
// wire bytes; every use decodes a fresh object.
var (
	utxoOnce sync.Once
	utxoPool [][]byte
)

func utxoTxs() [][]byte {
	utxoOnce.Do(func() {
		wallets := []*world.Wallet{world.NewWallet(1, 2), world.NewWallet(2, 2)}
		for i := 0; i < 6; i++ {
			from := world.DetAcct(uint64(100 + i))
			nd := 1 + i%3
			var dests []types.DestEntry
			total := new(big.Int)
			for d := 0; d < nd; d++ {
				amt := new(big.Int).Mul(world.UTXOUnit, big.NewInt(int64(1000*(i+1)+d)))
				dests = append(dests, wallets[(i+d)%2].Dest(uint64((i+d)%3), amt))
				total.Add(total, amt)
			}
			// native coin only: a token transaction needs the node's commitment-rate getter
			fee := new(big.Int).Mul(new(big.Int).SetUint64(types.CalNewAmountGas(total, types.EverLiankeFee)), world.GasPrice)
			tx, err := world.AccountToUTXO(from, uint64(i), new(big.Int).Add(total, fee), dests, common.EmptyAddress, big.NewInt(0))
			if err != nil {
				panic(fmt.Sprintf("building confidential tx %d: %v", i, err))
			}
			bz, err := ser.EncodeToBytesWithType(types.Tx(tx))
			if err != nil {
				panic(err)
			}
			utxoPool = append(utxoPool, bz)
		}
	})
	return utxoPool
}

func decodeTx(bz []byte) (types.Tx, error) {
	var tx types.Tx
	err := ser.DecodeBytesWithType(bz, &tx)
	return tx, err
}

func encodeTx(tx types.Tx) []byte {
	bz, err := ser.EncodeToBytesWithType(tx)
	if err != nil {
		panic(err)
	}
	return bz
}

// ---------------------------------------------------------------- block generator

var initCode = common.FromHex("6005600c60003960056000f360006000fd") // deploys "always REVERT"

func genTx(t *rapid.T, s src, i int, small bool) (types.Tx, string) {
	kinds := []string{"plain", "plain", "payload", "create", "token", "multisign", "utxo", "utxo"}
	if small {
		kinds = kinds[:6]
	}
	kind := rapid.SampledFrom(kinds).Draw(t, fmt.Sprintf("tx%d_kind", i))
	tag := fmt.Sprintf("tx%d", i)
	from := world.DetAcct(uint64(rapid.IntRange(0, 3).Draw(t, tag+"_from")))
	nonce := uint64(rapid.IntRange(0, 40).Draw(t, tag+"_nonce"))
	to := s.addr(tag + "to")
	amt := new(big.Int).Mul(new(big.Int).SetUint64(s.u64(tag+"amt")>>uint(rapid.IntRange(0, 63).Draw(t, tag+"_shift"))), big.NewInt(1e6))
	switch kind {
	case "plain":
		return world.Transfer(from, nonce, to, amt), kind
	case "payload":
		n := rapid.IntRange(1, 200).Draw(t, tag+"_plen")
		return world.RawTx(from, nonce, &to, amt, 900000+uint64(n), world.GasPrice, s.bytes(tag+"payload", n)), kind
	case "create":
		return world.RawTx(from, nonce, nil, amt, 2000000, world.GasPrice, initCode), kind
	case "token":
		return world.TokenTransfer(from, s.addr(tag+"token"), nonce, to, amt), kind
	case "multisign":
		ns := rapid.IntRange(1, 3).Draw(t, tag+"_nsig")
		main := &types.MultiSignMainInfo{AccountNonce: nonce, SupportTxType: types.TxUpdateValidatorsType,
			SignersInfo: types.SignersInfo{MinSignerPower: 20, Signers: []*types.SignerEntry{{Power: 10, Addr: to}, {Power: 10, Addr: from.Addr}}}}
		msg, err := types.GenMultiSignBytes(*main)
		if err != nil {
			panic(err)
		}
		var sigs []types.ValidatorSign
		for k := 0; k < ns; k++ {
			sg, _ := valKeys[k].Sign(msg)
			sigs = append(sigs, types.ValidatorSign{Addr: valKeys[k].PubKey().Address(), Signature: sg.Bytes()})
		}
		return types.NewMultiSignAccountTx(main, sigs), kind
	default:
		pool := utxoTxs()
		tx, err := decodeTx(pool[rapid.IntRange(0, len(pool)-1).Draw(t, tag+"_pool")])
		if err != nil {
			panic(err)
		}
		return tx, "utxo"
	}
}

func signVote(chain string, key crypto.PrivKeyEd25519, v *types.Vote) *types.Vote {
	sig, err := key.Sign(v.SignBytes(chain))
	if err != nil {
		panic(err)
	}
	v.Signature = sig
	return v
}

// genCommit builds a commit for (height, id) of n validators: every slot is a precommit for the
// block, a precommit for nil, or absent (nil pointer); at least one slot votes for the block.
func genCommit(t *rapid.T, tag, chain string, height uint64, id types.BlockID, n int) *types.Commit {
	round := rapid.IntRange(0, 3).Draw(t, tag+"_round")
	c := &types.Commit{BlockID: id}
	any := false
	for i := 0; i < n; i++ {
		k := rapid.SampledFrom([]string{"for", "for", "for", "for", "absent", "nilblock"}).Draw(t, fmt.Sprintf("%s_slot%d", tag, i))
		if i == n-1 && !any {
			k = "for"
		}
		if k == "absent" {
			c.Precommits = append(c.Precommits, nil)
			continue
		}
		v := &types.Vote{ValidatorAddress: valKeys[i].PubKey().Address(), ValidatorIndex: i, ValidatorSize: n, Height: height, Round: round,
			Timestamp: baseTime.Add(time.Duration(height)*time.Second + time.Duration(i*7)*time.Millisecond), Type: types.VoteTypePrecommit}
		if k == "for" {
			v.BlockID = id
			any = true
		}
		c.Precommits = append(c.Precommits, signVote(chain, valKeys[i], v))
	}
	return c
}

func genEvidence(t *rapid.T, s src, tag, chain string, height uint64) types.Evidence {
	if rapid.IntRange(0, 1).Draw(t, tag+"_kind") == 0 {
		k := rapid.IntRange(0, nValKeys-1).Draw(t, tag+"_val")
		h := height - uint64(rapid.IntRange(0, 1).Draw(t, tag+"_back"))
		typ := rapid.SampledFrom([]byte{types.VoteTypePrevote, types.VoteTypePrecommit}).Draw(t, tag+"_type")
		mk := func(x string) *types.Vote {
			return signVote(chain, valKeys[k], &types.Vote{ValidatorAddress: valKeys[k].PubKey().Address(), ValidatorIndex: k, ValidatorSize: nValKeys,
				Height: h, Round: 1, Timestamp: baseTime.Add(time.Duration(h) * time.Second), Type: typ,
				BlockID: types.BlockID{Hash: s.hash(tag + x), PartsHeader: types.PartSetHeader{Total: 3, Hash: s.bytes(tag+x+"p", 32)}}})
		}
		return &types.DuplicateVoteEvidence{PubKey: valKeys[k].PubKey(), VoteA: mk("a"), VoteB: mk("b")}
	}
	return &types.FaultValidatorsEvidence{BlockHeight: height, Round: rapid.IntRange(0, 3).Draw(t, tag+"_round"),
		Proposer: valKeys[rapid.IntRange(0, nValKeys-1).Draw(t, tag+"_prop")].PubKey(),
		FaultVal: valKeys[rapid.IntRange(0, nValKeys-1).Draw(t, tag+"_fault")].PubKey()}
}

// built is a generated block as its proposer holds it.  blk is never mutated and never observed
// again after construction; every observation is made on decode(bz).
type built struct {
	blk   *types.Block
	bz    []byte
	hash  common.Hash
	chain string
	nvals int
	shape string
}

// genBlock draws a block.  small keeps the encoding short (no confidential transactions, few
// validators) so that 1-byte parts stay affordable.  height == 0 draws the height.
func genBlock(t *rapid.T, tag string, small bool, height uint64) *built {
	s := src{rapid.Uint64().Draw(t, tag+"_seed")}
	chain := rapid.SampledFrom([]string{"verif-chain", "c", "chain-with-a-rather-long-identifier-0123456789", ""}).Draw(t, tag+"_chain")
	if height == 0 {
		switch rapid.IntRange(0, 9).Draw(t, tag+"_hclass") {
		case 0:
			height = types.BlockHeightOne
		case 1:
			height = 1<<63 + s.u64("h")>>2
		default:
			height = types.BlockHeightOne + 1 + uint64(rapid.IntRange(0, 100000).Draw(t, tag+"_h"))
		}
	}
	maxTx, maxVal, maxEv := 6, 7, 3
	if small {
		maxTx, maxVal, maxEv = 2, 2, 1
	}
	ntx := rapid.IntRange(0, maxTx).Draw(t, tag+"_ntx")
	var txs types.Txs
	var kinds []string
	for i := 0; i < ntx; i++ {
		tx, k := genTx(t, s, i, small)
		txs = append(txs, tx)
		kinds = append(kinds, k)
	}
	nvals := rapid.IntRange(1, maxVal).Draw(t, tag+"_nvals")
	lastID := types.BlockID{Hash: s.hash("last"), PartsHeader: types.PartSetHeader{Total: rapid.IntRange(1, 40).Draw(t, tag+"_lastparts"), Hash: s.bytes("lastparts", 32)}}
	var lastCommit *types.Commit
	if height == types.BlockHeightOne {
		lastCommit = &types.Commit{} // "Commit is empty for height 1, but never nil"
		nvals = 0
	} else {
		lastCommit = genCommit(t, tag+"_lc", chain, height-1, lastID, nvals)
	}
	var evs types.EvidenceList
	for i, n := 0, rapid.IntRange(0, maxEv).Draw(t, tag+"_nev"); i < n; i++ {
		evs = append(evs, genEvidence(t, s, fmt.Sprintf("%s_ev%d", tag, i), chain, height-1))
	}
	var vals []*types.Validator
	for i := 0; i < nvals; i++ {
		vals = append(vals, types.NewValidator(valKeys[i].PubKey(), s.addr(fmt.Sprintf("cb%d", i)), int64(i+1)))
	}
	gasLimit := s.u64("gaslimit") >> 20
	recoverN := uint32(0)
	if rapid.IntRange(0, 3).Draw(t, tag+"_recover") == 0 {
		recoverN = uint32(rapid.IntRange(1, 3).Draw(t, tag+"_recoverN"))
	}
	h := &types.Header{
		ChainID: chain, Height: height, Coinbase: s.addr("coinbase"), Time: uint64(baseTime.Unix()) + height, NumTxs: uint64(len(txs)),
		TotalTxs: uint64(len(txs)) + uint64(rapid.IntRange(0, 1000000).Draw(t, tag+"_totaltxs")), Recover: recoverN,
		ParentHash: lastID.Hash, LastBlockID: lastID,
		ValidatorsHash: common.BytesToHash(types.NewValidatorSet(vals).Hash()), ConsensusHash: s.hash("consensus"),
		StateHash: s.hash("state"), ReceiptHash: s.hash("receipts"), GasLimit: gasLimit, GasUsed: gasLimit / 3,
	}
	// a few fields at their zero value now and then: the field hasher special-cases empty values
	switch rapid.IntRange(0, 11).Draw(t, tag+"_zero") {
	case 0:
		h.Time = 0
	case 1:
		h.GasLimit, h.GasUsed = 0, 0
	case 2:
		h.StateHash, h.ReceiptHash = common.EmptyHash, common.EmptyHash
	case 3:
		h.Coinbase = common.EmptyAddress
	case 4:
		h.TotalTxs = h.NumTxs
	}
	blk := &types.Block{Header: h, Data: &types.Data{Txs: txs}, LastCommit: lastCommit}
	blk.Evidence.Evidence = evs
	h.DataHash = blk.Data.Hash()
	h.LastCommitHash = blk.LastCommit.Hash()
	h.EvidenceHash = blk.Evidence.Hash()
	bz, err := ser.EncodeToBytes(blk)
	if err != nil {
		t.Fatalf("harness: generated block does not encode: %v", err)
	}
	b := &built{blk: blk, bz: bz, chain: chain, nvals: nvals,
		shape: fmt.Sprintf("h%d txs[%s] ev%d vals%d len%d", height, strings.Join(kinds, ","), len(evs), nvals, len(bz))}
	// The generated block must be a block a proposer could send: it survives the wire unchanged and is
	// internally consistent.  (A failure here is a generator error or a codec matter, not a C12 case.)
	f := b.fresh(t)
	b.hash = f.Hash()
	if err := f.ValidateBasic(); err != nil {
		t.Fatalf("harness: generated block fails ValidateBasic after decode: %v (%s)", err, b.shape)
	}
	if bz2 := encodeBlock(t, b.fresh(t)); !bytes.Equal(bz2, bz) {
		t.Fatalf("harness: generated block does not re-encode to the same bytes (%s)", b.shape)
	}
	if blk.Hash() != b.hash {
		t.Fatalf("harness: decoded block hash %x != built block hash %x (%s)", b.hash, blk.Hash(), b.shape)
	}
	for _, k := range kinds {
		vstat.Label("tx:" + k)
	}
	return b
}

func decodeBlock(bz []byte) (*types.Block, error) {
	var nb *types.Block
	if err := ser.DecodeBytes(bz, &nb); err != nil {
		return nil, err
	}
	if nb == nil || nb.Header == nil || nb.Data == nil || nb.LastCommit == nil {
		return nil, fmt.Errorf("decoded block lacks header/data/last commit")
	}
	return nb, nil
}

func encodeBlock(t *rapid.T, b *types.Block) []byte {
	bz, err := ser.EncodeToBytes(b)
	if err != nil {
		t.Fatalf("harness: block does not encode: %v", err)
	}
	return bz
}

// fresh returns the block as a peer receives it: decoded from the wire, all caches cold.
func (b *built) fresh(t *rapid.T) *types.Block {
	nb, err := decodeBlock(b.bz)
	if err != nil {
		t.Fatalf("harness: generated block does not decode: %v (%s)", err, b.shape)
	}
	if rapid.IntRange(0, 2).Draw(t, "usedbefore") == 0 {
		// the object has been looked at before it is changed (its size was logged, it was split into parts once): what it
		// answers afterwards must follow its content, not what it answered first
		nb.Size()
		nb.MakePartSet(rapid.SampledFrom([]int{16, 64, 4096}).Draw(t, "usedbefore_ps"))
		vstat.Label("object_serialised_once_before_the_change")
	}
	return nb
}

// ---------------------------------------------------------------- reflection-driven perturbation

var timeType = reflect.TypeOf(time.Time{})

// perturb changes the value v (settable) into a different value of the same type and describes what
// it did.  It walks into structs, pointers and interfaces, so that a field added to Header, Vote or
// an evidence type is covered without touching this file; a kind it cannot handle is a harness error.
func perturb(t *rapid.T, v reflect.Value, path, label string) (string, error) {
	if v.Type() == timeType {
		d := rapid.SampledFrom([]time.Duration{time.Millisecond, time.Second, -time.Second, 24 * time.Hour}).Draw(t, label+"_dt")
		v.Set(reflect.ValueOf(v.Interface().(time.Time).Add(d)))
		return fmt.Sprintf("%s+=%v", path, d), nil
	}
	switch v.Kind() {
	case reflect.String:
		s := v.String()
		ops := []string{"append"}
		if len(s) > 0 {
			ops = append(ops, "droplast", "change", "clear")
		}
		switch op := rapid.SampledFrom(ops).Draw(t, label+"_sop"); op {
		case "append":
			v.SetString(s + string(rune('a'+rapid.IntRange(0, 25).Draw(t, label+"_ch"))))
		case "droplast":
			v.SetString(s[:len(s)-1])
		case "clear":
			v.SetString("")
		default:
			i := rapid.IntRange(0, len(s)-1).Draw(t, label+"_pos")
			b := []byte(s)
			b[i] ^= 1
			v.SetString(string(b))
		}
		return fmt.Sprintf("%s:string %q->%q", path, s, v.String()), nil
	case reflect.Uint, reflect.Uint8, reflect.Uint16, reflect.Uint32, reflect.Uint64:
		old := v.Uint()
		bits := v.Type().Bits()
		nv := old
		switch rapid.SampledFrom([]string{"inc", "dec", "bit", "zero"}).Draw(t, label+"_uop") {
		case "inc":
			nv = old + 1
		case "dec":
			nv = old - 1
		case "bit":
			nv = old ^ (1 << uint(rapid.IntRange(0, bits-1).Draw(t, label+"_bit")))
		default:
			if old != 0 {
				nv = 0
			} else {
				nv = 1
			}
		}
		if bits < 64 {
			nv &= 1<<uint(bits) - 1
		}
		if nv == old {
			nv = old ^ 1
		}
		v.SetUint(nv)
		return fmt.Sprintf("%s:uint %d->%d", path, old, nv), nil
	case reflect.Int, reflect.Int8, reflect.Int16, reflect.Int32, reflect.Int64:
		old := v.Int()
		nv := old
		switch rapid.SampledFrom([]string{"inc", "dec", "zero"}).Draw(t, label+"_iop") {
		case "inc":
			nv = old + 1
		case "dec":
			if old > 0 { // negative counts, rounds and totals do not survive the wire as such
				nv = old - 1
			} else {
				nv = old + 2
			}
		default:
			if old != 0 {
				nv = 0
			} else {
				nv = 1
			}
		}
		v.SetInt(nv)
		return fmt.Sprintf("%s:int %d->%d", path, old, nv), nil
	case reflect.Bool:
		v.SetBool(!v.Bool())
		return path + ":bool flipped", nil
	case reflect.Array:
		if v.Type().Elem().Kind() != reflect.Uint8 || v.Len() == 0 {
			return "", fmt.Errorf("%s: array of %v not supported", path, v.Type().Elem())
		}
		i := rapid.IntRange(0, v.Len()-1).Draw(t, label+"_pos")
		bit := uint(rapid.IntRange(0, 7).Draw(t, label+"_bit"))
		e := v.Index(i)
		e.SetUint(e.Uint() ^ (1 << bit))
		return fmt.Sprintf("%s[%d]^=%#x", path, i, 1<<bit), nil
	case reflect.Slice:
		if v.Type().Elem().Kind() != reflect.Uint8 {
			return "", fmt.Errorf("%s: slice of %v not supported", path, v.Type().Elem())
		}
		old := append([]byte(nil), v.Bytes()...)
		ops := []string{"append"}
		if len(old) > 0 {
			ops = append(ops, "flip", "flip", "truncate", "clear")
		}
		var nb []byte
		op := rapid.SampledFrom(ops).Draw(t, label+"_bop")
		switch op {
		case "append":
			nb = append(old, byte(rapid.IntRange(0, 255).Draw(t, label+"_byte")))
		case "truncate":
			nb = old[:len(old)-1]
		case "clear":
			nb = nil
		default:
			i := rapid.IntRange(0, len(old)-1).Draw(t, label+"_pos")
			nb = old
			nb[i] ^= 1 << uint(rapid.IntRange(0, 7).Draw(t, label+"_bit"))
		}
		v.Set(reflect.ValueOf(nb).Convert(v.Type()))
		return fmt.Sprintf("%s:bytes %s (len %d->%d)", path, op, len(old), len(nb)), nil
	case reflect.Struct:
		var idx []int
		for i := 0; i < v.NumField(); i++ {
			if v.Type().Field(i).PkgPath == "" { // exported
				idx = append(idx, i)
			}
		}
		if len(idx) == 0 {
			return "", fmt.Errorf("%s: struct %v has no exported field", path, v.Type())
		}
		i := idx[rapid.IntRange(0, len(idx)-1).Draw(t, label+"_field")]
		return perturb(t, v.Field(i), path+"."+v.Type().Field(i).Name, label+"_"+v.Type().Field(i).Name)
	case reflect.Ptr:
		if v.IsNil() {
			return "", fmt.Errorf("%s: nil pointer", path)
		}
		return perturb(t, v.Elem(), path, label)
	case reflect.Interface:
		if v.IsNil() {
			return "", fmt.Errorf("%s: nil interface", path)
		}
		// the dynamic value is not addressable: perturb a copy and store it back
		c := reflect.New(v.Elem().Type()).Elem()
		c.Set(v.Elem())
		if c.Kind() == reflect.Ptr { // pointer-typed implementations: deep-copy the pointee first
			if c.IsNil() {
				return "", fmt.Errorf("%s: nil pointer in interface", path)
			}
			n := reflect.New(c.Type().Elem())
			n.Elem().Set(c.Elem())
			c = n
		}
		d, err := perturb(t, c, path, label)
		if err != nil {
			return "", err
		}
		v.Set(c)
		return d, nil
	}
	return "", fmt.Errorf("%s: kind %v not supported", path, v.Kind())
}

// ---------------------------------------------------------------- part A: block identity

// How each field of types.Header is committed.  The table is written from reading the unchanged
// tree (types/block.go Header.Hash, the ser encoding of Block, the callers), and the enumeration in
// headerFields() is by reflection, so a field that is not in the table is not skipped: an unknown
// exported field is treated like "hash" (it must change Block.Hash()), an unknown unexported field
// fails the census.
//
//	"hash"   the field is consensus-relevant and named in Header.Hash: a change must change
//	         Block.Hash() itself, not only the part-set hash.  The stricter reading is deliberate:
//	         consensus recognises the block it already holds by hash alone (state.go enterPrecommit /
//	         enterCommit / tryFinalizeCommit use HashesTo(blockID.Hash)) and only finalizeCommit
//	         asserts the parts header (PanicSanity), chains link by hash alone (ParentHash), and the
//	         property's mechanism is "header hash = Merkle map over named field hashes".  A field
//	         that only the part-set hash covers would let a proposer hand one validator an equal-hash
//	         variant of the block the others vote for.
//	"parts"  Recover: deliberately not in Header.Hash.  It IS consensus-relevant (it selects the
//	         validator set that verifies the commit in fast sync, skips the ValidatorsHash check in
//	         validateBlock and switches the candidate list in app.CommitBlock), and the property text
//	         covers it — through its second disjunct: the field is part of the serialised block, so the
//	         part-set hash, which every vote signs next to the block hash (CanonicalBlockID), commits
//	         to it; in consensus the equal-hash variant is additionally stopped because
//	         addProposalBlockPart drops a block whose Recover differs from the node's own counter.
//	         The check therefore demands a changed part-set header for it, and only records whether
//	         the block hash moved too.
//	"local"  bloom: unexported, not serialised, not hashed; filled locally from the execution result
//	         (BlockStore.LoadBlock/LoadBlockMeta set it from TxsResult).  No peer can send it, so there
//	         is nothing to perturb.
var headerClass = map[string]string{
	"ChainID": "hash", "Height": "hash", "Coinbase": "hash", "Time": "hash", "NumTxs": "hash", "TotalTxs": "hash",
	"Recover":    "parts",
	"ParentHash": "hash", "LastBlockID": "hash", "LastCommitHash": "hash", "ValidatorsHash": "hash", "ConsensusHash": "hash",
	"DataHash": "hash", "StateHash": "hash", "ReceiptHash": "hash", "GasLimit": "hash", "GasUsed": "hash", "EvidenceHash": "hash",
	"bloom": "local",
}

// obviousHashes: header fields whose perturbation is caught by the most basic comparison.
var obviousHashes = map[string]bool{"DataHash": true, "EvidenceHash": true, "LastCommitHash": true}

type hfield struct {
	name  string
	index int
	class string
}

func headerFields(t interface {
	Fatalf(string, ...interface{})
}) []hfield {
	var out []hfield
	ht := reflect.TypeOf(types.Header{})
	for i := 0; i < ht.NumField(); i++ {
		f := ht.Field(i)
		cl, known := headerClass[f.Name]
		if f.PkgPath != "" { // unexported
			if !known || cl != "local" {
				t.Fatalf("harness: types.Header has an unexported field %q that the C12 check has not examined; decide whether it is consensus-relevant and classify it in headerClass", f.Name)
			}
			continue
		}
		if !known {
			cl = "hash"
		}
		if cl == "local" {
			t.Fatalf("harness: exported header field %q is classified local", f.Name)
		}
		out = append(out, hfield{f.Name, i, cl})
	}
	return out
}

// observed is what a node sees of a block that arrived as wire bytes.
type observed struct {
	blk   *types.Block
	bz    []byte
	hash  common.Hash
	parts types.PartSetHeader
}

// observe re-encodes a mutated block, decodes it once more (cold caches: the block as any peer
// would hold it) and takes hash and part-set header.  ok == false: the mutated object does not
// survive the wire (not an input a peer can produce).
func observe(t *rapid.T, mutated *types.Block, partSize int) (o observed, ok bool, why string) {
	bz, err := ser.EncodeToBytes(mutated)
	if err != nil {
		return o, false, "encode: " + err.Error()
	}
	nb, err := decodeBlock(bz)
	if err != nil {
		return o, false, "decode: " + err.Error()
	}
	o = observed{blk: nb, bz: bz, hash: nb.Hash(), parts: nb.MakePartSet(partSize).Header()}
	// the proposer's side: the parts made from the object itself are the parts of the bytes it encodes to now
	// (whatever the object was asked before it was changed)
	if own := mutated.MakePartSet(partSize).Header(); !own.Equals(o.parts) {
		vstat.Violation(t, P, "partset:parts-of-the-object-are-not-those-of-its-content", "Block.MakePartSet(%d) of a block object gives header %v, the bytes the object encodes to give %v: the parts gossiped under the proposal do not reassemble into the block the proposer holds", partSize, own, o.parts)
	}
	if sz := mutated.Size(); sz != len(bz) {
		vstat.Violation(t, P, "partset:parts-of-the-object-are-not-those-of-its-content", "Block.Size() = %d, the block encodes to %d bytes", sz, len(bz))
	}
	return o, true, ""
}

func try(f func()) (pan interface{}) {
	defer func() { pan = recover() }()
	f()
	return nil
}

func genPartSize(t *rapid.T, n int, small bool) (int, string) {
	classes := []string{"8-63", "8-63", "64-1023", "64-1023", "64-1023", "1k-8k", "len/k", "len/k", "len/k", "len-1", "len", "len+1", ">len", "64k"}
	if small {
		classes = append(classes, "1", "1", "2-7", "2-7")
	}
	switch c := rapid.SampledFrom(classes).Draw(t, "psize_class"); c {
	case "len/k": // exactly k parts, the last one short or full
		k := rapid.IntRange(2, 9).Draw(t, "psize_k")
		return (n + k - 1) / k, c
	case "1":
		return 1, c
	case "2-7":
		return rapid.IntRange(2, 7).Draw(t, "psize"), c
	case "8-63":
		return rapid.IntRange(8, 63).Draw(t, "psize"), c
	case "64-1023":
		return rapid.IntRange(64, 1023).Draw(t, "psize"), c
	case "1k-8k":
		return rapid.IntRange(1024, 8192).Draw(t, "psize"), c
	case "len-1":
		return n - 1, c
	case "len":
		return n, c
	case "len+1":
		return n + 1, c
	case ">len":
		return n + rapid.IntRange(2, 100000).Draw(t, "psize"), c
	default:
		return 65536, c
	}
}

// bodyKinds lists the body perturbations applicable to a block.
func bodyKinds(b *types.Block) []string {
	var ks []string
	ntx, nev, nv := len(b.Data.Txs), len(b.Evidence.Evidence), len(b.LastCommit.Precommits)
	if ntx >= 1 {
		ks = append(ks, "tx-byte", "tx-byte", "tx-drop", "tx-dup", "tx-replace")
	}
	if ntx >= 2 {
		ks = append(ks, "tx-swap", "tx-swap", "tx-rotate")
	}
	ks = append(ks, "tx-add")
	if nev >= 1 {
		ks = append(ks, "ev-content", "ev-content", "ev-drop", "ev-dup")
	}
	if nev >= 2 {
		ks = append(ks, "ev-swap", "ev-swap")
	}
	ks = append(ks, "ev-add")
	if nv >= 1 {
		ks = append(ks, "vote-field", "vote-field", "vote-sig", "vote-absent", "vote-remove", "vote-dup", "commit-blockid")
	}
	if nv >= 2 {
		ks = append(ks, "vote-swap", "vote-swap")
	}
	return ks
}

// applyBody mutates the body of m (a fresh copy) and leaves the header alone.
// ok == false: the drawn mutation is not applicable here (for example the flipped byte makes the
// transaction undecodable, or the two swapped items are equal).
func applyBody(t *rapid.T, b *built, m *types.Block, kind string) (desc string, ok bool) {
	txs, evs, pcs := m.Data.Txs, m.Evidence.Evidence, m.LastCommit.Precommits
	pick := func(n int, l string) int { return rapid.IntRange(0, n-1).Draw(t, l) }
	switch kind {
	case "tx-byte":
		i := pick(len(txs), "p_i")
		for attempt := 0; attempt < 4; attempt++ { // many flips break the list structure; try a few positions
			enc := encodeTx(txs[i])
			pos := pick(len(enc), "p_pos")
			bit := uint(pick(8, "p_bit"))
			enc[pos] ^= 1 << bit
			ntx, err := decodeTx(enc)
			if err != nil || ntx == nil {
				continue
			}
			txs[i] = ntx
			return fmt.Sprintf("tx-byte tx%d(%s) byte %d/%d bit %d", i, ntx.TypeName(), pos, len(enc), bit), true
		}
		return fmt.Sprintf("tx-byte[%d] undecodable", i), false
	case "tx-swap":
		i := pick(len(txs), "p_i")
		j := pick(len(txs)-1, "p_j")
		if j >= i {
			j++
		}
		txs[i], txs[j] = txs[j], txs[i]
		return fmt.Sprintf("tx-swap %d<->%d of %d", i, j, len(txs)), true
	case "tx-rotate":
		k := 1 + pick(len(txs)-1, "p_k")
		m.Data.Txs = append(append(types.Txs{}, txs[k:]...), txs[:k]...)
		return fmt.Sprintf("tx-rotate by %d of %d", k, len(txs)), true
	case "tx-drop":
		i := pick(len(txs), "p_i")
		m.Data.Txs = append(append(types.Txs{}, txs[:i]...), txs[i+1:]...)
		return fmt.Sprintf("tx-drop %d of %d", i, len(txs)), true
	case "tx-dup":
		i := pick(len(txs), "p_i")
		j := pick(len(txs)+1, "p_j")
		cp, _ := decodeTx(encodeTx(txs[i]))
		m.Data.Txs = append(append(append(types.Txs{}, txs[:j]...), cp), txs[j:]...)
		return fmt.Sprintf("tx-dup %d inserted at %d of %d", i, j, len(txs)), true
	case "tx-replace":
		i := pick(len(txs), "p_i")
		ntx, k := genTx(t, src{rapid.Uint64().Draw(t, "p_seed")}, 90, true)
		txs[i] = ntx
		return fmt.Sprintf("tx-replace %d of %d by a %s tx", i, len(txs), k), true
	case "tx-add":
		j := pick(len(txs)+1, "p_j")
		ntx, k := genTx(t, src{rapid.Uint64().Draw(t, "p_seed")}, 91, true)
		m.Data.Txs = append(append(append(types.Txs{}, txs[:j]...), ntx), txs[j:]...)
		return fmt.Sprintf("tx-add %s at %d of %d", k, j, len(txs)), true
	case "ev-content":
		i := pick(len(evs), "p_i")
		ev := reflect.ValueOf(&evs[i]).Elem() // interface value, settable
		d, err := perturb(t, ev, fmt.Sprintf("ev%d(%T)", i, evs[i]), "p_ev")
		if err != nil {
			t.Fatalf("harness: cannot perturb evidence: %v", err)
		}
		return "ev-content " + d, true
	case "ev-swap":
		i := pick(len(evs), "p_i")
		j := pick(len(evs)-1, "p_j")
		if j >= i {
			j++
		}
		evs[i], evs[j] = evs[j], evs[i]
		return fmt.Sprintf("ev-swap %d<->%d of %d", i, j, len(evs)), true
	case "ev-drop":
		i := pick(len(evs), "p_i")
		m.Evidence.Evidence = append(append(types.EvidenceList{}, evs[:i]...), evs[i+1:]...)
		return fmt.Sprintf("ev-drop %d of %d", i, len(evs)), true
	case "ev-dup":
		i := pick(len(evs), "p_i")
		j := pick(len(evs)+1, "p_j")
		m.Evidence.Evidence = append(append(append(types.EvidenceList{}, evs[:j]...), evs[i]), evs[j:]...)
		return fmt.Sprintf("ev-dup %d inserted at %d of %d", i, j, len(evs)), true
	case "ev-add":
		j := pick(len(evs)+1, "p_j")
		ev := genEvidence(t, src{rapid.Uint64().Draw(t, "p_seed")}, "p_newev", b.chain, m.Height)
		m.Evidence.Evidence = append(append(append(types.EvidenceList{}, evs[:j]...), ev), evs[j:]...)
		return fmt.Sprintf("ev-add %T at %d of %d", ev, j, len(evs)), true
	case "vote-field", "vote-sig":
		var present []int
		for i, v := range pcs {
			if v != nil {
				present = append(present, i)
			}
		}
		if len(present) == 0 {
			return kind + ": no vote present", false
		}
		i := present[pick(len(present), "p_i")]
		if kind == "vote-sig" {
			d, err := perturb(t, reflect.ValueOf(&pcs[i].Signature).Elem(), fmt.Sprintf("precommit%d.Signature", i), "p_sig")
			if err != nil {
				t.Fatalf("harness: cannot perturb signature: %v", err)
			}
			return "vote-sig " + d, true
		}
		d, err := perturb(t, reflect.ValueOf(pcs[i]).Elem(), fmt.Sprintf("precommit%d", i), "p_vote")
		if err != nil {
			t.Fatalf("harness: cannot perturb vote: %v", err)
		}
		return "vote-field " + d, true
	case "vote-absent":
		var present []int
		for i, v := range pcs {
			if v != nil {
				present = append(present, i)
			}
		}
		if len(present) == 0 {
			return kind + ": no vote present", false
		}
		i := present[pick(len(present), "p_i")]
		pcs[i] = nil
		return fmt.Sprintf("vote-absent slot %d of %d set to nil", i, len(pcs)), true
	case "vote-remove":
		i := pick(len(pcs), "p_i")
		m.LastCommit.Precommits = append(append([]*types.Vote{}, pcs[:i]...), pcs[i+1:]...)
		return fmt.Sprintf("vote-remove slot %d of %d", i, len(pcs)), true
	case "vote-dup":
		i := pick(len(pcs), "p_i")
		j := pick(len(pcs)+1, "p_j")
		m.LastCommit.Precommits = append(append(append([]*types.Vote{}, pcs[:j]...), pcs[i]), pcs[j:]...)
		return fmt.Sprintf("vote-dup slot %d inserted at %d of %d", i, j, len(pcs)), true
	case "vote-swap":
		i := pick(len(pcs), "p_i")
		j := pick(len(pcs)-1, "p_j")
		if j >= i {
			j++
		}
		pcs[i], pcs[j] = pcs[j], pcs[i]
		return fmt.Sprintf("vote-swap %d<->%d of %d", i, j, len(pcs)), true
	case "commit-blockid":
		d, err := perturb(t, reflect.ValueOf(&m.LastCommit.BlockID).Elem(), "LastCommit.BlockID", "p_cbid")
		if err != nil {
			t.Fatalf("harness: cannot perturb commit block id: %v", err)
		}
		return "commit-blockid " + d, true
	}
	t.Fatalf("harness: unknown body perturbation %q", kind)
	return "", false
}

func TestBlockIdentity(t *testing.T) {
	rapid.Check(t, func(t *rapid.T) {
		small := rapid.IntRange(0, 3).Draw(t, "small") == 0
		b := genBlock(t, "b", small, 0)
		partSize, _ := genPartSize(t, len(b.bz), false)
		if partSize < 16 { // part A is about hashes, not about tiny parts
			partSize = 16
		}
		base, ok, why := observe(t, b.fresh(t), partSize)
		if !ok || base.hash != b.hash || !bytes.Equal(base.bz, b.bz) {
			t.Fatalf("harness: unperturbed block changes on the wire (%s)", why)
		}
		vstat.Label(fmt.Sprintf("A:parts=%s", bucket(base.parts.Total)))

		// --- every header field, one drawn perturbation each
		for _, f := range headerFields(t) {
			m := b.fresh(t)
			desc, err := perturb(t, reflect.ValueOf(m.Header).Elem().Field(f.index), f.name, "h_"+f.name)
			if err != nil {
				t.Fatalf("harness: cannot perturb header field: %v", err)
			}
			o, ok, why := observe(t, m, partSize)
			if !ok {
				vstat.Label("A:header:" + f.name + ":not-wire-representable")
				_ = why
				continue
			}
			vstat.Eval()
			vstat.Label("A:header:" + f.name)
			hashMoved, partsMoved := o.hash != base.hash, !o.parts.Equals(base.parts)
			if bytes.Equal(o.bz, base.bz) {
				// The field changed in memory but not on the wire: it is not part of what validators sign.
				vstat.Violation(t, P, "blockid:header-field-"+f.name+"-not-serialised", "header perturbation %s leaves the encoded block unchanged (%s)", desc, b.shape)
				continue
			}
			if !hashMoved && !partsMoved {
				vstat.Violation(t, P, "blockid:header-field-"+f.name+"-changes-neither-hash", "header perturbation %s changes neither Block.Hash() %x nor the part-set header %v (part size %d; %s)",
					desc, base.hash, base.parts, partSize, b.shape)
				continue
			}
			switch f.class {
			case "hash":
				if hashMoved == o.blk.HashesTo(base.hash.Bytes()) {
					vstat.Violation(t, P, "blockid:hashesto-disagrees-with-hash", "header perturbation %s: Hash() moved=%v but HashesTo(original hash)=%v (%s)", desc, hashMoved, !hashMoved, b.shape)
					continue
				}
				if !hashMoved {
					vstat.Violation(t, P, "header-hash:field-"+f.name+"-not-committed", "header perturbation %s leaves Block.Hash() at %x (only the part-set hash moves): two blocks that differ in a consensus-relevant header field share one block hash (%s)",
						desc, base.hash, b.shape)
					continue
				}
			case "parts":
				if !partsMoved {
					vstat.Violation(t, P, "blockid:header-field-"+f.name+"-changes-neither-hash", "header perturbation %s leaves the part-set header at %v (%s)", desc, base.parts, b.shape)
					continue
				}
				if hashMoved {
					vstat.Label("A:header:" + f.name + ":block-hash-moves-too")
				} else {
					vstat.Label("A:header:" + f.name + ":part-set-hash-only")
				}
			}
			// a header change that leaves the body alone must also be visible to ValidateBasic when it hits
			// one of the fields ValidateBasic derives from the body
			if obviousHashes[f.name] || f.name == "NumTxs" {
				if err := o.blk.ValidateBasic(); err == nil {
					vstat.Violation(t, P, "validatebasic:header-"+f.name+"-mismatch-accepted", "header perturbation %s passes ValidateBasic although the body is unchanged (%s)", desc, b.shape)
					continue
				}
			} else {
				vstat.NonTrivial("A|hdr|" + b.shape + "|" + desc)
			}
			if vstat.WantSample() && f.name == "Recover" {
				vstat.Sample(map[string]interface{}{"test": "TestBlockIdentity", "block": b.shape, "perturbation": desc, "block_hash_changed": hashMoved, "part_set_header_changed": partsMoved})
			}
		}

		// --- two header fields of the same type exchange their values: the header hash is a map from
		// field NAME to value, so the multiset of values staying the same must not keep the hash
		{
			m := b.fresh(t)
			hv := reflect.ValueOf(m.Header).Elem()
			fs := headerFields(t)
			var pairs [][2]hfield
			for x := 0; x < len(fs); x++ {
				for y := x + 1; y < len(fs); y++ {
					fx, fy := hv.Field(fs[x].index), hv.Field(fs[y].index)
					if fx.Type() == fy.Type() && !reflect.DeepEqual(fx.Interface(), fy.Interface()) {
						pairs = append(pairs, [2]hfield{fs[x], fs[y]})
					}
				}
			}
			if len(pairs) > 0 {
				pr := pairs[rapid.IntRange(0, len(pairs)-1).Draw(t, "swap_pair")]
				fx, fy := hv.Field(pr[0].index), hv.Field(pr[1].index)
				tmp := reflect.New(fx.Type()).Elem()
				tmp.Set(fx)
				fx.Set(fy)
				fy.Set(tmp)
				desc := fmt.Sprintf("header fields %s and %s exchange values", pr[0].name, pr[1].name)
				if o, ok, _ := observe(t, m, partSize); ok {
					vstat.Eval()
					vstat.Label("A:header-swap")
					hashMoved, partsMoved := o.hash != base.hash, !o.parts.Equals(base.parts)
					switch {
					case !hashMoved && !partsMoved:
						vstat.Violation(t, P, "blockid:header-field-swap-changes-neither-hash", "%s: neither Block.Hash() %x nor the part-set header moves (%s)", desc, base.hash, b.shape)
					case !hashMoved && pr[0].class == "hash" && pr[1].class == "hash":
						vstat.Violation(t, P, "header-hash:field-swap-not-committed", "%s: Block.Hash() stays %x (%s)", desc, base.hash, b.shape)
					default:
						vstat.NonTrivial("A|swap|" + b.shape + "|" + desc)
					}
				}
			}
		}

		// --- one bit of the block's wire bytes, anywhere.  This does not rely on the harness knowing the
		// block's structure: whatever still decodes, keeps Block.Hash() and passes ValidateBasic is an
		// equal-hash variant of the block, and the only variants allowed to exist are those that differ in
		// the two part-set-only fields examined above (Header.Recover, LastCommit.BlockID).  Anything else
		// would be content the block hash does not commit to.
		for k, n := 0, rapid.IntRange(2, 6).Draw(t, "nwire"); k < n; k++ {
			pos := rapid.IntRange(0, len(b.bz)-1).Draw(t, "w_pos")
			bit := uint(rapid.IntRange(0, 7).Draw(t, "w_bit"))
			wz := append([]byte(nil), b.bz...)
			wz[pos] ^= 1 << bit
			var m *types.Block
			var derr error
			if pan := try(func() { m, derr = decodeBlock(wz) }); pan != nil || derr != nil {
				vstat.Label("A:wire-flip:undecodable") // decoder robustness is C11's subject
				continue
			}
			o, ok, _ := observe(t, m, partSize)
			if !ok {
				vstat.Label("A:wire-flip:undecodable")
				continue
			}
			if bytes.Equal(o.bz, base.bz) {
				vstat.Label("A:wire-flip:same-block(non-canonical encoding)") // C11's subject
				continue
			}
			vstat.Eval()
			desc := fmt.Sprintf("wire byte %d/%d bit %d", pos, len(b.bz), bit)
			hashMoved, partsMoved := o.hash != base.hash, !o.parts.Equals(base.parts)
			if !hashMoved && !partsMoved {
				vstat.Violation(t, P, "blockid:wire-change-changes-neither-hash", "%s decodes to a different block with the same Block.Hash() and part-set header (%s)", desc, b.shape)
				continue
			}
			var verr error
			if pan := try(func() { verr = o.blk.ValidateBasic() }); pan != nil {
				vstat.Label("A:wire-flip:validatebasic-panics") // a malformed block; robustness is C16's subject
				continue
			}
			switch {
			case hashMoved:
				vstat.Label("A:wire-flip:block-hash-moves")
			case verr != nil:
				vstat.Label("A:wire-flip:refused-by-validatebasic")
			default:
				// equal hash and internally consistent: must be the original up to the part-set-only fields
				x, _ := decodeBlock(o.bz)
				y := b.fresh(t)
				x.Header.Recover, y.Header.Recover = 0, 0
				x.LastCommit.BlockID, y.LastCommit.BlockID = types.BlockID{}, types.BlockID{}
				if !bytes.Equal(encodeBlock(t, x), encodeBlock(t, y)) {
					vstat.Violation(t, P, "blockhash:equal-hash-variant-passes-validatebasic", "%s decodes to a block that differs from the original outside Header.Recover / LastCommit.BlockID, keeps Block.Hash() %x and passes ValidateBasic (%s)", desc, base.hash, b.shape)
					continue
				}
				vstat.Label("A:wire-flip:part-set-only-field")
			}
			vstat.NonTrivial("A|wire|" + b.shape + "|" + desc)
		}

		// --- body perturbations with the header kept: the part-set hash must move (the block hash cannot:
		// it is the header hash) and ValidateBasic must notice the mismatch against the header
		nb := rapid.IntRange(3, 8).Draw(t, "nbody")
		for k := 0; k < nb; k++ {
			m := b.fresh(t)
			kinds := bodyKinds(m)
			kind := rapid.SampledFrom(kinds).Draw(t, "p_kind")
			desc, ok := applyBody(t, b, m, kind)
			if !ok {
				vstat.Label("A:body:" + kind + ":not-applicable")
				continue
			}
			o, ok, why := observe(t, m, partSize)
			if !ok {
				vstat.Label("A:body:" + kind + ":not-wire-representable")
				_ = why
				continue
			}
			if bytes.Equal(o.bz, base.bz) {
				vstat.Label("A:body:" + kind + ":no-op") // e.g. two equal items swapped
				continue
			}
			vstat.Eval()
			vstat.Label("A:body:" + kind)
			hashMoved, partsMoved := o.hash != base.hash, !o.parts.Equals(base.parts)
			if !hashMoved && !partsMoved {
				vstat.Violation(t, P, "blockid:body-change-changes-neither-hash", "%s changes neither Block.Hash() nor the part-set header %v (%s)", desc, base.parts, b.shape)
				continue
			}
			var verr error
			if pan := try(func() { verr = o.blk.ValidateBasic() }); pan != nil {
				vstat.Violation(t, P, "validatebasic:panics", "%s: ValidateBasic panics: %v (%s)", desc, pan, b.shape)
				continue
			}
			if kind == "commit-blockid" {
				// Commit.BlockID is a denormalised copy of Header.LastBlockID / of the BlockID inside every
				// counted precommit: Commit.Hash() covers the precommits only (as upstream Tendermint of that
				// vintage), no validation decision reads the field except "not zero" (Commit.ValidateBasic), and
				// VerifyCommit compares each vote's own BlockID with the expected one.  Like Recover it is
				// committed by the part-set hash alone (checked above: one of the two hashes moved, and the
				// block hash cannot move with the header unchanged); it is not part of "the previous commit"
				// in the sense of who voted for what.
				if verr == nil {
					vstat.Label("A:body:commit-blockid:part-set-hash-only")
				} else {
					vstat.Label("A:body:commit-blockid:refused-by-validatebasic")
				}
				vstat.NonTrivial("A|body|" + b.shape + "|" + desc)
				continue
			}
			if verr == nil {
				vstat.Violation(t, P, "validatebasic:"+family(kind)+"-change-not-detected", "%s with the header unchanged passes ValidateBasic: Block.Hash() %x does not commit to it (%s)", desc, base.hash, b.shape)
				continue
			}
			// the attacker's variant: re-seal the header over the changed body; now ValidateBasic is content
			// and the block hash is the only witness
			r, err := decodeBlock(o.bz)
			if err != nil {
				t.Fatalf("harness: %v", err)
			}
			c, _ := decodeBlock(o.bz) // hashes are taken from a second cold copy so that r's caches stay cold
			r.Header.NumTxs = uint64(len(c.Data.Txs))
			r.Header.DataHash = c.Data.Hash()
			r.Header.EvidenceHash = c.Evidence.Hash()
			r.Header.LastCommitHash = c.LastCommit.Hash()
			if ro, ok, _ := observe(t, r, partSize); ok {
				if ro.hash == base.hash {
					vstat.Violation(t, P, "blockhash:"+family(kind)+"-change-resealed-keeps-hash", "%s with NumTxs/DataHash/EvidenceHash/LastCommitHash recomputed keeps Block.Hash() %x (%s)", desc, base.hash, b.shape)
					continue
				}
			}
			vstat.NonTrivial("A|body|" + b.shape + "|" + desc)
			if vstat.WantSample() && k == 0 {
				vstat.Sample(map[string]interface{}{"test": "TestBlockIdentity", "block": b.shape, "perturbation": desc, "validate_basic": verr.Error()})
			}
		}
	})
}

func family(kind string) string { return kind[:strings.IndexByte(kind, '-')] }

func bucket(n int) string {
	switch {
	case n <= 1:
		return "1"
	case n <= 3:
		return "2-3"
	case n <= 16:
		return "4-16"
	case n <= 128:
		return "17-128"
	default:
		return ">128"
	}
}

// ---------------------------------------------------------------- part B: part sets

// pspec is a part as plain data (no caches).
type pspec struct {
	idx   int
	bytes []byte
	aunts [][]byte
}

func specOf(p *types.Part) pspec {
	s := pspec{idx: p.Index, bytes: append([]byte(nil), p.Bytes...)}
	for _, a := range p.Proof.Aunts {
		s.aunts = append(s.aunts, append([]byte(nil), a...))
	}
	return s
}

// wire returns the part as a receiver gets it: encoded and decoded through ser (what
// BlockPartMessage carries), a fresh object with a cold hash cache.
func (s pspec) wire() (*types.Part, error) {
	p := &types.Part{Index: s.idx, Bytes: s.bytes}
	p.Proof.Aunts = s.aunts
	bz, err := ser.EncodeToBytes(p)
	if err != nil {
		return nil, err
	}
	q := new(types.Part)
	if err := ser.DecodeBytes(bz, q); err != nil {
		return nil, err
	}
	return q, nil
}

func sameAsProposer(q *types.Part, ref pspec) bool {
	if q.Index != ref.idx || !bytes.Equal(q.Bytes, ref.bytes) || len(q.Proof.Aunts) != len(ref.aunts) {
		return false
	}
	for i := range ref.aunts {
		if !bytes.Equal(q.Proof.Aunts[i], ref.aunts[i]) {
			return false
		}
	}
	return true
}

type event struct {
	kind string
	spec pspec
}

var forgeKinds = []string{"dup", "dup", "trunc", "extend", "flip", "flip", "empty", "shift", "shift", "proof-of-other-part", "other-block-part", "other-block-bytes", "other-block-proof",
	"aunt-flip", "aunt-drop", "aunt-add", "aunt-swap", "aunt-resize", "no-proof", "inner-node-as-leaf", "index-total", "index-big", "index-negative"}

// forge builds one non-genuine (or duplicate) delivery from the proposer's parts ps and the parts qs
// of a different block with the same part count (qs may be nil).
func forge(t *rapid.T, label string, ps, qs []pspec, negExcluded bool) (event, bool) {
	total := len(ps)
	kind := rapid.SampledFrom(forgeKinds).Draw(t, label+"_kind")
	// the ends of the index range are where bound checks and the proof walk have their special cases
	i := rapid.IntRange(0, total-1).Draw(t, label+"_i")
	switch rapid.IntRange(0, 9).Draw(t, label+"_iclass") {
	case 0, 1:
		i = 0
	case 2:
		i = total - 1
	}
	s := ps[i]
	cp := func(b []byte) []byte { return append([]byte(nil), b...) }
	cpa := func(a [][]byte) [][]byte {
		var o [][]byte
		for _, x := range a {
			o = append(o, cp(x))
		}
		return o
	}
	s.bytes, s.aunts = cp(s.bytes), cpa(s.aunts)
	switch kind {
	case "dup":
	case "trunc":
		if len(s.bytes) == 0 {
			return event{}, false
		}
		s.bytes = s.bytes[:len(s.bytes)-rapid.IntRange(1, len(s.bytes)).Draw(t, label+"_cut")]
	case "extend":
		s.bytes = append(s.bytes, byte(rapid.IntRange(0, 255).Draw(t, label+"_byte")))
	case "flip":
		pos := rapid.IntRange(0, len(s.bytes)-1).Draw(t, label+"_pos")
		s.bytes[pos] ^= 1 << uint(rapid.IntRange(0, 7).Draw(t, label+"_bit"))
	case "empty":
		s.bytes = nil
	case "shift": // a correct part (bytes and proof) presented under another index
		if total < 2 {
			return event{}, false
		}
		j := rapid.IntRange(0, total-2).Draw(t, label+"_j")
		if j >= i {
			j++
		}
		s.idx = j
	case "proof-of-other-part":
		if total < 2 {
			return event{}, false
		}
		j := rapid.IntRange(0, total-2).Draw(t, label+"_j")
		if j >= i {
			j++
		}
		s.aunts = cpa(ps[j].aunts)
	case "other-block-part", "other-block-bytes", "other-block-proof":
		if qs == nil {
			return event{}, false
		}
		switch kind {
		case "other-block-part":
			s.bytes, s.aunts = cp(qs[i].bytes), cpa(qs[i].aunts)
		case "other-block-bytes":
			s.bytes = cp(qs[i].bytes)
		default:
			s.aunts = cpa(qs[i].aunts)
		}
	case "aunt-flip", "aunt-drop", "aunt-swap", "aunt-resize":
		if len(s.aunts) == 0 || (kind == "aunt-swap" && len(s.aunts) < 2) {
			return event{}, false
		}
		k := rapid.IntRange(0, len(s.aunts)-1).Draw(t, label+"_k")
		switch kind {
		case "aunt-flip":
			s.aunts[k][rapid.IntRange(0, len(s.aunts[k])-1).Draw(t, label+"_pos")] ^= 1 << uint(rapid.IntRange(0, 7).Draw(t, label+"_bit"))
		case "aunt-drop":
			s.aunts = append(s.aunts[:k], s.aunts[k+1:]...)
		case "aunt-swap":
			k2 := rapid.IntRange(0, len(s.aunts)-2).Draw(t, label+"_k2")
			if k2 >= k {
				k2++
			}
			s.aunts[k], s.aunts[k2] = s.aunts[k2], s.aunts[k]
		default:
			if rapid.Bool().Draw(t, label+"_grow") {
				s.aunts[k] = append(s.aunts[k], 0)
			} else {
				s.aunts[k] = s.aunts[k][:len(s.aunts[k])-1]
			}
		}
	case "aunt-add":
		extra := crypto.Keccak256([]byte{byte(i)})
		if rapid.Bool().Draw(t, label+"_front") {
			s.aunts = append([][]byte{extra}, s.aunts...)
		} else {
			s.aunts = append(s.aunts, extra)
		}
	case "no-proof":
		if len(s.aunts) == 0 {
			return event{}, false
		}
		s.aunts = nil
	case "inner-node-as-leaf":
		// The tree does not separate leaves from inner nodes: keccak(enc(h_left)|enc(h_right)) is both the
		// parent of two leaves and the leaf hash of a part with exactly those 66 bytes.  Present the parent
		// of parts i and its sibling as a part, with the proof shortened by one.
		if len(s.aunts) == 0 {
			return event{}, false
		}
		own, sib := crypto.Keccak256(ps[i].bytes), s.aunts[0]
		l, r := own, sib
		if i%2 == 1 {
			l, r = sib, own
		}
		el, _ := ser.EncodeToBytes(l)
		er, _ := ser.EncodeToBytes(r)
		s.bytes = append(el, er...)
		s.aunts = s.aunts[1:]
		s.idx = rapid.SampledFrom([]int{i, i / 2}).Draw(t, label+"_as")
	case "index-total":
		s.idx = total + rapid.IntRange(0, 2).Draw(t, label+"_over")
	case "index-big":
		s.idx = rapid.SampledFrom([]int{total * 2, 1 << 20, 1<<31 - 1, 1 << 40, 1<<62 + i}).Draw(t, label+"_big")
	case "index-negative":
		if negExcluded {
			vstat.Excluded(keyNegIdx)
			return event{}, false
		}
		s.idx = rapid.SampledFrom([]int{-1, -1, -total, -total - 1, -(1 << 31), -(1 << 62)}).Draw(t, label+"_neg")
	}
	return event{kind, s}, true
}

// order returns a permutation of 0..n-1: drawn freely for small n, an affine map for large n.
func order(t *rapid.T, n int) []int {
	idx := make([]int, n)
	for i := range idx {
		idx[i] = i
	}
	if n <= 24 {
		return rapid.Permutation(idx).Draw(t, "order")
	}
	mode := rapid.SampledFrom([]string{"affine", "affine", "reverse", "forward"}).Draw(t, "order_mode")
	switch mode {
	case "forward":
		return idx
	case "reverse":
		for i := range idx {
			idx[i] = n - 1 - i
		}
		return idx
	}
	a := rapid.IntRange(1, n-1).Draw(t, "order_a")
	for gcd(a, n) != 1 {
		a++
	}
	c := rapid.IntRange(0, n-1).Draw(t, "order_c")
	for i := range idx {
		idx[i] = (a*i + c) % n
	}
	return idx
}

func gcd(a, b int) int {
	for b != 0 {
		a, b = b, a%b
	}
	return a
}

func specsOf(ps *types.PartSet) []pspec {
	out := make([]pspec, ps.Total())
	for i := range out {
		out[i] = specOf(ps.GetPart(i))
	}
	return out
}

// checkAssembled: the complete set yields exactly the proposer's bytes, and they decode, the way
// consensus decodes them, to the proposer's block.
func checkAssembled(t *rapid.T, r *types.PartSet, b *built, hist func() string) bool {
	var got []byte
	var rerr error
	if pan := try(func() { got, rerr = io.ReadAll(r.GetReader()) }); pan != nil || rerr != nil {
		vstat.Violation(t, P, "partset:reader-fails-on-complete-set", "reading the complete part set: panic %v, error %v\n%s", pan, rerr, hist())
		return false
	}
	if !bytes.Equal(got, b.bz) {
		vstat.Violation(t, P, "partset:reassembled-bytes-differ", "the complete part set reads %d bytes that are not the proposer's %d bytes (first difference at %d)\n%s", len(got), len(b.bz), firstDiff(got, b.bz), hist())
		return false
	}
	var blk *types.Block
	var derr error
	if pan := try(func() {
		_, derr = ser.DecodeReader(r.GetReader(), &blk, int64(types.DefaultConsensusParams().BlockSize.MaxBytes))
	}); pan != nil || derr != nil || blk == nil {
		vstat.Violation(t, P, "partset:reassembled-block-does-not-decode", "decoding the complete part set as consensus does: panic %v, error %v\n%s", pan, derr, hist())
		return false
	}
	if blk.Hash() != b.hash {
		vstat.Violation(t, P, "partset:reassembled-block-has-other-hash", "reassembled block hashes to %x, proposer's to %x\n%s", blk.Hash(), b.hash, hist())
		return false
	}
	if err := blk.ValidateBasic(); err != nil {
		vstat.Violation(t, P, "partset:reassembled-block-invalid", "reassembled block fails ValidateBasic: %v\n%s", err, hist())
		return false
	}
	return true
}

func firstDiff(a, b []byte) int {
	for i := 0; i < len(a) && i < len(b); i++ {
		if a[i] != b[i] {
			return i
		}
	}
	if len(a) < len(b) {
		return len(a)
	}
	return len(b)
}

// receiver is the model of one receiving PartSet.
type receiver struct {
	r     *types.PartSet
	ps    []pspec
	have  []bool
	count int
	hist  []string
	negOK bool // a negative index may panic (see keyNegIdx)
}

func (rc *receiver) history() string {
	h := rc.hist
	if len(h) > 60 {
		h = append(append([]string{}, h[:20]...), append([]string{fmt.Sprintf("... %d more ...", len(h)-40)}, h[len(h)-20:]...)...)
	}
	return fmt.Sprintf("total %d\n%s", len(rc.ps), strings.Join(h, "\n"))
}

// deliver feeds one part and compares with the model.  false: a violation was reported (known) or the
// set is unusable; abandon the case.
func (rc *receiver) deliver(t *rapid.T, ev event, full bool) bool {
	part, err := ev.spec.wire()
	if err != nil {
		vstat.Label("B:undeliverable:" + ev.kind)
		return true
	}
	total := len(rc.ps)
	inRange := part.Index >= 0 && part.Index < total
	want := inRange && !rc.have[part.Index] && sameAsProposer(part, rc.ps[part.Index])
	var added bool
	var aerr error
	pan := try(func() { added, aerr = rc.r.AddPart(part) })
	rc.hist = append(rc.hist, fmt.Sprintf("%s index %d len %d aunts %d => added=%v err=%v panic=%v (model: %v)", ev.kind, part.Index, len(part.Bytes), len(part.Proof.Aunts), added, aerr, pan, want))
	switch {
	case pan != nil && part.Index < 0 && rc.negOK:
		vstat.Label("B:negative-index:panics(C16)")
		added = false
	case pan != nil:
		key := "partset:addpart-panics"
		if part.Index < 0 {
			key = keyNegIdx
		}
		vstat.Violation(t, P, key, "AddPart panics: %v\n%s", pan, rc.history())
		return false
	}
	if added && !want {
		k := ev.kind
		vstat.Violation(t, P, "partset:forged-part-accepted", "AddPart accepted a part (%s) that is not the proposer's part %d\n%s", k, part.Index, rc.history())
		return false
	}
	if !added && want {
		vstat.Violation(t, P, "partset:genuine-part-refused", "AddPart refused the proposer's part %d (err %v)\n%s", part.Index, aerr, rc.history())
		return false
	}
	if added && aerr != nil {
		vstat.Violation(t, P, "partset:added-with-error", "AddPart returned added=true together with error %v\n%s", aerr, rc.history())
		return false
	}
	if added {
		rc.have[part.Index] = true
		rc.count++
	}
	switch {
	case added:
		vstat.Label("B:outcome:accepted")
	case pan != nil:
	case aerr == nil:
		vstat.Label("B:outcome:ignored(no error)")
	default:
		vstat.Label("B:outcome:" + aerr.Error())
	}
	return rc.consistent(t, full)
}

// consistent compares Count / IsComplete (always) and BitArray / stored parts (when full) with the model.
func (rc *receiver) consistent(t *rapid.T, full bool) bool {
	total := len(rc.ps)
	if rc.r.Count() != rc.count || rc.r.IsComplete() != (rc.count == total) || rc.r.Total() != total {
		vstat.Violation(t, P, "partset:count-inconsistent", "Count()=%d IsComplete()=%v Total()=%d, accepted so far %d of %d\n%s", rc.r.Count(), rc.r.IsComplete(), rc.r.Total(), rc.count, total, rc.history())
		return false
	}
	if !full {
		return true
	}
	ba := rc.r.BitArray()
	if ba.Size() != total {
		vstat.Violation(t, P, "partset:bitarray-inconsistent", "BitArray has %d bits for %d parts\n%s", ba.Size(), total, rc.history())
		return false
	}
	for i := 0; i < total; i++ {
		if ba.GetIndex(i) != rc.have[i] {
			vstat.Violation(t, P, "partset:bitarray-inconsistent", "BitArray bit %d is %v, model %v\n%s", i, ba.GetIndex(i), rc.have[i], rc.history())
			return false
		}
		p := rc.r.GetPart(i)
		if (p != nil) != rc.have[i] || (p != nil && !sameAsProposer(p, rc.ps[i])) {
			vstat.Violation(t, P, "partset:stored-part-differs", "GetPart(%d) = %v, model has=%v\n%s", i, p, rc.have[i], rc.history())
			return false
		}
	}
	return true
}

func runPartSetCase(t *rapid.T) {
	vstat.Eval()
	small := rapid.IntRange(0, 2).Draw(t, "small") == 0
	b := genBlock(t, "b", small, 0)
	size, sizeClass := genPartSize(t, len(b.bz), small)
	prop := b.blk.MakePartSet(size) // the proposer's own part set (consensus createProposalBlock)
	total := prop.Total()
	ps := specsOf(prop)
	// the proposer's parts must carry exactly the block's bytes
	var cat []byte
	for _, p := range ps {
		cat = append(cat, p.bytes...)
	}
	if !bytes.Equal(cat, b.bz) || total != (len(b.bz)+size-1)/size {
		vstat.Violation(t, P, "partset:proposer-parts-are-not-the-block", "MakePartSet(%d) of a %d-byte block: %d parts carrying %d bytes that differ from the encoding at %d", size, len(b.bz), total, len(cat), firstDiff(cat, b.bz))
		return
	}
	// a different block with the same number of parts: one header field changed in a way that keeps the length
	var qs []pspec
	{
		m := b.fresh(t)
		m.Header.StateHash[rapid.IntRange(0, 31).Draw(t, "q_pos")] ^= 0x40
		m.Header.Time ^= 1
		q := m.MakePartSet(size)
		if q.Total() == total && !bytes.Equal(q.Hash(), prop.Hash()) {
			qs = specsOf(q)
		}
	}
	hdr := prop.Header()
	rc := &receiver{r: types.NewPartSetFromHeader(types.PartSetHeader{Total: hdr.Total, Hash: append([]byte(nil), hdr.Hash...)}),
		ps: ps, have: make([]bool, total), negOK: !vstat.IsKnown(P, keyNegIdx)}
	negExcluded := vstat.IsKnown(P, keyNegIdx)

	// schedule: every genuine part once, in a drawn order, with forgeries and duplicates inserted at drawn
	// positions; optionally the schedule stops early (the block is then not reassembled at all)
	goods := order(t, total)
	posOf := make([]int, total) // posOf[i]: how many genuine parts are delivered before genuine part i
	for n, i := range goods {
		posOf[i] = n
	}
	nforge := rapid.IntRange(0, 12).Draw(t, "nforge")
	type slot struct {
		pos int
		ev  event
	}
	var extras []slot
	for k := 0; k < nforge; k++ {
		ev, ok := forge(t, fmt.Sprintf("f%d", k), ps, qs, negExcluded)
		if !ok {
			continue
		}
		// A forgery that arrives after the genuine part of its index is dropped as a duplicate without a look
		// at its proof, so most forgeries are scheduled before it (position = number of genuine parts
		// delivered earlier).
		lo, hi := 0, total
		if j := ev.spec.idx; j >= 0 && j < total {
			if rapid.IntRange(0, 3).Draw(t, fmt.Sprintf("f%d_late", k)) == 0 {
				lo = posOf[j] + 1
			} else {
				hi = posOf[j]
			}
		}
		extras = append(extras, slot{rapid.IntRange(lo, hi).Draw(t, fmt.Sprintf("f%d_at", k)), ev})
	}
	sort.SliceStable(extras, func(i, j int) bool { return extras[i].pos < extras[j].pos })
	var sched []event
	x := 0
	for gi := 0; gi <= total; gi++ {
		for x < len(extras) && extras[x].pos == gi {
			sched = append(sched, extras[x].ev)
			x++
		}
		if gi < total {
			sched = append(sched, event{"good", ps[goods[gi]]})
		}
	}
	stopAt := len(sched)
	if rapid.IntRange(0, 4).Draw(t, "stop_early") == 0 {
		stopAt = rapid.IntRange(0, len(sched)).Draw(t, "stop_at")
	}
	var fp strings.Builder
	fmt.Fprintf(&fp, "B|%d|%d|", total, size)
	forgedBeforeComplete, completed := 0, false
	fullEvery := total <= 64
	for n, ev := range sched[:stopAt] {
		if !completed && ev.kind != "good" {
			forgedBeforeComplete++
		}
		if n < 200 {
			fmt.Fprintf(&fp, "%s:%d,", ev.kind, ev.spec.idx)
		}
		vstat.Label("B:event:" + ev.kind)
		if !rc.deliver(t, ev, fullEvery) {
			return
		}
		if !completed && rc.r.IsComplete() {
			completed = true
			if !checkAssembled(t, rc.r, b, rc.history) {
				return
			}
		}
	}
	if !rc.consistent(t, true) {
		return
	}
	if completed && !checkAssembled(t, rc.r, b, rc.history) { // still the same after the trailing forgeries
		return
	}
	if stopAt == len(sched) && !completed {
		vstat.Violation(t, P, "partset:genuine-parts-do-not-complete", "all %d genuine parts were delivered and the set is not complete\n%s", total, rc.history())
		return
	}
	vstat.Label("B:psize:" + sizeClass)
	vstat.Label("B:parts=" + bucket(total))
	if completed {
		vstat.Label("B:completed")
	} else {
		vstat.Label("B:left-incomplete")
	}
	if total >= 2 && forgedBeforeComplete >= 1 {
		vstat.NonTrivial(fp.String())
		vstat.Label("B:non-trivial")
	}
	if vstat.WantSample() && total >= 2 && total <= 6 && forgedBeforeComplete >= 2 {
		vstat.Sample(map[string]interface{}{"test": "TestPartSetAssembly", "block": b.shape, "part_size": size, "history": rc.hist})
	}
}

func TestPartSetAssembly(t *testing.T) { rapid.Check(t, runPartSetCase) }

// TestNegativeIndex keeps the negative-index behaviour observed deterministically (see keyNegIdx):
// whatever AddPart does with Index < 0 — refuse or panic — nothing may be accepted and the genuine
// parts must still complete the set to the proposer's bytes.
func TestNegativeIndex(t *testing.T) {
	data := bytes.Repeat([]byte("linkchain-c12-"), 40)
	prop := types.NewPartSetFromData(data, 64)
	ps := specsOf(prop)
	for _, idx := range []int{-1, -prop.Total(), -(1 << 40)} {
		vstat.Eval()
		r := types.NewPartSetFromHeader(prop.Header())
		s := ps[0]
		s.idx = idx
		part, err := s.wire()
		if err != nil {
			vstat.Label("B:negative-index:not-wire-representable")
			continue
		}
		if part.Index != idx {
			t.Fatalf("harness: index %d arrives as %d", idx, part.Index)
		}
		var added bool
		var aerr error
		pan := try(func() { added, aerr = r.AddPart(part) })
		if pan != nil {
			if vstat.IsKnown(P, keyNegIdx) {
				vstat.Violation(t, P, keyNegIdx, "AddPart(Index=%d) panics: %v", idx, pan)
			} else {
				vstat.Label("B:negative-index:panics(C16)")
			}
		} else {
			vstat.Label("B:negative-index:refused")
		}
		if added || r.Count() != 0 || r.IsComplete() {
			vstat.Violation(t, P, "partset:forged-part-accepted", "AddPart(Index=%d) => added=%v err=%v, Count()=%d", idx, added, aerr, r.Count())
			return
		}
		for i := range ps {
			p, _ := ps[i].wire()
			if ok, err := r.AddPart(p); !ok || err != nil {
				vstat.Violation(t, P, "partset:genuine-part-refused", "after AddPart(Index=%d): genuine part %d => added=%v err=%v", idx, i, ok, err)
				return
			}
		}
		got, _ := io.ReadAll(r.GetReader())
		if !bytes.Equal(got, data) {
			vstat.Violation(t, P, "partset:reassembled-bytes-differ", "after AddPart(Index=%d) the set reassembles other bytes", idx)
			return
		}
		vstat.NonTrivial(fmt.Sprintf("neg|%d", idx))
	}
	vstat.Note("AddPart with a negative part index panics (index out of range) before any sign check; nothing is accepted and the set stays usable, so C12 does not count it; it is a single-peer crash and belongs to C16 under the key " + keyNegIdx)
}

// ---------------------------------------------------------------- part C: block store round trip

func encodeAny(v interface{}) []byte {
	bz, err := ser.EncodeToBytes(v)
	if err != nil {
		panic(err)
	}
	return bz
}

func TestStoreRoundTrip(t *testing.T) {
	rapid.Check(t, func(t *rapid.T) {
		vstat.Eval()
		db := dbm.NewMemDB()
		bs := bc.NewBlockStore(db)
		bs.SaveInitHeight(types.BlockHeightZero)
		type saved struct {
			b     *built
			parts []pspec
			hdr   types.PartSetHeader
			seen  *types.Commit
			size  int
		}
		var all []saved
		nblocks := rapid.IntRange(1, 3).Draw(t, "nblocks")
		var fp strings.Builder
		multi := false
		for k := 0; k < nblocks; k++ {
			tag := fmt.Sprintf("s%d", k)
			small := rapid.IntRange(0, 2).Draw(t, tag+"_small") == 0
			b := genBlock(t, tag, small, types.BlockHeightZero+1+uint64(k))
			size, _ := genPartSize(t, len(b.bz), small)
			blk := b.fresh(t) // finalizeCommit saves the block it decoded from the parts it received
			prop := b.blk.MakePartSet(size)
			ps := specsOf(prop)
			parts := prop
			mode := rapid.SampledFrom([]string{"proposer", "receiver"}).Draw(t, tag+"_mode")
			if mode == "receiver" {
				parts = types.NewPartSetFromHeader(prop.Header())
				for _, i := range order(t, prop.Total()) {
					p, err := ps[i].wire()
					if err != nil {
						t.Fatalf("harness: genuine part does not survive the wire: %v", err)
					}
					if ok, err := parts.AddPart(p); !ok || err != nil {
						vstat.Violation(t, P, "partset:genuine-part-refused", "AddPart refused the proposer's part %d: %v", i, err)
						return
					}
				}
			}
			id := types.BlockID{Hash: b.hash, PartsHeader: prop.Header()}
			seen := genCommit(t, tag+"_seen", b.chain, blk.Height, id, rapid.IntRange(1, 4).Draw(t, tag+"_nseen"))
			res := &types.TxsResult{GasUsed: blk.GasUsed(), StateHash: blk.StateHash, ReceiptHash: blk.ReceiptHash}
			if pan := try(func() { bs.SaveBlock(blk, parts, seen, nil, res) }); pan != nil {
				vstat.Violation(t, P, "store:saveblock-panics", "SaveBlock(height %d, %d parts) panics: %v (%s)", blk.Height, prop.Total(), pan, b.shape)
				return
			}
			all = append(all, saved{b, ps, prop.Header(), seen, size})
			fmt.Fprintf(&fp, "%s/%d/%s|", b.shape, prop.Total(), mode)
			multi = multi || prop.Total() >= 2
			vstat.Label("C:parts=" + bucket(prop.Total()))
			vstat.Label("C:saved-from:" + mode)
		}
		if bs.Height() != types.BlockHeightZero+uint64(nblocks) {
			vstat.Violation(t, P, "store:height-wrong", "Height()=%d after saving %d blocks", bs.Height(), nblocks)
			return
		}
		// a node restarted over the same database must read the same
		stores := []*bc.BlockStore{bs, bc.NewBlockStore(db)}
		for si, st := range stores {
			for k, sv := range all {
				h := types.BlockHeightZero + 1 + uint64(k)
				var blk, byHash *types.Block
				var meta *types.BlockMeta
				var lc, sc *types.Commit
				var lps []*types.Part
				if pan := try(func() {
					blk = st.LoadBlock(h)
					byHash = st.LoadBlockByHash(sv.b.hash)
					meta = st.LoadBlockMeta(h)
					lc = st.LoadBlockCommit(h - 1)
					sc = st.LoadSeenCommit(h)
					for i := 0; i < sv.hdr.Total; i++ {
						lps = append(lps, st.LoadBlockPart(h, i))
					}
				}); pan != nil {
					vstat.Violation(t, P, "store:load-panics", "loading height %d (store %d) panics: %v (%s)", h, si, pan, sv.b.shape)
					return
				}
				if blk == nil || meta == nil || byHash == nil {
					vstat.Violation(t, P, "store:saved-block-not-found", "height %d (store %d): LoadBlock=%v LoadBlockMeta=%v LoadBlockByHash=%v", h, si, blk != nil, meta != nil, byHash != nil)
					return
				}
				if blk.Hash() != sv.b.hash || byHash.Hash() != sv.b.hash || !bytes.Equal(encodeAny(blk), sv.b.bz) || !bytes.Equal(encodeAny(byHash), sv.b.bz) {
					vstat.Violation(t, P, "store:loaded-block-differs", "height %d (store %d): loaded block %x, saved %x, encoding equal: %v (%s)", h, si, blk.Hash(), sv.b.hash, bytes.Equal(encodeAny(blk), sv.b.bz), sv.b.shape)
					return
				}
				if err := blk.ValidateBasic(); err != nil {
					vstat.Violation(t, P, "store:loaded-block-differs", "height %d: loaded block fails ValidateBasic: %v", h, err)
					return
				}
				want := types.BlockID{Hash: sv.b.hash, PartsHeader: sv.hdr}
				if !meta.BlockID.Equals(want) || meta.Header == nil || meta.Header.Hash() != sv.b.hash || !bytes.Equal(encodeAny(meta.Header), encodeAny(sv.b.fresh(t).Header)) {
					vstat.Violation(t, P, "store:loaded-meta-differs", "height %d (store %d): meta block id %v, want %v", h, si, meta.BlockID, want)
					return
				}
				if lc == nil || !bytes.Equal(encodeAny(lc), encodeAny(sv.b.fresh(t).LastCommit)) {
					vstat.Violation(t, P, "store:loaded-commit-differs", "height %d (store %d): LoadBlockCommit(%d) differs from the block's LastCommit", h, si, h-1)
					return
				}
				if sc == nil || !bytes.Equal(encodeAny(sc), encodeAny(sv.seen)) {
					vstat.Violation(t, P, "store:loaded-commit-differs", "height %d (store %d): LoadSeenCommit differs from the saved one", h, si)
					return
				}
				// the stored parts are the proposer's, and a catching-up peer can rebuild the block from them
				rb := types.NewPartSetFromHeader(meta.BlockID.PartsHeader)
				for i, p := range lps {
					if p == nil || !sameAsProposer(p, sv.parts[i]) {
						vstat.Violation(t, P, "store:loaded-part-differs", "height %d (store %d): LoadBlockPart(%d) differs from the proposer's part", h, si, i)
						return
					}
					if ok, err := rb.AddPart(p); !ok || err != nil {
						vstat.Violation(t, P, "store:loaded-part-differs", "height %d: stored part %d is refused by a part set made from the stored header: %v", h, i, err)
						return
					}
				}
				if !checkAssembled(t, rb, sv.b, func() string { return fmt.Sprintf("parts loaded from the store, height %d", h) }) {
					return
				}
				if st.LoadBlockPart(h, sv.hdr.Total) != nil {
					vstat.Violation(t, P, "store:loaded-part-differs", "height %d: LoadBlockPart(%d) returns a part beyond the total %d", h, sv.hdr.Total, sv.hdr.Total)
					return
				}
			}
		}
		if multi {
			vstat.NonTrivial("C|" + fp.String())
		}
	})
}
