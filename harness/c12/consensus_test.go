package c12

// Reassembly inside the running consensus machine: the block a node holds for a part-set header must BE the block those parts
// spell - also when it is the second block the node assembles in one round.  One real ConsensusState (validator 0) and puppet
// validators at height 1: the node gets block A (its own proposal, or a puppet's, completely or in part), then +2/3 prevotes of
// the same round for ANOTHER block B arrive (an equivocating proposer, or validators locked on an older block), then B's parts,
// then +2/3 precommits for B - in a generated order.  Oracle: whenever the node's part set for B's header is complete, the block
// object it holds hashes to B's hash and to the hash of a fresh decode of its own bytes; once it also has +2/3 precommits for B
// it has committed exactly B.

import (
	"fmt"
	"io/ioutil"
	"strings"
	"testing"

	"github.com/lianxiangcloud/linkchain/consensus"
	"github.com/lianxiangcloud/linkchain/libs/ser"
	"github.com/lianxiangcloud/linkchain/types"
	"pgregory.net/rapid"

	"verifharness/consim"
	"verifharness/vstat"
)

func runSecondBlockInRound(t *rapid.T) {
	vstat.Eval()
	nv := rapid.IntRange(4, 6).Draw(t, "validators")
	vals := make([]*consim.ValKey, nv)
	puppets := map[int]bool{}
	for i := range vals {
		vals[i] = consim.DetVal(i, 1)
		if i > 0 {
			puppets[i] = true
		}
	}
	n := consim.NewNet(vals, puppets, false)
	x, err := n.AddNode(0)
	if err != nil {
		t.Fatalf("node: %v", err)
	}
	defer n.Close()
	n.Start(x)
	var hist []string
	logf := func(f string, a ...interface{}) { hist = append(hist, fmt.Sprintf(f, a...)) }
	fail := func(key, f string, a ...interface{}) {
		vstat.Violation(t, P, key, "%s\nhistory:\n%s", fmt.Sprintf(f, a...), strings.Join(hist, "\n"))
	}
	// optionally a later round (ended without decision) so that the second block is not always met in round 0
	for skip := rapid.IntRange(0, 2).Draw(t, "nilrounds"); skip > 0; skip-- {
		rs := x.CS.GetRoundState()
		for _, typ := range []byte{types.VoteTypePrevote, types.VoteTypePrecommit} {
			for _, b := range consim.SortedKeys(puppets) {
				n.Deliver(x, n.Inject(b, &consensus.VoteMessage{Vote: n.SignedVote(b, typ, rs.Height, rs.Round, types.BlockID{})}))
			}
		}
		for i := 0; i < 8 && x.CS.GetRoundState().Round == rs.Round; i++ {
			sch := x.Ticker.Scheduled()
			fired := false
			for j := len(sch) - 1; j >= 0 && !fired; j-- {
				if !x.Fired[j] {
					n.FireTimeout(x, j)
					fired = true
				}
			}
			if !fired {
				break
			}
		}
	}
	rs := x.CS.GetRoundState()
	h, r := rs.Height, rs.Round
	if h != 1 || x.Crashed != nil {
		t.Skip("the node is not where the scenario starts")
	}
	propKey := n.KeyIndexOfValIndex(func() int { i, _ := rs.Validators.GetByAddress(rs.Validators.GetProposer().Address); return i }())
	// block A
	var aHash string
	if propKey == 0 {
		if rs.ProposalBlock == nil {
			t.Skip("the node has not proposed")
		}
		aHash = rs.ProposalBlock.Hash().Hex()[:10]
		logf("round %d: the node proposed A=%s itself (%d parts)", r, aHash, rs.ProposalBlockParts.Total())
	} else {
		msgs, a := n.ByzProposal(propKey, x, h, r, -1, types.BlockID{}, 1, nil)
		if a == nil {
			t.Skip("no block A")
		}
		aHash = a.Hash().Hex()[:10]
		keep := len(msgs)
		if rapid.IntRange(0, 3).Draw(t, "partialA") == 0 {
			keep = rapid.IntRange(1, len(msgs)-1).Draw(t, "partsOfA") // the proposal and only some of the parts
		}
		for _, m := range msgs[:keep] {
			n.Deliver(x, n.Inject(propKey, m))
		}
		logf("round %d: puppet %d proposes A=%s, the node gets the proposal and %d of %d parts", r, propKey, aHash, keep-1, len(msgs)-1)
	}
	// block B: same height and round, other content
	signer := propKey
	if signer == 0 {
		signer = 1
	}
	msgsB, b := n.ByzProposal(signer, x, h, r, -1, types.BlockID{}, uint64(2+rapid.IntRange(0, 50).Draw(t, "saltB")), nil)
	if b == nil {
		t.Skip("no block B")
	}
	partsB := msgsB[1:]
	idB := types.BlockID{Hash: b.Hash(), PartsHeader: b.MakePartSet(consim.PartSize).Header()}
	logf("B=%s (%d parts)", idB.Hash.Hex()[:10], len(partsB))
	if idB.Hash.Hex()[:10] == aHash {
		t.Skip("A and B are the same block")
	}
	// the remaining traffic in a generated order: prevotes for B, B's parts, precommits for B
	type step struct {
		kind string
		i    int
	}
	var steps []step
	ps := consim.SortedKeys(puppets)
	for i := range ps {
		steps = append(steps, step{"prevote", i})
	}
	order := rapid.SampledFrom([]string{"polka-parts-precommits", "polka-precommits-parts", "interleaved"}).Draw(t, "order")
	var partSteps, pcSteps []step
	for i := range partsB {
		partSteps = append(partSteps, step{"part", i})
	}
	partSteps = rapid.Permutation(partSteps).Draw(t, "partorder")
	for i := range ps {
		pcSteps = append(pcSteps, step{"precommit", i})
	}
	switch order {
	case "polka-parts-precommits":
		steps = append(append(steps, partSteps...), pcSteps...)
	case "polka-precommits-parts":
		steps = append(append(steps, pcSteps...), partSteps...)
	default:
		rest := rapid.Permutation(append(append([]step{}, partSteps...), pcSteps...)).Draw(t, "restorder")
		steps = append(steps, rest...)
	}
	// sometimes a few of B's parts come early (before the node knows B's header they are not for the part set it holds)
	if rapid.IntRange(0, 3).Draw(t, "earlyparts") == 0 {
		early := partSteps[:rapid.IntRange(1, len(partSteps)).Draw(t, "nearly")]
		steps = append(append([]step{}, early...), steps...)
	}
	vstat.Label("order_" + order)
	check := func(when string) bool {
		cur := x.CS.GetRoundState()
		if cur.Height != h {
			return true
		}
		if cur.ProposalBlockParts != nil && cur.ProposalBlockParts.HasHeader(idB.PartsHeader) && cur.ProposalBlockParts.IsComplete() {
			vstat.Label("second_block_complete")
			if cur.ProposalBlock == nil {
				return true // dropped (e.g. refused): nothing is held under B's header
			}
			bz, _ := ioutil.ReadAll(cur.ProposalBlockParts.GetReader())
			var fresh *types.Block
			if err := ser.DecodeBytes(bz, &fresh); err != nil || fresh == nil {
				fail("consensus:completed-part-set-does-not-decode", "%s: the node's complete part set for B does not decode: %v", when, err)
				return false
			}
			if got := cur.ProposalBlock.Hash(); got != idB.Hash || fresh.Hash() != idB.Hash {
				fail("consensus:held-block-is-not-the-block-of-its-parts", "%s: the node holds the complete part set of B=%s; the block object it holds says Hash()=%s, a fresh decode of the same bytes hashes to %s (A was %s)",
					when, idB.Hash.Hex()[:10], got.Hex()[:10], fresh.Hash().Hex()[:10], aHash)
				return false
			}
		}
		return true
	}
	for _, st := range steps {
		if x.Crashed != nil {
			break
		}
		switch st.kind {
		case "prevote":
			n.Deliver(x, n.Inject(ps[st.i], &consensus.VoteMessage{Vote: n.SignedVote(ps[st.i], types.VoteTypePrevote, h, r, idB)}))
		case "precommit":
			n.Deliver(x, n.Inject(ps[st.i], &consensus.VoteMessage{Vote: n.SignedVote(ps[st.i], types.VoteTypePrecommit, h, r, idB)}))
		case "part":
			n.Deliver(x, n.Inject(signer, partsB[st.i]))
		}
		if !check(fmt.Sprintf("after %s %d", st.kind, st.i)) {
			return
		}
	}
	logf("steps: %v", steps)
	vstat.NonTrivial(strings.Join(hist, "|"))
	if x.Crashed != nil {
		vstat.Label("node_refused_by_panic")
		return
	}
	// everything is delivered: all of B's parts and +2/3 precommits for B
	if len(x.Script.Commits) == 0 {
		cur := x.CS.GetRoundState()
		fail("consensus:second-block-of-round-not-committed", "the node has all %d parts of B=%s and precommits for it from %d of %d validators but has not committed (height %d round %d step %v, holds a block: %v)",
			len(partsB), idB.Hash.Hex()[:10], len(ps), nv, cur.Height, cur.Round, cur.Step, cur.ProposalBlock != nil)
		return
	}
	if got := x.Script.Commits[0].Hash; got != idB.Hash {
		fail("consensus:committed-block-is-not-the-decided-one", "+2/3 precommitted B=%s, the node committed %s", idB.Hash.Hex()[:10], got.Hex()[:10])
		return
	}
	vstat.Label("second_block_committed")
}

func TestSecondBlockInRound(t *testing.T) { rapid.Check(t, runSecondBlockInRound) }

// A part-set header whose root hash is empty (or too short to be a hash) can vouch for nothing: whatever is offered under it -
// genuine parts of some block, parts without a proof, with made-up or truncated proofs, at any index - is refused, and the
// set never completes.  (Nothing on the way refuses such a header: a signed proposal may carry it.)
func TestPartSetHeaderWithoutRoot(t *testing.T) {
	rapid.Check(t, func(t *rapid.T) {
		vstat.Eval()
		total := rapid.IntRange(1, 8).Draw(t, "total")
		var root []byte
		switch rapid.IntRange(0, 3).Draw(t, "rootshape") {
		case 0:
			root = nil
		case 1:
			root = []byte{}
		default:
			root = rapid.SliceOfN(rapid.Byte(), 1, 19).Draw(t, "shortroot")
		}
		rcv := types.NewPartSetFromHeader(types.PartSetHeader{Total: total, Hash: root})
		// a genuine part set with the same number of parts to borrow parts and proofs from
		chunk := rapid.IntRange(1, 64).Draw(t, "chunk")
		data := rapid.SliceOfN(rapid.Byte(), (total-1)*chunk+1, total*chunk).Draw(t, "data")
		donor := types.NewPartSetFromData(data, chunk)
		n := rapid.IntRange(1, 12).Draw(t, "noffers")
		for i := 0; i < n; i++ {
			idx := rapid.IntRange(0, total-1).Draw(t, "idx")
			src := donor.GetPart(idx % donor.Total())
			p := &types.Part{Index: idx, Bytes: append([]byte(nil), src.Bytes...)}
			kind := rapid.SampledFrom([]string{"genuine-proof", "no-aunts", "one-made-up-aunt", "truncated-proof", "extended-proof", "random-bytes"}).Draw(t, "offer")
			aunts := append([][]byte(nil), src.Proof.Aunts...)
			switch kind {
			case "no-aunts":
				aunts = nil
			case "one-made-up-aunt":
				aunts = [][]byte{rapid.SliceOfN(rapid.Byte(), 20, 32).Draw(t, "aunt")}
			case "truncated-proof":
				if len(aunts) > 0 {
					aunts = aunts[:len(aunts)-1]
				}
			case "extended-proof":
				aunts = append(aunts, rapid.SliceOfN(rapid.Byte(), 20, 32).Draw(t, "aunt"))
			case "random-bytes":
				p.Bytes = rapid.SliceOfN(rapid.Byte(), 0, 80).Draw(t, "bytes")
			}
			p.Proof.Aunts = aunts
			var added bool
			var err error
			pan := func() (r interface{}) {
				defer func() { r = recover() }()
				added, err = rcv.AddPart(p)
				return nil
			}()
			vstat.Label("rootless_offer_" + kind)
			if pan != nil {
				vstat.Violation(t, P, "partset:rootless-header-panics", "AddPart panics under a header with root %x: %v", root, pan)
				return
			}
			if added || rcv.Count() > 0 {
				vstat.Violation(t, P, "partset:part-admitted-under-header-without-root", "a part (%s, index %d of %d, %d aunts) is admitted under a part-set header whose root hash is %x (%d bytes): err=%v", kind, idx, total, len(aunts), root, len(root), err)
				return
			}
		}
		vstat.NonTrivial(fmt.Sprintf("%d|%x|%d", total, root, n))
	})
}
