package c12

// A block id is (block hash, part-set header).  Everything that books votes "per block" - VoteSet.votesByBlock, the
// peers' +2/3 claims, the majority comparison - does so under BlockID.Key(), so the identity of a block is only as
// good as that key: two ids that differ anywhere (any byte of the block hash, any byte of the part-set root, the number
// of parts) must have different keys, and equal ids the same key.  TestBlockIDKey checks exactly that on NEAR-MISS
// pairs (one bit, one byte, one count apart - ids drawn independently differ in their first bytes and would not notice
// a key that looks at a prefix only), and then checks the consequence in a real VoteSet: votes for two near-miss ids
// are never added up.

import (
	"bytes"
	"fmt"
	"testing"
	"time"

	"github.com/lianxiangcloud/linkchain/libs/common"
	"github.com/lianxiangcloud/linkchain/types"
	"pgregory.net/rapid"

	"verifharness/vstat"
)

func genBlockID(t *rapid.T, tag string) types.BlockID {
	var id types.BlockID
	copy(id.Hash[:], rapid.SliceOfN(rapid.Byte(), common.HashLength, common.HashLength).Draw(t, tag+"_hash"))
	id.PartsHeader.Hash = append([]byte(nil), rapid.SliceOfN(rapid.Byte(), common.HashLength, common.HashLength).Draw(t, tag+"_root")...)
	id.PartsHeader.Total = rapid.IntRange(1, 300).Draw(t, tag+"_total")
	return id
}

// nearMiss returns an id that differs from a in exactly one place (or not at all) and says where.
func nearMiss(t *rapid.T, a types.BlockID) (types.BlockID, string) {
	b := a
	b.PartsHeader.Hash = append([]byte(nil), a.PartsHeader.Hash...)
	switch rapid.SampledFrom([]string{"same", "hash-bit", "root-bit", "root-byte", "total", "hash-bit", "root-bit"}).Draw(t, "where") {
	case "same":
		return b, "same"
	case "hash-bit":
		i := rapid.IntRange(0, common.HashLength*8-1).Draw(t, "hbit")
		b.Hash[i/8] ^= 1 << uint(i%8)
		return b, fmt.Sprintf("hash-byte-%02d", i/8)
	case "root-bit":
		i := rapid.IntRange(0, common.HashLength*8-1).Draw(t, "rbit")
		b.PartsHeader.Hash[i/8] ^= 1 << uint(i%8)
		return b, fmt.Sprintf("root-byte-%02d", i/8)
	case "root-byte":
		i := rapid.IntRange(0, common.HashLength-1).Draw(t, "rbyte")
		b.PartsHeader.Hash[i] += byte(rapid.IntRange(1, 255).Draw(t, "rdelta"))
		return b, fmt.Sprintf("root-byte-%02d", i)
	default:
		d := rapid.IntRange(1, 300).Draw(t, "dtotal")
		b.PartsHeader.Total += d
		return b, "total"
	}
}

func TestBlockIDKey(t *testing.T) {
	rapid.Check(t, func(t *rapid.T) {
		vstat.Eval()
		a := genBlockID(t, "a")
		b, where := nearMiss(t, a)
		vstat.Label("blockid_differs_in_" + where)
		vstat.NonTrivial(fmt.Sprintf("%x|%x|%d|%s", a.Hash[:4], a.PartsHeader.Hash[:4], a.PartsHeader.Total, where))
		same := a.Hash == b.Hash && bytes.Equal(a.PartsHeader.Hash, b.PartsHeader.Hash) && a.PartsHeader.Total == b.PartsHeader.Total
		if a.Equals(b) != same {
			vstat.Violation(t, P, "blockid:equals-wrong", "BlockID.Equals says %v for ids that differ in %s: %v / %v", a.Equals(b), where, a, b)
		}
		if (a.Key() == b.Key()) != same {
			vstat.Violation(t, P, "blockid:key-not-injective", "BlockID.Key: keys equal = %v for two ids that differ in %s:\n a = %x %d:%x\n b = %x %d:%x",
				a.Key() == b.Key(), where, a.Hash, a.PartsHeader.Total, a.PartsHeader.Hash, b.Hash, b.PartsHeader.Total, b.PartsHeader.Hash)
		}

		// the consequence: n equal validators precommit, ka of them id a, kb of them id b; a majority exists only for an id
		// that more than two thirds of them signed
		n := rapid.IntRange(4, nValKeys).Draw(t, "nvals")
		vals := make([]*types.Validator, n)
		for i := 0; i < n; i++ {
			vals[i] = types.NewValidator(valKeys[i].PubKey(), common.Address{}, 1)
		}
		vs := types.NewValidatorSet(vals)
		const chain = "c12-blockid"
		set := types.NewVoteSet(chain, 3, 0, types.VoteTypePrecommit, vs)
		ka := rapid.IntRange(0, n).Draw(t, "ka")
		forA := 0
		forB := 0
		for i := 0; i < n; i++ {
			addr, _ := vs.GetByIndex(i)
			var key = valKeys[0]
			for _, k := range valKeys[:n] {
				if string(k.PubKey().Address()) == string(addr) {
					key = k
				}
			}
			id := b
			if i < ka {
				id = a
			}
			v := signVote(chain, key, &types.Vote{ValidatorAddress: addr, ValidatorIndex: i, ValidatorSize: n, Height: 3, Round: 0,
				Timestamp: time.Unix(1600000000, 0).UTC(), Type: types.VoteTypePrecommit, BlockID: id})
			if ok, err := set.AddVote(v); !ok || err != nil {
				t.Fatalf("harness: a correctly signed first vote of validator %d is refused: %v %v", i, ok, err)
			}
			if id.Equals(a) {
				forA++
			} else {
				forB++
			}
		}
		got, has := set.TwoThirdsMajority()
		var want *types.BlockID
		switch {
		case forA*3 > n*2:
			want = &a
		case forB*3 > n*2:
			want = &b
		}
		if has != (want != nil) || (has && !got.Equals(*want)) {
			vstat.Violation(t, P, "blockid:votes-for-different-ids-added-up", "%d validators: %d precommit id a, %d precommit id b (they differ in %s): TwoThirdsMajority = %v, %v; expected a majority: %v",
				n, forA, forB, where, got, has, want != nil)
		}
		if !same && forA > 0 && forB > 0 && forA*3 <= n*2 && forB*3 <= n*2 {
			vstat.Label("voteset_split_between_near_miss_ids")
		}
	})
}
