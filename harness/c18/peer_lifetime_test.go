package c18

// A peer the Switch has admitted stays usable: what is sent over it arrives intact and in order however old the connection is -
// in particular after the handshake timeout has passed (the handshakes arm deadlines on the raw connection; every one of them
// has to be lifted again).  The whole admission path of the Switch is driven (newPeerConn, secret handshake, NodeInfo exchange,
// MConnection) over a connection that honours deadlines (net.Pipe); the remote side is an honest peer built from the same
// exported pieces.  The handshake timeout is shortened so that "older than the timeout" costs a fraction of a second.

import (
	"bytes"
	"fmt"
	"net"
	"sync"
	"testing"
	"time"

	"github.com/lianxiangcloud/linkchain/config"
	"github.com/lianxiangcloud/linkchain/libs/crypto"
	dbm "github.com/lianxiangcloud/linkchain/libs/db"
	"github.com/lianxiangcloud/linkchain/libs/log"
	"github.com/lianxiangcloud/linkchain/libs/p2p"
	pcommon "github.com/lianxiangcloud/linkchain/libs/p2p/common"
	"github.com/lianxiangcloud/linkchain/libs/p2p/conn"
	"github.com/lianxiangcloud/linkchain/libs/ser"
	"github.com/lianxiangcloud/linkchain/types"
	"pgregory.net/rapid"

	"verifharness/vstat"
)

const lifeCh = byte(0x77)

type lifeReactor struct {
	*p2p.BaseReactor
	added chan p2p.Peer
	mu    sync.Mutex
	got   [][]byte
}

func (r *lifeReactor) GetChannels() []*conn.ChannelDescriptor {
	return []*conn.ChannelDescriptor{{ID: lifeCh, Priority: 1, SendQueueCapacity: 64, RecvMessageCapacity: 1 << 20}}
}
func (r *lifeReactor) AddPeer(p p2p.Peer) { r.added <- p }
func (r *lifeReactor) Receive(ch byte, p p2p.Peer, msg []byte) {
	r.mu.Lock()
	r.got = append(r.got, append([]byte(nil), msg...))
	r.mu.Unlock()
}
func (r *lifeReactor) received() [][]byte {
	r.mu.Lock()
	defer r.mu.Unlock()
	return append([][]byte(nil), r.got...)
}

type addrPipe struct{ net.Conn }

func (c addrPipe) RemoteAddr() net.Addr { return &net.TCPAddr{IP: net.IPv4(127, 0, 0, 1), Port: 40001} }
func (c addrPipe) LocalAddr() net.Addr  { return &net.TCPAddr{IP: net.IPv4(127, 0, 0, 1), Port: 13501} }

func waitFor(d time.Duration, cond func() bool) bool {
	end := time.Now().Add(d)
	for time.Now().Before(end) {
		if cond() {
			return true
		}
		time.Sleep(5 * time.Millisecond)
	}
	return cond()
}

func TestPeerOutlivesHandshakeTimeout(t *testing.T) {
	rapid.Check(t, func(t *rapid.T) {
		vstat.Eval()
		p2p.DefaultNewTableFunc = func(sw *p2p.Switch, seeds []*pcommon.Node) error { return nil }
		p2p.ListenerBindFunc = func(types.NodeType, string, string, log.Logger) (net.Listener, *p2p.NetAddress, *net.UDPConn, bool) {
			return nil, nil, nil, false
		}
		hsTimeout := time.Duration(rapid.IntRange(120, 250).Draw(t, "handshake_timeout_ms")) * time.Millisecond
		cfg := config.DefaultP2PConfig()
		cfg.HandshakeTimeout = hsTimeout
		kS, kR := crypto.GenPrivKeyEd25519FromSecret([]byte("c18-life-switch")), crypto.GenPrivKeyEd25519FromSecret([]byte("c18-life-remote"))
		ni := testNodeInfo("switch")
		ni.Channels = []byte{lifeCh}
		sw, err := p2p.NewP2pManager(log.Root(), kS, cfg, ni, nil, dbm.NewMemDB())
		if err != nil {
			t.Fatalf("harness: NewP2pManager: %v", err)
		}
		re := &lifeReactor{added: make(chan p2p.Peer, 1)}
		re.BaseReactor = p2p.NewBaseReactor("c18-life", re)
		sw.AddReactor("c18-life", re)
		lst := &memListener{ch: make(chan net.Conn, 1)}
		sw.AddListener(lst)
		if err := sw.Start(); err != nil {
			t.Fatalf("harness: Switch.Start: %v", err)
		}
		defer sw.Stop()
		a, b := net.Pipe()
		defer a.Close()
		defer b.Close()
		opened := time.Now()
		lst.ch <- addrPipe{a}

		// the remote peer
		var rmu sync.Mutex
		var rgot [][]byte
		var mc *conn.MConnection
		ready := make(chan error, 1)
		go func() {
			sc, err := conn.MakeSecretConnection(b, kR)
			if err != nil {
				ready <- err
				return
			}
			rni := testNodeInfo("remote")
			rni.PubKey = kR.PubKey().(crypto.PubKeyEd25519)
			rni.Channels = []byte{lifeCh}
			var wg sync.WaitGroup
			wg.Add(1)
			go func() { defer wg.Done(); ser.EncodeWriterWithType(sc, rni) }()
			var theirs p2p.NodeInfo
			if _, err := ser.DecodeReaderWithType(sc, &theirs, int64(p2p.MaxNodeInfoSize())); err != nil {
				ready <- err
				return
			}
			wg.Wait()
			mc = conn.NewMConnection(sc, []*conn.ChannelDescriptor{{ID: lifeCh, Priority: 1, SendQueueCapacity: 64, RecvMessageCapacity: 1 << 20}},
				func(ch byte, msg []byte) {
					rmu.Lock()
					rgot = append(rgot, append([]byte(nil), msg...))
					rmu.Unlock()
				}, func(interface{}) {})
			mc.SetLogger(log.NewNopLogger())
			ready <- mc.Start()
		}()
		var peer p2p.Peer
		select {
		case peer = <-re.added:
		case <-time.After(guard):
			vstat.Label("inconclusive_guard_expired")
			t.Skip("inconclusive: the Switch did not admit the honest peer in time")
		}
		if err := <-ready; err != nil {
			t.Skip("inconclusive: the remote side of the handshake failed: " + err.Error())
		}
		defer mc.Stop()
		// traffic in both directions: right away, and again when the connection is older than the handshake timeout
		var sentToSwitch, sentToRemote [][]byte
		batch := func(tag string) bool {
			n := rapid.IntRange(1, 4).Draw(t, tag+"_n")
			for i := 0; i < n; i++ {
				m1 := bytes.Repeat([]byte{byte(len(sentToSwitch) + 1)}, rapid.SampledFrom([]int{1, 100, 1023, 1024, 1025, 5000}).Draw(t, tag+"_size"))
				m2 := bytes.Repeat([]byte{byte(len(sentToRemote) + 101)}, rapid.SampledFrom([]int{1, 100, 1023, 1024, 1025, 5000}).Draw(t, tag+"_size2"))
				sentToSwitch, sentToRemote = append(sentToSwitch, m1), append(sentToRemote, m2)
				mc.Send(lifeCh, m1)
				peer.Send(lifeCh, m2)
			}
			return waitFor(guard/4, func() bool {
				rmu.Lock()
				defer rmu.Unlock()
				return len(re.received()) >= len(sentToSwitch) && len(rgot) >= len(sentToRemote)
			})
		}
		same := func(a, b [][]byte) bool {
			if len(a) != len(b) {
				return false
			}
			for i := range a {
				if !bytes.Equal(a[i], b[i]) {
					return false
				}
			}
			return true
		}
		okEarly := batch("early")
		age := time.Since(opened)
		if wait := hsTimeout + hsTimeout/2 - age; wait > 0 {
			time.Sleep(wait)
		}
		okLate := batch("late")
		if !okLate && peer.IsRunning() {
			// slow, not dead (a loaded machine): give it the rest of the guard before judging
			okLate = waitFor(guard/2, func() bool {
				rmu.Lock()
				defer rmu.Unlock()
				return len(re.received()) >= len(sentToSwitch) && len(rgot) >= len(sentToRemote)
			})
		}
		rmu.Lock()
		gotRemote := append([][]byte(nil), rgot...)
		rmu.Unlock()
		gotSwitch := re.received()
		vstat.NonTrivial(fmt.Sprintf("%v|%d|%d", hsTimeout, len(sentToSwitch), len(sentToRemote)))
		if !okEarly {
			vstat.Label("inconclusive_early_batch_not_delivered")
			t.Skip("inconclusive: the first batch was not delivered in time")
		}
		if !okLate || !same(gotSwitch, sentToSwitch) || !same(gotRemote, sentToRemote) {
			vstat.Violation(t, P, "peer:admitted-connection-dies-or-loses-messages-after-handshake-timeout", "handshake timeout %v, connection %v old: the Switch's reactor received %d of %d messages, the remote peer %d of %d (peer running: %v); before the timeout had passed everything was delivered",
				hsTimeout, time.Since(opened).Round(time.Millisecond), len(gotSwitch), len(sentToSwitch), len(gotRemote), len(sentToRemote), peer.IsRunning())
		}
	})
}
