// C18 — peer connections deliver each channel's messages intact, in order, authenticated.
//
// Three rapid checks, one per clause of the property:
//
//	TestSecretStream   byte-stream clause: two SecretConnection endpoints over a harness pipe with generated
//	                   write fragmentation and short reads; bytes read == bytes written, in order.
//	TestMConnChannels  channel clause: a pair of MConnections with 1-4 generated channels; per channel the
//	                   delivered message sequence == the sequence accepted by Send/TrySend, each message intact.
//	TestHandshakeMITM  authentication clause: a scripted man in the middle between two MakeSecretConnection
//	                   calls; a side may succeed only with a remote key whose holder signed that side's
//	                   challenge in this very session.
//
// Every choice (sizes, chunkings, scripts, tamperings) is drawn from rapid before any goroutine starts; the
// goroutines only execute the pre-drawn plan, and verdicts are taken after they have been joined.  The only
// randomness not under rapid's control are the ephemeral keys MakeSecretConnection draws from crypto/rand.
package c18

import (
	"bytes"
	"crypto/sha256"
	"encoding/binary"
	"fmt"
	"io"
	"math"
	"net"
	"os"
	"sync"
	"sync/atomic"
	"testing"
	"time"

	"github.com/lianxiangcloud/linkchain/libs/crypto"
	"github.com/lianxiangcloud/linkchain/libs/log"
	"github.com/lianxiangcloud/linkchain/libs/p2p/conn"
	"github.com/lianxiangcloud/linkchain/libs/ser"
	"pgregory.net/rapid"

	"verifharness/vstat"
)

const P = "C18"

func TestMain(m *testing.M) {
	log.Root().SetHandler(log.DiscardHandler())
	vstat.Main(m)
}

// ================================================================ guard
//
// No oracle depends on time.  Goroutines are joined with WaitGroups / channels.  The guard is only a backstop
// against a harness deadlock or a hang of the code under test that no oracle explains (for instance accepted
// messages that never leave the sender while the connection stays up): when it expires the case is reported
// as "inconclusive" (label + note in the evidence, case skipped), never as a violation.  Cases take
// milliseconds, so the guard is generous by three orders of magnitude.  A process that runs into the guard
// three times stops without a verdict (the driver reports that as an infrastructure problem, exit 2) instead
// of spending the whole budget waiting.

const guard = 20 * time.Second
const maxInconclusive = 3

var inconclusiveSeen int32

func wgChan(wg *sync.WaitGroup) <-chan struct{} {
	ch := make(chan struct{})
	go func() { wg.Wait(); close(ch) }()
	return ch
}

func waitOrGuard(chs ...<-chan struct{}) bool {
	tm := time.NewTimer(guard)
	defer tm.Stop()
	for _, ch := range chs {
		select {
		case <-ch:
		case <-tm.C:
			return false
		}
	}
	return true
}

// wantSample: the evidence keeps eight samples over all processes of the property; only shard 0 of each test
// contributes, and only a few, so that every check is represented.
var samplesLeft = 3

func wantSample() bool {
	if sh := os.Getenv("VERIF_SHARD"); sh != "" && sh != "0" {
		return false
	}
	if samplesLeft <= 0 || !vstat.WantSample() {
		return false
	}
	samplesLeft--
	return true
}

func inconclusive(t *rapid.T, what string) {
	vstat.Label("inconclusive_guard_expired")
	if len(what) > 600 {
		what = what[:600] + "..."
	}
	vstat.Note("inconclusive (guard expired, no verdict): " + what)
	if atomic.AddInt32(&inconclusiveSeen, 1) >= maxInconclusive {
		vstat.Note("process stopped after repeated guard expiry")
		vstat.Flush()
		fmt.Fprintf(os.Stderr, "C18: guard expired %d times in this process, stopping without a verdict; last: %s\n", maxInconclusive, what)
		os.Exit(3)
	}
	t.Skipf("inconclusive: %s", what)
}

// ================================================================ harness pipe
//
// A synchronous in-memory duplex connection (like net.Pipe) whose two directions each carry a write-fragment
// schedule and a short-read schedule:
//   - Write(p) hands p over in fragments whose sizes come from the write schedule; it returns when the reader
//     has consumed every byte (or the connection is closed);
//   - the k-th Read returns min(len(buf), k-th entry of the read schedule, rest of the current fragment).
// A Read never returns bytes of two different Write calls.  That is deliberate: the handshake decodes its
// first message through a throw-away bufio.Reader (ser.DecodeReaderWithType on the raw conn), so a transport
// that coalesces the peer's ephemeral key with its following auth frame into one Read makes that side lose
// the frame and stall until its deadline while the peer completes (probed on the unchanged tree).  That is a
// liveness defect of the handshake, not one of C18's clauses (no wrong key is accepted, no accepted byte is
// altered), so the pipe does not produce that shape; it is mentioned in the report.
// Because a Write completes only when its bytes were consumed, what each Read returns is a function of the
// schedules and of the bytes the code under test writes, not of goroutine timing.

type sched struct {
	sizes []int
	i     int
}

func (s *sched) next() int {
	if len(s.sizes) == 0 {
		return math.MaxInt32
	}
	v := s.sizes[s.i%len(s.sizes)]
	s.i++
	if v < 1 {
		v = 1
	}
	return v
}

// half is one direction of the pipe.
type half struct {
	mu     sync.Mutex
	cond   *sync.Cond
	wmu    sync.Mutex // one Write call at a time
	cur    []byte     // fragment on offer
	eof    bool       // writing side closed: reads return EOF
	broken bool       // reading side closed: writes fail
	w, r   sched
	reads  int
	short  int // reads that returned fewer bytes than asked for
}

func newHalf(w, r []int) *half {
	h := &half{w: sched{sizes: w}, r: sched{sizes: r}}
	h.cond = sync.NewCond(&h.mu)
	return h
}

func (h *half) write(p []byte) (int, error) {
	h.wmu.Lock()
	defer h.wmu.Unlock()
	h.mu.Lock()
	defer h.mu.Unlock()
	n := 0
	for len(p) > 0 {
		if h.broken || h.eof {
			return n, io.ErrClosedPipe
		}
		f := h.w.next()
		if f > len(p) {
			f = len(p)
		}
		h.cur = p[:f]
		h.cond.Broadcast()
		for len(h.cur) > 0 && !h.broken && !h.eof {
			h.cond.Wait()
		}
		n += f - len(h.cur)
		if len(h.cur) > 0 {
			h.cur = nil
			return n, io.ErrClosedPipe
		}
		p = p[f:]
	}
	return n, nil
}

func (h *half) read(p []byte) (int, error) {
	if len(p) == 0 {
		return 0, nil
	}
	h.mu.Lock()
	defer h.mu.Unlock()
	for len(h.cur) == 0 && !h.eof && !h.broken {
		h.cond.Wait()
	}
	if h.eof || h.broken {
		return 0, io.EOF
	}
	n := len(p)
	if k := h.r.next(); k < n {
		n = k
	}
	if len(h.cur) < n {
		n = len(h.cur)
	}
	copy(p, h.cur[:n])
	h.cur = h.cur[n:]
	h.reads++
	if n < len(p) {
		h.short++
	}
	if len(h.cur) == 0 {
		h.cond.Broadcast()
	}
	return n, nil
}

func (h *half) closeWrite() { h.mu.Lock(); h.eof = true; h.cond.Broadcast(); h.mu.Unlock() }
func (h *half) closeRead()  { h.mu.Lock(); h.broken = true; h.cond.Broadcast(); h.mu.Unlock() }

// pconn is one endpoint; it implements net.Conn (MConnection and SecretConnection want one).
type pconn struct {
	rd, wr *half
	name   string
}

type pipeAddr string

func (a pipeAddr) Network() string { return "c18pipe" }
func (a pipeAddr) String() string  { return string(a) }

func (c *pconn) Read(p []byte) (int, error)         { return c.rd.read(p) }
func (c *pconn) Write(p []byte) (int, error)        { return c.wr.write(p) }
func (c *pconn) Close() error                       { c.wr.closeWrite(); c.rd.closeRead(); return nil }
func (c *pconn) CloseWrite()                        { c.wr.closeWrite() }
func (c *pconn) LocalAddr() net.Addr                { return pipeAddr(c.name) }
func (c *pconn) RemoteAddr() net.Addr               { return pipeAddr(c.name + "-remote") }
func (c *pconn) SetDeadline(t time.Time) error      { return nil }
func (c *pconn) SetReadDeadline(t time.Time) error  { return nil }
func (c *pconn) SetWriteDeadline(t time.Time) error { return nil }

// pipeSched holds the four schedules of one duplex pipe.
type pipeSched struct {
	WAB, RAB, WBA, RBA []int
}

func newPipe(s pipeSched, nameA, nameB string) (*pconn, *pconn) {
	ab := newHalf(s.WAB, s.RAB)
	ba := newHalf(s.WBA, s.RBA)
	return &pconn{rd: ba, wr: ab, name: nameA}, &pconn{rd: ab, wr: ba, name: nameB}
}

// genSched draws a cyclic schedule of chunk sizes.  If the average is tiny an extra large entry is appended so
// that the number of goroutine hand-overs per case stays bounded (sizes, not wall-clock, bound the work).
func genSched(t *rapid.T, label string) []int {
	n := rapid.IntRange(0, 5).Draw(t, label+"_n")
	if n == 0 {
		return nil // no fragmentation beyond the callers' own buffer sizes
	}
	out := make([]int, 0, n+1)
	sum := 0
	for i := 0; i < n; i++ {
		var v int
		switch rapid.IntRange(0, 5).Draw(t, label+"_cls") {
		case 0:
			v = 1
		case 1:
			v = rapid.IntRange(2, 8).Draw(t, label+"_v")
		case 2:
			v = rapid.IntRange(9, 200).Draw(t, label+"_v")
		case 3:
			v = rapid.IntRange(201, 1500).Draw(t, label+"_v")
		case 4:
			v = rapid.IntRange(1501, 40000).Draw(t, label+"_v")
		default:
			v = 1 << 20
		}
		out = append(out, v)
		sum += v
	}
	if sum/len(out) < 128 {
		out = append(out, 4096)
	}
	return out
}

func genPipeSched(t *rapid.T, label string) pipeSched {
	return pipeSched{
		WAB: genSched(t, label+"_wab"), RAB: genSched(t, label+"_rab"),
		WBA: genSched(t, label+"_wba"), RBA: genSched(t, label+"_rba"),
	}
}

func hasTiny(s pipeSched) bool {
	for _, l := range [][]int{s.WAB, s.RAB, s.WBA, s.RBA} {
		for _, v := range l {
			if v <= 8 {
				return true
			}
		}
	}
	return false
}

// ================================================================ data and keys

// expand turns a drawn (seed, kind) into n bytes, deterministically.  Kinds differ in how well snappy (the
// compiled-in frame mode) compresses them: frames range from a few bytes to more than the chunk size.
func expand(seed uint64, n, kind int) []byte {
	b := make([]byte, n)
	x := seed*0x9E3779B97F4A7C15 + 0x632BE59BD9B4E019
	if x == 0 {
		x = 1
	}
	next := func() uint64 { x ^= x << 13; x ^= x >> 7; x ^= x << 17; return x }
	switch kind {
	case 0: // incompressible
		for i := 0; i < n; i += 8 {
			v := next()
			for j := 0; j < 8 && i+j < n; j++ {
				b[i+j] = byte(v >> (8 * uint(j)))
			}
		}
	case 1: // one repeated byte
		c := byte(seed)
		for i := range b {
			b[i] = c
		}
	case 2: // short period
		per := 1 + int(seed%61)
		pat := expand(seed+1, per, 0)
		for i := range b {
			b[i] = pat[i%per]
		}
	case 4: // hexadecimal text of random bytes: a 16-letter alphabet gives snappy occasional short matches inside long literals
		const hexdigits = "0123456789abcdef"
		for i := 0; i < n; i += 16 {
			v := next()
			for j := 0; j < 16 && i+j < n; j++ {
				b[i+j] = hexdigits[(v>>(4*uint(j)))&15]
			}
		}
	case 5: // worst case for snappy: random bytes with 4-byte repeats of material that lies 2 KiB or more back, every few bytes.
		// Every repeat becomes a 3-byte copy but splits the literal run, so the block is LONGER than the input.
		for i := 0; i < n; i += 8 {
			v := next()
			for j := 0; j < 8 && i+j < n; j++ {
				b[i+j] = byte(v >> (8 * uint(j)))
			}
		}
		gap := 7 + int(seed%9)
		for i := 2100; i+4 <= n; i += gap {
			src := i - 2048 - int(next()%50)
			copy(b[i:i+4], b[src:src+4])
		}
	default: // position dependent but compressible
		for i := range b {
			b[i] = byte(i/251) ^ byte(i) ^ byte(seed)
		}
	}
	return b
}

type keySpec struct {
	Secp bool   `json:"secp"`
	Seed []byte `json:"seed"`
}

func genKeySpec(t *rapid.T, label string) keySpec {
	return keySpec{
		Secp: rapid.IntRange(0, 3).Draw(t, label+"_secp") == 0,
		Seed: rapid.SliceOfN(rapid.Byte(), 0, 4).Draw(t, label+"_seed"),
	}
}

// mkKey derives a key from the role and the drawn seed; different roles never share a key.
func mkKey(role string, s keySpec) crypto.PrivKey {
	secret := append([]byte("c18/"+role+"/"), s.Seed...)
	if s.Secp {
		return crypto.GenPrivKeySecp256k1FromSecret(secret)
	}
	return crypto.GenPrivKeyEd25519FromSecret(secret)
}

// secretPair runs the honest handshake on both ends of a pipe.
func secretPair(a, b io.ReadWriteCloser, kA, kB crypto.PrivKey) (scA, scB *conn.SecretConnection, errA, errB error, ok bool) {
	var wg sync.WaitGroup
	wg.Add(2)
	go func() {
		defer wg.Done()
		defer func() {
			if r := recover(); r != nil {
				errA = fmt.Errorf("panic: %v", r)
			}
		}()
		scA, errA = conn.MakeSecretConnection(a, kA)
	}()
	go func() {
		defer wg.Done()
		defer func() {
			if r := recover(); r != nil {
				errB = fmt.Errorf("panic: %v", r)
			}
		}()
		scB, errB = conn.MakeSecretConnection(b, kB)
	}()
	ok = waitOrGuard(wgChan(&wg))
	return
}

// ================================================================ 1. byte-stream phase

const frameData = 32 * 1024 // SecretConnection cuts writes into chunks of this many bytes

type wspec struct {
	Size int    `json:"size"`
	Kind int    `json:"kind"`
	Seed uint64 `json:"seed"`
}

type streamDir struct {
	Writes []wspec `json:"writes"`
	Bufs   []int   `json:"read_bufs"`
}

type streamPlan struct {
	KeyA, KeyB keySpec
	AB, BA     streamDir
	Pipe       pipeSched
}

func genWriteSize(t *rapid.T) int {
	switch rapid.IntRange(0, 9).Draw(t, "wcls") {
	case 0, 1: // chunk boundaries
		return rapid.SampledFrom([]int{1, 2, frameData - 1, frameData, frameData + 1, 2*frameData - 1, 2 * frameData, 2*frameData + 1, 3 * frameData, 3*frameData + 1, 200 * 1024}).Draw(t, "wsize")
	case 2, 3:
		return rapid.IntRange(1, 300).Draw(t, "wsize")
	case 4, 5, 6: // spans two or more frames
		return rapid.IntRange(frameData+1, 200*1024).Draw(t, "wsize")
	default:
		return rapid.IntRange(1, 40000).Draw(t, "wsize")
	}
}

func genReadBuf(t *rapid.T) int {
	switch rapid.IntRange(0, 7).Draw(t, "rcls") {
	case 0:
		return 1
	case 1:
		return rapid.IntRange(2, 16).Draw(t, "rbuf")
	case 2:
		return rapid.IntRange(17, 1024).Draw(t, "rbuf")
	case 3, 4:
		return rapid.IntRange(1025, frameData-1).Draw(t, "rbuf")
	case 5:
		return rapid.SampledFrom([]int{frameData - 1, frameData, frameData + 1, 64 * 1024}).Draw(t, "rbuf")
	default:
		return rapid.IntRange(frameData, 64*1024).Draw(t, "rbuf")
	}
}

func genStreamDir(t *rapid.T, minWrites int) streamDir {
	const maxTotal = 420 * 1024 // per direction; bounds the work of one case
	var d streamDir
	n := rapid.IntRange(minWrites, 4).Draw(t, "nwrites")
	total := 0
	for i := 0; i < n; i++ {
		sz := genWriteSize(t)
		if total+sz > maxTotal {
			sz = maxTotal - total
		}
		if sz < 1 {
			break
		}
		total += sz
		d.Writes = append(d.Writes, wspec{Size: sz, Kind: rapid.IntRange(0, 5).Draw(t, "wkind"), Seed: rapid.Uint64().Draw(t, "wseed")})
	}
	nb := rapid.IntRange(1, 5).Draw(t, "nbufs")
	for i := 0; i < nb; i++ {
		d.Bufs = append(d.Bufs, genReadBuf(t))
	}
	return d
}

type streamRes struct {
	wrote   int // bytes the writer handed to Write calls that reported full success
	werr    string
	got     []byte
	rerr    error
	badRead string
	pan     interface{}
}

func streamWriter(sc *conn.SecretConnection, writes [][]byte, res *streamRes, wg *sync.WaitGroup) {
	defer wg.Done()
	defer func() {
		if r := recover(); r != nil {
			res.pan = fmt.Sprintf("Write panicked: %v", r)
		}
	}()
	for i, w := range writes {
		n, err := sc.Write(w)
		if err != nil || n != len(w) {
			res.werr = fmt.Sprintf("write #%d of %d bytes returned n=%d err=%v", i, len(w), n, err)
			return
		}
		res.wrote += n
	}
}

// streamReader reads until the connection reports an error (EOF after the harness closed the pipe), using the
// drawn buffer sizes cyclically.  It deliberately reads past the expected length so that surplus bytes show.
func streamReader(sc *conn.SecretConnection, bufs []int, expect int, res *streamRes, wg *sync.WaitGroup) {
	defer wg.Done()
	defer func() {
		if r := recover(); r != nil {
			res.pan = fmt.Sprintf("Read panicked: %v", r)
		}
	}()
	big := make([]byte, 64*1024)
	res.got = make([]byte, 0, expect+16)
	zero := 0
	for i := 0; ; i++ {
		buf := big[:bufs[i%len(bufs)]]
		n, err := sc.Read(buf)
		if n < 0 || n > len(buf) {
			res.badRead = fmt.Sprintf("Read into %d bytes returned n=%d", len(buf), n)
			return
		}
		res.got = append(res.got, buf[:n]...)
		if err != nil {
			res.rerr = err
			return
		}
		if n == 0 {
			if zero++; zero > 1000 {
				res.badRead = "Read keeps returning 0, nil"
				return
			}
		} else {
			zero = 0
		}
		if len(res.got) > expect+1<<20 {
			res.badRead = "Read keeps producing bytes far beyond what was written"
			return
		}
	}
}

func firstDiff(a, b []byte) int {
	n := len(a)
	if len(b) < n {
		n = len(b)
	}
	for i := 0; i < n; i++ {
		if a[i] != b[i] {
			return i
		}
	}
	return n
}

func runStream(t *rapid.T) {
	vstat.Eval()
	var pl streamPlan
	pl.KeyA, pl.KeyB = genKeySpec(t, "ka"), genKeySpec(t, "kb")
	pl.AB = genStreamDir(t, 1)
	pl.BA = genStreamDir(t, 0)
	pl.Pipe = genPipeSched(t, "pipe")
	kA, kB := mkKey("A", pl.KeyA), mkKey("B", pl.KeyB)

	// materialise every byte before any goroutine exists
	mat := func(d streamDir) (ws [][]byte, all []byte) {
		for _, w := range d.Writes {
			b := expand(w.Seed, w.Size, w.Kind)
			ws = append(ws, b)
			all = append(all, b...)
		}
		return
	}
	wAB, wantAB := mat(pl.AB)
	wBA, wantBA := mat(pl.BA)

	a, b := newPipe(pl.Pipe, "A", "B")
	defer a.Close()
	defer b.Close()
	scA, scB, errA, errB, ok := secretPair(a, b, kA, kB)
	if !ok {
		a.Close()
		b.Close()
		inconclusive(t, "stream: honest handshake did not return")
	}
	if errA != nil || errB != nil {
		// the auth messages travel through SecretConnection.Write/Read themselves
		vstat.Violation(t, P, "stream:honest-handshake-failed", "honest handshake over chunked pipe failed: A=%v B=%v; pipe %+v", errA, errB, pl.Pipe)
		return
	}
	if !scA.RemotePubKey().Equals(kB.PubKey()) || !scB.RemotePubKey().Equals(kA.PubKey()) {
		vstat.Violation(t, P, "handshake:honest-peer-key-misreported", "honest handshake reports remote keys %v / %v", scA.RemotePubKey(), scB.RemotePubKey())
		return
	}

	var rAB, rBA streamRes // rAB: A writes, B reads
	var wwg, rwg sync.WaitGroup
	wwg.Add(2)
	rwg.Add(2)
	go streamReader(scB, pl.AB.Bufs, len(wantAB), &rAB, &rwg)
	go streamReader(scA, pl.BA.Bufs, len(wantBA), &rBA, &rwg)
	go streamWriter(scA, wAB, &rAB, &wwg)
	go streamWriter(scB, wBA, &rBA, &wwg)
	// A Write returns only when the far side has consumed its frames, so once both writers are back every
	// transport byte has been taken in by the readers; closing now turns their next transport read into EOF.
	if !waitOrGuard(wgChan(&wwg)) {
		a.Close()
		b.Close()
		inconclusive(t, fmt.Sprintf("stream: writers did not return; plan %+v", pl))
	}
	a.Close()
	b.Close()
	if !waitOrGuard(wgChan(&rwg)) {
		inconclusive(t, "stream: readers did not return after close")
	}

	for _, d := range []struct {
		name string
		res  *streamRes
		want []byte
		dir  streamDir
	}{{"A->B", &rAB, wantAB, pl.AB}, {"B->A", &rBA, wantBA, pl.BA}} {
		r := d.res
		switch {
		case r.pan != nil:
			vstat.Violation(t, P, "stream:panic", "%s: %v; writes %+v read bufs %v pipe %+v", d.name, r.pan, d.dir.Writes, d.dir.Bufs, pl.Pipe)
		case r.werr != "":
			vstat.Violation(t, P, "stream:write-failed", "%s: %s; writes %+v", d.name, r.werr, d.dir.Writes)
		case r.badRead != "":
			vstat.Violation(t, P, "stream:read-contract", "%s: %s; read bufs %v", d.name, r.badRead, d.dir.Bufs)
		case !bytes.Equal(r.got, d.want):
			i := firstDiff(r.got, d.want)
			key := "stream:bytes-differ"
			if i == len(r.got) {
				key = "stream:bytes-lost"
			} else if i == len(d.want) {
				key = "stream:bytes-extra"
			}
			vstat.Violation(t, P, key, "%s: wrote %d bytes, read %d bytes, first difference at offset %d (read err %v); writes %+v read bufs %v pipe %+v",
				d.name, len(d.want), len(r.got), i, r.rerr, d.dir.Writes, d.dir.Bufs, pl.Pipe)
		}
	}

	// ---- classification
	nt := false
	for _, d := range []streamDir{pl.AB, pl.BA} {
		multi, small := false, false
		for _, w := range d.Writes {
			if w.Size > frameData {
				multi = true
			}
			switch w.Size {
			case frameData - 1, frameData, frameData + 1, 2 * frameData, 2*frameData + 1:
				vstat.Label("stream_write_at_chunk_boundary")
			}
		}
		for _, bsz := range d.Bufs {
			if bsz < frameData {
				small = true
			}
			if bsz == 1 {
				vstat.Label("stream_one_byte_read_buffer")
			}
		}
		if multi {
			vstat.Label("stream_multi_frame_write")
		}
		if multi && small {
			nt = true
		}
	}
	if len(pl.BA.Writes) > 0 {
		vstat.Label("stream_both_directions")
	}
	if hasTiny(pl.Pipe) {
		vstat.Label("stream_tiny_transport_chunks")
	}
	if a.rd.short+b.rd.short > 0 {
		vstat.Label("stream_transport_short_reads_happened")
	}
	if pl.KeyA.Secp || pl.KeyB.Secp {
		vstat.Label("stream_secp_key")
	}
	if nt {
		vstat.Label("stream_nontrivial")
		vstat.NonTrivial(fmt.Sprintf("stream|%+v", pl))
		if len(wantAB)+len(wantBA) > 3*frameData && wantSample() {
			vstat.Sample(map[string]interface{}{"check": "stream", "a_to_b": pl.AB, "b_to_a": pl.BA, "pipe": pl.Pipe,
				"transport_reads": a.rd.reads + b.rd.reads, "transport_short_reads": a.rd.short + b.rd.short})
		}
	}
}

func TestSecretStream(t *testing.T) { rapid.Check(t, runStream) }

// ================================================================ 2. channel phase

type chSpec struct {
	ID       byte `json:"id"`
	Prio     int  `json:"prio"`
	SendQ    int  `json:"sendq"`
	RecvBuf  int  `json:"recvbuf"`
	ExactCap bool `json:"exact_cap"` // RecvMessageCapacity == longest message of the case
}

type opSpec struct {
	Ch    int    `json:"ch"` // index into the channel list
	Size  int    `json:"size"`
	Kind  int    `json:"kind"`
	Seed  uint64 `json:"seed"`
	Block bool   `json:"send"` // Send (blocking) or TrySend
}

type mconnPlan struct {
	Transport int      `json:"transport"` // 0 net.Pipe, 1 chunked pipe, 2 SecretConnection over chunked pipe
	Payload   int      `json:"max_packet_payload"`
	FlushMs   int      `json:"flush_ms"`
	Rate      int64    `json:"rate"`
	Chans     []chSpec `json:"channels"`
	// per direction (0: A sends, 1: B sends): owner goroutine of every channel and the operations in draw order
	Owner [2][]int    `json:"owner"`
	Ops   [2][]opSpec `json:"ops"`
	Pipe  pipeSched   `json:"pipe"`
}

func genMsgSize(t *rapid.T, p int) int {
	const maxMsg = 160 * 1024
	var s int
	switch rapid.IntRange(0, 9).Draw(t, "mcls") {
	case 0:
		s = 1
	case 1:
		s = rapid.SampledFrom([]int{p - 1, p, p + 1, 2 * p, 2*p + 1, 3*p - 1, 3 * p}).Draw(t, "msize")
	case 2, 3:
		s = rapid.IntRange(1, p).Draw(t, "msize")
	case 4, 5, 6: // several packets
		s = rapid.IntRange(p+1, 5*p).Draw(t, "msize")
	case 7: // many packets when packets are small
		s = rapid.IntRange(p+1, 40*p).Draw(t, "msize")
	default:
		s = rapid.IntRange(1, 3*p).Draw(t, "msize")
	}
	if s < 1 {
		s = 1
	}
	if s > maxMsg {
		s = maxMsg
	}
	return s
}

func genMconnPlan(t *rapid.T) mconnPlan {
	var pl mconnPlan
	pl.Transport = rapid.IntRange(0, 2).Draw(t, "transport")
	switch rapid.IntRange(0, 5).Draw(t, "pcls") {
	case 0:
		pl.Payload = 1
	case 1:
		pl.Payload = rapid.IntRange(2, 8).Draw(t, "payload")
	case 2:
		pl.Payload = rapid.IntRange(9, 200).Draw(t, "payload")
	case 3:
		pl.Payload = 1024
	default:
		pl.Payload = 32 * 1024 // the default
	}
	pl.FlushMs = rapid.SampledFrom([]int{1, 1, 2, 5}).Draw(t, "flush")
	pl.Rate = rapid.SampledFrom([]int64{5120000, 64 << 20, 1 << 30}).Draw(t, "rate")
	n := rapid.IntRange(1, 4).Draw(t, "nch")
	ids := rapid.SliceOfNDistinct(rapid.Byte(), n, n, func(b byte) byte { return b }).Draw(t, "chids")
	for i := 0; i < n; i++ {
		pl.Chans = append(pl.Chans, chSpec{
			ID:       ids[i],
			Prio:     rapid.IntRange(1, 10).Draw(t, "prio"),
			SendQ:    rapid.SampledFrom([]int{1, 1, 2, 3, 10}).Draw(t, "sendq"),
			RecvBuf:  rapid.SampledFrom([]int{1, 64, 4096, 0}).Draw(t, "recvbuf"),
			ExactCap: rapid.IntRange(0, 2).Draw(t, "exactcap") == 0,
		})
	}
	const maxTotal = 512 * 1024
	for d := 0; d < 2; d++ {
		g := rapid.IntRange(1, 3).Draw(t, "ngoroutines")
		for i := 0; i < n; i++ {
			pl.Owner[d] = append(pl.Owner[d], rapid.IntRange(0, g-1).Draw(t, "owner"))
		}
		lo := 0
		if d == 0 {
			lo = 1
		}
		nops := rapid.IntRange(lo, 14).Draw(t, "nops")
		total := 0
		for i := 0; i < nops; i++ {
			sz := genMsgSize(t, pl.Payload)
			if total+sz > maxTotal {
				break
			}
			total += sz
			pl.Ops[d] = append(pl.Ops[d], opSpec{
				Ch:    rapid.IntRange(0, n-1).Draw(t, "opch"),
				Size:  sz,
				Kind:  rapid.IntRange(0, 5).Draw(t, "mkind"),
				Seed:  rapid.Uint64().Draw(t, "mseed"),
				Block: rapid.IntRange(0, 2).Draw(t, "block") != 0,
			})
		}
	}
	if pl.Transport != 0 {
		pl.Pipe = genPipeSched(t, "pipe")
	}
	return pl
}

// sentinel is the last message the owner of a channel sends on it (with the blocking Send).  Messages of one
// channel travel in order, so when the sentinel has been delivered everything accepted before it must have
// been delivered too: loss, duplication, reordering and corruption are decided at that moment, without waiting.
func sentinel(dir int, id byte) []byte {
	return []byte{0xC1, 0x8E, 'S', 'E', 'N', 'T', 'I', 'N', 'E', 'L', byte(dir), id}
}

// tapConn records what the MConnection writes (plaintext packets) so the case can be classified afterwards.
type tapConn struct {
	net.Conn
	mu  sync.Mutex
	buf bytes.Buffer
}

func (c *tapConn) Write(p []byte) (int, error) {
	c.mu.Lock()
	if c.buf.Len() < 4<<20 {
		c.buf.Write(p)
	}
	c.mu.Unlock()
	return c.Conn.Write(p)
}

func (c *tapConn) snapshot() []byte {
	c.mu.Lock()
	defer c.mu.Unlock()
	return append([]byte(nil), c.buf.Bytes()...)
}

// packetStats parses a recorded packet stream: number of message packets, and how many of them were sent while
// another channel had a message partly sent (true packet-level interleaving of multi-packet messages).
func packetStats(stream []byte, limit int) (pkts, interleaved int) {
	r := bytes.NewReader(stream)
	open := map[byte]bool{}
	for r.Len() > 0 {
		var p conn.Packet
		if _, err := ser.DecodeReaderWithType(r, &p, int64(limit)); err != nil {
			return
		}
		m, ok := p.(conn.PacketMsg)
		if !ok {
			continue
		}
		pkts++
		for c := range open {
			if c != m.ChannelID {
				interleaved++
				break
			}
		}
		if m.EOF == 1 {
			delete(open, m.ChannelID)
		} else {
			open[m.ChannelID] = true
		}
	}
	return
}

// alarm is raised (once) when a case can be judged before everything has been delivered: the connection
// stopped with an error, or a delivery cannot be explained by what the sender's script still has to offer.
type alarm struct {
	once sync.Once
	ch   chan struct{}
	why  string
	err  interface{} // connection error, if that is the reason
}

func (a *alarm) raise(why string, err interface{}) {
	a.once.Do(func() { a.why, a.err = why, err; close(a.ch) })
}

// mside is the receiving half of one endpoint.
type mside struct {
	mu        sync.Mutex
	delivered map[byte][][]byte
	script    map[byte][][]byte // per channel: the messages the sender's script offers, in order, sentinel last
	ptr       map[byte]int      // how far the deliveries have got in script
	sentinel  map[byte]bool     // sentinel delivered
	expect    map[byte]int      // number of accepted messages; known once the senders have returned
	done      chan struct{}     // every channel complete
	isDone    bool
	al        *alarm
	stopping  *int32
}

func newMside(script map[byte][][]byte, al *alarm, stopping *int32) *mside {
	return &mside{delivered: map[byte][][]byte{}, script: script, ptr: map[byte]int{}, sentinel: map[byte]bool{},
		done: make(chan struct{}), al: al, stopping: stopping}
}

// checkDone (mu held): a channel is complete when its sentinel has arrived (nothing accepted before it can
// still be on the way) or, once the number of accepted messages is known, when that many have arrived.
func (s *mside) checkDone() {
	if s.isDone {
		return
	}
	for id := range s.script {
		if !s.sentinel[id] && (s.expect == nil || len(s.delivered[id]) < s.expect[id]) {
			return
		}
	}
	s.isDone = true
	close(s.done)
}

func (s *mside) setExpect(e map[byte]int) {
	s.mu.Lock()
	s.expect = e
	s.checkDone()
	s.mu.Unlock()
}

func (s *mside) onReceive(id byte, msg []byte) {
	// the slice is the channel's reassembly buffer and is reused for the next message: copy, like a reactor
	// that decodes the message before returning
	cp := append([]byte(nil), msg...)
	s.mu.Lock()
	defer s.mu.Unlock()
	s.delivered[id] = append(s.delivered[id], cp)
	sc, ok := s.script[id]
	if !ok {
		s.al.raise(fmt.Sprintf("delivery on channel %#x that does not exist", id), nil)
		return
	}
	// The accepted messages are a subsequence of the script (TrySend may refuse some), so every delivery must
	// match a scripted message at or after the previous match.  This only decides when to stop waiting; the
	// verdict is the comparison with the accepted sequence afterwards.
	j := s.ptr[id]
	for j < len(sc) && !bytes.Equal(sc[j], cp) {
		j++
	}
	if j == len(sc) {
		s.al.raise(fmt.Sprintf("channel %#x: delivery #%d (%d bytes) matches no message the sender still had to offer", id, len(s.delivered[id])-1, len(cp)), nil)
		return
	}
	s.ptr[id] = j + 1
	if j == len(sc)-1 {
		s.sentinel[id] = true
	}
	s.checkDone()
}

func (s *mside) onError(r interface{}) {
	if atomic.LoadInt32(s.stopping) != 0 {
		return // the harness is tearing the pair down; the peer's close is not a failure
	}
	s.al.raise("connection error", r)
}

func runMconn(t *rapid.T) {
	vstat.Eval()
	pl := genMconnPlan(t)
	nch := len(pl.Chans)

	// ---- materialise messages and per-goroutine scripts
	type sendOp struct {
		ch    int
		msg   []byte
		block bool
	}
	var scripts [2][][]sendOp // [dir][goroutine]
	maxLen := len(sentinel(0, 0))
	for d := 0; d < 2; d++ {
		scripts[d] = make([][]sendOp, 3)
		for _, op := range pl.Ops[d] {
			msg := expand(op.Seed, op.Size, op.Kind)
			if bytes.Equal(msg, sentinel(d, pl.Chans[op.Ch].ID)) {
				msg[0] ^= 1 // a generated message never equals the sentinel
			}
			if len(msg) > maxLen {
				maxLen = len(msg)
			}
			g := pl.Owner[d][op.Ch]
			scripts[d][g] = append(scripts[d][g], sendOp{op.Ch, msg, op.Block})
		}
	}
	descs := func() []*conn.ChannelDescriptor {
		var ds []*conn.ChannelDescriptor
		for _, c := range pl.Chans {
			d := &conn.ChannelDescriptor{ID: c.ID, Priority: c.Prio, SendQueueCapacity: c.SendQ, RecvBufferCapacity: c.RecvBuf}
			if c.ExactCap {
				// messages up to exactly the capacity must pass; longer ones are the sender's contract breach
				// (reactors size the capacity for their largest message) and are not generated
				d.RecvMessageCapacity = maxLen
			}
			ds = append(ds, d)
		}
		return ds
	}
	cfg := conn.DefaultMConnConfig()
	cfg.MaxPacketMsgPayloadSize = pl.Payload
	cfg.FlushThrottle = time.Duration(pl.FlushMs) * time.Millisecond
	cfg.SendRate, cfg.RecvRate = pl.Rate, pl.Rate

	// ---- transport
	var rawA, rawB net.Conn
	var closers []io.Closer
	switch pl.Transport {
	case 0:
		rawA, rawB = conn.NetPipe()
	case 1:
		a, b := newPipe(pl.Pipe, "A", "B")
		rawA, rawB = a, b
	default:
		a, b := newPipe(pl.Pipe, "A", "B")
		closers = append(closers, a, b)
		scA, scB, errA, errB, ok := secretPair(a, b, mkKey("A", keySpec{}), mkKey("B", keySpec{}))
		if !ok {
			a.Close()
			b.Close()
			inconclusive(t, "mconn: honest handshake did not return")
		}
		if errA != nil || errB != nil {
			a.Close()
			b.Close()
			vstat.Violation(t, P, "stream:honest-handshake-failed", "honest handshake over chunked pipe failed: A=%v B=%v; pipe %+v", errA, errB, pl.Pipe)
			return
		}
		rawA, rawB = scA, scB
	}
	closers = append(closers, rawA, rawB)
	tapA, tapB := &tapConn{Conn: rawA}, &tapConn{Conn: rawB}

	var stopping int32
	al := &alarm{ch: make(chan struct{})}
	var recv [2]*mside // recv[0] is A's receiving side: it gets the messages of direction 1
	for d := 0; d < 2; d++ {
		script := map[byte][][]byte{}
		for ci, c := range pl.Chans {
			for _, op := range scripts[d][pl.Owner[d][ci]] {
				if op.ch == ci {
					script[c.ID] = append(script[c.ID], op.msg)
				}
			}
			script[c.ID] = append(script[c.ID], sentinel(d, c.ID))
		}
		recv[1-d] = newMside(script, al, &stopping)
	}
	mA := conn.NewMConnectionWithConfig(tapA, descs(), recv[0].onReceive, recv[0].onError, cfg)
	mB := conn.NewMConnectionWithConfig(tapB, descs(), recv[1].onReceive, recv[1].onError, cfg)
	teardown := func() {
		atomic.StoreInt32(&stopping, 1)
		mA.Stop()
		mB.Stop()
		for _, c := range closers {
			c.Close()
		}
	}
	if err := mA.Start(); err != nil {
		teardown()
		t.Fatalf("harness: MConnection A does not start: %v", err)
	}
	if err := mB.Start(); err != nil {
		teardown()
		t.Fatalf("harness: MConnection B does not start: %v", err)
	}

	// ---- senders: every channel has exactly one owning goroutine per direction, so "the order in which Send
	// accepted the messages of a channel" is that goroutine's program order
	accepted := [2][][][]byte{make([][][]byte, nch), make([][][]byte, nch)} // [dir][channel] -> messages
	var refused, sentinelRefused int32
	senders := [2]*conn.MConnection{mA, mB}
	var swg sync.WaitGroup
	for d := 0; d < 2; d++ {
		for g := 0; g < 3; g++ {
			owns := false
			for _, o := range pl.Owner[d] {
				owns = owns || o == g
			}
			if !owns {
				continue
			}
			swg.Add(1)
			go func(d, g int) {
				defer swg.Done()
				mc := senders[d]
				for _, op := range scripts[d][g] {
					id := pl.Chans[op.ch].ID
					var ok bool
					if op.block {
						ok = mc.Send(id, op.msg)
					} else {
						ok = mc.TrySend(id, op.msg)
					}
					if ok {
						accepted[d][op.ch] = append(accepted[d][op.ch], op.msg) // only this goroutine touches [d][op.ch]
					} else {
						atomic.AddInt32(&refused, 1)
					}
				}
				for ci, o := range pl.Owner[d] {
					if o != g {
						continue
					}
					sn := sentinel(d, pl.Chans[ci].ID)
					if mc.Send(pl.Chans[ci].ID, sn) {
						accepted[d][ci] = append(accepted[d][ci], sn)
					} else {
						atomic.AddInt32(&sentinelRefused, 1)
					}
				}
			}(d, g)
		}
	}
	// ---- wait: senders back, then every channel complete; or an alarm; or (backstop) the guard
	sendersDone := wgChan(&swg)
	tm := time.NewTimer(guard)
	defer tm.Stop()
	outcome := "done"
	select {
	case <-sendersDone:
	case <-al.ch:
		outcome = "alarm"
	case <-tm.C:
		outcome = "guard"
	}
	if outcome == "done" && atomic.LoadInt32(&sentinelRefused) > 0 {
		outcome = "sentinel-refused"
	}
	if outcome == "done" {
		for d := 0; d < 2; d++ {
			e := map[byte]int{}
			for ci, c := range pl.Chans {
				e[c.ID] = len(accepted[d][ci])
			}
			recv[1-d].setExpect(e)
		}
		for _, s := range recv {
			if outcome != "done" {
				break
			}
			select {
			case <-s.done:
			case <-al.ch:
				outcome = "alarm"
			case <-tm.C:
				outcome = "guard"
			}
		}
	}
	teardown()
	// a sender may still sit in a blocking Send (it gives up only after the connection's own 10 s send timeout);
	// the accepted lists are read below, so the senders are joined first
	if !waitOrGuard(sendersDone) {
		inconclusive(t, fmt.Sprintf("mconn: senders did not return; plan %+v", pl))
	}
	switch outcome {
	case "guard":
		inconclusive(t, fmt.Sprintf("mconn: deliveries incomplete and no alarm; plan %+v", pl))
	case "sentinel-refused":
		inconclusive(t, "mconn: blocking Send of a sentinel was refused (send timeout)")
	case "alarm":
		if al.err != nil {
			// the transport is reliable, so the connection failed by its own doing
			vstat.Violation(t, P, "mconn:connection-failed", "MConnection over a reliable transport stopped with error %v; plan %+v", al.err, pl)
			return
		}
	}

	// ---- oracle: per direction and channel, delivered sequence == accepted sequence
	for d := 0; d < 2; d++ {
		rs := recv[1-d] // dir 0 (A sends) is received by B = recv[1]
		rs.mu.Lock()
		known := map[byte]bool{}
		for ci, c := range pl.Chans {
			known[c.ID] = true
			want, got := accepted[d][ci], rs.delivered[c.ID]
			i := 0
			for i < len(want) && i < len(got) && bytes.Equal(want[i], got[i]) {
				i++
			}
			if i == len(want) && i == len(got) {
				continue
			}
			key, what := "", ""
			switch {
			case i == len(got) && outcome == "alarm":
				continue // the case was cut short by an alarm on another channel; nothing wrong seen here
			case i == len(got):
				key, what = "mconn:message-lost", fmt.Sprintf("message #%d (%d bytes) was accepted but never delivered", i, len(want[i]))
			case i == len(want):
				key, what = "mconn:message-extra", fmt.Sprintf("message #%d (%d bytes) was delivered but never accepted", i, len(got[i]))
			default:
				key, what = "mconn:message-not-intact", fmt.Sprintf("message #%d: accepted %d bytes, delivered %d bytes, first difference at %d", i, len(want[i]), len(got[i]), firstDiff(want[i], got[i]))
				for j := range want {
					if j != i && bytes.Equal(want[j], got[i]) {
						key, what = "mconn:message-out-of-order", fmt.Sprintf("position #%d delivers the message accepted as #%d", i, j)
						break
					}
				}
			}
			rs.mu.Unlock()
			vstat.Violation(t, P, key, "dir %d channel %#x: %s (accepted %d, delivered %d); plan %+v", d, c.ID, what, len(want), len(got), pl)
			return
		}
		for id := range rs.delivered {
			if !known[id] {
				rs.mu.Unlock()
				vstat.Violation(t, P, "mconn:message-extra", "dir %d: delivery on channel %#x that does not exist", d, id)
				return
			}
		}
		rs.mu.Unlock()
	}
	if outcome == "alarm" {
		// cannot happen: an unexplainable delivery always shows up in the comparison above
		vstat.Violation(t, P, "mconn:message-not-intact", "%s; plan %+v", al.why, pl)
		return
	}

	// ---- classification
	limit := pl.Payload + 1024
	pa, ia := packetStats(tapA.snapshot(), limit)
	pb, ib := packetStats(tapB.snapshot(), limit)
	vstat.Label(fmt.Sprintf("mconn_transport_%d", pl.Transport))
	vstat.Label(fmt.Sprintf("mconn_channels_%d", nch))
	if refused > 0 {
		vstat.Label("mconn_trysend_refused")
	}
	if ia+ib > 0 {
		vstat.Label("mconn_packets_interleaved_across_channels")
	}
	if pl.Payload == 32*1024 {
		vstat.Label("mconn_default_packet_size")
	}
	nt := false
	for d := 0; d < 2; d++ {
		multi := map[int]bool{}
		exact := false
		for _, op := range pl.Ops[d] {
			if op.Size > pl.Payload {
				multi[op.Ch] = true
			}
			if op.Size%pl.Payload == 0 {
				exact = true
			}
		}
		if len(multi) >= 2 {
			nt = true
		}
		if len(multi) >= 1 {
			vstat.Label("mconn_multi_packet_message")
		}
		if exact {
			vstat.Label("mconn_message_is_whole_number_of_packets")
		}
	}
	if len(pl.Ops[0]) > 0 && len(pl.Ops[1]) > 0 {
		vstat.Label("mconn_both_directions")
	}
	if nt {
		vstat.Label("mconn_nontrivial")
		vstat.NonTrivial(fmt.Sprintf("mconn|%+v", pl))
		if ia+ib > 0 && wantSample() {
			vstat.Sample(map[string]interface{}{"check": "mconn", "plan": pl, "packets": pa + pb, "packets_interleaved": ia + ib, "trysend_refused": refused})
		}
	}
}

func TestMConnChannels(t *testing.T) { rapid.Check(t, runMconn) }

// ================================================================ 3. handshake phase
//
// What MakeSecretConnection exchanges (read from libs/p2p/conn/secret_connection.go):
//   1. each side writes its ephemeral Curve25519 public key as one ser value: 0xa0 followed by the 32 key bytes;
//   2. challenge = SHA-256(lo || hi) of the two ephemeral keys in byte order (the same value on both sides);
//   3. each side writes ONE frame through the not-yet-authenticated SecretConnection: header byte 0xFF
//      (version|type "compress", the compiled-in mode), 4-byte big-endian length, snappy(ser(authSigMessage{
//      long-term public key, signature over the challenge})); nothing is encrypted in this mode;
//   4. each side verifies the received signature against the received key and its own challenge.
// The man in the middle M owns both wires.  It may hand each side any ephemeral key and any auth frame: the
// peer's (relay), the side's own (reflection), a tampered copy, or frames it builds itself with its own keys, a
// victim's key, signatures replayed from another session, and so on.  M knows no honest private key.
//
// Oracle (only-if, as the property states it).  If MakeSecretConnection succeeds on side T with RemotePubKey K:
//   - K == the other honest side's key is legitimate only if both ephemeral keys were relayed untouched (then
//     and only then that side signed T's challenge in this session);
//   - K == T's own key, or K == the victim's key (the victim takes no part in this session), is a violation:
//     nobody on the other end of T's wire can sign with it;
//   - any other K is a key M itself chose (its own long-term keys, or degenerate keys) and is allowed.
// Control direction (not part of the property, asserted by the plain TestHandshakeControls and only labelled in
// the rapid check): an untouched relay and an active M using its own key with a correct signature must succeed,
// otherwise the operators do not exercise what they claim.

const kReflection = "handshake:reflected-own-auth-accepted"

type authMsg struct {
	Key crypto.PubKey
	Sig crypto.Signature
}

type sidePlan struct {
	Eph      string `json:"eph"`       // peer | self | atk | peerflipkey | flipprefix | trunc | authfirst | garbage
	EphAtk   int    `json:"eph_atk"`   // which attacker-chosen key (atk)
	EphOff   int    `json:"eph_off"`   // byte to flip (peerflipkey: 1..32)
	EphMask  byte   `json:"eph_mask"`  // xor mask
	EphKeep  int    `json:"eph_keep"`  // bytes kept (trunc)
	Auth     string `json:"auth"`      // peer | self | peerflip | peertrunc | dup | crafted | replay | garbage | none
	AuthOff  int    `json:"auth_off"`  // per mille of the frame length
	AuthMask byte   `json:"auth_mask"` // xor mask
	CKey     string `json:"ckey"`      // crafted: m-ed | m-secp | victim | other | own | weak | nil
	CSig     string `json:"csig"`      // crafted: valid-ed | valid-secp | random-ed | zero-ed | random-secp | weak | victim-old | peer-current | nil
	Hdr      byte   `json:"hdr"`       // crafted / garbage: frame header byte
	Seed     uint64 `json:"seed"`
}

type hsPlan struct {
	Scenario   string      `json:"scenario"`
	KA, KB, KV keySpec     // honest sides and the victim
	Side       [2]sidePlan `json:"side"`
	VictimEph  int         `json:"victim_session_eph"` // attacker's ephemeral key in the recorded victim session
	Seed       uint64      `json:"seed"`
	PipeA      pipeSched
	PipeB      pipeSched
}

var ephKinds = []string{"peer", "self", "atk", "peerflipkey", "flipprefix", "trunc", "authfirst", "garbage"}
var authKinds = []string{"peer", "self", "peerflip", "peertrunc", "dup", "crafted", "replay", "garbage", "none"}
var cKeys = []string{"m-ed", "m-secp", "victim", "other", "own", "weak", "nil"}
var cSigs = []string{"valid-ed", "valid-secp", "random-ed", "zero-ed", "random-secp", "weak", "victim-old", "peer-current", "nil"}

func genSideDetails(t *rapid.T, s *sidePlan) {
	s.EphAtk = rapid.IntRange(0, 5).Draw(t, "ephatk")
	s.EphOff = rapid.IntRange(1, 32).Draw(t, "ephoff")
	s.EphMask = byte(rapid.IntRange(1, 255).Draw(t, "ephmask"))
	s.EphKeep = rapid.IntRange(0, 32).Draw(t, "ephkeep")
	s.AuthOff = rapid.IntRange(0, 999).Draw(t, "authoff")
	s.AuthMask = byte(rapid.IntRange(1, 255).Draw(t, "authmask"))
	s.Hdr = rapid.SampledFrom([]byte{0xFF, 0xFF, 0xFF, 0xFE, 0xF0, 0x0F, 0x00}).Draw(t, "hdr")
	s.Seed = rapid.Uint64().Draw(t, "sseed")
}

func genHsPlan(t *rapid.T) hsPlan {
	var pl hsPlan
	pl.KA, pl.KB, pl.KV = genKeySpec(t, "ka"), genKeySpec(t, "kb"), genKeySpec(t, "kv")
	pl.VictimEph = rapid.IntRange(0, 4).Draw(t, "veph")
	pl.Seed = rapid.Uint64().Draw(t, "seed")
	for i := range pl.Side {
		pl.Side[i] = sidePlan{Eph: "peer", Auth: "peer", CKey: "m-ed", CSig: "valid-ed"}
		genSideDetails(t, &pl.Side[i])
	}
	pl.Scenario = rapid.SampledFrom([]string{"relay", "tamper", "tamper", "tamper", "active", "active", "impersonate", "impersonate", "impersonate", "impersonate", "reflect", "free", "free"}).Draw(t, "scenario")
	switch pl.Scenario {
	case "relay":
	case "tamper": // an honest exchange with exactly one message touched
		s := &pl.Side[rapid.IntRange(0, 1).Draw(t, "tside")]
		if rapid.Bool().Draw(t, "teph") {
			s.Eph = rapid.SampledFrom([]string{"peerflipkey", "peerflipkey", "flipprefix", "trunc", "authfirst", "garbage", "atk", "self"}).Draw(t, "tephkind")
		} else {
			s.Auth = rapid.SampledFrom([]string{"peerflip", "peerflip", "peerflip", "peertrunc", "dup", "self", "garbage", "none", "replay"}).Draw(t, "tauthkind")
		}
	case "active": // M runs its own handshake towards each side, with its own key and a correct signature
		for i := range pl.Side {
			s := &pl.Side[i]
			s.Eph = "atk"
			s.Auth = "crafted"
			s.Hdr = 0xFF
			s.CKey = rapid.SampledFrom([]string{"m-ed", "m-secp"}).Draw(t, "ackey")
			s.CSig = map[string]string{"m-ed": "valid-ed", "m-secp": "valid-secp"}[s.CKey]
		}
	case "impersonate": // like active, but the frame names somebody else's key
		for i := range pl.Side {
			s := &pl.Side[i]
			s.Hdr = 0xFF
			s.Eph = rapid.SampledFrom([]string{"atk", "atk", "peer", "self"}).Draw(t, "iephkind")
			if rapid.IntRange(0, 3).Draw(t, "ireplay") == 0 {
				s.Auth = "replay"
				if rapid.Bool().Draw(t, "isameeph") {
					s.Eph, s.EphAtk = "atk", 5 // the very ephemeral key M used towards the victim
				}
			} else {
				s.Auth = "crafted"
				s.CKey = rapid.SampledFrom([]string{"victim", "victim", "other", "own", "weak"}).Draw(t, "ickey")
				s.CSig = rapid.SampledFrom(cSigs).Draw(t, "icsig")
				if s.CSig == "victim-old" && rapid.Bool().Draw(t, "isameeph") {
					s.Eph, s.EphAtk = "atk", 5
				}
			}
		}
	case "reflect":
		for i := range pl.Side {
			s := &pl.Side[i]
			s.Eph = rapid.SampledFrom([]string{"self", "self", "self", "peer"}).Draw(t, "rephkind")
			s.Auth = rapid.SampledFrom([]string{"self", "self", "self", "peer", "dup"}).Draw(t, "rauthkind")
		}
	default: // the full product
		for i := range pl.Side {
			s := &pl.Side[i]
			s.Eph = rapid.SampledFrom(ephKinds).Draw(t, "fephkind")
			s.Auth = rapid.SampledFrom(authKinds).Draw(t, "fauthkind")
			s.CKey = rapid.SampledFrom(cKeys).Draw(t, "fckey")
			s.CSig = rapid.SampledFrom(cSigs).Draw(t, "fcsig")
		}
	}
	pl.PipeA, pl.PipeB = genPipeSched(t, "pa"), genPipeSched(t, "pb")
	return pl
}

// ---- the attacker's toolkit (its own implementation of the wire format)

func atkEph(idx int, seed uint64) (k [32]byte) {
	switch idx {
	case 0: // all zero: sorts below every honest key
	case 1:
		for i := range k {
			k[i] = 0xFF
		}
	case 2:
		k[0] = 1
	case 3: // a point of small order on Curve25519
		copy(k[:], []byte{0xe0, 0xeb, 0x7a, 0x7c, 0x3b, 0x41, 0xb8, 0xae, 0x16, 0x56, 0xe3, 0xfa, 0xf1, 0x9f, 0xc4, 0x6a, 0xda, 0x09, 0x8d, 0xeb, 0x9c, 0x32, 0xb1, 0xfd, 0x86, 0x62, 0x05, 0x16, 0x5f, 0x49, 0xb8, 0x00})
	default:
		copy(k[:], expand(seed, 32, 0))
	}
	return
}

func ephMsg(k [32]byte) []byte { return append([]byte{0xa0}, k[:]...) }

func challengeOf(x, y [32]byte) []byte {
	lo, hi := x, y
	if bytes.Compare(x[:], y[:]) >= 0 {
		lo, hi = y, x
	}
	h := sha256.Sum256(append(lo[:], hi[:]...))
	return h[:]
}

// snappyLiteral is a valid snappy block that stores p as literals only.
func snappyLiteral(p []byte) []byte {
	out := binary.AppendUvarint(nil, uint64(len(p)))
	for len(p) > 0 {
		n := len(p)
		if n > 60 {
			n = 60
		}
		out = append(out, byte(n-1)<<2)
		out = append(out, p[:n]...)
		p = p[n:]
	}
	return out
}

func frameOf(hdr byte, payload []byte) []byte {
	body := snappyLiteral(payload)
	out := make([]byte, 5, 5+len(body))
	out[0] = hdr
	binary.BigEndian.PutUint32(out[1:], uint32(len(body)))
	return append(out, body...)
}

func encodeAuth(k crypto.PubKey, s crypto.Signature) (bz []byte) {
	defer func() {
		if recover() != nil {
			bz = nil
		}
	}()
	bz, err := ser.EncodeToBytesWithType(authMsg{k, s})
	if err != nil {
		return nil
	}
	return bz
}

// unsnappyLiteral undoes snappyLiteral-shaped blocks and the ones snappy.Encode emits for incompressible input
// (literal elements only); nil if the block contains anything else.
func unsnappyLiteral(b []byte) []byte {
	n, k := binary.Uvarint(b)
	if k <= 0 {
		return nil
	}
	b = b[k:]
	var out []byte
	for len(b) > 0 {
		tag := b[0]
		if tag&3 != 0 {
			return nil
		}
		l := int(tag >> 2)
		b = b[1:]
		if l >= 60 {
			nb := l - 59
			if nb > 2 || len(b) < nb {
				return nil
			}
			l = 0
			for i := 0; i < nb; i++ {
				l |= int(b[i]) << (8 * uint(i))
			}
			b = b[nb:]
		}
		l++
		if len(b) < l {
			return nil
		}
		out = append(out, b[:l]...)
		b = b[l:]
	}
	if uint64(len(out)) != n {
		return nil
	}
	return out
}

// sigOfFrame lifts the signature out of an honest auth frame (M can: the frame is not encrypted).
func sigOfFrame(f []byte) (sig crypto.Signature) {
	defer func() {
		if recover() != nil {
			sig = nil
		}
	}()
	if len(f) < 5 {
		return nil
	}
	payload := unsnappyLiteral(f[5:])
	if payload == nil {
		return nil
	}
	var m authMsg
	if ser.DecodeBytesWithType(payload, &m) != nil {
		return nil
	}
	return m.Sig
}

// collector drains everything an honest side writes, so that side never blocks on a write whatever M does.
type collector struct {
	mu   sync.Mutex
	cond *sync.Cond
	buf  []byte
	pos  int
	done bool
}

func newCollector(r io.Reader, wg *sync.WaitGroup) *collector {
	c := &collector{}
	c.cond = sync.NewCond(&c.mu)
	wg.Add(1)
	go func() {
		defer wg.Done()
		tmp := make([]byte, 4096)
		for {
			n, err := r.Read(tmp)
			c.mu.Lock()
			c.buf = append(c.buf, tmp[:n]...)
			if err != nil {
				c.done = true
			}
			c.cond.Broadcast()
			c.mu.Unlock()
			if err != nil {
				return
			}
		}
	}()
	return c
}

func (c *collector) take(n int) []byte {
	c.mu.Lock()
	defer c.mu.Unlock()
	for len(c.buf)-c.pos < n && !c.done {
		c.cond.Wait()
	}
	if len(c.buf)-c.pos < n {
		return nil
	}
	out := append([]byte(nil), c.buf[c.pos:c.pos+n]...)
	c.pos += n
	return out
}

func (c *collector) takeFrame() []byte {
	h := c.take(5)
	if h == nil {
		return nil
	}
	body := c.take(int(binary.BigEndian.Uint32(h[1:])))
	if body == nil {
		return nil
	}
	return append(h, body...)
}

type hsResult struct {
	ok  bool
	key crypto.PubKey
	err error
	pan interface{}
}

// endpoint is an honest node: it runs the handshake and then closes its connection, as peer.go / switch.go do
// on failure (on success the harness has no further use for the connection).
func endpoint(c *pconn, k crypto.PrivKey, res *hsResult, wg *sync.WaitGroup) {
	defer wg.Done()
	defer c.Close()
	defer func() {
		if r := recover(); r != nil {
			res.pan = r
		}
	}()
	sc, err := conn.MakeSecretConnection(c, k)
	if err != nil {
		res.err = err
		return
	}
	res.ok, res.key = true, sc.RemotePubKey()
}

// victimSession: M talks to the victim in a separate, earlier session and records the victim's auth frame (the
// victim's key plus its signature over THAT session's challenge).
func victimSession(kV crypto.PrivKey, ephM [32]byte) (frame []byte, ephV [32]byte, ok bool) {
	v, m := newPipe(pipeSched{}, "V", "M0")
	var wg, cwg sync.WaitGroup
	var res hsResult
	wg.Add(1)
	go endpoint(v, kV, &res, &wg)
	col := newCollector(m, &cwg)
	fin := make(chan struct{})
	go func() {
		defer close(fin)
		e := col.take(33)
		if e == nil {
			return
		}
		copy(ephV[:], e[1:])
		m.Write(ephMsg(ephM))
		frame = col.takeFrame()
		m.CloseWrite()
	}()
	ok = waitOrGuard(fin, wgChan(&wg), wgChan(&cwg))
	m.Close()
	v.Close()
	return frame, ephV, ok && frame != nil
}

func proceeds(eph string) bool {
	switch eph {
	case "peer", "self", "atk", "peerflipkey":
		return true // a well-formed 33-byte key message: the side goes on to sign and send its auth frame
	}
	return false
}

func runHandshake(t *rapid.T) {
	vstat.Eval()
	pl := genHsPlan(t)
	if vstat.IsKnown(P, kReflection) {
		// Listed finding: a side that is handed back its own auth frame accepts it (whatever well-formed ephemeral
		// key it was given: the frame is a correct signature over that side's own challenge).  Leave exactly
		// that shape out (it is kept observed by TestRegressionReflection) and explore the rest.
		for i := range pl.Side {
			s := &pl.Side[i]
			if s.Auth == "self" && proceeds(s.Eph) {
				s.Auth = "peer"
				vstat.Excluded(kReflection)
			}
		}
	}
	runHandshakePlan(t, pl)
}

// runHandshakePlan executes one plan and applies the oracle.  It returns what each side reported and whether a
// control expectation failed (an untouched relay, or the attacker's own key with a correct signature, rejected).
func runHandshakePlan(t vstat.TB, pl hsPlan) (out [2]hsResult, controlFailed bool) {
	keys := [2]crypto.PrivKey{mkKey("A", pl.KA), mkKey("B", pl.KB)}
	kV := mkKey("V", pl.KV)
	kMed := crypto.GenPrivKeyEd25519FromSecret([]byte(fmt.Sprintf("c18/M-ed/%d", pl.Seed)))
	kMsecp := crypto.GenPrivKeySecp256k1FromSecret([]byte(fmt.Sprintf("c18/M-secp/%d", pl.Seed)))
	var weakKey crypto.PubKeyEd25519 // the neutral element: ed25519.Verify accepts R=neutral,S=0 for every message
	weakKey[0] = 1
	var weakSig crypto.SignatureEd25519
	weakSig[0] = 1

	skip := func(what string) {
		if rt, ok := t.(*rapid.T); ok {
			inconclusive(rt, what)
		}
		t.Fatalf("inconclusive: %s", what)
	}

	// ---- earlier session with the victim, if some operator replays from it
	needVictim := false
	for _, s := range pl.Side {
		if s.Auth == "replay" || (s.Auth == "crafted" && s.CSig == "victim-old") {
			needVictim = true
		}
	}
	victimEph := atkEph(pl.VictimEph, pl.Seed)
	var victimFrame []byte
	var victimOldSig crypto.Signature
	if needVictim {
		var ephV [32]byte
		var ok bool
		victimFrame, ephV, ok = victimSession(kV, victimEph)
		if !ok {
			skip("handshake: victim session did not complete")
		}
		// the same signature, for frames M assembles itself (M can read it off the wire: nothing is encrypted)
		victimOldSig, _ = kV.Sign(challengeOf(ephV, victimEph))
	}

	// ---- the attacked session
	var pipes [2][2]*pconn // [side]{honest end, M's end}
	pipes[0][0], pipes[0][1] = newPipe(pl.PipeA, "A", "Ma")
	pipes[1][0], pipes[1][1] = newPipe(pl.PipeB, "B", "Mb")
	var res [2]hsResult
	var ewg, cwg sync.WaitGroup
	var cols [2]*collector
	for i := 0; i < 2; i++ {
		ewg.Add(1)
		go endpoint(pipes[i][0], keys[i], &res[i], &ewg)
		cols[i] = newCollector(pipes[i][1], &cwg)
	}

	var eph [2][32]byte      // the sides' own ephemeral keys
	var given [2][32]byte    // the key M handed to each side (meaningful when the side proceeds)
	var authOf [2][]byte     // the sides' own auth frames (nil if not obtained)
	var sentAuth [2][]byte   // what M sent as auth
	var ownKeySigned [2]bool // M sent a frame with one of its own keys and a correct signature
	mdone := make(chan struct{})
	go func() {
		defer close(mdone)
		for i := 0; i < 2; i++ {
			e := cols[i].take(33)
			if e == nil || e[0] != 0xa0 {
				return // cannot happen with an honest side
			}
			copy(eph[i][:], e[1:])
		}
		// what each side is given as the remote ephemeral key
		var ephBytes [2][]byte
		for i := 0; i < 2; i++ {
			s, o := pl.Side[i], 1-i
			switch s.Eph {
			case "peer":
				given[i] = eph[o]
			case "self":
				given[i] = eph[i]
			case "atk":
				if s.EphAtk == 5 {
					given[i] = victimEph // the key M used towards the victim
				} else {
					given[i] = atkEph(s.EphAtk, s.Seed)
				}
			case "peerflipkey":
				given[i] = eph[o]
				given[i][s.EphOff-1] ^= s.EphMask
			default:
				given[i] = eph[o]
			}
			ephBytes[i] = ephMsg(given[i])
			switch s.Eph {
			case "flipprefix":
				ephBytes[i][0] ^= s.EphMask
			case "trunc":
				ephBytes[i] = ephBytes[i][:s.EphKeep]
			case "garbage":
				ephBytes[i] = expand(s.Seed, 1+int(s.Seed%80), 0)
			}
		}
		// well-formed keys first; those sides answer with their auth frame
		for i := 0; i < 2; i++ {
			if proceeds(pl.Side[i].Eph) {
				pipes[i][1].Write(ephBytes[i])
			}
		}
		for i := 0; i < 2; i++ {
			if proceeds(pl.Side[i].Eph) {
				authOf[i] = cols[i].takeFrame()
			}
		}
		// the auth frame for each side
		for i := 0; i < 2; i++ {
			s, o := pl.Side[i], 1-i
			var f []byte
			switch s.Auth {
			case "peer":
				f = authOf[o]
			case "self":
				f = authOf[i]
			case "peerflip":
				if f = append([]byte(nil), authOf[o]...); len(f) > 0 {
					f[s.AuthOff*len(f)/1000] ^= s.AuthMask
				}
			case "peertrunc":
				if f = authOf[o]; len(f) > 0 {
					f = f[:s.AuthOff*len(f)/1000]
				}
			case "dup":
				f = append(append([]byte(nil), authOf[o]...), authOf[o]...)
			case "replay":
				f = victimFrame
			case "garbage":
				f = frameOf(s.Hdr, expand(s.Seed, int(s.Seed%300), int(s.Seed>>20)%3))
			case "crafted":
				chal := challengeOf(eph[i], given[i])
				var k crypto.PubKey
				var sig crypto.Signature
				switch s.CKey {
				case "m-ed":
					k = kMed.PubKey()
				case "m-secp":
					k = kMsecp.PubKey()
				case "victim":
					k = kV.PubKey()
				case "other":
					k = keys[o].PubKey()
				case "own":
					k = keys[i].PubKey()
				case "weak":
					k = weakKey
				}
				switch s.CSig {
				case "valid-ed":
					sig, _ = kMed.Sign(chal)
				case "valid-secp":
					sig, _ = kMsecp.Sign(chal)
				case "random-ed":
					sig = crypto.SignatureEd25519FromBytes(expand(s.Seed, 64, 0))
				case "zero-ed":
					sig = crypto.SignatureEd25519{}
				case "random-secp":
					sig = crypto.SignatureSecp256k1FromBytes(expand(s.Seed, 70, 0))
				case "weak":
					sig = weakSig
				case "victim-old":
					sig = victimOldSig
				case "peer-current":
					// the signature the other honest side made in this session, lifted out of its frame
					sig = sigOfFrame(authOf[o])
				}
				if payload := encodeAuth(k, sig); payload != nil {
					f = frameOf(s.Hdr, payload)
					ownKeySigned[i] = s.Hdr == 0xFF && ((s.CKey == "m-ed" && s.CSig == "valid-ed") || (s.CKey == "m-secp" && s.CSig == "valid-secp"))
				}
			}
			sentAuth[i] = f
		}
		// malformed key messages now (they may need the frames above); M does not wait for these sides
		for i := 0; i < 2; i++ {
			if proceeds(pl.Side[i].Eph) {
				continue
			}
			if pl.Side[i].Eph == "authfirst" {
				pipes[i][1].Write(sentAuth[i])
			}
			pipes[i][1].Write(ephBytes[i])
		}
		for i := 0; i < 2; i++ {
			if len(sentAuth[i]) > 0 && pl.Side[i].Eph != "authfirst" {
				pipes[i][1].Write(sentAuth[i])
			}
			// nothing more will come: the side's pending reads end with EOF; its own writes keep being drained
			pipes[i][1].CloseWrite()
		}
	}()
	ok := waitOrGuard(mdone, wgChan(&ewg))
	for i := 0; i < 2; i++ {
		pipes[i][0].Close()
		pipes[i][1].Close()
	}
	if !ok || !waitOrGuard(wgChan(&cwg)) {
		skip(fmt.Sprintf("handshake: session did not finish; plan %+v", pl))
	}

	// ---- oracle
	ephClean := pl.Side[0].Eph == "peer" && pl.Side[1].Eph == "peer"
	tampered := pl.Scenario != "relay"
	parsed := false
	for i := 0; i < 2; i++ {
		s, o, r := pl.Side[i], 1-i, res[i]
		name := string(rune('A' + i))
		if r.pan != nil {
			vstat.Label("hs_endpoint_panicked")
			vstat.Note(fmt.Sprintf("MakeSecretConnection panicked on side plan %+v: %v", s, r.pan))
			continue
		}
		if !r.ok {
			vstat.Label("hs_rejected")
			if r.err != nil && r.err.Error() == "Challenge verification failed" {
				parsed = true // everything parsed; only the signature check stopped it
				vstat.Label("hs_rejected_at_signature_check")
			}
			// control direction (not part of the property; asserted by TestHandshakeControls)
			if (ephClean && proceeds(s.Eph) && (s.Auth == "peer" || s.Auth == "dup") && authOf[o] != nil) || (proceeds(s.Eph) && ownKeySigned[i]) {
				vstat.Label("hs_control_failed")
				vstat.Note(fmt.Sprintf("control failed: side %s rejected an untouched relay / a correct signature by the attacker's own key: %v", name, r.err))
				controlFailed = true
			}
			continue
		}
		K := r.key
		switch {
		case K == nil:
			vstat.Violation(t, P, "handshake:success-without-key", "side %s succeeded with a nil remote key; plan %+v", name, pl)
		case K.Equals(keys[i].PubKey()):
			if !vstat.Violation(t, P, kReflection, "side %s established a connection whose authenticated remote key is its OWN key %v: the wire only carried its own ephemeral key and auth frame back (eph=%s auth=%s); nobody on the other end holds that private key; plan %+v", name, K, s.Eph, s.Auth, pl) {
				vstat.Label("hs_known_reflection")
			}
		case K.Equals(kV.PubKey()):
			vstat.Violation(t, P, "handshake:victim-key-accepted", "side %s reports the victim's key %v as authenticated, the victim took no part in this session (eph=%s auth=%s ckey=%s csig=%s); plan %+v", name, K, s.Eph, s.Auth, s.CKey, s.CSig, pl)
		case K.Equals(keys[o].PubKey()):
			if !ephClean {
				vstat.Violation(t, P, "handshake:signature-for-other-challenge-accepted", "side %s reports the honest peer's key although the ephemeral keys were not relayed untouched (eph to A=%s, to B=%s), so the peer signed a different challenge; plan %+v", name, pl.Side[0].Eph, pl.Side[1].Eph, pl)
			}
			vstat.Label("hs_success_honest_peer_key")
			if tampered {
				parsed = true
			}
		default:
			// a key of M's choosing
			vstat.Label("hs_success_attacker_key")
			if K.Equals(weakKey) {
				vstat.Label("hs_success_degenerate_ed25519_key")
			}
			parsed = true
		}
	}

	// ---- classification
	vstat.Label("hs_scenario_" + pl.Scenario)
	for _, s := range pl.Side {
		if s.Eph != "peer" {
			vstat.Label("hs_eph_" + s.Eph)
		}
		if s.Auth != "peer" {
			vstat.Label("hs_auth_" + s.Auth)
		}
		if s.Auth == "crafted" && (s.CKey == "victim" || s.CKey == "other") {
			vstat.Label("hs_impersonation_attempt_sig_" + s.CSig)
		}
	}
	if tampered && parsed {
		vstat.Label("hs_nontrivial")
		vstat.NonTrivial(fmt.Sprintf("hs|%+v", pl))
		if pl.Scenario != "tamper" && wantSample() {
			vstat.Sample(map[string]interface{}{"check": "handshake", "scenario": pl.Scenario, "side_a": pl.Side[0], "side_b": pl.Side[1],
				"a_ok": res[0].ok, "b_ok": res[1].ok, "a_err": fmt.Sprint(res[0].err), "b_err": fmt.Sprint(res[1].err)})
		}
	}
	return res, controlFailed
}

func TestHandshakeMITM(t *testing.T) { rapid.Check(t, runHandshake) }

// TestRegressionReflection keeps the listed reflection finding observed: side A gets back its own ephemeral key
// and its own auth frame; side B gets the honest peer's ephemeral key but its own auth frame.
func TestRegressionReflection(t *testing.T) {
	vstat.Eval()
	pl := hsPlan{Scenario: "reflect", Seed: 1}
	pl.Side[0] = sidePlan{Eph: "self", Auth: "self", Hdr: 0xFF}
	pl.Side[1] = sidePlan{Eph: "peer", Auth: "self", Hdr: 0xFF}
	runHandshakePlan(t, pl)
}

// TestHandshakeControls: the operators mean what they claim.  An untouched relay authenticates the two honest
// sides to each other, and a full active man in the middle that runs two handshakes of its own (own ephemeral
// keys, own long-term key, correct signatures) is accepted by both sides under ITS key - for both key types.
// A failure here is not a C18 violation by itself; it says the handshake no longer speaks the wire protocol the
// attacker model was written against, so TestHandshakeMITM would pass vacuously.
func TestHandshakeControls(t *testing.T) {
	for _, secp := range []bool{false, true} {
		ks := keySpec{Secp: secp}
		vstat.Eval()
		pl := hsPlan{Scenario: "relay", KA: ks, KB: ks, KV: ks, Seed: 7}
		pl.Side[0] = sidePlan{Eph: "peer", Auth: "peer", Hdr: 0xFF}
		pl.Side[1] = sidePlan{Eph: "peer", Auth: "peer", Hdr: 0xFF}
		res, _ := runHandshakePlan(t, pl)
		kA, kB := mkKey("A", ks), mkKey("B", ks)
		if !res[0].ok || !res[1].ok || !res[0].key.Equals(kB.PubKey()) || !res[1].key.Equals(kA.PubKey()) {
			t.Fatalf("control: untouched relay (secp=%v) does not authenticate the honest sides to each other: A=%+v B=%+v", secp, res[0], res[1])
		}
		for _, ck := range []string{"m-ed", "m-secp"} {
			vstat.Eval()
			pl := hsPlan{Scenario: "active", KA: ks, KB: ks, KV: ks, Seed: 7}
			sig := map[string]string{"m-ed": "valid-ed", "m-secp": "valid-secp"}[ck]
			pl.Side[0] = sidePlan{Eph: "atk", EphAtk: 4, Seed: 11, Auth: "crafted", CKey: ck, CSig: sig, Hdr: 0xFF}
			pl.Side[1] = sidePlan{Eph: "atk", EphAtk: 0, Seed: 12, Auth: "crafted", CKey: ck, CSig: sig, Hdr: 0xFF}
			res, _ := runHandshakePlan(t, pl)
			for i := range res {
				if !res[i].ok || res[i].key.Equals(kA.PubKey()) || res[i].key.Equals(kB.PubKey()) {
					t.Fatalf("control: active attacker with its own %s key and a correct signature: side %d reports %+v", ck, i, res[i])
				}
			}
		}
	}
}
