// C18, authentication clause one layer up (libs/p2p/peer.go, handshake.go, switch.go): the identity under which
// the Switch admits a peer.
//
// After MakeSecretConnection the two sides exchange a self-reported NodeInfo (HandShakeFunc).  The Switch
// identifies the peer by NodeInfo.PubKey (peer.ID() is derived from it).  The only key the remote side has proved
// possession of is the one authenticated by the secret handshake (SecretConnection.RemotePubKey).  So a peer may
// be admitted only under the authenticated key.
//
// The test drives a real Switch (NewP2pManager, Start) through its inbound path with an in-memory listener: the
// harness plays a remote node that authenticates with its OWN key M and then sends a NodeInfo naming a key of its
// choice.  No sockets: the discovery table and the TCP/UDP bind are switched off through the package's exported
// function hooks, the connection is the harness pipe.
package c18

import (
	"fmt"
	"net"
	"sync"
	"testing"
	"time"

	"github.com/lianxiangcloud/linkchain/config"
	"github.com/lianxiangcloud/linkchain/libs/crypto"
	dbm "github.com/lianxiangcloud/linkchain/libs/db"
	"github.com/lianxiangcloud/linkchain/libs/log"
	"github.com/lianxiangcloud/linkchain/libs/p2p"
	pcommon "github.com/lianxiangcloud/linkchain/libs/p2p/common"
	"github.com/lianxiangcloud/linkchain/libs/p2p/conn"
	"github.com/lianxiangcloud/linkchain/libs/ser"
	"github.com/lianxiangcloud/linkchain/types"

	"verifharness/vstat"
)

const kPeerIdentity = "peer:admitted-under-unauthenticated-nodeinfo-key"

// memListener hands prepared connections to the Switch.
type memListener struct{ ch chan net.Conn }

func (l *memListener) Connections() <-chan net.Conn     { return l.ch }
func (l *memListener) ExternalAddress() *p2p.NetAddress { return nil }
func (l *memListener) ExternalAddressHost() string      { return "" }
func (l *memListener) String() string                   { return "c18-mem-listener" }
func (l *memListener) Stop() error                      { return nil }

// tcpAddrConn gives the pipe end a TCP-looking remote address (the Switch classifies inbound peers by IP).
type tcpAddrConn struct{ *pconn }

func (c tcpAddrConn) RemoteAddr() net.Addr {
	return &net.TCPAddr{IP: net.IPv4(127, 0, 0, 1), Port: 40000}
}
func (c tcpAddrConn) LocalAddr() net.Addr {
	return &net.TCPAddr{IP: net.IPv4(127, 0, 0, 1), Port: 13500}
}

// admitReactor reports every peer the Switch starts.
type admitReactor struct {
	*p2p.BaseReactor
	added chan p2p.Peer
}

func (r *admitReactor) AddPeer(p p2p.Peer) { r.added <- p }

func testNodeInfo(moniker string) p2p.NodeInfo {
	return p2p.NodeInfo{Network: "c18-net", Version: "0.1.3", Moniker: moniker, Type: types.NodeValidator}
}

// admitOnce: a fresh Switch with node key kS; a remote node authenticates with kM and claims `claimed` in its
// NodeInfo.  Returns the peer the Switch admitted (nil if it refused and closed the connection).
func admitOnce(t *testing.T, kS, kM crypto.PrivKeyEd25519, claimed crypto.PubKeyEd25519) (admitted p2p.Peer, authenticated crypto.PubKey) {
	p2p.DefaultNewTableFunc = func(sw *p2p.Switch, seeds []*pcommon.Node) error { return nil } // no discovery
	p2p.ListenerBindFunc = func(types.NodeType, string, string, log.Logger) (net.Listener, *p2p.NetAddress, *net.UDPConn, bool) {
		return nil, nil, nil, false // no sockets
	}
	cfg := config.DefaultP2PConfig()
	sw, err := p2p.NewP2pManager(log.Root(), kS, cfg, testNodeInfo("switch"), nil, dbm.NewMemDB())
	if err != nil {
		t.Fatalf("harness: NewP2pManager: %v", err)
	}
	re := &admitReactor{added: make(chan p2p.Peer, 1)}
	re.BaseReactor = p2p.NewBaseReactor("c18-admit", re)
	sw.AddReactor("c18-admit", re)
	lst := &memListener{ch: make(chan net.Conn, 1)}
	sw.AddListener(lst)
	if err := sw.Start(); err != nil {
		t.Fatalf("harness: Switch.Start: %v", err)
	}
	defer sw.Stop()

	srv, cli := newPipe(pipeSched{}, "switch", "remote")
	defer cli.Close()
	defer srv.Close()
	lst.ch <- tcpAddrConn{srv}

	// the remote node: an honest secret handshake with its own key ...
	refused := make(chan struct{})
	var wg sync.WaitGroup
	wg.Add(1)
	go func() {
		defer wg.Done()
		defer close(refused)
		sc, err := conn.MakeSecretConnection(cli, kM)
		if err != nil {
			return
		}
		// ... then a NodeInfo that names the claimed key
		ni := testNodeInfo("remote")
		ni.PubKey = claimed
		var wwg sync.WaitGroup
		wwg.Add(1)
		go func() { defer wwg.Done(); ser.EncodeWriterWithType(sc, ni) }()
		var theirs p2p.NodeInfo
		if _, err := ser.DecodeReaderWithType(sc, &theirs, int64(p2p.MaxNodeInfoSize())); err != nil {
			return
		}
		authenticated = sc.RemotePubKey() // for the record: the Switch authenticates properly with its own key
		wwg.Wait()
		// stay connected until the Switch hangs up (refusal) or the test ends (pipe closed)
		buf := make([]byte, 1024)
		for {
			if _, err := sc.Read(buf); err != nil {
				return
			}
		}
	}()
	tm := time.NewTimer(guard)
	defer tm.Stop()
	expired := false
	select {
	case p := <-re.added:
		admitted = p
	case <-refused:
	case <-tm.C:
		expired = true
	}
	cli.Close()
	srv.Close()
	wg.Wait()
	if expired {
		vstat.Label("inconclusive_guard_expired")
		vstat.Note("inconclusive (guard expired, no verdict): peer identity: the Switch neither admitted nor refused the peer")
		t.Skipf("inconclusive: the Switch neither admitted nor refused the peer")
	}
	return admitted, authenticated
}

func TestRegressionPeerIdentity(t *testing.T) {
	kS := crypto.GenPrivKeyEd25519FromSecret([]byte("c18/switch"))
	kM := crypto.GenPrivKeyEd25519FromSecret([]byte("c18/remote-M"))
	kV := crypto.GenPrivKeyEd25519FromSecret([]byte("c18/victim-V"))
	pubM := kM.PubKey().(crypto.PubKeyEd25519)
	pubV := kV.PubKey().(crypto.PubKeyEd25519)
	var junk crypto.PubKeyEd25519
	copy(junk[:], expand(99, 32, 0))

	// control: the remote node claims the key it authenticated with
	vstat.Eval()
	p, auth := admitOnce(t, kS, kM, pubM)
	if p == nil {
		t.Fatalf("control: a node that presents its own authenticated key is refused")
	}
	if !auth.Equals(kS.PubKey()) {
		t.Fatalf("control: remote side authenticated %v, not the Switch's key", auth)
	}
	if got := p.NodeInfo().PubKey; !got.Equals(pubM) {
		t.Fatalf("control: admitted under %v, authenticated %v", got, pubM)
	}
	vstat.Label("peerid_control_admitted_under_own_key")

	for _, c := range []struct {
		name    string
		claimed crypto.PubKeyEd25519
	}{{"victim", pubV}, {"arbitrary-32-bytes", junk}} {
		vstat.Eval()
		p, _ := admitOnce(t, kS, kM, c.claimed)
		if p == nil {
			vstat.Label("peerid_refused_" + c.name)
			continue
		}
		vstat.Label("peerid_admitted_" + c.name)
		vstat.NonTrivial("peerid|" + c.name)
		if got := p.NodeInfo().PubKey; !got.Equals(pubM) {
			vstat.Violation(t, P, kPeerIdentity, "the Switch admitted a peer under NodeInfo.PubKey %v (peer ID %s) although the connection authenticated key %v: the remote node ran the secret handshake with its own key and then named the %s key in its self-reported NodeInfo; nothing compares NodeInfo.PubKey with SecretConnection.RemotePubKey()",
				got, p.ID(), fmt.Sprintf("%X", pubM[:]), c.name)
		}
	}
}
