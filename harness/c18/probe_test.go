package c18

import (
	"fmt"
	"net"
	"testing"

	"github.com/lianxiangcloud/linkchain/libs/crypto"
	"github.com/lianxiangcloud/linkchain/libs/p2p/conn"
	"github.com/lianxiangcloud/linkchain/libs/ser"
)

type tap struct {
	net.Conn
	name string
}

func (t tap) Write(p []byte) (int, error) {
	fmt.Printf("%s write %d: %x\n", t.name, len(p), p)
	return t.Conn.Write(p)
}

type authMsg struct {
	Key crypto.PubKey
	Sig crypto.Signature
}

func TestProbe(t *testing.T) {
	a, b := net.Pipe()
	ka := crypto.GenPrivKeyEd25519FromSecret([]byte("a"))
	kb := crypto.GenPrivKeySecp256k1FromSecret([]byte("b"))
	done := make(chan struct{})
	go func() {
		sc, err := conn.MakeSecretConnection(tap{b, "B"}, kb)
		fmt.Println("B:", err, sc != nil)
		close(done)
	}()
	sc, err := conn.MakeSecretConnection(tap{a, "A"}, ka)
	fmt.Println("A:", err, sc.RemotePubKey())
	<-done
	sig, _ := ka.Sign([]byte("x"))
	bz, err := ser.EncodeToBytesWithType(authMsg{ka.PubKey(), sig})
	fmt.Printf("authMsg enc %d %x %v\n", len(bz), bz, err)
	var e [32]byte
	bz, err = ser.EncodeToBytesWithType(&e)
	fmt.Printf("eph enc %d %x %v\n", len(bz), bz, err)
}
