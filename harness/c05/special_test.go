package c05

// The verdict on a block must not depend on what a node has seen before: special transactions (validator-signed rotations of a
// signer set, contract upgrades signed by that set) are judged against chain state that changes - the validator set, the
// signer set - so a node that met the transaction when it was sufficiently signed and a node that never saw it must still
// agree on a block that carries it later.  Generated: who signs, whether node A has the transaction in its mempool (and its
// cache), what changes in between (the validator set the application is told about; a committed rotation), and the block.
// Oracle: CheckBlock gives the same answer on A and on a replica B that shares A's committed state but never saw the
// transaction, and for rotations the answer is the generator's: signed by more than 2/3 of the validators in force.

import (
	"fmt"
	"testing"

	cfg "github.com/lianxiangcloud/linkchain/config"
	"github.com/lianxiangcloud/linkchain/libs/crypto"
	"github.com/lianxiangcloud/linkchain/types"
	"pgregory.net/rapid"

	"verifharness/chainsim"
	"verifharness/vstat"
	"verifharness/world"
)

func TestSpecialTxVerdictIndependentOfCache(t *testing.T) {
	rapid.Check(t, func(t *rapid.T) {
		vstat.Eval()
		resetCaches()
		defer resetCaches()
		s := chainsim.New(t, chainsim.Options{Wasm: true, MultiSign: true, AllRich: true, NumAccts: 2, NumWallets: 1, RealCache: true})
		defer s.Close()
		var hist []string
		logf := func(f string, a ...interface{}) { hist = append(hist, fmt.Sprintf(f, a...)) }
		kind := rapid.SampledFrom([]string{"rotation", "rotation", "upgrade"}).Draw(t, "kind")
		var tx types.Tx
		nsig := 4
		switch kind {
		case "rotation":
			nsig = rapid.IntRange(0, 4).Draw(t, "nsig")
			tx = world.MultiSignTx(0, 1, []world.Acct{world.DetAcct(901)}, []int32{1}, s.ValKeys[:nsig])
			logf("a rotation signed by %d of the 4 validators", nsig)
		default:
			tx = world.UpgradeTx(s.Upgrader, s.WasmAddr, 0, s.WasmCodes["prints"])
			logf("an upgrade signed by the registered signer")
		}
		seenByA := rapid.Bool().Draw(t, "seenbyA")
		if seenByA {
			err := s.W.Submit(tx)
			logf("node A receives it: %v", err)
		}
		// what changes before the block arrives
		vals := append([]*types.Validator(nil), s.Spec.Validators...)
		keep := 4
		change := rapid.SampledFrom([]string{"nothing", "validator-set", "validator-set", "signer-rotation-committed"}).Draw(t, "change")
		var foreign *types.Block
		switch change {
		case "validator-set":
			keep = rapid.IntRange(0, 3).Draw(t, "kept")
			vals = append([]*types.Validator(nil), s.Spec.Validators[:keep]...)
			for i := keep; i < 4; i++ {
				k := crypto.GenPrivKeyEd25519FromSecret([]byte(fmt.Sprintf("special-other-validator-%d", i)))
				vals = append(vals, &types.Validator{Address: k.PubKey().Address(), PubKey: k.PubKey(), VotingPower: 1})
			}
			logf("the validator set changes: %d of the 4 old validators stay", keep)
		case "signer-rotation-committed":
			// another rotation, committed by a block proposed elsewhere: the registered signer is no longer in the set
			m2 := world.MultiSignTx(0, 1, []world.Acct{world.DetAcct(902)}, []int32{1}, s.ValKeys)
			foreign = s.W.BlockOf(types.Txs{m2}, world.GenesisTime+10, cfg.ContractFoundationAddr)
			s.W.App.PreRunBlock(foreign)
			logf("a block proposed elsewhere rotates the upgrade signer set to another account")
		}
		b, err := s.W.Replica()
		if err != nil {
			t.Fatalf("replica: %v", err)
		}
		defer b.Close()
		for _, w := range []*world.World{s.W, b} {
			if foreign != nil {
				cp, _ := world.CopyBlock(foreign)
				if err := w.Commit(cp); err != nil {
					t.Skip("the rotating block is not accepted: " + err.Error())
				}
			}
			if change == "validator-set" {
				w.App.SetLastChangedVals(w.Height(), vals)
			}
		}
		nonce := uint64(0)
		_ = nonce
		blk := s.W.BlockOf(types.Txs{chainsim.Fresh(tx)}, world.GenesisTime+uint64(10*(s.W.Height()+1)), cfg.ContractFoundationAddr)
		var pan interface{}
		func() {
			defer func() { pan = recover() }()
			s.W.App.PreRunBlock(blk)
		}()
		if pan != nil {
			t.Skip("the block does not even execute on the proposer path")
		}
		ca, _ := world.CopyBlock(blk)
		cb, _ := world.CopyBlock(blk)
		useCache("A")
		va := s.W.Check(ca)
		useCache("B")
		vb := b.Check(cb)
		logf("CheckBlock on A (has seen it: %v): %v; on B (never saw it): %v", seenByA, va, vb)
		vstat.Label("special_" + kind + "_after_" + change)
		if seenByA && change != "nothing" {
			vstat.NonTrivial(fmt.Sprint(hist))
		}
		if va != vb {
			vstat.Violation(t, P, "special-tx-verdict-depends-on-mempool-cache", "two nodes over the same committed state disagree on the same block:\n%s", fmt.Sprint(hist))
			return
		}
		if kind == "rotation" && foreign == nil {
			// the generator's verdict: the signatures that count are those of validators in force now
			valid := 0
			if nsig < keep {
				valid = nsig
			} else {
				valid = keep
			}
			want := valid*3 > 4*2
			if va != want {
				vstat.Violation(t, P, "special-tx-verdict-not-by-validators-in-force", "a rotation with %d signatures of validators in force (of 4) gets the verdict %v:\n%s", valid, va, fmt.Sprint(hist))
			}
		}
	})
}
