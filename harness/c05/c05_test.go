// C05 — block execution is a deterministic function of the prior state and the block.
package c05

import (
	"bytes"
	"fmt"
	"math/big"
	"reflect"
	"runtime"
	"strings"
	"testing"

	cfg "github.com/lianxiangcloud/linkchain/config"
	"github.com/lianxiangcloud/linkchain/libs/common"
	"github.com/lianxiangcloud/linkchain/libs/crypto"
	"github.com/lianxiangcloud/linkchain/libs/ser"
	"github.com/lianxiangcloud/linkchain/types"
	wvm "github.com/xunleichain/tc-wasm/vm"
	"pgregory.net/rapid"

	"verifharness/chainsim"
	"verifharness/vstat"
	"verifharness/world"
)

const P = "C05"

func TestMain(m *testing.M) {
	world.Init()
	vstat.Main(m)
}

var accountKinds = []string{"transfer", "transfer", "token", "token", "call-revert", "call-forward", "call-fwdrevert", "call-killrevert", "pay-suicider", "call-suicide", "call-issue", "call-store", "create", "prefund-create", "create-and-die"}

// resultOf is everything the property lists as the result of executing a block, in a comparable form.
type resultOf struct {
	StateHash, ReceiptHash string
	GasUsed                uint64
	Bloom                  string
	Receipts               []string
	UTXOOutputs            []string
	KeyImages              []string
	SpecialTxs             int
	Candidates             string
}

func committedResult(w *world.World, h uint64) (*resultOf, error) {
	tr, err := w.BlockStore.LoadTxsResult(h)
	if err != nil {
		return nil, err
	}
	r := &resultOf{StateHash: tr.StateHash.Hex(), ReceiptHash: tr.ReceiptHash.Hex(), GasUsed: tr.GasUsed, Bloom: fmt.Sprintf("%x", tr.LogsBloom[:]), SpecialTxs: len(tr.SpecialTxs())}
	if rc := w.BlockStore.GetReceipts(h); rc != nil {
		for _, x := range *rc {
			var logs []string
			for _, l := range x.Logs {
				logs = append(logs, fmt.Sprintf("%s|%v|%x", l.Address.Hex(), l.Topics, l.Data))
			}
			r.Receipts = append(r.Receipts, fmt.Sprintf("status=%d gas=%d cum=%d contract=%s tx=%s logs=%v bloom=%x", x.Status, x.GasUsed, x.CumulativeGasUsed, x.ContractAddress.Hex(), x.TxHash.Hex(), logs, crc(x.Bloom[:])))
		}
	}
	for _, o := range tr.UTXOOutputs() {
		b, _ := ser.EncodeToBytes(o)
		r.UTXOOutputs = append(r.UTXOOutputs, fmt.Sprintf("%x", b))
	}
	for _, k := range tr.KeyImages() {
		r.KeyImages = append(r.KeyImages, fmt.Sprintf("%x", k[:]))
	}
	cb, _ := ser.EncodeToBytes(tr.Candidates)
	r.Candidates = fmt.Sprintf("%x", cb)
	return r, nil
}

func crc(b []byte) []byte {
	h := common.BytesToHash(b)
	_ = h
	// a short digest is enough for the message; equality is checked on the formatted string
	x := byte(0)
	var out [4]byte
	for i, c := range b {
		x ^= c
		out[i%4] ^= c + byte(i)
	}
	return append(out[:], x)
}

func diff(a, b *resultOf) string {
	if reflect.DeepEqual(a, b) {
		return ""
	}
	va, vb := reflect.ValueOf(*a), reflect.ValueOf(*b)
	var out []string
	for i := 0; i < va.NumField(); i++ {
		if !reflect.DeepEqual(va.Field(i).Interface(), vb.Field(i).Interface()) {
			out = append(out, fmt.Sprintf("%s: %v != %v", va.Type().Field(i).Name, va.Field(i).Interface(), vb.Field(i).Interface()))
		}
	}
	return strings.Join(out, "; ")
}

type node struct {
	name string
	w    *world.World
}

// The tc-wasm application cache is a process-wide map keyed by contract address.  Every node of this test is a separate
// process in reality, so each gets its own cache content: useCache parks the current owner's entries and installs the
// next owner's (an unknown owner starts empty, like a freshly started process).
var (
	cacheOwner = ""
	cacheStore = map[string]map[interface{}]interface{}{}
)

func useCache(owner string) {
	if owner == cacheOwner {
		return
	}
	park := map[interface{}]interface{}{}
	wvm.AppCache.Range(func(k, v interface{}) bool { park[k] = v; wvm.AppCache.Delete(k); return true })
	cacheStore[cacheOwner] = park
	for k, v := range cacheStore[owner] {
		wvm.AppCache.Store(k, v)
	}
	delete(cacheStore, owner)
	cacheOwner = owner
}

func resetCaches() {
	wvm.AppCache.Range(func(k, _ interface{}) bool { wvm.AppCache.Delete(k); return true })
	cacheStore = map[string]map[interface{}]interface{}{}
	cacheOwner = ""
}

func TestBlockDeterminism(t *testing.T) {
	rapid.Check(t, func(t *rapid.T) {
		vstat.Eval()
		defer runtime.GOMAXPROCS(runtime.GOMAXPROCS(0))
		resetCaches()
		defer resetCaches()
		s := chainsim.New(t, chainsim.Options{Contracts: true, Tokens: true, AllRich: rapid.Bool().Draw(t, "allrich"), RichBalance: true, RealCache: rapid.IntRange(0, 3).Draw(t, "realcache") == 0, Candidates: rapid.IntRange(0, 2).Draw(t, "candidates") != 0, Wasm: rapid.IntRange(0, 2).Draw(t, "wasm") != 0, MultiSign: rapid.Bool().Draw(t, "multisign")})
		kindsHere := accountKinds
		if s.WasmCodes != nil {
			kindsHere = append(append([]string(nil), accountKinds...), "wasm-call", "wasm-call", "wasm-call")
		}
		defer s.Close()
		// a twin chain over the SAME genesis in the OTHER storage mode: it must accept and reproduce every block
		twinSpec := *s.Spec
		twinSpec.IsTrie = !s.Spec.IsTrie
		twin, err := world.New(&twinSpec)
		if err != nil {
			t.Fatalf("twin: %v", err)
		}
		defer twin.Close()
		var hist []string
		nblocks := rapid.IntRange(1, 4).Draw(t, "nblocks")
		nontrivial := false
		for b := 0; b < nblocks; b++ {
			// ---- collect transactions in the proposer's mempool
			ntx := rapid.IntRange(0, 8).Draw(t, "ntx")
			var admitted []*chainsim.Tx
			kinds := map[string]bool{}
			touched := map[common.Address]bool{}
			failing := false
			suicide := false
			for i := 0; i < ntx; i++ {
				var g *chainsim.Tx
				class := rapid.IntRange(0, 12).Draw(t, "class")
				if b == 0 && i < 2 {
					class = 0
				}
				switch class {
				case 0, 1:
					g = s.GenA2U(t)
				case 2, 3, 4:
					if g = s.GenUSpend(t, nil); g == nil {
						g = s.GenA2U(t)
					}
				case 9:
					if g = s.GenUpgradeBy(t); g == nil {
						g = s.GenAccountTx(t, kindsHere)
					}
				case 11:
					// a non-native token enters the confidential pool / moves on / leaves it (fee in the native coin, paid by the signer)
					if g = s.GenTokenDeposit(t); g == nil {
						g = s.GenAccountTx(t, kindsHere)
					}
				case 12:
					if g = s.GenTokenSpend(t); g == nil {
						if g = s.GenTokenDeposit(t); g == nil {
							g = s.GenAccountTx(t, kindsHere)
						}
					}
				case 10:
					// a validator-signed rotation of the upgrade signer set (upgrades signed by the old set may be pending)
					if g = s.GenMultiSign(t); g == nil {
						g = s.GenAccountTx(t, kindsHere)
					}
				default:
					g = s.GenAccountTx(t, kindsHere)
				}
				if g == nil || (g.Kind == "call-suicide" && suicide) {
					continue
				}
				if err := s.W.Submit(g.Tx); err == nil {
					admitted = append(admitted, g)
					kinds[g.Kind] = true
					touched[g.From] = true
					if to := g.Tx.To(); to != nil {
						touched[*to] = true
					}
					if strings.Contains(g.Kind, "revert") {
						failing = true
					}
					if g.Kind == "call-suicide" {
						suicide = true
					}
					hist = append(hist, fmt.Sprintf("b%d %s", b+1, g.Desc))
				}
			}
			if len(kinds) >= 2 || failing {
				if len(touched) >= 3 {
					nontrivial = true
				}
			}
			for k := range kinds {
				vstat.Label("kind_" + k)
			}
			// replicas of the PRIOR state, made before anybody commits
			mk := func(name string) node {
				r, err := s.W.Replica()
				if err != nil {
					t.Fatalf("replica: %v", err)
				}
				return node{name, r}
			}
			cold, warm, polluted, rerun := mk("cold-mempool"), mk("warm-mempool"), mk("polluted-mempool"), mk("rerun")
			defer cold.w.Close()
			defer warm.w.Close()
			defer polluted.w.Close()
			defer rerun.w.Close()

			// ---- evidence, as consensus puts it into (nearly) every block: who proposed the previous block in which round,
			// who failed to, and occasionally a double-sign accusation.  The application scores the elected candidates with it.
			var evidence []types.Evidence
			if len(s.CandKeys) > 0 && rapid.IntRange(0, 3).Draw(t, "withevidence") != 0 {
				pick := func(label string) crypto.PubKey { return s.CandKeys[rapid.IntRange(0, len(s.CandKeys)-1).Draw(t, label)] }
				fv := &types.FaultValidatorsEvidence{BlockHeight: uint64(b), Round: rapid.IntRange(0, 2).Draw(t, "evround"), Proposer: pick("evproposer")}
				if fv.Round > 0 {
					fv.FaultVal = pick("evfault")
				}
				evidence = append(evidence, fv)
				vstat.Label("block_with_fault_validator_evidence")
				if rapid.IntRange(0, 4).Draw(t, "dupvote") == 0 {
					va := &types.Vote{Height: uint64(b), Round: 0, Type: types.VoteTypePrevote, BlockID: types.BlockID{Hash: common.BytesToHash([]byte("a"))}}
					vb := &types.Vote{Height: uint64(b), Round: 0, Type: types.VoteTypePrevote, BlockID: types.BlockID{Hash: common.BytesToHash([]byte("b"))}}
					evidence = append(evidence, &types.DuplicateVoteEvidence{PubKey: pick("evdup"), VoteA: va, VoteB: vb})
					vstat.Label("block_with_duplicate_vote_evidence")
				}
				nontrivial = true
				hist = append(hist, fmt.Sprintf("b%d evidence %v", b+1, evidence))
			}
			s.W.Evidence = evidence
			// ---- a proposal that is executed but never committed: this node pre-runs a block that upgrades the WASM contract
			// (as proposer, or as a validator of somebody's proposal), the round fails, and the upgrade transaction is not seen
			// again.  Executing a block speculatively must leave nothing behind.
			if s.WasmCodes != nil && rapid.IntRange(0, 3).Draw(t, "abandoned") == 0 {
				if up := s.GenUpgrade(t); up != nil {
					useCache("proposer")
					func() {
						defer func() { recover() }()
						ab := s.W.BlockOf(types.Txs{up.Tx}, world.GenesisTime+uint64(10*(b+1)), cfg.ContractFoundationAddr)
						s.W.App.PreRunBlock(ab)
					}()
					vstat.Label("abandoned_proposal_with_upgrade")
					hist = append(hist, fmt.Sprintf("b%d (a proposal with [%s] is executed and abandoned)", b+1, up.Desc))
					nontrivial = true
				}
			}
			// ---- proposer path
			tstamp := world.GenesisTime + uint64(10*(b+1))
			var blk *types.Block
			var pan interface{}
			useCache("proposer")
			func() {
				defer func() { pan = recover() }()
				blk = s.W.Propose(1000, tstamp, cfg.ContractFoundationAddr)
			}()
			if pan != nil {
				vstat.Violation(t, P, "proposer-panics", "PreRunBlock panicked: %v\n%s", pan, strings.Join(hist, "\n"))
				return
			}
			enc := func() []byte { b, _ := ser.EncodeToBytes(blk); return b }()

			// ---- run to run: the same transactions pre-run again on an untouched replica give the same header
			rerun.w.Evidence = evidence
			// the re-running node is a freshly started process: the tc-wasm application cache, which is process-wide and
			// shared by all nodes of this test, starts empty there
			useCache(fmt.Sprintf("rerun-%d", b))
			again := rerun.w.BlockOf(freshTxs(blk.Data.Txs), tstamp, cfg.ContractFoundationAddr)
			func() {
				defer func() { pan = recover() }()
				rerun.w.App.PreRunBlock(again)
			}()
			if pan != nil {
				vstat.Violation(t, P, "rerun-panics", "a second pre-run of the same transactions on a copy of the same state panicked: %v", pan)
				return
			}
			if again.Header.StateHash != blk.Header.StateHash || again.Header.ReceiptHash != blk.Header.ReceiptHash || again.Header.GasUsed != blk.Header.GasUsed {
				vstat.Violation(t, P, "run-to-run-divergence", "two pre-runs of the same block on the same state differ: state %s/%s receipts %s/%s gas %d/%d\n%s",
					blk.Header.StateHash.Hex(), again.Header.StateHash.Hex(), blk.Header.ReceiptHash.Hex(), again.Header.ReceiptHash.Hex(), blk.Header.GasUsed, again.Header.GasUsed, strings.Join(hist, "\n"))
			}

			// ---- validator path with different mempool / cache / scheduling conditions
			for _, g := range admitted {
				warm.w.Submit(chainsim.Fresh(g.Tx))
			}
			// other transactions of the same senders at the same nonces
			for _, g := range admitted {
				if from, nonce, ok := chainsim.SenderOf(g.Tx); ok {
					for _, a := range s.Accts {
						if a.Addr == from {
							polluted.w.Submit(world.Transfer(a, nonce, s.Sinks()[0], big.NewInt(int64(7+nonce))))
						}
					}
				}
			}
			for i, n := range []node{cold, warm, polluted, {"twin-other-storage-mode", twin}} {
				var cp *types.Block
				if err := ser.DecodeBytes(enc, &cp); err != nil {
					t.Fatalf("decode block: %v", err)
				}
				procs := []int{1, 4, 16}[rapid.IntRange(0, 2).Draw(t, fmt.Sprintf("gomaxprocs%d", i))]
				runtime.GOMAXPROCS(procs)
				if n.name == "twin-other-storage-mode" {
					useCache("twin")
				} else {
					useCache(fmt.Sprintf("%s-%d", n.name, b)) // replicas are fresh nodes every block
				}
				// warm some sender caches in a generated order, like transactions that were seen before
				for _, j := range rapid.SliceOfN(rapid.IntRange(0, 64), 0, 6).Draw(t, fmt.Sprintf("pretouch%d", i)) {
					if len(cp.Data.Txs) > 0 {
						cp.Data.Txs[j%len(cp.Data.Txs)].From()
					}
				}
				ok := n.w.Check(cp)
				vstat.Label(fmt.Sprintf("gomaxprocs_%d", procs))
				if !ok {
					vstat.Violation(t, P, "validator-rejects-honest-proposal:"+n.name, "a block proposed by a correct node (height %d, %d txs) is rejected by a correct validator (%s, GOMAXPROCS %d); storage mode proposer isTrie=%v\n%s",
						blk.Height, len(blk.Data.Txs), n.name, procs, s.Spec.IsTrie, strings.Join(hist, "\n"))
					return
				}
			}
			// ---- everybody commits; the stored results must be identical
			pre := s.Snapshot()
			useCache("proposer")
			if err := s.W.Commit(blk); err != nil {
				vstat.Violation(t, P, "proposer-rejects-own-block", "%v\n%s", err, strings.Join(hist, "\n"))
				return
			}
			if err := s.AfterCommit(blk, nil, pre); err != nil {
				t.Fatalf("bookkeeping: %v", err)
			}
			ref, err := committedResult(s.W, blk.Height)
			if err != nil {
				t.Fatalf("result: %v", err)
			}
			for _, n := range []node{cold, warm, polluted, {"twin-other-storage-mode", twin}} {
				var cp *types.Block
				ser.DecodeBytes(enc, &cp)
				if n.name == "twin-other-storage-mode" {
					useCache("twin")
				} else {
					useCache(fmt.Sprintf("%s-%d", n.name, b))
				}
				if err := n.w.Commit(cp); err != nil {
					vstat.Violation(t, P, "validator-cannot-commit:"+n.name, "%s: %v", n.name, err)
					return
				}
				got, err := committedResult(n.w, blk.Height)
				if err != nil {
					t.Fatalf("result: %v", err)
				}
				if d := diff(ref, got); d != "" {
					vstat.Violation(t, P, "result-divergence:"+n.name, "height %d: the proposer and %s disagree on the execution result: %s\n%s", blk.Height, n.name, d, strings.Join(hist, "\n"))
					return
				}
			}
			// storage-mode independence of the visible state
			st, tw := s.Committed(), twin.App.GetLatestStateDB()
			for a := range s.Universe {
				if st.GetBalance(a).Cmp(tw.GetBalance(a)) != 0 || st.GetNonce(a) != tw.GetNonce(a) || !bytes.Equal(st.GetCode(a), tw.GetCode(a)) {
					vstat.Violation(t, P, "storage-mode-divergence", "height %d: account %s differs between storage modes: balance %v/%v nonce %d/%d", blk.Height, a.Hex(), st.GetBalance(a), tw.GetBalance(a), st.GetNonce(a), tw.GetNonce(a))
				}
				for _, tok := range s.Tokens {
					if st.GetTokenBalance(a, tok).Cmp(tw.GetTokenBalance(a, tok)) != 0 {
						vstat.Violation(t, P, "storage-mode-divergence", "height %d: account %s token %s differs between storage modes", blk.Height, a.Hex(), tok.Hex())
					}
				}
			}
			hist = append(hist, fmt.Sprintf("-- block %d committed with %d txs", blk.Height, len(blk.Data.Txs)))
		}
		if nontrivial {
			vstat.NonTrivial(strings.Join(hist, "|"))
			if vstat.WantSample() {
				vstat.Sample(map[string]interface{}{"proposer_isTrie": s.Spec.IsTrie, "history": hist})
			}
		}
	})
}

func freshTxs(txs types.Txs) types.Txs {
	out := make(types.Txs, len(txs))
	for i, tx := range txs {
		out[i] = chainsim.Fresh(tx)
	}
	return out
}
