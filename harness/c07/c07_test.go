// C07 — every spendable unit is spent at most once across the whole chain.
package c07

import (
	"fmt"
	"math/big"
	"strings"
	"sync"
	"testing"

	cfg "github.com/lianxiangcloud/linkchain/config"
	"github.com/lianxiangcloud/linkchain/libs/common"
	"github.com/lianxiangcloud/linkchain/libs/cryptonote/ringct"
	lktypes "github.com/lianxiangcloud/linkchain/libs/cryptonote/types"
	"github.com/lianxiangcloud/linkchain/types"
	"pgregory.net/rapid"

	"verifharness/chainsim"
	"verifharness/vstat"
	"verifharness/world"
)

const P = "C07"

// torsion8: a point of order 8 on ed25519 (8*T is the identity, T is not).
var torsion8 = func() (k lktypes.Key) {
	copy(k[:], common.FromHex("c7176a703d4dd84fba3c0b760d10670f2a2053fa2c39ccc64ec7fd7792ac037a"))
	return
}()

func TestMain(m *testing.M) {
	world.Init()
	vstat.Main(m)
}

type env struct {
	s         *chainsim.Sim
	hist      []string
	nextNonce map[common.Address]uint64 // next nonce each sender must execute at, from the committed blocks seen so far
	committed map[common.Hash]uint64    // committed tx hash -> height
	pending   []*chainsim.Tx            // admitted confidential spends not yet committed
	lastAcct  []types.Tx                // recently committed account transactions (for replays)
	failed    []types.Tx                // committed account transactions whose execution FAILED (receipt status): they too used up their nonce
	attempts  int
	restarts  int
}

func (e *env) logf(f string, a ...interface{}) { e.hist = append(e.hist, fmt.Sprintf(f, a...)) }
func (e *env) fail(t *rapid.T, key, f string, a ...interface{}) {
	vstat.Violation(t, P, key, "%s\nhistory:\n%s", fmt.Sprintf(f, a...), strings.Join(e.hist, "\n"))
}

// scanBlock applies the history invariants to a block that is about to be / has been committed.
func (e *env) scanBlock(t *rapid.T, blk *types.Block, how string) {
	inBlock := map[lktypes.Key]common.Hash{}
	for _, tx := range blk.Data.Txs {
		h := tx.Hash()
		if ht, dup := e.committed[h]; dup {
			e.fail(t, "tx-committed-twice", "%s: transaction %s committed at height %d is in block %d again", how, h.Hex(), ht, blk.Height)
		}
		if u, ok := tx.(*types.UTXOTransaction); ok {
			for _, ki := range u.GetInputKeyImages() {
				if prev, dup := inBlock[*ki]; dup {
					e.fail(t, "key-image-twice-in-block", "%s: block %d: key image %x in %s and %s", how, blk.Height, ki[:6], prev.Hex(), h.Hex())
				}
				inBlock[*ki] = h
				if e.s.KeyImages[*ki] > 0 {
					e.fail(t, "key-image-committed-twice", "%s: block %d spends key image %x that an earlier block already spent", how, blk.Height, ki[:6])
				}
			}
		}
		if from, nonce, ok := chainsim.SenderOf(tx); ok {
			if nonce != e.nextNonce[from] {
				e.fail(t, "nonce-order", "%s: block %d executes sender %s at nonce %d, next nonce is %d", how, blk.Height, from.Hex()[:10], nonce, e.nextNonce[from])
			}
			e.nextNonce[from] = nonce + 1
		}
	}
}

func (e *env) commit(t *rapid.T, blk *types.Block, how string) bool {
	e.scanBlock(t, blk, how)
	pre := e.s.Snapshot()
	if err := e.s.W.Commit(blk); err != nil {
		e.fail(t, "own-block-rejected", "%s: node rejects a block built from its own mempool: %v", how, err)
		return false
	}
	if err := e.s.AfterCommit(blk, nil, pre); err != nil {
		t.Fatalf("bookkeeping: %v", err)
	}
	receipts := e.s.W.BlockStore.GetReceipts(blk.Height)
	for i, tx := range blk.Data.Txs {
		e.committed[tx.Hash()] = blk.Height
		if _, _, ok := chainsim.SenderOf(tx); ok {
			e.lastAcct = append(e.lastAcct, tx)
			if receipts != nil && i < len(*receipts) && (*receipts)[i].Status != types.ReceiptStatusSuccessful {
				e.failed = append(e.failed, tx)
				vstat.Label("failed_tx_committed")
			}
		}
	}
	// the committed state carries, for every sender, the nonce the history of executed transactions gives
	for from, n := range e.nextNonce {
		if got := e.s.Committed().GetNonce(from); got != n {
			e.fail(t, "state-nonce-differs-from-executed-history", "%s: after block %d sender %s has executed nonces up to %d but the state says the next nonce is %d", how, blk.Height, from.Hex()[:10], n-1, got)
		}
	}
	var keep []*chainsim.Tx
	for _, p := range e.pending {
		if _, done := e.committed[p.Tx.Hash()]; !done {
			keep = append(keep, p)
		}
	}
	e.pending = keep
	// every committed key image is known as spent
	for ki := range e.s.KeyImages {
		k := ki
		if !e.s.W.UtxoStore.HaveTxKeyimgAsSpent(&k) {
			e.fail(t, "committed-key-image-not-marked-spent", "%s: key image %x of a committed transaction is not marked spent", how, k[:6])
		}
	}
	return true
}

// respend builds another spend of the same outputs as g (different destination, so a different transaction).
func (e *env) respendOf(t *rapid.T, ow *world.Owned, w *world.Wallet, ringSize int) *types.UTXOTransaction {
	ring := []world.RingMember{}
	outs := e.s.Outs[common.EmptyAddress]
	ring = append(ring, outs[ow.GlobalIndex].RingMember)
	for i := 0; len(ring) < ringSize && i < len(outs); i++ {
		if uint64(i) != ow.GlobalIndex {
			ring = append(ring, outs[i].RingMember)
		}
	}
	// keep ring sorted by global index
	for i := 1; i < len(ring); i++ {
		for j := i; j > 0 && ring[j].GlobalIndex < ring[j-1].GlobalIndex; j-- {
			ring[j], ring[j-1] = ring[j-1], ring[j]
		}
	}
	rest := new(big.Int).Sub(ow.Amount, chainsim.UTXOFee)
	if rest.Cmp(world.UTXOUnit) < 0 {
		return nil
	}
	dw := e.s.Wallets[rapid.IntRange(0, len(e.s.Wallets)-1).Draw(t, "rdw")]
	tx, err := w.SpendUTXO([]*types.UTXOSourceEntry{ow.Source(ring)}, []types.DestEntry{dw.Dest(uint64(rapid.IntRange(0, 2).Draw(t, "rsub")), rest)}, common.EmptyAddress, nil)
	if err != nil {
		return nil
	}
	return tx
}

func ownerOf(s *chainsim.Sim, ki lktypes.Key) (*world.Wallet, *world.Owned) {
	for _, w := range s.Wallets {
		for _, o := range w.Owned {
			if o.KeyImage == ki {
				return w, o
			}
		}
	}
	return nil, nil
}

func TestDoubleSpendHistory(t *testing.T) {
	rapid.Check(t, func(t *rapid.T) {
		vstat.Eval()
		e := &env{nextNonce: map[common.Address]uint64{}, committed: map[common.Hash]uint64{}}
		e.s = chainsim.New(t, chainsim.Options{NumAccts: rapid.IntRange(2, 3).Draw(t, "naccts"), NumWallets: 2, AllRich: true, Contracts: true, MultiSign: true})
		defer func() { e.s.Close() }()
		s := e.s
		propose := func() *types.Block {
			var blk *types.Block
			var pan interface{}
			func() {
				defer func() { pan = recover() }()
				blk = s.W.Propose(rapid.IntRange(1, 20).Draw(t, "maxtxs"), world.GenesisTime+uint64(10*(s.W.Height()+1)), cfg.ContractFoundationAddr)
			}()
			if pan != nil {
				e.fail(t, "proposer-panics-on-reaped-txs", "PreRunBlock panicked: %v", pan)
				return nil
			}
			return blk
		}
		// seed: several confidential outputs
		for i := 0; i < 4; i++ {
			if g := s.GenA2U(t); g != nil {
				err := s.W.Submit(g.Tx)
				e.logf("seed %s => %v", g.Desc, err)
			}
		}
		if blk := propose(); blk == nil || !e.commit(t, blk, "seed block") {
			return
		}
		nops := rapid.IntRange(4, 24).Draw(t, "nops")
		for i := 0; i < nops; i++ {
			op := rapid.SampledFrom([]string{"a2u", "transfer", "spend", "spend", "respend-pending", "respend-committed", "respend-shifted-key-image", "respend-shifted-key-image", "dup-ki-in-tx", "inject-two-spends", "inject-committed-spend",
				"inject-tx-twice", "inject-replay-old", "inject-nonce-gap", "inject-reorder", "resubmit-committed", "failing-call", "failing-call", "inject-replay-failed", "resubmit-failed", "multisign", "multisign", "commit", "commit", "commit-foreign", "commit-foreign", "restart", "concurrent-respend"}).Draw(t, "op")
			switch op {
			case "a2u":
				if g := s.GenA2U(t); g != nil {
					err := s.W.Submit(g.Tx)
					e.logf("%s %s => %v", op, g.Desc, err)
				}
			case "failing-call":
				// a call that is included in a block and FAILS there (it reverts, or runs out of gas): gas is charged, the nonce is used up
				if g := s.GenAccountTx(t, []string{"call-revert", "call-fwdrevert", "call-killrevert"}); g != nil {
					err := s.W.Submit(g.Tx)
					e.logf("%s %s => %v", op, g.Desc, err)
				}
			case "multisign":
				// a validator-signed rotation of the upgrade signer set: it has a nonce of its own account and is replayed like the rest
				if g := s.GenMultiSign(t); g != nil {
					err := s.W.Submit(g.Tx)
					e.logf("%s %s => %v", op, g.Desc, err)
					if err == nil {
						vstat.Label("multisign_admitted")
					}
				}
			case "transfer":
				if g := s.GenAccountTx(t, []string{"transfer"}); g != nil {
					err := s.W.Submit(g.Tx)
					e.logf("%s %s => %v", op, g.Desc, err)
				}
			case "spend":
				if g := s.GenUSpend(t, nil); g != nil {
					err := s.W.Submit(g.Tx)
					e.logf("%s %s => %v", op, g.Desc, err)
					if err == nil {
						e.pending = append(e.pending, g)
					}
				}
			case "commit-foreign":
				// a block proposed by ANOTHER validator is committed: it carries none of this node's pending transactions (it
				// is empty or holds one transfer this node never saw), so everything pending stays pending across the commit
				var txs types.Txs
				if rapid.Bool().Draw(t, "foreigntx") {
					from := s.Accts[rapid.IntRange(0, len(s.Accts)-1).Draw(t, "from")]
					txs = types.Txs{world.Transfer(from, s.Committed().GetNonce(from.Addr), s.Sinks()[1], big.NewInt(int64(1+i)))}
				}
				var blk *types.Block
				var pan interface{}
				func() {
					defer func() { pan = recover() }()
					b := s.W.BlockOf(txs, world.GenesisTime+uint64(10*(s.W.Height()+1)), cfg.ContractFoundationAddr)
					s.W.App.PreRunBlock(b)
					blk, _ = world.CopyBlock(b)
				}()
				if pan != nil || blk == nil {
					e.logf("%s: could not be built: %v", op, pan)
					continue
				}
				npend := len(e.pending)
				if !e.commit(t, blk, "foreign block") {
					return
				}
				e.logf("%s: block %d with %d foreign txs committed, %d confidential spends stay pending", op, blk.Height, len(txs), npend)
				if npend > 0 {
					vstat.Label("foreign_block_committed_over_pending_spends")
				}
			case "respend-pending":
				if len(e.pending) == 0 {
					continue
				}
				g := e.pending[rapid.IntRange(0, len(e.pending)-1).Draw(t, "which")]
				w, ow := ownerOf(s, g.KeyImages[0])
				if ow == nil {
					continue
				}
				tx := e.respendOf(t, ow, w, rapid.IntRange(1, 3).Draw(t, "ring"))
				if tx == nil {
					continue
				}
				e.attempts++
				vstat.Label("attempt_respend_pending")
				err := s.W.Submit(tx)
				e.logf("%s of %x => %v", op, ow.KeyImage[:6], err)
				if err == nil {
					e.fail(t, "mempool-admits-conflicting-spend", "a second spend of key image %x was admitted while the first is pending", ow.KeyImage[:6])
				}
			case "respend-committed", "inject-committed-spend":
				var spent []*world.Owned
				var owners []*world.Wallet
				for _, w := range s.Wallets {
					for _, o := range w.Owned {
						if o.Spent {
							spent = append(spent, o)
							owners = append(owners, w)
						}
					}
				}
				if len(spent) == 0 {
					continue
				}
				k := rapid.IntRange(0, len(spent)-1).Draw(t, "which")
				tx := e.respendOf(t, spent[k], owners[k], rapid.IntRange(1, 3).Draw(t, "ring"))
				if tx == nil {
					continue
				}
				e.attempts++
				if op == "respend-committed" {
					vstat.Label("attempt_respend_committed_mempool")
					err := s.W.Submit(tx)
					e.logf("%s of %x => %v", op, spent[k].KeyImage[:6], err)
					if err == nil {
						e.fail(t, "mempool-admits-spent-key-image", "a spend of key image %x, already spent on chain, was admitted", spent[k].KeyImage[:6])
					}
				} else {
					vstat.Label("attempt_respend_committed_block")
					acc, note := s.InjectAccepted(types.Txs{chainsim.Fresh(tx)})
					e.logf("%s of %x => accepted=%v (%s)", op, spent[k].KeyImage[:6], acc, note)
					if acc {
						e.fail(t, "validator-accepts-spent-key-image", "a hand-made block spending key image %x, already spent on chain, is accepted by CheckBlock", spent[k].KeyImage[:6])
					}
				}
			case "respend-shifted-key-image":
				// The spent set compares key images byte by byte, so an output spent under key image I could be spent again under
				// I + j*T (T a point of order 8, j = 1..7): other bytes, and a ring signature over it verifies for one signing
				// nonce in eight.  What stands in the way is the requirement that a key image lies in the prime-order subgroup.
				// The wallet cannot be made to sign over a shifted image, so the oracle is a relation between two transactions
				// that differ only in that key image: the respend carrying I + j*T must be turned away EARLIER than the same
				// respend carrying a well-formed key image that is simply not the ring's (a committed output key - it falls at
				// the ring signature).  If both are turned away for the same reason, the shifted image got as far as the signature.
				var spent []*world.Owned
				var owners []*world.Wallet
				for _, w := range s.Wallets {
					for _, o := range w.Owned {
						if o.Spent {
							spent = append(spent, o)
							owners = append(owners, w)
						}
					}
				}
				if len(spent) == 0 {
					continue
				}
				k := rapid.IntRange(0, len(spent)-1).Draw(t, "which")
				tx := e.respendOf(t, spent[k], owners[k], rapid.IntRange(1, 3).Draw(t, "ring"))
				if tx == nil {
					continue
				}
				j := rapid.IntRange(1, 7).Draw(t, "torsionmultiple")
				shifted := spent[k].KeyImage
				var aerr error
				for i := 0; i < j && aerr == nil; i++ {
					shifted, aerr = ringct.AddKeys(shifted, torsion8)
				}
				if aerr != nil {
					continue
				}
				bad, ctl := chainsim.Fresh(tx).(*types.UTXOTransaction), chainsim.Fresh(tx).(*types.UTXOTransaction)
				bad.Inputs[0].(*types.UTXOInput).KeyImage = shifted
				ctl.Inputs[0].(*types.UTXOInput).KeyImage = s.Outs[common.EmptyAddress][spent[k].GlobalIndex].RingMember.OTAddr
				errBad := s.W.App.CheckTx(chainsim.Fresh(bad), true)
				errCtl := s.W.App.CheckTx(chainsim.Fresh(ctl), true)
				e.attempts++
				vstat.Label("attempt_respend_shifted_key_image")
				e.logf("%s of %x (+%d*T) => %v; control with a well-formed foreign key image => %v", op, spent[k].KeyImage[:6], j, errBad, errCtl)
				if errBad == nil {
					e.fail(t, "mempool-admits-spent-key-image", "a respend of key image %x shifted by %d*T (a point of order 8) was admitted", spent[k].KeyImage[:6], j)
				} else if errCtl != nil && errBad.Error() == errCtl.Error() {
					e.fail(t, "key-image-outside-prime-subgroup-reaches-signature-check", "a respend of the spent key image %x shifted by %d*T (T of order 8; other bytes, so no spent set knows it) is turned away only where a well-formed foreign key image is (%v): the subgroup requirement did not stop it, and a ring signature over a shifted image verifies for one signing nonce in eight", spent[k].KeyImage[:6], j, errBad)
				}
			case "dup-ki-in-tx":
				// the same output twice in one transaction
				var w *world.Wallet
				var ow *world.Owned
				for _, cw := range s.Wallets {
					for _, o := range cw.Owned {
						if !o.Spent {
							w, ow = cw, o
						}
					}
				}
				if ow == nil {
					continue
				}
				ring := []world.RingMember{s.Outs[common.EmptyAddress][ow.GlobalIndex].RingMember}
				rest := new(big.Int).Sub(new(big.Int).Mul(ow.Amount, big.NewInt(2)), chainsim.UTXOFee)
				tx, err := w.SpendUTXO([]*types.UTXOSourceEntry{ow.Source(ring), ow.Source(ring)}, []types.DestEntry{s.Wallets[0].Dest(0, rest)}, common.EmptyAddress, nil)
				if err != nil {
					continue
				}
				e.attempts++
				vstat.Label("attempt_dup_in_tx")
				err = s.W.Submit(tx)
				acc, note := s.InjectAccepted(types.Txs{chainsim.Fresh(tx)})
				e.logf("%s %x => submit %v, block accepted=%v (%s)", op, ow.KeyImage[:6], err, acc, note)
				if err == nil || acc {
					e.fail(t, "same-key-image-twice-in-one-tx-accepted", "a transaction spending key image %x twice: mempool error %v, validator accepts block %v", ow.KeyImage[:6], err, acc)
				}
			case "inject-two-spends":
				// two different transactions spending the same unspent output in one hand-made block
				var w *world.Wallet
				var ow *world.Owned
				for _, cw := range s.Wallets {
					for _, o := range cw.Owned {
						if !o.Spent {
							w, ow = cw, o
						}
					}
				}
				if ow == nil {
					continue
				}
				a := e.respendOf(t, ow, w, rapid.IntRange(1, 3).Draw(t, "ringa"))
				b := e.respendOf(t, ow, w, rapid.IntRange(1, 3).Draw(t, "ringb"))
				if a == nil || b == nil || a.Hash() == b.Hash() {
					continue
				}
				e.attempts++
				vstat.Label("attempt_two_spends_one_block")
				acc, note := s.InjectAccepted(types.Txs{chainsim.Fresh(a), chainsim.Fresh(b)})
				e.logf("%s %x => accepted=%v (%s)", op, ow.KeyImage[:6], acc, note)
				if acc {
					e.fail(t, "validator-accepts-double-spend-in-block", "a hand-made block with two spends of key image %x is accepted by CheckBlock", ow.KeyImage[:6])
				}
			case "inject-replay-failed", "resubmit-failed":
				// the same signed transaction again after it was executed and FAILED
				if len(e.failed) == 0 {
					continue
				}
				tx := chainsim.Fresh(e.failed[rapid.IntRange(0, len(e.failed)-1).Draw(t, "oldfailed")])
				e.attempts++
				vstat.Label("attempt_" + op)
				if op == "inject-replay-failed" {
					acc, note := s.InjectAccepted(types.Txs{tx})
					e.logf("%s %s => accepted=%v (%s)", op, tx.Hash().Hex()[:10], acc, note)
					if acc {
						e.fail(t, "validator-accepts-replay-of-failed-tx", "a hand-made block repeating transaction %s, which an earlier block executed (it failed there), is accepted by CheckBlock", tx.Hash().Hex())
					}
				} else {
					err := s.W.Submit(tx)
					e.logf("%s %s => %v", op, tx.Hash().Hex()[:10], err)
					if err == nil {
						for _, o := range s.W.Mempool.Reap(1 << 30) {
							if o.Hash() == tx.Hash() {
								e.fail(t, "mempool-offers-committed-tx", "a committed (failed) transaction was admitted again and is offered for the next block")
							}
						}
					}
				}
			case "inject-tx-twice", "inject-replay-old", "inject-nonce-gap", "inject-reorder":
				from := s.Accts[rapid.IntRange(0, len(s.Accts)-1).Draw(t, "from")]
				n := s.Committed().GetNonce(from.Addr)
				to := s.Sinks()[0]
				mk := func(nonce uint64, amt int64) types.Tx { return world.Transfer(from, nonce, to, big.NewInt(amt)) }
				var txs types.Txs
				switch op {
				case "inject-tx-twice":
					tx := mk(n, 5)
					txs = types.Txs{tx, chainsim.Fresh(tx)}
				case "inject-replay-old":
					if len(e.lastAcct) == 0 {
						continue
					}
					txs = types.Txs{chainsim.Fresh(e.lastAcct[rapid.IntRange(0, len(e.lastAcct)-1).Draw(t, "old")])}
				case "inject-nonce-gap":
					txs = types.Txs{mk(n+uint64(rapid.IntRange(1, 3).Draw(t, "gap")), 5)}
				case "inject-reorder":
					txs = types.Txs{mk(n+1, 5), mk(n, 6)}
				}
				e.attempts++
				vstat.Label("attempt_" + op)
				acc, note := s.InjectAccepted(txs)
				e.logf("%s from %s (committed nonce %d) => accepted=%v (%s)", op, from.Addr.Hex()[:10], n, acc, note)
				if acc {
					e.fail(t, "validator-accepts-"+strings.TrimPrefix(op, "inject-"), "a hand-made block (%s) is accepted by CheckBlock", op)
				}
			case "resubmit-committed":
				if len(e.lastAcct) == 0 {
					continue
				}
				tx := chainsim.Fresh(e.lastAcct[rapid.IntRange(0, len(e.lastAcct)-1).Draw(t, "old")])
				e.attempts++
				vstat.Label("attempt_resubmit_committed")
				err := s.W.Submit(tx)
				e.logf("%s => %v", op, err)
				if err == nil {
					// admitted as executable?  then it must never be offered
					for _, o := range s.W.Mempool.Reap(1 << 30) {
						if o.Hash() == tx.Hash() {
							e.fail(t, "mempool-offers-committed-tx", "a committed transaction was admitted again and is offered for the next block")
						}
					}
				}
			case "commit":
				blk := propose()
				if blk == nil {
					return
				}
				e.logf("%s block %d with %d txs", op, blk.Height, len(blk.Data.Txs))
				if !e.commit(t, blk, "block from own mempool") {
					return
				}
			case "restart":
				if err := s.Restart(); err != nil {
					e.fail(t, "restart-failed", "clean restart failed: %v", err)
					return
				}
				e.restarts++
				e.pending = nil // the mempool is volatile
				e.logf("restart at height %d", s.W.Height())
				for ki := range s.KeyImages {
					k := ki
					if !s.W.UtxoStore.HaveTxKeyimgAsSpent(&k) {
						e.fail(t, "spent-key-image-forgotten-after-restart", "after a restart key image %x of a committed transaction is not marked spent", k[:6])
					}
				}
			case "concurrent-respend":
				// several different spends of ONE unspent output submitted at the same time: at most one may be admitted
				var w *world.Wallet
				var ow *world.Owned
				busy := map[lktypes.Key]bool{}
				for _, p := range e.pending {
					for _, ki := range p.KeyImages {
						busy[ki] = true
					}
				}
				for _, cw := range s.Wallets {
					for _, o := range cw.Owned {
						if !o.Spent && !busy[o.KeyImage] {
							w, ow = cw, o
						}
					}
				}
				if ow == nil {
					continue
				}
				k := rapid.IntRange(2, 4).Draw(t, "workers")
				var txs []*types.UTXOTransaction
				for j := 0; j < k; j++ {
					if tx := e.respendOf(t, ow, w, rapid.IntRange(1, 3).Draw(t, "cring")); tx != nil {
						txs = append(txs, tx)
					}
				}
				if len(txs) < 2 {
					continue
				}
				e.attempts++
				vstat.Label("attempt_concurrent_respend")
				errs := make([]error, len(txs))
				var wg sync.WaitGroup
				for j := range txs {
					wg.Add(1)
					go func(j int) { defer wg.Done(); errs[j] = s.W.Submit(txs[j]) }(j)
				}
				wg.Wait()
				admitted := 0
				for j := range txs {
					if errs[j] == nil {
						admitted++
						e.pending = append(e.pending, &chainsim.Tx{Tx: txs[j], KeyImages: []lktypes.Key{ow.KeyImage}})
					}
				}
				e.logf("%s %x: %d of %d admitted", op, ow.KeyImage[:6], admitted, len(txs))
				if admitted > 1 {
					e.fail(t, "mempool-admits-concurrent-double-spend", "%d concurrent spends of key image %x were all admitted", admitted, ow.KeyImage[:6])
				}
			}
		}
		// final block so everything pending meets the invariants
		if blk := propose(); blk != nil {
			e.commit(t, blk, "final block")
		}
		if e.attempts > 0 {
			vstat.NonTrivial(strings.Join(e.hist, "|"))
			if e.restarts > 0 {
				vstat.Label("has_restart")
			}
			if vstat.WantSample() {
				vstat.Sample(map[string]interface{}{"isTrie": s.Spec.IsTrie, "history": e.hist})
			}
		}
	})
}
