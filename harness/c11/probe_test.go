package c11

import (
	"fmt"
	"os"
	"reflect"
	"strings"
	"testing"

	"github.com/lianxiangcloud/linkchain/blockchain"
	"github.com/lianxiangcloud/linkchain/consensus"
	"github.com/lianxiangcloud/linkchain/evidence"
	"github.com/lianxiangcloud/linkchain/libs/ser"
	"github.com/lianxiangcloud/linkchain/mempool"
	"github.com/lianxiangcloud/linkchain/state"
	"github.com/lianxiangcloud/linkchain/types"
)

var _ = blockchain.RegisterBlockchainMessages
var _ = evidence.RegisterEvidenceMessages
var _ = mempool.RegisterMempoolMessages

func dump(t reflect.Type, indent string, seen map[reflect.Type]bool, sb *strings.Builder) {
	enc := reflect.TypeOf((*ser.Encoder)(nil)).Elem()
	custom := ""
	if t.Implements(enc) || reflect.PtrTo(t).Implements(enc) {
		custom = " [CUSTOM-ENC]"
	}
	fmt.Fprintf(sb, "%s%s (%s, size %d)%s\n", indent, t.String(), t.Kind(), t.Size(), custom)
	if seen[t] {
		return
	}
	switch t.Kind() {
	case reflect.Ptr, reflect.Slice, reflect.Array:
		if t.Elem().Kind() == reflect.Uint8 {
			return
		}
		dump(t.Elem(), indent+"  ", seen, sb)
	case reflect.Map:
		dump(t.Key(), indent+"  K ", seen, sb)
		dump(t.Elem(), indent+"  V ", seen, sb)
	case reflect.Struct:
		if t.String() == "time.Time" || t.String() == "big.Int" {
			return
		}
		seen[t] = true
		for i := 0; i < t.NumField(); i++ {
			f := t.Field(i)
			fmt.Fprintf(sb, "%s  .%s exported=%v tag=%q\n", indent, f.Name, f.PkgPath == "", f.Tag.Get("rlp"))
			if f.PkgPath == "" || custom != "" {
				dump(f.Type, indent+"      ", seen, sb)
			}
		}
	}
}

func TestProbeTypes(t *testing.T) {
	var sb strings.Builder
	ser.PrintTypes(&sb)
	sb.WriteString("\n\n")
	roots := []interface{}{
		types.Block{}, types.Vote{}, types.Proposal{}, types.Part{}, types.ValidatorSet{}, types.TxsResult{},
		types.Receipt{}, types.ReceiptForStorage{}, types.BlockMeta{}, types.UTXOOutputData{}, state.Account{},
		consensus.NewStatus{}, consensus.ValidatorsInfo{}, consensus.ConsensusParamsInfo{}, consensus.TimedWALMessage{},
		types.Transaction{}, types.TokenTransaction{}, types.ContractUpgradeTx{}, types.MultiSignAccountTx{}, types.UTXOTransaction{},
		types.UTXOInput{}, types.AccountInput{}, types.MineInput{}, types.UTXOOutput{}, types.AccountOutput{},
		types.DuplicateVoteEvidence{}, types.FaultValidatorsEvidence{}, evidence.EvidenceInfo{}, evidence.EvidenceListMessage{},
		mempool.TxMessage{}, mempool.TxHashMessage{},
		consensus.NewRoundStepMessage{}, consensus.CommitStepMessage{}, consensus.ProposalMessage{}, consensus.ProposalPOLMessage{},
		consensus.BlockPartMessage{}, consensus.VoteMessage{}, consensus.HasVoteMessage{}, consensus.VoteSetMaj23Message{},
		consensus.VoteSetBitsMessage{}, consensus.ProposalHeartbeatMessage{}, consensus.EndHeightMessage{}, types.EventDataRoundState{},
		types.BlockBalanceRecords{},
	}
	seen := map[reflect.Type]bool{}
	for _, r := range roots {
		dump(reflect.TypeOf(r), "", seen, &sb)
		sb.WriteString("\n")
	}
	os.WriteFile("/tmp/c11_types.txt", []byte(sb.String()), 0o644)
}
