package c11

// Oracles shared by the rapid tests, the regression tests and the native fuzz targets.

import (
	"bytes"
	"fmt"
	"reflect"
	"runtime"
	"strings"

	"verifharness/vstat"
)

const P = "C11"

// Allocation bound for one decode call: allocBase + allocFactor*len(input) (+ the caller's input
// limit for the DecodeReader entry points, which by design may buffer up to that limit).
//
// The design proposed 64*len.  Measured on the unchanged tree, the worst shape that is inherent to
// decoding into Go values is a list of one-byte items each becoming a 16-byte nil interface (or an
// 8-byte nil pointer) while decodeSliceElems grows the slice by 1.5x: 16 B * ~4.5 = 72 B per input
// byte (a list of 4096 0x00 items into types.Txs allocates 288 488 B = 70 B/byte), and prefix+empty
// payload items (8 input bytes) that allocate a concrete struct reach ~80 B/byte.  128 keeps clear
// of those; everything the check reports is 200 B/byte or (much) more.
const (
	allocBase   = 64 << 10
	allocFactor = 128
)

// root-cause keys of the findings on the unchanged tree (see /verif/KNOWN_FINDINGS.jsonl)
const (
	kForeignPrefix = "cdc:prefix-of-type-not-implementing-target-interface-panics-in-reflect-set"
	kSwallow       = "cdc:interface-decoder-ignores-concrete-decode-error"
	kTimeErr       = "time:decoder-ignores-errors-of-its-integer-fields"
	kMapPresize    = "map:length-field-preallocates-unchecked"
	kZeroStruct    = "alloc:empty-list-accepted-as-zero-struct-amplifies-by-element-size"
)

type decodeResult struct {
	val   reflect.Value
	err   error
	pan   interface{}
	alloc uint64
}

// guarded runs ONLY the call under test inside recover().
func guarded(f func() (reflect.Value, error)) (v reflect.Value, err error, pan interface{}) {
	defer func() {
		if r := recover(); r != nil {
			pan = r
		}
	}()
	v, err = f()
	return
}

// measured runs f and reports the bytes allocated meanwhile (runtime.MemStats.TotalAlloc delta; the
// test process runs one test goroutine, the only other allocator is vstat's 2-second flush, which
// the barrier below and the re-measurement in checkSafety filter out).
func measured(f func() (reflect.Value, error)) decodeResult {
	var m0, m1 runtime.MemStats
	// Barrier against the one other allocator in the process: vstat's flush goroutine marshals its
	// record (megabytes once many fingerprints are recorded) while holding vstat's mutex, and every
	// vstat call takes that mutex - so this call returns only when no flush is in progress.
	vstat.WantSample()
	runtime.ReadMemStats(&m0)
	v, err, pan := guarded(f)
	runtime.ReadMemStats(&m1)
	return decodeResult{val: v, err: err, pan: pan, alloc: m1.TotalAlloc - m0.TotalAlloc}
}

func allocBound(inputLen int, limitExtra uint64) uint64 {
	return allocBase + allocFactor*uint64(inputLen) + limitExtra
}

// walkValue visits every value reachable through encoded fields; fn returns false to stop.
func walkValue(v reflect.Value, depth int, fn func(reflect.Value) bool) bool {
	if !v.IsValid() || depth > 40 {
		return true
	}
	if !fn(v) {
		return false
	}
	switch v.Kind() {
	case reflect.Ptr, reflect.Interface:
		if v.IsNil() || v.Type() == tBigIntPtr {
			return true
		}
		return walkValue(v.Elem(), depth+1, fn)
	case reflect.Slice, reflect.Array:
		if v.Type().Elem().Kind() == reflect.Uint8 {
			return true
		}
		for i := 0; i < v.Len(); i++ {
			if !walkValue(v.Index(i), depth+1, fn) {
				return false
			}
		}
	case reflect.Struct:
		if v.Type() == tTime || v.Type() == tBigInt {
			return true
		}
		for _, f := range encodedFields(v) {
			if !walkValue(f, depth+1, fn) {
				return false
			}
		}
	}
	return true
}

func hasNilLog(v reflect.Value) bool {
	found := false
	walkValue(v, 0, func(x reflect.Value) bool {
		if x.Kind() == reflect.Ptr && nilForbidden(x.Type()) && x.IsNil() {
			found = true
			return false
		}
		return true
	})
	return found
}

// inlineSliceBytes sums cap*elemsize over slices whose elements are inline structs or arrays.
func inlineSliceBytes(v reflect.Value) uint64 {
	var sum uint64
	walkValue(v, 0, func(x reflect.Value) bool {
		if x.Kind() == reflect.Slice {
			ek := x.Type().Elem().Kind()
			if ek == reflect.Struct || (ek == reflect.Array && x.Type().Elem().Elem().Kind() != reflect.Uint8) {
				sum += uint64(x.Cap()) * uint64(x.Type().Elem().Size())
			}
		}
		return true
	})
	return sum
}

// explainAlloc names the root cause of an allocation above the bound, from what the decode left behind.
func explainAlloc(e *entry, res decodeResult, alloc uint64) string {
	if res.val.IsValid() {
		// decodeSliceElems grows by 1.5x and copies: garbage is ~3x the final backing array
		if fat := inlineSliceBytes(res.val); fat > 0 && fat*16 >= alloc {
			return kZeroStruct
		}
	}
	if e.hasMap {
		return kMapPresize
	}
	return "alloc:unexplained"
}

func short(b []byte) string {
	if len(b) <= 160 {
		return fmt.Sprintf("%x", b)
	}
	return fmt.Sprintf("%x...(%d bytes)...%x", b[:96], len(b), b[len(b)-32:])
}

// checkSafety applies oracle (b) to one decode of input b through e (already executed, result in
// res; decode is how to run it again): no panic, bounded allocation, and - when the decode succeeded
// with a non-nil value - re-encode / re-decode stability.  It returns false when the case should be
// abandoned (a violation was reported, known or not).
func checkSafety(t vstat.TB, e *entry, b []byte, res decodeResult, decode func() (reflect.Value, error), limitExtra uint64, ctx string) bool {
	if res.pan != nil {
		msg := fmt.Sprint(res.pan)
		key := "decode-panic"
		if strings.Contains(msg, "is not assignable to type") {
			key = kForeignPrefix
		}
		vstat.Violation(t, P, key, "%s: decoding %s through %s/%s panicked: %v", ctx, short(b), e.name, e.mode, msg)
		return false
	}
	bound := allocBound(len(b), limitExtra)
	if res.alloc > bound {
		// measure again (twice) and keep the minimum: filters a concurrent vstat flush
		min := res.alloc
		for i := 0; i < 2 && min > bound; i++ {
			r2 := measured(decode)
			if r2.pan == nil && r2.alloc < min {
				min = r2.alloc
			}
		}
		if min > bound {
			vstat.Violation(t, P, explainAlloc(e, res, min), "%s: decoding %d bytes through %s/%s allocated %d bytes (bound %d = %d + %d*len + %d): input %s",
				ctx, len(b), e.name, e.mode, min, bound, allocBase, allocFactor, limitExtra, short(b))
			return false
		}
	}
	if res.err != nil || isNilDecoded(res.val) {
		return true
	}
	return checkReencode(t, e, b, res.val, ctx)
}

// checkReencode: a successfully decoded non-nil value re-encodes, re-decodes to itself and then
// encodes to the same bytes again.
func checkReencode(t vstat.TB, e *entry, b []byte, val reflect.Value, ctx string) bool {
	var enc1 []byte
	_, err, pan := guarded(func() (reflect.Value, error) {
		var err error
		enc1, err = e.reencode(val)
		return reflect.Value{}, err
	})
	if pan != nil {
		key := "reencode-panic"
		if hasNilLog(val) {
			key = kNilLog
		}
		vstat.Violation(t, P, key, "%s: value decoded from %s through %s/%s panics when encoded again: %v", ctx, short(b), e.name, e.mode, pan)
		return false
	}
	if err != nil {
		vstat.Violation(t, P, "reencode-error", "%s: value decoded from %s through %s/%s cannot be encoded again: %v", ctx, short(b), e.name, e.mode, err)
		return false
	}
	val2, err, pan := guarded(func() (reflect.Value, error) { return e.decode(enc1) })
	if pan != nil {
		vstat.Violation(t, P, "redecode-panic", "%s: %s/%s: re-encoding %s of a decoded value panics in decode: %v", ctx, e.name, e.mode, short(enc1), pan)
		return false
	}
	if err != nil {
		vstat.Violation(t, P, "redecode-error", "%s: %s/%s: input %s decodes, its re-encoding %s does not: %v", ctx, e.name, e.mode, short(b), short(enc1), err)
		return false
	}
	if d := equalNorm(val, val2, ""); d != "" {
		vstat.Violation(t, P, "redecode-differs", "%s: %s/%s: value decoded from %s changes when encoded (%s) and decoded again: %s", ctx, e.name, e.mode, short(b), short(enc1), d)
		return false
	}
	var enc2 []byte
	_, err, pan = guarded(func() (reflect.Value, error) {
		var err error
		enc2, err = e.reencode(val2)
		return reflect.Value{}, err
	})
	if pan != nil || err != nil || !bytes.Equal(enc1, enc2) {
		vstat.Violation(t, P, "reencode-unstable", "%s: %s/%s: enc(dec(enc(v))) != enc(v) for v decoded from %s: %s vs %s (%v %v)", ctx, e.name, e.mode, short(b), short(enc1), short(enc2), err, pan)
		return false
	}
	return true
}

// ---------------------------------------------------------------- "first check" (non-triviality of byte inputs)

// firstItem parses the first item header of b the way the format defines it.
func firstItem(b []byte) (isList bool, hdr int, size uint64, ok bool) {
	if len(b) == 0 {
		return false, 0, 0, false
	}
	c := b[0]
	switch {
	case c < 0x80:
		return false, 0, 1, true
	case c < 0xB8:
		return false, 1, uint64(c - 0x80), true
	case c < 0xC0:
		n := int(c - 0xB7)
		if len(b) < 1+n || b[1] == 0 {
			return false, 0, 0, false
		}
		for i := 0; i < n; i++ {
			size = size<<8 | uint64(b[1+i])
		}
		return false, 1 + n, size, size >= 56
	case c < 0xF8:
		return true, 1, uint64(c - 0xC0), true
	default:
		n := int(c - 0xF7)
		if len(b) < 1+n || b[1] == 0 {
			return true, 0, 0, false
		}
		for i := 0; i < n; i++ {
			size = size<<8 | uint64(b[1+i])
		}
		return true, 1 + n, size, size >= 56
	}
}

// passesFirstCheck: the input gets past the first thing the entry point looks at - the registered
// type prefix for the interface entry points, then a well-formed list header whose size fits the
// rest of the input.
func passesFirstCheck(e *entry, b []byte) bool {
	if e.mode != modePlain {
		if len(b) < 8 {
			return false
		}
		var d [7]byte
		copy(d[:], b)
		if byDisfix[d] == nil {
			return false
		}
		b = b[7:]
	}
	// every catalogue type is a struct or a slice: the decoder expects a list
	isList, hdr, size, ok := firstItem(b)
	return ok && isList && size <= uint64(len(b)-hdr)
}

func sizeClass(n int) string {
	switch {
	case n < 16:
		return "<16"
	case n < 64:
		return "<64"
	case n < 256:
		return "<256"
	case n < 1024:
		return "<1k"
	case n < 8192:
		return "<8k"
	}
	return ">=8k"
}
