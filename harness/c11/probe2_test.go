package c11

import (
	"fmt"
	"bytes"
	"runtime"
	"testing"
	"math/big"

	"github.com/lianxiangcloud/linkchain/libs/ser"
	"github.com/lianxiangcloud/linkchain/libs/common"
	"github.com/lianxiangcloud/linkchain/mempool"
	"github.com/lianxiangcloud/linkchain/state"
	"github.com/lianxiangcloud/linkchain/types"
	"github.com/lianxiangcloud/linkchain/consensus"
)

func try(name string, f func()) {
	var ms0, ms1 runtime.MemStats
	runtime.ReadMemStats(&ms0)
	func() {
		defer func() {
			if r := recover(); r != nil {
				fmt.Printf("%s: PANIC %v\n", name, r)
			}
		}()
		f()
	}()
	runtime.ReadMemStats(&ms1)
	fmt.Printf("%s: alloc %d\n", name, ms1.TotalAlloc-ms0.TotalAlloc)
}

func TestProbe2(t *testing.T) {
	// 1. foreign prefix in Tx interface
	vm := &consensus.HasVoteMessage{Height: 1}
	enc, _ := ser.EncodeToBytesWithType(vm)
	fmt.Printf("hasvote enc %x\n", enc)
	// TxMessage{Tx: <that>}
	txm := mempool.TxMessage{}
	encm, _ := ser.EncodeToBytesWithType(&txm)
	fmt.Printf("txmessage(nil) enc %x\n", encm)
	// build: prefix(7) + list header + enc
	pre := encm[:7]
	body := append([]byte{}, enc...)
	raw := append(append([]byte{}, pre...), byte(0xc0+len(body)))
	raw = append(raw, body...)
	try("foreign-prefix", func() {
		var msg mempool.MempoolMessage
		err := ser.DecodeBytesWithType(raw, &msg)
		fmt.Printf("  -> %#v %v\n", msg, err)
	})
	// 2. Account map bomb
	acc := state.Account{Nonce: 1, Balance: big.NewInt(5), Tokens: map[common.Address]*big.Int{{1}: big.NewInt(7)}, CodeHash: []byte{1, 2}}
	ea, _ := ser.EncodeToBytes(acc)
	fmt.Printf("account enc %x\n", ea)
	// craft: list[ nonce, credits, balance, map-list[len=7fffffff...], ...]
	for _, l := range []string{"1000000", "10000000", "7fffffffffffffff", "-5"} {
		m := append([]byte{byte(0x80 + len(l))}, []byte(l)...)
		ml := append([]byte{byte(0xc0 + len(m))}, m...)
		content := append([]byte{0x01, 0x80, 0x05}, ml...)
		content = append(content, ea[len(ea)-36:]...)
		rawa := append([]byte{byte(0xc0 + len(content))}, content...)
		if len(content) >= 56 {
			rawa = append([]byte{0xf8, byte(len(content))}, content...)
		}
		try("account-map-len-"+l, func() {
			var a state.Account
			err := ser.DecodeBytes(rawa, &a)
			fmt.Printf("  -> len(input)=%d err=%v\n", len(rawa), err)
		})
	}
	// 3. nil *Log
	try("nil-log", func() {
		r := types.Receipt{Logs: []*types.Log{nil}}
		b, err := ser.EncodeToBytes(&r)
		fmt.Printf("  -> %x %v\n", b, err)
	})
	// 4. list of C0 into []RangeSig / []ValidatorSign
	try("c0-list-validatorsign", func() {
		var v []types.ValidatorSign
		in := append([]byte{0xf9, 0x10, 0x00}, bytes.Repeat([]byte{0xc0}, 4096)...)
		err := ser.DecodeBytes(in, &v)
		fmt.Printf("  -> n=%d err=%v\n", len(v), err)
	})
	try("c0-list-interfaces", func() {
		var v types.Txs
		in := append([]byte{0xf9, 0x10, 0x00}, bytes.Repeat([]byte{0x00}, 4096)...)
		err := ser.DecodeBytes(in, &v)
		fmt.Printf("  -> n=%d err=%v\n", len(v), err)
	})
	try("c0-list-voteptr", func() {
		var v []*types.Vote
		in := append([]byte{0xf9, 0x10, 0x00}, bytes.Repeat([]byte{0xc0}, 4096)...)
		err := ser.DecodeBytes(in, &v)
		fmt.Printf("  -> n=%d err=%v\n", len(v), err)
	})
	// 5. nil interface top-level
	try("nil-iface", func() {
		var msg consensus.ConsensusMessage
		err := ser.DecodeBytesWithType([]byte{0}, &msg)
		fmt.Printf("  -> %#v %v\n", msg, err)
	})
	// 6. truncated message: error swallowed?
	try("truncated", func() {
		v := &consensus.HasVoteMessage{Height: 300, Round: 2, Type: 1, Index: 5}
		b, _ := ser.EncodeToBytesWithType(v)
		for cut := 7; cut <= len(b); cut++ {
			var msg consensus.ConsensusMessage
			err := ser.DecodeBytesWithType(b[:cut], &msg)
			fmt.Printf("  cut %d/%d -> %+v %v\n", cut, len(b), msg, err)
		}
	})
}
