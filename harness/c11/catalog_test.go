package c11

// The catalogue: which Go types travel the wire or go to disk through libs/ser, through which
// entry point, and which concrete types are registered behind which interface.
//
// All Register* functions of /repo run from package init() (types/wire.go, consensus/wire.go,
// mempool/wire.go, blockchain/wire.go, evidence/wire.go, libs/p2p/conn/wire.go, libs/crypto/amino.go),
// so importing the packages is enough; nothing is registered a second time here.  The table below
// mirrors those registrations (name, pointer-preferred or not); TestRegistryMatchesCodec checks the
// mirror against the codec by encoding a zero value of every entry and comparing the 7 prefix bytes.

import (
	"fmt"
	"reflect"
	"sort"
	"time"

	"github.com/lianxiangcloud/linkchain/blockchain"
	"github.com/lianxiangcloud/linkchain/consensus"
	"github.com/lianxiangcloud/linkchain/evidence"
	"github.com/lianxiangcloud/linkchain/libs/crypto"
	"github.com/lianxiangcloud/linkchain/libs/p2p/conn"
	"github.com/lianxiangcloud/linkchain/libs/ser"
	"github.com/lianxiangcloud/linkchain/mempool"
	"github.com/lianxiangcloud/linkchain/state"
	"github.com/lianxiangcloud/linkchain/types"
)

// concrete is one RegisterConcrete call.
type concrete struct {
	name   string
	typ    reflect.Type // non-pointer type
	ptr    bool         // registered as pointer: the codec decodes it to *typ inside an interface
	disfix [7]byte      // 3 disambiguation bytes + 4 prefix bytes, as written in front of the payload
}

var (
	byType   = map[reflect.Type]*concrete{}
	byDisfix = map[[7]byte]*concrete{}
	// implementers of every registered interface that the catalogue generates values for
	impls = map[reflect.Type][]*concrete{}
	// every concrete registration, sorted by name (for foreign-prefix splices)
	allConcrete []*concrete
)

func disfixOf(name string) (d [7]byte) {
	db, pb := ser.NameToDisfix(name)
	copy(d[0:3], db[:])
	copy(d[3:7], pb[:])
	return
}

func ifaceType(ptrToIface interface{}) reflect.Type { return reflect.TypeOf(ptrToIface).Elem() }

func reg(iface reflect.Type, name string, proto interface{}) {
	t := reflect.TypeOf(proto)
	regT(iface, name, t)
}

func regT(iface reflect.Type, name string, t reflect.Type) {
	c := &concrete{name: name}
	if t.Kind() == reflect.Ptr {
		c.ptr = true
		t = t.Elem()
	}
	if old, ok := byType[t]; ok {
		// the same concrete type behind a second interface (e.g. Tx kinds behind RegularTx)
		c = old
	} else {
		c.typ = t
		c.disfix = disfixOf(name)
		byType[t] = c
		byDisfix[c.disfix] = c
		allConcrete = append(allConcrete, c)
	}
	impls[iface] = append(impls[iface], c)
}

var (
	tTx       = ifaceType((*types.Tx)(nil))
	tInput    = ifaceType((*types.Input)(nil))
	tOutput   = ifaceType((*types.Output)(nil))
	tEvidence = ifaceType((*types.Evidence)(nil))
	tPubKey   = ifaceType((*crypto.PubKey)(nil))
	tSig      = ifaceType((*crypto.Signature)(nil))
	tPrivKey  = ifaceType((*crypto.PrivKey)(nil))
	tConsMsg  = ifaceType((*consensus.ConsensusMessage)(nil))
	tWALMsg   = ifaceType((*consensus.WALMessage)(nil))
	tMemMsg   = ifaceType((*mempool.MempoolMessage)(nil))
	tBcMsg    = ifaceType((*blockchain.BlockchainMessage)(nil))
	tEvMsg    = ifaceType((*evidence.EvidenceMessage)(nil))
	tPacket   = ifaceType((*conn.Packet)(nil))
)

// typeViaWire learns the reflect.Type of an unexported registered message type (blockchain's bc*
// messages) by decoding a hand-written minimal encoding of it: prefix ++ body.
func typeViaWire(name string, body []byte) reflect.Type {
	d := disfixOf(name)
	var m blockchain.BlockchainMessage
	if err := ser.DecodeBytesWithType(append(d[:], body...), &m); err != nil || m == nil {
		panic(fmt.Sprintf("cannot learn type of %s: %v", name, err))
	}
	return reflect.TypeOf(m) // pointer type, registered as pointer
}

func init() {
	// types/tx.go RegisterTxData + tx_utxo.go RegisterUTXOTxData
	reg(tTx, types.TxNormal, &types.Transaction{})
	reg(tTx, types.TxToken, &types.TokenTransaction{})
	reg(tTx, types.TxMultiSignAccount, &types.MultiSignAccountTx{})
	reg(tTx, types.TxContractUpgrade, &types.ContractUpgradeTx{})
	reg(tTx, types.TxUTXO, &types.UTXOTransaction{})
	reg(tInput, "UTXOInput", &types.UTXOInput{})
	reg(tInput, "AccountInput", &types.AccountInput{})
	reg(tInput, "MineInput", &types.MineInput{})
	reg(tOutput, "UTXOOutput", &types.UTXOOutput{})
	reg(tOutput, "AccountOutput", &types.AccountOutput{})
	// types/evidence.go
	reg(tEvidence, "DuplicateVoteEvidence", &types.DuplicateVoteEvidence{})
	reg(tEvidence, "FaultValidatorsEvidence", &types.FaultValidatorsEvidence{})
	reg(tEvidence, "MockGoodEvidence", types.MockGoodEvidence{})
	reg(tEvidence, "MockBadEvidence", types.MockBadEvidence{})
	// libs/crypto/amino.go
	reg(tPubKey, "PubKeyEd25519", crypto.PubKeyEd25519{})
	reg(tPubKey, "PubKeySecp256k1", crypto.PubKeySecp256k1{})
	reg(tPrivKey, "PrivKeyEd25519", crypto.PrivKeyEd25519{})
	reg(tPrivKey, "PrivKeySecp256k1", crypto.PrivKeySecp256k1{})
	reg(tSig, "SignEd25519", crypto.SignatureEd25519{})
	reg(tSig, "SignSecp256k1", crypto.SignatureSecp256k1{})
	// consensus/reactor.go
	reg(tConsMsg, "consensus/NewRoundStepMessage", &consensus.NewRoundStepMessage{})
	reg(tConsMsg, "consensus/CommitStep", &consensus.CommitStepMessage{})
	reg(tConsMsg, "consensus/Proposal", &consensus.ProposalMessage{})
	reg(tConsMsg, "consensus/ProposalPOL", &consensus.ProposalPOLMessage{})
	reg(tConsMsg, "consensus/BlockPart", &consensus.BlockPartMessage{})
	reg(tConsMsg, "consensus/Vote", &consensus.VoteMessage{})
	reg(tConsMsg, "consensus/HasVote", &consensus.HasVoteMessage{})
	reg(tConsMsg, "consensus/VoteSetMaj23", &consensus.VoteSetMaj23Message{})
	reg(tConsMsg, "consensus/VoteSetBits", &consensus.VoteSetBitsMessage{})
	reg(tConsMsg, "consensus/ProposalHeartbeat", &consensus.ProposalHeartbeatMessage{})
	// consensus/wal.go (msgInfo / timeoutInfo are unexported: the verif hook constructors give their types)
	reg(tWALMsg, "consensus/wal/EventDataRoundState", types.EventDataRoundState{})
	regT(tWALMsg, "consensus/wal/MsgInfo", reflect.TypeOf(consensus.VerifWALMsgInfo(nil, "")))
	regT(tWALMsg, "consensus/wal/TimeoutInfo", reflect.TypeOf(consensus.VerifWALTimeout(time.Second, 0, 0, 0)))
	reg(tWALMsg, "consensus/wal/EndHeightMessage", consensus.EndHeightMessage{})
	// mempool/reactor.go
	reg(tMemMsg, "mempool/TxMessage", mempool.TxMessage{})
	reg(tMemMsg, "mempool/TxHashMessage", mempool.TxHashMessage{})
	// blockchain/reactor.go (unexported types; "blockchainl" is the registered spelling)
	regT(tBcMsg, "blockchain/BlockRequest", typeViaWire("blockchain/BlockRequest", []byte{0xc1, 0x80}))
	regT(tBcMsg, "blockchain/BlockResponse", typeViaWire("blockchain/BlockResponse", []byte{0xc1, 0xc0}))
	regT(tBcMsg, "blockchain/NoBlockResponse", typeViaWire("blockchain/NoBlockResponse", []byte{0xc1, 0x80}))
	regT(tBcMsg, "blockchainl/StatusResponse", typeViaWire("blockchainl/StatusResponse", []byte{0xc1, 0x80}))
	regT(tBcMsg, "blockchain/StatusRequest", typeViaWire("blockchain/StatusRequest", []byte{0xc1, 0x80}))
	// evidence/reactor.go
	reg(tEvMsg, "evidence/EvidenceListMessage", &evidence.EvidenceListMessage{})
	// libs/p2p/conn/connection.go
	reg(tPacket, "p2p/PacketPing", conn.PacketPing{})
	reg(tPacket, "p2p/PacketPong", conn.PacketPong{})
	reg(tPacket, "p2p/PacketMsg", conn.PacketMsg{})

	sort.Slice(allConcrete, func(i, j int) bool { return allConcrete[i].name < allConcrete[j].name })
	buildEntries()
}

// ---------------------------------------------------------------- entries

type mode int

const (
	// production writes ser.EncodeToBytes(&v) / MustEncodeToBytes and reads ser.DecodeBytes(b, &v)
	modePlain mode = iota
	// production writes ser.(Must)EncodeToBytesWithType(msg) and reads DecodeBytesWithType(b, &iface)
	modeWithType
	// types/tx.go Txs.MarshalJSON / UnmarshalJSON: EncodeToBytes(&txIface) / DecodeBytes(b, &txIface)
	modeIfacePlain
)

func (m mode) String() string { return [...]string{"plain", "withtype", "ifaceplain"}[m] }

// entry is one (type, entry point) pair of the catalogue.
type entry struct {
	name  string
	typ   reflect.Type // non-pointer Go type of the generated value
	mode  mode
	iface reflect.Type // message interface for modeWithType / modeIfacePlain
	c     *concrete    // registration of typ, if any
	// hasMap: the type tree contains the one supported map shape
	hasMap bool
}

var (
	entries []*entry
	// per family, for the native fuzz seeds and the byte-level tests
	entryByName = map[string]*entry{}
)

func addEntry(name string, t reflect.Type, m mode, iface reflect.Type) {
	for t.Kind() == reflect.Ptr {
		t = t.Elem()
	}
	e := &entry{name: name, typ: t, mode: m, iface: iface, c: byType[t]}
	e.hasMap = typeHasMap(t, map[reflect.Type]bool{})
	entries = append(entries, e)
	if _, dup := entryByName[name]; dup {
		panic("duplicate entry " + name)
	}
	entryByName[name] = e
}

func typeHasMap(t reflect.Type, seen map[reflect.Type]bool) bool {
	if seen[t] {
		return false
	}
	seen[t] = true
	switch t.Kind() {
	case reflect.Map:
		return true
	case reflect.Ptr, reflect.Slice, reflect.Array:
		return typeHasMap(t.Elem(), seen)
	case reflect.Struct:
		for i := 0; i < t.NumField(); i++ {
			if typeHasMap(t.Field(i).Type, seen) {
				return true
			}
		}
	case reflect.Interface:
		for _, c := range impls[t] {
			if typeHasMap(c.typ, seen) {
				return true
			}
		}
	}
	return false
}

func buildEntries() {
	plain := func(name string, proto interface{}) { addEntry(name, reflect.TypeOf(proto), modePlain, nil) }
	// ---- storage / consensus types, encoded without a type prefix
	plain("Block", types.Block{})                                     // types/block.go MakePartSet, blockchain/store.go, consensus/state.go DecodeReader
	plain("Header", types.Header{})                                   // inside Block / BlockMeta; tools/statedb_dump decodes it alone
	plain("Commit", types.Commit{})                                   // blockchain/store.go C:/SC: records
	plain("Vote", types.Vote{})                                       // inside Commit, VoteMessage, evidence
	plain("Proposal", types.Proposal{})                               // inside ProposalMessage
	plain("Heartbeat", types.Heartbeat{})                             // inside ProposalHeartbeatMessage
	plain("Part", types.Part{})                                       // blockchain/store.go P: records
	plain("PartSetHeader", types.PartSetHeader{})                     // types/block.go BlockID.Key
	plain("BlockID", types.BlockID{})                                 //
	plain("BlockMeta", types.BlockMeta{})                             // blockchain/store.go H: records
	plain("ValidatorSet", types.ValidatorSet{})                       // inside NewStatus / ValidatorsInfo
	plain("Validator", types.Validator{})                             //
	plain("TxsResult", types.TxsResult{})                             // blockchain/store.go
	plain("Receipt", types.Receipt{})                                 // types/receipt.go GetRlp / Hash
	plain("Receipts", types.Receipts{})                               //
	plain("ReceiptsForStorage", []*types.ReceiptForStorage{})         // blockchain/store.go SaveReceipts / LoadReceipts
	plain("UTXOOutputData", types.UTXOOutputData{})                   // utxo/store.go
	plain("BlockBalanceRecords", types.BlockBalanceRecords{})         // blockchain/balance_record.go
	plain("Account", state.Account{})                                 // state/statedb.go (value of the account trie)
	plain("NewStatus", consensus.NewStatus{})                         // consensus/new_status.go
	plain("ValidatorsInfo", consensus.ValidatorsInfo{})               //
	plain("ConsensusParamsInfo", consensus.ConsensusParamsInfo{})     //
	plain("TimedWALMessage", consensus.TimedWALMessage{})             // consensus/wal.go WALEncoder / WALDecoder
	plain("EvidenceInfo", evidence.EvidenceInfo{})                    // evidence/store.go
	plain("DuplicateVoteEvidence", types.DuplicateVoteEvidence{})     // evidence kinds on their own
	plain("FaultValidatorsEvidence", types.FaultValidatorsEvidence{}) //
	// ---- transactions: concrete (rpc raw tx, hashing) and behind the Tx interface (Txs JSON, Block.Data)
	for _, c := range impls[tTx] {
		addEntry("Tx/"+c.name, c.typ, modePlain, nil)
		addEntry("TxIface/"+c.name, c.typ, modeIfacePlain, tTx)
	}
	for _, c := range impls[tInput] {
		addEntry("Input/"+c.name, c.typ, modePlain, nil)
	}
	for _, c := range impls[tOutput] {
		addEntry("Output/"+c.name, c.typ, modePlain, nil)
	}
	// ---- reactor messages, WAL payloads and p2p packets: prefix + payload, decoded into the message interface
	for _, fam := range []struct {
		tag   string
		iface reflect.Type
	}{{"cons", tConsMsg}, {"wal", tWALMsg}, {"mem", tMemMsg}, {"bc", tBcMsg}, {"ev", tEvMsg}, {"p2p", tPacket}} {
		for _, c := range impls[fam.iface] {
			addEntry(fam.tag+"/"+c.name, c.typ, modeWithType, fam.iface)
		}
	}
}

// newValue returns a pointer to a fresh zero value of the entry's type.
func (e *entry) newValue() reflect.Value { return reflect.New(e.typ) }

// encode writes pv (a pointer to a value of e.typ) the way production does.
func (e *entry) encode(pv reflect.Value) ([]byte, error) {
	switch e.mode {
	case modePlain:
		return ser.EncodeToBytes(pv.Interface())
	case modeWithType:
		if e.c.ptr {
			return ser.EncodeToBytesWithType(pv.Interface())
		}
		// registered by value; production passes either the value (consensus/wal, p2p packets) or its
		// address (mempool/reactor.go: EncodeToBytesWithType(&msg)); both must give the same bytes,
		// which encodeBothWays checks.
		return ser.EncodeToBytesWithType(pv.Elem().Interface())
	default: // modeIfacePlain
		h := reflect.New(e.iface)
		h.Elem().Set(pv)
		return ser.EncodeToBytes(h.Interface())
	}
}

// decode reads b through the entry point and returns the decoded value: a pointer to e.typ for
// modePlain, the interface value (reflect.Value of kind Interface, possibly nil) otherwise.
func (e *entry) decode(b []byte) (reflect.Value, error) {
	switch e.mode {
	case modePlain:
		p := reflect.New(e.typ)
		err := ser.DecodeBytes(b, p.Interface())
		return p, err
	case modeWithType:
		h := reflect.New(e.iface)
		err := ser.DecodeBytesWithType(b, h.Interface())
		return h.Elem(), err
	default:
		h := reflect.New(e.iface)
		err := ser.DecodeBytes(b, h.Interface())
		return h.Elem(), err
	}
}

// reencode encodes a decoded value (as returned by decode) through the same entry point.
func (e *entry) reencode(v reflect.Value) ([]byte, error) {
	switch e.mode {
	case modePlain:
		return ser.EncodeToBytes(v.Interface())
	case modeWithType:
		return ser.EncodeToBytesWithType(v.Interface())
	default:
		h := reflect.New(e.iface)
		h.Elem().Set(v)
		return ser.EncodeToBytes(h.Interface())
	}
}

// isNilDecoded says whether a decode result carries no value (nil interface).
func isNilDecoded(v reflect.Value) bool {
	if !v.IsValid() {
		return true
	}
	switch v.Kind() {
	case reflect.Interface, reflect.Ptr:
		return v.IsNil()
	}
	return false
}
