package c11

// valgen: a reflection-driven generator of arbitrary values of the catalogue's Go types, restricted
// to what libs/ser documents as encodable, plus the structural knowledge (which fields are encoded)
// that the generator, the normalising equality and the reference encoder share.
//
// What the codec supports (libs/ser/encode.go makeWriter) and therefore what is generated:
//   - unsigned integers of every width, signed integers of every width INCLUDING negative ones
//     (written as a hexadecimal string, writeInt), bool, string, byte slices and arrays;
//   - *big.Int >= 0 of any size; a NEGATIVE *big.Int is refused by the encoder ("cannot encode
//     negative *big.Int") and no production type carries one, so none is generated;
//   - time.Time (seconds + nanoseconds; the decoder returns UTC without monotonic reading);
//   - pointers (nil allowed), slices (nil allowed), arrays, structs (exported fields without
//     rlp:"-"), the one map shape map[common.Address]*big.Int with non-nil values;
//   - registered interfaces holding nil or a registered concrete type (never a typed nil pointer:
//     writeCDCInterface panics "should not happen" on it and no caller builds one).

import (
	"bytes"
	"fmt"
	"math"
	"math/big"
	"reflect"
	"strings"
	"time"
	"unsafe"

	"github.com/lianxiangcloud/linkchain/types"
	"pgregory.net/rapid"

	"verifharness/vstat"
)

var (
	tBigIntPtr = reflect.TypeOf((*big.Int)(nil))
	tBigInt    = reflect.TypeOf(big.Int{})
	tTime      = reflect.TypeOf(time.Time{})
	tLog       = reflect.TypeOf(types.Log{})
	tLogStor   = reflect.TypeOf(types.LogForStorage{})
	tTxn       = reflect.TypeOf(types.Transaction{})
	tTokenTxn  = reflect.TypeOf(types.TokenTransaction{})
)

// delegate: types with a custom EncodeSER/DecodeSER that encode exactly one unexported field
// (types/transaction.go, types/tx_type_txt.go: ser.Encode(w, &tx.data)).
var delegate = map[reflect.Type]string{tTxn: "data", tTokenTxn: "data"}

// Log.EncodeSER writes only the three consensus fields (types/log.go rlpLog); LogForStorage writes
// every exported field except Removed (rlp:"-"), in struct order, which is the generic rule.
var onlyFields = map[reflect.Type][]string{tLog: {"Address", "Topics", "Data"}}

const kNilLog = "log:nil-log-pointer-makes-encodeser-dereference-nil"

// nilForbidden: pointer types whose nil value makes the type's own EncodeSER dereference nil.
func nilForbidden(t reflect.Type) bool {
	return t.Kind() == reflect.Ptr && (t.Elem() == tLog || t.Elem() == tLogStor)
}

// ignoredByTag reports the rlp:"-" tag (libs/ser/typecache.go parseStructTag; the other tags "nil"
// and "tail" do not change which values exist: every pointer already decodes empty input to nil,
// decode.go makeDecoder, and no production type uses "tail").
func ignoredByTag(f reflect.StructField) bool {
	for _, t := range strings.Split(f.Tag.Get("rlp"), ",") {
		if strings.TrimSpace(t) == "-" {
			return true
		}
	}
	return false
}

// settable returns v itself when it can be set, else a view of the same memory that can (needed
// for the unexported `data` field of the transaction types).
func settable(v reflect.Value) reflect.Value {
	if v.CanSet() {
		return v
	}
	if !v.CanAddr() {
		panic("valgen: value of type " + v.Type().String() + " is not addressable")
	}
	return reflect.NewAt(v.Type(), unsafe.Pointer(v.UnsafeAddr())).Elem()
}

// addressable returns v or an addressable copy of it.
func addressable(v reflect.Value) reflect.Value {
	if v.CanAddr() {
		return v
	}
	c := reflect.New(v.Type()).Elem()
	c.Set(v)
	return c
}

// encodedFields lists the fields of struct value v that the codec writes, in order.  For delegate
// types it is the single inner struct.
func encodedFields(v reflect.Value) []reflect.Value {
	t := v.Type()
	if name, ok := delegate[t]; ok {
		v = addressable(v)
		return []reflect.Value{settable(v.FieldByName(name))}
	}
	if names, ok := onlyFields[t]; ok {
		out := make([]reflect.Value, 0, len(names))
		for _, n := range names {
			out = append(out, v.FieldByName(n))
		}
		return out
	}
	var out []reflect.Value
	for i := 0; i < t.NumField(); i++ {
		f := t.Field(i)
		if f.PkgPath != "" || ignoredByTag(f) {
			continue
		}
		out = append(out, v.Field(i))
	}
	return out
}

func encodedFieldNames(t reflect.Type) []string {
	if name, ok := delegate[t]; ok {
		return []string{name}
	}
	if names, ok := onlyFields[t]; ok {
		return names
	}
	var out []string
	for i := 0; i < t.NumField(); i++ {
		f := t.Field(i)
		if f.PkgPath != "" || ignoredByTag(f) {
			continue
		}
		out = append(out, f.Name)
	}
	return out
}

// isDelegateWrapper: the struct is written as its inner struct (no list of its own).
func isDelegateWrapper(t reflect.Type) bool { _, ok := delegate[t]; return ok }

// ---------------------------------------------------------------- generator

type features struct {
	ifaces, nilPtrs, nilIfaces, negInts, bigOver64, maps, times, nodes int
}

func (f features) nonTrivial() bool {
	return f.ifaces > 0 || f.nilPtrs > 0 || f.nilIfaces > 0 || f.negInts > 0 || f.bigOver64 > 0
}

type valgen struct {
	t      *rapid.T
	feat   features
	budget int // remaining slice elements / interface fillings, bounds the size of one value
	n      int // draw counter (labels)
}

func newValgen(t *rapid.T, budget int) *valgen { return &valgen{t: t, budget: budget} }

func (g *valgen) lbl(s string) string { g.n++; return fmt.Sprintf("%s#%d", s, g.n) }

var uintEdges = []uint64{0, 1, 2, 0x7f, 0x80, 0xff, 0x100, 0xffff, 0x10000, 0xffffffff, 0x100000000, math.MaxInt64, math.MaxUint64}
var intEdges = []int64{0, 1, -1, 9, 10, 15, 16, -16, 0x7f, 0x80, -0x80, 0xff, 0x100, math.MaxInt32, math.MinInt32, math.MaxInt64, math.MinInt64}

func (g *valgen) uintN(bits int) uint64 {
	var max uint64 = math.MaxUint64
	if bits < 64 {
		max = 1<<uint(bits) - 1
	}
	if rapid.Bool().Draw(g.t, g.lbl("uedge")) {
		e := rapid.SampledFrom(uintEdges).Draw(g.t, g.lbl("u"))
		if e > max {
			e = max
		}
		return e
	}
	return rapid.Uint64Range(0, max).Draw(g.t, g.lbl("u"))
}

func (g *valgen) intN(bits int) int64 {
	lo, hi := int64(math.MinInt64), int64(math.MaxInt64)
	if bits < 64 {
		lo, hi = -(1 << uint(bits-1)), 1<<uint(bits-1)-1
	}
	var v int64
	if rapid.Bool().Draw(g.t, g.lbl("iedge")) {
		v = rapid.SampledFrom(intEdges).Draw(g.t, g.lbl("i"))
		if v < lo {
			v = lo
		}
		if v > hi {
			v = hi
		}
	} else {
		v = rapid.Int64Range(lo, hi).Draw(g.t, g.lbl("i"))
	}
	if v < 0 {
		g.feat.negInts++
	}
	return v
}

// bytesN produces n bytes: all zero, one repeated byte, or arbitrary, with the first byte sometimes
// forced to the values the single-byte rule of the encoding cares about.
func (g *valgen) bytesN(n int) []byte {
	if n == 0 {
		return []byte{}
	}
	var b []byte
	switch rapid.IntRange(0, 3).Draw(g.t, g.lbl("bmode")) {
	case 0:
		b = make([]byte, n)
	case 1:
		b = bytes.Repeat([]byte{rapid.Byte().Draw(g.t, g.lbl("bfill"))}, n)
	default:
		if n <= 64 {
			b = rapid.SliceOfN(rapid.Byte(), n, n).Draw(g.t, g.lbl("braw"))
		} else {
			// long arrays (Bloom, Key64 rows): a short arbitrary seed repeated
			seed := rapid.SliceOfN(rapid.Byte(), 1, 16).Draw(g.t, g.lbl("bseed"))
			b = make([]byte, n)
			for i := range b {
				b[i] = seed[i%len(seed)] + byte(i/len(seed))
			}
		}
	}
	if rapid.IntRange(0, 3).Draw(g.t, g.lbl("bfirst")) == 0 {
		b[0] = rapid.SampledFrom([]byte{0x00, 0x01, 0x7f, 0x80, 0xff}).Draw(g.t, g.lbl("bfirstv"))
	}
	return b
}

var byteLens = []int{0, 1, 1, 2, 8, 20, 32, 33, 55, 56, 57, 64, 255, 256, 300}

func (g *valgen) byteSlice() (b []byte, isNil bool) {
	n := rapid.SampledFrom(byteLens).Draw(g.t, g.lbl("blen"))
	if n == 0 {
		if rapid.Bool().Draw(g.t, g.lbl("bnil")) {
			return nil, true
		}
		return []byte{}, false
	}
	return g.bytesN(n), false
}

var bigEdges = []string{"0", "1", "127", "128", "255", "256", "18446744073709551615", "18446744073709551616",
	"115792089237316195423570985008687907853269984665640564039457584007913129639935", // 2^256-1
	"115792089237316195423570985008687907853269984665640564039457584007913129639936", // 2^256
	"1000000000000000000000000000"}

func (g *valgen) bigInt() *big.Int {
	var x *big.Int
	if rapid.Bool().Draw(g.t, g.lbl("bigedge")) {
		x, _ = new(big.Int).SetString(rapid.SampledFrom(bigEdges).Draw(g.t, g.lbl("big")), 10)
	} else {
		n := rapid.IntRange(1, 40).Draw(g.t, g.lbl("biglen"))
		x = new(big.Int).SetBytes(g.bytesN(n))
	}
	if x.BitLen() > 64 {
		g.feat.bigOver64++
	}
	return x
}

var timeSecs = []int64{0, 1, 9, 15, 16, -1, 1569000000, 1600000000, 253402300799, -62135596800, 1 << 40, -(1 << 40)}

func (g *valgen) time() time.Time {
	g.feat.times++
	if rapid.IntRange(0, 7).Draw(g.t, g.lbl("tzero")) == 0 {
		return time.Time{}
	}
	var sec int64
	if rapid.Bool().Draw(g.t, g.lbl("tedge")) {
		sec = rapid.SampledFrom(timeSecs).Draw(g.t, g.lbl("tsec"))
	} else {
		sec = rapid.Int64Range(-(1<<36), 1<<36).Draw(g.t, g.lbl("tsec"))
	}
	nsec := rapid.SampledFrom([]int64{0, 1, 999999999, 500000000, 123456789}).Draw(g.t, g.lbl("tnsec"))
	if sec < 0 {
		g.feat.negInts++
	}
	tm := time.Unix(sec, nsec)
	switch rapid.IntRange(0, 2).Draw(g.t, g.lbl("tloc")) {
	case 0:
		tm = tm.UTC()
	case 1:
		tm = tm.In(time.FixedZone("x", 8*3600))
	}
	return tm
}

// fill sets v (settable) to an arbitrary supported value of its type.
func (g *valgen) fill(v reflect.Value) {
	g.feat.nodes++
	t := v.Type()
	switch {
	case t == tBigIntPtr:
		if rapid.IntRange(0, 5).Draw(g.t, g.lbl("bignil")) == 0 {
			g.feat.nilPtrs++
			v.Set(reflect.Zero(t))
			return
		}
		v.Set(reflect.ValueOf(g.bigInt()))
		return
	case t == tBigInt:
		v.Set(reflect.ValueOf(*g.bigInt()))
		return
	case t == tTime:
		v.Set(reflect.ValueOf(g.time()))
		return
	}
	switch t.Kind() {
	case reflect.Bool:
		v.SetBool(rapid.Bool().Draw(g.t, g.lbl("bool")))
	case reflect.Uint, reflect.Uint8, reflect.Uint16, reflect.Uint32, reflect.Uint64, reflect.Uintptr:
		v.SetUint(g.uintN(t.Bits()))
	case reflect.Int, reflect.Int8, reflect.Int16, reflect.Int32, reflect.Int64:
		v.SetInt(g.intN(t.Bits()))
	case reflect.String:
		b, _ := g.byteSlice()
		v.SetString(string(b))
	case reflect.Slice:
		if t.Elem().Kind() == reflect.Uint8 {
			b, isNil := g.byteSlice()
			if isNil {
				v.Set(reflect.Zero(t))
			} else {
				v.SetBytes(b)
			}
			return
		}
		max := 3
		if t.Elem().Size() > 1024 { // RangeSig is 6 KiB
			max = 1
		}
		n := rapid.IntRange(-1, max).Draw(g.t, g.lbl("slen"))
		if n > g.budget {
			n = g.budget
		}
		if n < 0 {
			v.Set(reflect.Zero(t)) // nil slice
			return
		}
		g.budget -= n
		s := reflect.MakeSlice(t, n, n)
		for i := 0; i < n; i++ {
			g.fill(s.Index(i))
		}
		v.Set(s)
	case reflect.Array:
		if t.Elem().Kind() == reflect.Uint8 {
			reflect.Copy(v, reflect.ValueOf(g.bytesN(t.Len())))
			return
		}
		for i := 0; i < t.Len(); i++ {
			g.fill(v.Index(i))
		}
	case reflect.Map:
		// the one supported shape: map[common.Address]*big.Int (libs/ser/encode.go makeMapWriter).
		// Values are never nil: state/state_object.go only stores balances it has computed.
		g.feat.maps++
		n := rapid.IntRange(-1, 5).Draw(g.t, g.lbl("mlen"))
		if n < 0 {
			v.Set(reflect.Zero(t))
			return
		}
		m := reflect.MakeMapWithSize(t, n)
		for i := 0; i < n; i++ {
			k := reflect.New(t.Key()).Elem()
			g.fill(k)
			m.SetMapIndex(k, reflect.ValueOf(g.bigInt()))
		}
		v.Set(m)
	case reflect.Ptr:
		nilOK := true
		if nilForbidden(t) {
			if vstat.IsKnown(P, kNilLog) {
				nilOK = false
			}
		}
		if rapid.IntRange(0, 4).Draw(g.t, g.lbl("pnil")) == 0 {
			if nilOK {
				g.feat.nilPtrs++
				v.Set(reflect.Zero(t))
				return
			}
			vstat.Excluded(kNilLog)
		}
		p := reflect.New(t.Elem())
		g.fill(p.Elem())
		v.Set(p)
	case reflect.Interface:
		cands := impls[t]
		if len(cands) == 0 {
			panic("valgen: interface " + t.String() + " has no registered implementers in the catalogue")
		}
		if g.budget <= 0 || rapid.IntRange(0, 5).Draw(g.t, g.lbl("inil")) == 0 {
			g.feat.nilIfaces++
			v.Set(reflect.Zero(t))
			return
		}
		g.budget--
		c := cands[rapid.IntRange(0, len(cands)-1).Draw(g.t, g.lbl("impl"))]
		g.feat.ifaces++
		p := reflect.New(c.typ)
		g.fill(p.Elem())
		if c.ptr {
			v.Set(p)
		} else {
			v.Set(p.Elem())
		}
	case reflect.Struct:
		for _, f := range encodedFields(v) {
			g.fill(settable(f))
		}
	default:
		panic("valgen: unsupported kind " + t.Kind().String() + " in " + t.String())
	}
}

// ---------------------------------------------------------------- normalising equality

// derefAll follows pointers and interfaces down to the value; ok=false when it meets a nil.
func derefAll(v reflect.Value) (reflect.Value, bool) {
	for v.IsValid() && (v.Kind() == reflect.Ptr || v.Kind() == reflect.Interface) {
		if v.Type() == tBigIntPtr {
			return v, true
		}
		if v.IsNil() {
			return v, false
		}
		v = v.Elem()
	}
	return v, v.IsValid()
}

// encodesEmpty: a non-nil pointer to such a value is written as an empty item, which every pointer
// decoder reads back as nil (decode.go makeOptionalPtrDecoder).  Only field-less structs qualify
// among the catalogue's types.
func encodesEmpty(v reflect.Value) bool {
	return v.Kind() == reflect.Struct && v.Type() != tTime && !isDelegateWrapper(v.Type()) && len(encodedFieldNames(v.Type())) == 0
}

// equalNorm compares two values over exactly what the codec carries:
//   - only encoded fields (exported, no rlp:"-"; the inner struct for delegate types); caches such as
//     atomic.Value hashes and sizes are ignored;
//   - nil and empty slices / maps / strings are the same (the encoder writes 0x80 / 0xC0 for both and
//     the decoder documents "empty" only);
//   - a nil *big.Int is zero ("for nil pointers, Encode will encode the zero value of the type");
//   - time.Time values are compared as instants (the decoder returns UTC, no monotonic clock);
//   - the dynamic value of an interface is compared after dereferencing (a registered-by-value type
//     may be handed to the encoder by address);
//   - a nil pointer equals a pointer to a value whose encoding is empty.
//
// It returns "" when equal, else the path and the difference.
func equalNorm(a, b reflect.Value, path string) string {
	if !a.IsValid() || !b.IsValid() {
		if a.IsValid() == b.IsValid() {
			return ""
		}
		return path + ": one side is invalid"
	}
	// pointers and interfaces
	if a.Kind() == reflect.Ptr || a.Kind() == reflect.Interface || b.Kind() == reflect.Ptr || b.Kind() == reflect.Interface {
		if a.Type() == tBigIntPtr && b.Type() == tBigIntPtr {
			x, y := a.Interface().(*big.Int), b.Interface().(*big.Int)
			if x == nil {
				x = new(big.Int)
			}
			if y == nil {
				y = new(big.Int)
			}
			if x.Cmp(y) != 0 {
				return fmt.Sprintf("%s: big.Int %s != %s", path, x, y)
			}
			return ""
		}
		da, oka := derefAll(a)
		db, okb := derefAll(b)
		switch {
		case !oka && !okb:
			return ""
		case !oka:
			if encodesEmpty(db) {
				return ""
			}
			return fmt.Sprintf("%s: nil vs non-nil %s", path, db.Type())
		case !okb:
			if encodesEmpty(da) {
				return ""
			}
			return fmt.Sprintf("%s: non-nil %s vs nil", path, da.Type())
		}
		if da.Type() == tBigIntPtr || db.Type() == tBigIntPtr {
			if da.Type() != db.Type() {
				return fmt.Sprintf("%s: type %s != %s", path, da.Type(), db.Type())
			}
		}
		return equalNorm(da, db, path)
	}
	if a.Type() != b.Type() {
		return fmt.Sprintf("%s: type %s != %s", path, a.Type(), b.Type())
	}
	t := a.Type()
	switch {
	case t == tBigInt:
		a, b = addressable(a), addressable(b)
		x, y := a.Addr().Interface().(*big.Int), b.Addr().Interface().(*big.Int)
		if x.Cmp(y) != 0 {
			return fmt.Sprintf("%s: big.Int %s != %s", path, x, y)
		}
		return ""
	case t == tTime:
		x, y := a.Interface().(time.Time), b.Interface().(time.Time)
		if !x.Equal(y) {
			return fmt.Sprintf("%s: time %v (%d.%09d) != %v (%d.%09d)", path, x, x.Unix(), x.Nanosecond(), y, y.Unix(), y.Nanosecond())
		}
		return ""
	}
	switch t.Kind() {
	case reflect.Bool:
		if a.Bool() != b.Bool() {
			return fmt.Sprintf("%s: %v != %v", path, a.Bool(), b.Bool())
		}
	case reflect.Uint, reflect.Uint8, reflect.Uint16, reflect.Uint32, reflect.Uint64, reflect.Uintptr:
		if a.Uint() != b.Uint() {
			return fmt.Sprintf("%s: %d != %d", path, a.Uint(), b.Uint())
		}
	case reflect.Int, reflect.Int8, reflect.Int16, reflect.Int32, reflect.Int64:
		if a.Int() != b.Int() {
			return fmt.Sprintf("%s: %d != %d", path, a.Int(), b.Int())
		}
	case reflect.String:
		if a.String() != b.String() {
			return fmt.Sprintf("%s: %q != %q", path, a.String(), b.String())
		}
	case reflect.Slice:
		if a.Len() != b.Len() {
			return fmt.Sprintf("%s: len %d != %d", path, a.Len(), b.Len())
		}
		if t.Elem().Kind() == reflect.Uint8 {
			if !bytes.Equal(a.Bytes(), b.Bytes()) {
				return fmt.Sprintf("%s: bytes %x != %x", path, a.Bytes(), b.Bytes())
			}
			return ""
		}
		for i := 0; i < a.Len(); i++ {
			if d := equalNorm(a.Index(i), b.Index(i), fmt.Sprintf("%s[%d]", path, i)); d != "" {
				return d
			}
		}
	case reflect.Array:
		if t.Elem().Kind() == reflect.Uint8 {
			for i := 0; i < a.Len(); i++ {
				if a.Index(i).Uint() != b.Index(i).Uint() {
					return fmt.Sprintf("%s: byte array differs at %d", path, i)
				}
			}
			return ""
		}
		for i := 0; i < a.Len(); i++ {
			if d := equalNorm(a.Index(i), b.Index(i), fmt.Sprintf("%s[%d]", path, i)); d != "" {
				return d
			}
		}
	case reflect.Map:
		if a.Len() != b.Len() {
			return fmt.Sprintf("%s: map len %d != %d", path, a.Len(), b.Len())
		}
		for _, k := range a.MapKeys() {
			bv := b.MapIndex(k)
			if !bv.IsValid() {
				return fmt.Sprintf("%s: key %v missing", path, k)
			}
			if d := equalNorm(a.MapIndex(k), bv, fmt.Sprintf("%s[%v]", path, k)); d != "" {
				return d
			}
		}
	case reflect.Struct:
		fa, fb := encodedFields(a), encodedFields(b)
		names := encodedFieldNames(t)
		for i := range fa {
			if d := equalNorm(fa[i], fb[i], path+"."+names[i]); d != "" {
				return d
			}
		}
	default:
		return fmt.Sprintf("%s: kind %s not comparable", path, t.Kind())
	}
	return ""
}
