package c11

// The JSON side of libs/ser is used for the validator's own key/last-sign-state file
// (types/priv_validator.go: FilePV.save -> ser.MarshalJSONIndent, LoadFilePV -> ser.UnmarshalJSON).
// That file is the one JSON document the node reads back into consensus-relevant state, so it gets
// the same treatment: round trip of generated values, and corrupted documents must give an error,
// not a panic.

import (
	"bytes"
	"fmt"
	"reflect"
	"strings"
	"testing"

	"github.com/lianxiangcloud/linkchain/libs/ser"
	"github.com/lianxiangcloud/linkchain/types"
	"pgregory.net/rapid"

	"verifharness/vstat"
)

func runFilePVCase(t *rapid.T) {
	vstat.Eval()
	g := newValgen(t, 6)
	pv := &types.FilePV{}
	g.fill(reflect.ValueOf(pv).Elem())
	var js []byte
	_, err, pan := guarded(func() (reflect.Value, error) {
		var err error
		js, err = ser.MarshalJSONIndent(pv, "", "  ")
		return reflect.Value{}, err
	})
	if pan != nil || err != nil {
		vstat.Violation(t, P, "json-marshal-fails", "MarshalJSONIndent(FilePV) fails on a generated value: %v %v", err, pan)
		return
	}
	load := func(doc []byte) (*types.FilePV, error, interface{}) {
		back := &types.FilePV{}
		_, err, pan := guarded(func() (reflect.Value, error) { return reflect.Value{}, ser.UnmarshalJSON(doc, &back) }) // as LoadFilePV does
		return back, err, pan
	}
	back, err, pan := load(js)
	vstat.Label("json:valid")
	if pan != nil || err != nil {
		vstat.Violation(t, P, "json-unmarshal-of-own-output-fails", "UnmarshalJSON of the marshalled FilePV %s fails: %v %v", js, err, pan)
		return
	}
	if d := equalNorm(reflect.ValueOf(pv), reflect.ValueOf(back), ""); d != "" {
		vstat.Violation(t, P, "json-roundtrip-differs", "FilePV changes through JSON at %s: %s", d, js)
		return
	}
	// The JSON text itself is not required to be canonical (encoding/json conventions: an empty and a
	// nil byte slice are the same value here but print as "" and null); the value must stay the same.
	js2, err := ser.MarshalJSONIndent(back, "", "  ")
	if err != nil {
		vstat.Violation(t, P, "json-remarshal-fails", "FilePV read back from %s cannot be marshalled again: %v", js, err)
		return
	}
	if back2, err, pan := load(js2); err != nil || pan != nil || equalNorm(reflect.ValueOf(back), reflect.ValueOf(back2), "") != "" {
		vstat.Violation(t, P, "json-roundtrip-differs", "FilePV %s changes on a second JSON round trip (%s): %v %v", js, js2, err, pan)
		return
	}
	if g.feat.nonTrivial() {
		vstat.NonTrivial(fmt.Sprintf("json|%s", js))
	}
	// corrupted documents: error or value, never a panic
	doc := append([]byte{}, js...)
	switch rapid.IntRange(0, 3).Draw(t, "jsonmut") {
	case 0:
		doc = doc[:rapid.IntRange(0, len(doc)-1).Draw(t, "cut")]
	case 1:
		for i, k := 0, rapid.IntRange(1, 3).Draw(t, "nflips"); i < k; i++ {
			doc[rapid.IntRange(0, len(doc)-1).Draw(t, "at")] ^= 1 << uint(rapid.IntRange(0, 7).Draw(t, "bit"))
		}
	case 2:
		at := rapid.IntRange(0, len(doc)-1).Draw(t, "at")
		tok := rapid.SampledFrom([]string{"null", "{}", "[]", "\"\"", "0", "-1", "1e99", "\"type\"", "{\"type\":\"x\",\"value\":null}", "true"}).Draw(t, "tok")
		doc = append(doc[:at], append([]byte(tok), doc[at:]...)...)
	case 3:
		// replace one registered type name by another one
		names := []string{"PubKeyEd25519", "PubKeySecp256k1", "PrivKeyEd25519", "PrivKeySecp256k1", "SignEd25519", "SignSecp256k1", "consensus/Vote", "tx"}
		from := rapid.SampledFrom(names).Draw(t, "from")
		to := rapid.SampledFrom(names).Draw(t, "to")
		doc = bytes.Replace(doc, []byte("\""+from+"\""), []byte("\""+to+"\""), 1)
	}
	vstat.Label("json:corrupted")
	if _, _, pan := load(doc); pan != nil {
		key := "json-unmarshal-panic"
		if strings.Contains(fmt.Sprint(pan), "is not assignable to type") {
			// json-decode.go decodeReflectJSONInterface resolves the "type" name in the global table and
			// then rv.Set()s, exactly like the binary decoder does with the prefix: same root cause
			key = kForeignPrefix
		}
		vstat.Violation(t, P, key, "UnmarshalJSON(FilePV) panics on %s: %v", doc, pan)
	}
}

func TestFilePVJSON(t *testing.T) {
	rapid.Check(t, runFilePVCase)
}
