package c11

// Deterministic reproductions of the findings listed for C11 in /verif/KNOWN_FINDINGS.jsonl.  Each
// test rebuilds the smallest input by hand, runs it and reports through vstat.Violation under the
// finding's root-cause key, so the finding stays observed on every run while the generators steer
// around it.  When /repo is repaired the reproduction stops reporting and the test simply passes.

import (
	"bytes"
	"fmt"
	"math/big"
	"reflect"
	"testing"
	"time"

	"github.com/lianxiangcloud/linkchain/consensus"
	"github.com/lianxiangcloud/linkchain/libs/common"
	cntypes "github.com/lianxiangcloud/linkchain/libs/cryptonote/types"
	"github.com/lianxiangcloud/linkchain/libs/ser"
	"github.com/lianxiangcloud/linkchain/mempool"
	"github.com/lianxiangcloud/linkchain/state"
	"github.com/lianxiangcloud/linkchain/types"

	"verifharness/vstat"
)

func findNode(seq []*node, ok func(*node) bool) *node {
	for _, n := range flatten(seq) {
		if ok(n) {
			return n
		}
	}
	return nil
}

// A peer sends a mempool TxMessage whose Tx slot carries the registered prefix of a consensus message.
func TestKnownForeignPrefix(t *testing.T) {
	vstat.Eval()
	e := entryByName["mem/mempool/TxMessage"]
	msg := &mempool.TxMessage{Tx: &types.Transaction{}}
	seq := refTree(e, reflect.ValueOf(msg))
	inner := findNode(seq, func(n *node) bool { return n.what == "prefix" && n.ifc == tTx })
	d := disfixOf("consensus/HasVote")
	in := serialize(seq, &mutation{kind: mutForeignPrefix, target: inner, prefix: d[:]})
	vstat.NonTrivial("known|foreign-prefix")
	_, err, pan := guarded(func() (reflect.Value, error) { return e.decode(in) })
	if pan != nil {
		vstat.Violation(t, P, kForeignPrefix, "DecodeBytesWithType(%x, &MempoolMessage) panics instead of returning an error: %v", in, pan)
	} else {
		t.Logf("binary: no panic any more (err=%v)", err)
	}
	// the JSON decoder resolves the "type" name the same way (libs/ser/json-decode.go)
	doc := []byte(`{"address":"","pub_key":{"type":"PrivKeyEd25519","value":"0x00"},"last_height":"0","last_round":"0","last_step":0,"priv_key":null}`)
	_, err, pan = guarded(func() (reflect.Value, error) {
		pv := &types.FilePV{}
		return reflect.Value{}, ser.UnmarshalJSON(doc, &pv)
	})
	if pan != nil {
		vstat.Violation(t, P, kForeignPrefix, "UnmarshalJSON(%s, &FilePV) panics instead of returning an error: %v", doc, pan)
	} else {
		t.Logf("json: no panic any more (err=%v)", err)
	}
}

// A consensus message cut after its 7 prefix bytes (or anywhere later) decodes without error.
func TestKnownSwallowedError(t *testing.T) {
	vstat.Eval()
	e := entryByName["cons/consensus/HasVote"]
	full, _ := e.encode(reflect.ValueOf(&consensus.HasVoteMessage{Height: 300, Round: 2, Type: 1, Index: 5}))
	vstat.NonTrivial("known|swallow")
	for cut := 7; cut < len(full); cut++ {
		msg, err := consensus.VerifDecodeMsg(full[:cut])
		if err == nil {
			vstat.Violation(t, P, kSwallow, "decodeMsg(%x) - the first %d of the %d bytes of %x - returns no error and the message %+v", full[:cut], cut, len(full), full, msg)
			return
		}
	}
	t.Logf("every proper prefix is rejected now")
}

// A vote whose timestamp seconds are written non-canonically (0x81 0x35 for "5") is accepted, as 1970-01-01T00:00:00.
func TestKnownTimeFieldErrorIgnored(t *testing.T) {
	vstat.Eval()
	e := entryByName["Vote"]
	v := &types.Vote{Height: 7, Timestamp: time.Unix(5, 0).UTC()}
	seq := refTree(e, reflect.ValueOf(v))
	sec := findNode(seq, func(n *node) bool { return n.inTime && string(n.data) == "5" })
	in := serialize(seq, &mutation{kind: mutLongForm, target: sec, sizeLen: 0})
	vstat.NonTrivial("known|time")
	dec, err := e.decode(in)
	if err == nil {
		vstat.Violation(t, P, kTimeErr, "DecodeBytes(%x, &Vote) accepts the non-canonical seconds field 0x8135 and yields Timestamp %v instead of an error (canonical input: %x)",
			in, dec.Interface().(*types.Vote).Timestamp, serialize(seq, nil))
		return
	}
	t.Logf("rejected now: %v", err)
}

// An account record whose token map announces 0x10000 entries makes the decoder pre-size a map for them.
func TestKnownMapLengthPreallocates(t *testing.T) {
	vstat.Eval()
	e := entryByName["Account"]
	acc := &state.Account{Nonce: 1, Balance: big.NewInt(5), Tokens: map[common.Address]*big.Int{{1}: big.NewInt(7)}, CodeHash: []byte{1, 2}}
	seq := refTree(e, reflect.ValueOf(acc))
	ml := findNode(seq, func(n *node) bool { return n.what == "maplen" })
	ml.data = []byte("10000")
	in := serialize(seq, nil)
	vstat.NonTrivial("known|maplen")
	decode := func() (reflect.Value, error) { return e.decode(in) }
	decode()
	res := measured(decode)
	if res.alloc > allocBound(len(in), 0) {
		vstat.Violation(t, P, kMapPresize, "DecodeBytes of the %d-byte account record %x allocates %d bytes (bound %d) and then fails with %v: the map is pre-sized from the announced entry count 0x10000; 0x10000000 allocates 17 GB",
			len(in), in, res.alloc, allocBound(len(in), 0), res.err)
		return
	}
	t.Logf("allocates %d now (%v)", res.alloc, res.err)
}

// A list of n empty lists decodes into n zero structs: []RangeSig (6176 bytes each) inside a UTXO transaction.
func TestKnownZeroStructAmplification(t *testing.T) {
	vstat.Eval()
	e := entryByName["TxIface/"+types.TxUTXO]
	tx := &types.UTXOTransaction{Fee: big.NewInt(1)}
	tx.RCTSig.P.RangeSigs = []cntypes.RangeSig{{}}
	seq := refTree(e, reflect.ValueOf(tx))
	// the RangeSigs list is the one whose single child is a struct holding the 64-row arrays
	rs := findNode(seq, func(n *node) bool {
		return n.kind == nList && n.what == "slice" && len(n.kids) == 1 && n.kids[0].what == "struct" && len(n.kids[0].kids) == 2 && encLen(n.kids[0], map[*node]int{}) > 6000
	})
	if rs == nil {
		t.Fatalf("RangeSigs list not found in the reference tree")
	}
	in := serialize(seq, &mutation{kind: mutBombWide, target: rs, n: 300, item: 0xC0})
	vstat.NonTrivial("known|zerostruct")
	decode := func() (reflect.Value, error) { return e.decode(in) }
	res := measured(decode)
	if res.pan == nil && res.alloc > allocBound(len(in), 0) {
		vstat.Violation(t, P, kZeroStruct, "DecodeBytes of a %d-byte UTXO transaction whose RangeSigs list is 300 x 0xC0 allocates %d bytes (%d per input byte; bound %d): every 0xC0 is accepted as a zero RangeSig of %d bytes; err=%v",
			len(in), res.alloc, res.alloc/uint64(len(in)), allocBound(len(in), 0), reflect.TypeOf(cntypes.RangeSig{}).Size(), res.err)
		return
	}
	t.Logf("allocates %d now (%v %v)", res.alloc, res.err, res.pan)
}

// A receipt with a nil *Log: the encoder panics; and the bytes C0 in the Logs list decode to exactly that value.
func TestKnownNilLogPointer(t *testing.T) {
	vstat.Eval()
	e := entryByName["Receipt"]
	vstat.NonTrivial("known|nillog")
	r := &types.Receipt{Logs: []*types.Log{nil}}
	_, err, pan := encodeGuarded(e, reflect.ValueOf(r))
	if pan != nil {
		// the same value is reachable from bytes: a valid receipt whose Logs list holds one empty list
		good := &types.Receipt{Logs: []*types.Log{{}}}
		seq := refTree(e, reflect.ValueOf(good))
		logs := findNode(seq, func(n *node) bool {
			return n.kind == nList && n.what == "slice" && len(n.kids) == 1 && n.kids[0].what == "struct" && len(n.kids[0].kids) == 3
		})
		in := serialize(seq, &mutation{kind: mutBombWide, target: logs, n: 1, item: 0xC0})
		dec, derr := e.decode(in)
		fromBytes := ""
		if derr == nil && !bytes.Equal(in, serialize(seq, nil)) && hasNilLog(dec) {
			fromBytes = fmt.Sprintf("; the stored bytes %x decode to such a receipt", in)
		}
		vstat.Violation(t, P, kNilLog, "EncodeToBytes(&Receipt{Logs: []*Log{nil}}) panics: %v%s", pan, fromBytes)
		return
	}
	t.Logf("no panic any more (%v)", err)
}
