// C11 — wire and storage encoding is canonical, lossless, and safe on arbitrary input.
//
// Part (a), values (TestValueRoundTrip, TestMapOrder): arbitrary supported values of every catalogue
// type (catalog_test.go) from a reflection-driven generator (valgen_test.go) go through the entry
// point production uses for that type; dec(enc(v)) must equal v under the normalising equality,
// enc(dec(enc(v))) must equal enc(v) byte for byte, enc(v) must equal the canonical serialisation by
// an independent reference encoder (refenc_test.go), and map-carrying values must encode identically
// whatever the insertion order.
//
// Part (b), bytes (TestMutatedEncodings, TestArbitraryBytes, TestDecodeReader, Fuzz*): structure-aware
// hostile variants of valid encodings and arbitrary bytes go into every decoder entry point; no
// panic, allocation bounded by allocBase + allocFactor*len (oracle_test.go), accepted non-nil values
// survive encode/decode, and variants that cannot be a valid encoding of anything (non-canonical
// headers, inputs that end early, length fields larger than the input, trailing bytes) are rejected.
package c11

import (
	"bufio"
	"bytes"
	"fmt"
	"os"
	"reflect"
	"sort"
	"strings"
	"testing"

	"github.com/lianxiangcloud/linkchain/consensus"
	"github.com/lianxiangcloud/linkchain/libs/log"
	"github.com/lianxiangcloud/linkchain/libs/p2p/conn"
	"github.com/lianxiangcloud/linkchain/libs/ser"
	"github.com/lianxiangcloud/linkchain/types"
	"pgregory.net/rapid"

	"verifharness/vstat"
)

func TestMain(m *testing.M) {
	log.Root().SetHandler(log.DiscardHandler())
	warmUp()
	vstat.Main(m)
}

// warmUp builds the codec's per-type encoder/decoder cache for every catalogue type so that the
// one-time cost is not attributed to the first measured decode.
func warmUp() {
	for _, e := range entries {
		e := e
		guarded(func() (reflect.Value, error) { // a broken codec must fail tests, not TestMain
			pv := e.newValue()
			b, err := e.encode(pv)
			if err == nil {
				e.decode(b)
			}
			return pv, err
		})
	}
}

// wantSample: shard 0 of every test keeps two concrete cases, so that the evidence shows cases of
// every part rather than eight from the first test.
var sampled int

func wantSample() bool {
	if os.Getenv("VERIF_SHARD") != "0" || sampled >= 2 || !vstat.WantSample() {
		return false
	}
	sampled++
	return true
}

func drawEntry(t *rapid.T) *entry {
	return entries[rapid.IntRange(0, len(entries)-1).Draw(t, "entry")]
}

func genValue(t *rapid.T, e *entry, budget int) (reflect.Value, features) {
	g := newValgen(t, budget)
	pv := e.newValue()
	g.fill(pv.Elem())
	return pv, g.feat
}

// encodeGuarded encodes under recover (a generated value must never make the encoder panic).
func encodeGuarded(e *entry, pv reflect.Value) (b []byte, err error, pan interface{}) {
	_, err, pan = guarded(func() (reflect.Value, error) {
		var err error
		b, err = e.encode(pv)
		return reflect.Value{}, err
	})
	return
}

func featureLabels(prefix string, f features) {
	if f.ifaces > 0 {
		vstat.Label(prefix + "has_interface")
	}
	if f.nilIfaces > 0 {
		vstat.Label(prefix + "has_nil_interface")
	}
	if f.nilPtrs > 0 {
		vstat.Label(prefix + "has_nil_pointer")
	}
	if f.negInts > 0 {
		vstat.Label(prefix + "has_negative_int")
	}
	if f.bigOver64 > 0 {
		vstat.Label(prefix + "has_bigint_over_64bit")
	}
	if f.maps > 0 {
		vstat.Label(prefix + "has_map")
	}
	if f.times > 0 {
		vstat.Label(prefix + "has_time")
	}
}

// ---------------------------------------------------------------- part (a): values

// checkValue applies oracle (a) to one generated value; it returns the encoding, or nil when the
// case was abandoned.
func checkValue(t *rapid.T, e *entry, pv reflect.Value) []byte {
	enc, err, pan := encodeGuarded(e, pv)
	if pan != nil {
		key := "encode-panic"
		if hasNilLog(pv) {
			key = kNilLog
		}
		vstat.Violation(t, P, key, "%s/%s: encoding a generated value panics: %v", e.name, e.mode, pan)
		return nil
	}
	if err != nil {
		vstat.Violation(t, P, "encode-error", "%s/%s: encoding a generated value fails: %v", e.name, e.mode, err)
		return nil
	}
	// independent reference: the format's canonical serialisation of the same value
	ref := serialize(refTree(e, pv), nil)
	if !bytes.Equal(enc, ref) {
		i := 0
		for i < len(enc) && i < len(ref) && enc[i] == ref[i] {
			i++
		}
		vstat.Violation(t, P, "encoding-differs-from-format-reference", "%s/%s: codec wrote %s, the format's canonical form is %s (first difference at byte %d)", e.name, e.mode, short(enc), short(ref), i)
		return nil
	}
	// a type registered by value may be handed over by address (mempool/reactor.go does): same bytes
	if e.mode == modeWithType && !e.c.ptr {
		b2, err := ser.EncodeToBytesWithType(pv.Interface())
		if err != nil || !bytes.Equal(b2, enc) {
			vstat.Violation(t, P, "encoding-by-address-differs", "%s: EncodeToBytesWithType(&v)=%s (%v) but (v)=%s", e.name, short(b2), err, short(enc))
			return nil
		}
	}
	dec, err, pan := guarded(func() (reflect.Value, error) { return e.decode(enc) })
	if pan != nil {
		vstat.Violation(t, P, "decode-of-own-encoding-panics", "%s/%s: decoding %s panics: %v", e.name, e.mode, short(enc), pan)
		return nil
	}
	if err != nil {
		vstat.Violation(t, P, "decode-of-own-encoding-fails", "%s/%s: decoding %s fails: %v", e.name, e.mode, short(enc), err)
		return nil
	}
	if d := equalNorm(pv, dec, ""); d != "" {
		vstat.Violation(t, P, "roundtrip-value-differs", "%s/%s: dec(enc(v)) != v at %s ; enc(v)=%s", e.name, e.mode, d, short(enc))
		return nil
	}
	var enc2 []byte
	_, err, pan = guarded(func() (reflect.Value, error) {
		var err error
		enc2, err = e.reencode(dec)
		return reflect.Value{}, err
	})
	if pan != nil || err != nil || !bytes.Equal(enc, enc2) {
		vstat.Violation(t, P, "reencode-differs", "%s/%s: enc(dec(enc(v)))=%s != enc(v)=%s (%v %v)", e.name, e.mode, short(enc2), short(enc), err, pan)
		return nil
	}
	return enc
}

// permuteMaps replaces every map reachable from v by one with the same content inserted in a
// generated order (with a junk key inserted and deleted on the way, which changes the bucket layout).
func permuteMaps(t *rapid.T, v reflect.Value) (n int) {
	walkValue(v, 0, func(x reflect.Value) bool {
		if x.Kind() != reflect.Map || x.IsNil() || !x.CanSet() {
			return true
		}
		keys := x.MapKeys()
		sort.Slice(keys, func(i, j int) bool {
			return fmt.Sprint(keys[i].Interface()) < fmt.Sprint(keys[j].Interface())
		})
		idx := make([]int, len(keys))
		for i := range idx {
			idx[i] = i
		}
		perm := rapid.Permutation(idx).Draw(t, "mapperm")
		m := reflect.MakeMap(x.Type())
		junk := reflect.New(x.Type().Key()).Elem()
		junk.Index(0).SetUint(0xEE)
		junk.Index(19).SetUint(0xEE)
		junkIsReal := false
		for _, k := range keys {
			if k.Interface() == junk.Interface() {
				junkIsReal = true
			}
		}
		for i, p := range perm {
			if i == len(perm)/2 && !junkIsReal {
				m.SetMapIndex(junk, x.MapIndex(keys[0]))
			}
			m.SetMapIndex(keys[p], x.MapIndex(keys[p]))
		}
		if !junkIsReal {
			m.SetMapIndex(junk, reflect.Value{})
		}
		x.Set(m)
		n += len(keys)
		return true
	})
	return
}

// checkMapOrder: equal values encode to the same bytes regardless of map order.
func checkMapOrder(t *rapid.T, e *entry, pv reflect.Value, enc []byte) {
	for round := 0; round < 3; round++ {
		if round > 0 {
			permuteMaps(t, pv.Elem())
		}
		b, err, pan := encodeGuarded(e, pv)
		if pan != nil || err != nil || !bytes.Equal(b, enc) {
			vstat.Violation(t, P, "map-order-dependent-encoding", "%s: the same value encodes to %s and to %s (%v %v)", e.name, short(enc), short(b), err, pan)
			return
		}
	}
}

func runValueCase(t *rapid.T, e *entry) {
	vstat.Eval()
	pv, feat := genValue(t, e, rapid.SampledFrom([]int{4, 12, 30}).Draw(t, "budget"))
	enc := checkValue(t, e, pv)
	if enc == nil {
		return
	}
	if feat.maps > 0 {
		checkMapOrder(t, e, pv, enc)
	}
	vstat.Label("a:type:" + e.name)
	vstat.Label("a:size:" + sizeClass(len(enc)))
	vstat.Label("a:entrypoint:" + e.mode.String())
	featureLabels("a:", feat)
	if feat.nonTrivial() {
		vstat.NonTrivial(fmt.Sprintf("a|%s|%x", e.name, enc))
		if wantSample() && len(enc) < 400 {
			vstat.Sample(map[string]interface{}{"part": "a", "type": e.name, "entrypoint": e.mode.String(), "encoding": fmt.Sprintf("%x", enc),
				"interfaces": feat.ifaces, "nil_pointers": feat.nilPtrs, "nil_interfaces": feat.nilIfaces, "negative_ints": feat.negInts, "bigints_over_64bit": feat.bigOver64})
		}
	}
}

func TestValueRoundTrip(t *testing.T) {
	rapid.Check(t, func(t *rapid.T) { runValueCase(t, drawEntry(t)) })
}

// TestMapOrder concentrates on the map-carrying type (state.Account is the only one).
func TestMapOrder(t *testing.T) {
	var withMap []*entry
	for _, e := range entries {
		if e.hasMap {
			withMap = append(withMap, e)
		}
	}
	rapid.Check(t, func(t *rapid.T) {
		runValueCase(t, withMap[rapid.IntRange(0, len(withMap)-1).Draw(t, "entry")])
	})
}

// ---------------------------------------------------------------- part (b): mutated valid encodings

type expectation int

const (
	expNone        expectation = iota
	expMustErr                 // the variant cannot be a valid encoding of anything
	expErrOrDiffer             // rejected, or accepted as a value different from the original
)

type byteMut struct {
	name   string
	out    []byte
	exp    expectation
	target *node
}

func implementsIfc(c *concrete, ifc reflect.Type) bool {
	if ifc == nil || ifc.NumMethod() == 0 {
		return true
	}
	if c.ptr {
		return reflect.PtrTo(c.typ).Implements(ifc)
	}
	return c.typ.Implements(ifc)
}

var claimsBig = []uint64{1 << 16, 1 << 20, 1 << 24, 1 << 28, 1 << 31, 0xffffffff}
var claimsHuge = []uint64{1 << 63, 1<<64 - 1}

func pick(t *rapid.T, nodes []*node, ok func(*node) bool, label string) *node {
	var c []*node
	for _, n := range nodes {
		if ok(n) {
			c = append(c, n)
		}
	}
	if len(c) == 0 {
		return nil
	}
	return c[rapid.IntRange(0, len(c)-1).Draw(t, label)]
}

// drawMutation makes one hostile variant of the canonical encoding of seq.
func drawMutation(t *rapid.T, e *entry, seq []*node, canon []byte) byteMut {
	nodes := flatten(seq)
	isItem := func(n *node) bool { return n.kind != nRaw }
	// (rapid favours the first and last elements of a sample set; the order puts the structural kinds there)
	kind := rapid.SampledFrom([]string{"inflate", "bomb-wide", "longform", "leadzero", "flip", "longform", "leadzero", "inflate", "inflate-deep", "cut-inside",
		"bomb-wide", "bomb-deep", "drop-kid", "dup-kid", "foreign-prefix", "flip", "truncate", "append", "splice", "maplen"}).Draw(t, "mut")
	bm := byteMut{name: kind}
	switch kind {
	case "longform":
		n := pick(t, nodes, isItem, "target")
		if n == nil {
			break
		}
		size := payloadLen(n)
		m := &mutation{kind: mutLongForm, target: n}
		min := 1
		if size >= 56 {
			min = len(minimalBE(size)) + 1
		}
		if min > 8 {
			break
		}
		m.sizeLen = rapid.IntRange(min, minInt(8, min+2)).Draw(t, "sizelen")
		if n.kind == nStr && len(n.data) == 1 && n.data[0] < 0x80 && rapid.Bool().Draw(t, "as81") {
			m.sizeLen = 0 // 0x81 b
		}
		bm.out, bm.exp, bm.target = serialize(seq, m), expMustErr, n
	case "leadzero":
		n := pick(t, nodes, func(n *node) bool { return n.kind == nStr && len(n.data) >= 1 && len(n.data) <= 8 }, "target")
		if n == nil {
			break
		}
		bm.out, bm.exp, bm.target = serialize(seq, &mutation{kind: mutLeadZero, target: n}), expErrOrDiffer, n
	case "inflate", "inflate-deep":
		n := pick(t, nodes, isItem, "target")
		if n == nil {
			break
		}
		actual := payloadLen(n)
		var claim uint64
		switch rapid.IntRange(0, 3).Draw(t, "claimclass") {
		case 0:
			claim = actual + uint64(rapid.IntRange(1, 60).Draw(t, "claimplus"))
		case 1, 2:
			claim = rapid.SampledFrom(claimsBig).Draw(t, "claim")
		default:
			claim = rapid.SampledFrom(claimsHuge).Draw(t, "claim")
		}
		mk := mutInflate
		if kind == "inflate-deep" {
			mk = mutInflateDeep
			if claim > 0xffffffff {
				claim = 0xffffffff
			}
		}
		if claim <= actual {
			claim = actual + 1
		}
		bm.out, bm.target = serialize(seq, &mutation{kind: mk, target: n, claim: claim}), n
		// only a claim that exceeds everything that follows cannot be satisfied by re-reading the
		// siblings' bytes as content
		if claim > uint64(len(canon)) {
			bm.exp = expMustErr
		}
	case "cut-inside":
		n := pick(t, nodes, func(*node) bool { return true }, "target")
		if n == nil {
			break
		}
		bm.out, bm.exp, bm.target = serialize(seq, &mutation{kind: mutCutInside, target: n, n: rapid.IntRange(0, 1<<20).Draw(t, "cut")}), expMustErr, n
		if len(bm.out) == len(canon) {
			bm.exp = expNone
		}
	case "bomb-wide":
		n := pick(t, nodes, func(n *node) bool { return n.kind == nList }, "target")
		if n == nil {
			break
		}
		cnt := rapid.SampledFrom([]int{56, 300, 1000, 4000}).Draw(t, "bombn")
		item := rapid.SampledFrom([]byte{0xC0, 0xC0, 0x80, 0x00, 0x01}).Draw(t, "bombitem")
		bm.out, bm.target = serialize(seq, &mutation{kind: mutBombWide, target: n, n: cnt, item: item}), n
	case "bomb-deep":
		n := pick(t, nodes, isItem, "target")
		if n == nil {
			break
		}
		bm.out, bm.target = serialize(seq, &mutation{kind: mutBombDeep, target: n, n: rapid.SampledFrom([]int{3, 60, 1000}).Draw(t, "bombdepth")}), n
	case "drop-kid", "dup-kid":
		n := pick(t, nodes, func(n *node) bool { return n.kind == nList && len(n.kids) > 0 }, "target")
		if n == nil {
			break
		}
		mk := mutDropKid
		if kind == "dup-kid" {
			mk = mutDupKid
		}
		bm.out, bm.target = serialize(seq, &mutation{kind: mk, target: n, n: rapid.IntRange(0, 1000).Draw(t, "kid")}), n
	case "foreign-prefix":
		n := pick(t, nodes, func(n *node) bool { return n.what == "prefix" }, "target")
		if n == nil {
			break
		}
		c := allConcrete[rapid.IntRange(0, len(allConcrete)-1).Draw(t, "foreign")]
		if !implementsIfc(c, n.ifc) && vstat.IsKnown(P, kForeignPrefix) {
			// would only re-hit the listed panic: take a type that does implement the interface
			vstat.Excluded(kForeignPrefix)
			cands := impls[n.ifc]
			c = cands[rapid.IntRange(0, len(cands)-1).Draw(t, "foreign2")]
		}
		bm.out, bm.target = serialize(seq, &mutation{kind: mutForeignPrefix, target: n, prefix: c.disfix[:]}), n
	case "maplen":
		// the entry count in front of a map's entries (a hexadecimal signed integer)
		n := pick(t, nodes, func(n *node) bool { return n.what == "maplen" }, "target")
		if n == nil {
			break
		}
		if vstat.IsKnown(P, kMapPresize) {
			vstat.Excluded(kMapPresize) // an inflated count only re-hits the listed pre-sizing
			break
		}
		saved := n.data
		n.data = []byte(rapid.SampledFrom([]string{"100", "10000", "40000", "-1"}).Draw(t, "maplenv"))
		bm.out, bm.target = serialize(seq, nil), n
		n.data = saved
	case "flip":
		out := append([]byte{}, canon...)
		for i, k := 0, rapid.IntRange(1, 3).Draw(t, "nflips"); i < k && len(out) > 0; i++ {
			out[rapid.IntRange(0, len(out)-1).Draw(t, "flipat")] ^= 1 << uint(rapid.IntRange(0, 7).Draw(t, "flipbit"))
		}
		bm.out = out
	case "truncate":
		if len(canon) >= 2 {
			bm.out, bm.exp = append([]byte{}, canon[:rapid.IntRange(1, len(canon)-1).Draw(t, "cutat")]...), expMustErr
		}
	case "append":
		bm.out, bm.exp = append(append([]byte{}, canon...), rapid.SliceOfN(rapid.Byte(), 1, 3).Draw(t, "tail")...), expMustErr
	case "splice":
		out := append([]byte{}, canon...)
		if len(out) > 0 {
			at := rapid.IntRange(0, len(out)-1).Draw(t, "spliceat")
			junk := rapid.SliceOfN(rapid.Byte(), 1, 8).Draw(t, "junk")
			out = append(out[:at], append(junk, out[minInt(len(out), at+len(junk)):]...)...)
		}
		bm.out = out
	}
	if bm.out == nil {
		bm.name, bm.out, bm.exp = "none", append([]byte{}, canon...), expNone
	}
	return bm
}

func minInt(a, b int) int {
	if a < b {
		return a
	}
	return b
}

func runMutatedCase(t *rapid.T, e *entry) {
	vstat.Eval()
	pv, _ := genValue(t, e, rapid.SampledFrom([]int{3, 8}).Draw(t, "budget"))
	canon, err, pan := encodeGuarded(e, pv)
	if err != nil || pan != nil {
		return // TestValueRoundTrip reports encoder problems
	}
	seq := refTree(e, pv)
	if !bytes.Equal(serialize(seq, nil), canon) {
		return // reported by TestValueRoundTrip
	}
	bm := drawMutation(t, e, seq, canon)
	decode := func() (reflect.Value, error) { return e.decode(bm.out) }
	res := measured(decode)
	ctx := "mutation " + bm.name
	vstat.Label("b:mut:" + bm.name)
	vstat.Label("b:decoder:" + e.mode.String())
	vstat.Label("b:size:" + sizeClass(len(bm.out)))
	if passesFirstCheck(e, bm.out) {
		vstat.Label("b:passes_first_check")
		vstat.NonTrivial(fmt.Sprintf("b|%s|%x", e.name, bm.out))
		if wantSample() && len(bm.out) < 200 {
			vstat.Sample(map[string]interface{}{"part": "b", "type": e.name, "entrypoint": e.mode.String(), "mutation": bm.name, "input": fmt.Sprintf("%x", bm.out), "error": fmt.Sprint(res.err)})
		}
	}
	if !checkSafety(t, e, bm.out, res, decode, 0, ctx) {
		return
	}
	if res.err != nil {
		vstat.Label("b:outcome:rejected")
		return
	}
	vstat.Label("b:outcome:accepted")
	// Which root cause lets a malformed variant through?  Two places of the decoder drop errors on the
	// floor (both listed findings): the two integers of a time.Time, and everything below a registered
	// interface.  Anywhere else an accepted malformed variant is a new violation.
	accepted := func(otherwise string) string {
		switch {
		case bm.target != nil && bm.target.inTime:
			return kTimeErr
		case e.mode != modePlain || (bm.target != nil && bm.target.inIfc):
			return kSwallow
		}
		return otherwise
	}
	switch bm.exp {
	case expMustErr:
		if !bytes.Equal(bm.out, canon) {
			vstat.Violation(t, P, accepted("accepts-malformed-input:"+bm.name), "%s/%s: %s variant %s of the valid encoding %s is accepted without error (target item %v)", e.name, e.mode, bm.name, short(bm.out), short(canon), bm.target)
		}
	case expErrOrDiffer:
		if d := equalNorm(pv, res.val, ""); d == "" {
			vstat.Violation(t, P, accepted("accepts-noncanonical-integer"), "%s/%s: %s (0x00 in front of item %v) decodes to the same value as the canonical %s", e.name, e.mode, short(bm.out), bm.target, short(canon))
		}
	}
}

func TestMutatedEncodings(t *testing.T) {
	rapid.Check(t, func(t *rapid.T) { runMutatedCase(t, drawEntry(t)) })
}

// ---------------------------------------------------------------- part (b): arbitrary bytes

// soup builds input out of format tokens so that it gets deep into the decoders more often than
// uniformly random bytes do.
func soup(t *rapid.T, e *entry) []byte {
	var out []byte
	n := rapid.IntRange(0, 24).Draw(t, "ntok")
	for i := 0; i < n; i++ {
		switch rapid.IntRange(0, 11).Draw(t, "tok") {
		case 0:
			out = append(out, rapid.Byte().Draw(t, "b"))
		case 1:
			out = append(out, 0x80)
		case 2:
			out = append(out, 0xC0)
		case 3:
			out = append(out, 0x00)
		case 4:
			out = append(out, byte(0xC1+rapid.IntRange(0, 0x36).Draw(t, "lh")))
		case 5:
			k := rapid.IntRange(1, 33).Draw(t, "sl")
			out = append(out, byte(0x80+k))
			out = append(out, rapid.SliceOfN(rapid.Byte(), k, k).Draw(t, "sb")...)
		case 6:
			c := allConcrete[rapid.IntRange(0, len(allConcrete)-1).Draw(t, "pre")]
			out = append(out, c.disfix[:]...)
		case 7:
			k := rapid.IntRange(1, 8).Draw(t, "ll")
			out = append(out, byte(rapid.SampledFrom([]int{0xB7, 0xF7}).Draw(t, "lt")+k))
			out = append(out, rapid.SliceOfN(rapid.Byte(), k, k).Draw(t, "lb")...)
		case 8:
			s := rapid.SampledFrom([]string{"0", "1", "-1", "1f", "-80", "7fffffffffffffff", "ffffffffffffffffff", "+5", "05", "g"}).Draw(t, "hex")
			out = append(out, canonStr([]byte(s))...)
		case 9:
			out = append(out, 0x94)
			out = append(out, bytes.Repeat([]byte{rapid.Byte().Draw(t, "ab")}, 20)...)
		case 10:
			out = append(out, 0xA0)
			out = append(out, bytes.Repeat([]byte{rapid.Byte().Draw(t, "hb")}, 32)...)
		case 11:
			out = append(out, byte(rapid.IntRange(1, 0x7f).Draw(t, "small")))
		}
	}
	if rapid.IntRange(0, 3).Draw(t, "wrap") != 0 {
		out = append(header(0xC0, 0xF7, uint64(len(out))), out...)
	}
	if e.mode != modePlain && rapid.IntRange(0, 3).Draw(t, "ownprefix") != 0 {
		out = append(append([]byte{}, e.c.disfix[:]...), out...)
	}
	return out
}

func runArbitraryCase(t *rapid.T, e *entry) {
	vstat.Eval()
	var in []byte
	style := rapid.SampledFrom([]string{"random", "soup", "soup", "soup"}).Draw(t, "style")
	if style == "random" {
		in = rapid.SliceOfN(rapid.Byte(), 0, 64).Draw(t, "raw")
	} else {
		in = soup(t, e)
	}
	decode := func() (reflect.Value, error) { return e.decode(in) }
	res := measured(decode)
	vstat.Label("b:arbitrary:" + style)
	vstat.Label("b:decoder:" + e.mode.String())
	if passesFirstCheck(e, in) {
		vstat.Label("b:passes_first_check")
		vstat.NonTrivial(fmt.Sprintf("r|%s|%x", e.name, in))
	}
	if !checkSafety(t, e, in, res, decode, 0, "arbitrary bytes") {
		return
	}
	if res.err != nil {
		vstat.Label("b:outcome:rejected")
	} else if isNilDecoded(res.val) {
		vstat.Label("b:outcome:nil")
	} else {
		vstat.Label("b:outcome:accepted")
	}
}

func TestArbitraryBytes(t *testing.T) {
	rapid.Check(t, func(t *rapid.T) { runArbitraryCase(t, drawEntry(t)) })
}

// ---------------------------------------------------------------- part (b): DecodeReader with the callers' limits

// maxPacketMsgSize mirrors libs/p2p/conn/connection.go maxPacketMsgSize() with the default payload size.
var maxPacketMsgSize = len(ser.MustEncodeToBytesWithType(conn.PacketMsg{ChannelID: 1, EOF: 1, Bytes: make([]byte, 32*1024)})) + 10

// defaultBlockMaxBytes is types/params.go DefaultBlockSize().MaxBytes, the limit consensus/state.go
// passes to ser.DecodeReader when it assembles a proposal block from its parts.
const defaultBlockMaxBytes = 22020096

func runReaderCase(t *rapid.T) {
	vstat.Eval()
	blockCase := rapid.IntRange(0, 2).Draw(t, "which") != 0
	var e *entry
	if blockCase {
		e = entryByName["Block"]
	} else {
		e = entryByName["p2p/"+rapid.SampledFrom([]string{"p2p/PacketMsg", "p2p/PacketPing", "p2p/PacketPong"}).Draw(t, "packet")]
	}
	pv, _ := genValue(t, e, rapid.SampledFrom([]int{3, 8}).Draw(t, "budget"))
	canon, err, pan := encodeGuarded(e, pv)
	if err != nil || pan != nil {
		return
	}
	seq := refTree(e, pv)
	in := canon
	mutated := "valid"
	switch rapid.IntRange(0, 3).Draw(t, "inkind") {
	case 1:
		bm := drawMutation(t, e, seq, canon)
		in, mutated = bm.out, bm.name
	case 2:
		in, mutated = soup(t, e), "soup"
	}
	var limit int64
	if blockCase {
		limit = rapid.SampledFrom([]int64{defaultBlockMaxBytes, defaultBlockMaxBytes, int64(len(in)) + 1, 1 << 20, 64}).Draw(t, "limit")
	} else {
		limit = int64(maxPacketMsgSize)
	}
	// the reader production uses: the proposal's parts (PartSetReader, not a ByteReader, so the stream
	// adds a bufio layer), resp. the connection's bufio.Reader.  A fresh reader per call, so that the
	// decode can be measured again.
	var parts []*types.Part
	if blockCase {
		ps := rapid.SampledFrom([]int{7, 64, 1024, 32 * 1024}).Draw(t, "partsize")
		for i := 0; i < len(in) || i == 0; i += ps {
			parts = append(parts, &types.Part{Index: i / ps, Bytes: in[i:minInt(len(in), i+ps)]})
		}
	}
	var n int64
	decode := func() (reflect.Value, error) {
		var err error
		if blockCase {
			var blk *types.Block
			n, err = ser.DecodeReader(types.NewPartSetReader(parts), &blk, limit) // consensus/state.go addProposalBlockPart
			return reflect.ValueOf(blk), err
		}
		var pkt conn.Packet
		n, err = ser.DecodeReaderWithType(bufio.NewReaderSize(bytes.NewReader(in), 1024), &pkt, limit) // libs/p2p/conn/connection.go recvRoutine
		return reflect.ValueOf(&pkt).Elem(), err
	}
	res := measured(decode)
	vstat.Label("b:reader:" + mutated)
	vstat.Label("b:decoder:reader")
	if passesFirstCheck(e, in) {
		vstat.Label("b:passes_first_check")
		vstat.NonTrivial(fmt.Sprintf("rd|%s|%d|%x", e.name, limit, in))
	}
	if res.pan != nil {
		key := "decode-panic"
		if strings.Contains(fmt.Sprint(res.pan), "is not assignable to type") {
			key = kForeignPrefix
		}
		vstat.Violation(t, P, key, "DecodeReader(%s, limit %d) of %s panicked: %v", e.name, limit, short(in), res.pan)
		return
	}
	bound := allocBound(len(in), uint64(limit))
	for i := 0; i < 2 && res.alloc > bound; i++ { // filters a concurrent vstat flush, as in checkSafety
		if r2 := measured(decode); r2.pan == nil && r2.alloc < res.alloc {
			res.alloc = r2.alloc
		}
	}
	if res.alloc > bound {
		vstat.Violation(t, P, explainAlloc(e, res, res.alloc), "DecodeReader(%s, limit %d) of %d bytes allocated %d bytes (bound %d incl. the limit): %s", e.name, limit, len(in), res.alloc, bound, short(in))
		return
	}
	if res.err != nil {
		vstat.Label("b:outcome:rejected")
		if mutated == "valid" && limit >= int64(len(in)) {
			vstat.Violation(t, P, "reader-rejects-valid-encoding", "DecodeReader(%s, limit %d) rejects the valid encoding %s: %v", e.name, limit, short(in), res.err)
		}
		return
	}
	vstat.Label("b:outcome:accepted")
	if mutated == "valid" {
		if d := equalNorm(pv, res.val, ""); d != "" {
			vstat.Violation(t, P, "reader-roundtrip-differs", "DecodeReader(%s) of the valid encoding %s differs from the value: %s", e.name, short(in), d)
			return
		}
		if n != int64(len(in)) {
			vstat.Violation(t, P, "reader-consumed-count", "DecodeReader(%s) reports %d bytes consumed of %d", e.name, n, len(in))
		}
	}
}

func TestDecodeReader(t *testing.T) {
	rapid.Check(t, runReaderCase)
}

// ---------------------------------------------------------------- registry self-check

// TestRegistryMatchesCodec: the catalogue's mirror of the Register* calls agrees with the codec, and
// every catalogue type is accepted by the codec at all.
func TestRegistryMatchesCodec(t *testing.T) {
	for _, c := range allConcrete {
		vstat.Eval()
		pv := reflect.New(c.typ)
		var x interface{} = pv.Interface()
		if !c.ptr {
			x = pv.Elem().Interface()
		}
		b, err := ser.EncodeToBytesWithType(x)
		if err != nil || len(b) < 7 || !bytes.Equal(b[:7], c.disfix[:]) {
			t.Fatalf("registry mirror is wrong for %s (%v): codec wrote %x, %v; mirror prefix %x", c.name, c.typ, b, err, c.disfix)
		}
	}
	for ifc, cs := range impls {
		for _, c := range cs {
			if ifc == tPrivKey {
				continue
			}
			h := reflect.New(ifc)
			body := []byte{0xC0}
			if c.typ.Kind() != reflect.Struct {
				pv := reflect.New(c.typ)
				body, _ = ser.EncodeToBytes(pv.Interface())
			}
			err := ser.DecodeBytesWithType(append(append([]byte{}, c.disfix[:]...), body...), h.Interface())
			if err != nil || h.Elem().IsNil() {
				t.Fatalf("%s does not decode into %v: %v", c.name, ifc, err)
			}
			got := h.Elem().Elem().Type()
			want := c.typ
			if c.ptr {
				want = reflect.PtrTo(c.typ)
			}
			if got != want {
				t.Fatalf("%s decodes into %v as %v, mirror says %v", c.name, ifc, got, want)
			}
		}
	}
	for _, e := range entries {
		vstat.Eval()
		pv := e.newValue()
		b, err := e.encode(pv)
		if err != nil {
			t.Fatalf("zero %s does not encode: %v", e.name, err)
		}
		if ref := serialize(refTree(e, pv), nil); !bytes.Equal(ref, b) {
			t.Fatalf("zero %s: codec %x, reference %x", e.name, b, ref)
		}
		if _, err := e.decode(b); err != nil {
			t.Fatalf("zero %s does not decode: %v", e.name, err)
		}
	}
	vstat.Note(fmt.Sprintf("catalogue: %d (type, entry point) pairs over %d registered concrete types", len(entries), len(allConcrete)))
}

// ---------------------------------------------------------------- native fuzz targets

// fuzzEntry: the consensus reactor's decoder goes through consensus.VerifDecodeMsg (= decodeMsg).
var consFuzzEntry = &entry{name: "cons/decodeMsg", mode: modeWithType, iface: tConsMsg}

// fuzzing: true in the coordinator and the workers of a native fuzz run (not when the committed
// corpus is replayed as an ordinary test).
var fuzzing = func() bool {
	for _, a := range os.Args[1:] {
		if strings.HasPrefix(a, "-test.fuzz=") || strings.HasPrefix(a, "-test.fuzzworker") || a == "-test.fuzz" {
			return true
		}
	}
	return false
}()

func fuzzOne(t *testing.T, e *entry, in []byte, decode func() (reflect.Value, error)) {
	vstat.Eval()
	res := measured(decode)
	// the driver counts native fuzz executions itself; recording millions of fingerprints would only
	// make vstat's periodic flush heavy
	if !fuzzing && passesFirstCheck(e, in) {
		vstat.NonTrivial(fmt.Sprintf("f|%s|%x", e.name, in))
	}
	checkSafety(t, e, in, res, decode, 0, "fuzz")
}

func FuzzConsensusMsg(f *testing.F) {
	for _, s := range hostileSeeds(true) {
		f.Add(s)
	}
	f.Fuzz(func(t *testing.T, in []byte) {
		fuzzOne(t, consFuzzEntry, in, func() (reflect.Value, error) {
			msg, err := consensus.VerifDecodeMsg(in)
			return reflect.ValueOf(&msg).Elem(), err
		})
	})
}

func FuzzDecodeBlock(f *testing.F) {
	e := entryByName["Block"]
	for _, s := range hostileSeeds(false) {
		f.Add(s)
	}
	f.Fuzz(func(t *testing.T, in []byte) {
		fuzzOne(t, e, in, func() (reflect.Value, error) { return e.decode(in) })
	})
}

func FuzzDecodeTx(f *testing.F) {
	e := entryByName["TxIface/tx"] // decodes into the types.Tx interface: any registered kind
	for _, s := range hostileSeeds(true) {
		f.Add(s)
	}
	f.Fuzz(func(t *testing.T, in []byte) {
		fuzzOne(t, e, in, func() (reflect.Value, error) { return e.decode(in) })
	})
}

// hostileSeeds: constants every decoder must survive (the committed corpus under testdata/fuzz holds
// valid encodings and more of these; see TestWriteFuzzCorpus).
func hostileSeeds(withPrefix bool) [][]byte {
	seeds := [][]byte{
		{}, {0x00}, {0x80}, {0xC0},
		{0xBB, 0xFF, 0xFF, 0xFF, 0xFF},                         // string of 0xffffffff bytes
		{0xFB, 0xFF, 0xFF, 0xFF, 0xFF},                         // list of 0xffffffff bytes
		{0xBF, 0xFF, 0xFF, 0xFF, 0xFF, 0xFF, 0xFF, 0xFF, 0xFF}, // string of 2^64-1 bytes
		{0xFF, 0xFF, 0xFF, 0xFF, 0xFF, 0xFF, 0xFF, 0xFF, 0xFF}, // list of 2^64-1 bytes
		{0xF8, 0x00}, {0xB8, 0x00}, {0x81, 0x05}, // non-canonical sizes
		deepBomb(64), deepBomb(2000),
		append(header(0xC0, 0xF7, 3000), bytes.Repeat([]byte{0xC0}, 3000)...),
	}
	if withPrefix {
		var out [][]byte
		for _, s := range seeds {
			out = append(out, s)
			for _, name := range []string{"consensus/Vote", "consensus/BlockPart", types.TxNormal, types.TxUTXO} {
				d := disfixOf(name)
				out = append(out, append(append([]byte{}, d[:]...), s...))
			}
		}
		return out
	}
	return seeds
}

// TestWriteFuzzCorpus regenerates the committed seed corpus (run by hand:
// C11_WRITE_CORPUS=/verif/harness/c11/testdata/fuzz go test -run TestWriteFuzzCorpus).  The values
// come from the rapid generator with fixed seeds, so the files are reproducible.
func TestWriteFuzzCorpus(t *testing.T) {
	dir := os.Getenv("C11_WRITE_CORPUS")
	if dir == "" {
		t.Skip("C11_WRITE_CORPUS not set")
	}
	write := func(target string, i int, b []byte) {
		d := dir + "/" + target
		os.MkdirAll(d, 0o755)
		body := fmt.Sprintf("go test fuzz v1\n[]byte(%q)\n", b)
		if err := os.WriteFile(fmt.Sprintf("%s/seed-%03d", d, i), []byte(body), 0o644); err != nil {
			t.Fatal(err)
		}
	}
	valid := func(names []string, perType int) [][]byte {
		var out [][]byte
		for _, name := range names {
			e := entryByName[name]
			if e == nil {
				t.Fatalf("no entry %s", name)
			}
			for s := 0; s < perType; s++ {
				g := rapid.Custom(func(rt *rapid.T) []byte {
					pv, _ := genValue(rt, e, 6)
					b, err := e.encode(pv)
					if err != nil {
						return nil
					}
					return b
				})
				if b := g.Example(1000*s + len(name)); b != nil && len(b) < 4096 {
					out = append(out, b)
				}
			}
		}
		return out
	}
	var cons, txs []string
	for _, c := range impls[tConsMsg] {
		cons = append(cons, "cons/"+c.name)
	}
	for _, c := range impls[tTx] {
		txs = append(txs, "TxIface/"+c.name)
	}
	for target, seeds := range map[string][][]byte{
		"FuzzConsensusMsg": append(valid(cons, 3), hostileSeeds(true)...),
		"FuzzDecodeBlock":  append(valid([]string{"Block"}, 12), hostileSeeds(false)...),
		"FuzzDecodeTx":     append(valid(txs, 4), hostileSeeds(true)...),
	} {
		for i, s := range seeds {
			write(target, i, s)
		}
	}
}
