package c11

// "Equal values always encode to the same bytes" also means: whatever was encoded before.  libs/ser keeps its encoder
// buffers in a sync.Pool, so the state a previous encoding leaves in a buffer is an input of the next one.  The test
// encodes a generated value, then a generated LARGE list-rich value (tens of KiB up to a few MiB: full blocks do
// that), then the first value again, through every entry point, and compares.

import (
	"bytes"
	"fmt"
	"reflect"
	"runtime"
	"testing"
	"time"

	"github.com/lianxiangcloud/linkchain/libs/p2p"
	"github.com/lianxiangcloud/linkchain/libs/ser"
	"github.com/lianxiangcloud/linkchain/types"
	"pgregory.net/rapid"

	"verifharness/vstat"
)

type histInner struct {
	A uint64
	B []byte
}

type histSmall struct {
	Height uint64
	Round  int
	When   time.Time
	Tags   []string
	In     []histInner
}

func TestEncodeHistoryIndependence(t *testing.T) {
	rapid.Check(t, func(t *rapid.T) {
		vstat.Eval()
		// one P: the pool hands the buffer of the previous encoding to the next one
		defer runtime.GOMAXPROCS(runtime.GOMAXPROCS(1))
		v := &histSmall{Height: rapid.Uint64().Draw(t, "h"), Round: rapid.IntRange(0, 1000).Draw(t, "r"), When: time.Unix(int64(rapid.IntRange(0, 2000000000).Draw(t, "ts")), 0).UTC(),
			Tags: rapid.SliceOfN(rapid.StringN(0, 12, 12), 0, 4).Draw(t, "tags")}
		for i := 0; i < rapid.IntRange(0, 5).Draw(t, "nin"); i++ {
			v.In = append(v.In, histInner{A: uint64(i), B: rapid.SliceOfN(rapid.Byte(), 0, 60).Draw(t, "b")})
		}
		enc := func() ([]byte, []byte, error) {
			a, err := ser.EncodeToBytes(v)
			if err != nil {
				return nil, nil, err
			}
			var w bytes.Buffer
			if err := ser.Encode(&w, v); err != nil {
				return nil, nil, err
			}
			return a, w.Bytes(), nil
		}
		before, beforeW, err := enc()
		if err != nil {
			t.Fatalf("encode: %v", err)
		}
		// the large value: n entries of a small struct with a byte string of generated length
		n := rapid.SampledFrom([]int{100, 2000, 20000, 40000, 70000, 120000}).Draw(t, "nlarge")
		blen := rapid.SampledFrom([]int{0, 8, 30, 64}).Draw(t, "blen")
		large := make([]histInner, n)
		pad := bytes.Repeat([]byte{0xab}, blen)
		for i := range large {
			large[i] = histInner{A: uint64(i), B: pad}
		}
		lb, err := ser.EncodeToBytes(large)
		if err != nil {
			t.Fatalf("encode large: %v", err)
		}
		vstat.Label(fmt.Sprintf("large_value_%s", map[bool]string{true: "over_1MiB", false: "under_1MiB"}[len(lb) > 1<<20]))
		if len(lb) > 1<<20 {
			vstat.NonTrivial(fmt.Sprintf("%d|%d|%x", n, blen, before))
		}
		for round := 0; round < 3; round++ {
			after, afterW, err := enc()
			if err != nil {
				vstat.Violation(t, P, "encode:depends-on-history", "after encoding a %d-byte value, encoding of an unchanged small value fails: %v", len(lb), err)
				return
			}
			if !bytes.Equal(after, before) || !bytes.Equal(afterW, beforeW) || !bytes.Equal(after, afterW) {
				vstat.Violation(t, P, "encode:depends-on-history", "the same value encodes to %d bytes before and to %d bytes (EncodeToBytes) / %d bytes (Encode to a writer) after a %d-byte list-rich value was encoded (attempt %d); before %x ; after %x", len(before), len(after), len(afterW), len(lb), round, before, after[:min(len(after), 200)])
				return
			}
			var back histSmall
			if err := ser.DecodeBytes(after, &back); err != nil {
				vstat.Violation(t, P, "encode:depends-on-history", "encoding made after a %d-byte value does not decode: %v", len(lb), err)
				return
			}
		}
	})
}

// The codec is one process-wide object with lazily filled caches shared by its binary and its JSON half: what a type's
// encoding looks like must not depend on which half met the type first.  The entry points with a type prefix are also
// used for types that were never registered (the p2p NodeInfo and key exchange of every new connection): there the
// prefix is empty, before and after the same value went through JSON (RPC status and dumps do that in a running node).
// Generated: the type, the value, and a history of other codec uses between two encodings of the value.

type histHolder struct {
	Name string
	Vote *types.Vote
	Info p2p.NodeInfo
	ID   types.BlockID
}

var histTypes = []reflect.Type{
	reflect.TypeOf(p2p.NodeInfo{}), reflect.TypeOf(types.Vote{}), reflect.TypeOf(types.BlockID{}), reflect.TypeOf(types.Proposal{}),
	reflect.TypeOf(types.PartSetHeader{}), reflect.TypeOf(histSmall{}), reflect.TypeOf([32]byte{}), reflect.TypeOf(uint64(0)), reflect.TypeOf(""),
}

func TestWithTypeHistoryIndependence(t *testing.T) {
	rapid.Check(t, func(t *rapid.T) {
		vstat.Eval()
		typ := rapid.SampledFrom(histTypes).Draw(t, "type")
		pv := reflect.New(typ)
		newValgen(t, 12).fill(pv.Elem())
		if typ == reflect.TypeOf(histSmall{}) {
			hs := pv.Interface().(*histSmall)
			hs.When = time.Unix(int64(rapid.IntRange(0, 2000000000).Draw(t, "ts")), 0).UTC()
		}
		byPtr := rapid.Bool().Draw(t, "byptr")
		val := func() interface{} {
			if byPtr {
				return pv.Interface()
			}
			return pv.Elem().Interface()
		}
		encAll := func() (b, w []byte, err error) {
			if b, err = ser.EncodeToBytesWithType(val()); err != nil {
				return
			}
			var buf bytes.Buffer
			if _, err = ser.EncodeWriterWithType(&buf, val()); err != nil {
				return
			}
			return b, buf.Bytes(), nil
		}
		roundTrip := func(b []byte, when string) bool {
			out := reflect.New(typ)
			if err := ser.DecodeBytesWithType(b, out.Interface()); err != nil {
				vstat.Violation(t, P, "withtype:unregistered-type-does-not-round-trip", "%s: the prefixed encoding %x of a %v does not decode: %v", when, b[:min(len(b), 64)], typ, err)
				return false
			}
			if d := equalNorm(pv.Elem(), out.Elem(), typ.String()); d != "" {
				vstat.Violation(t, P, "withtype:unregistered-type-does-not-round-trip", "%s: the prefixed encoding of a %v decodes to another value: %s", when, typ, d)
				return false
			}
			return true
		}
		b0, w0, err := encAll()
		if err != nil {
			t.Skip("value not encodable: " + err.Error())
		}
		plain, _ := ser.EncodeToBytes(val())
		if !bytes.Equal(b0, w0) {
			vstat.Violation(t, P, "withtype:entry-points-differ", "EncodeToBytesWithType gives %x, EncodeWriterWithType %x for the same %v", b0[:min(len(b0), 64)], w0[:min(len(w0), 64)], typ)
			return
		}
		if !roundTrip(b0, "first encoding") {
			return
		}
		// the history in between
		var hist []string
		nops := rapid.IntRange(1, 5).Draw(t, "nops")
		for i := 0; i < nops; i++ {
			op := rapid.SampledFrom([]string{"json-marshal", "json-marshal", "json-marshal-holder", "json-roundtrip", "json-marshal-ptr", "plain-encode", "withtype-other"}).Draw(t, "op")
			hist = append(hist, op)
			switch op {
			case "json-marshal":
				ser.MarshalJSON(pv.Elem().Interface())
			case "json-marshal-ptr":
				ser.MarshalJSON(pv.Interface())
			case "json-marshal-holder":
				h := histHolder{Name: "x", Vote: &types.Vote{Height: 3}, Info: p2p.NodeInfo{Moniker: "m"}}
				ser.MarshalJSON(h)
				ser.MarshalJSONIndent(&h, "", " ")
			case "json-roundtrip":
				if bz, err := ser.MarshalJSON(pv.Elem().Interface()); err == nil {
					ser.UnmarshalJSON(bz, reflect.New(typ).Interface())
				}
			case "plain-encode":
				ser.EncodeToBytes(val())
			case "withtype-other":
				ser.EncodeToBytesWithType(&histInner{A: 1})
			}
		}
		vstat.Label("history_type_" + typ.String())
		vstat.NonTrivial(fmt.Sprintf("%v|%v|%x", typ, hist, b0[:min(len(b0), 24)]))
		b1, w1, err := encAll()
		if err != nil {
			vstat.Violation(t, P, "withtype:encoding-depends-on-codec-history", "after %v the prefixed encoding of an unchanged %v fails: %v", hist, typ, err)
			return
		}
		if !bytes.Equal(b1, b0) || !bytes.Equal(w1, w0) {
			vstat.Violation(t, P, "withtype:encoding-depends-on-codec-history", "the same %v encodes (with type prefix) to %x before and to %x after %v (plain encoding %x)", typ, b0[:min(len(b0), 48)], b1[:min(len(b1), 48)], hist, plain[:min(len(plain), 48)])
			return
		}
		roundTrip(b1, fmt.Sprintf("after %v", hist))
	})
}
