package c11

// "Equal values always encode to the same bytes" also means: whatever was encoded before.  libs/ser keeps its encoder
// buffers in a sync.Pool, so the state a previous encoding leaves in a buffer is an input of the next one.  The test
// encodes a generated value, then a generated LARGE list-rich value (tens of KiB up to a few MiB: full blocks do
// that), then the first value again, through every entry point, and compares.

import (
	"bytes"
	"fmt"
	"runtime"
	"testing"
	"time"

	"github.com/lianxiangcloud/linkchain/libs/ser"
	"pgregory.net/rapid"

	"verifharness/vstat"
)

type histInner struct {
	A uint64
	B []byte
}

type histSmall struct {
	Height uint64
	Round  int
	When   time.Time
	Tags   []string
	In     []histInner
}

func TestEncodeHistoryIndependence(t *testing.T) {
	rapid.Check(t, func(t *rapid.T) {
		vstat.Eval()
		// one P: the pool hands the buffer of the previous encoding to the next one
		defer runtime.GOMAXPROCS(runtime.GOMAXPROCS(1))
		v := &histSmall{Height: rapid.Uint64().Draw(t, "h"), Round: rapid.IntRange(0, 1000).Draw(t, "r"), When: time.Unix(int64(rapid.IntRange(0, 2000000000).Draw(t, "ts")), 0).UTC(),
			Tags: rapid.SliceOfN(rapid.StringN(0, 12, 12), 0, 4).Draw(t, "tags")}
		for i := 0; i < rapid.IntRange(0, 5).Draw(t, "nin"); i++ {
			v.In = append(v.In, histInner{A: uint64(i), B: rapid.SliceOfN(rapid.Byte(), 0, 60).Draw(t, "b")})
		}
		enc := func() ([]byte, []byte, error) {
			a, err := ser.EncodeToBytes(v)
			if err != nil {
				return nil, nil, err
			}
			var w bytes.Buffer
			if err := ser.Encode(&w, v); err != nil {
				return nil, nil, err
			}
			return a, w.Bytes(), nil
		}
		before, beforeW, err := enc()
		if err != nil {
			t.Fatalf("encode: %v", err)
		}
		// the large value: n entries of a small struct with a byte string of generated length
		n := rapid.SampledFrom([]int{100, 2000, 20000, 40000, 70000, 120000}).Draw(t, "nlarge")
		blen := rapid.SampledFrom([]int{0, 8, 30, 64}).Draw(t, "blen")
		large := make([]histInner, n)
		pad := bytes.Repeat([]byte{0xab}, blen)
		for i := range large {
			large[i] = histInner{A: uint64(i), B: pad}
		}
		lb, err := ser.EncodeToBytes(large)
		if err != nil {
			t.Fatalf("encode large: %v", err)
		}
		vstat.Label(fmt.Sprintf("large_value_%s", map[bool]string{true: "over_1MiB", false: "under_1MiB"}[len(lb) > 1<<20]))
		if len(lb) > 1<<20 {
			vstat.NonTrivial(fmt.Sprintf("%d|%d|%x", n, blen, before))
		}
		for round := 0; round < 3; round++ {
			after, afterW, err := enc()
			if err != nil {
				vstat.Violation(t, P, "encode:depends-on-history", "after encoding a %d-byte value, encoding of an unchanged small value fails: %v", len(lb), err)
				return
			}
			if !bytes.Equal(after, before) || !bytes.Equal(afterW, beforeW) || !bytes.Equal(after, afterW) {
				vstat.Violation(t, P, "encode:depends-on-history", "the same value encodes to %d bytes before and to %d bytes (EncodeToBytes) / %d bytes (Encode to a writer) after a %d-byte list-rich value was encoded (attempt %d); before %x ; after %x", len(before), len(after), len(afterW), len(lb), round, before, after[:min(len(after), 200)])
				return
			}
			var back histSmall
			if err := ser.DecodeBytes(after, &back); err != nil {
				vstat.Violation(t, P, "encode:depends-on-history", "encoding made after a %d-byte value does not decode: %v", len(lb), err)
				return
			}
		}
	})
}
