package c11

// An independent reference encoder for the wire format of libs/ser, written from the format's
// description (doc.go / the comments in encode.go and decode.go), producing a TREE of items rather
// than bytes.  It serves two purposes:
//   - oracle: the canonical serialisation of the tree must equal what the codec produced;
//   - mutation: structure-aware hostile variants of a valid encoding (non-canonical headers, inflated
//     length fields, truncation inside a chosen item, list bombs, foreign type prefixes) are made by
//     serialising the tree with one item altered.
//
// Format: an item is a string or a list.
//   string: one byte < 0x80 is itself; else 0x80+len (len < 56) or 0xB7+lenlen, len big-endian minimal; then the bytes.
//   list:   0xC0+len (payload len < 56) or 0xF7+lenlen, len; then the items.
//   uint -> minimal big-endian bytes (0 -> empty string);  bool -> 0x01 / empty string;
//   signed int -> the ASCII of strconv.FormatInt(v, 16) as a string;  *big.Int -> like uint, nil -> 0;
//   time -> list[int seconds, int nanoseconds];  struct -> list of encoded fields;  slice/array -> list,
//   byte slice/array/string -> string;  map[Address]*big.Int -> list[int count, (key, value)... sorted by key];
//   nil pointer -> empty string (pointer to byte array), empty list (pointer to struct / array), else the zero value;
//   registered interface -> nil: the single raw byte 0x00; else 7 raw bytes (3 disambiguation + 4 prefix) then the concrete value;
//   WithType entry points put the same 7 raw bytes in front of a registered top-level value.

import (
	"bytes"
	"fmt"
	"math/big"
	"reflect"
	"sort"
	"strconv"
	"time"
)

type nodeKind uint8

const (
	nStr nodeKind = iota
	nList
	nRaw // bytes outside the item grammar: type prefix, nil-interface marker
)

type node struct {
	kind   nodeKind
	data   []byte       // nStr: content, nRaw: the bytes
	kids   []*node      // nList
	what   string       // uint int bool bigint bytes string time struct slice map ptrnil prefix niliface
	inIfc  bool         // lies inside the payload of a registered interface (or of a WithType top level)
	inTime bool         // one of the two integers of a time.Time
	ifc    reflect.Type // prefix nodes: the interface type the decoder is filling
}

type refenc struct {
	inIfc, inTime bool
}

func (r *refenc) mk(k nodeKind, what string, data []byte, kids ...*node) *node {
	return &node{kind: k, what: what, data: data, kids: kids, inIfc: r.inIfc, inTime: r.inTime}
}

func minimalBE(u uint64) []byte {
	var b [8]byte
	for i := 0; i < 8; i++ {
		b[7-i] = byte(u >> (8 * uint(i)))
	}
	i := 0
	for i < 8 && b[i] == 0 {
		i++
	}
	return append([]byte{}, b[i:]...)
}

func (r *refenc) intNode(v int64) *node {
	return r.mk(nStr, "int", []byte(strconv.FormatInt(v, 16)))
}

func (r *refenc) bigNode(x *big.Int) *node {
	if x == nil {
		return r.mk(nStr, "bigint", nil)
	}
	return r.mk(nStr, "bigint", x.Bytes())
}

// emit returns the item(s) the value is written as (an interface yields prefix + item).
func (r *refenc) emit(v reflect.Value) []*node {
	t := v.Type()
	switch {
	case t == tBigIntPtr:
		return []*node{r.bigNode(v.Interface().(*big.Int))}
	case t == tBigInt:
		v = addressable(v)
		return []*node{r.bigNode(v.Addr().Interface().(*big.Int))}
	case t == tTime:
		tm := v.Interface().(time.Time)
		saved := r.inTime
		r.inTime = true
		n := r.mk(nList, "time", nil, r.intNode(tm.Unix()), r.intNode(int64(int32(tm.Nanosecond()))))
		r.inTime = saved
		n.inTime = false
		return []*node{n}
	}
	switch t.Kind() {
	case reflect.Bool:
		if v.Bool() {
			return []*node{r.mk(nStr, "bool", []byte{1})}
		}
		return []*node{r.mk(nStr, "bool", nil)}
	case reflect.Uint, reflect.Uint8, reflect.Uint16, reflect.Uint32, reflect.Uint64, reflect.Uintptr:
		return []*node{r.mk(nStr, "uint", minimalBE(v.Uint()))}
	case reflect.Int, reflect.Int8, reflect.Int16, reflect.Int32, reflect.Int64:
		return []*node{r.intNode(v.Int())}
	case reflect.String:
		return []*node{r.mk(nStr, "string", []byte(v.String()))}
	case reflect.Slice, reflect.Array:
		if t.Elem().Kind() == reflect.Uint8 {
			b := make([]byte, v.Len())
			for i := range b {
				b[i] = byte(v.Index(i).Uint())
			}
			return []*node{r.mk(nStr, "bytes", b)}
		}
		var kids []*node
		for i := 0; i < v.Len(); i++ {
			kids = append(kids, r.emit(v.Index(i))...)
		}
		return []*node{r.mk(nList, "slice", nil, kids...)}
	case reflect.Map:
		type kv struct {
			k []byte
			v *big.Int
		}
		var kvs []kv
		for _, k := range v.MapKeys() {
			kb := make([]byte, k.Len())
			for i := range kb {
				kb[i] = byte(k.Index(i).Uint())
			}
			kvs = append(kvs, kv{kb, v.MapIndex(k).Interface().(*big.Int)})
		}
		sort.Slice(kvs, func(i, j int) bool { return bytes.Compare(kvs[i].k, kvs[j].k) < 0 })
		kids := []*node{r.intNode(int64(len(kvs)))}
		kids[0].what = "maplen"
		for _, e := range kvs {
			kids = append(kids, r.mk(nStr, "bytes", e.k), r.bigNode(e.v))
		}
		return []*node{r.mk(nList, "map", nil, kids...)}
	case reflect.Ptr:
		if v.IsNil() {
			et := t.Elem()
			switch {
			case et.Kind() == reflect.Array && et.Elem().Kind() == reflect.Uint8:
				return []*node{r.mk(nStr, "ptrnil", nil)}
			case et.Kind() == reflect.Struct || et.Kind() == reflect.Array:
				return []*node{r.mk(nList, "ptrnil", nil)}
			default:
				ns := r.emit(reflect.Zero(et))
				for _, n := range ns {
					n.what = "ptrnil"
				}
				return ns
			}
		}
		return r.emit(v.Elem())
	case reflect.Interface:
		if _, registered := impls[t]; !registered {
			panic("refenc: unregistered interface " + t.String())
		}
		if v.IsNil() {
			return []*node{r.mk(nRaw, "niliface", []byte{0x00})}
		}
		cv, ok := derefAll(v)
		if !ok {
			panic("refenc: typed nil inside interface")
		}
		c := byType[cv.Type()]
		if c == nil {
			panic("refenc: unregistered concrete type " + cv.Type().String())
		}
		pre := r.mk(nRaw, "prefix", append([]byte{}, c.disfix[:]...))
		pre.ifc = t
		saved := r.inIfc
		r.inIfc = true
		body := r.emit(cv)
		r.inIfc = saved
		return append([]*node{pre}, body...)
	case reflect.Struct:
		if isDelegateWrapper(t) {
			return r.emit(encodedFields(v)[0])
		}
		var kids []*node
		for _, f := range encodedFields(v) {
			kids = append(kids, r.emit(f)...)
		}
		return []*node{r.mk(nList, "struct", nil, kids...)}
	}
	panic("refenc: unsupported type " + t.String())
}

// refTree builds the item sequence for a value written through the entry's entry point.
func refTree(e *entry, pv reflect.Value) []*node {
	r := &refenc{}
	switch e.mode {
	case modePlain:
		return r.emit(pv.Elem())
	case modeWithType:
		pre := r.mk(nRaw, "prefix", append([]byte{}, e.c.disfix[:]...))
		pre.ifc = e.iface
		r.inIfc = true // the decode side reads the top level through decodeCDCInterface
		return append([]*node{pre}, r.emit(pv.Elem())...)
	default:
		h := reflect.New(e.iface)
		h.Elem().Set(pv)
		return r.emit(h.Elem())
	}
}

// ---------------------------------------------------------------- serialisation (with one optional alteration)

func header(small, large byte, size uint64) []byte {
	if size < 56 {
		return []byte{small + byte(size)}
	}
	be := minimalBE(size)
	return append([]byte{large + byte(len(be))}, be...)
}

// longHeader writes the long form with exactly sizeLen size bytes (zero-padded on the left), i.e. a
// non-canonical header whenever size < 56 or sizeLen is not minimal.
func longHeader(large byte, size uint64, sizeLen int) []byte {
	be := minimalBE(size)
	for len(be) < sizeLen {
		be = append([]byte{0}, be...)
	}
	return append([]byte{large + byte(len(be))}, be...)
}

func canonStr(content []byte) []byte {
	if len(content) == 1 && content[0] < 0x80 {
		return []byte{content[0]}
	}
	return append(header(0x80, 0xB7, uint64(len(content))), content...)
}

type mutKind int

const (
	mutNone          mutKind = iota
	mutLongForm              // header re-written in a non-canonical form                      -> must be rejected
	mutLeadZero              // 0x00 put in front of a 1..8 byte string                         -> rejected or a different value
	mutInflate               // header claims more bytes than follow, enclosing lists untouched -> must be rejected
	mutInflateDeep           // ... and every enclosing list claims the extra bytes too          -> must be rejected
	mutCutInside             // input ends inside this item                                     -> must be rejected
	mutBombWide              // list payload replaced by n one-byte items
	mutBombDeep              // item replaced by n nested single-element lists
	mutDropKid               // list loses one child
	mutDupKid                // list repeats one child
	mutForeignPrefix         // type prefix replaced by that of another registered type
)

type mutation struct {
	kind    mutKind
	target  *node
	sizeLen int    // mutLongForm: number of size bytes
	claim   uint64 // mutInflate*: claimed size
	n       int    // bombs: count; drop/dup: child index; cut: bytes kept of the item
	item    byte   // mutBombWide: the one-byte item
	prefix  []byte // mutForeignPrefix
}

type serializer struct {
	m   *mutation
	out []byte
}

// write appends the encoding of n and returns how many bytes the enclosing lists must ADD to their
// declared size beyond the bytes actually written (only mutInflateDeep makes that non-zero).
func (s *serializer) write(n *node) (extra uint64) {
	hit := s.m != nil && s.m.target == n
	switch n.kind {
	case nRaw:
		if hit && s.m.kind == mutForeignPrefix {
			s.out = append(s.out, s.m.prefix...)
			return 0
		}
		s.out = append(s.out, n.data...)
		return 0
	case nStr:
		if !hit {
			s.out = append(s.out, canonStr(n.data)...)
			return 0
		}
		switch s.m.kind {
		case mutLongForm:
			if len(n.data) == 1 && n.data[0] < 0x80 && s.m.sizeLen == 0 {
				s.out = append(s.out, 0x81, n.data[0])
			} else {
				s.out = append(s.out, longHeader(0xB7, uint64(len(n.data)), s.m.sizeLen)...)
				s.out = append(s.out, n.data...)
			}
		case mutLeadZero:
			s.out = append(s.out, canonStr(append([]byte{0}, n.data...))...)
		case mutInflate, mutInflateDeep:
			s.out = append(s.out, header(0x80, 0xB7, s.m.claim)...)
			s.out = append(s.out, n.data...)
			if s.m.kind == mutInflateDeep {
				return s.m.claim - uint64(len(n.data))
			}
		case mutBombDeep:
			s.out = append(s.out, deepBomb(s.m.n)...)
		default:
			s.out = append(s.out, canonStr(n.data)...)
		}
		return 0
	}
	// list: children first (into a scratch serializer), then the header
	sub := &serializer{m: s.m}
	var kidsExtra uint64
	kids := n.kids
	if hit {
		switch s.m.kind {
		case mutDropKid:
			if len(kids) > 0 {
				i := s.m.n % len(kids)
				kids = append(append([]*node{}, kids[:i]...), kids[i+1:]...)
			}
		case mutDupKid:
			if len(kids) > 0 {
				i := s.m.n % len(kids)
				kids = append(append(append([]*node{}, kids[:i+1]...), kids[i]), kids[i+1:]...)
			}
		}
	}
	for _, k := range kids {
		kidsExtra += sub.write(k)
	}
	payload := sub.out
	declared := uint64(len(payload)) + kidsExtra
	if hit {
		switch s.m.kind {
		case mutLongForm:
			s.out = append(s.out, longHeader(0xF7, declared, s.m.sizeLen)...)
			s.out = append(s.out, payload...)
			return kidsExtra
		case mutInflate, mutInflateDeep:
			s.out = append(s.out, header(0xC0, 0xF7, s.m.claim)...)
			s.out = append(s.out, payload...)
			if s.m.kind == mutInflateDeep && s.m.claim > uint64(len(payload)) {
				return s.m.claim - uint64(len(payload))
			}
			return 0
		case mutBombWide:
			payload = bytes.Repeat([]byte{s.m.item}, s.m.n)
			s.out = append(s.out, header(0xC0, 0xF7, uint64(len(payload)))...)
			s.out = append(s.out, payload...)
			return 0
		case mutBombDeep:
			s.out = append(s.out, deepBomb(s.m.n)...)
			return 0
		}
	}
	s.out = append(s.out, header(0xC0, 0xF7, declared)...)
	s.out = append(s.out, payload...)
	return kidsExtra
}

// deepBomb: n nested single-element lists around an empty list.
func deepBomb(n int) []byte {
	hdrs := make([][]byte, 0, n)
	inner := 1 // the innermost 0xC0
	for i := 0; i < n; i++ {
		h := header(0xC0, 0xF7, uint64(inner))
		hdrs = append(hdrs, h)
		inner += len(h)
	}
	out := make([]byte, 0, inner)
	for i := len(hdrs) - 1; i >= 0; i-- {
		out = append(out, hdrs[i]...)
	}
	return append(out, 0xC0)
}

// serialize writes the item sequence, applying m (may be nil).
func serialize(seq []*node, m *mutation) []byte {
	if m != nil && m.kind == mutCutInside {
		// two passes: find the byte range of the target in the canonical output, then cut inside it
		lo, hi := locate(seq, m.target)
		full := serialize(seq, nil)
		if hi <= lo {
			return full
		}
		cut := lo + m.n%(hi-lo)
		if cut == 0 && len(full) > 1 {
			cut = 1
		}
		return full[:cut]
	}
	s := &serializer{m: m}
	for _, n := range seq {
		s.write(n)
	}
	return s.out
}

// encLen is the length of the canonical encoding of n.
func encLen(n *node, memo map[*node]int) int {
	if l, ok := memo[n]; ok {
		return l
	}
	var l int
	switch n.kind {
	case nRaw:
		l = len(n.data)
	case nStr:
		l = len(canonStr(n.data))
	default:
		p := 0
		for _, k := range n.kids {
			p += encLen(k, memo)
		}
		l = len(header(0xC0, 0xF7, uint64(p))) + p
	}
	memo[n] = l
	return l
}

// locate returns the byte range [lo,hi) of target in the canonical serialisation of seq.
func locate(seq []*node, target *node) (lo, hi int) {
	memo := map[*node]int{}
	found := false
	var walk func(n *node, base int) int
	walk = func(n *node, base int) int {
		size := encLen(n, memo)
		if n == target {
			lo, hi, found = base, base+size, true
			return size
		}
		if n.kind == nList {
			p := 0
			for _, k := range n.kids {
				p += encLen(k, memo)
			}
			q := base + size - p // first byte after the header
			for _, k := range n.kids {
				if found {
					break
				}
				q += walk(k, q)
			}
		}
		return size
	}
	p := 0
	for _, n := range seq {
		if found {
			break
		}
		p += walk(n, p)
	}
	return
}

// payloadLen is the number of content bytes of an item in the canonical encoding.
func payloadLen(n *node) uint64 {
	if n.kind != nList {
		return uint64(len(n.data))
	}
	p := 0
	memo := map[*node]int{}
	for _, k := range n.kids {
		p += encLen(k, memo)
	}
	return uint64(p)
}

// flatten lists every node in pre-order.
func flatten(seq []*node) []*node {
	var out []*node
	var walk func(n *node)
	walk = func(n *node) {
		out = append(out, n)
		for _, k := range n.kids {
			walk(k)
		}
	}
	for _, n := range seq {
		walk(n)
	}
	return out
}

func (n *node) String() string {
	return fmt.Sprintf("%s/%d", n.what, len(n.data))
}
