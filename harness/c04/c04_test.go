// C04 — a validator key never signs conflicting votes or proposals, even across restarts.
//
// Code under test: types.FilePV (GenFilePV / LoadFilePV / SignVote / SignProposal and, behind them,
// checkHRS / saveSigned / save) and cmn.WriteFileAtomic.  A real FilePV lives in a key directory under
// $VERIF_SCRATCH; the harness sends it histories of signing requests, kills and restarts "the process"
// at chosen points, and keeps a log of everything that was RELEASED (a signature the caller actually
// got hold of).  The oracle is a history invariant over that log plus the content of the key file:
//
//	I1  every released signature verifies (stdlib ed25519) under the validator's public key over the
//	    sign bytes of the vote / proposal exactly as it was handed back (timestamp possibly rewritten);
//	I2  two releases for the same (height, round, step) carry identical sign bytes and the identical
//	    signature (so a timestamp-only re-sign has to come back with the ORIGINAL timestamp);
//	I3  no release for an HRS lower than an earlier released one;
//	I4  persist-before-release: whenever the process could die (checked after every release through an
//	    independent read of the key file, and after every fault action on the reloaded FilePV) the
//	    durable record is >= every released HRS, and if it is equal and carries sign bytes they are the
//	    released ones.
//
// Nothing is demanded of requests that are refused, and nothing of signatures that were computed but
// never reached the caller (crash after persist, before release) — the property is about what leaves
// the signer.
package c04

import (
	"bytes"
	"crypto/ed25519"
	"encoding/hex"
	"encoding/json"
	"fmt"
	"os"
	"path/filepath"
	"strconv"
	"strings"
	"testing"
	"time"

	"github.com/lianxiangcloud/linkchain/libs/common"
	"github.com/lianxiangcloud/linkchain/libs/crypto"
	"github.com/lianxiangcloud/linkchain/libs/log"
	"github.com/lianxiangcloud/linkchain/types"
	"pgregory.net/rapid"

	"verifharness/vstat"
)

const P = "C04"

func TestMain(m *testing.M) {
	log.Root().SetHandler(log.DiscardHandler())
	vstat.Main(m)
}

// ---------------------------------------------------------------- vocabulary

// Steps in the order consensus walks through them inside one round.  The numbers coincide with the
// unexported stepPropose/stepPrevote/stepPrecommit and with "last_step" in the key file.
const (
	kProposal  int8 = 1
	kPrevote   int8 = 2
	kPrecommit int8 = 3
)

var kindName = map[int8]string{kProposal: "proposal", kPrevote: "prevote", kPrecommit: "precommit"}

type hrs struct {
	H uint64
	R int
	S int8
}

func (a hrs) cmp(b hrs) int {
	switch {
	case a.H != b.H:
		if a.H < b.H {
			return -1
		}
		return 1
	case a.R != b.R:
		if a.R < b.R {
			return -1
		}
		return 1
	case a.S != b.S:
		if a.S < b.S {
			return -1
		}
		return 1
	}
	return 0
}

func (a hrs) String() string { return fmt.Sprintf("%d/%d/%d", a.H, a.R, a.S) }

// Fault attached to a request.
const (
	fNone        = ""
	fReloadAfter = "reload_after" // the call completes, the caller gets the signature, then the process restarts
	fDiscard     = "discard"      // crash after persist, before release: the call completes, the result is thrown away, restart
	fCrashOpen   = "crash_open"   // crash before persist: the key directory is away, WriteFileAtomic cannot create its temp file
	fCrashRename = "crash_rename" // crash before persist: temp file fully written, the final rename fails
)

var crashKinds = []string{fReloadAfter, fDiscard, fCrashOpen, fCrashRename}

// Block ids requests choose from.  0 is the nil vote; 3 and 4 differ from 1 only in the part-set total
// resp. only in the part-set hash, so "almost equal" block ids are common.
var (
	hashA     = common.BytesToHash(bytes.Repeat([]byte{0xa1}, 32))
	hashB     = common.BytesToHash(bytes.Repeat([]byte{0xb2}, 32))
	phA       = bytes.Repeat([]byte{0x3a}, 32)
	phB       = bytes.Repeat([]byte{0x3b}, 32)
	phC       = bytes.Repeat([]byte{0x3c}, 32)
	blockPool = []types.BlockID{
		{},
		{Hash: hashA, PartsHeader: types.PartSetHeader{Total: 1, Hash: phA}},
		{Hash: hashB, PartsHeader: types.PartSetHeader{Total: 3, Hash: phB}},
		{Hash: hashA, PartsHeader: types.PartSetHeader{Total: 2, Hash: phA}},
		{Hash: hashA, PartsHeader: types.PartSetHeader{Total: 1, Hash: phC}},
	}
)

// Requests carry time.Now().UTC() in production; here: a fixed instant plus generated offsets.
var baseTime = time.Date(2026, 3, 1, 12, 0, 0, 0, time.UTC)
var tsPool = []int64{0, 1, 999, 1000, 2000, 61000, 86400000}
var nsPool = []int64{0, 0, 0, 1, 999999} // sub-millisecond part: invisible in the canonical (ms) timestamp

// req is one signing request, described so that it is JSON-serialisable and independent of the key.
type req struct {
	Kind  int8   `json:"k"` // kProposal / kPrevote / kPrecommit
	H     uint64 `json:"h"`
	R     int    `json:"r"`
	Block int    `json:"b"`              // votes: blockPool index (0 = nil vote); proposals: parts header of blockPool[Block], >= 1
	POLR  int    `json:"polr,omitempty"` // proposals only; -1 = none
	POLB  int    `json:"polb,omitempty"` // proposals only; blockPool index
	PType byte   `json:"pt,omitempty"`   // proposals only; not part of the sign bytes
	TsMs  int64  `json:"ms"`
	TsNs  int64  `json:"ns,omitempty"`
	VIdx  int    `json:"vi"` // votes only; not part of the sign bytes
	VSize int    `json:"vs"`
	Fault string `json:"f,omitempty"`
	Rekey bool   `json:"rk,omitempty"` // before the request the validator's key is handed to the signer again (UpdatePrikey with the SAME key)
}

func (q req) hrs() hrs { return hrs{q.H, q.R, q.Kind} }
func (q req) ts() time.Time {
	return baseTime.Add(time.Duration(q.TsMs)*time.Millisecond + time.Duration(q.TsNs))
}

// content: what the request asks the key to commit to, without the timestamp (harness view).
func (q req) content() string {
	if q.Kind == kProposal {
		return fmt.Sprintf("P|%d|%d|%d|%d|%d", q.H, q.R, q.Block, q.POLR, q.POLB)
	}
	return fmt.Sprintf("V%d|%d|%d|%d", q.Kind, q.H, q.R, q.Block)
}

// signable is the object handed to the signer, built the way consensus/state.go builds it
// (signVote: address, index, size, height, round, now, type, block id; defaultDecideProposal:
// NewProposal(height, round, parts header, POLInfo()) + Type).
type signable struct {
	vote *types.Vote
	prop *types.Proposal
}

func (q req) build(addr crypto.Address) signable {
	if q.Kind == kProposal {
		p := types.NewProposal(q.H, q.R, blockPool[q.Block].PartsHeader, q.POLR, blockPool[q.POLB])
		p.Timestamp = q.ts()
		p.Type = q.PType
		return signable{prop: p}
	}
	typ := types.VoteTypePrevote
	if q.Kind == kPrecommit {
		typ = types.VoteTypePrecommit
	}
	return signable{vote: &types.Vote{
		ValidatorAddress: addr,
		ValidatorIndex:   q.VIdx,
		ValidatorSize:    q.VSize,
		Height:           q.H,
		Round:            q.R,
		Timestamp:        q.ts(),
		Type:             typ,
		BlockID:          blockPool[q.Block],
	}}
}

func (s signable) signBytes(chain string) []byte {
	if s.prop != nil {
		return s.prop.SignBytes(chain)
	}
	return s.vote.SignBytes(chain)
}

func (s signable) sig() crypto.Signature {
	if s.prop != nil {
		return s.prop.Signature
	}
	return s.vote.Signature
}

func (s signable) timestamp() time.Time {
	if s.prop != nil {
		return s.prop.Timestamp
	}
	return s.vote.Timestamp
}

func (s signable) hrs() hrs {
	if s.prop != nil {
		return hrs{s.prop.Height, s.prop.Round, kProposal}
	}
	if s.vote.Type == types.VoteTypePrecommit {
		return hrs{s.vote.Height, s.vote.Round, kPrecommit}
	}
	return hrs{s.vote.Height, s.vote.Round, kPrevote}
}

// ---------------------------------------------------------------- the signer under observation

type release struct {
	HRS       hrs
	SignBytes []byte
	Sig       crypto.SignatureEd25519
	Op        int
	ViaPanic  bool // became visible in the caller's object although the call died in save()
}

// outcome of one request, as observed.
type outcome struct {
	Completed bool   // the call returned nil with a signature (released or discarded)
	Released  bool   // the caller got hold of a signature
	Refused   bool   // the call returned an error
	Panicked  bool   // the call died
	Restarted bool   // the process was restarted after this request
	TsBack    bool   // the timestamp handed back differs from the requested one
	Class     string // label
}

type scenario struct {
	Chain     string `json:"chain"`
	StartLoad bool   `json:"start_via_load"` // false: use the object GenFilePV returned; true: LoadFilePV right after Save
	Ops       []req  `json:"ops"`
}

type run struct {
	tb     vstat.TB
	sc     scenario
	dir    string // scratch dir of this run
	keyDir string
	path   string
	pv     *types.FilePV
	pub    crypto.PubKeyEd25519
	rel    map[hrs]*release
	maxRel *release
	outs   []outcome
	dead   bool // key file unloadable: a restart is impossible, the run ends
}

func scratchRoot() string {
	if d := os.Getenv("VERIF_SCRATCH"); d != "" {
		return d
	}
	return os.TempDir()
}

func (r *run) must(err error, what string) {
	if err != nil {
		r.tb.Fatalf("harness: %s: %v", what, err)
	}
}

func (r *run) histJSON(upto int) string {
	if upto > len(r.sc.Ops) {
		upto = len(r.sc.Ops)
	}
	b, _ := json.Marshal(scenario{r.sc.Chain, r.sc.StartLoad, r.sc.Ops[:upto]})
	return string(b)
}

// arm / disarm make the next save() fail the way a process death before the durable write would.
func (r *run) arm(f string) {
	switch f {
	case fCrashOpen:
		r.must(os.Rename(r.keyDir, r.keyDir+".away"), "move key dir away")
	case fCrashRename:
		r.must(os.Rename(r.path, r.path+".held"), "hold key file")
		r.must(os.Mkdir(r.path, 0o700), "block rename target")
	}
}

func (r *run) disarm(f string) {
	switch f {
	case fCrashOpen:
		r.must(os.Rename(r.keyDir+".away", r.keyDir), "restore key dir")
	case fCrashRename:
		r.must(os.Remove(r.path), "unblock rename target")
		r.must(os.Rename(r.path+".held", r.path), "restore key file")
	}
}

// diskRecord reads the last-signed record out of the key file without any repo code.
func diskRecord(path string) (hrs, []byte, error) {
	raw, err := os.ReadFile(path)
	if err != nil {
		return hrs{}, nil, err
	}
	var m map[string]json.RawMessage
	if err := json.Unmarshal(raw, &m); err != nil {
		return hrs{}, nil, err
	}
	num := func(k string) (string, error) {
		v, ok := m[k]
		if !ok {
			return "", fmt.Errorf("key file has no %q", k)
		}
		return strings.Trim(string(v), `"`), nil
	}
	var out hrs
	s, err := num("last_height")
	if err != nil {
		return hrs{}, nil, err
	}
	if out.H, err = strconv.ParseUint(s, 10, 64); err != nil {
		return hrs{}, nil, err
	}
	if s, err = num("last_round"); err != nil {
		return hrs{}, nil, err
	}
	rr, err := strconv.ParseInt(s, 10, 64)
	if err != nil {
		return hrs{}, nil, err
	}
	out.R = int(rr)
	if s, err = num("last_step"); err != nil {
		return hrs{}, nil, err
	}
	ss, err := strconv.ParseInt(s, 10, 8)
	if err != nil {
		return hrs{}, nil, err
	}
	out.S = int8(ss)
	var sb []byte
	if v, ok := m["last_signbytes"]; ok {
		if sb, err = hex.DecodeString(strings.Trim(string(v), `"`)); err != nil {
			return hrs{}, nil, err
		}
	}
	return out, sb, nil
}

// checkDurable is I4.
func (r *run) checkDurable(where string, op int, disk hrs, diskSB []byte) {
	if r.maxRel == nil {
		return
	}
	c := disk.cmp(r.maxRel.HRS)
	if c < 0 {
		how := "returned to the caller"
		if r.maxRel.ViaPanic {
			how = "written into the caller's object before save() died"
		}
		vstat.Violation(r.tb, P, "released-before-durable",
			"%s (op %d): durable record is %v but a signature for %v was already %s at op %d; history %s",
			where, op, disk, r.maxRel.HRS, how, r.maxRel.Op, r.histJSON(op+1))
	} else if c == 0 && len(diskSB) > 0 && !bytes.Equal(diskSB, r.maxRel.SignBytes) {
		vstat.Violation(r.tb, P, "durable-record-differs-from-released",
			"%s (op %d): durable record at %v holds sign bytes %s, released were %s; history %s",
			where, op, disk, diskSB, r.maxRel.SignBytes, r.histJSON(op+1))
	}
}

// restart throws the in-memory signer away and loads the key file, like a process start.
func (r *run) restart(where string, op int) {
	raw, err := os.ReadFile(r.path)
	if err == nil {
		// LoadFilePV answers an unreadable file with cmn.Exit (os.Exit after a sleep); run the same
		// decoder first so that an unloadable key file becomes a verdict instead of a dead worker.
		_, err = types.LoadPVFromBytes(raw)
	}
	if err != nil {
		r.dead = true
		vstat.Violation(r.tb, P, "keyfile-unloadable", "%s (op %d): key file cannot be loaded after restart: %v; history %s", where, op, err, r.histJSON(op+1))
		return
	}
	r.pv = types.LoadFilePV(r.path)
	r.checkDurable(where+"/reloaded", op, hrs{r.pv.LastHeight, r.pv.LastRound, r.pv.LastStep}, r.pv.LastSignBytes)
}

// recordRelease applies I1–I3 to a signature the caller got hold of.
func (r *run) recordRelease(op int, obj signable, viaPanic bool) {
	h := obj.hrs()
	sb := obj.signBytes(r.sc.Chain)
	sig, ok := obj.sig().(crypto.SignatureEd25519)
	if !ok || !ed25519.Verify(r.pub[:], sb, sig[:]) {
		vstat.Violation(r.tb, P, "release-unverifiable",
			"op %d: signature handed out for %v does not verify under the validator key over the sign bytes of the returned object %s; history %s",
			op, h, sb, r.histJSON(op+1))
	}
	if r.maxRel != nil && h.cmp(r.maxRel.HRS) < 0 {
		vstat.Violation(r.tb, P, "hrs-regression-released",
			"op %d: signature released for %v after one for %v was released at op %d; history %s",
			op, h, r.maxRel.HRS, r.maxRel.Op, r.histJSON(op+1))
	}
	if prev := r.rel[h]; prev != nil {
		if !bytes.Equal(prev.SignBytes, sb) || prev.Sig != sig {
			vstat.Violation(r.tb, P, "same-hrs-conflicting-release",
				"op %d: second distinct payload released for %v: %s (first, op %d: %s); history %s",
				op, h, sb, prev.Op, prev.SignBytes, r.histJSON(op+1))
		}
	} else {
		r.rel[h] = &release{HRS: h, SignBytes: sb, Sig: sig, Op: op, ViaPanic: viaPanic}
	}
	if r.maxRel == nil || h.cmp(r.maxRel.HRS) > 0 {
		r.maxRel = r.rel[h]
	}
}

func (r *run) step(i int, q req) outcome {
	var o outcome
	if q.Rekey {
		// a key refresh with the key the signer already holds (PrivValidator.UpdatePrikey): it is the same validator key
		// afterwards, so everything it has signed still binds it
		r.pv.UpdatePrikey(r.pv.GetPrikey())
	}
	obj := q.build(r.pv.GetAddress())
	r.arm(q.Fault)
	var err error
	var pan interface{}
	func() {
		// only the call under test runs inside recover(): rapid's Fatalf is itself a panic
		defer func() { pan = recover() }()
		if obj.prop != nil {
			err = r.pv.SignProposal(r.sc.Chain, obj.prop)
		} else {
			err = r.pv.SignVote(r.sc.Chain, obj.vote)
		}
	}()
	r.disarm(q.Fault)

	switch {
	case pan != nil:
		// The process is dead.  Whatever the signer had already written into the caller's object at
		// that moment was handed out before the record was durable.
		o.Panicked, o.Restarted = true, true
		o.Class = "died_in_save"
		if q.Fault != fCrashOpen && q.Fault != fCrashRename {
			// Not a double-sign by itself (the process stops); remembered in the evidence.
			o.Class = "died_without_injected_fault"
			vstat.Note(fmt.Sprintf("signer panicked without an injected fault: %v ; history %s", pan, r.histJSON(i+1)))
		}
		if obj.sig() != nil {
			o.Released = true
			r.recordRelease(i, obj, true)
		}
		r.restart(q.Fault, i)
	case err != nil:
		o.Refused = true
		o.Class = "refused"
		if q.Fault == fReloadAfter || q.Fault == fDiscard {
			o.Restarted = true
			r.restart(q.Fault, i)
		}
	default:
		o.Completed = true
		o.TsBack = !obj.timestamp().Equal(q.ts())
		if q.Fault == fDiscard {
			// crash after persist, before release: nobody ever sees this signature
			o.Class = "completed_discarded"
			o.Restarted = true
			r.restart(q.Fault, i)
			break
		}
		o.Released = true
		o.Class = "released"
		if o.TsBack {
			o.Class = "released_original_timestamp"
		}
		r.recordRelease(i, obj, false)
		// the process may die right now: the key file must already cover the release
		disk, sb, derr := diskRecord(r.path)
		if derr != nil {
			vstat.Violation(r.tb, P, "keyfile-unloadable", "op %d: key file unreadable after a release: %v; history %s", i, derr, r.histJSON(i+1))
		} else {
			r.checkDurable("after release", i, disk, sb)
		}
		if q.Fault == fReloadAfter {
			o.Restarted = true
			r.restart(q.Fault, i)
		}
	}
	return o
}

// execute runs one scenario on a fresh key and returns the outcomes.
func execute(tb vstat.TB, sc scenario) *run {
	r := &run{tb: tb, sc: sc, rel: map[hrs]*release{}}
	dir, err := os.MkdirTemp(scratchRoot(), "c04-")
	r.must(err, "scratch dir")
	r.dir = dir
	defer os.RemoveAll(dir)
	r.keyDir = filepath.Join(dir, "config")
	r.must(os.Mkdir(r.keyDir, 0o700), "key dir")
	r.path = filepath.Join(r.keyDir, "priv_validator.json")
	// The key comes from crypto/rand inside GenFilePV; no verdict, label or fingerprint depends on it
	// (sign bytes do not contain the key or the address).
	r.pv = types.GenFilePV(r.path)
	r.pv.Save()
	pub, ok := r.pv.GetPubKey().(crypto.PubKeyEd25519)
	if !ok {
		tb.Fatalf("harness: validator key is not ed25519")
	}
	r.pub = pub
	if sc.StartLoad {
		r.restart("start", -1)
	}
	for i, q := range sc.Ops {
		if r.dead {
			break
		}
		r.outs = append(r.outs, r.step(i, q))
	}
	return r
}

// ---------------------------------------------------------------- bookkeeping shared by the tests

// conflictAfterFault: is there a request j whose HRS equals that of an earlier request i that was
// signed (released or discarded), with different non-timestamp content, and a restart in between?
// Those are the requests a forgetful signer would double-sign.
func conflictAfterFault(ops []req, outs []outcome) (found bool, refused, released int) {
	for j := range outs {
		for i := 0; i < j; i++ {
			if !outs[i].Completed || ops[i].hrs() != ops[j].hrs() || ops[i].content() == ops[j].content() {
				continue
			}
			restarted := false
			for k := i; k < j; k++ {
				restarted = restarted || outs[k].Restarted
			}
			if !restarted {
				continue
			}
			found = true
			if outs[j].Refused {
				refused++
			} else if outs[j].Released {
				released++
			}
			break
		}
	}
	return
}

func account(tag string, r *run) {
	ops, outs := r.sc.Ops, r.outs
	n := len(outs)
	var top hrs
	for i, o := range outs {
		q := ops[i]
		vstat.Label("req_" + kindName[q.Kind])
		vstat.Label("out_" + o.Class)
		h := q.hrs()
		switch c := h.cmp(top); {
		case i == 0 || c > 0:
			vstat.Label("hrs_forward")
			top = h
		case c == 0:
			vstat.Label("hrs_same_as_highest")
		default:
			vstat.Label("hrs_below_highest")
		}
		if q.Fault != fNone {
			vstat.Label("fault_" + q.Fault)
			if (q.Fault == fCrashOpen || q.Fault == fCrashRename) && !o.Panicked {
				vstat.Label("fault_crash_armed_but_no_save_attempted")
			}
			switch {
			case i == 0:
				vstat.Label("faultpos_first")
			case i == n-1:
				vstat.Label("faultpos_last")
			default:
				vstat.Label(fmt.Sprintf("faultpos_quarter%d", 1+i*4/n))
			}
		}
	}
	found, refused, released := conflictAfterFault(ops, outs)
	if refused > 0 {
		vstat.LabelN("conflict_after_restart_refused", refused)
	}
	if released > 0 {
		// legal only when the earlier signature was never released (discarded) — I2 decides
		vstat.LabelN("conflict_after_restart_released", released)
	}
	if found {
		vstat.Label(tag + "_nontrivial")
		vstat.NonTrivial(tag + "|" + r.histJSON(len(ops)))
		if vstat.WantSample() {
			var cls []string
			for _, o := range outs {
				cls = append(cls, o.Class)
			}
			vstat.Sample(map[string]interface{}{"scenario": r.sc, "outcomes": cls})
		}
	}
}

// ---------------------------------------------------------------- generators

type genCtx struct {
	vsize, vidx int
}

func genStep(t *rapid.T) int8 {
	return rapid.SampledFrom([]int8{kProposal, kPrevote, kPrevote, kPrecommit, kPrecommit}).Draw(t, "step")
}

func genPayload(t *rapid.T, g genCtx, q *req) {
	q.VIdx, q.VSize = g.vidx, g.vsize
	q.POLR, q.POLB, q.PType = 0, 0, 0
	if q.Kind == kProposal {
		q.Block = rapid.IntRange(1, len(blockPool)-1).Draw(t, "parts")
		q.PType = rapid.SampledFrom([]byte{types.ProposalTypeNormal, types.ProposalTypeNormal, types.ProposalTypeRecover}).Draw(t, "ptype")
		q.POLR = -1
		// HeightVoteSet.POLInfo(): (-1, zero) or (r <= round, the block id with +2/3 prevotes, possibly nil)
		if rapid.IntRange(0, 2).Draw(t, "haspol") == 0 {
			q.POLR = rapid.IntRange(0, q.R).Draw(t, "polr")
			q.POLB = rapid.IntRange(0, len(blockPool)-1).Draw(t, "polb")
		}
	} else {
		q.Block = rapid.IntRange(0, len(blockPool)-1).Draw(t, "block")
	}
	q.TsMs = rapid.SampledFrom(tsPool).Draw(t, "ms")
	q.TsNs = rapid.SampledFrom(nsPool).Draw(t, "ns")
}

func otherOf(t *rapid.T, pool []int64, cur int64, label string) int64 {
	var c []int64
	for _, v := range pool {
		if v != cur {
			c = append(c, v)
		}
	}
	return rapid.SampledFrom(c).Draw(t, label)
}

func otherBlock(t *rapid.T, cur, lo int, label string) int {
	var c []int
	for i := lo; i < len(blockPool); i++ {
		if i != cur {
			c = append(c, i)
		}
	}
	return rapid.SampledFrom(c).Draw(t, label)
}

// genReq draws the next request of a history.  It looks only at earlier REQUESTS, never at outcomes,
// so the same history can be re-run with a crash at every position.
func genReq(t *rapid.T, g genCtx, prev []req, top hrs, topIdx int) req {
	mode := "forward"
	if len(prev) > 0 {
		mode = rapid.SampledFrom([]string{"forward", "forward", "forward", "forward", "repeat", "repeat", "repeat", "repeat", "repeat", "regress", "regress"}).Draw(t, "mode")
	}
	var q req
	switch mode {
	case "forward":
		adv := "height"
		if len(prev) > 0 {
			adv = rapid.SampledFrom([]string{"step", "step", "step", "round", "round", "height", "height", "jumpround", "jumpheight"}).Draw(t, "adv")
		}
		if adv == "step" && top.S == kPrecommit {
			adv = "round"
		}
		switch adv {
		case "step":
			q.H, q.R = top.H, top.R
			q.Kind = int8(rapid.IntRange(int(top.S)+1, int(kPrecommit)).Draw(t, "nextstep"))
		case "round":
			q.H, q.R, q.Kind = top.H, top.R+1, genStep(t)
		case "jumpround":
			q.H, q.R, q.Kind = top.H, top.R+rapid.IntRange(2, 40).Draw(t, "dr"), genStep(t)
		case "height":
			q.H, q.R, q.Kind = top.H+1, rapid.SampledFrom([]int{0, 0, 0, 1}).Draw(t, "r0"), genStep(t)
		case "jumpheight":
			q.H, q.R, q.Kind = top.H+uint64(rapid.IntRange(2, 1000).Draw(t, "dh")), rapid.IntRange(0, 2).Draw(t, "r0"), genStep(t)
		}
		genPayload(t, g, &q)
	case "repeat":
		// mostly the request that first reached the highest HRS so far (that is where the durable
		// record usually stands), else the previous or any earlier one
		idx := topIdx
		switch rapid.IntRange(0, 4).Draw(t, "whom") {
		case 3:
			idx = len(prev) - 1
		case 4:
			idx = rapid.IntRange(0, len(prev)-1).Draw(t, "which")
		}
		q = prev[idx]
		q.Fault = fNone
		variant := rapid.SampledFrom([]string{"identical", "ts", "ts", "subms", "block", "block", "block", "block_ts", "pol", "nonsigned"}).Draw(t, "variant")
		if variant == "pol" && q.Kind != kProposal {
			variant = "block"
		}
		switch variant {
		case "ts":
			q.TsMs = otherOf(t, tsPool, q.TsMs, "ms2")
		case "subms":
			q.TsNs = otherOf(t, nsPool, q.TsNs, "ns2")
		case "block", "block_ts":
			lo := 0
			if q.Kind == kProposal {
				lo = 1
			}
			q.Block = otherBlock(t, q.Block, lo, "block2")
			if variant == "block_ts" {
				q.TsMs = otherOf(t, tsPool, q.TsMs, "ms2")
			}
		case "pol":
			if q.POLR < 0 {
				q.POLR = rapid.IntRange(0, q.R).Draw(t, "polr2")
				q.POLB = rapid.IntRange(0, len(blockPool)-1).Draw(t, "polb2")
			} else if rapid.Bool().Draw(t, "polnone") {
				q.POLR, q.POLB = -1, 0
			} else {
				q.POLB = otherBlock(t, q.POLB, 0, "polb2")
			}
		case "nonsigned": // fields outside the sign bytes
			if q.Kind == kProposal {
				q.PType ^= types.ProposalTypeNormal ^ types.ProposalTypeRecover
			} else {
				q.VSize++
				q.VIdx = q.VSize - 1
			}
		}
	case "regress":
		how := rapid.SampledFrom([]string{"step", "round", "height"}).Draw(t, "how")
		if how == "step" && top.S == kProposal {
			how = "round"
		}
		if how == "round" && top.R == 0 {
			how = "height"
		}
		if how == "height" && top.H <= 1 {
			how = "none" // nothing lower exists: fall back to the lowest HRS there is
		}
		switch how {
		case "step":
			q.H, q.R = top.H, top.R
			q.Kind = int8(rapid.IntRange(int(kProposal), int(top.S)-1).Draw(t, "lowstep"))
		case "round":
			q.H, q.R, q.Kind = top.H, rapid.IntRange(0, top.R-1).Draw(t, "lowround"), genStep(t)
		case "height":
			lo := uint64(1)
			if top.H > 3 {
				lo = top.H - 3
			}
			q.H = rapid.Uint64Range(lo, top.H-1).Draw(t, "lowheight")
			q.R, q.Kind = rapid.IntRange(0, top.R+1).Draw(t, "anyround"), genStep(t)
		default:
			q.H, q.R, q.Kind = 1, 0, kProposal
		}
		genPayload(t, g, &q)
	}
	return q
}

func genScenario(t *rapid.T, maxOps int, withFaults bool) scenario {
	sc := scenario{
		Chain:     rapid.SampledFrom([]string{"linkchain", "test-chain-Jx7Q", "c"}).Draw(t, "chain"),
		StartLoad: rapid.Bool().Draw(t, "startload"),
	}
	g := genCtx{vsize: rapid.IntRange(1, 7).Draw(t, "vsize")}
	g.vidx = rapid.IntRange(0, g.vsize-1).Draw(t, "vidx")
	// consensus heights start at 1 (last block height + 1)
	baseH := rapid.SampledFrom([]uint64{1, 1, 2, 1000, 1<<32 + 7, 1 << 40}).Draw(t, "baseh")
	n := rapid.IntRange(1, maxOps).Draw(t, "nops")
	top := hrs{H: baseH - 1}
	topIdx := 0
	for i := 0; i < n; i++ {
		q := genReq(t, g, sc.Ops, top, topIdx)
		if withFaults {
			q.Fault = rapid.SampledFrom([]string{fNone, fNone, fNone, fNone, fNone, fNone, fNone, fReloadAfter, fDiscard, fDiscard, fCrashOpen, fCrashRename}).Draw(t, "fault")
			q.Rekey = rapid.IntRange(0, 5).Draw(t, "rekey") == 0
			if q.Rekey {
				vstat.Label("key_handed_over_again_before_request")
			}
		}
		if i == 0 || q.hrs().cmp(top) > 0 {
			top, topIdx = q.hrs(), i
		}
		sc.Ops = append(sc.Ops, q)
	}
	return sc
}

// ---------------------------------------------------------------- tests

// TestSignerHistory: long histories, faults sampled by the generator.
func TestSignerHistory(t *testing.T) {
	rapid.Check(t, func(t *rapid.T) {
		sc := genScenario(t, 30, true)
		vstat.Eval()
		account("history", execute(t, sc))
	})
}

// probesFor: what a restarted node may ask right after a crash at request q — the same HRS with other
// content (must never become a second payload) and the same content with a later timestamp.
func probesFor(q req) []req {
	c, ts := q, q
	c.Fault, ts.Fault = fNone, fNone
	if c.Kind == kProposal {
		c.Block = c.Block%(len(blockPool)-1) + 1
	} else {
		c.Block = (c.Block + 1) % len(blockPool)
	}
	ts.TsMs += 1000
	return []req{c, ts}
}

// TestCrashPointsExhaustive: a short fault-free history; then, for EVERY position of it and EVERY fault
// kind, the history is re-run on a fresh key with that one fault at that position, followed by the
// probes for that position and the rest of the history.
func TestCrashPointsExhaustive(t *testing.T) {
	rapid.Check(t, func(t *rapid.T) {
		sc := genScenario(t, 6, false)
		vstat.Eval()
		account("baseline", execute(t, sc))
		for pos := range sc.Ops {
			for _, kind := range crashKinds {
				v := scenario{Chain: sc.Chain, StartLoad: sc.StartLoad}
				v.Ops = append(v.Ops, sc.Ops[:pos+1]...)
				v.Ops[pos].Fault = kind
				v.Ops = append(v.Ops, probesFor(sc.Ops[pos])...)
				v.Ops = append(v.Ops, sc.Ops[pos+1:]...)
				vstat.Eval()
				vstat.Label("enumerated_crash_point")
				account("enum", execute(t, v))
			}
		}
		vstat.Label("history_with_all_crash_points_enumerated")
	})
}

// TestSmallScopeExhaustive: every history of two requests over a small alphabet (3 kinds x 3
// height/round pairs x 2 block ids x 2 timestamps = 36 requests) under every assignment of
// {no fault, 4 fault kinds} to the two positions, plus every single request under every fault.
// Deterministic; sharded by history index.
func TestSmallScopeExhaustive(t *testing.T) {
	shard, _ := strconv.Atoi(os.Getenv("VERIF_SHARD"))
	shards, _ := strconv.Atoi(os.Getenv("VERIF_SHARDS"))
	if shards < 1 {
		shards, shard = 1, 0
	}
	var alphabet []req
	for _, k := range []int8{kProposal, kPrevote, kPrecommit} {
		for _, hr := range [][2]int{{1, 0}, {1, 1}, {2, 0}} {
			for b := 0; b < 2; b++ {
				for _, ms := range []int64{0, 1000} {
					q := req{Kind: k, H: uint64(hr[0]), R: hr[1], Block: b, TsMs: ms, VSize: 4, VIdx: 1}
					if k == kProposal {
						q.Block, q.POLR, q.PType = b+1, -1, types.ProposalTypeNormal
					}
					alphabet = append(alphabet, q)
				}
			}
		}
	}
	faults := append([]string{fNone}, crashKinds...)
	n, mine := 0, 0
	runOne := func(ops ...req) {
		n++
		if n%shards != shard {
			return
		}
		mine++
		vstat.Eval()
		account("smallscope", execute(t, scenario{Chain: "linkchain", StartLoad: mine%2 == 0, Ops: ops}))
	}
	for _, a := range alphabet {
		for _, fa := range faults {
			a.Fault = fa
			runOne(a)
			for _, b := range alphabet {
				for _, fb := range faults {
					b.Fault = fb
					runOne(a, b)
				}
			}
		}
	}
	vstat.Label("smallscope_shard_complete")
}
