// C09 — state snapshots revert exactly and state copies are fully independent.
//
// A model-based machine: generated operation sequences run against real StateDB instances (an
// original, copies, copies of copies, and a never-copied twin of the original) and against one
// plain-Go model per instance (model_test.go).  After every step every getter the property lists
// is compared with the model on every live instance.
package c09

import (
	"bytes"
	"fmt"
	"math/big"
	"os"
	"sort"
	"strings"
	"testing"

	"github.com/lianxiangcloud/linkchain/libs/common"
	"github.com/lianxiangcloud/linkchain/libs/crypto"
	dbm "github.com/lianxiangcloud/linkchain/libs/db"
	"github.com/lianxiangcloud/linkchain/libs/log"
	"github.com/lianxiangcloud/linkchain/state"
	"github.com/lianxiangcloud/linkchain/types"
	"pgregory.net/rapid"

	"verifharness/vstat"
)

const P = "C09"

// Root-cause keys of the two genuine findings (see KNOWN_FINDINGS.jsonl).
const (
	// stateObject.deepCopy hands c.data (a struct holding the Tokens MAP) to newObject by value.
	kTokShared = "copy:deepcopy-shares-tokens-map"
	// flat key-value mode: there is one mutable store under all instances; wrappedTrie.TryGet reads it directly.
	kKVCommit = "flat-kv:commit-visible-in-live-copies"
	// flat key-value mode: what Finalise wrote (wrappedTrie.updates) is invisible to TryGet and dropped by CopyTrie
	// until a Commit flushes it, so a state that is used on after IntermediateRoot misreads evicted accounts.
	kKVPending = "flat-kv:finalised-uncommitted-writes-invisible"
)

func TestMain(m *testing.M) {
	log.Root().SetHandler(log.DiscardHandler())
	vstat.Main(m)
}

// ---------------------------------------------------------------- storage under the StateDB

// memDisk is a MemDB playing the disk: its batches copy keys/values (trie.Database.Commit re-uses
// one key buffer for preimages, see harness/c10) and Dir() points into the scratch dir so that the
// flat-KV write-ahead file kvState.wal never lands in the working directory of another world.
type memDisk struct {
	*dbm.MemDB
	dir string
}
type copyBatch struct{ dbm.Batch }

func (d memDisk) Dir() string         { return d.dir }
func (d memDisk) NewBatch() dbm.Batch { return copyBatch{d.MemDB.NewBatch()} }
func (b copyBatch) Set(key, value []byte) {
	b.Batch.Set(common.CopyBytes(key), common.CopyBytes(value))
}
func (b copyBatch) Delete(key []byte) { b.Batch.Delete(common.CopyBytes(key)) }

const (
	modeCaching = 0 // state.NewDatabase: what /repo/state tests and the tools use
	modeWrapTri = 1 // NewKeyValueDBWithCache(isTrie=true): full node (app.go)
	modeFlatKV  = 2 // NewKeyValueDBWithCache(isTrie=false): non-full node
)

type world struct {
	mode   int
	cache  int
	disk   memDisk
	height uint64
}

func (w *world) kv() bool { return w.mode == modeFlatKV }

func (w *world) newDatabase() state.Database {
	switch w.mode {
	case modeCaching:
		return state.NewDatabase(w.disk)
	case modeWrapTri:
		return state.NewKeyValueDBWithCache(w.disk, w.cache, true, w.height)
	default:
		// with cache > 0 the constructor opens <Dir>/kvState.wal and insists that the height saved by the
		// last Commit equals the height passed here
		return state.NewKeyValueDBWithCache(w.disk, w.cache, false, w.height)
	}
}

func newWorld(mode, cache int, tag string) (*world, func()) {
	w := &world{mode: mode, cache: cache}
	cleanup := func() {}
	dir := ""
	if mode == modeFlatKV && cache > 0 {
		base := os.Getenv("VERIF_SCRATCH")
		d, err := os.MkdirTemp(base, "c09-"+tag+"-")
		if err != nil {
			panic(err)
		}
		dir = d
		cleanup = func() { os.RemoveAll(d) }
	}
	w.disk = memDisk{dbm.NewMemDB(), dir}
	return w, cleanup
}

// ---------------------------------------------------------------- instances

type snap struct {
	id      int
	m       *model
	tokOps  int
	suiOps  int
	tokMark int
}

type inst struct {
	name string
	w    *world
	db   state.Database
	s    *state.StateDB
	m    *model
	disk diskStor
	// not restored by RevertToSnapshot:
	snaps     []snap
	sticky    bool         // ripemd was touched since the last Finalise (journal.dirty() is never undone)
	inherited map[int]bool // accounts a copy received as dirty objects: its Finalise skips them, its Commit does not
	thash     common.Hash
	bhash     common.Hash
	txi       int
	depth     int
	dead      bool
	// harness bookkeeping (non-triviality and the known-finding exclusion)
	tokOps     int          // effective non-native token-balance operations not yet reverted
	suiOps     int          // successful suicides not yet reverted
	touched    map[int]bool // accounts named by any operation since this lineage was last (re)opened: superset of "dirty"
	shared     map[int]bool // accounts whose CURRENT object may share its Tokens map with another instance (tracked only while kTokShared is listed)
	everShared map[int]bool // accounts for which some object of this lineage was shared since the last reopen (a revert can bring it back)
	tokWrites  []int        // accounts whose token map was written, in journal order
	watch      map[int]bool // accounts that were dirty with tokens when a copy was taken here
}

func cloneSet(s map[int]bool) map[int]bool {
	c := make(map[int]bool, len(s))
	for k, v := range s {
		if v {
			c[k] = true
		}
	}
	return c
}

// guard runs only the call under test inside recover(); rapid's Fatalf is itself a panic.
func guard(f func()) (pan interface{}) {
	defer func() { pan = recover() }()
	f()
	return nil
}

// ---------------------------------------------------------------- operations

type op struct {
	Kind string `json:"op"`
	I    string `json:"on"`
	A    int    `json:"a,omitempty"`
	T    int    `json:"t,omitempty"`
	K    int    `json:"k,omitempty"`
	Amt  string `json:"amt,omitempty"`
	Val  string `json:"val,omitempty"` // hex
	N    uint64 `json:"n,omitempty"`
	S    int    `json:"s,omitempty"` // snapshot stack position / reopen variant
	Over bool   `json:"over,omitempty"`
}

func (o op) String() string {
	var arg string
	switch o.Kind {
	case "addbal", "subbal", "setbal":
		arg = fmt.Sprintf("a%d,%s", o.A, o.Amt)
	case "addtok", "subtok", "settok":
		arg = fmt.Sprintf("a%d,t%d,%s", o.A, o.T, o.Amt)
	case "nonce", "credits":
		arg = fmt.Sprintf("a%d,%d", o.A, o.N)
	case "code":
		arg = fmt.Sprintf("a%d,code%d", o.A, o.S)
	case "state":
		arg = fmt.Sprintf("a%d,k%d,%s", o.A, o.K, o.Val)
	case "create":
		arg = fmt.Sprintf("a%d,over=%v", o.A, o.Over)
	case "suicide":
		arg = fmt.Sprintf("a%d", o.A)
	case "log":
		arg = fmt.Sprintf("a%d,topics=%d,%s", o.A, o.K, o.Val)
	case "refund", "subrefund":
		arg = fmt.Sprint(o.N)
	case "preimage":
		arg = fmt.Sprintf("k%d", o.K)
	case "prepare":
		arg = fmt.Sprintf("tx%d,%d", o.K, o.S)
	case "revert":
		arg = fmt.Sprintf("#%d", o.S)
	case "commit":
		arg = fmt.Sprintf("reopen%d", o.S)
	}
	return fmt.Sprintf("%s.%s(%s)", o.I, o.Kind, arg)
}

var opKinds = func() []string {
	w := []struct {
		k string
		n int
	}{
		{"addbal", 5}, {"subbal", 3}, {"setbal", 3}, {"addtok", 10}, {"subtok", 5}, {"settok", 5},
		{"nonce", 4}, {"credits", 2}, {"code", 4}, {"state", 8}, {"create", 4}, {"suicide", 5},
		{"log", 4}, {"refund", 3}, {"subrefund", 1}, {"preimage", 1}, {"prepare", 2},
		{"snap", 11}, {"revert", 12}, {"copy", 5}, {"ir", 3}, {"commit", 2},
	}
	var out []string
	for _, e := range w {
		for i := 0; i < e.n; i++ {
			out = append(out, e.k)
		}
	}
	return out
}()

var amounts = []string{"0", "0", "1", "2", "5", "100", "18446744073709551623", "1606938044258990275541962092341162602522202993782792835301376"}

var storVals = [][]byte{nil, {}, {0}, {1}, {0, 1}, {2, 0}, {7, 7, 7}, bytes.Repeat([]byte{0xee}, 40)}

var codes = [][]byte{nil, {}, {0x60}, {0x60, 0x00, 0x60, 0x00, 0xf3}, bytes.Repeat([]byte{0x5b}, 70)}

// genSub picks an amount <= cur: callers check CanTransfer first (vm/evm/evm.go), balances never go negative.
func genSub(t *rapid.T, cur *big.Int) string {
	if cur.Sign() == 0 {
		return "0"
	}
	switch rapid.IntRange(0, 3).Draw(t, "subshape") {
	case 0:
		return "0"
	case 1:
		return "1"
	case 2:
		return cur.String()
	default:
		return new(big.Int).Rsh(cur, 1).String()
	}
}

func genOp(t *rapid.T, x *inst, canCopy bool) op {
	kind := rapid.SampledFrom(opKinds).Draw(t, "kind")
	o := op{Kind: kind, I: x.name}
	a := func() int { return rapid.IntRange(0, len(addrs)-1).Draw(t, "a") }
	switch kind {
	case "addbal", "setbal":
		o.A, o.Amt = a(), rapid.SampledFrom(amounts).Draw(t, "amt")
	case "subbal":
		o.A = a()
		cur := new(big.Int)
		if ac := x.m.accts[o.A]; ac != nil {
			cur = ac.bal
		}
		o.Amt = genSub(t, cur)
	case "addtok", "settok":
		o.A, o.T, o.Amt = a(), rapid.IntRange(0, len(tokens)-1).Draw(t, "tok"), rapid.SampledFrom(amounts).Draw(t, "amt")
	case "subtok":
		o.A, o.T = a(), rapid.IntRange(0, len(tokens)-1).Draw(t, "tok")
		cur := new(big.Int)
		if ac := x.m.accts[o.A]; ac != nil {
			cur = ac.tokenBal(o.T)
		}
		o.Amt = genSub(t, cur)
	case "nonce", "credits":
		o.A, o.N = a(), rapid.SampledFrom([]uint64{0, 0, 1, 2, 7, 1 << 40}).Draw(t, "n")
	case "code":
		o.A, o.S = a(), rapid.IntRange(0, len(codes)-1).Draw(t, "code")
	case "state":
		o.A, o.K = a(), rapid.IntRange(0, len(keys)-1).Draw(t, "key")
		o.Val = fmt.Sprintf("%x", rapid.SampledFrom(storVals).Draw(t, "val"))
		if rapid.IntRange(0, 3).Draw(t, "nilval") == 0 {
			o.Val = "nil"
		}
	case "create":
		// Real callers: evm/wasm Call creates only when !Exist(addr); create() requires nonce 0 and no code at
		// the address and immediately sets nonce 1 (evm.go:595-612, wasm.go, commands/init.go).
		var elig []int
		for i := range addrs {
			ac := x.m.accts[i]
			if ac == nil || (ac.nonce == 0 && len(ac.code) == 0) {
				elig = append(elig, i)
			}
		}
		if len(elig) == 0 {
			o.Kind, o.A, o.N = "nonce", a(), 0
			break
		}
		o.A = rapid.SampledFrom(elig).Draw(t, "ca")
		o.Over = x.m.accts[o.A] != nil
	case "suicide":
		o.A = a()
	case "log":
		o.A, o.K = a(), rapid.IntRange(0, len(keys)).Draw(t, "ntopics")
		o.Val = fmt.Sprintf("%x", rapid.SliceOfN(rapid.Byte(), 0, 3).Draw(t, "data"))
	case "refund":
		o.N = rapid.SampledFrom([]uint64{0, 1, 15000, 1 << 50}).Draw(t, "gas")
	case "subrefund":
		// SubRefund panics below zero; the VM only gives back what it added
		o.N = x.m.refund
		if o.N > 0 && rapid.Bool().Draw(t, "part") {
			o.N = 1
		}
	case "preimage":
		o.K = rapid.IntRange(0, len(keys)-1).Draw(t, "key")
	case "prepare":
		o.K, o.S = rapid.IntRange(0, len(txHashes)-1).Draw(t, "th"), rapid.IntRange(0, 3).Draw(t, "ti")
	case "snap":
	case "revert":
		if len(x.snaps) == 0 {
			o.Kind = "snap"
			break
		}
		// revert to ANY live snapshot: everything above it becomes invalid
		o.S = rapid.IntRange(0, len(x.snaps)-1).Draw(t, "snapidx")
	case "copy":
		if !canCopy {
			o.Kind = "snap"
		}
	case "ir":
	case "commit":
		o.S = rapid.IntRange(0, 2).Draw(t, "reopen")
	}
	return o
}

func unhex(s string) []byte {
	if s == "nil" {
		return nil
	}
	return common.Hex2Bytes(s)
}

// mutates reports the account an operation is aimed at (for the "copy then mutate" rule), or -1.
func (o op) account() int {
	switch o.Kind {
	case "addbal", "subbal", "setbal", "addtok", "subtok", "settok", "nonce", "credits", "code", "state", "create", "suicide":
		return o.A
	}
	return -1
}

// tokenMapWrite: does the operation store into the account's (non-native) Tokens map?
func (o op) tokenMapWrite() bool {
	switch o.Kind {
	case "settok":
		return o.T != 0
	case "addtok", "subtok":
		return o.T != 0 && o.Amt != "0"
	}
	return false
}

// exec applies one non-structural operation to the real instance and to its model.
// It returns a recovered panic of the code under test, or a direct return-value mismatch.
func exec(x *inst, o op, flag bool) (pan interface{}, direct string) {
	s, m := x.s, x.m
	if acc := o.account(); acc >= 0 {
		x.touched[acc] = true
	}
	touch := func(a int, ac *acct) {
		// AddBalance/AddTokenBalance with amount 0 "touch" an empty account (EIP-158)
		if ac.empty() {
			m.dirty[a] = true
			if a == ripemdIdx {
				x.sticky = true
			}
		}
	}
	fresh := func(a int) *acct {
		if m.accts[a] == nil {
			x.shared[a] = false // a brand-new object owns a brand-new Tokens map
		}
		return m.getOrNew(a)
	}
	switch o.Kind {
	case "addbal":
		amt := bigOf(o.Amt)
		pan = guard(func() { s.AddBalance(addrs[o.A], amt) })
		ac := fresh(o.A)
		if amt.Sign() == 0 {
			touch(o.A, ac)
		} else {
			m.setBalance(o.A, ac, new(big.Int).Add(ac.bal, amt))
		}
	case "subbal":
		amt := bigOf(o.Amt)
		pan = guard(func() { s.SubBalance(addrs[o.A], amt) })
		ac := fresh(o.A)
		if amt.Sign() != 0 {
			m.setBalance(o.A, ac, new(big.Int).Sub(ac.bal, amt))
		}
	case "setbal":
		amt := bigOf(o.Amt)
		pan = guard(func() { s.SetBalance(addrs[o.A], amt) })
		m.setBalance(o.A, fresh(o.A), amt)
	case "addtok":
		amt := bigOf(o.Amt)
		pan = guard(func() { s.AddTokenBalance(addrs[o.A], tokens[o.T], amt) })
		ac := fresh(o.A)
		if amt.Sign() == 0 {
			touch(o.A, ac)
		} else {
			m.setTokenBalance(o.A, ac, o.T, new(big.Int).Add(ac.tokenBal(o.T), amt))
		}
	case "subtok":
		amt := bigOf(o.Amt)
		pan = guard(func() { s.SubTokenBalance(addrs[o.A], tokens[o.T], amt) })
		ac := fresh(o.A)
		if amt.Sign() != 0 {
			m.setTokenBalance(o.A, ac, o.T, new(big.Int).Sub(ac.tokenBal(o.T), amt))
		}
	case "settok":
		amt := bigOf(o.Amt)
		pan = guard(func() { s.SetTokenBalance(addrs[o.A], tokens[o.T], amt) })
		m.setTokenBalance(o.A, fresh(o.A), o.T, amt)
	case "nonce":
		pan = guard(func() { s.SetNonce(addrs[o.A], o.N) })
		fresh(o.A).nonce = o.N
		m.dirty[o.A] = true
	case "credits":
		pan = guard(func() { s.SetCredits(addrs[o.A], o.N) })
		fresh(o.A).credits = o.N
		m.dirty[o.A] = true
	case "code":
		code := common.CopyBytes(codes[o.S])
		if codes[o.S] == nil {
			code = nil
		}
		pan = guard(func() { s.SetCode(addrs[o.A], code) })
		fresh(o.A).code = codes[o.S]
		m.dirty[o.A] = true
	case "state":
		val := unhex(o.Val)
		pan = guard(func() { s.SetState(addrs[o.A], keys[o.K], common.CopyBytes(val)) })
		ac := fresh(o.A)
		// stateObject.SetState: writing the value already there is not journalled at all
		if !bytes.Equal(readStor(ac, x.disk, o.A, o.K), val) {
			ac.stor[o.K] = val
			m.dirty[o.A] = true
		}
	case "create":
		pan = guard(func() {
			s.CreateAccount(addrs[o.A])
			if o.Over {
				s.SetNonce(addrs[o.A], 1)
			}
		})
		prev := m.accts[o.A]
		n := newAcct()
		x.shared[o.A] = false
		if prev != nil {
			// the plain balance and (since fix c60f6bc, see C06) the token balances are carried over; nonce, code,
			// storage, credits and the suicide mark are not (resetObjectChange itself dirties nothing; the caller's
			// SetNonce does)
			n.bal = prev.bal
			for k, v := range prev.tok {
				n.tok[k] = new(big.Int).Set(v)
			}
			n.nonce = 1
		}
		m.accts[o.A] = n
		m.dirty[o.A] = true
	case "suicide":
		var got bool
		pan = guard(func() { got = s.Suicide(addrs[o.A]) })
		ac := m.accts[o.A]
		if pan == nil && got != (ac != nil) {
			direct = fmt.Sprintf("Suicide(a%d) returned %v, account exists in model: %v", o.A, got, ac != nil)
		}
		if ac != nil {
			ac.suicided = true
			ac.bal = new(big.Int)
			ac.tok = map[int]*big.Int{}
			m.dirty[o.A] = true
			x.suiOps++
			x.shared[o.A] = false // Suicide installs a new Tokens map in this instance
			x.tokWrites = append(x.tokWrites, o.A)
		}
	case "log":
		topics := append([]common.Hash(nil), keys[:o.K]...)
		data := unhex(o.Val)
		pan = guard(func() {
			s.AddLog(&types.Log{Address: addrs[o.A], Topics: append([]common.Hash(nil), topics...), Data: common.CopyBytes(data), BlockNumber: 7})
		})
		m.logs = append(m.logs, mlog{addr: o.A, topics: topics, data: data, thash: x.thash, bhash: x.bhash, txIndex: uint(x.txi), index: uint(len(m.logs))})
	case "refund":
		pan = guard(func() { s.AddRefund(o.N) })
		m.refund += o.N
	case "subrefund":
		pan = guard(func() { s.SubRefund(o.N) })
		m.refund -= o.N
	case "preimage":
		// journalled (addPreimageChange) but not an observable the property lists: exercised, not asserted
		pan = guard(func() { s.AddPreimage(keys[o.K], []byte{byte(o.K)}) })
	case "prepare":
		// not journalled, not copied by Copy(): context for AddLog only
		x.thash, x.bhash, x.txi = txHashes[o.K], common.HexToHash("b10c"), o.S
		pan = guard(func() { s.Prepare(x.thash, x.bhash, x.txi) })
	case "snap":
		var id int
		pan = guard(func() { id = s.Snapshot() })
		x.snaps = append(x.snaps, snap{id: id, m: m.clone(), tokOps: x.tokOps, suiOps: x.suiOps, tokMark: len(x.tokWrites)})
	case "revert":
		sn := x.snaps[o.S]
		pan = guard(func() { s.RevertToSnapshot(sn.id) })
		x.m = sn.m
		x.snaps = x.snaps[:o.S]
		x.tokOps, x.suiOps = sn.tokOps, sn.suiOps
		x.tokWrites = x.tokWrites[:sn.tokMark]
		for a, v := range x.everShared { // a reverted re-creation brings the older object (and its shared map) back
			if v {
				x.shared[a] = true
			}
		}
	default:
		panic("exec: structural op " + o.Kind)
	}
	if o.tokenMapWrite() {
		x.tokOps++
		x.tokWrites = append(x.tokWrites, o.A)
	}
	return
}

// afterFinalise: model of StateDB.Finalise (and of the deletion rule of Commit, which also covers objects a copy
// inherited as dirty: Finalise walks only the instance's own journal, Commit walks stateObjectsDirty too).
func (x *inst) afterFinalise(flag bool, commit bool) {
	extra := map[int]bool{}
	if x.sticky {
		extra[ripemdIdx] = true
	}
	if commit {
		for a := range x.inherited {
			extra[a] = true
		}
	}
	x.m.finalise(flag, extra)
	x.sticky = false
	x.snaps = nil // clearJournalAndRefund drops validRevisions
	x.tokWrites = nil
}

// ---------------------------------------------------------------- the oracle: every listed getter equals the model

type mismatch struct{ getter, detail string }

func sameBig(a, b *big.Int) bool { return a != nil && b != nil && a.Cmp(b) == 0 }

func check(x *inst) (mm *mismatch, pan interface{}) {
	pan = guard(func() { mm = checkGetters(x) })
	return
}

func checkGetters(x *inst) *mismatch {
	s, m := x.s, x.m
	bad := func(g, f string, args ...interface{}) *mismatch {
		return &mismatch{g, x.name + ": " + fmt.Sprintf(f, args...)}
	}
	for a, ad := range addrs {
		ac := m.accts[a]
		if got := s.Exist(ad); got != (ac != nil) {
			return bad("Exist", "Exist(a%d)=%v, model %v", a, got, ac != nil)
		}
		if got, want := s.Empty(ad), ac == nil || ac.empty(); got != want {
			return bad("Empty", "Empty(a%d)=%v, model %v", a, got, want)
		}
		z := newAcct()
		z.credits = 0
		if ac != nil {
			z = ac
		}
		if got := s.GetBalance(ad); !sameBig(got, z.bal) {
			return bad("GetBalance", "GetBalance(a%d)=%v, model %v", a, got, z.bal)
		}
		if got := s.GetNonce(ad); got != z.nonce {
			return bad("GetNonce", "GetNonce(a%d)=%d, model %d", a, got, z.nonce)
		}
		if got := s.GetCredits(ad); got != z.credits {
			return bad("GetCredits", "GetCredits(a%d)=%d, model %d", a, got, z.credits)
		}
		if got := s.HasSuicided(ad); got != z.suicided {
			return bad("HasSuicided", "HasSuicided(a%d)=%v, model %v", a, got, z.suicided)
		}
		if got := s.GetCode(ad); !bytes.Equal(got, z.code) {
			return bad("GetCode", "GetCode(a%d)=%x, model %x", a, got, z.code)
		}
		if got := s.GetCodeSize(ad); got != len(z.code) {
			return bad("GetCodeSize", "GetCodeSize(a%d)=%d, model %d", a, got, len(z.code))
		}
		wantHash := common.EmptyHash
		if ac != nil {
			wantHash = crypto.Keccak256Hash(z.code)
		}
		if got := s.GetCodeHash(ad); got != wantHash {
			return bad("GetCodeHash", "GetCodeHash(a%d)=%x, model %x", a, got, wantHash)
		}
		want := map[int]*big.Int{}
		for ti, tk := range tokens {
			w := z.tokenBal(ti)
			if got := s.GetTokenBalance(ad, tk); !sameBig(got, w) {
				return bad("GetTokenBalance", "GetTokenBalance(a%d,t%d)=%v, model %v", a, ti, got, w)
			}
			if w.Sign() > 0 {
				want[ti] = w
			}
		}
		tvs := s.GetTokenBalances(ad)
		if len(tvs) != len(want) {
			return bad("GetTokenBalances", "GetTokenBalances(a%d)=%v, model %v", a, tvs, want)
		}
		for _, tv := range tvs {
			ti := -1
			for i, tk := range tokens {
				if tk == tv.TokenAddr {
					ti = i
				}
			}
			if ti < 0 || want[ti] == nil || !sameBig(tv.Value, want[ti]) {
				return bad("GetTokenBalances", "GetTokenBalances(a%d)=%v, model %v", a, tvs, want)
			}
		}
		for k, kh := range keys {
			w := readStor(ac, x.disk, a, k)
			if got := s.GetState(ad, kh); !bytes.Equal(got, w) {
				return bad("GetState", "GetState(a%d,k%d)=%x, model %x", a, k, got, w)
			}
		}
	}
	if got := s.GetRefund(); got != m.refund {
		return bad("GetRefund", "GetRefund()=%d, model %d", got, m.refund)
	}
	logs := append([]*types.Log(nil), s.Logs()...) // Logs() concatenates a map: order by the global index
	sort.SliceStable(logs, func(i, j int) bool { return logs[i].Index < logs[j].Index })
	if len(logs) != len(m.logs) {
		return bad("Logs", "Logs() has %d entries, model %d", len(logs), len(m.logs))
	}
	sameLog := func(l *types.Log, w mlog) bool {
		if l.Address != addrs[w.addr] || !bytes.Equal(l.Data, w.data) || l.TxHash != w.thash || l.BlockHash != w.bhash ||
			l.TxIndex != w.txIndex || l.Index != w.index || len(l.Topics) != len(w.topics) {
			return false
		}
		for i := range l.Topics {
			if l.Topics[i] != w.topics[i] {
				return false
			}
		}
		return true
	}
	for i, l := range logs {
		if !sameLog(l, m.logs[i]) {
			return bad("Logs", "Logs()[%d]=%v, model %+v", i, l, m.logs[i])
		}
	}
	for _, th := range txHashes {
		var want []mlog
		for _, w := range m.logs {
			if w.thash == th {
				want = append(want, w)
			}
		}
		got := s.GetLogs(th)
		if len(got) != len(want) {
			return bad("Logs", "GetLogs(%x) has %d entries, model %d", th[31:], len(got), len(want))
		}
		for i := range got {
			if !sameLog(got[i], want[i]) {
				return bad("Logs", "GetLogs(%x)[%d]=%v, model %+v", th[31:], i, got[i], want[i])
			}
		}
	}
	return nil
}

// ---------------------------------------------------------------- the machine

type machine struct {
	t       *rapid.T
	mode    int
	flag    bool // deleteEmptyObjects: one value per history, as every caller uses one value (app.go always false)
	insts   []*inst
	twin    *inst // same operations as insts[0], own disk, never copied
	hist    []string
	nCopies int

	knownTok, knownKV, knownKVPending bool

	// classification
	maxDepth, maxNest, reverts, commits, irs int
	ntRevertTok, ntRevertSui, ntCopyMut      bool
	abandoned                                bool
}

func (mc *machine) live() []*inst {
	var out []*inst
	for _, x := range mc.insts {
		if !x.dead {
			out = append(out, x)
		}
	}
	return out
}

func (mc *machine) violation(key, f string, args ...interface{}) {
	mc.abandoned = true // a listed finding: counted; the model is out of sync from here on
	vstat.Violation(mc.t, P, key, "%s ; history: %s", fmt.Sprintf(f, args...), strings.Join(mc.hist, " "))
}

// verify compares every live instance (and the twin) with its model after `o` ran on `actor`.
func (mc *machine) verify(o op, actor *inst, born *inst) bool {
	all := mc.live()
	if mc.twin != nil && !mc.twin.dead {
		all = append(all, mc.twin)
	}
	for _, y := range all {
		mm, pan := check(y)
		if pan != nil {
			mc.violation("panic:getter", "getter panicked on %s after %v: %v", y.name, o, pan)
			return false
		}
		if mm == nil {
			continue
		}
		var key string
		switch {
		case y == born:
			key = "copy-differs-from-source:" + mm.getter
		case y == actor || (y == mc.twin && actor == mc.insts[0]):
			switch o.Kind {
			case "revert":
				key = "revert-inexact:" + mm.getter
			case "commit":
				key = "commit-reopen:" + mm.getter
			default:
				key = "op:" + o.Kind + ":" + mm.getter
			}
		case o.Kind == "commit" && mc.mode == modeFlatKV:
			key = kKVCommit
		case mm.getter == "GetTokenBalance" || mm.getter == "GetTokenBalances":
			// the only token state two instances can have in common is the map deepCopy forgot to copy
			key = kTokShared
		default:
			key = "copy-not-independent:" + mm.getter
		}
		mc.violation(key, "after %v: %s", o, mm.detail)
		return false
	}
	return true
}

func (mc *machine) open(w *world, name string) *inst {
	db := w.newDatabase()
	s, err := state.New(common.EmptyHash, db)
	if err != nil {
		mc.t.Fatalf("state.New: %v", err)
	}
	return &inst{name: name, w: w, db: db, s: s, m: newModel(), disk: diskStor{}, inherited: map[int]bool{},
		touched: map[int]bool{}, shared: map[int]bool{}, everShared: map[int]bool{}, watch: map[int]bool{}}
}

// excluded: while kTokShared is a listed (unrepaired) finding, leave out exactly the operations that would store
// into a Tokens map two instances may share; everything else keeps running behind the finding.
func (mc *machine) excluded(x *inst, o op) bool {
	if !mc.knownTok {
		return false
	}
	if o.tokenMapWrite() && x.shared[o.A] {
		return true
	}
	if o.Kind == "revert" {
		// undoing a token write stores the old value into whatever object was current when it was made
		for _, a := range x.tokWrites[x.snaps[o.S].tokMark:] {
			if x.shared[a] || x.everShared[a] {
				return true
			}
		}
	}
	return false
}

func (mc *machine) doCopy(x *inst, o op) *inst {
	var c *state.StateDB
	if pan := guard(func() { c = x.s.Copy() }); pan != nil {
		mc.violation("panic:copy", "Copy panicked: %v", pan)
		return nil
	}
	mc.nCopies++
	y := &inst{name: fmt.Sprintf("%s.c%d", x.name, mc.nCopies), w: x.w, db: x.db, s: c, m: x.m.clone(), disk: x.disk,
		depth: x.depth + 1, inherited: map[int]bool{}, touched: cloneSet(x.touched), shared: map[int]bool{}, everShared: map[int]bool{}, watch: map[int]bool{}}
	// the copy's journal is empty: what the source had dirty (own journal or inherited) arrives as "inherited"
	for a := range x.m.dirty {
		y.inherited[a] = true
	}
	for a := range x.inherited {
		y.inherited[a] = true
	}
	if x.sticky {
		y.inherited[ripemdIdx] = true
	}
	y.m.dirty = map[int]bool{}
	for a := range y.inherited {
		if ac := x.m.accts[a]; ac != nil && ac.hasTokens() {
			x.watch[a], y.watch[a] = true, true
		}
	}
	if mc.knownTok {
		for a := range x.touched { // superset of the objects deepCopy duplicates
			x.shared[a], y.shared[a] = true, true
			x.everShared[a], y.everShared[a] = true, true
		}
	}
	if y.depth > mc.maxDepth {
		mc.maxDepth = y.depth
	}
	mc.insts = append(mc.insts, y)
	return y
}

// doCommit: Commit + flush + reopen at the returned root (what CommitBlock does: Commit, TrieDB().Commit, Reset).
func (mc *machine) doCommit(x *inst, o op) (root common.Hash, ok bool) {
	w := x.w
	w.height++
	var err error
	if pan := guard(func() { root, err = x.s.Commit(mc.flag, w.height) }); pan != nil {
		mc.violation("panic:commit", "Commit panicked: %v", pan)
		return root, false
	}
	if err != nil {
		mc.violation("commit-error", "Commit: %v", err)
		return root, false
	}
	x.afterFinalise(mc.flag, true)
	if !w.kv() {
		if err := x.s.Database().TrieDB().Commit(root, false); err != nil {
			mc.violation("commit-error", "TrieDB().Commit(%x): %v", root, err)
			return root, false
		}
	}
	switch o.S {
	case 0: // app.go: Reset on the same object
		err = x.s.Reset(root)
	case 1: // a new StateDB over the same caching database
		x.s, err = state.New(root, x.db)
	default: // a new database object over the same disk (node restart)
		x.db = w.newDatabase()
		x.s, err = state.New(root, x.db)
	}
	if err != nil {
		mc.violation("reopen-failed", "reopen at %x (variant %d): %v", root, o.S, err)
		return root, false
	}
	// what a freshly opened state knows: no logs, no tx context, nothing dirty
	m := x.m
	m.logs, x.thash, x.bhash, x.txi = nil, common.EmptyHash, common.EmptyHash, 0
	x.inherited, x.touched, x.shared, x.watch = map[int]bool{}, map[int]bool{}, map[int]bool{}, map[int]bool{}
	x.everShared = map[int]bool{}
	if w.kv() {
		nd := x.disk.clone()
		for a, ac := range m.accts {
			for k, v := range ac.stor {
				if nd[a] == nil {
					nd[a] = map[int][]byte{}
				}
				nd[a][k] = trimmed(v)
			}
			ac.stor = map[int][]byte{}
		}
		x.disk = nd
		// one mutable store under every instance: whoever else is alive now reads the committed data
		if mc.knownKV {
			for _, y := range mc.live() {
				if y != x && y.w == w {
					y.dead = true
					vstat.Excluded(kKVCommit)
				}
			}
			if mc.insts[0].dead && mc.twin != nil {
				mc.twin.dead = true
			}
		}
	} else {
		for _, ac := range m.accts {
			for k, v := range ac.stor {
				if tv := trimmed(v); len(tv) == 0 {
					delete(ac.stor, k)
				} else {
					ac.stor[k] = tv
				}
			}
		}
	}
	mc.commits++
	return root, true
}

func runMachine(t *rapid.T, mode int) {
	vstat.Eval()
	mc := &machine{t: t, mode: mode}
	mc.knownTok, mc.knownKV = vstat.IsKnown(P, kTokShared), vstat.IsKnown(P, kKVCommit)
	mc.knownKVPending = vstat.IsKnown(P, kKVPending)
	mc.flag = rapid.IntRange(0, 4).Draw(t, "deleteEmpty") < 2
	cache := 0
	if mode != modeCaching && rapid.IntRange(0, 5).Draw(t, "cache") == 0 {
		cache = 128
	}
	w1, c1 := newWorld(mode, cache, "o")
	defer c1()
	w2, c2 := newWorld(mode, cache, "t")
	defer c2()
	mc.insts = []*inst{mc.open(w1, "o")}
	mc.twin = mc.open(w2, "twin")

	// applyBoth runs a non-structural op on x and, if x is the original, on the twin.
	applyBoth := func(x *inst, o op) bool {
		targets := []*inst{x}
		if x == mc.insts[0] && !mc.twin.dead {
			targets = append(targets, mc.twin)
		}
		for _, y := range targets {
			pan, direct := exec(y, o, mc.flag)
			if pan != nil {
				mc.violation("panic:"+o.Kind, "%v panicked on %s: %v", o, y.name, pan)
				return false
			}
			if direct != "" {
				mc.violation("op:"+o.Kind+":return", "%s", direct)
				return false
			}
		}
		return true
	}
	// irBoth: IntermediateRoot on x; on the original also on the twin, whose root must be the same.
	irBoth := func(x *inst, o op) bool {
		var rx, rt common.Hash
		if pan := guard(func() { rx = x.s.IntermediateRoot(mc.flag) }); pan != nil {
			mc.violation("panic:ir", "IntermediateRoot panicked on %s: %v", x.name, pan)
			return false
		}
		x.afterFinalise(mc.flag, false)
		mc.irs++
		if x == mc.insts[0] && !mc.twin.dead {
			if pan := guard(func() { rt = mc.twin.s.IntermediateRoot(mc.flag) }); pan != nil {
				mc.violation("panic:ir", "IntermediateRoot panicked on twin: %v", pan)
				return false
			}
			mc.twin.afterFinalise(mc.flag, false)
			if rx != rt {
				mc.violation("twin-root-diverged", "after %v IntermediateRoot(original)=%x but the never-copied twin has %x (%d copies were taken)", o, rx, rt, mc.nCopies)
				return false
			}
			if mc.nCopies > 0 {
				vstat.Label("twin_root_compared_after_copies")
			}
		}
		return true
	}
	commitBoth := func(x *inst, o op) bool {
		wasOrig := x == mc.insts[0] && !mc.twin.dead
		rx, ok := mc.doCommit(x, o)
		if !ok {
			return false
		}
		if wasOrig {
			rt, ok := mc.doCommit(mc.twin, o)
			if !ok {
				return false
			}
			if rx != rt {
				mc.violation("twin-root-diverged", "after %v Commit(original)=%x but the never-copied twin has %x", o, rx, rt)
				return false
			}
		}
		return true
	}

	// rapid skews integers towards the lower bound (45% of plain 1..60 draws are below 10): most histories get a
	// floor of 20 operations, and the generator still shrinks to the short shape
	n := rapid.IntRange(1, 60).Draw(t, "nops")
	if rapid.IntRange(0, 3).Draw(t, "long") != 0 {
		n = max(n, rapid.IntRange(20, 60).Draw(t, "nops_long"))
	}
	for i := 0; i < n && !mc.abandoned; i++ {
		lv := mc.live()
		if len(lv) == 0 {
			break
		}
		x := lv[0]
		if len(lv) > 1 && rapid.IntRange(0, 9).Draw(t, "who") >= 4 {
			x = rapid.SampledFrom(lv).Draw(t, "inst")
		}
		o := genOp(t, x, len(lv) < 5)
		if mc.excluded(x, o) {
			vstat.Excluded(kTokShared)
			continue
		}
		mc.hist = append(mc.hist, o.String())
		if acc := o.account(); acc >= 0 && x.watch[acc] {
			mc.ntCopyMut = true
		}
		var born *inst
		ok := true
		switch o.Kind {
		case "copy":
			born = mc.doCopy(x, o)
			ok = born != nil
		case "ir": // in flat-KV histories "ir" therefore reads: IntermediateRoot, Commit, reopen
			ok = irBoth(x, o)
			// flat-KV reads go to the disk and ignore pending (finalised, uncommitted) writes (kKVPending); the
			// application never touches a state between IntermediateRoot and Commit, and while that finding is
			// listed neither does this generator
			if ok && x.w.kv() && mc.knownKVPending {
				// What the listed finding does not forbid is to LOOK at the finalised state through a copy: Copy duplicates
				// every object the source has touched, so right after the intermediate root a copy must read like its source
				// (GetPendingStateDB hands such copies out).  The copy is compared once and dropped.
				if rapid.IntRange(0, 2).Draw(t, "copy_after_kv_ir") == 0 {
					if y := mc.doCopy(x, o); y != nil {
						mc.hist = append(mc.hist, fmt.Sprintf("(%s = copy of %s after its intermediate root, compared and dropped)", y.name, x.name))
						vstat.Label("kv_copy_compared_after_intermediate_root")
						if !mc.verify(o, x, y) {
							return
						}
						y.dead = true
					}
				}
				if x != mc.insts[0] && len(mc.live()) > 1 && rapid.Bool().Draw(t, "abandon_after_ir") {
					// ... or the instance is a speculative one that is dropped right here (PreRunBlock / CheckBlock of a proposal
					// that is never committed): it is not used again, so the listed finding is not touched, but what it has
					// finalised must die with it
					x.dead = true
					mc.hist = append(mc.hist, fmt.Sprintf("(%s is abandoned after its intermediate root)", x.name))
					vstat.Label("kv_instance_abandoned_after_intermediate_root")
				} else {
					vstat.Excluded(kKVPending)
					o.Kind, o.S = "commit", 0
					ok = commitBoth(x, o)
				}
			}
		case "commit":
			ok = commitBoth(x, o)
		case "revert":
			dTok, dSui := x.tokOps-x.snaps[o.S].tokOps, x.suiOps-x.snaps[o.S].suiOps
			ok = applyBoth(x, o)
			mc.reverts++
			if dTok > 0 {
				mc.ntRevertTok = true
			}
			if dSui > 0 {
				mc.ntRevertSui = true
			}
		default:
			ok = applyBoth(x, o)
			if len(x.snaps) > mc.maxNest {
				mc.maxNest = len(x.snaps)
			}
		}
		if !ok || mc.abandoned {
			return
		}
		if !mc.verify(o, x, born) {
			return
		}
	}
	if mc.abandoned {
		return
	}
	// closing comparison: whatever happened on the copies, the original still hashes like its twin
	midIRs := mc.irs
	if !mc.insts[0].dead && !mc.twin.dead {
		o := op{Kind: "ir", I: "o"}
		if !irBoth(mc.insts[0], o) || !mc.verify(o, mc.insts[0], nil) {
			return
		}
	}

	// ---- classification
	vstat.Label(fmt.Sprintf("mode_%d", mode))
	vstat.Label(fmt.Sprintf("ops_%02d+", len(mc.hist)/10*10))
	vstat.Label(fmt.Sprintf("deleteEmpty_%v", mc.flag))
	vstat.Label(fmt.Sprintf("copy_depth_%d", min(mc.maxDepth, 3)))
	vstat.Label(fmt.Sprintf("snapshot_nesting_%d", min(mc.maxNest, 4)))
	vstat.Label(fmt.Sprintf("reverts_%d", min(mc.reverts, 3)))
	if mc.commits > 0 {
		vstat.Label("has_commit_reopen")
	}
	if midIRs > 0 {
		vstat.Label("has_intermediate_root")
	}
	if mc.ntRevertTok {
		vstat.Label("revert_undoes_token_op")
	}
	if mc.ntRevertSui {
		vstat.Label("revert_undoes_suicide")
	}
	if mc.ntCopyMut {
		vstat.Label("copy_of_dirty_token_account_then_mutated")
	}
	if cache > 0 && mode == modeFlatKV {
		vstat.Label("kv_cache_wal")
	}
	if mc.ntRevertTok || mc.ntRevertSui || mc.ntCopyMut {
		vstat.NonTrivial(fmt.Sprintf("%d|%v|%s", mode, mc.flag, strings.Join(mc.hist, ";")))
		if vstat.WantSample() {
			vstat.Sample(map[string]interface{}{"mode": mode, "deleteEmpty": mc.flag, "history": mc.hist, "instances": len(mc.insts)})
		}
	}
}

func TestStateTrie(t *testing.T) {
	rapid.Check(t, func(t *rapid.T) {
		runMachine(t, rapid.SampledFrom([]int{modeCaching, modeWrapTri}).Draw(t, "mode"))
	})
}

func TestStateFlatKV(t *testing.T) {
	rapid.Check(t, func(t *rapid.T) { runMachine(t, modeFlatKV) })
}

// ---------------------------------------------------------------- deterministic regressions of the listed findings

func freshState(t *testing.T, mode int) *state.StateDB {
	w, cleanup := newWorld(mode, 0, "reg")
	t.Cleanup(cleanup)
	s, err := state.New(common.EmptyHash, w.newDatabase())
	if err != nil {
		t.Fatalf("state.New: %v", err)
	}
	return s
}

// TestRegressionTokensMapShared keeps kTokShared observed: a copy and its source share the Tokens map of every
// account that was dirty when the copy was taken.
func TestRegressionTokensMapShared(t *testing.T) {
	a, tk := addrs[2], tokens[2]
	for mode := modeCaching; mode <= modeFlatKV; mode++ {
		// (1) a write on the copy shows in the original
		vstat.Eval()
		s := freshState(t, mode)
		s.AddTokenBalance(a, tk, big.NewInt(100))
		c := s.Copy()
		c.AddTokenBalance(a, tk, big.NewInt(5))
		vstat.NonTrivial(fmt.Sprintf("regression-tokens-copy-write-%d", mode))
		if got := s.GetTokenBalance(a, tk); got.Cmp(big.NewInt(100)) != 0 {
			vstat.Violation(t, P, kTokShared, "mode %d: AddTokenBalance(a,T,100); c:=Copy(); c.AddTokenBalance(a,T,5): original reads %v, want 100", mode, got)
		}
		// (2) a revert on the original shows in the copy
		vstat.Eval()
		s = freshState(t, mode)
		s.AddTokenBalance(a, tk, big.NewInt(100))
		id := s.Snapshot()
		s.AddTokenBalance(a, tk, big.NewInt(7))
		c = s.Copy()
		s.RevertToSnapshot(id)
		vstat.NonTrivial(fmt.Sprintf("regression-tokens-source-revert-%d", mode))
		if got := c.GetTokenBalance(a, tk); got.Cmp(big.NewInt(107)) != 0 {
			vstat.Violation(t, P, kTokShared, "mode %d: AddTokenBalance(a,T,100); Snapshot; AddTokenBalance(a,T,7); c:=Copy(); RevertToSnapshot: copy reads %v, want 107", mode, got)
		}
	}
}

// TestRegressionFlatKVCommitLeak keeps kKVCommit observed: in flat key-value mode a Commit on one instance is
// readable through every other live instance.
func TestRegressionFlatKVCommitLeak(t *testing.T) {
	vstat.Eval()
	s := freshState(t, modeFlatKV)
	b := addrs[3]
	c := s.Copy()
	s.SetBalance(b, big.NewInt(5))
	if _, err := s.Commit(false, 1); err != nil {
		t.Fatalf("Commit: %v", err)
	}
	vstat.NonTrivial("regression-flatkv-commit-leak")
	if got := c.GetBalance(b); got.Sign() != 0 {
		vstat.Violation(t, P, kKVCommit, "flat-KV: c:=s.Copy(); s.SetBalance(b,5); s.Commit(false,1): the copy reads balance %v, want 0", got)
	}
	// the same history on a trie-backed state is independent
	vstat.Eval()
	s = freshState(t, modeWrapTri)
	c = s.Copy()
	s.SetBalance(b, big.NewInt(5))
	if _, err := s.Commit(false, 1); err != nil {
		t.Fatalf("Commit: %v", err)
	}
	if got := c.GetBalance(b); got.Sign() != 0 {
		vstat.Violation(t, P, "copy-not-independent:GetBalance", "trie mode: the copy reads balance %v after the original committed, want 0", got)
	}
}

// TestRegressionFlatKVPendingWrites keeps kKVPending observed: in flat key-value mode a snapshot/revert pair that
// evicts an account object after a mid-block IntermediateRoot brings back the account's last COMMITTED record.
func TestRegressionFlatKVPendingWrites(t *testing.T) {
	vstat.Eval()
	a := addrs[2]
	s := freshState(t, modeFlatKV)
	s.AddBalance(a, big.NewInt(5))
	if _, err := s.Commit(false, 1); err != nil {
		t.Fatalf("Commit: %v", err)
	}
	s.Reset(common.EmptyHash)
	s.Suicide(a)
	s.IntermediateRoot(false) // the account is deleted; the deletion waits in wrappedTrie.updates
	existed := s.Exist(a)
	id := s.Snapshot()
	s.AddBalance(a, big.NewInt(1)) // createObject: journalled as createObjectChange
	s.RevertToSnapshot(id)         // evicts the object: the next read goes to the disk, which still has balance 5
	vstat.NonTrivial("regression-flatkv-pending-writes")
	if got := s.Exist(a); got != existed {
		vstat.Violation(t, P, kKVPending, "flat-KV: AddBalance(a,5); Commit; Suicide(a); IntermediateRoot; Snapshot; AddBalance(a,1); RevertToSnapshot: Exist(a)=%v balance %v, at the snapshot Exist(a)=%v", got, s.GetBalance(a), existed)
	}
}
