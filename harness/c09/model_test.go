package c09

// The reference model: plain Go maps, one model per StateDB instance, deep-copied for snapshots
// and for Copy().  It never looks at the code under test.

import (
	"bytes"
	"math/big"
	"sort"

	"github.com/lianxiangcloud/linkchain/libs/common"
	"github.com/lianxiangcloud/linkchain/libs/crypto"
)

// ---------------------------------------------------------------- universe (small: collisions are the point)

const ripemdIdx = 1

var addrs = []common.Address{
	common.EmptyAddress, // the zero address is an ordinary account (and the native-token id)
	common.HexToAddress("0000000000000000000000000000000000000003"), // the one address journal.go special-cases ("ripemd")
	common.HexToAddress("a1a1a1a1a1a1a1a1a1a1a1a1a1a1a1a1a1a1a1a1"),
	common.HexToAddress("b2b2b2b2b2b2b2b2b2b2b2b2b2b2b2b2b2b2b2b2"),
}

// tokens[0] is the native token (SetTokenBalance redirects it to the plain balance); tokens[1] is also an account.
var tokens = []common.Address{
	common.EmptyAddress,
	common.HexToAddress("a1a1a1a1a1a1a1a1a1a1a1a1a1a1a1a1a1a1a1a1"),
	common.HexToAddress("7100000000000000000000000000000000000071"),
}

var keys = []common.Hash{
	common.EmptyHash,
	common.HexToHash("01"),
	crypto.Keccak256Hash([]byte("k2")),
}

var txHashes = []common.Hash{common.EmptyHash, common.HexToHash("aa"), common.HexToHash("bb")}

func bigOf(s string) *big.Int {
	b, ok := new(big.Int).SetString(s, 10)
	if !ok {
		panic("bad amount " + s)
	}
	return b
}

// ---------------------------------------------------------------- model

type acct struct {
	nonce    uint64
	credits  uint64
	bal      *big.Int         // never mutated in place
	tok      map[int]*big.Int // non-native tokens only; absent == 0
	code     []byte
	stor     map[int][]byte // values written/kept by this account object (overlay over the flat-KV disk layer)
	suicided bool
}

func newAcct() *acct {
	// state.createObject: Account{Credits: 1}
	return &acct{credits: 1, bal: new(big.Int), tok: map[int]*big.Int{}, stor: map[int][]byte{}}
}

func (a *acct) clone() *acct {
	c := *a
	c.tok = make(map[int]*big.Int, len(a.tok))
	for k, v := range a.tok {
		c.tok[k] = v
	}
	c.stor = make(map[int][]byte, len(a.stor))
	for k, v := range a.stor {
		c.stor[k] = v
	}
	return &c
}

// empty is stateObject.empty(): tokens, credits and storage do not count.
func (a *acct) empty() bool { return a.nonce == 0 && a.bal.Sign() == 0 && len(a.code) == 0 }

func (a *acct) hasTokens() bool {
	for _, v := range a.tok {
		if v.Sign() > 0 {
			return true
		}
	}
	return false
}

func (a *acct) tokenBal(t int) *big.Int {
	if t == 0 {
		return a.bal
	}
	if v, ok := a.tok[t]; ok {
		return v
	}
	return new(big.Int)
}

type mlog struct {
	addr    int
	topics  []common.Hash
	data    []byte
	thash   common.Hash
	bhash   common.Hash
	txIndex uint
	index   uint
}

// model is the part of an instance's state that Snapshot/RevertToSnapshot must restore exactly.
type model struct {
	accts  map[int]*acct
	dirty  map[int]bool // accounts with >= 1 journalled change since the last Finalise (decides EIP-158 deletion)
	logs   []mlog
	refund uint64
}

func newModel() *model { return &model{accts: map[int]*acct{}, dirty: map[int]bool{}} }

func (m *model) clone() *model {
	c := &model{accts: make(map[int]*acct, len(m.accts)), dirty: make(map[int]bool, len(m.dirty)), refund: m.refund}
	for k, v := range m.accts {
		c.accts[k] = v.clone()
	}
	for k := range m.dirty {
		c.dirty[k] = true
	}
	c.logs = append([]mlog(nil), m.logs...)
	return c
}

// diskStor is the flat-KV storage layer: storage slots written by a Commit stay readable under
// (address, key) whatever happens to the account afterwards (keyvalue.go keeps them under
// addrHash||keyHash and nothing ever deletes them with the account).  Always empty in trie modes.
// Immutable once attached to an instance: a Commit builds a new one.
type diskStor map[int]map[int][]byte

func (d diskStor) clone() diskStor {
	c := diskStor{}
	for a, m := range d {
		c[a] = map[int][]byte{}
		for k, v := range m {
			c[a][k] = v
		}
	}
	return c
}

// trimmed is what survives persisting a storage value: stateObject.updateTrie strips leading zero bytes.
func trimmed(v []byte) []byte { return bytes.TrimLeft(v, "\x00") }

// ---- model mutators (semantics read from statedb.go / state_object.go)

// getOrNew: StateDB.GetOrNewStateObject; creating journals createObjectChange, which dirties the account.
func (m *model) getOrNew(a int) *acct {
	if o := m.accts[a]; o != nil {
		return o
	}
	o := newAcct()
	m.accts[a] = o
	m.dirty[a] = true
	return o
}

func (m *model) setBalance(a int, o *acct, v *big.Int) {
	o.credits++ // SetBalance bumps credits (journalled separately)
	o.bal = v
	m.dirty[a] = true
}

func (m *model) setTokenBalance(a int, o *acct, t int, v *big.Int) {
	if t == 0 {
		m.setBalance(a, o, v)
		return
	}
	o.credits++
	o.tok[t] = v
	m.dirty[a] = true
}

// storage read: own value, else (flat-KV only) what an earlier Commit left on disk.
func readStor(o *acct, disk diskStor, a, k int) []byte {
	if o == nil {
		return nil
	}
	if v, ok := o.stor[k]; ok {
		return v
	}
	return disk[a][k]
}

// finalise: StateDB.Finalise over the journal's dirty set (+ the sticky ripemd mark).
func (m *model) finalise(deleteEmpty bool, extra map[int]bool) {
	for a := range extra {
		m.dirty[a] = true
	}
	as := make([]int, 0, len(m.dirty))
	for a := range m.dirty {
		as = append(as, a)
	}
	sort.Ints(as)
	for _, a := range as {
		if o := m.accts[a]; o != nil && (o.suicided || (deleteEmpty && o.empty())) {
			delete(m.accts, a)
		}
	}
	m.dirty = map[int]bool{}
	m.refund = 0
}
