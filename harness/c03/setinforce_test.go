package c03

// Call-site half of C03: WHICH validator set the running consensus machine counts a commit against.
//
// One REAL ConsensusState (validator 0) is driven against puppet validators through a generated chain of heights.  Every
// height is decided either by the regular validator set S or - after the recover timer (15 minutes without a block, reached
// through the hook that moves the start time back) or a recover proposal - by the recover set R, which has other members
// and other powers.  "The set in force at H" is therefore known to the generator: R for a recover height, S otherwise.
//
// Oracles (exact, from the generator's books; the verifier is never asked):
//   live:    the node commits block B at height H only after precommits for B from validators holding > 2/3 of the power of
//            the set in force at H reached it (its own included);
//   block validation: the node prevotes for / commits a block of height H+1 only if the LastCommit inside carries precommits
//            for the block decided at H, correctly signed by validators holding > 2/3 of the set in force at H.  Forged
//            LastCommits are laid out for the in-force set with too little power, or for the OTHER set (signed by all of it).

import (
	"fmt"
	"sort"
	"strings"
	"testing"
	"time"

	"github.com/lianxiangcloud/linkchain/consensus"
	"github.com/lianxiangcloud/linkchain/libs/common"
	"github.com/lianxiangcloud/linkchain/types"
	"pgregory.net/rapid"

	"verifharness/consim"
	"verifharness/vstat"
)

type sifDriver struct {
	t       *rapid.T
	n       *consim.Net
	x       *consim.Node
	keys    []*consim.ValKey // all keys; keys[0] is the real node
	S, R    []*types.Validator
	mode    map[uint64]string        // height -> how it was decided ("regular", "recover-timer", "recover-proposal")
	block   map[uint64]types.BlockID // height -> what the node committed
	round   map[uint64]int           // height -> the round it was decided in
	hist    []string
	salt    uint64
	recBase int // the round the node was in when it entered recover mode at the current height
}

func (d *sifDriver) logf(f string, a ...interface{}) { d.hist = append(d.hist, fmt.Sprintf(f, a...)) }
func (d *sifDriver) history() string                 { return strings.Join(d.hist, "\n") }

// inForce returns the validator list in force at a decided height.
func (d *sifDriver) inForce(h uint64) []*types.Validator {
	if strings.HasPrefix(d.mode[h], "recover") {
		return d.R
	}
	return d.S
}

func (d *sifDriver) keyOf(addr []byte) *consim.ValKey {
	for _, k := range d.keys {
		if string(k.Addr) == string(addr) {
			return k
		}
	}
	return nil
}

func total(vals []*types.Validator) int64 {
	var s int64
	for _, v := range vals {
		s += v.VotingPower
	}
	return s
}

// vote makes key k's vote, laid out for the given set (index = position in the address-sorted set).
func (d *sifDriver) vote(k *consim.ValKey, set *types.ValidatorSet, typ byte, h uint64, r int, id types.BlockID) *types.Vote {
	idx, _ := set.GetByAddress(k.Addr)
	v := &types.Vote{ValidatorAddress: k.Addr, ValidatorIndex: idx, ValidatorSize: set.Size(), Height: h, Round: r,
		Timestamp: time.Unix(1569409200, 0).UTC(), Type: typ, BlockID: id}
	sig, _ := k.Priv.Sign(v.SignBytes(consim.ChainID))
	v.Signature = sig
	return v
}

func (d *sifDriver) deliver(m consensus.ConsensusMessage, from int) {
	k := d.n.Inject(from, m)
	d.n.Deliver(d.x, k)
}

// fireNewest fires the newest timeout the node scheduled and has not seen fire.
func (d *sifDriver) fireNewest() bool {
	sch := d.x.Ticker.Scheduled()
	for j := len(sch) - 1; j >= 0; j-- {
		if !d.x.Fired[j] {
			d.n.FireTimeout(d.x, j)
			return true
		}
	}
	return false
}

// commitFor builds a commit for block id at (h, r) laid out for `layout`, signed by the members listed in signers.
func (d *sifDriver) commitFor(layout []*types.Validator, signers map[string]bool, h uint64, r int, id types.BlockID) *types.Commit {
	set := types.NewValidatorSet(layout)
	pre := make([]*types.Vote, set.Size())
	for i := 0; i < set.Size(); i++ {
		addr, _ := set.GetByIndex(i)
		if signers[string(addr)] {
			pre[i] = d.vote(d.keyOf(addr), set, types.VoteTypePrecommit, h, r, id)
		}
	}
	return &types.Commit{BlockID: id, Precommits: pre}
}

// backing computes, from the commit as it is, the power within `force` of the distinct members of `force` whose
// correctly signed precommit for (h, id) it carries (one common round).
func (d *sifDriver) backing(c *types.Commit, force []*types.Validator, h uint64, id types.BlockID) int64 {
	byRound := map[int]map[string]bool{}
	for _, v := range c.Precommits {
		if v == nil || v.Type != types.VoteTypePrecommit || v.Height != h || !v.BlockID.Equals(id) {
			continue
		}
		for _, m := range force {
			if m.PubKey.VerifyBytes(v.SignBytes(consim.ChainID), v.Signature) {
				if byRound[v.Round] == nil {
					byRound[v.Round] = map[string]bool{}
				}
				byRound[v.Round][string(m.Address)] = true
			}
		}
	}
	var best int64
	for _, who := range byRound {
		var p int64
		for _, m := range force {
			if who[string(m.Address)] {
				p += m.VotingPower
			}
		}
		if p > best {
			best = p
		}
	}
	return best
}

// proposal builds a block of the node's current height on the node's own chain, with the given LastCommit, signed as a
// proposal for the node's current round by the round's proposer (a puppet).
// blockOn builds a block of height h on top of the given status, with the given LastCommit.
func (d *sifDriver) blockOn(st consensus.NewStatus, h uint64, signer *consim.ValKey, lastCommit *types.Commit, recoverCount uint32) *types.Block {
	b := d.x.App.CreateBlock(h, 0, st.ConsensusParams.BlockSize.MaxGas, uint64(time.Now().Unix()))
	if b == nil || signer == nil {
		return nil
	}
	d.salt++
	b.Header.GasUsed = 5000 + d.salt
	b.Header.Coinbase = signer.CoinBase
	b.Recover = recoverCount
	b.ChainID = st.ChainID
	b.LastCommit = lastCommit
	b.LastBlockID = st.LastBlockID
	b.LastCommitHash = b.LastCommit.Hash()
	b.ConsensusHash = common.BytesToHash(st.ConsensusParams.Hash())
	b.ValidatorsHash = common.BytesToHash(st.Validators.Hash())
	if h > types.BlockHeightOne && !st.LastRecover {
		if fp := lastCommit.FirstPrecommit(); fp != nil {
			fvi := &types.FaultValidatorsEvidence{BlockHeight: h - 1, Round: fp.Round}
			lv := st.LastValidators
			if fp.Round == 0 {
				fvi.Proposer = lv.GetProposer().PubKey
			} else {
				fvi.FaultVal = lv.GetProposer().PubKey
				c := lv.Copy()
				c.IncrementAccum(fp.Round)
				fvi.Proposer = c.GetProposer().PubKey
			}
			b.AddEvidence([]types.Evidence{fvi})
		}
	}
	b.EvidenceHash = b.Evidence.Hash()
	return b
}

// proposal builds a block of the node's current height on the node's own chain, with the given LastCommit, signed as a
// proposal for the node's current round by the round's proposer (a puppet).
func (d *sifDriver) proposal(lastCommit *types.Commit) ([]consensus.ConsensusMessage, *types.Block) {
	rs := d.x.CS.GetRoundState()
	st := d.x.CS.GetState()
	h, r := rs.Height, rs.Round
	signer := d.keyOf(rs.Validators.GetProposer().Address)
	recovering := d.x.CS.VerifStepRecover()
	var rc uint32
	if recovering {
		// the header counts the rounds the height has spent in recover mode (a block with another count is dropped)
		rc = uint32(r - d.recBase)
	}
	b := d.blockOn(st, h, signer, lastCommit, rc)
	if b == nil {
		return nil, nil
	}
	parts := b.MakePartSet(consim.PartSize)
	p := types.NewProposal(h, r, parts.Header(), -1, types.BlockID{})
	p.Type = types.ProposalTypeNormal
	if recovering {
		p.Type = types.ProposalTypeRecover
	}
	sig, _ := signer.Priv.Sign(p.SignBytes(consim.ChainID))
	p.Signature = sig
	msgs := []consensus.ConsensusMessage{&consensus.ProposalMessage{Proposal: p}}
	for i := 0; i < parts.Total(); i++ {
		msgs = append(msgs, &consensus.BlockPartMessage{Height: h, Round: r, Part: parts.GetPart(i)})
	}
	return msgs, b
}

// prevoteOf returns what the node prevoted in (h, r): nil = nothing yet.
func (d *sifDriver) prevoteOf(h uint64, r int) *types.Vote {
	for _, e := range d.x.Events {
		if e.Kind == "sign" && e.Vote != nil && e.Vote.Type == types.VoteTypePrevote && e.Vote.Height == h && e.Vote.Round == r {
			return e.Vote
		}
	}
	return nil
}

// nilRound ends the node's current round without a decision.
func (d *sifDriver) nilRound() bool {
	rs := d.x.CS.GetRoundState()
	h, r := rs.Height, rs.Round
	set := rs.Validators
	for _, typ := range []byte{types.VoteTypePrevote, types.VoteTypePrecommit} {
		for _, k := range d.keys[1:] {
			if set.HasAddress(k.Addr) {
				d.deliver(&consensus.VoteMessage{Vote: d.vote(k, set, typ, h, r, types.BlockID{})}, 1)
			}
		}
	}
	for i := 0; i < 8; i++ {
		cur := d.x.CS.GetRoundState()
		if d.x.Crashed != nil || cur.Height != h || cur.Round != r {
			break
		}
		if !d.fireNewest() {
			break
		}
	}
	cur := d.x.CS.GetRoundState()
	return d.x.Crashed == nil && cur.Height == h && cur.Round == r+1
}

// decide lets the puppets of the set in force vote for block id in the node's current round, precommits in a generated
// order, and checks that the node commits exactly when the precommits it has seen exceed 2/3 of that set.
func (d *sifDriver) decide(id types.BlockID, force []*types.Validator, pushOnly bool) (committed bool) {
	rs := d.x.CS.GetRoundState()
	h, r := rs.Height, rs.Round
	set := rs.Validators
	var members []*consim.ValKey
	for _, k := range d.keys[1:] {
		if set.HasAddress(k.Addr) {
			members = append(members, k)
		}
	}
	for _, k := range members {
		d.deliver(&consensus.VoteMessage{Vote: d.vote(k, set, types.VoteTypePrevote, h, r, id)}, 1)
	}
	order := rapid.Permutation(members).Draw(d.t, "precommitorder")
	tot := total(force)
	seen := map[string]bool{}
	for _, k := range order {
		if d.x.Crashed != nil {
			break
		}
		d.deliver(&consensus.VoteMessage{Vote: d.vote(k, set, types.VoteTypePrecommit, h, r, id)}, 1)
		seen[string(k.Addr)] = true
		// the node's own precommit for the block counts once it was signed
		for _, e := range d.x.Events {
			if e.Kind == "sign" && e.Vote != nil && e.Vote.Type == types.VoteTypePrecommit && e.Vote.Height == h && e.Vote.Round == r && e.Vote.BlockID.Equals(id) {
				seen[string(d.keys[0].Addr)] = true
			}
		}
		var p int64
		for _, m := range force {
			if seen[string(m.Address)] {
				p += m.VotingPower
			}
		}
		if d.x.Script.Height() >= h {
			committed = true
			if p*3 <= tot*2 {
				vstat.Violation(d.t, P, "live:commit-without-two-thirds-of-set-in-force", "height %d (%s): the node committed after precommits holding %d of %d of the set in force reached it\n%s", h, d.mode[h], p, tot, d.history())
			}
			break
		}
	}
	return committed
}

func runSetInForce(t *rapid.T) {
	vstat.Eval()
	K := rapid.IntRange(3, 6).Draw(t, "keys")
	keys := make([]*consim.ValKey, K)
	for i := range keys {
		keys[i] = consim.DetVal(i, 1)
	}
	// regular set: the node plus a generated subset of the puppets; recover set: the node plus another generated subset (in the
	// real application: the white list plus ALL candidates) - both with their own powers
	draw := func(name string) []*types.Validator {
		var out []*types.Validator
		var puppets int64
		for i, k := range keys {
			if i <= 1 || rapid.IntRange(0, 3).Draw(t, fmt.Sprintf("%s_in_%d", name, i)) != 0 {
				p := int64(rapid.IntRange(1, 30).Draw(t, fmt.Sprintf("%s_power_%d", name, i)))
				out = append(out, &types.Validator{Address: k.Addr, PubKey: k.Pub, VotingPower: p, CoinBase: k.CoinBase})
				if i > 0 {
					puppets += p
				}
			}
		}
		// the puppets alone must be able to decide (the node may refuse a forged block): shrink the node, then grow a puppet
		if puppets*3 <= total(out)*2 {
			out[0].VotingPower = 1
		}
		for puppets*3 <= total(out)*2 {
			out[1].VotingPower++
			puppets++
		}
		return out
	}
	S, R := draw("S"), draw("R")
	skeys := make([]*consim.ValKey, 0, len(S))
	for _, v := range S {
		for _, k := range keys {
			if string(k.Addr) == string(v.Address) {
				kk := *k
				kk.Power = v.VotingPower
				skeys = append(skeys, &kk)
			}
		}
	}
	puppets := map[int]bool{}
	for i := 1; i < len(skeys); i++ {
		puppets[i] = true
	}
	n := consim.NewNet(skeys, puppets, false)
	n.AppFor = func(idx int) (consensus.BlockChainApp, *consim.ScriptApp) {
		a := consim.NewScriptApp(func(uint64) []*types.Validator { return S }, uint64(idx+1))
		a.RecoverVals = func(uint64) []*types.Validator { return R }
		return a, a
	}
	x, err := n.AddNode(0)
	if err != nil {
		t.Fatalf("node: %v", err)
	}
	defer n.Close()
	d := &sifDriver{t: t, n: n, x: x, keys: keys, S: S, R: R, mode: map[uint64]string{}, block: map[uint64]types.BlockID{}, round: map[uint64]int{}}
	desc := func(vals []*types.Validator) string {
		var s []string
		for _, v := range vals {
			for i, k := range keys {
				if string(k.Addr) == string(v.Address) {
					s = append(s, fmt.Sprintf("v%d:%d", i, v.VotingPower))
				}
			}
		}
		sort.Strings(s)
		return strings.Join(s, " ")
	}
	d.logf("regular set S = {%s}, recover set R = {%s}; v0 is the real node", desc(S), desc(R))

	heights := rapid.IntRange(2, 4).Draw(t, "heights")
	forgedTried, recoverHeights := 0, 0
	for hi := 0; hi < heights; hi++ {
		n.Start(x)
		if x.Crashed != nil {
			break
		}
		h := x.CS.GetRoundState().Height
		mode := rapid.SampledFrom([]string{"regular", "regular", "recover-timer", "recover-timer", "recover-proposal", "local-recover-then-sync"}).Draw(t, "mode")
		d.recBase = x.CS.GetRoundState().Round
		if mode == "local-recover-then-sync" {
			// Only THIS node saw no block for 15 minutes (it was cut off): it enters recover mode on its own while the others go on
			// deciding regular blocks.  When it hears how far behind it is, its reactor stops and resets the state machine
			// (SwitchToFastSync), the block-sync reactor commits the missed blocks (CommitBlock with fastsync, ApplyBlock), and the
			// machine is switched back with the synced status (SwitchToConsensus).  The heights it missed were decided by S.
			n.RecoverTimeout(x)
			wasRecovering := x.CS.VerifStepRecover()
			x.CS.OnReset()
			st := x.CS.GetState()
			synced := rapid.IntRange(1, 2).Draw(t, "synced")
			okSync := true
			for j := 0; j < synced && okSync; j++ {
				hh := st.LastBlockHeight + 1
				last := &types.Commit{}
				if hh > 1 {
					all := map[string]bool{}
					for _, v := range d.inForce(hh - 1) {
						all[string(v.Address)] = true
					}
					last = d.commitFor(d.inForce(hh-1), all, hh-1, d.round[hh-1], d.block[hh-1])
				}
				signer := d.keyOf(st.Validators.GetProposer().Address)
				blk := d.blockOn(st, hh, signer, last, 0)
				if blk == nil {
					okSync = false
					break
				}
				parts := blk.MakePartSet(consim.PartSize)
				id := types.BlockID{Hash: blk.Hash(), PartsHeader: parts.Header()}
				all := map[string]bool{}
				for _, v := range d.S {
					all[string(v.Address)] = true
				}
				seen := d.commitFor(d.S, all, hh, 0, id)
				vals, err := x.App.CommitBlock(blk, parts, seen, true)
				if err != nil {
					t.Fatalf("block sync: CommitBlock: %v\n%s", err, d.history())
				}
				nst, err := x.BlockExec.ApplyBlock(st, id, blk, vals)
				if err != nil {
					t.Fatalf("block sync: ApplyBlock of an honest block decided by S fails: %v\n%s", err, d.history())
				}
				st = nst
				d.mode[hh], d.block[hh], d.round[hh] = "regular", id, 0
			}
			if rec := x.CS.VerifSwitchToConsensus(st); rec != nil {
				t.Fatalf("SwitchToConsensus panics: %v\n%s", rec, d.history())
			}
			d.logf("height %d: the node alone entered recover mode (%v), was reset, block-synced %d regular block(s) and switched back at height %d", h, wasRecovering, synced, st.LastBlockHeight+1)
			vstat.Label("local_recover_then_block_sync")
			continue
		}
		d.mode[h] = "regular"
		switch mode {
		case "recover-timer":
			n.RecoverTimeout(x)
			if x.CS.VerifStepRecover() {
				d.mode[h] = mode
			}
		case "recover-proposal":
			// a recover proposal for the next round, from that round's proposer of the recover set, after the time gate
			rset := types.NewValidatorSet(R)
			rset.IncrementAccum(1)
			signer := d.keyOf(rset.GetProposer().Address)
			if signer != nil && signer != keys[0] {
				x.CS.VerifAgeStartTime(13 * time.Minute)
				rs := x.CS.GetRoundState()
				p := types.NewProposal(h, rs.Round+1, types.PartSetHeader{Total: 1, Hash: []byte("a-recover-proposal-without-block")}, -1, types.BlockID{})
				p.Type = types.ProposalTypeRecover
				sig, _ := signer.Priv.Sign(p.SignBytes(consim.ChainID))
				p.Signature = sig
				d.deliver(&consensus.ProposalMessage{Proposal: p}, 1)
				if x.CS.VerifStepRecover() {
					d.mode[h] = mode
				}
			}
		}
		if x.Crashed != nil {
			break
		}
		d.logf("height %d: %s (node in recover mode: %v, round %d)", h, d.mode[h], x.CS.VerifStepRecover(), x.CS.GetRoundState().Round)
		if strings.HasPrefix(d.mode[h], "recover") {
			recoverHeights++
		}
		force := d.inForce(h)
		decided := false
		for attempt := 0; attempt < 6 && !decided && x.Crashed == nil; attempt++ {
			rs := x.CS.GetRoundState()
			if rs.Height != h {
				break
			}
			r := rs.Round
			proposerIsNode := string(rs.Validators.GetProposer().Address) == string(keys[0].Addr)
			if rs.Proposal != nil && !proposerIsNode {
				// the round already has a proposal the harness did not make for this attempt (the recover proposal): end the round
				if !d.nilRound() {
					break
				}
				continue
			}
			if proposerIsNode {
				if rs.ProposalBlock == nil {
					if !d.nilRound() {
						break
					}
					continue
				}
				id := types.BlockID{Hash: rs.ProposalBlock.Hash(), PartsHeader: rs.ProposalBlockParts.Header()}
				d.logf("height %d round %d: the node proposes %s", h, r, id.Hash.Hex()[:10])
				if d.decide(id, force, false) {
					d.block[h], d.round[h] = id, r
					decided = true
				} else if !d.nilRound() {
					break
				}
				continue
			}
			// a puppet proposes: honest, or (once per height, from height 2 on) a block with a forged LastCommit
			var last *types.Commit
			kind := "honest"
			prevForce := d.inForce(h - 1)
			other := d.R
			if strings.HasPrefix(d.mode[h-1], "recover") {
				other = d.S
			}
			if h > 1 {
				prevID := d.block[h-1]
				prevRound := 0
				if rs.LastCommit != nil {
					if c := rs.LastCommit.MakeCommit(); c.FirstPrecommit() != nil {
						prevRound = c.FirstPrecommit().Round
					}
				}
				if attempt == 0 {
					kind = rapid.SampledFrom([]string{"honest", "other-set-all", "other-set-all", "in-force-too-few", "in-force-generated", "other-set-generated"}).Draw(t, "lastcommit")
				}
				all := func(vals []*types.Validator) map[string]bool {
					m := map[string]bool{}
					for _, v := range vals {
						m[string(v.Address)] = true
					}
					return m
				}
				gen := func(vals []*types.Validator) map[string]bool {
					m := map[string]bool{}
					for i, v := range vals {
						if rapid.Bool().Draw(t, fmt.Sprintf("signs%d", i)) {
							m[string(v.Address)] = true
						}
					}
					return m
				}
				switch kind {
				case "honest":
					last = d.commitFor(prevForce, all(prevForce), h-1, prevRound, prevID)
				case "other-set-all":
					last = d.commitFor(other, all(other), h-1, prevRound, prevID)
				case "other-set-generated":
					last = d.commitFor(other, gen(other), h-1, prevRound, prevID)
				case "in-force-generated":
					last = d.commitFor(prevForce, gen(prevForce), h-1, prevRound, prevID)
				case "in-force-too-few":
					// signers in descending power until just NOT more than 2/3
					m := map[string]bool{}
					var p int64
					for _, v := range prevForce {
						if (p+v.VotingPower)*3 <= total(prevForce)*2 {
							m[string(v.Address)] = true
							p += v.VotingPower
						}
					}
					last = d.commitFor(prevForce, m, h-1, prevRound, prevID)
				}
			} else {
				last = &types.Commit{}
			}
			msgs, blk := d.proposal(last)
			if blk == nil {
				break
			}
			id := types.BlockID{Hash: blk.Hash(), PartsHeader: blk.MakePartSet(consim.PartSize).Header()}
			backed := true
			var have, need int64
			if h > 1 {
				have, need = d.backing(last, prevForce, h-1, d.block[h-1]), total(prevForce)
				backed = have*3 > need*2
			}
			d.logf("height %d round %d: puppet proposal %s with LastCommit %q: backed by %d of %d of the set in force at %d (%s)", h, r, id.Hash.Hex()[:10], kind, have, need, h-1, d.mode[h-1])
			for _, m := range msgs {
				d.deliver(m, 1)
			}
			if h > 1 && kind != "honest" {
				forgedTried++
				vstat.Label("lastcommit_" + kind)
				if !backed {
					vstat.Label("lastcommit_not_backed_after_" + strings.SplitN(d.mode[h-1], "-", 2)[0])
				}
			}
			pv := d.prevoteOf(h, r)
			if pv != nil && pv.BlockID.Equals(id) && !backed {
				vstat.Violation(t, P, "validation:prevote-for-block-whose-last-commit-lacks-two-thirds-of-set-in-force", "height %d: the node prevotes for a block whose LastCommit (%s) is backed by %d of %d of the set in force at height %d (%s)\n%s", h, kind, have, need, h-1, d.mode[h-1], d.history())
				return
			}
			if backed {
				if d.decide(id, force, false) {
					d.block[h], d.round[h] = id, r
					decided = true
				} else if x.Crashed == nil && !d.nilRound() {
					break
				}
				continue
			}
			// not backed: sometimes the puppets push the block through anyway; the node must not commit it (dying is its way out)
			if rapid.Bool().Draw(t, "push") {
				d.decide(id, force, true)
				// (finalizeCommit hands the block to the application BEFORE ApplyBlock validates it and answers the failed
				// validation with SIGTERM to itself: that a block pushed by >2/3 hostile power gets stored is not this
				// property's business; accepted means that the consensus status moved on)
				if x.CS.GetState().LastBlockHeight >= h {
					vstat.Violation(t, P, "validation:commit-of-block-whose-last-commit-lacks-two-thirds-of-set-in-force", "height %d: the node commits a block whose LastCommit (%s) is backed by %d of %d of the set in force at height %d (%s)\n%s", h, kind, have, need, h-1, d.mode[h-1], d.history())
					return
				}
				vstat.Label("pushed_block_refused")
				break
			}
			if !d.nilRound() {
				break
			}
		}
		if !decided {
			d.logf("height %d not decided (node crashed: %v)", h, x.Crashed)
			break
		}
	}
	vstat.Label(fmt.Sprintf("recover_heights_%d", recoverHeights))
	vstat.Label(fmt.Sprintf("heights_decided_%d", len(d.block)))
	if forgedTried > 0 {
		vstat.NonTrivial(d.history())
	}
	if vstat.WantSample() {
		vstat.Sample(map[string]interface{}{"history": d.hist})
	}
}

func TestCommitSetInForce(t *testing.T) { rapid.Check(t, runSetInForce) }
