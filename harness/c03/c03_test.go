// C03 — only >2/3 of voting power, correctly signed for that exact block, makes a commit.
//
// Code under test: types.ValidatorSet.VerifyCommit, types.VoteSet (AddVote, SetPeerMaj23,
// TwoThirdsMajority, HasTwoThirdsAny, HasAll, BitArray*, GetByIndex, MakeCommit), Vote.SignBytes /
// CanonicalVote, Commit, and the second implementation of the same rule,
// MultiSignAccountTx.VerifySign.
//
// Oracle: every vote is built from a specification that records WHO signed WHAT (chain, height,
// round, type, block, timestamp) and what the vote CLAIMS (index, address, size, height, round, type,
// block, timestamp).  A signature "binds" a vote to slot i on chain c iff it was produced by the key
// of validator i over exactly the claimed content on chain c — decided by comparing the two
// specifications, never by running the verifier.  Tallies are exact (math/big).
package c03

import (
	"crypto/sha256"
	"fmt"
	"math/big"
	"os"
	"os/signal"
	"regexp"
	"sort"
	"strconv"
	"strings"
	"sync/atomic"
	"syscall"
	"testing"
	"time"

	"github.com/lianxiangcloud/linkchain/libs/common"
	"github.com/lianxiangcloud/linkchain/libs/crypto"
	"github.com/lianxiangcloud/linkchain/libs/log"
	"github.com/lianxiangcloud/linkchain/types"
	"pgregory.net/rapid"

	"verifharness/consim"
	"verifharness/vstat"
)

const P = "C03"

var sigterms int32

func TestMain(m *testing.M) {
	log.Root().SetHandler(log.DiscardHandler())
	consim.Init()
	// finalizeCommit answers an ApplyBlock error with SIGTERM to the own process: survive it and count it
	ch := make(chan os.Signal, 16)
	signal.Notify(ch, syscall.SIGTERM)
	go func() {
		for range ch {
			atomic.AddInt32(&sigterms, 1)
		}
	}()
	vstat.Main(m)
}

// ---------------------------------------------------------------- fixed material

// maxTotal: the property quantifies over total voting power below 2^62 (total*2 must fit int64).
const maxTotal = int64(1)<<62 - 1

const poolKeys = 16

// keyPool: real ed25519 keys, derived from fixed secrets so that cases replay (which validator gets
// which key, power and address-order index is drawn per case).
var keyPool = func() []crypto.PrivKeyEd25519 {
	ks := make([]crypto.PrivKeyEd25519, poolKeys)
	for i := range ks {
		ks[i] = crypto.GenPrivKeyEd25519FromSecret([]byte(fmt.Sprintf("c03-validator-key-%d", i)))
	}
	return ks
}()

var baseTime = time.Unix(1600000000, 0).UTC()

// Timestamps are part of the sign-bytes at millisecond resolution; specs use whole seconds so that
// "different timestamp" always means "different sign-bytes".
func tsOf(s int) time.Time { return baseTime.Add(time.Duration(s) * time.Second) }

// ---------------------------------------------------------------- world: validator set + block ids

type world struct {
	chain, otherChain string
	H                 uint64
	R                 int
	T                 byte
	vs                *types.ValidatorSet
	n                 int
	keys              []crypto.PrivKeyEd25519 // by validator index (address order)
	outsider          crypto.PrivKeyEd25519   // a key that is not in the set
	power             []int64                 // by validator index
	total             *big.Int
	maxPower          int64
	blocks            []types.BlockID // [0] nil block, [1] B, [2..] other blocks that differ from B in one field
	shape             string
	zeros             int
}

func bi(x int64) *big.Int { return big.NewInt(x) }

// moreThanTwoThirds: 3*tally > 2*total, exactly.
func moreThanTwoThirds(tally, total *big.Int) bool {
	return new(big.Int).Mul(tally, bi(3)).Cmp(new(big.Int).Mul(total, bi(2))) > 0
}

// split distributes amount over k parts proportionally to drawn weights (parts may be 0 when amount < k).
func split(t *rapid.T, amount int64, k int, label string) []int64 {
	ws := make([]int64, k)
	var sw int64
	for i := range ws {
		ws[i] = int64(rapid.IntRange(1, 8).Draw(t, label+"_w"))
		sw += ws[i]
	}
	out := make([]int64, k)
	var used int64
	for i := range out {
		out[i] = new(big.Int).Div(new(big.Int).Mul(bi(amount), bi(ws[i])), bi(sw)).Int64()
		used += out[i]
	}
	out[0] += amount - used
	return out
}

// genPowers: voting powers for n validators; total < 2^62.  Zero-power entries are legal input: the
// validators contract only requires voting_power >= 0 (contract/v1/validators/validators.cpp) and
// consensus/execution.go updateStatus installs types.NewValidatorSet(validators) unfiltered.
// Negative powers are refused by the contract and are not generated.
func genPowers(t *rapid.T, n int) ([]int64, string) {
	p := make([]int64, n)
	shape := rapid.SampledFrom([]string{"ones", "equal", "equal", "dominant", "small", "small", "wide", "huge", "exact23", "exact23"}).Draw(t, "shape")
	if n == 1 && (shape == "dominant" || shape == "exact23") {
		shape = "equal"
	}
	switch shape {
	case "ones":
		for i := range p {
			p[i] = 1
		}
	case "equal":
		v := rapid.SampledFrom([]int64{2, 3, 7, 10, 1000, 1 << 20, maxTotal / int64(n)}).Draw(t, "eqp")
		for i := range p {
			p[i] = v
		}
	case "dominant":
		var rest int64
		for i := 1; i < n; i++ {
			p[i] = int64(rapid.IntRange(1, 10).Draw(t, "p"))
			rest += p[i]
		}
		// the dominant validator alone is exactly at, just above or just below 2/3, or holds nearly everything
		p[0] = rapid.SampledFrom([]int64{2 * rest, 2*rest + 1, 2*rest - 1, maxTotal - rest, rest}).Draw(t, "dom")
	case "small":
		for i := range p {
			p[i] = int64(rapid.IntRange(1, 20).Draw(t, "p"))
		}
	case "wide":
		for i := range p {
			p[i] = rapid.Int64Range(1, 1<<40).Draw(t, "p")
		}
	case "huge": // total exactly 2^62-1
		var sum int64
		for i := 1; i < n; i++ {
			p[i] = rapid.Int64Range(1, maxTotal/int64(n)).Draw(t, "p")
			sum += p[i]
		}
		p[0] = maxTotal - sum
	case "exact23": // a subset holds exactly two thirds of the total
		k := rapid.SampledFrom([]int64{1, 2, 3, 5, 12, 1000, maxTotal / 3}).Draw(t, "k")
		m := rapid.IntRange(1, n-1).Draw(t, "m")
		copy(p, split(t, 2*k, m, "a"))
		copy(p[m:], split(t, k, n-m, "b"))
	}
	if rapid.IntRange(0, 9).Draw(t, "zeros") == 0 {
		for i := range p {
			if rapid.IntRange(0, 2).Draw(t, "z") == 0 {
				p[i] = 0
			}
		}
	}
	return p, shape
}

func sha(parts ...interface{}) []byte {
	h := sha256.Sum256([]byte(fmt.Sprint(parts...)))
	return h[:]
}

func genBlocks(t *rapid.T) []types.BlockID {
	s := rapid.IntRange(0, 255).Draw(t, "blockseed")
	h1 := common.BytesToHash(sha("block", s))
	h1b := h1
	h1b[31] ^= 1
	h2 := common.BytesToHash(sha("other", s))
	ph1 := sha("parts", s)
	ph1b := append([]byte{}, ph1...)
	ph1b[0] ^= 0x80
	return []types.BlockID{
		{}, // nil block
		{Hash: h1, PartsHeader: types.PartSetHeader{Total: 3, Hash: ph1}},                               // B
		{Hash: h1b, PartsHeader: types.PartSetHeader{Total: 3, Hash: ph1}},                              // one hash bit
		{Hash: h1, PartsHeader: types.PartSetHeader{Total: 4, Hash: ph1}},                               // parts total
		{Hash: h1, PartsHeader: types.PartSetHeader{Total: 3, Hash: ph1b}},                              // parts hash
		{Hash: h2, PartsHeader: types.PartSetHeader{Total: 1, Hash: sha("p2", s)}},                      // unrelated
		{Hash: common.Hash{}, PartsHeader: types.PartSetHeader{Total: 0, Hash: ph1}},                    // IsZero() but not the nil block
		{Hash: h1, PartsHeader: types.PartSetHeader{Total: 3}},                                          // no parts hash
		{Hash: h1, PartsHeader: types.PartSetHeader{}},                                                  // hash only
		{Hash: common.Hash{}, PartsHeader: types.PartSetHeader{Total: 3, Hash: ph1}},                    // parts only
		{Hash: h1, PartsHeader: types.PartSetHeader{Total: 3, Hash: append(ph1[:31:31], ph1[31]^0xff)}}, // last byte of parts hash
		{Hash: h1, PartsHeader: types.PartSetHeader{Total: -1, Hash: ph1}},                              // hostile totals
		{Hash: h1, PartsHeader: types.PartSetHeader{Total: 1 << 40, Hash: ph1}},
	}
}

func genWorld(t *rapid.T, maxN int) *world {
	w := &world{chain: "c03-chain", otherChain: rapid.SampledFrom([]string{"c03-chain2", "c03-chai", "", "C03-chain"}).Draw(t, "otherchain")}
	w.H = rapid.SampledFrom([]uint64{1, 2, 7, 1000, 1 << 40}).Draw(t, "H")
	w.R = rapid.SampledFrom([]int{0, 0, 1, 5}).Draw(t, "R")
	w.T = types.VoteTypePrecommit
	if rapid.IntRange(0, 6).Draw(t, "prevote") == 0 {
		w.T = types.VoteTypePrevote
	}
	w.n = rapid.IntRange(1, maxN).Draw(t, "n")
	ids := make([]int, poolKeys)
	for i := range ids {
		ids[i] = i
	}
	perm := rapid.Permutation(ids).Draw(t, "keys")
	pw, shape := genPowers(t, w.n)
	w.shape = shape
	vals := make([]*types.Validator, w.n)
	byAddr := map[string]int{}
	for i := 0; i < w.n; i++ {
		pk := keyPool[perm[i]].PubKey()
		vals[i] = types.NewValidator(pk, common.EmptyAddress, pw[i])
		byAddr[string(pk.Address())] = perm[i]
	}
	w.outsider = keyPool[perm[w.n]]
	w.vs = types.NewValidatorSet(vals) // sorts by address; indices below are the set's indices
	w.total = new(big.Int)
	for _, v := range w.vs.Validators {
		w.keys = append(w.keys, keyPool[byAddr[string(v.Address)]])
		w.power = append(w.power, v.VotingPower)
		w.total.Add(w.total, bi(v.VotingPower))
		if v.VotingPower > w.maxPower {
			w.maxPower = v.VotingPower
		}
		if v.VotingPower == 0 {
			w.zeros++
		}
	}
	if w.total.Cmp(bi(maxTotal)) > 0 {
		t.Fatalf("harness: generated total %v exceeds 2^62-1", w.total)
	}
	w.blocks = genBlocks(t)
	return w
}

func (w *world) addr(i int) []byte { return w.vs.Validators[i].Address }

func (w *world) powerOf(set map[int]bool) *big.Int {
	s := new(big.Int)
	for i := range set {
		s.Add(s, bi(w.power[i]))
	}
	return s
}

// near: the tally is within one validator's (the largest) power of the 2/3 boundary.
func (w *world) near(tally *big.Int) bool {
	d := new(big.Int).Sub(new(big.Int).Mul(tally, bi(3)), new(big.Int).Mul(w.total, bi(2)))
	return d.Abs(d).Cmp(new(big.Int).Mul(bi(w.maxPower), bi(3))) <= 0
}

func (w *world) boundaryLabel(tally *big.Int) string {
	c := new(big.Int).Mul(tally, bi(3)).Cmp(new(big.Int).Mul(w.total, bi(2)))
	switch {
	case c == 0:
		return "exactly_two_thirds"
	case !w.near(tally):
		if c > 0 {
			return "far_above"
		}
		return "far_below"
	case c > 0:
		return "near_above"
	default:
		return "near_below"
	}
}

// ---------------------------------------------------------------- votes

// content is what a signature covers (Chain set) or what a vote claims (Chain empty).
type content struct {
	Chain string
	H     uint64
	R     int
	Typ   byte
	Bid   int // index into world.blocks
	Ts    int // seconds after baseTime
}

type mvote struct {
	v      *types.Vote
	owner  int    // validator the generator attributes the vote to
	kind   string // generator choice that produced it
	slot   int    // claimed ValidatorIndex
	addrOf int    // validator whose address the vote carries, -1 if none of the set's
	size   int    // claimed ValidatorSize
	claim  content
	signed content
	signer int  // validator index of the signing key, -1 = key outside the set
	sigOK  bool // the signature bytes are the signer's untampered signature
}

func (m *mvote) String() string {
	return fmt.Sprintf("{%s owner=%d slot=%d addrOf=%d size=%d claim=%+v signed=%+v signer=%d sigOK=%v}", m.kind, m.owner, m.slot, m.addrOf, m.size, m.claim, m.signed, m.signer, m.sigOK)
}

const (
	sigNormal = iota
	sigNil
	sigFlipped
	sigZero
)

func (w *world) key(signer int) crypto.PrivKeyEd25519 {
	if signer < 0 {
		return w.outsider
	}
	return w.keys[signer]
}

// mk builds a vote from its specification.  Honest validators sign vote.SignBytes(chainID)
// (types/priv_validator.go signVote), so that is what produces signatures here; whether a signature is
// VALID for a vote is decided from the specification alone (binds).
func (w *world) mk(owner int, kind string, slot int, addr []byte, addrOf, size int, claim, signed content, signer, sigMode int) *mvote {
	claim.Chain = ""
	v := &types.Vote{
		ValidatorAddress: addr, ValidatorIndex: slot, ValidatorSize: size,
		Height: claim.H, Round: claim.R, Timestamp: tsOf(claim.Ts), Type: claim.Typ, BlockID: w.blocks[claim.Bid],
	}
	sv := &types.Vote{Height: signed.H, Round: signed.R, Timestamp: tsOf(signed.Ts), Type: signed.Typ, BlockID: w.blocks[signed.Bid]}
	sig, err := w.key(signer).Sign(sv.SignBytes(signed.Chain))
	if err != nil {
		panic(err)
	}
	switch sigMode {
	case sigNormal:
		v.Signature = sig
	case sigNil:
		v.Signature = nil
	case sigFlipped:
		s := sig.(crypto.SignatureEd25519)
		s[7] ^= 0x10
		v.Signature = s
	case sigZero:
		v.Signature = crypto.SignatureEd25519{}
	}
	return &mvote{v: v, owner: owner, kind: kind, slot: slot, addrOf: addrOf, size: size, claim: claim, signed: signed, signer: signer, sigOK: sigMode == sigNormal}
}

// binds: the vote carries the signature of validator `slot` over exactly what the vote claims, on `chain`.
func (m *mvote) binds(slot int, chain string) bool {
	c := m.claim
	c.Chain = chain
	return m.sigOK && m.signer == slot && slot >= 0 && m.signed == c
}

func (w *world) base(bid, ts int) content {
	return content{H: w.H, R: w.R, Typ: w.T, Bid: bid, Ts: ts}
}

func (w *world) on(c content) content { c.Chain = w.chain; return c }

// good: a correct vote of validator i for block bid.
func (w *world) good(i int, kind string, bid, ts int) *mvote {
	c := w.base(bid, ts)
	return w.mk(i, kind, i, w.addr(i), i, w.n, c, w.on(c), i, sigNormal)
}

func (w *world) clone(m *mvote) *mvote {
	c := *m
	c.v = m.v.Copy()
	return &c
}

var defectKinds = []string{
	"absent", "nil", "forB2", "wrongHeight", "wrongRound", "wrongType", "otherChain", "sigByOther", "sigOutsider",
	"sigOtherBytes", "sigOtherBlock", "badSig", "wrongIndex", "wrongAddress", "wrongSize", "duplicate", "resign", "equivocate", "equivocate",
}

var transplantKinds = map[string]bool{"sigByOther": true, "sigOutsider": true, "sigOtherBytes": true, "sigOtherBlock": true}

func (w *world) otherBlock(t *rapid.T, label string) int {
	return rapid.IntRange(2, len(w.blocks)-1).Draw(t, label)
}

func (w *world) altHeight(t *rapid.T) uint64 {
	return rapid.SampledFrom([]uint64{w.H + 1, w.H - 1, 0, w.H + 1<<32}).Filter(func(h uint64) bool { return h != w.H }).Draw(t, "alth")
}

func (w *world) altRound(t *rapid.T) int {
	return rapid.SampledFrom([]int{w.R + 1, w.R - 1, -1, w.R + 1<<20}).Filter(func(r int) bool { return r != w.R }).Draw(t, "altr")
}

func (w *world) altType(t *rapid.T) byte {
	return rapid.SampledFrom([]byte{types.VoteTypePrevote, types.VoteTypePrecommit, 0x00, 0x03}).Filter(func(b byte) bool { return b != w.T }).Draw(t, "altt")
}

// emit: the votes validator i contributes under the drawn choice.  A defective vote is accompanied by
// a correct vote for B half of the time (a defective copy must neither count nor poison the real one).
func (w *world) emit(t *rapid.T, i int, kind string) []*mvote {
	B := w.base(1, 0)
	var out []*mvote
	defective := func(m *mvote) {
		out = append(out, m)
		if rapid.Bool().Draw(t, "companion") {
			out = append(out, w.good(i, kind+"+good", 1, 0))
		}
	}
	switch kind {
	case "absent":
	case "forB":
		out = append(out, w.good(i, kind, 1, 0))
	case "nil":
		out = append(out, w.good(i, kind, 0, 0))
	case "forB2":
		out = append(out, w.good(i, kind, w.otherBlock(t, "b2"), 0))
	case "wrongHeight": // correctly signed, for another height
		c := B
		c.H = w.altHeight(t)
		defective(w.mk(i, kind, i, w.addr(i), i, w.n, c, w.on(c), i, sigNormal))
	case "wrongRound":
		c := B
		c.R = w.altRound(t)
		defective(w.mk(i, kind, i, w.addr(i), i, w.n, c, w.on(c), i, sigNormal))
	case "wrongType":
		c := B
		c.Typ = w.altType(t)
		defective(w.mk(i, kind, i, w.addr(i), i, w.n, c, w.on(c), i, sigNormal))
	case "otherChain": // signed for the same height/round/block of another chain
		s := w.on(B)
		s.Chain = w.otherChain
		defective(w.mk(i, kind, i, w.addr(i), i, w.n, B, s, i, sigNormal))
	case "sigByOther": // another validator's signature over the very same content
		j := -1
		if w.n > 1 {
			j = rapid.IntRange(0, w.n-2).Draw(t, "j")
			if j >= i {
				j++
			}
		}
		defective(w.mk(i, kind, i, w.addr(i), i, w.n, B, w.on(B), j, sigNormal))
	case "sigOutsider":
		defective(w.mk(i, kind, i, w.addr(i), i, w.n, B, w.on(B), -1, sigNormal))
	case "sigOtherBytes": // own signature, but over content that differs in one field
		s := w.on(B)
		switch rapid.IntRange(0, 3).Draw(t, "field") {
		case 0:
			s.H = w.altHeight(t)
		case 1:
			s.R = w.altRound(t)
		case 2:
			s.Typ = w.altType(t)
		case 3:
			s.Ts = 1
		}
		defective(w.mk(i, kind, i, w.addr(i), i, w.n, B, s, i, sigNormal))
	case "sigOtherBlock": // own signature for another block (or nil) transplanted onto a vote for B, or the reverse
		s := w.on(B)
		c := B
		o := rapid.SampledFrom(append([]int{0}, seq(2, len(w.blocks)-1)...)).Draw(t, "ob")
		switch rapid.IntRange(0, 2).Draw(t, "pair") {
		case 0: // signed for another block, claims B
			s.Bid = o
		case 1: // signed for B, claims another block
			c.Bid = o
		default: // any two different block ids of the pool
			c.Bid = o
			s.Bid = rapid.IntRange(0, len(w.blocks)-2).Draw(t, "sb")
			if s.Bid >= o {
				s.Bid++
			}
		}
		defective(w.mk(i, kind, i, w.addr(i), i, w.n, c, s, i, sigNormal))
	case "badSig":
		defective(w.mk(i, kind, i, w.addr(i), i, w.n, B, w.on(B), i, rapid.SampledFrom([]int{sigNil, sigFlipped, sigZero}).Draw(t, "sigmode")))
	case "wrongIndex": // own address and signature under another index
		cands := []int{w.n, w.n + 1, -1, 1 << 30}
		for j := 0; j < w.n; j++ {
			if j != i {
				cands = append(cands, j, j)
			}
		}
		defective(w.mk(i, kind, rapid.SampledFrom(cands).Draw(t, "slot"), w.addr(i), i, w.n, B, w.on(B), i, sigNormal))
	case "wrongAddress": // own index and signature, another address
		var addr []byte
		addrOf := -1
		switch m := rapid.IntRange(0, 4).Draw(t, "addrmode"); {
		case m == 0 && w.n > 1:
			j := rapid.IntRange(0, w.n-2).Draw(t, "j")
			if j >= i {
				j++
			}
			addr, addrOf = w.addr(j), j
		case m == 1:
			addr = nil
		case m == 2:
			addr = w.addr(i)[:19]
		case m == 3:
			addr = w.outsider.PubKey().Address()
		default:
			addr = append(append([]byte{}, w.addr(i)...), 0)
		}
		defective(w.mk(i, kind, i, addr, addrOf, w.n, B, w.on(B), i, sigNormal))
	case "wrongSize":
		sz := rapid.SampledFrom([]int{w.n + 1, w.n - 1, 0, -1}).Draw(t, "size")
		defective(w.mk(i, kind, i, w.addr(i), i, sz, B, w.on(B), i, sigNormal))
	case "duplicate":
		g := w.good(i, kind, rapid.SampledFrom([]int{1, 1, 0, 2}).Draw(t, "dupb"), 0)
		out = append(out, g, w.clone(g))
	case "resign": // the same vote signed twice with different timestamps
		b := rapid.SampledFrom([]int{1, 1, 0, 2}).Draw(t, "rb")
		out = append(out, w.good(i, kind, b, 0), w.good(i, kind, b, 1))
		if rapid.Bool().Draw(t, "again") {
			out = append(out, w.clone(out[len(out)-1]))
		}
	case "equivocate":
		all := append([]int{0, 1}, seq(2, len(w.blocks)-1)...)
		k := rapid.IntRange(2, 3).Draw(t, "neq")
		bs := rapid.Permutation(all).Draw(t, "eqb")[:k]
		if rapid.IntRange(0, 2).Draw(t, "withB") != 0 && bs[0] != 1 && bs[1] != 1 {
			bs[0] = 1
		}
		for _, b := range bs {
			out = append(out, w.good(i, kind, b, 0))
		}
		if rapid.IntRange(0, 3).Draw(t, "redo") == 0 {
			out = append(out, w.clone(out[len(out)-1]))
		}
	default:
		panic("unknown kind " + kind)
	}
	return out
}

func seq(a, b int) []int {
	var s []int
	for i := a; i <= b; i++ {
		s = append(s, i)
	}
	return s
}

// genPool: per-validator choices -> vote pool.
func (w *world) genPool(t *rapid.T) (pool []*mvote, kinds []string) {
	honesty := rapid.SampledFrom([]int{30, 45, 55, 67, 75, 85, 95}).Draw(t, "honesty")
	for i := 0; i < w.n; i++ {
		kind := "forB"
		if rapid.IntRange(0, 99).Draw(t, "roll") >= honesty {
			kind = rapid.SampledFrom(defectKinds).Draw(t, "kind")
		}
		kinds = append(kinds, kind)
		pool = append(pool, w.emit(t, i, kind)...)
	}
	return
}

// ---------------------------------------------------------------- calling the code under test

func try(f func()) (pan interface{}) {
	defer func() { pan = recover() }()
	f()
	return nil
}

func cause(err error) error {
	for err != nil {
		c, ok := err.(interface{ Cause() error })
		if !ok {
			break
		}
		err = c.Cause()
	}
	return err
}

var sumRe = regexp.MustCompile(`(-?\d+)/(-?\d+) = \S+$`)

// ---------------------------------------------------------------- reference for VerifyCommit

// refVerifyCommit decides VerifyCommit(chain, blocks[X], h, slots).  The structural preconditions are the
// ones validator_set.go states: one slot per validator of the set; every present precommit is a
// precommit for height h in the round of the first present one; every present precommit carries the
// signature of the validator of ITS SLOT (also those for another block, which then simply do not
// count).  Then: the power of the slots whose precommit is for exactly X is > 2/3 of the total.
func (w *world) refVerifyCommit(chain string, X int, h uint64, slots []*mvote) (accept bool, why string, tally *big.Int) {
	tally = new(big.Int)
	if len(slots) != w.n {
		return false, "size", tally
	}
	var fh uint64
	fr := 0
	for _, m := range slots {
		if m != nil {
			fh, fr = m.claim.H, m.claim.R
			break
		}
	}
	if h != fh {
		return false, "height", tally
	}
	for idx, m := range slots {
		if m == nil {
			continue
		}
		if m.claim.H != h {
			return false, "height", tally
		}
		if m.claim.R != fr {
			return false, "round", tally
		}
		if m.claim.Typ != types.VoteTypePrecommit {
			return false, "type", tally
		}
		if !m.binds(idx, chain) {
			return false, "signature", tally
		}
		if m.claim.Bid == X {
			tally.Add(tally, bi(w.power[idx]))
		}
	}
	if !moreThanTwoThirds(tally, w.total) {
		return false, "power", tally
	}
	return true, "", tally
}

// propertyTally is the property's own wording, with no structural side conditions: power of the slots
// holding a precommit of that slot's validator, correctly signed for exactly X at h, in the round r, on chain.
func (w *world) propertyTally(chain string, X int, h uint64, r int, slots []*mvote) *big.Int {
	tally := new(big.Int)
	for idx, m := range slots {
		if idx < w.n && m != nil && m.claim.Typ == types.VoteTypePrecommit && m.claim.H == h && m.claim.R == r && m.claim.Bid == X && m.binds(idx, chain) {
			tally.Add(tally, bi(w.power[idx]))
		}
	}
	return tally
}

func commitOf(X types.BlockID, slots []*mvote) *types.Commit {
	c := &types.Commit{BlockID: X, Precommits: make([]*types.Vote, len(slots))}
	for i, m := range slots {
		if m != nil {
			c.Precommits[i] = m.v
		}
	}
	return c
}

func descSlots(slots []*mvote) string {
	var sb strings.Builder
	for i, m := range slots {
		if m == nil {
			fmt.Fprintf(&sb, " [%d]nil", i)
		} else {
			fmt.Fprintf(&sb, " [%d]%v", i, m)
		}
	}
	return sb.String()
}

// checkCommit runs VerifyCommit on one commit object and compares with the reference, both directions.
func (w *world) checkCommit(t vstat.TB, tag, chain string, X int, h uint64, slots []*mvote) (accepted bool, tally *big.Int) {
	want, why, tally := w.refVerifyCommit(chain, X, h, slots)
	var err error
	pan := try(func() { err = w.vs.VerifyCommit(chain, w.blocks[X], h, commitOf(w.blocks[X], slots)) })
	desc := func() string {
		return fmt.Sprintf("%s: powers=%v total=%v chain=%q block=#%d height=%d (set: chain=%q H=%d R=%d) slots:%s", tag, w.power, w.total, chain, X, h, w.chain, w.H, w.R, descSlots(slots))
	}
	if pan != nil {
		vstat.Violation(t, P, "verifycommit:panic", "VerifyCommit panicked: %v ; %s", pan, desc())
		return false, tally
	}
	if err == nil {
		// the property's direction, in the property's words: SOME common round carries > 2/3
		best := new(big.Int)
		seen := map[int]bool{}
		for _, m := range slots {
			if m != nil && !seen[m.claim.R] {
				seen[m.claim.R] = true
				if pt := w.propertyTally(chain, X, h, m.claim.R, slots); pt.Cmp(best) > 0 {
					best = pt
				}
			}
		}
		if !moreThanTwoThirds(best, w.total) {
			vstat.Violation(t, P, "verifycommit:accepts-without-two-thirds", "VerifyCommit accepted, but correctly signed precommits for exactly that block (one round) hold %v of %v ; %s", best, w.total, desc())
			return true, tally
		}
	}
	if err == nil && !want {
		vstat.Violation(t, P, "verifycommit:accepts-malformed-commit", "VerifyCommit accepted a commit that breaks its own precondition (%s) ; %s", why, desc())
	}
	if err != nil && want {
		vstat.Violation(t, P, "verifycommit:rejects-valid-commit", "VerifyCommit rejected (%v) a well-formed commit with %v of %v ; %s", err, tally, w.total, desc())
	}
	if want {
		vstat.Label("commit_accept")
	} else {
		vstat.Label("commit_reject_" + why)
	}
	return err == nil, tally
}

// ---------------------------------------------------------------- VoteSet history

type op struct {
	vote  int // index into pool, or -1
	peer  string
	claim int // block index for SetPeerMaj23
}

type vsModel struct {
	w         *world
	byVal     [][]*mvote     // valid votes submitted so far, per validator, arrival order
	voters    map[int]bool   // validators with at least one valid vote
	perBlock  []map[int]bool // block index -> validators with a valid vote for it
	claimed   map[int]bool   // block indices some peer claimed
	equiv     bool           // some validator has submitted valid votes for two different blocks
	reported  int            // block index of the reported majority, -1 none
	byPtr     map[*types.Vote]*mvote
	submitted int
}

func bitsOf(ba *common.BitArray, n int) []bool {
	out := make([]bool, n)
	if ba == nil {
		return out
	}
	for i := 0; i < n; i++ {
		out[i] = ba.GetIndex(i)
	}
	return out
}

func (w *world) blockIndex(id types.BlockID) int {
	for i, b := range w.blocks {
		if b.Equals(id) {
			return i
		}
	}
	return -1
}

// structural: everything AddVote documents it checks before the signature.
func (w *world) structural(m *mvote) bool {
	return m.slot >= 0 && m.slot < w.n && len(m.v.ValidatorAddress) > 0 && m.addrOf == m.slot && m.size == w.n &&
		m.claim.H == w.H && m.claim.R == w.R && m.claim.Typ == w.T
}

func errName(e error) string {
	switch e {
	case nil:
		return "nil"
	case types.ErrVoteUnexpectedStep:
		return "UnexpectedStep"
	case types.ErrVoteInvalidValidatorIndex:
		return "InvalidValidatorIndex"
	case types.ErrVoteInvalidValidatorSize:
		return "InvalidValidatorSize"
	case types.ErrVoteInvalidValidatorAddress:
		return "InvalidValidatorAddress"
	case types.ErrVoteInvalidSignature:
		return "InvalidSignature"
	case types.ErrVoteNonDeterministicSignature:
		return "NonDeterministicSignature"
	}
	if _, ok := e.(*types.ErrVoteConflictingVotes); ok {
		return "ConflictingVotes"
	}
	return "other"
}

// checkReturn compares what AddVote returned with what the vote's specification and the votes submitted
// before it allow.  Returns false after a (known) violation.
func (md *vsModel) checkReturn(t vstat.TB, m *mvote, added bool, err error, hist func() string) bool {
	w := md.w
	root := cause(err)
	valid := w.structural(m) && m.binds(m.slot, w.chain)
	sameSig := func(prior []*mvote) (same, other bool) {
		for _, p := range prior {
			if p.claim.Bid == m.claim.Bid {
				if p.v.Signature.Equals(m.v.Signature) {
					same = true
				} else {
					other = true
				}
			}
		}
		return
	}
	if !valid {
		vstat.Label("ret_invalid_" + errName(root))
		if added {
			return vstat.Violation(t, P, "voteset:invalid-vote-admitted", "AddVote admitted %v (err=%v) ; %s", m, err, hist())
		}
		if err == nil {
			// (false, nil) means "already have it".  Tolerated only when the validator of that slot really
			// has submitted a valid vote for the same block with byte-identical signature.
			if w.structural(m) {
				if same, _ := sameSig(md.byVal[m.slot]); same {
					return true
				}
			}
			return vstat.Violation(t, P, "voteset:invalid-vote-not-rejected", "AddVote returned (false, nil) for %v ; %s", m, hist())
		}
		acc := map[error]bool{}
		inRange := m.slot >= 0 && m.slot < w.n
		if !inRange {
			acc[types.ErrVoteInvalidValidatorIndex] = true
		}
		if len(m.v.ValidatorAddress) == 0 || (inRange && m.addrOf != m.slot) {
			acc[types.ErrVoteInvalidValidatorAddress] = true
		}
		if m.size != w.n {
			acc[types.ErrVoteInvalidValidatorSize] = true
		}
		if m.claim.H != w.H || m.claim.R != w.R || m.claim.Typ != w.T {
			acc[types.ErrVoteUnexpectedStep] = true
		}
		if w.structural(m) {
			acc[types.ErrVoteInvalidSignature] = true
			if same, other := sameSig(md.byVal[m.slot]); same || other {
				acc[types.ErrVoteNonDeterministicSignature] = true // a different signature for a vote we hold
			}
		}
		if !acc[root] {
			return vstat.Violation(t, P, "voteset:wrong-error-class", "AddVote rejected %v with %q (%v), defects allow %v ; %s", m, errName(root), err, accNames(acc), hist())
		}
		return true
	}
	// ---- valid vote of validator i for block X
	i, X := m.slot, m.claim.Bid
	prior := md.byVal[i]
	otherBlock := false
	for _, p := range prior {
		if p.claim.Bid != X {
			otherBlock = true
		}
	}
	same, other := sameSig(prior)
	vstat.Label("ret_valid_" + errName(root))
	switch {
	case len(prior) == 0:
		if !added || err != nil {
			return vstat.Violation(t, P, "voteset:valid-vote-rejected", "first valid vote %v of validator %d returned (%v, %v) ; %s", m, i, added, err, hist())
		}
	case !otherBlock:
		// only votes for the same block before: the first of them is held
		first := prior[0].v.Signature.Equals(m.v.Signature)
		if added || (first && err != nil) || (!first && root != types.ErrVoteNonDeterministicSignature) {
			return vstat.Violation(t, P, "voteset:duplicate-handling", "repeated vote %v (same signature as held: %v) returned (%v, %v) ; %s", m, first, added, err, hist())
		}
	default:
		ce, isConflict := err.(*types.ErrVoteConflictingVotes)
		if !isConflict {
			// only acceptable if the very block was voted before by i (then it may be held already)
			ok := !added && ((same && err == nil) || (other && root == types.ErrVoteNonDeterministicSignature))
			if !ok {
				return vstat.Violation(t, P, "voteset:conflict-not-surfaced", "validator %d voted for other blocks before, vote %v returned (%v, %v) instead of conflicting-votes evidence ; %s", i, m, added, err, hist())
			}
			return true
		}
		okA := false
		if ce.DuplicateVoteEvidence != nil {
			for _, p := range prior {
				if p.v == ce.VoteA && p.claim.Bid != X {
					okA = true
				}
			}
		}
		if ce.DuplicateVoteEvidence == nil || !okA || ce.VoteB != m.v || ce.PubKey == nil || !ce.PubKey.Equals(w.keys[i].PubKey()) {
			return vstat.Violation(t, P, "voteset:conflict-evidence-wrong", "conflict for %v does not carry both votes of validator %d: %+v ; %s", m, i, ce.DuplicateVoteEvidence, hist())
		}
		if added && !md.claimed[X] {
			return vstat.Violation(t, P, "voteset:conflicting-vote-counted", "conflicting vote %v added although no peer claimed a majority for block #%d ; %s", m, X, hist())
		}
		vstat.Label("conflict_surfaced")
	}
	return true
}

func accNames(acc map[error]bool) []string {
	var s []string
	for e := range acc {
		s = append(s, errName(e))
	}
	sort.Strings(s)
	return s
}

// checkState compares every observable of the vote set with the reference after an operation.
func (md *vsModel) checkState(t vstat.TB, vs *types.VoteSet, verifyCommit bool, hist func() string) bool {
	w := md.w
	// --- round total
	votersPower := w.powerOf(md.voters)
	mm := sumRe.FindStringSubmatch(vs.BitArrayString())
	if mm == nil {
		t.Fatalf("harness: cannot parse BitArrayString %q", vs.BitArrayString())
	}
	sum, _ := new(big.Int).SetString(mm[1], 10)
	if sum.Cmp(votersPower) != 0 {
		return vstat.Violation(t, P, "voteset:round-total-wrong", "sum=%v, validators that have voted validly hold %v (powers %v, voters %v) ; %s", sum, votersPower, w.power, keysOf(md.voters), hist())
	}
	if got, want := vs.HasTwoThirdsAny(), moreThanTwoThirds(votersPower, w.total); got != want {
		return vstat.Violation(t, P, "voteset:two-thirds-any-wrong", "HasTwoThirdsAny=%v, voted power %v of %v ; %s", got, votersPower, w.total, hist())
	}
	if got, want := vs.HasAll(), votersPower.Cmp(w.total) == 0; got != want {
		return vstat.Violation(t, P, "voteset:has-all-wrong", "HasAll=%v, voted power %v of %v ; %s", got, votersPower, w.total, hist())
	}
	ba := bitsOf(vs.BitArray(), w.n)
	for i := 0; i < w.n; i++ {
		if ba[i] != md.voters[i] {
			return vstat.Violation(t, P, "voteset:bitarray-wrong", "BitArray[%d]=%v but validator has voted validly: %v ; %s", i, ba[i], md.voters[i], hist())
		}
		g := vs.GetByIndex(i)
		if (g != nil) != md.voters[i] {
			return vstat.Violation(t, P, "voteset:bitarray-wrong", "GetByIndex(%d) non-nil=%v but validator has voted validly: %v ; %s", i, g != nil, md.voters[i], hist())
		}
		if g != nil {
			mv := md.byPtr[g]
			found := false
			for _, p := range md.byVal[i] {
				found = found || p == mv
			}
			if mv == nil || !found {
				return vstat.Violation(t, P, "voteset:foreign-vote-held", "GetByIndex(%d) holds a vote that is not a valid submitted vote of that validator: %v ; %s", i, g, hist())
			}
		}
	}
	// --- per block id
	for X := range w.blocks {
		bb := vs.BitArrayByBlockID(w.blocks[X])
		bits := bitsOf(bb, w.n)
		for i := 0; i < w.n; i++ {
			if bits[i] && !md.perBlock[X][i] {
				return vstat.Violation(t, P, "voteset:block-tally-foreign", "validator %d counted for block #%d without a valid vote for it ; %s", i, X, hist())
			}
			if !md.equiv && bits[i] != md.perBlock[X][i] {
				return vstat.Violation(t, P, "voteset:block-tally-incomplete", "nobody equivocated; validator %d counted for block #%d: %v, reference %v ; %s", i, X, bits[i], md.perBlock[X][i], hist())
			}
		}
	}
	// --- reported majority
	id, ok := vs.TwoThirdsMajority()
	if vs.HasTwoThirdsMajority() != ok || vs.IsCommit() != (ok && w.T == types.VoteTypePrecommit) {
		return vstat.Violation(t, P, "voteset:majority-accessors-disagree", "TwoThirdsMajority ok=%v HasTwoThirdsMajority=%v IsCommit=%v ; %s", ok, vs.HasTwoThirdsMajority(), vs.IsCommit(), hist())
	}
	if !ok {
		if md.reported >= 0 {
			return vstat.Violation(t, P, "voteset:majority-changed", "majority for block #%d was reported and is gone ; %s", md.reported, hist())
		}
	} else {
		X := w.blockIndex(id)
		if X < 0 {
			return vstat.Violation(t, P, "voteset:majority-without-two-thirds", "majority reported for a block id nobody voted for: %v ; %s", id, hist())
		}
		if md.reported >= 0 && md.reported != X {
			return vstat.Violation(t, P, "voteset:majority-changed", "majority was block #%d, now #%d ; %s", md.reported, X, hist())
		}
		tally := w.powerOf(md.perBlock[X])
		if !moreThanTwoThirds(tally, w.total) {
			return vstat.Violation(t, P, "voteset:majority-without-two-thirds", "majority reported for block #%d; valid votes of distinct validators for it hold %v of %v (powers %v, voters %v) ; %s", X, tally, w.total, w.power, keysOf(md.perBlock[X]), hist())
		}
		first := md.reported < 0
		md.reported = X
		if (first || verifyCommit) && w.T == types.VoteTypePrecommit {
			var c *types.Commit
			var err error
			if pan := try(func() { c = vs.MakeCommit(); err = w.vs.VerifyCommit(w.chain, id, w.H, c) }); pan != nil {
				return vstat.Violation(t, P, "voteset:makecommit-does-not-verify", "MakeCommit/VerifyCommit panicked: %v ; %s", pan, hist())
			}
			if err != nil || !c.BlockID.Equals(id) {
				return vstat.Violation(t, P, "voteset:makecommit-does-not-verify", "MakeCommit() of a reported majority for block #%d fails VerifyCommit: %v ; %s", X, err, hist())
			}
			// and the reference agrees on the very same slots
			slots := make([]*mvote, len(c.Precommits))
			for k, pv := range c.Precommits {
				if pv != nil {
					slots[k] = md.byPtr[pv]
				}
			}
			if want, why, tl := w.refVerifyCommit(w.chain, X, w.H, slots); !want {
				return vstat.Violation(t, P, "voteset:makecommit-does-not-verify", "MakeCommit() for block #%d is not a commit by the reference (%s, tally %v of %v) ; %s", X, why, tl, w.total, hist())
			}
			vstat.Label("makecommit_verified")
		}
	}
	if !md.equiv {
		want := -1
		for X := range w.blocks {
			if moreThanTwoThirds(w.powerOf(md.perBlock[X]), w.total) {
				want = X
			}
		}
		if (want >= 0) != ok {
			return vstat.Violation(t, P, "voteset:majority-missed", "nobody equivocated; reference majority block #%d, reported ok=%v ; powers %v ; %s", want, ok, w.power, hist())
		}
	}
	return true
}

func keysOf(m map[int]bool) []int {
	var s []int
	for k := range m {
		s = append(s, k)
	}
	sort.Ints(s)
	return s
}

func newModel(w *world, pool []*mvote) *vsModel {
	md := &vsModel{w: w, byVal: make([][]*mvote, w.n), voters: map[int]bool{}, claimed: map[int]bool{}, reported: -1, byPtr: map[*types.Vote]*mvote{}}
	for range w.blocks {
		md.perBlock = append(md.perBlock, map[int]bool{})
	}
	for _, m := range pool {
		md.byPtr[m.v] = m
	}
	return md
}

// record a submitted vote in the reference (after the return value has been judged against the prior state).
func (md *vsModel) record(m *mvote) {
	w := md.w
	if !(w.structural(m) && m.binds(m.slot, w.chain)) {
		return
	}
	i := m.slot
	for _, p := range md.byVal[i] {
		if p.claim.Bid != m.claim.Bid {
			md.equiv = true
		}
	}
	md.byVal[i] = append(md.byVal[i], m)
	md.voters[i] = true
	md.perBlock[m.claim.Bid][i] = true
}

// runVoteSet feeds the operations to a fresh VoteSet, checking after every one.
func runVoteSet(t vstat.TB, w *world, pool []*mvote, ops []op) (md *vsModel, okRun bool) {
	vs := types.NewVoteSet(w.chain, w.H, w.R, w.T, w.vs)
	md = newModel(w, pool)
	var log []string
	hist := func() string {
		return fmt.Sprintf("set chain=%q H=%d R=%d T=%d n=%d powers=%v total=%v ; history: %s", w.chain, w.H, w.R, w.T, w.n, w.power, w.total, strings.Join(log, " ; "))
	}
	if !md.checkState(t, vs, false, hist) {
		return md, false
	}
	for k, o := range ops {
		if o.vote < 0 {
			log = append(log, fmt.Sprintf("#%d SetPeerMaj23(%s, block#%d)", k, o.peer, o.claim))
			var err error
			if pan := try(func() { err = vs.SetPeerMaj23(o.peer, w.blocks[o.claim]) }); pan != nil {
				vstat.Violation(t, P, "voteset:panic", "SetPeerMaj23 panicked: %v ; %s", pan, hist())
				return md, false
			}
			if err == nil {
				md.claimed[o.claim] = true
			}
			if !md.checkState(t, vs, false, hist) {
				return md, false
			}
			continue
		}
		m := pool[o.vote]
		log = append(log, fmt.Sprintf("#%d AddVote%v", k, m))
		var added bool
		var err error
		if pan := try(func() { added, err = vs.AddVote(m.v) }); pan != nil {
			vstat.Violation(t, P, "voteset:panic", "AddVote panicked: %v ; %s", pan, hist())
			return md, false // the set's mutex may be held: abandon
		}
		log[len(log)-1] += fmt.Sprintf(" -> (%v, %s)", added, errName(cause(err)))
		if !md.checkReturn(t, m, added, err, hist) {
			return md, false
		}
		md.record(m)
		md.submitted++
		// MakeCommit is re-verified whenever a vote got in after the majority (or conflicted with it)
		if !md.checkState(t, vs, md.reported >= 0 && (added || err != nil), hist) {
			return md, false
		}
	}
	return md, true
}

func genOps(t *rapid.T, w *world, pool []*mvote) []op {
	idx := seq(0, len(pool)-1)
	var ops []op
	if len(idx) > 0 {
		for _, k := range rapid.Permutation(idx).Draw(t, "order") {
			ops = append(ops, op{vote: k})
		}
	}
	nc := rapid.SampledFrom([]int{0, 0, 1, 2, 3}).Draw(t, "nclaims")
	for c := 0; c < nc; c++ {
		o := op{vote: -1, peer: rapid.SampledFrom([]string{"p1", "p2", "p3"}).Draw(t, "peer"), claim: rapid.SampledFrom(append([]int{1, 1, 2, 0}, seq(2, len(w.blocks)-1)...)).Draw(t, "claimblock")}
		at := rapid.IntRange(0, len(ops)).Draw(t, "claimat")
		ops = append(ops[:at], append([]op{o}, ops[at:]...)...)
	}
	return ops
}

func classify(w *world, kinds []string, tallyB *big.Int) (nontrivial bool, equivocation, transplant bool) {
	vstat.Label(fmt.Sprintf("n_%02d", w.n))
	vstat.Label("shape_" + w.shape)
	if w.zeros > 0 {
		vstat.Label("has_zero_power")
		if w.total.Sign() == 0 {
			vstat.Label("total_zero")
		}
	}
	if w.total.Cmp(bi(1<<61)) > 0 {
		vstat.Label("total_above_2^61")
	}
	seen := map[string]bool{}
	for _, k := range kinds {
		if !seen[k] {
			vstat.Label("defect_" + k)
			seen[k] = true
		}
		equivocation = equivocation || k == "equivocate"
		transplant = transplant || transplantKinds[k]
	}
	vstat.Label("B_" + w.boundaryLabel(tallyB))
	return w.near(tallyB) || equivocation || transplant, equivocation, transplant
}

func runVoteSetCase(t *rapid.T) {
	vstat.Eval()
	w := genWorld(t, 12)
	pool, kinds := w.genPool(t)
	ops := genOps(t, w, pool)
	md, ok := runVoteSet(t, w, pool, ops)
	if !ok {
		return
	}
	if w.T == types.VoteTypePrevote {
		vstat.Label("type_prevote")
	}
	if md.equiv {
		vstat.Label("run_equivocation_effective")
	}
	if md.reported >= 0 {
		vstat.Label(fmt.Sprintf("majority_block_%d", min(md.reported, 2)))
	} else {
		vstat.Label("majority_none")
	}
	if len(md.claimed) > 0 {
		vstat.Label("has_peer_claim")
	}
	tallyB := w.powerOf(md.perBlock[1])
	if nt, _, _ := classify(w, kinds, tallyB); nt {
		var order []string
		for _, o := range ops {
			order = append(order, fmt.Sprintf("%d/%s%d", o.vote, o.peer, o.claim))
		}
		vstat.NonTrivial(fmt.Sprintf("vs|%v|%d|%d|%d|%v|%v", w.power, w.H, w.R, w.T, kinds, order))
		if vstat.WantSample() {
			vstat.Sample(map[string]interface{}{"test": "voteset", "powers": fmt.Sprint(w.power), "total": w.total.String(), "choices": kinds, "ops": order,
				"tally_for_B": tallyB.String(), "reported_majority_block": md.reported, "equivocation": md.equiv})
		}
	}
}

func TestVoteSet(t *testing.T) { rapid.Check(t, runVoteSetCase) }

// ---------------------------------------------------------------- VerifyCommit on commit objects

func runCommitCase(t *rapid.T) {
	vstat.Eval()
	w := genWorld(t, 12)
	w.T = types.VoteTypePrecommit // pool of precommits (the "wrongType" votes are then prevotes etc.)
	pool, kinds := w.genPool(t)
	owned := make([][]*mvote, w.n)
	for _, m := range pool {
		owned[m.owner] = append(owned[m.owner], m)
	}
	var fps []string
	nearAny := false
	var tallyB *big.Int
	for c := 0; c < 4; c++ {
		// base assignment
		slots := make([]*mvote, w.n)
		mode := rapid.SampledFrom([]string{"natural", "natural", "natural", "random"}).Draw(t, "cmode")
		for i := range slots {
			switch {
			case mode == "natural" && len(owned[i]) > 0:
				slots[i] = rapid.SampledFrom(owned[i]).Draw(t, "pick")
			case mode == "random" && len(pool) > 0 && rapid.IntRange(0, 3).Draw(t, "some") != 0:
				slots[i] = rapid.SampledFrom(pool).Draw(t, "pick")
			}
		}
		if c == 0 {
			tallyB = w.propertyTally(w.chain, 1, w.H, w.R, slots)
		}
		// mutations: slots permuted / duplicated / dropped / truncated / padded
		var muts []string
		for k := rapid.SampledFrom([]int{0, 0, 0, 1, 1, 2}).Draw(t, "nmut"); k > 0; k-- {
			mu := rapid.SampledFrom([]string{"swap", "copy", "drop", "truncate", "pad", "foreign", "shift"}).Draw(t, "mut")
			muts = append(muts, mu)
			switch mu {
			case "swap":
				if len(slots) >= 2 {
					a, b := rapid.IntRange(0, len(slots)-1).Draw(t, "a"), rapid.IntRange(0, len(slots)-1).Draw(t, "b")
					slots[a], slots[b] = slots[b], slots[a]
				}
			case "copy": // the same precommit in two slots
				if len(slots) >= 2 {
					a, b := rapid.IntRange(0, len(slots)-1).Draw(t, "a"), rapid.IntRange(0, len(slots)-1).Draw(t, "b")
					slots[b] = slots[a]
				}
			case "drop":
				if len(slots) >= 1 {
					slots[rapid.IntRange(0, len(slots)-1).Draw(t, "a")] = nil
				}
			case "truncate":
				slots = slots[:rapid.IntRange(0, len(slots)).Draw(t, "len")]
			case "pad":
				var e *mvote
				if len(pool) > 0 && rapid.Bool().Draw(t, "padvote") {
					e = rapid.SampledFrom(pool).Draw(t, "pick")
				}
				slots = append(slots, e)
			case "foreign":
				if len(slots) >= 1 && len(pool) > 0 {
					slots[rapid.IntRange(0, len(slots)-1).Draw(t, "a")] = rapid.SampledFrom(pool).Draw(t, "pick")
				}
			case "shift": // every precommit one slot further
				if len(slots) >= 2 {
					slots = append(slots[len(slots)-1:], slots[:len(slots)-1]...)
				}
			}
		}
		chain, X, h := w.chain, 1, w.H
		if rapid.IntRange(0, 11).Draw(t, "pchain") == 0 {
			chain = w.otherChain
		}
		if rapid.IntRange(0, 5).Draw(t, "pblock") == 0 {
			X = rapid.IntRange(0, len(w.blocks)-1).Draw(t, "X")
		}
		if rapid.IntRange(0, 11).Draw(t, "pheight") == 0 {
			h = w.altHeight(t)
		}
		_, tally := w.checkCommit(t, "commit", chain, X, h, slots)
		if w.near(tally) {
			nearAny = true
		}
		var sk []string
		for _, m := range slots {
			if m == nil {
				sk = append(sk, "-")
			} else {
				sk = append(sk, fmt.Sprintf("%s@%d", m.kind, m.owner))
			}
		}
		for _, mu := range muts {
			vstat.Label("mut_" + mu)
		}
		fps = append(fps, fmt.Sprintf("%s|%v|%s|%d|%d|%v", mode, muts, chain, X, h, sk))
	}
	nt, _, _ := classify(w, kinds, tallyB)
	if nt || nearAny {
		vstat.NonTrivial(fmt.Sprintf("vc|%v|%d|%d|%v|%v", w.power, w.H, w.R, kinds, fps))
		if vstat.WantSample() {
			vstat.Sample(map[string]interface{}{"test": "verifycommit", "powers": fmt.Sprint(w.power), "total": w.total.String(), "choices": kinds, "commits": fps})
		}
	}
}

func TestVerifyCommit(t *testing.T) { rapid.Check(t, runCommitCase) }

// ---------------------------------------------------------------- MultiSignAccountTx.VerifySign

type msEntry struct {
	e      types.ValidatorSign
	kind   string
	addrOf int  // validator whose address the entry carries, -1 unknown
	good   bool // well-formed signature of validator addrOf over the tx's main info
	broken bool // signature bytes that do not decode
}

func runMultiSignCase(t *rapid.T) {
	vstat.Eval()
	w := genWorld(t, 12)
	main := types.MultiSignMainInfo{
		AccountNonce:  uint64(rapid.IntRange(0, 5).Draw(t, "nonce")),
		SupportTxType: types.SupportType(rapid.IntRange(0, 1).Draw(t, "txtype")),
		SignersInfo: types.SignersInfo{MinSignerPower: int32(rapid.IntRange(0, 3).Draw(t, "minpower")), Signers: []*types.SignerEntry{
			{Power: 1, Addr: common.BytesToAddress([]byte{1})}, {Power: 2, Addr: common.BytesToAddress([]byte{2})}}[:rapid.IntRange(0, 2).Draw(t, "nsigners")]},
	}
	other := main
	other.AccountNonce++
	msg, err := types.GenMultiSignBytes(main)
	omsg, err2 := types.GenMultiSignBytes(other)
	if err != nil || err2 != nil {
		t.Fatalf("harness: GenMultiSignBytes: %v %v", err, err2)
	}
	sign := func(signer int, m []byte) []byte {
		s, _ := w.key(signer).Sign(m)
		return s.Bytes() // what FilePV.SignData / MultiSignAccountTx.Sign put on the wire
	}
	honesty := rapid.SampledFrom([]int{30, 45, 55, 67, 75, 85, 95}).Draw(t, "honesty")
	var entries []msEntry
	var kinds []string
	for i := 0; i < w.n; i++ {
		kind := "good"
		if rapid.IntRange(0, 99).Draw(t, "roll") >= honesty {
			kind = rapid.SampledFrom([]string{"absent", "absent", "dupGood", "badAndGood", "transplant", "otherBytes", "unknownAddr", "broken", "flipped"}).Draw(t, "kind")
		}
		kinds = append(kinds, kind)
		good := msEntry{e: types.ValidatorSign{Addr: w.addr(i), Signature: sign(i, msg)}, kind: kind, addrOf: i, good: true}
		bad := func(sig []byte) msEntry {
			return msEntry{e: types.ValidatorSign{Addr: w.addr(i), Signature: sig}, kind: kind, addrOf: i}
		}
		companion := func() {
			if rapid.Bool().Draw(t, "companion") {
				entries = append(entries, good)
			}
		}
		switch kind {
		case "absent":
		case "good":
			entries = append(entries, good)
		case "dupGood":
			entries = append(entries, good, good)
		case "badAndGood":
			entries = append(entries, bad(sign(i, omsg)), good)
		case "transplant": // another validator's (or an outsider's) good signature under i's address
			j := -1
			if w.n > 1 && rapid.Bool().Draw(t, "member") {
				j = rapid.IntRange(0, w.n-2).Draw(t, "j")
				if j >= i {
					j++
				}
			}
			entries = append(entries, bad(sign(j, msg)))
			companion()
		case "otherBytes": // own signature over other main info
			entries = append(entries, bad(sign(i, omsg)))
			companion()
		case "unknownAddr":
			entries = append(entries, msEntry{e: types.ValidatorSign{Addr: w.outsider.PubKey().Address(), Signature: sign(-1, msg)}, kind: kind, addrOf: -1})
		case "broken":
			s := sign(i, msg)
			b := rapid.SampledFrom([][]byte{nil, {}, s[:len(s)-1], s[1:], append(append([]byte{}, s...), 0)}).Draw(t, "brokenbytes")
			e := bad(b)
			e.broken = true
			entries = append(entries, e)
			companion()
		case "flipped":
			s := sign(i, msg)
			s[len(s)-3] ^= 4
			entries = append(entries, bad(s))
			companion()
		}
	}
	if len(entries) > 1 {
		entries = rapid.Permutation(entries).Draw(t, "order")
	}
	sigs := make([]types.ValidatorSign, len(entries))
	for i, e := range entries {
		sigs[i] = e.e
	}
	tx := types.NewMultiSignAccountTx(&main, sigs)
	var verr error
	if pan := try(func() { verr = tx.VerifySign(w.vs) }); pan != nil {
		vstat.Violation(t, P, "multisign:panic", "VerifySign panicked: %v ; powers %v entries %v", pan, w.power, descEntries(entries))
		return
	}
	// reference 1 (the property): distinct validators with a good signature
	signers := map[int]bool{}
	for _, e := range entries {
		if e.good {
			signers[e.addrOf] = true
		}
	}
	tally := w.powerOf(signers)
	if verr == nil && !moreThanTwoThirds(tally, w.total) {
		vstat.Violation(t, P, "multisign:accepts-without-two-thirds", "VerifySign accepted; distinct validators with a valid signature hold %v of %v ; powers %v entries %v", tally, w.total, w.power, descEntries(entries))
		return
	}
	// reference 2 (both directions): entries are examined in order; an unknown address, undecodable
	// signature bytes or a second entry of a validator already counted reject the transaction; invalid
	// signatures are skipped; the transaction is accepted as soon as the counted power exceeds 2/3.
	want, why := false, "power"
	counted := map[int]bool{}
	run := new(big.Int)
	for _, e := range entries {
		if e.addrOf >= 0 && counted[e.addrOf] {
			why = "duplicate"
			break
		}
		if e.addrOf < 0 {
			why = "unknown"
			break
		}
		if e.broken {
			why = "broken"
			break
		}
		if !e.good {
			continue
		}
		counted[e.addrOf] = true
		run.Add(run, bi(w.power[e.addrOf]))
		if moreThanTwoThirds(run, w.total) {
			want, why = true, ""
			break
		}
	}
	if want != (verr == nil) {
		vstat.Violation(t, P, "multisign:verdict-differs", "VerifySign returned %v, reference accept=%v (%s), valid distinct power %v of %v ; powers %v entries %v", verr, want, why, tally, w.total, w.power, descEntries(entries))
		return
	}
	if want {
		vstat.Label("ms_accept")
	} else {
		vstat.Label("ms_reject_" + why)
	}
	seen := map[string]bool{}
	transplant := false
	for _, k := range kinds {
		if !seen[k] {
			vstat.Label("ms_kind_" + k)
			seen[k] = true
		}
		transplant = transplant || k == "transplant" || k == "otherBytes"
	}
	vstat.Label("ms_" + w.boundaryLabel(tally))
	vstat.Label("shape_" + w.shape)
	if w.near(tally) || transplant || seen["dupGood"] {
		vstat.NonTrivial(fmt.Sprintf("ms|%v|%v|%v", w.power, kinds, descEntries(entries)))
		if vstat.WantSample() {
			vstat.Sample(map[string]interface{}{"test": "multisign", "powers": fmt.Sprint(w.power), "total": w.total.String(), "choices": kinds, "entries": descEntries(entries), "accepted": verr == nil})
		}
	}
}

func descEntries(es []msEntry) []string {
	var s []string
	for _, e := range es {
		s = append(s, fmt.Sprintf("%s@%d", e.kind, e.addrOf)+map[bool]string{true: "+", false: "-"}[e.good])
	}
	return s
}

func TestMultiSign(t *testing.T) { rapid.Check(t, runMultiSignCase) }

// ---------------------------------------------------------------- exhaustive boundary enumeration (plain)

// fixedWorld builds a world with the given powers (validator i of the pool gets powers[i]; indices are
// then the set's address order).
func fixedWorld(powers []int64) *world {
	w := &world{chain: "c03-chain", otherChain: "c03-chain2", H: 5, R: 1, T: types.VoteTypePrecommit, n: len(powers), shape: "fixed"}
	vals := make([]*types.Validator, w.n)
	byAddr := map[string]int{}
	for i := range powers {
		pk := keyPool[i].PubKey()
		vals[i] = types.NewValidator(pk, common.EmptyAddress, powers[i])
		byAddr[string(pk.Address())] = i
	}
	w.outsider = keyPool[poolKeys-1]
	w.vs = types.NewValidatorSet(vals)
	w.total = new(big.Int)
	for _, v := range w.vs.Validators {
		w.keys = append(w.keys, keyPool[byAddr[string(v.Address)]])
		w.power = append(w.power, v.VotingPower)
		w.total.Add(w.total, bi(v.VotingPower))
		if v.VotingPower > w.maxPower {
			w.maxPower = v.VotingPower
		}
		if v.VotingPower == 0 {
			w.zeros++
		}
	}
	h := common.BytesToHash(sha("fixed-block"))
	w.blocks = []types.BlockID{{}, {Hash: h, PartsHeader: types.PartSetHeader{Total: 2, Hash: sha("fixed-parts")}}, {Hash: h, PartsHeader: types.PartSetHeader{Total: 3, Hash: sha("fixed-parts")}}}
	return w
}

// TestBoundaryEnumeration: for small validator sets whose subsets hit the 2/3 boundary exactly, EVERY
// subset of voters (the others vote for another block) is run through VerifyCommit, a VoteSet and
// VerifySign.  This pins the strictness of the comparison deterministically.
func TestBoundaryEnumeration(t *testing.T) {
	third := maxTotal / 3 // 2^62-1 is divisible by 3
	sets := [][]int64{
		{1}, {5}, {maxTotal}, {1, 1}, {2, 1}, {1, 1, 1}, {3, 3, 3}, {2, 2, 1, 1}, {4, 1, 1}, {1, 1, 1, 1}, {1, 1, 1, 1, 1, 1}, {1, 2, 3, 4, 5},
		{2 * third, third}, {2*third + 1, third - 1}, {2*third - 1, third + 1}, {third, third, third}, {third, third, third - 1, 1},
		{0, 1, 1, 1}, {0, 0, 3}, {0, 0}, {0, 2, 1}, {10, 10, 10, 10, 10, 10, 10}, {7, 5, 3, 2, 1, 1, 1, 1},
	}
	for _, powers := range sets {
		w := fixedWorld(powers)
		for mask := 0; mask < 1<<uint(w.n); mask++ {
			vstat.Eval()
			var pool []*mvote
			slots := make([]*mvote, w.n)
			in := map[int]bool{}
			for i := 0; i < w.n; i++ {
				b := 2
				if mask&(1<<uint(i)) != 0 {
					b = 1
					in[i] = true
				}
				slots[i] = w.good(i, fmt.Sprintf("for#%d", b), b, 0)
				pool = append(pool, slots[i])
			}
			tally := w.powerOf(in)
			want := moreThanTwoThirds(tally, w.total)
			if ref, _, _ := w.refVerifyCommit(w.chain, 1, w.H, slots); ref != want {
				t.Fatalf("harness: the two references disagree: powers %v mask %b", powers, mask)
			}
			w.checkCommit(t, "enum", w.chain, 1, w.H, slots)
			var ops []op
			for i := range pool {
				ops = append(ops, op{vote: i})
			}
			md, ok := runVoteSet(t, w, pool, ops)
			if ok && (md.reported == 1) != want {
				vstat.Violation(t, P, "voteset:majority-missed", "enum: powers %v voters %v: reported block #%d, reference majority for B: %v", w.power, keysOf(in), md.reported, want)
			}
			// VerifySign with the same signers
			main := types.MultiSignMainInfo{AccountNonce: 1}
			msg, _ := types.GenMultiSignBytes(main)
			var sigs []types.ValidatorSign
			for i := 0; i < w.n; i++ {
				if in[i] {
					s, _ := w.keys[i].Sign(msg)
					sigs = append(sigs, types.ValidatorSign{Addr: w.addr(i), Signature: s.Bytes()})
				}
			}
			var verr error
			if pan := try(func() { verr = types.NewMultiSignAccountTx(&main, sigs).VerifySign(w.vs) }); pan != nil {
				vstat.Violation(t, P, "multisign:panic", "enum: VerifySign panicked: %v ; powers %v signers %v", pan, w.power, keysOf(in))
			} else if (verr == nil) != want {
				key := "multisign:verdict-differs"
				if verr == nil {
					key = "multisign:accepts-without-two-thirds"
				}
				vstat.Violation(t, P, key, "enum: VerifySign returned %v; signers %v hold %v of %v (powers %v)", verr, keysOf(in), tally, w.total, w.power)
			}
			vstat.Label("enum_" + w.boundaryLabel(tally))
			if w.near(tally) {
				vstat.NonTrivial("enum|" + fmt.Sprint(powers) + "|" + strconv.Itoa(mask))
			}
		}
	}
}
