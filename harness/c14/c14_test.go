// C14 — the consensus write-ahead log replays what was written or reports corruption.
//
// One rapid case = one generated log: a sequence of WAL messages of every payload kind written through
// the real consensus.NewWAL / baseWAL over a real autofile.Group, with Group.RotateFile() called at
// generated points.  Around that log the damage is ENUMERATED (fault enumeration): every truncation
// offset (exhaustive for logs <= 4 KiB, every field boundary +-2 plus generated offsets above) and
// single-byte alterations of every field class of every record.  Each damaged copy is read back with
// the real WALDecoder over a real GroupReader and searched with the real SearchForEndHeight.
//
// The reference model is the harness' own parse of the intact files (crc32c | length | payload) plus the
// list of messages it asked the WAL to write.
package c14

import (
	"bytes"
	"encoding/binary"
	"fmt"
	"hash/crc32"
	"io"
	"os"
	"path/filepath"
	"sort"
	"strings"
	"testing"
	"time"

	cs "github.com/lianxiangcloud/linkchain/consensus"
	"github.com/lianxiangcloud/linkchain/libs/autofile"
	"github.com/lianxiangcloud/linkchain/libs/common"
	"github.com/lianxiangcloud/linkchain/libs/crypto"
	"github.com/lianxiangcloud/linkchain/libs/crypto/merkle"
	"github.com/lianxiangcloud/linkchain/libs/log"
	"github.com/lianxiangcloud/linkchain/libs/ser"
	"github.com/lianxiangcloud/linkchain/types"
	"pgregory.net/rapid"

	"verifharness/vstat"
)

const P = "C14"

// Root-cause keys of the findings this check meets on the unchanged tree (see KNOWN_FINDINGS.jsonl).
const (
	// Group.RotateFile does not flush the head's bufio.Writer: a record that the writer's automatic
	// flush (buffer full) left half on disk is split across two files, and SearchForEndHeight, which
	// starts decoding at the beginning of every file, then fails on a completely intact log.
	kSplit = "rotate:unflushed-head-buffer-splits-record-across-files"
	// A torn record (>= 4 bytes of it) at the end of the head makes WALDecoder return a plain error
	// ("failed to read length/data: EOF"); SearchForEndHeight aborts on it in its first pass (newest
	// file), so a marker completely written to an OLDER file is not found.
	kTorn = "search:torn-tail-in-head-aborts-search-before-older-files"
	// With IgnoreDataCorruptionErrors the search continues right behind the bytes the damaged length
	// field covered, i.e. possibly inside the payload of a block part, whose bytes the sender chooses:
	// a frame embedded there is taken for a record and a marker that was never written is "found".
	kResync = "search:ignore-corruption-resyncs-inside-payload-finds-unwritten-marker"
)

const (
	walName         = "wal"
	maxMsgSizeBytes = 1048576 + 4096 // consensus/wal.go: reactor maxMsgSize plus the WAL envelope allowance
	exhaustiveLimit = 4096           // logs up to this size get every truncation offset
	bufioSize       = 4096 * 10      // libs/autofile/group.go: size of the head's bufio.Writer
	// a height no generated log ever writes; the embedded ("sled") frames carry it
	fakeHeight = uint64(1)<<40 + 7
)

var (
	crc32c      = crc32.MakeTable(crc32.Castagnoli)
	scratchRoot string
	caseSeq     int
)

func TestMain(m *testing.M) {
	log.Root().SetHandler(log.DiscardHandler())
	scratchRoot = os.Getenv("VERIF_SCRATCH")
	if scratchRoot == "" {
		d, err := os.MkdirTemp("", "c14")
		if err != nil {
			panic(err)
		}
		scratchRoot = d
	}
	// the consensus package registers the WAL / consensus / block types with the serializer in its own
	// init() (consensus/wire.go); registering twice panics, so nothing is registered here.
	vstat.Main(m)
}

// ---------------------------------------------------------------- harness-side framing (independent of WALEncoder/WALDecoder)

func frame(payload []byte) []byte {
	out := make([]byte, 8+len(payload))
	binary.BigEndian.PutUint32(out[0:4], crc32.Checksum(payload, crc32c))
	binary.BigEndian.PutUint32(out[4:8], uint32(len(payload)))
	copy(out[8:], payload)
	return out
}

// describe renders VerifWALDescribe plus the dynamic type of the consensus message.
func describe(m cs.WALMessage) string {
	kind, cmsg, peer, ti := cs.VerifWALDescribe(m)
	return fmt.Sprintf("%s|%T|%q|%d|%d|%d|%d", kind, cmsg, peer, int64(ti.Duration), ti.Height, ti.Round, ti.Step)
}

// encodeTimed is the serialization the WAL stores for (t, m); panics are returned as errors.
func encodeTimed(t time.Time, m cs.WALMessage) (bz []byte, err error) {
	defer func() {
		if r := recover(); r != nil {
			err = fmt.Errorf("encode panic: %v", r)
		}
	}()
	return ser.MustEncodeToBytes(&cs.TimedWALMessage{Time: t, Msg: m}), nil
}

// ---------------------------------------------------------------- model of a written log

type rec struct {
	msg      cs.WALMessage
	desc     string
	kind     string
	sync     bool
	isMarker bool
	height   uint64
	sled     []byte // the embedded frame when the part's bytes are a sled of frames

	start, end int // [start,end) in the concatenated log; crc = [start,start+4), length = [start+4,start+8)
	file       int // index of the file holding start
	payload    []byte
}

type opRec struct {
	Kind string `json:"kind"`
	Sync bool   `json:"sync,omitempty"`
	N    int    `json:"n,omitempty"` // size of the part's bytes
	H    uint64 `json:"h,omitempty"` // marker height
	Rot  string `json:"rot,omitempty"`
}

type walLog struct {
	files   [][]byte // final contents in index order; the last one is the head
	bounds  []int    // bounds[i] = offset of file i in the concatenated log; bounds[len(files)] = total
	cat     []byte
	recs    []*rec
	markers []int // indices into recs of the end-height markers, in order
	split   bool  // some record straddles a file boundary
	ops     []opRec
	hasSled bool
	fp      string // cached fingerprint of the write history
}

func (lg *walLog) total() int { return len(lg.cat) }

// recAt: index of the record containing offset off (off < total).
func (lg *walLog) recAt(off int) int {
	return sort.Search(len(lg.recs), func(i int) bool { return lg.recs[i].end > off })
}

// complete: number of records that end at or before the cut.
func (lg *walLog) complete(cut int) int {
	return sort.Search(len(lg.recs), func(i int) bool { return lg.recs[i].end > cut })
}

func (lg *walLog) fileAt(off int) int {
	for i := len(lg.files) - 1; i >= 0; i-- {
		if off >= lg.bounds[i] {
			return i
		}
	}
	return 0
}

func fieldClass(rel int) string {
	switch {
	case rel < 4:
		return "crc"
	case rel < 8:
		return "len"
	}
	return "payload"
}

// opsString renders the write history compactly: kind[(n bytes)|@height][!] where ! marks WriteSync, xN repeats, / a rotation.
func (lg *walLog) opsString() string {
	var parts []string
	one := func(o opRec) string {
		s := o.Kind
		if o.N > 0 {
			s += fmt.Sprintf("(%d)", o.N)
		}
		if o.Kind == "endheight" {
			s += fmt.Sprintf("@%d", o.H)
		}
		if o.Sync {
			s += "!"
		}
		if o.Rot != "" {
			s += " /" + o.Rot + "/"
		}
		return s
	}
	for i := 0; i < len(lg.ops); {
		j := i
		for j+1 < len(lg.ops) && lg.ops[j+1] == lg.ops[i] && lg.ops[i].Rot == "" {
			j++
		}
		s := one(lg.ops[i])
		if j > i {
			s += fmt.Sprintf(" x%d", j-i+1)
		}
		parts = append(parts, s)
		i = j + 1
	}
	return strings.Join(parts, ", ")
}

func (lg *walLog) fingerprint() string {
	if lg.fp == "" {
		lg.fp = fmt.Sprintf("%016x", fnv64(lg.opsFingerprint()))
	}
	return lg.fp
}

func fnv64(s string) uint64 {
	h := uint64(14695981039346656037)
	for i := 0; i < len(s); i++ {
		h = (h ^ uint64(s[i])) * 1099511628211
	}
	return h
}

func (lg *walLog) opsFingerprint() string {
	var sb strings.Builder
	for _, o := range lg.ops {
		fmt.Fprintf(&sb, "%s%v%d.%d%s;", o.Kind, o.Sync, o.N, o.H, o.Rot)
	}
	return sb.String()
}

// ---------------------------------------------------------------- generators

// fill makes n bytes from a handful of draws (shape + seed), so that big parts do not cost one draw per byte.
func fill(t *rapid.T, label string, n int) []byte {
	out := make([]byte, n)
	switch rapid.IntRange(0, 5).Draw(t, label+"_shape") {
	case 0: // zeros: a torn tail of zeros is what a short read leaves in the decoder's buffer
	case 1:
		for i := range out {
			out[i] = 0xff
		}
	case 2:
		pat := rapid.SliceOfN(rapid.Byte(), 1, 8).Draw(t, label+"_pat")
		for i := range out {
			out[i] = pat[i%len(pat)]
		}
	default:
		x := rapid.Uint64().Draw(t, label+"_seed") | 1
		for i := range out {
			x ^= x << 13
			x ^= x >> 7
			x ^= x << 17
			out[i] = byte(x >> 24)
		}
	}
	return out
}

func genTime(t *rapid.T, label string) time.Time {
	sec := rapid.Int64Range(0, 4102444800).Draw(t, label+"_sec")
	ns := rapid.SampledFrom([]int64{0, 1, 255, 256, 65536, 16777216, 999999999}).Draw(t, label+"_ns")
	return time.Unix(sec, ns).UTC()
}

func genSig(t *rapid.T, label string) crypto.Signature {
	if rapid.IntRange(0, 9).Draw(t, label+"_nil") == 0 {
		return nil // an unsigned vote/proposal from a peer is logged before it is rejected
	}
	var s crypto.SignatureEd25519
	copy(s[:], fill(t, label, len(s)))
	return s
}

func genBlockID(t *rapid.T, label string) types.BlockID {
	if rapid.IntRange(0, 3).Draw(t, label+"_zero") == 0 {
		return types.BlockID{}
	}
	var h common.Hash
	copy(h[:], fill(t, label+"_hash", len(h)))
	return types.BlockID{Hash: h, PartsHeader: types.PartSetHeader{
		Total: rapid.IntRange(0, 64).Draw(t, label+"_total"),
		Hash:  fill(t, label+"_phash", 20),
	}}
}

func genPeer(t *rapid.T, label string) string {
	return fmt.Sprintf("%x", fill(t, label, rapid.SampledFrom([]int{1, 20}).Draw(t, label+"_len")))
}

// sledFrame is a well-formed WAL record for an end-height marker nobody writes.
func sledFrame() []byte {
	bz, err := encodeTimed(time.Unix(1600000000, 0).UTC(), cs.EndHeightMessage{Height: fakeHeight})
	if err != nil {
		panic(err)
	}
	return frame(bz)
}

type genState struct {
	height uint64 // height the node is working on; the next marker closes it
	big    bool   // this log may carry multi-KB parts
}

var stepNames = []string{"RoundStepNewHeight", "RoundStepNewRound", "RoundStepPropose", "RoundStepPrevote",
	"RoundStepPrevoteWait", "RoundStepPrecommit", "RoundStepPrecommitWait", "RoundStepCommit", "RoundStepRecover"}

// genMessage draws one WAL message the way the node writes them (consensus/state.go): messages from peers, timeouts
// and round-state events go through Write, the node's own messages and end-height markers through WriteSync.
func genMessage(t *rapid.T, st *genState, allowSled bool) (r *rec, op opRec) {
	kinds := []string{"vote", "vote", "vote", "part", "part", "part", "proposal", "timeout", "timeout",
		"roundstate", "roundstate", "endheight", "endheight"}
	ownOneIn := 4
	if st.big {
		// a node that is catching up: mostly block parts from peers, which go through Write (no flush), so that the
		// head's 40 KiB buffer fills up and flushes itself in the middle of a record
		kinds = []string{"vote", "vote", "vote", "part", "part", "part", "part", "part", "part", "part", "part", "part", "part", "part", "part",
			"part", "part", "part", "proposal", "timeout", "timeout", "roundstate", "roundstate", "endheight"}
		ownOneIn = 40
	}
	kind := rapid.SampledFrom(kinds).Draw(t, "kind")
	r = &rec{kind: kind}
	op.Kind = kind
	own := rapid.IntRange(0, ownOneIn-1).Draw(t, "own") == 0
	peer := ""
	if !own {
		peer = genPeer(t, "peer")
	}
	round := rapid.IntRange(0, 3).Draw(t, "round")
	switch kind {
	case "vote":
		v := &types.Vote{
			ValidatorAddress: fill(t, "addr", 20),
			ValidatorIndex:   rapid.IntRange(0, 200).Draw(t, "vidx"),
			ValidatorSize:    rapid.IntRange(0, 200).Draw(t, "vsize"),
			Height:           st.height,
			Round:            round,
			Timestamp:        genTime(t, "ts"),
			Type:             rapid.SampledFrom([]byte{types.VoteTypePrevote, types.VoteTypePrecommit}).Draw(t, "vtype"),
			BlockID:          genBlockID(t, "bid"),
			Signature:        genSig(t, "sig"),
		}
		r.msg, r.sync = cs.VerifWALMsgInfo(&cs.VoteMessage{Vote: v}, peer), own
	case "proposal":
		p := &types.Proposal{
			Type:             rapid.Byte().Draw(t, "ptype"),
			Height:           st.height,
			Round:            round,
			Timestamp:        genTime(t, "ts"),
			BlockPartsHeader: types.PartSetHeader{Total: rapid.IntRange(1, 64).Draw(t, "total"), Hash: fill(t, "phash", 20)},
			POLRound:         rapid.IntRange(-1, 3).Draw(t, "polround"),
			POLBlockID:       genBlockID(t, "polbid"),
			Signature:        genSig(t, "sig"),
		}
		r.msg, r.sync = cs.VerifWALMsgInfo(&cs.ProposalMessage{Proposal: p}, peer), own
	case "part":
		var n int
		switch {
		case st.big && rapid.IntRange(0, 5).Draw(t, "bigpart") != 0:
			n = rapid.IntRange(3000, 9000).Draw(t, "partlen")
		case rapid.Bool().Draw(t, "tiny"):
			n = rapid.IntRange(1, 48).Draw(t, "partlen")
		default:
			n = rapid.IntRange(49, 420).Draw(t, "partlen")
		}
		var bz []byte
		if n >= 300 && rapid.IntRange(0, 3).Draw(t, "sled") == 0 {
			// a part whose bytes are back-to-back copies of a well-formed record (the sender chooses them)
			if allowSled {
				r.sled = sledFrame()
				bz = bytes.Repeat(r.sled, n/len(r.sled)+1)[:n]
				op.Kind = "part-sled"
			} else {
				vstat.Excluded(kResync)
			}
		}
		if bz == nil {
			bz = fill(t, "part", n)
		}
		op.N = n
		var aunts [][]byte
		for i, na := 0, rapid.IntRange(0, 3).Draw(t, "naunts"); i < na; i++ {
			aunts = append(aunts, fill(t, "aunt", 20))
		}
		part := &types.Part{Index: rapid.IntRange(0, 63).Draw(t, "pidx"), Bytes: bz, Proof: merkle.SimpleProof{Aunts: aunts}}
		r.msg, r.sync = cs.VerifWALMsgInfo(&cs.BlockPartMessage{Height: st.height, Round: round, Part: part}, peer), own
	case "timeout":
		d := time.Duration(rapid.Int64Range(0, int64(time.Hour)).Draw(t, "dur"))
		r.msg = cs.VerifWALTimeout(d, st.height, round, uint8(rapid.IntRange(1, 9).Draw(t, "step")))
	case "roundstate":
		// the RoundState pointer is not serialized (rlp:"-"); the node passes a copy of its round state
		r.msg = types.EventDataRoundState{Height: st.height, Round: round, Step: rapid.SampledFrom(stepNames).Draw(t, "stepname"),
			RoundState: &struct{ X int }{round}}
	case "endheight":
		// heights only grow (SearchForEndHeight relies on it); multiples of 256 / 65536 make the marker's
		// payload end in zero bytes, which is what a short read pads with
		switch rapid.IntRange(0, 5).Draw(t, "hjump") {
		case 0:
			st.height = (st.height | 0xff) + 1
		case 1:
			st.height = (st.height | 0xffff) + 1
		case 2:
			st.height += uint64(rapid.IntRange(2, 300).Draw(t, "hgap"))
		}
		r.msg, r.sync, r.isMarker, r.height = cs.EndHeightMessage{Height: st.height}, true, true, st.height
		op.H = st.height
		st.height++
	}
	op.Sync = r.sync
	r.desc = describe(r.msg)
	return r, op
}

// ---------------------------------------------------------------- writing through the real WAL

func newCaseDir() string {
	caseSeq++
	d := filepath.Join(scratchRoot, fmt.Sprintf("c14-%d-%d", os.Getpid(), caseSeq))
	os.RemoveAll(d)
	if err := os.MkdirAll(d, 0o700); err != nil {
		panic(err)
	}
	return d
}

func fileSize(path string) int64 {
	fi, err := os.Stat(path)
	if err != nil {
		return 0
	}
	return fi.Size()
}

// recordAligned: does the file consist of whole records?  (harness-side walk over the length fields)
func recordAligned(path string) bool {
	b, err := os.ReadFile(path)
	if err != nil {
		return true
	}
	pos := 0
	for pos+8 <= len(b) {
		pos += 8 + int(binary.BigEndian.Uint32(b[pos+4:pos+8]))
	}
	return pos == len(b)
}

// closeWAL releases what a WAL object holds: baseWAL.OnStop stops and flushes the group and closes the head's
// file; AutoFile.Close additionally stops the AutoFile's 1 s ticker and unregisters it from the SIGHUP watcher.
func closeWAL(w cs.WAL, started bool) {
	if started {
		w.Stop()
	}
	w.Group().Head.Close()
}

// readGroupFiles returns the contents of dir/wal.000, dir/wal.001, ..., dir/wal in index order.
func readGroupFiles(dir string) ([][]byte, error) {
	var files [][]byte
	for i := 0; ; i++ {
		b, err := os.ReadFile(filepath.Join(dir, fmt.Sprintf("%s.%03d", walName, i)))
		if err != nil {
			break
		}
		files = append(files, b)
	}
	b, err := os.ReadFile(filepath.Join(dir, walName))
	if err != nil {
		return nil, err
	}
	return append(files, b), nil
}

// writeLog drives the real WAL.  rotate(i) says whether to call RotateFile after message i.
// Real precondition of RotateFile (Group.checkHeadSizeLimit, the only caller): the head file exists and is
// non-empty (size >= limit > 0); it is called from the group's ticker goroutine, i.e. between any two
// writes, whether or not the head's buffer has been flushed.
func writeLog(t vstat.TB, dir string, recs []*rec, ops []opRec, rotate func(i int, torn func() bool) (rot bool, flushFirst bool), excludeKnown bool) *walLog {
	headPath := filepath.Join(dir, walName)
	w, err := cs.NewWAL(headPath)
	if err != nil {
		t.Fatalf("NewWAL: %v", err)
	}
	// OnStart writes EndHeightMessage{0} into the empty log and starts the group (a 5 s ticker that checks the
	// 10 MB / 1 GB size limits - never reached here; it is stopped by Stop below).
	if err := w.Start(); err != nil {
		t.Fatalf("WAL.Start: %v", err)
	}
	all := []*rec{{msg: cs.EndHeightMessage{Height: 0}, kind: "endheight", sync: true, isMarker: true, height: 0}}
	all[0].desc = describe(all[0].msg)
	allOps := []opRec{{Kind: "endheight", Sync: true}}
	unsynced := false
	var wpan interface{}
	for i, r := range recs {
		func() {
			defer func() { wpan = recover() }()
			if r.sync {
				w.WriteSync(r.msg)
			} else {
				w.Write(r.msg)
			}
		}()
		if wpan != nil {
			closeWAL(w, true)
			vstat.Violation(t, P, "write-panic", "writing %s panicked: %v", r.desc, wpan)
			return nil
		}
		unsynced = !r.sync // WriteSync flushes everything buffered so far
		all = append(all, r)
		op := ops[i]
		// torn: the head's buffer has flushed itself in the middle of a record (more than 40 KiB written without WriteSync)
		torn := func() bool { return unsynced && fileSize(headPath) > 0 && !recordAligned(headPath) }
		if rot, flushFirst := rotate(i, torn); rot && fileSize(headPath) > 0 {
			op.Rot = "rot"
			switch {
			case flushFirst:
				vstat.Label("rotation_after_flush")
			case !unsynced:
				vstat.Label("rotation_buffer_empty")
			default:
				vstat.Label("rotation_buffer_not_empty")
			}
			if flushFirst {
				w.Group().Flush()
				unsynced = false
				op.Rot = "flush+rot"
			} else if excludeKnown && vstat.IsKnown(P, kSplit) && torn() {
				// the bufio.Writer flushed itself in the middle of a record; rotating now splits that record across
				// two files, which only re-hits the listed finding kSplit: flush first (TestRegressionRotateSplitsRecord
				// keeps the finding observed)
				vstat.Excluded(kSplit)
				w.Group().Flush()
				unsynced = false
				op.Rot = "flush+rot(excl)"
			}
			func() {
				defer func() { wpan = recover() }()
				w.Group().RotateFile()
			}()
			if wpan != nil {
				closeWAL(w, true)
				vstat.Violation(t, P, "rotate-panic", "RotateFile panicked: %v", wpan)
				return nil
			}
		}
		allOps = append(allOps, op)
	}
	closeWAL(w, true) // flushes what is still buffered
	return finishLog(t, dir, all, allOps)
}

// finishLog reads the files a writer left and matches them, byte by byte, with the records written.
func finishLog(t vstat.TB, dir string, all []*rec, allOps []opRec) *walLog {
	files, err := readGroupFiles(dir)
	if err != nil {
		t.Fatalf("reading the written log: %v", err)
	}
	lg := &walLog{files: files, recs: all, ops: allOps}
	for _, f := range files {
		lg.bounds = append(lg.bounds, len(lg.cat))
		lg.cat = append(lg.cat, f...)
	}
	lg.bounds = append(lg.bounds, len(lg.cat))

	// Harness-side parse of the intact bytes: exactly the records asked for, in order, nothing else.
	pos := 0
	for j, r := range all {
		if pos+8 > len(lg.cat) {
			vstat.Violation(t, P, "intact-log-malformed", "record %d (%s) is missing from the files: %d bytes on disk, record starts at %d; ops %v", j, r.desc, len(lg.cat), pos, allOps)
			return nil
		}
		n := int(binary.BigEndian.Uint32(lg.cat[pos+4 : pos+8]))
		if pos+8+n > len(lg.cat) {
			vstat.Violation(t, P, "intact-log-malformed", "record %d (%s): length field %d runs past the end of the files", j, r.desc, n)
			return nil
		}
		r.start, r.end, r.payload = pos, pos+8+n, lg.cat[pos+8:pos+8+n]
		r.file = lg.fileAt(pos)
		if r.end > lg.bounds[r.file+1] {
			lg.split = true
		}
		if crc32.Checksum(r.payload, crc32c) != binary.BigEndian.Uint32(lg.cat[pos:pos+4]) {
			vstat.Violation(t, P, "intact-log-malformed", "record %d (%s): stored checksum is not crc32c(payload)", j, r.desc)
			return nil
		}
		// the payload is the serialization of (some time, the message written)
		var tm cs.TimedWALMessage
		if err := ser.DecodeBytes(r.payload, &tm); err != nil {
			vstat.Violation(t, P, "intact-log-malformed", "record %d (%s): payload does not deserialize: %v", j, r.desc, err)
			return nil
		}
		want, err := encodeTimed(tm.Time, r.msg)
		if err != nil || !bytes.Equal(want, r.payload) || describe(tm.Msg) != r.desc {
			vstat.Violation(t, P, "intact-log-malformed", "record %d: payload is not the serialization of the message written: wrote %s, file has %s (%v)", j, r.desc, describe(tm.Msg), err)
			return nil
		}
		if r.isMarker {
			lg.markers = append(lg.markers, j)
		}
		if r.sled != nil {
			lg.hasSled = true
		}
		pos = r.end
	}
	if pos != len(lg.cat) {
		vstat.Violation(t, P, "intact-log-malformed", "%d bytes behind the last record written", len(lg.cat)-pos)
		return nil
	}
	return lg
}

// rotWriter stands between the real WALEncoder and the real autofile.Group, exactly where baseWAL has the group itself,
// and lets the group's size check (Group.RotateFile, run by the ticker goroutine of a started group) fire after ANY single
// Group.Write: the check does not know where a record ends.
type rotWriter struct {
	g     *autofile.Group
	k     int
	after func(k int) bool
	rots  []int
}

func (w *rotWriter) Write(p []byte) (int, error) {
	n, err := w.g.Write(p)
	w.k++
	if err == nil && w.after(w.k) {
		w.g.RotateFile()
		w.rots = append(w.rots, w.k)
	}
	return n, err
}

// writeLogPerWrite writes the records like baseWAL.Write / WriteSync do (real encoder, real group, Flush for the synced ones)
// with the rotation schedule owned at the granularity of single writes to the group.
func writeLogPerWrite(t vstat.TB, dir string, recs []*rec, ops []opRec, after func(k int) bool) (*walLog, []int) {
	if err := os.MkdirAll(dir, 0700); err != nil {
		t.Fatalf("mkdir: %v", err)
	}
	g, err := autofile.OpenGroup(filepath.Join(dir, walName))
	if err != nil {
		t.Fatalf("OpenGroup: %v", err)
	}
	rw := &rotWriter{g: g, after: after}
	enc := cs.NewWALEncoder(rw)
	all := append([]*rec{{msg: cs.EndHeightMessage{Height: 0}, kind: "endheight", sync: true, isMarker: true, height: 0}}, recs...)
	all[0].desc = describe(all[0].msg)
	allOps := append([]opRec{{Kind: "endheight", Sync: true}}, ops...)
	var wpan interface{}
	for _, r := range all {
		func() {
			defer func() { wpan = recover() }()
			if err := enc.Encode(&cs.TimedWALMessage{Time: time.Now(), Msg: r.msg}); err != nil {
				panic(err)
			}
			if r.sync {
				if err := g.Flush(); err != nil {
					panic(err)
				}
			}
		}()
		if wpan != nil {
			g.Close()
			vstat.Violation(t, P, "write-panic", "writing %s panicked: %v", r.desc, wpan)
			return nil, nil
		}
	}
	g.Flush()
	g.Close()
	return finishLog(t, dir, all, allOps), rw.rots
}

// ---------------------------------------------------------------- reading a (damaged) log back through the code under test

// layout writes files[0..n-2] as rotated files and files[n-1] as the head into a fresh directory.
func layout(dir string, files [][]byte) {
	os.RemoveAll(dir)
	if err := os.MkdirAll(dir, 0o700); err != nil {
		panic(err)
	}
	for i, f := range files {
		name := filepath.Join(dir, walName)
		if i < len(files)-1 {
			name = filepath.Join(dir, fmt.Sprintf("%s.%03d", walName, i))
		}
		if err := os.WriteFile(name, f, 0o600); err != nil {
			panic(err)
		}
	}
}

// openReader opens the directory the way a restarting node does (NewWAL -> OpenGroup scans the directory for the
// index range) but does not Start it: OnStart would write into an empty head.
func openReader(t vstat.TB, dir string) cs.WAL {
	w, err := cs.NewWAL(filepath.Join(dir, walName))
	if err != nil {
		t.Fatalf("NewWAL on the damaged copy: %v", err)
	}
	return w
}

// spyReader passes reads through and remembers the largest buffer the decoder ever asked to have filled.
type spyReader struct {
	r      io.Reader
	maxReq int
}

func (s *spyReader) Read(p []byte) (int, error) {
	if len(p) > s.maxReq {
		s.maxReq = len(p)
	}
	return s.r.Read(p)
}

func safeDecode(dec *cs.WALDecoder) (m *cs.TimedWALMessage, err error, pan interface{}) {
	defer func() {
		if r := recover(); r != nil {
			pan = r
		}
	}()
	m, err = dec.Decode()
	return
}

// sameAs: the decoded message is record r (same description, and it serializes to exactly the payload written).
func sameAs(m *cs.TimedWALMessage, r *rec) bool {
	if m == nil || describe(m.Msg) != r.desc {
		return false
	}
	bz, err := encodeTimed(m.Time, m.Msg)
	return err == nil && bytes.Equal(bz, r.payload)
}

// follow decodes from dec until the first error and checks that what comes out is recs[from], recs[from+1], ...
// It returns how many messages came out, the terminal error and a complaint (empty if every message was the next one written).
func follow(lg *walLog, dec *cs.WALDecoder, from int) (n int, term error, complaint string) {
	for {
		m, err, pan := safeDecode(dec)
		if pan != nil {
			return n, nil, fmt.Sprintf("Decode panicked after %d messages: %v", n, pan)
		}
		if err != nil {
			return n, err, ""
		}
		if from+n >= len(lg.recs) {
			return n, nil, fmt.Sprintf("message %d decoded but only %d were written: %s", from+n, len(lg.recs), describe(m.Msg))
		}
		if !sameAs(m, lg.recs[from+n]) {
			bz, _ := encodeTimed(m.Time, m.Msg)
			return n, nil, fmt.Sprintf("message %d decoded as %s (serializes to %x), written was %s (%x): not the message written",
				from+n, describe(m.Msg), bz, lg.recs[from+n].desc, lg.recs[from+n].payload)
		}
		n++
	}
}

func termLabel(err error) string {
	switch {
	case err == io.EOF:
		return "term_eof"
	case cs.IsDataCorruptionError(err):
		return "term_corruption_error"
	}
	return "term_other_error"
}

type expect int

const (
	mustFind    expect = iota // the marker was completely written and nothing the search reads before it is damaged
	mustNotFind               // the marker was not (completely) written / is itself damaged
	findOrError               // intact marker, damage in a newer file: the search may stop with an error there
	soundOnly                 // damage precedes the marker in its own file: framing may be lost, anything but a wrong hit
)

type searchRes struct {
	found    bool
	err      error
	pan      interface{}
	after    int    // messages decoded behind the marker
	afterBad string // complaint about them
}

// search runs SearchForEndHeight under recover and, on a hit, reads on from the returned reader like catchupReplay does.
func search(lg *walLog, w cs.WAL, h uint64, ignore bool, markerRec int) (res searchRes) {
	func() {
		defer func() {
			if r := recover(); r != nil {
				res.pan = r
			}
		}()
		gr, found, err := w.SearchForEndHeight(h, &cs.WALSearchOptions{IgnoreDataCorruptionErrors: ignore})
		res.found, res.err = found, err
		if gr != nil {
			defer gr.Close()
			if found && markerRec >= 0 {
				res.after, _, res.afterBad = follow(lg, cs.NewWALDecoder(gr), markerRec+1)
			}
		}
	}()
	return
}

// ---------------------------------------------------------------- the per-case checker

type checker struct {
	t      vstat.TB
	lg     *walLog
	ctx    string // description of the current damage, for messages
	nEvals int
	// observeKnown: report listed findings through vstat.Violation (which counts them) instead of relaxing the
	// expectation silently - set by the regression tests
	observeKnown bool
	// afterAlt: a second acceptable number of records readable behind a found marker (-1: none), see checkAltered
	afterAlt int
}

func (c *checker) violation(key, format string, args ...interface{}) {
	vstat.Violation(c.t, P, key, "%s: %s ; file offsets %v ; written: %s", c.ctx, fmt.Sprintf(format, args...), c.lg.bounds, c.lg.opsString())
}

// query is one SearchForEndHeight call with its expectation.
//   - markerRec: index of the marker's record, -1 for a height that was never written
//   - wantAfter: how many records must be readable behind the marker on a hit
//   - tornOlder: the kTorn shape (marker in an older file than a torn head)
//   - damaged: whether the log read is damaged at all (an error from an undamaged log is a violation)
func (c *checker) query(w cs.WAL, h uint64, ignore bool, markerRec int, exp expect, wantAfter int, tornOlder, damaged bool) {
	res := search(c.lg, w, h, ignore, markerRec)
	who := fmt.Sprintf("SearchForEndHeight(%d, ignoreCorruption=%v)", h, ignore)
	if res.pan != nil {
		c.violation("search-panic", "%s panicked: %v", who, res.pan)
		return
	}
	switch {
	case res.found:
		vstat.Label("search_found")
	case res.err != nil:
		vstat.Label("search_error")
	default:
		vstat.Label("search_notfound")
	}
	if res.found {
		if markerRec < 0 {
			key := "search-found-unwritten-marker"
			if h == fakeHeight && ignore && c.lg.hasSled {
				key = kResync
			}
			c.violation(key, "%s found a marker that was never written", who)
			return
		}
		if exp == mustNotFind {
			c.violation("search-found-incomplete-marker", "%s found the marker although its record [%d,%d) is not intact/complete", who, c.lg.recs[markerRec].start, c.lg.recs[markerRec].end)
			return
		}
		if res.afterBad != "" {
			c.violation("search-reader-misplaced", "%s: reading on behind the marker: %s", who, res.afterBad)
			return
		}
		if res.after != wantAfter && res.after != c.afterAlt {
			c.violation("search-reader-misplaced", "%s: %d messages readable behind the marker, %d intact records follow it", who, res.after, wantAfter)
		}
		return
	}
	if !damaged && res.err != nil {
		key := "search-error-on-undamaged-log"
		if c.lg.split {
			key = kSplit
		}
		c.violation(key, "%s returned error %q on a log without damage", who, res.err)
		return
	}
	switch exp {
	case mustFind:
		if tornOlder && res.err != nil && !cs.IsDataCorruptionError(res.err) {
			if vstat.IsKnown(P, kTorn) && !c.observeKnown {
				vstat.Excluded(kTorn) // relaxed expectation, see kTorn; TestRegressionTornTailHidesOlderMarker keeps it observed
				return
			}
			c.violation(kTorn, "%s = (not found, %q) although the marker record [%d,%d) in file %d is complete; the head, a newer file, ends in a torn record",
				who, res.err, c.lg.recs[markerRec].start, c.lg.recs[markerRec].end, c.lg.recs[markerRec].file)
			return
		}
		key := "search-missed-complete-marker"
		if c.lg.split {
			key = kSplit
		}
		c.violation(key, "%s = (not found, err=%v) although the marker record [%d,%d) in file %d is complete and nothing the search has to read before it is damaged beyond what it was asked to skip",
			who, res.err, c.lg.recs[markerRec].start, c.lg.recs[markerRec].end, c.lg.recs[markerRec].file)
	case findOrError:
		if res.err == nil {
			c.violation("search-missed-complete-marker", "%s = (not found, no error) although the marker record [%d,%d) is intact and the damage lies behind it", who, c.lg.recs[markerRec].start, c.lg.recs[markerRec].end)
		}
	}
}

// unwritten heights to ask for: between markers, above the highest, and the height the sled frames carry.
func (c *checker) unwrittenHeight(i int) uint64 {
	lg := c.lg
	top := lg.recs[lg.markers[len(lg.markers)-1]].height
	cands := []uint64{top + 1, top + 1000, fakeHeight}
	for k := 1; k < len(lg.markers); k++ {
		a, b := lg.recs[lg.markers[k-1]].height, lg.recs[lg.markers[k]].height
		if b > a+1 {
			cands = append(cands, a+1)
		}
	}
	return cands[i%len(cands)]
}

// markerUpTo: the last marker whose record index is <= j, as an index into lg.markers (-1 if none).
func (c *checker) markerUpTo(j int) int {
	return sort.Search(len(c.lg.markers), func(i int) bool { return c.lg.markers[i] > j }) - 1
}

// ---- intact log

func (c *checker) checkIntact(dir string) bool {
	lg := c.lg
	layout(dir, lg.files)
	w := openReader(c.t, dir)
	defer closeWAL(w, false)
	c.ctx = "undamaged log"
	gr, err := w.Group().NewReader(0)
	if err != nil {
		c.t.Fatalf("NewReader: %v", err)
	}
	n, term, bad := follow(lg, cs.NewWALDecoder(gr), 0)
	gr.Close()
	c.nEvals++
	if bad != "" {
		c.violation("decode-foreign-message", "%s", bad)
		return false
	}
	if n != len(lg.recs) || term != io.EOF {
		c.violation("decode-intact-log-incomplete", "%d of %d records decoded, then %v", n, len(lg.recs), term)
		return false
	}
	for qi, mi := range lg.markers {
		r := lg.recs[mi]
		c.query(w, r.height, qi%2 == 0, mi, mustFind, len(lg.recs)-1-mi, false, false)
		c.query(w, r.height, qi%2 != 0, mi, mustFind, len(lg.recs)-1-mi, false, false)
	}
	for i := 0; i < 3; i++ {
		c.query(w, c.unwrittenHeight(i), i%2 == 0, -1, mustNotFind, 0, false, false)
	}
	return true
}

// ---- truncation

// truncationCuts: every offset for small logs; for big ones every field boundary +-2 plus generated offsets.
func truncationCuts(t *rapid.T, lg *walLog) (cuts []int, exhaustive bool) {
	total := lg.total()
	if total <= exhaustiveLimit {
		for x := 0; x <= total; x++ {
			cuts = append(cuts, x)
		}
		return cuts, true
	}
	set := map[int]bool{0: true, total: true}
	add := func(x int) {
		for d := -2; d <= 2; d++ {
			if x+d >= 0 && x+d <= total {
				set[x+d] = true
			}
		}
	}
	for _, r := range lg.recs {
		add(r.start)
		add(r.start + 4)
		add(r.start + 8)
		add(r.end)
	}
	for _, b := range lg.bounds {
		add(b)
	}
	for i, n := 0, rapid.IntRange(16, 64).Draw(t, "ncuts"); i < n; i++ {
		set[rapid.IntRange(0, total).Draw(t, "cut")] = true
	}
	for x := range set {
		cuts = append(cuts, x)
	}
	sort.Ints(cuts)
	return cuts, false
}

// sweepTruncations reads the log back in every state a crash can leave when the bytes hit the disk in order:
// the files before the one being written are rotated, the file being written is the head and holds a prefix of
// what it finally held.  A cut that falls on a file boundary has two such states (the full file still being the
// head; the file rotated and the new head empty) - both are visited.
func (c *checker) sweepTruncations(dir string, cuts []int) {
	lg := c.lg
	inCuts := make(map[int]bool, len(cuts))
	for _, x := range cuts {
		inCuts[x] = true
	}
	multi := len(lg.files) >= 2
	for i := len(lg.files) - 1; i >= 0; i-- {
		layout(dir, lg.files[:i+1])
		w := openReader(c.t, dir)
		head := filepath.Join(dir, walName)
		for o := len(lg.files[i]); o >= 0; o-- {
			x := lg.bounds[i] + o
			if !inCuts[x] {
				continue
			}
			if err := os.Truncate(head, int64(o)); err != nil {
				panic(err)
			}
			c.checkTruncated(w, i, o, multi)
		}
		closeWAL(w, false)
	}
}

func (c *checker) checkTruncated(w cs.WAL, fileIdx, o int, multi bool) {
	lg := c.lg
	x := lg.bounds[fileIdx] + o
	k := lg.complete(x)
	lastEnd := 0
	if k > 0 {
		lastEnd = lg.recs[k-1].end
	}
	tail := x - lastEnd // bytes of the torn record present
	class := "boundary"
	if tail > 0 {
		class = fieldClass(tail)
	}
	c.ctx = fmt.Sprintf("truncated at %d (file %d offset %d; %d complete records, %d bytes of the next one, cut in its %s)", x, fileIdx, o, k, tail, class)
	c.nEvals++
	vstat.Label("trunc_in_" + class)
	hitMarker := tail > 0 && k < len(lg.recs) && lg.recs[k].isMarker
	if hitMarker {
		vstat.Label("trunc_inside_marker")
	}
	if tail > 0 || multi {
		kind := "-"
		if k < len(lg.recs) {
			kind = lg.recs[k].kind
		}
		vstat.NonTrivial(fmt.Sprintf("%s|T|%d|%s|%d|f%d.%d", lg.fingerprint(), k, kind, tail, fileIdx, o))
	}

	gr, err := w.Group().NewReader(0)
	if err != nil {
		c.t.Fatalf("NewReader: %v", err)
	}
	n, term, bad := follow(lg, cs.NewWALDecoder(gr), 0)
	gr.Close()
	if bad != "" {
		c.violation("decode-foreign-message", "%s", bad)
		return
	}
	vstat.Label("trunc_" + termLabel(term))
	if n > k {
		c.violation("decode-returned-incomplete-record", "%d messages decoded but only %d records are complete before the cut", n, k)
		return
	}
	if n < k {
		c.violation("decode-lost-complete-record", "only %d messages decoded (then %v) although %d records are complete before the cut", n, term, k)
		return
	}
	if tail == 0 && term != io.EOF {
		c.violation("decode-error-on-undamaged-log", "log ends exactly behind record %d, reading ends with %v instead of io.EOF", k-1, term)
		return
	}

	// end-height markers: found IFF completely written before the cut, whichever file it is in
	torn := tail >= 4 // WALDecoder answers a torn record of >= 4 bytes with a plain error, below that with io.EOF
	ask := func(mi int, ignore bool) {
		if mi < 0 || mi >= len(lg.markers) {
			return
		}
		j := lg.markers[mi]
		r := lg.recs[j]
		if r.end <= x {
			c.query(w, r.height, ignore, j, mustFind, k-1-j, torn && r.file < fileIdx, tail > 0)
		} else {
			c.query(w, r.height, ignore, j, mustNotFind, 0, false, tail > 0)
		}
	}
	prev := c.markerUpTo(k - 1) // last complete marker
	ign := x%2 == 0
	ask(prev, ign)
	ask(prev+1, !ign) // first marker that is not complete
	switch x % 3 {
	case 0: // some older marker (multi-file logs: usually in an older file)
		if prev > 0 {
			ask((x/3)%prev, !ign)
		}
	case 1:
		c.query(w, c.unwrittenHeight(x/3), ign, -1, mustNotFind, 0, false, tail > 0)
	case 2:
		if prev+2 < len(lg.markers) {
			ask(prev+2+(x/3)%(len(lg.markers)-prev-2), ign)
		}
	}
}

// ---- single-byte alteration

type alteration struct {
	off int
	val byte
	why string
}

// genAlterations: for every record one alteration in each field class at a generated offset with a generated value;
// for logs up to exhaustiveLimit additionally EVERY offset once, xor-ed with a generated mask; for sled parts the
// length values that make the decoder resume at an embedded frame.
func genAlterations(t *rapid.T, lg *walLog, everyOffset bool) []alteration {
	var alts []alteration
	newVal := func(old byte, label string) byte {
		var v byte
		switch rapid.IntRange(0, 5).Draw(t, label+"_how") {
		case 0:
			v = old ^ 0x01
		case 1:
			v = old ^ 0x80
		case 2:
			v = 0x00
		case 3:
			v = 0xff
		default:
			v = rapid.Byte().Draw(t, label+"_val")
		}
		if v == old {
			v = old ^ 0x01
		}
		return v
	}
	for _, r := range lg.recs {
		co := r.start + rapid.IntRange(0, 3).Draw(t, "crc_off")
		alts = append(alts, alteration{co, newVal(lg.cat[co], "crc"), "gen"})
		lo := r.start + 4 + rapid.IntRange(0, 3).Draw(t, "len_off")
		alts = append(alts, alteration{lo, newVal(lg.cat[lo], "len"), "gen"})
		po := r.start + 8 + rapid.IntRange(0, len(r.payload)-1).Draw(t, "payload_off")
		alts = append(alts, alteration{po, newVal(lg.cat[po], "payload"), "gen"})
		alts = append(alts, sledAlterations(r)...)
	}
	if everyOffset {
		mask := byte(rapid.IntRange(1, 255).Draw(t, "xor_mask"))
		for off := 0; off < lg.total(); off++ {
			alts = append(alts, alteration{off, lg.cat[off] ^ mask, "all"})
		}
	}
	return alts
}

// sledAlterations: for a part whose bytes are a sled of embedded frames, the one-byte changes of the length field
// that make the damaged record end exactly where an embedded frame starts.
func sledAlterations(r *rec) (alts []alteration) {
	if r.sled == nil {
		return nil
	}
	p0 := bytes.Index(r.payload, r.sled)
	if p0 < 0 {
		return nil
	}
	L, fl := len(r.payload), len(r.sled)
	sledEnd := p0 + (L-p0)/fl*fl // behind the last whole embedded frame (an upper bound; HasPrefix below decides)
	for b := 0; b < 2; b++ {     // b = 0: lowest byte of the big-endian length, b = 1: the next one
		for v := 0; v < 256 && len(alts) < 2; v++ {
			l2 := L&^(0xff<<(8*uint(b))) | v<<(8*uint(b))
			if l2 != L && l2 >= p0 && (l2-p0)%fl == 0 && l2+fl <= sledEnd && bytes.HasPrefix(r.payload[l2:], r.sled) {
				alts = append(alts, alteration{r.start + 7 - b, byte(v), "sled"})
			}
		}
	}
	return alts
}

func (c *checker) sweepAlterations(dir string, alts []alteration) {
	lg := c.lg
	layout(dir, lg.files)
	w := openReader(c.t, dir)
	defer closeWAL(w, false)
	fds := make([]*os.File, len(lg.files))
	for i := range lg.files {
		name := filepath.Join(dir, walName)
		if i < len(lg.files)-1 {
			name = filepath.Join(dir, fmt.Sprintf("%s.%03d", walName, i))
		}
		f, err := os.OpenFile(name, os.O_RDWR, 0)
		if err != nil {
			panic(err)
		}
		defer f.Close()
		fds[i] = f
	}
	for ai, a := range alts {
		fi := lg.fileAt(a.off)
		local := int64(a.off - lg.bounds[fi])
		if _, err := fds[fi].WriteAt([]byte{a.val}, local); err != nil {
			panic(err)
		}
		c.checkAltered(w, ai, a, fi)
		if _, err := fds[fi].WriteAt([]byte{lg.cat[a.off]}, local); err != nil {
			panic(err)
		}
	}
}

// altDecodeOK: exactly the records before the damaged one are replayed and the damage is reported as such.
func (c *checker) altDecodeOK(n, r int, class string, term error) bool {
	if n > r {
		c.violation("decode-returned-damaged-record", "%d messages decoded although record %d is damaged", n, r)
		return false
	}
	if n < r {
		c.violation("decode-lost-complete-record", "only %d messages decoded (then %v) although the %d records before the damage are intact", n, term, r)
		return false
	}
	// A damaged length field may make the record look like one that runs past the end of the log, which a reader cannot
	// tell from a torn tail: end-of-log or any error is an answer.  With the framing intact (crc / payload byte) the
	// record is fully present, its checksum can be evaluated, and the answer is the distinct corruption class.
	if class == "len" {
		return true
	}
	if term == io.EOF {
		c.violation("decode-damage-reported-as-eof", "reading ends with io.EOF at the damaged record %d although all its bytes are there", r)
		return false
	}
	if !cs.IsDataCorruptionError(term) {
		c.violation("decode-corruption-not-classified", "checksum mismatch on record %d reported as %T %q, not as DataCorruptionError", r, term, term)
		return false
	}
	return true
}

func (c *checker) checkAltered(w cs.WAL, ai int, a alteration, fd int) {
	lg := c.lg
	r := lg.recAt(a.off)
	rr := lg.recs[r]
	class := fieldClass(a.off - rr.start)
	c.ctx = fmt.Sprintf("byte %d (file %d; %s field of record %d, a %s) altered %#02x -> %#02x", a.off, fd, class, r, rr.kind, lg.cat[a.off], a.val)
	c.nEvals++
	vstat.Label("alter_" + class)
	vstat.Label("alter_record_" + rr.kind)
	if rr.isMarker {
		vstat.Label("alter_inside_marker")
	}
	if a.why == "sled" {
		vstat.Label("alter_len_onto_embedded_frame")
	}
	vstat.NonTrivial(fmt.Sprintf("%s|A|%d|%s|%d|%02x", lg.fingerprint(), r, rr.kind, a.off-rr.start, a.val))

	gr, err := w.Group().NewReader(0)
	if err != nil {
		c.t.Fatalf("NewReader: %v", err)
	}
	spy := &spyReader{r: gr}
	n, term, bad := follow(lg, cs.NewWALDecoder(spy), 0)
	gr.Close()
	// A length field damaged into something larger than any record can be must be rejected BEFORE a buffer of that size
	// is allocated and filled: otherwise one flipped bit makes the reader ask for up to 4 GiB and the node dies of ENOMEM
	// instead of reporting corruption (that is how the mutant without the limit shows up: the worker is killed).
	if spy.maxReq > maxMsgSizeBytes {
		c.violation("decode-allocates-by-damaged-length", "the decoder asked its reader for %d bytes at once (largest possible record: %d)", spy.maxReq, maxMsgSizeBytes)
		return
	}
	if bad != "" {
		c.violation("decode-foreign-message", "%s", bad)
		return
	}
	vstat.Label("alter_" + termLabel(term))
	// The property allows a reader that does not care about a damaged checksum FIELD as long as what it returns is what
	// was written: the whole log followed by end-of-log is then a correct answer too (the code under test never gives it).
	if class == "crc" && n == len(lg.recs) && term == io.EOF {
		vstat.Label("alter_crc_field_ignored_by_reader")
	} else if !c.altDecodeOK(n, r, class, term) {
		return
	}

	// markers.  fd = file of the damage, fj = file of the marker, passes go newest file first and read to the end of the group.
	ask := func(mi int, ignore bool) {
		if mi < 0 || mi >= len(lg.markers) {
			return
		}
		j := lg.markers[mi]
		m := lg.recs[j]
		after := len(lg.recs) - 1 - j
		c.afterAlt = -1
		if r > j {
			after = r - j - 1 // reading on stops at the damaged record ...
			if class == "crc" {
				c.afterAlt = len(lg.recs) - 1 - j // ... unless the reader does not care about a damaged checksum field
			}
		}
		defer func() { c.afterAlt = -1 }()
		switch {
		case j == r && class == "crc":
			// the marker's bytes are what was written, only its checksum field is not: finding it is as good as not finding it
			c.query(w, m.height, ignore, j, soundOnly, len(lg.recs)-1-j, false, true)
		case j == r:
			c.query(w, m.height, ignore, j, mustNotFind, 0, false, true)
		case fd < m.file, fd == m.file && r > j:
			// no pass reads the damaged byte before it reads the marker
			c.query(w, m.height, ignore, j, mustFind, after, false, true)
		case ignore && class != "len":
			// the framing is intact (only a checksum or payload byte of ANOTHER record is off) and the caller asked to skip
			// corrupted records: the search steps over record r and the equivalence found <=> completely written holds
			c.query(w, m.height, ignore, j, mustFind, after, false, true)
		case fd > m.file:
			c.query(w, m.height, ignore, j, findOrError, after, false, true)
		default:
			c.query(w, m.height, ignore, j, soundOnly, after, false, true)
		}
	}
	at := c.markerUpTo(r) // the damaged marker itself, or the last one before the damage
	ign := ai%2 == 0
	ask(at, ign)
	ask(at+1, !ign)
	switch ai % 4 {
	case 0:
		if at > 0 {
			ask((ai/4)%at, !ign)
		}
	case 1:
		c.query(w, c.unwrittenHeight(ai/4), ign, -1, mustNotFind, 0, false, true)
	case 2:
		if at+2 < len(lg.markers) {
			ask(at+2+(ai/4)%(len(lg.markers)-at-2), ign)
		}
	case 3:
		ask(at, !ign)
	}
	if a.why == "sled" {
		c.query(w, fakeHeight, true, -1, mustNotFind, 0, false, true)
		c.query(w, fakeHeight, false, -1, mustNotFind, 0, false, true)
	}
}

// ---------------------------------------------------------------- the property

func runLog(t *rapid.T) {
	dir := newCaseDir()
	defer os.RemoveAll(dir)

	st := &genState{height: uint64(rapid.IntRange(1, 70000).Draw(t, "h0"))}
	// size class: most logs stay below exhaustiveLimit so that every cut offset is visited
	var nmsg int
	switch rapid.IntRange(0, 9).Draw(t, "sizeclass") {
	case 0:
		st.big = true
		nmsg = rapid.IntRange(25, 60).Draw(t, "nmsg")
	case 1, 2:
		nmsg = rapid.IntRange(20, 60).Draw(t, "nmsg")
	default:
		nmsg = rapid.IntRange(1, 24).Draw(t, "nmsg")
	}
	// The size check runs on a timer, so it can fire at the worst moment: half of the big logs rotate (probability 1/2
	// per write) exactly while the head on disk ends in the first part of a record.  Those logs keep their long unflushed
	// stretches: no WriteSync-only mode and few other rotations (half of which flush).
	rotOnTorn := st.big && rapid.Bool().Draw(t, "rot_on_torn")
	allSync := !rotOnTorn && rapid.IntRange(0, 3).Draw(t, "allsync") == 0 // every write through WriteSync
	rotEvery := rapid.SampledFrom([]int{0, 0, 2, 4, 8, 16}).Draw(t, "rot_every")
	if rotOnTorn {
		rotEvery = rapid.SampledFrom([]int{0, 16}).Draw(t, "rot_every_big")
	}
	allowSled := !vstat.IsKnown(P, kResync)

	var recs []*rec
	var ops []opRec
	for i := 0; i < nmsg; i++ {
		r, op := genMessage(t, st, allowSled)
		if allSync {
			r.sync, op.Sync = true, true
		}
		recs, ops = append(recs, r), append(ops, op)
	}
	rotate := func(i int, torn func() bool) (bool, bool) {
		if rotOnTorn && torn() && rapid.Bool().Draw(t, "rot_now") {
			return true, false
		}
		if rotEvery == 0 || rapid.IntRange(0, rotEvery-1).Draw(t, "rotate") != 0 {
			return false, false
		}
		return true, rapid.Bool().Draw(t, "flush_first")
	}
	lg := writeLog(t, filepath.Join(dir, "w"), recs, ops, rotate, true)
	if lg == nil {
		return
	}
	c := &checker{t: t, lg: lg, afterAlt: -1}
	dmg := filepath.Join(dir, "d")

	vstat.Label("logs")
	vstat.Label(fmt.Sprintf("log_files_%d", min(len(lg.files), 4)))
	if lg.split {
		vstat.Label("log_record_split_across_files")
	}
	if !c.checkIntact(dmg) {
		vstat.EvalN(c.nEvals)
		return
	}
	cuts, exhaustive := truncationCuts(t, lg)
	if exhaustive {
		vstat.Label("log_truncation_exhaustive")
	} else {
		vstat.Label("log_truncation_stratified")
	}
	c.sweepTruncations(dmg, cuts)
	alts := genAlterations(t, lg, exhaustive)
	c.sweepAlterations(dmg, alts)
	vstat.EvalN(c.nEvals)
	if vstat.WantSample() && len(lg.files) >= 2 && len(lg.markers) >= 2 {
		var sizes []int
		for _, f := range lg.files {
			sizes = append(sizes, len(f))
		}
		vstat.Sample(map[string]interface{}{"ops": lg.ops, "file_sizes": sizes, "records": len(lg.recs), "truncation_offsets": len(cuts),
			"truncation_exhaustive": exhaustive, "alterations": len(alts), "damaged_reads": c.nEvals})
	}
}

// runRotationSchedule: an INTACT log whose files were cut by the size check at generated points between single writes to the
// group must be read back completely: every marker written is found, and what follows it is what was written after it.
func runRotationSchedule(t *rapid.T) {
	vstat.Eval()
	dir := newCaseDir()
	defer os.RemoveAll(dir)
	st := &genState{height: uint64(rapid.IntRange(1, 70000).Draw(t, "h0"))}
	st.big = rapid.IntRange(0, 5).Draw(t, "big") == 0
	nmsg := rapid.IntRange(2, 20).Draw(t, "nmsg")
	var recs []*rec
	var ops []opRec
	for i := 0; i < nmsg; i++ {
		r, op := genMessage(t, st, false)
		recs, ops = append(recs, r), append(ops, op)
	}
	every := rapid.SampledFrom([]int{1, 2, 3, 5, 8}).Draw(t, "rot_every")
	after := func(k int) bool { return rapid.IntRange(0, every-1).Draw(t, "rotate_after_write") == 0 }
	lg, rots := writeLogPerWrite(t, filepath.Join(dir, "w"), recs, ops, after)
	if lg == nil {
		return
	}
	vstat.Label(fmt.Sprintf("schedule_files_%d", min(len(lg.files), 4)))
	if len(lg.files) >= 2 && len(lg.markers) >= 2 {
		vstat.NonTrivial(fmt.Sprintf("%s|%v", lg.opsFingerprint(), rots))
	}
	if lg.split {
		// a record begins in one file and ends in the next although nothing was cut or altered: the newest-file-first search
		// then starts in the middle of a record
		vstat.Label("schedule_record_split_across_files")
	}
	c := &checker{t: t, lg: lg, afterAlt: -1}
	c.checkIntact(filepath.Join(dir, "d"))
	vstat.EvalN(c.nEvals)
}

func TestRotationSchedule(t *testing.T) { rapid.Check(t, runRotationSchedule) }

// runManyRotations: a log that has rotated around a generated number of times - below, at and above the points where the
// index in the file name grows a digit (wal.099/wal.100, wal.999/wal.1000) - is re-opened (as after a restart: the group
// rediscovers its files from the directory) and must be read back completely, every marker found.
func runManyRotations(t *rapid.T) {
	vstat.Eval()
	dir := newCaseDir()
	defer os.RemoveAll(dir)
	n := rapid.SampledFrom([]int{2, 9, 10, 11, 99, 100, 101, 102, 998, 999, 1000, 1001, 1002, 1003, 1010}).Draw(t, "rotations") + rapid.IntRange(0, 1).Draw(t, "plus")
	h0 := uint64(rapid.IntRange(1, 70000).Draw(t, "h0"))
	var recs []*rec
	for i := 0; i < n; i++ {
		recs = append(recs, markerRec(h0+uint64(i)))
	}
	// a few more records behind the last rotation
	recs = append(recs, markerRec(h0+uint64(n)), partRec(rapid.IntRange(1, 300).Draw(t, "tail"), nil, true))
	lg := writeLog(t, filepath.Join(dir, "w"), recs, opsOf(recs), func(i int, _ func() bool) (bool, bool) { return i < n, true }, false)
	if lg == nil {
		return
	}
	vstat.Label(fmt.Sprintf("many_rotations_files_%d_digits", len(fmt.Sprint(len(lg.files)-1))))
	vstat.NonTrivial(fmt.Sprintf("%d|%d", n, h0))
	c := &checker{t: t, lg: lg, afterAlt: -1}
	// the markers of the newest files are what a restart looks for: check the whole log, then a sample of markers is enough
	if len(lg.markers) > 6 {
		keep := append([]int{}, lg.markers[:2]...)
		keep = append(keep, lg.markers[len(lg.markers)-4:]...)
		lg.markers = keep
	}
	c.checkIntact(filepath.Join(dir, "d"))
	vstat.EvalN(c.nEvals)
}

func TestManyRotations(t *testing.T) { rapid.Check(t, runManyRotations) }

func TestWALDamage(t *testing.T) {
	rapid.Check(t, runLog)
}

// ---------------------------------------------------------------- regression tests for the listed findings (plain Go tests)

func partRec(n int, bz []byte, sync bool) *rec {
	if bz == nil {
		bz = bytes.Repeat([]byte{7}, n)
	}
	peer := "peer"
	if sync {
		peer = ""
	}
	r := &rec{kind: "part", sync: sync, msg: cs.VerifWALMsgInfo(&cs.BlockPartMessage{Height: 2, Round: 0, Part: &types.Part{Index: 1, Bytes: bz}}, peer)}
	r.desc = describe(r.msg)
	return r
}

func markerRec(h uint64) *rec {
	r := &rec{kind: "endheight", sync: true, isMarker: true, height: h, msg: cs.EndHeightMessage{Height: h}}
	r.desc = describe(r.msg)
	return r
}

func opsOf(recs []*rec) (ops []opRec) {
	for _, r := range recs {
		ops = append(ops, opRec{Kind: r.kind, Sync: r.sync, H: r.height})
	}
	return ops
}

// kSplit: 45 block parts of 1000 bytes arrive from a peer (Write, no flush) and overflow the head's 40 KiB buffer, which
// therefore flushes itself in the middle of a record; the size check rotates the head at that moment; the node then
// finishes heights 2 and 3 (WriteSync).  Nothing is damaged, yet no marker can be found any more.
func TestRegressionRotateSplitsRecord(t *testing.T) {
	dir := newCaseDir()
	defer os.RemoveAll(dir)
	recs := []*rec{markerRec(1)}
	for i := 0; i < 45; i++ {
		recs = append(recs, partRec(1000, nil, false))
	}
	rotAt := len(recs) - 1
	recs = append(recs, markerRec(2), markerRec(3))
	lg := writeLog(t, filepath.Join(dir, "w"), recs, opsOf(recs), func(i int, _ func() bool) (bool, bool) { return i == rotAt, false }, false)
	if lg == nil {
		return
	}
	vstat.Eval()
	vstat.Label("regression_split")
	if lg.split {
		vstat.Label("regression_split_reproduced")
		vstat.NonTrivial("regression|split")
	} // else RotateFile has flushed the buffer: the finding is repaired and the intact log below must be fully searchable
	c := &checker{t: t, lg: lg, observeKnown: true, afterAlt: -1}
	c.checkIntact(filepath.Join(dir, "d"))
}

// kTorn: height 1 is finished, the head is rotated, the node crashes while the next record is being written.
func TestRegressionTornTailHidesOlderMarker(t *testing.T) {
	dir := newCaseDir()
	defer os.RemoveAll(dir)
	recs := []*rec{markerRec(1), partRec(100, nil, true)}
	lg := writeLog(t, filepath.Join(dir, "w"), recs, opsOf(recs), func(i int, _ func() bool) (bool, bool) { return i == 0, false }, false)
	if lg == nil {
		return
	}
	vstat.Eval()
	vstat.Label("regression_torn")
	if len(lg.files) != 2 || lg.recs[1].file != 0 || lg.recs[2].file != 1 {
		t.Fatalf("harness: unexpected layout %v", lg.bounds)
	}
	c := &checker{t: t, lg: lg, observeKnown: true, afterAlt: -1}
	// every cut inside the last record that leaves at least 4 bytes of it
	var cuts []int
	for x := lg.recs[2].start + 4; x < lg.recs[2].end; x++ {
		cuts = append(cuts, x)
	}
	c.sweepTruncations(filepath.Join(dir, "d"), cuts)
}

// kResync: a peer sends a block part whose bytes are copies of a well-formed "end of height 2^40+7" record; later one byte
// of that record's length field is damaged so that the record seems to end where an embedded copy starts.
func TestRegressionResyncFindsUnwrittenMarker(t *testing.T) {
	for _, n := range []int{700, 777, 850, 1000, 1500, 3000, 10000} {
		dir := newCaseDir()
		sled := sledFrame()
		p := partRec(n, bytes.Repeat(sled, n/len(sled)+1)[:n], false)
		p.sled = sled
		recs := []*rec{markerRec(1), p, markerRec(2)}
		lg := writeLog(t, filepath.Join(dir, "w"), recs, opsOf(recs), func(i int, _ func() bool) (bool, bool) { return false, false }, false)
		if lg == nil {
			os.RemoveAll(dir)
			return
		}
		alts := sledAlterations(lg.recs[2])
		if len(alts) == 0 {
			os.RemoveAll(dir)
			continue // no single-byte change of this length lands on a frame start; try another size
		}
		vstat.Eval()
		vstat.Label("regression_resync")
		c := &checker{t: t, lg: lg, observeKnown: true, afterAlt: -1}
		c.sweepAlterations(filepath.Join(dir, "d"), alts)
		os.RemoveAll(dir)
		return
	}
	t.Fatalf("harness: no part size gave a usable length alteration")
}

// ---------------------------------------------------------------- native fuzz target: raw bytes into WALDecoder

// groupLike hands out the bytes the way GroupReader.Read does for the last file of a group: it fills p completely or
// returns what is left together with io.EOF, and rejects an empty p.
type groupLike struct{ r *bytes.Reader }

func (g groupLike) Read(p []byte) (int, error) {
	if len(p) == 0 {
		return 0, fmt.Errorf("given empty slice")
	}
	n, err := io.ReadFull(g.r, p)
	if err == io.ErrUnexpectedEOF {
		err = io.EOF
	}
	return n, err
}

// isNilPayload: the serializer decodes the single byte 0x00 into a nil interface (C11 precondition) and cannot encode a
// nil interface again; such a value is not a message and is left out of the re-encode oracle.
func isNilPayload(m cs.WALMessage) bool {
	if m == nil {
		return true
	}
	kind, cmsg, _, _ := cs.VerifWALDescribe(m)
	return kind == "msgInfo" && cmsg == nil
}

// checkStream feeds data to the decoder and compares every answer with the harness' own walk over the frames:
// a message may only come out of a complete record whose checksum matches, and it must serialize again
// (decode(encode(m)) == m); a record whose checksum does not match must be answered with the corruption class.
func checkStream(t *testing.T, data []byte, what string) {
	dec := cs.NewWALDecoder(groupLike{bytes.NewReader(data)})
	pos := 0
	for iter := 0; iter < 4096; iter++ {
		m, err, pan := safeDecode(dec)
		if pan != nil {
			vstat.Violation(t, P, "decode-panic", "%s: Decode panicked at offset %d of %x: %v", what, pos, data, pan)
			return
		}
		if err == nil && m == nil {
			vstat.Violation(t, P, "decode-nil-without-error", "%s: Decode returned (nil, nil) at offset %d of %x", what, pos, data)
			return
		}
		rem := len(data) - pos
		complete := false
		var l int
		if rem >= 8 {
			l = int(binary.BigEndian.Uint32(data[pos+4 : pos+8]))
			complete = l > 0 && l <= maxMsgSizeBytes && rem-8 >= l
		}
		if !complete {
			if err == nil {
				vstat.Violation(t, P, "decode-foreign-message", "%s: a message (%s) came out of an incomplete record at offset %d of %x", what, describe(m.Msg), pos, data)
			}
			if rem < 4 && err != io.EOF {
				vstat.Violation(t, P, "decode-error-on-undamaged-log", "%s: %d bytes left at offset %d, Decode returned %v instead of io.EOF", what, rem, pos, err)
			}
			return // the framing is lost here; so is the model
		}
		payload := data[pos+8 : pos+8+l]
		crcOK := crc32.Checksum(payload, crc32c) == binary.BigEndian.Uint32(data[pos:pos+4])
		pos += 8 + l
		if !crcOK {
			if err == nil {
				vstat.Violation(t, P, "decode-foreign-message", "%s: a message (%s) came out of a record whose checksum does not match, in %x", what, describe(m.Msg), data)
				return
			}
			if !cs.IsDataCorruptionError(err) {
				vstat.Violation(t, P, "decode-corruption-not-classified", "%s: checksum mismatch reported as %T %q in %x", what, err, err, data)
				return
			}
			continue
		}
		if err != nil {
			if !cs.IsDataCorruptionError(err) {
				vstat.Violation(t, P, "decode-corruption-not-classified", "%s: undecodable payload reported as %T %q in %x", what, err, err, data)
				return
			}
			continue
		}
		if isNilPayload(m.Msg) {
			continue
		}
		bz, e := encodeTimed(m.Time, m.Msg)
		if e != nil {
			vstat.Violation(t, P, "decoded-message-does-not-reencode", "%s: %s decoded from %x does not serialize: %v", what, describe(m.Msg), payload, e)
			return
		}
		var m2 cs.TimedWALMessage
		if e := ser.DecodeBytes(bz, &m2); e != nil || describe(m2.Msg) != describe(m.Msg) {
			vstat.Violation(t, P, "decoded-message-does-not-reencode", "%s: %s decoded from %x; its serialization %x decodes to %s (%v)", what, describe(m.Msg), payload, bz, describe(m2.Msg), e)
			return
		}
		if bz2, e := encodeTimed(m2.Time, m2.Msg); e != nil || !bytes.Equal(bz, bz2) {
			vstat.Violation(t, P, "decoded-message-does-not-reencode", "%s: serialization of the message decoded from %x is not stable: %x then %x (%v)", what, payload, bz, bz2, e)
			return
		}
	}
}

func FuzzWALDecode(f *testing.F) {
	fuzzing := false
	for _, a := range os.Args {
		if a == "-test.fuzz" || strings.HasPrefix(a, "-test.fuzz=") || strings.HasPrefix(a, "-test.fuzzworker") {
			fuzzing = true
		}
	}
	f.Fuzz(func(t *testing.T, data []byte) {
		if len(data) > 1<<16 {
			return
		}
		if !fuzzing {
			vstat.Eval() // corpus replay; the driver counts the execs of a real fuzzing run from its output
		}
		// (1) the bytes as a log
		checkStream(t, data, "raw")
		// (2) the bytes as the payload of one well-framed record followed by a good one: the checksum then matches, so the
		// deserializer sees the bytes; behind it the decoder must be positioned on the next record
		if len(data) > 0 {
			checkStream(t, append(frame(data), sledFrame()...), "framed")
		}
		// (3) a plain reader that returns short reads without an error (what wal2json hands to the decoder)
		dec := cs.NewWALDecoder(bytes.NewReader(data))
		for i := 0; i < 4096; i++ {
			m, err, pan := safeDecode(dec)
			if pan != nil {
				vstat.Violation(t, P, "decode-panic", "Decode over a bytes.Reader panicked on %x: %v", data, pan)
				return
			}
			if err != nil {
				break
			}
			if m != nil && !isNilPayload(m.Msg) {
				if _, e := encodeTimed(m.Time, m.Msg); e != nil {
					vstat.Violation(t, P, "decoded-message-does-not-reencode", "%s decoded from %x does not serialize: %v", describe(m.Msg), data, e)
					return
				}
			}
		}
		if len(data) >= 8 {
			vstat.NonTrivial(fmt.Sprintf("fuzz|%x", data))
		}
	})
}

// TestWriteSeedCorpus regenerates testdata/fuzz/FuzzWALDecode (only when C14_WRITE_SEEDS names the package directory):
// one valid record per payload kind, a whole small log, raw payloads for the "framed" variant, damaged variants and
// hostile length fields.
func TestWriteSeedCorpus(t *testing.T) {
	dst := os.Getenv("C14_WRITE_SEEDS")
	if dst == "" {
		t.Skip("set C14_WRITE_SEEDS=<package dir> to regenerate the seed corpus")
	}
	dir := filepath.Join(dst, "testdata", "fuzz", "FuzzWALDecode")
	if err := os.MkdirAll(dir, 0o755); err != nil {
		t.Fatal(err)
	}
	ts := time.Unix(1600000000, 123456789).UTC()
	var sig crypto.SignatureEd25519
	for i := range sig {
		sig[i] = byte(i)
	}
	bid := types.BlockID{Hash: common.Hash{1, 2, 3}, PartsHeader: types.PartSetHeader{Total: 3, Hash: []byte{9, 9, 9}}}
	msgs := map[string]cs.WALMessage{
		"endheight0": cs.EndHeightMessage{Height: 0},
		"endheight":  cs.EndHeightMessage{Height: 65536},
		"timeout":    cs.VerifWALTimeout(3*time.Second, 7, 1, 3),
		"roundstate": types.EventDataRoundState{Height: 7, Round: 1, Step: "RoundStepPrevote"},
		"vote": cs.VerifWALMsgInfo(&cs.VoteMessage{Vote: &types.Vote{ValidatorAddress: bytes.Repeat([]byte{0xaa}, 20), ValidatorIndex: 2, ValidatorSize: 4,
			Height: 7, Round: 1, Timestamp: ts, Type: types.VoteTypePrecommit, BlockID: bid, Signature: sig}}, "peer0123"),
		"vote-unsigned": cs.VerifWALMsgInfo(&cs.VoteMessage{Vote: &types.Vote{Height: 7, Type: types.VoteTypePrevote}}, ""),
		"proposal": cs.VerifWALMsgInfo(&cs.ProposalMessage{Proposal: &types.Proposal{Height: 7, Round: 1, Timestamp: ts, BlockPartsHeader: bid.PartsHeader,
			POLRound: -1, Signature: sig}}, ""),
		"part": cs.VerifWALMsgInfo(&cs.BlockPartMessage{Height: 7, Round: 1, Part: &types.Part{Index: 1, Bytes: bytes.Repeat([]byte{0, 1, 2, 3}, 16),
			Proof: merkle.SimpleProof{Aunts: [][]byte{bytes.Repeat([]byte{5}, 20)}}}}, "peer0123"),
	}
	write := func(name string, b []byte) {
		body := fmt.Sprintf("go test fuzz v1\n[]byte(%q)\n", b)
		if err := os.WriteFile(filepath.Join(dir, name), []byte(body), 0o644); err != nil {
			t.Fatal(err)
		}
	}
	var whole []byte
	for _, name := range []string{"endheight0", "roundstate", "proposal", "part", "vote", "vote-unsigned", "timeout", "endheight"} {
		payload, err := encodeTimed(ts, msgs[name])
		if err != nil {
			t.Fatal(err)
		}
		var buf bytes.Buffer
		if err := cs.NewWALEncoder(&buf).Encode(&cs.TimedWALMessage{Time: ts, Msg: msgs[name]}); err != nil {
			t.Fatal(err)
		}
		if !bytes.Equal(buf.Bytes(), frame(payload)) {
			t.Fatalf("WALEncoder and the harness framing disagree for %s", name)
		}
		write("record-"+name, buf.Bytes())
		write("payload-"+name, payload)
		whole = append(whole, buf.Bytes()...)
	}
	write("log-all-kinds", whole)
	write("log-torn-tail", whole[:len(whole)-5])
	flipped := append([]byte(nil), whole...)
	flipped[2] ^= 0x40 // checksum of the first record
	write("log-crc-damaged", flipped)
	flipped = append([]byte(nil), whole...)
	flipped[7] ^= 0x08 // length of the first record
	write("log-length-damaged", flipped)
	for name, l := range map[string]uint32{"len-zero": 0, "len-max": maxMsgSizeBytes, "len-max-plus-1": maxMsgSizeBytes + 1, "len-1shl31": 1 << 31, "len-ffffffff": 0xffffffff} {
		b := make([]byte, 8, 16)
		binary.BigEndian.PutUint32(b[4:], l)
		write(name, append(b, 1, 2, 3, 4))
	}
	write("payload-nil-interface", []byte{0})
	write("empty", nil)
}
