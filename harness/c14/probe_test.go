package c14

import (
	"bytes"
	"fmt"
	"os"
	"path/filepath"
	"testing"

	cs "github.com/lianxiangcloud/linkchain/consensus"
	"github.com/lianxiangcloud/linkchain/libs/log"
	"github.com/lianxiangcloud/linkchain/types"
)

func TestProbe(t *testing.T) {
	log.Root().SetHandler(log.DiscardHandler())
	dir := t.TempDir()
	wal, err := cs.NewWAL(filepath.Join(dir, "wal"))
	if err != nil {
		t.Fatal(err)
	}
	if err := wal.Start(); err != nil {
		t.Fatal(err)
	}
	wal.WriteSync(cs.EndHeightMessage{Height: 1})
	for i := 0; i < 45; i++ {
		wal.Write(cs.VerifWALMsgInfo(&cs.BlockPartMessage{Height: 2, Round: 0, Part: &types.Part{Index: i, Bytes: bytes.Repeat([]byte{7}, 1000)}}, "x"))
	}
	sz, _ := wal.Group().Head.Size()
	fmt.Println("head size before rotate", sz)
	wal.Group().RotateFile()
	wal.WriteSync(cs.EndHeightMessage{Height: 2})
	wal.WriteSync(cs.EndHeightMessage{Height: 3})
	wal.Stop()
	ents, _ := os.ReadDir(dir)
	for _, e := range ents {
		fi, _ := e.Info()
		fmt.Println(e.Name(), fi.Size())
	}
	w2, err := cs.NewWAL(filepath.Join(dir, "wal"))
	if err != nil {
		t.Fatal(err)
	}
	gr, _ := w2.Group().NewReader(0)
	dec := cs.NewWALDecoder(gr)
	n := 0
	for {
		_, err := dec.Decode()
		if err != nil {
			fmt.Println("decode end after", n, ":", err)
			break
		}
		n++
	}
	gr.Close()
	for _, ign := range []bool{false, true} {
		for _, h := range []uint64{0, 1, 2, 3, 4} {
			gr, found, err := w2.SearchForEndHeight(h, &cs.WALSearchOptions{IgnoreDataCorruptionErrors: ign})
			fmt.Println("search ignore=", ign, h, found, err, gr != nil)
			if gr != nil {
				gr.Close()
			}
		}
	}
	w2.Group().Close()
}
