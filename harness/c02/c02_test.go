// C02 — honest validators vote only for fully valid blocks; committed blocks apply.
package c02

import (
	"bytes"
	"fmt"
	"os"
	"os/signal"
	"strings"
	"sync/atomic"
	"syscall"
	"testing"
	"time"

	"github.com/lianxiangcloud/linkchain/consensus"
	"github.com/lianxiangcloud/linkchain/libs/common"
	"github.com/lianxiangcloud/linkchain/libs/crypto"
	dbm "github.com/lianxiangcloud/linkchain/libs/db"
	"github.com/lianxiangcloud/linkchain/libs/ser"
	"github.com/lianxiangcloud/linkchain/types"
	"pgregory.net/rapid"

	"verifharness/chainsim"
	"verifharness/consim"
	"verifharness/vstat"
	"verifharness/world"
)

const P = "C02"

var sigterms int32

func TestMain(m *testing.M) {
	consim.Init()
	world.Init()
	// finalizeCommit answers an ApplyBlock error with SIGTERM to the own process: survive it and count it
	ch := make(chan os.Signal, 16)
	signal.Notify(ch, syscall.SIGTERM)
	go func() {
		for range ch {
			atomic.AddInt32(&sigterms, 1)
		}
	}()
	vstat.Main(m)
}

// op is a corruption a Byzantine proposer applies to an otherwise honest block.  Every op in this table makes the block
// invalid under the property's definition of full validation (oracle (b) demands that ValidateBlock rejects it).
type op struct {
	name      string
	minHeight uint64
	apply     func(t *rapid.T, b *types.Block, n *consim.Net)
	maxHeight uint64 // 0 = no upper bound
	// neutral: the operator does not by itself make the block invalid (whether it does depends on the node's history, e.g.
	// on what it has pruned): no vote is judged for it, only "nobody aborts" applies
	neutral bool
}

// headerDonor: a VALID block of the current height that the correct nodes have fully validated in an earlier round that did
// not decide (set by the schedule, nil otherwise).
var headerDonor *types.Block

// lastVals: the validator set that signed the previous block, as the node the proposal is built for sees it (set by the
// schedule before the operators run).
var lastVals *types.ValidatorSet

func ops() []op {
	return []op{
		{"chain-id", 1, func(t *rapid.T, b *types.Block, n *consim.Net) { b.ChainID = "evil-chain" }, 0, false},
		{"height+1", 1, func(t *rapid.T, b *types.Block, n *consim.Net) { b.Header.Height++ }, 0, false},
		{"last-block-id-hash", 1, func(t *rapid.T, b *types.Block, n *consim.Net) {
			b.LastBlockID.Hash = common.BytesToHash([]byte("bogus-last-block"))
		}, 0, false},
		{"last-block-id-parts", 2, func(t *rapid.T, b *types.Block, n *consim.Net) { b.LastBlockID.PartsHeader.Total += 3 }, 0, false},
		{"total-txs", 1, func(t *rapid.T, b *types.Block, n *consim.Net) {
			b.TotalTxs += uint64(rapid.IntRange(1, 1000).Draw(t, "dtotal"))
		}, 0, false},
		{"num-txs", 1, func(t *rapid.T, b *types.Block, n *consim.Net) {
			b.NumTxs += uint64(rapid.IntRange(1, 5).Draw(t, "dnum"))
		}, 0, false},
		{"validators-hash", 1, func(t *rapid.T, b *types.Block, n *consim.Net) {
			b.ValidatorsHash = common.BytesToHash([]byte("other-validators"))
		}, 0, false},
		{"consensus-hash", 1, func(t *rapid.T, b *types.Block, n *consim.Net) {
			b.ConsensusHash = common.BytesToHash([]byte("other-params"))
		}, 0, false},
		{"last-commit-hash", 1, func(t *rapid.T, b *types.Block, n *consim.Net) {
			b.LastCommitHash = common.BytesToHash([]byte("other-commit"))
		}, 0, false},
		{"evidence-hash", 1, func(t *rapid.T, b *types.Block, n *consim.Net) {
			b.EvidenceHash = common.BytesToHash([]byte("other-evidence"))
		}, 0, false},
		{"data-hash", 1, func(t *rapid.T, b *types.Block, n *consim.Net) { b.DataHash = common.BytesToHash([]byte("other-data")) }, 0, false},
		{"commit-at-height-1", 1, func(t *rapid.T, b *types.Block, n *consim.Net) {
			v := n.SignedVote(0, types.VoteTypePrecommit, 0, 0, types.BlockID{})
			b.LastCommit = &types.Commit{BlockID: types.BlockID{}, Precommits: []*types.Vote{v}}
			b.LastCommitHash = b.LastCommit.Hash()
		}, 1, false},
		{"last-commit-empty", 2, func(t *rapid.T, b *types.Block, n *consim.Net) {
			b.LastCommit = &types.Commit{BlockID: b.LastCommit.BlockID}
			b.LastCommitHash = b.LastCommit.Hash()
		}, 0, false},
		{"last-commit-truncated", 2, func(t *rapid.T, b *types.Block, n *consim.Net) {
			c := *b.LastCommit
			c.Precommits = append([]*types.Vote(nil), b.LastCommit.Precommits[:len(b.LastCommit.Precommits)-1]...)
			b.LastCommit = &types.Commit{BlockID: c.BlockID, Precommits: c.Precommits}
			b.LastCommitHash = b.LastCommit.Hash()
		}, 0, false},
		{"last-commit-below-two-thirds", 2, func(t *rapid.T, b *types.Block, n *consim.Net) {
			pcs := append([]*types.Vote(nil), b.LastCommit.Precommits...)
			kept := 0
			for i := range pcs {
				if pcs[i] != nil {
					if kept >= 1 { // one vote can never be > 2/3 of >= 4 equal validators
						pcs[i] = nil
					}
					kept++
				}
			}
			b.LastCommit = &types.Commit{BlockID: b.LastCommit.BlockID, Precommits: pcs}
			b.LastCommitHash = b.LastCommit.Hash()
		}, 0, false},
		{"last-commit-largest-below-quorum", 2, func(t *rapid.T, b *types.Block, n *consim.Net) {
			// the most voting power a commit can carry without being MORE than two thirds: precommits are kept, in slot
			// order, while their power stays <= floor(2T/3) (with T mod 3 == 2 that is one unit below the quorum, the case a
			// threshold computed as T/3*2 lets through)
			pcs := append([]*types.Vote(nil), b.LastCommit.Precommits...)
			if lastVals == nil || lastVals.Size() != len(pcs) {
				pcs = pcs[:0] // no view of the last validators: an empty commit is invalid as well
			} else {
				limit, sum := lastVals.TotalVotingPower()*2/3, int64(0)
				for i := range pcs {
					if pcs[i] == nil {
						continue
					}
					_, v := lastVals.GetByIndex(i)
					if sum+v.VotingPower <= limit {
						sum += v.VotingPower
					} else {
						pcs[i] = nil
					}
				}
				if sum == limit {
					vstat.Label(fmt.Sprintf("last_commit_power_exactly_floor_two_thirds_total_mod3_%d", lastVals.TotalVotingPower()%3))
				}
			}
			b.LastCommit = &types.Commit{BlockID: b.LastCommit.BlockID, Precommits: pcs}
			b.LastCommitHash = b.LastCommit.Hash()
		}, 0, false},
		{"last-commit-one-vote-in-every-slot", 2, func(t *rapid.T, b *types.Block, n *consim.Net) {
			// ONE genuine precommit copied into every slot: every copy is correctly signed (by its one signer), only one
			// validator stands behind the "commit".  The validator index and address inside a vote are not signed.
			var one *types.Vote
			for _, pc := range b.LastCommit.Precommits {
				if pc != nil {
					one = pc
					break
				}
			}
			if one == nil {
				return
			}
			pcs := make([]*types.Vote, len(b.LastCommit.Precommits))
			for i := range pcs {
				c := *one
				pcs[i] = &c
			}
			b.LastCommit = &types.Commit{BlockID: b.LastCommit.BlockID, Precommits: pcs}
			b.LastCommitHash = b.LastCommit.Hash()
		}, 0, false},
		{"last-commit-one-vote-relabelled-in-every-slot", 2, func(t *rapid.T, b *types.Block, n *consim.Net) {
			// the same, with the unsigned index/address fields of each copy set to the slot's validator
			var one *types.Vote
			for _, pc := range b.LastCommit.Precommits {
				if pc != nil {
					one = pc
					break
				}
			}
			if one == nil {
				return
			}
			pcs := make([]*types.Vote, len(b.LastCommit.Precommits))
			for i := range pcs {
				c := *one
				c.ValidatorIndex = i
				if addr, v := n.ValSet.GetByIndex(i); v != nil {
					c.ValidatorAddress = addr
				}
				pcs[i] = &c
			}
			b.LastCommit = &types.Commit{BlockID: b.LastCommit.BlockID, Precommits: pcs}
			b.LastCommitHash = b.LastCommit.Hash()
		}, 0, false},
		{"last-commit-bad-signature", 2, func(t *rapid.T, b *types.Block, n *consim.Net) {
			pcs := append([]*types.Vote(nil), b.LastCommit.Precommits...)
			for i := range pcs {
				if pcs[i] != nil {
					v := pcs[i].Copy()
					v.Timestamp = v.Timestamp.Add(time.Hour) // signature no longer matches the sign bytes
					pcs[i] = v
				}
			}
			b.LastCommit = &types.Commit{BlockID: b.LastCommit.BlockID, Precommits: pcs}
			b.LastCommitHash = b.LastCommit.Hash()
		}, 0, false},
		{"last-commit-transplanted-signature", 2, func(t *rapid.T, b *types.Block, n *consim.Net) {
			pcs := append([]*types.Vote(nil), b.LastCommit.Precommits...)
			var first *types.Vote
			for i := range pcs {
				if pcs[i] == nil {
					continue
				}
				if first == nil {
					first = pcs[i]
					continue
				}
				v := pcs[i].Copy()
				v.Signature = first.Signature
				pcs[i] = v
			}
			b.LastCommit = &types.Commit{BlockID: b.LastCommit.BlockID, Precommits: pcs}
			b.LastCommitHash = b.LastCommit.Hash()
		}, 0, false},
		{"last-commit-for-other-block", 2, func(t *rapid.T, b *types.Block, n *consim.Net) {
			// correctly signed precommits by the (single) Byzantine key for ANOTHER block id, everybody else dropped
			other := types.BlockID{Hash: common.BytesToHash([]byte("other-block")), PartsHeader: types.PartSetHeader{Total: 1, Hash: []byte("h")}}
			pcs := make([]*types.Vote, len(b.LastCommit.Precommits))
			for bi := range n.Byz {
				v := n.SignedVote(bi, types.VoteTypePrecommit, b.Height-1, 0, other)
				pcs[v.ValidatorIndex] = v
			}
			b.LastCommit = &types.Commit{BlockID: other, Precommits: pcs}
			b.LastCommitHash = b.LastCommit.Hash()
		}, 0, false},
		{"evidence-missing", 2, func(t *rapid.T, b *types.Block, n *consim.Net) {
			b.Evidence.Evidence = nil
			b.EvidenceHash = b.Evidence.Hash()
		}, 0, false},
		{"evidence-duplicated", 2, func(t *rapid.T, b *types.Block, n *consim.Net) {
			b.Evidence.Evidence = append(b.Evidence.Evidence, b.Evidence.Evidence[0])
			b.EvidenceHash = b.Evidence.Hash()
		}, 0, false},
		{"evidence-wrong-proposer", 2, func(t *rapid.T, b *types.Block, n *consim.Net) {
			fv := *(b.Evidence.Evidence[0].(*types.FaultValidatorsEvidence))
			for bi := range n.Byz {
				fv.Proposer = n.Vals[bi].Pub
			}
			if fv.Proposer.Equals(b.Evidence.Evidence[0].(*types.FaultValidatorsEvidence).Proposer) {
				fv.Proposer = n.Vals[(len(n.Vals) - 1)].Pub
			}
			b.Evidence.Evidence = types.EvidenceList{&fv}
			b.EvidenceHash = b.Evidence.Hash()
		}, 0, false},
		{"evidence-nil-proposer", 2, func(t *rapid.T, b *types.Block, n *consim.Net) {
			fv := *(b.Evidence.Evidence[0].(*types.FaultValidatorsEvidence))
			fv.Proposer = nil
			b.Evidence.Evidence = types.EvidenceList{&fv}
			b.EvidenceHash = b.Evidence.Hash()
		}, 0, false},
		{"evidence-unsigned-duplicate-vote", 2, func(t *rapid.T, b *types.Block, n *consim.Net) {
			va := n.SignedVote(0, types.VoteTypePrevote, b.Height-1, 0, types.BlockID{Hash: common.BytesToHash([]byte("a")), PartsHeader: types.PartSetHeader{Total: 1, Hash: []byte("h")}})
			vb := n.SignedVote(0, types.VoteTypePrevote, b.Height-1, 0, types.BlockID{Hash: common.BytesToHash([]byte("b")), PartsHeader: types.PartSetHeader{Total: 1, Hash: []byte("h")}})
			vb.Signature = va.Signature // the accused never signed vote B
			b.Evidence.Evidence = append(b.Evidence.Evidence, &types.DuplicateVoteEvidence{PubKey: n.Vals[0].Pub, VoteA: va, VoteB: vb})
			b.EvidenceHash = b.Evidence.Hash()
		}, 0, false},
		// the header of a valid block the nodes validated in an earlier, undecided round of this height, copied byte for byte over
		// another body: the block hash (= header hash) is the one of the valid block, the body is not what the header commits to
		{"validated-header-over-other-body", 1, func(t *rapid.T, b *types.Block, n *consim.Net) {
			d := headerDonor
			if d == nil || d.Height != b.Height {
				return
			}
			var nb *types.Block
			if bz, err := ser.EncodeToBytes(d); err != nil || ser.DecodeBytes(bz, &nb) != nil || nb == nil {
				return
			}
			switch k := rapid.IntRange(0, 3).Draw(t, "bodychange"); {
			case k == 0 && nb.LastCommit != nil && nb.LastCommit.FirstPrecommit() != nil:
				for _, v := range nb.LastCommit.Precommits {
					if v != nil && len(v.Signature.Bytes()) > 0 {
						sig := append([]byte(nil), v.Signature.Bytes()...)
						sig[len(sig)-1] ^= 1
						if s2, err := crypto.SignatureFromBytes(sig); err == nil {
							v.Signature = s2
						}
						break
					}
				}
			case k == 1 && len(nb.Evidence.Evidence) > 0:
				nb.Evidence.Evidence = nil
			case k == 2 && len(nb.Evidence.Evidence) > 0:
				nb.Evidence.Evidence = append(nb.Evidence.Evidence, nb.Evidence.Evidence[0])
			default:
				nb.Data.Txs = append(nb.Data.Txs, world.Transfer(world.DetAcct(100), 77, world.DetAcct(101).Addr, chainsim.E(1)))
			}
			b.Header, b.Data, b.Evidence, b.LastCommit = nb.Header, nb.Data, nb.Evidence, nb.LastCommit
		}, 0, false},
		// a GENUINE equivocation of the Byzantine validator itself (both votes really signed) at a generated height: an old one
		// (valid evidence if the node still has that height's validator record, unverifiable if it pruned it), the previous
		// one, or one the chain has not reached.  Validating it looks up the validator set of that height.
		{"evidence-own-equivocation-at-generated-height", 2, func(t *rapid.T, b *types.Block, n *consim.Net) {
			var who int
			for bi := range n.Byz {
				who = bi
			}
			h := uint64(rapid.IntRange(1, int(b.Height)+2).Draw(t, "evheight"))
			if rapid.IntRange(0, 5).Draw(t, "evfar") == 0 {
				h = uint64(rapid.SampledFrom([]int{0, 1 << 20, 1 << 40}).Draw(t, "evfarheight"))
			}
			va := n.SignedVote(who, types.VoteTypePrevote, h, 0, types.BlockID{Hash: common.BytesToHash([]byte("a")), PartsHeader: types.PartSetHeader{Total: 1, Hash: []byte("h")}})
			vb := n.SignedVote(who, types.VoteTypePrevote, h, 0, types.BlockID{Hash: common.BytesToHash([]byte("b")), PartsHeader: types.PartSetHeader{Total: 1, Hash: []byte("h")}})
			b.Evidence.Evidence = append(b.Evidence.Evidence, &types.DuplicateVoteEvidence{PubKey: n.Vals[who].Pub, VoteA: va, VoteB: vb})
			b.EvidenceHash = b.Evidence.Hash()
		}, 0, true},
	}
}

// pick draws an index in [0,n) with a flat distribution (rapid's integer generators favour small values, which would
// concentrate the cases on the first operators of the table); the draw still shrinks towards index hash(0,0,0).
func pick(t *rapid.T, n int, label string) int {
	b := rapid.SliceOfN(rapid.Byte(), 3, 3).Draw(t, label)
	h := uint32(2166136261)
	for _, c := range b {
		h = (h ^ uint32(c)) * 16777619
	}
	return int(h>>8) % n
}

func runProposer(t *rapid.T) {
	vstat.Eval()
	nv := rapid.IntRange(4, 5).Draw(t, "nvals")
	vals := make([]*consim.ValKey, nv)
	for i := range vals {
		vals[i] = consim.DetVal(i, 1)
	}
	byzKey := rapid.IntRange(0, nv-1).Draw(t, "byz")
	byz := map[int]bool{byzKey: true}
	n := consim.NewNet(vals, byz, true)
	defer n.Close()
	a0 := world.DetAcct(100)
	spec := &world.Spec{ChainID: consim.ChainID, IsTrie: rapid.Bool().Draw(t, "isTrie"), Accounts: []world.GenesisAccount{{Addr: a0.Addr, Balance: chainsim.E(1000000)}}}
	mc := world.DefaultMempoolConfig()
	mc.CacheSize = 0
	spec.Mempool = mc
	worlds := map[int]*world.World{}
	apps := map[int]*consim.RealApp{}
	tv := consim.TypesVals(vals)
	// The power of one correct validator changes at a generated height (so the validator records in the status store have
	// change heights), and the nodes may prune their consensus status, keeping a generated window, once the chain has grown.
	changeAt := uint64(rapid.IntRange(0, 3).Draw(t, "valchange")) // 0 = never
	tv2 := consim.TypesVals(vals)
	tv2[(byzKey+1)%nv].VotingPower = 2
	valsAt := func(h uint64) []*types.Validator {
		if changeAt > 0 && h >= changeAt {
			return tv2
		}
		return tv
	}
	pruneKeep := uint64(0)
	if rapid.IntRange(0, 2).Draw(t, "pruning") == 0 {
		pruneKeep = uint64(rapid.IntRange(1, 3).Draw(t, "prunekeep"))
		vstat.Label("pruning_nodes")
	}
	pruned := map[uint64]bool{}
	for i := 0; i < nv; i++ {
		if byz[i] {
			continue
		}
		w, err := world.New(spec)
		if err != nil {
			t.Fatalf("world: %v", err)
		}
		defer w.Close()
		worlds[i] = w
		apps[i] = &consim.RealApp{W: w, Vals: tv, ValsAt: valsAt}
	}
	if pruneKeep > 0 {
		// pruning nodes keep their consensus status in goleveldb (MemDB answers a missing key differently, and the pruning
		// bookkeeping depends on the difference)
		var open []dbm.DB
		defer func() {
			for _, d := range open {
				d.Close()
			}
		}()
		n.StatusF = func(idx int) dbm.DB {
			d := dbm.NewDB("consensus_state", dbm.GoLevelDBBackend, worlds[idx].DBs.Dir, 0)
			open = append(open, d)
			return d
		}
	}
	n.AppFor = func(idx int) (consensus.BlockChainApp, *consim.ScriptApp) { return apps[idx], nil }
	n.PoolFor = func(idx int) consensus.Mempool { return worlds[idx].Mempool }
	for i := 0; i < nv; i++ {
		if !byz[i] {
			if _, err := n.AddNode(i); err != nil {
				t.Fatalf("node: %v", err)
			}
		}
	}
	for _, nd := range n.Nodes {
		n.Start(nd)
	}
	table := ops()
	targetHeight := uint64(rapid.IntRange(1, 4).Draw(t, "targetheight"))
	targetRound := rapid.IntRange(0, 2).Draw(t, "targetround")
	type attack struct {
		ops    []string
		block  *types.Block
		height uint64
		round  int
		passes bool // the application-level CheckBlock alone would let it through
	}
	neutralOnly := false
	neutralAttacks := 0
	var attacks []*attack
	proposed := map[string]bool{}
	byHash := map[common.Hash]*attack{}
	fail := func(key, f string, a ...interface{}) {
		vstat.Violation(t, P, key, "%s\ntrace:\n%s", fmt.Sprintf(f, a...), strings.Join(n.Trace, "\n"))
	}
	startSig := atomic.LoadInt32(&sigterms)
	signedSeen := map[int]int{}
	starved := map[string]bool{}
	voteStarved := map[string]bool{}
	checkedUpTo := map[int]uint64{}
	headerDonor = nil
	donorOf := func(height uint64) *types.Block {
		// the newest complete honest proposal of that height on the network, from a round without polka
		var found *types.Block
		for _, e := range n.Pool {
			pm, ok := e.Msg.(*consensus.ProposalMessage)
			if !ok || e.Byz || pm.Proposal == nil || pm.Proposal.Height != height || !voteStarved[fmt.Sprintf("%d/%d", height, pm.Proposal.Round)] {
				continue
			}
			ps := types.NewPartSetFromHeader(pm.Proposal.BlockPartsHeader)
			for _, e2 := range n.Pool {
				if bp, ok := e2.Msg.(*consensus.BlockPartMessage); ok && !e2.Byz && bp.Height == height && bp.Round == pm.Proposal.Round {
					ps.AddPart(bp.Part)
				}
			}
			if ps.IsComplete() {
				var b *types.Block
				if _, err := ser.DecodeReader(ps.GetReader(), &b, 1<<24); err == nil && b != nil {
					found = b
				}
			}
		}
		return found
	}
	nilVoted := map[string]bool{}
	starveSeen := 0
	txNonce := uint64(0)
	for step := 0; step < 900; step++ {
		// a little honest traffic so blocks are not all empty
		if step%25 == 0 && txNonce < 6 {
			tx := world.Transfer(a0, txNonce, world.DetAcct(101).Addr, chainsim.E(1))
			txNonce++
			for _, w := range worlds {
				w.Submit(chainsim.Fresh(tx))
			}
		}
		// the Byzantine validator proposes whenever it is its turn in some correct node's view
		for _, nd := range n.Nodes {
			if nd.Crashed != nil {
				continue
			}
			rs := nd.CS.GetRoundState()
			// ... and takes part in the voting with nil votes (once per round): with them a starved round ends in a nil POLKA,
			// which a later proposal can name as its proof-of-lock round
			if vk := fmt.Sprintf("%d/%d", rs.Height, rs.Round); !nilVoted[vk] {
				nilVoted[vk] = true
				n.Inject(byzKey, &consensus.VoteMessage{Vote: n.SignedVote(byzKey, types.VoteTypePrevote, rs.Height, rs.Round, types.BlockID{})})
				n.Inject(byzKey, &consensus.VoteMessage{Vote: n.SignedVote(byzKey, types.VoteTypePrecommit, rs.Height, rs.Round, types.BlockID{})})
			}
			prop := rs.Validators.GetProposer()
			key := fmt.Sprintf("%d/%d", rs.Height, rs.Round)
			if string(prop.Address) != string(vals[byzKey].Addr) || proposed[key] || rs.Step > 3 /* past propose */ {
				continue
			}
			proposed[key] = true
			corrupt := rs.Height >= targetHeight && rs.Round >= targetRound || (rs.Height > targetHeight)
			var at *attack
			mutate := func(b *types.Block) {}
			noop := false
			if corrupt {
				at = &attack{height: rs.Height, round: rs.Round}
				k := rapid.IntRange(1, 3).Draw(t, "nops")
				var chosen []op
				for i := 0; i < k; i++ {
					o := table[pick(t, len(table), "op")]
					if rs.Height >= o.minHeight && (o.maxHeight == 0 || rs.Height <= o.maxHeight) {
						chosen = append(chosen, o)
					}
				}
				if len(chosen) == 0 {
					at = nil
				} else {
					lastVals = rs.LastValidators
					if headerDonor = donorOf(rs.Height); headerDonor != nil && rapid.IntRange(0, 2).Draw(t, "usedonor") != 0 {
						chosen = []op{table[len(table)-2]}
						vstat.Label("proposal_over_validated_header")
					}
					if pruneKeep > 0 && rs.Height >= 3 && rapid.IntRange(0, 2).Draw(t, "oldevidence") == 0 {
						chosen = []op{table[len(table)-1]} // pruning nodes see evidence for old heights more often
					}
					// a neutral operator stands alone (it recomputes hashes and would cancel a corruption drawn next to it)
					neutralOnly = false
					for _, o := range chosen {
						if o.neutral {
							chosen, neutralOnly = []op{o}, true
							break
						}
					}
					mutate = func(b *types.Block) {
						before, _ := ser.EncodeToBytes(b)
						for _, o := range chosen {
							o.apply(t, b, n)
							at.ops = append(at.ops, o.name)
						}
						// operators can cancel each other (the second "wrong proposer" may put the right one back): a block
						// whose bytes are what they were is not corrupted
						if after, _ := ser.EncodeToBytes(b); bytes.Equal(before, after) {
							noop = true
						}
					}
				}
			}
			var pan interface{}
			var msgs []consensus.ConsensusMessage
			var blk *types.Block
			func() {
				defer func() { pan = recover() }()
				polR, polID := rs.Votes.POLInfo()
				if polR >= rs.Round {
					polR, polID = -1, types.BlockID{}
				}
				msgs, blk = n.ByzProposal(byzKey, nd, rs.Height, rs.Round, polR, polID, uint64(step), mutate)
			}()
			if pan != nil || blk == nil {
				n.Logf("step %d: byzantine proposer could not build a block for %s: %v", step, key, pan)
				continue
			}
			// From here on the block is what every receiver sees: decoded from its bytes.  The in-memory object the operators
			// worked on carries memoised hashes (EvidenceData.Hash, Block.Hash) that may describe an earlier content.
			if bz, err := ser.EncodeToBytes(blk); err == nil {
				var nb *types.Block
				if ser.DecodeBytes(bz, &nb) == nil && nb != nil {
					blk = nb
				}
			}
			for _, m := range msgs {
				n.Inject(byzKey, m)
			}
			if noop {
				at = nil
				vstat.Label("operators_cancelled_each_other")
			}
			if at != nil && neutralOnly {
				// not judged: whether the block is valid depends on the receiver's history; what must hold is that nobody aborts
				n.Logf("step %d: byzantine proposer signs a proposal for %s carrying %v (not judged; nobody may abort)", step, key, at.ops)
				vstat.Label("neutral_attack")
				neutralAttacks++
				at = nil
			}
			if at != nil && rs.Round > 0 {
				vstat.Label("corrupt_proposal_in_round_ge_1")
				if p, ok := msgs[0].(*consensus.ProposalMessage); ok && p.Proposal.POLRound >= 0 {
					vstat.Label("corrupt_proposal_names_a_pol_round")
				}
			}
			if at != nil {
				at.block = blk
				attacks = append(attacks, at)
				sameHash := false
				for _, o := range at.ops {
					sameHash = sameHash || o == "validated-header-over-other-body"
				}
				if !sameHash {
					// (a block that borrows the header of a valid block shares its hash: a vote for that hash may be a vote for the valid
					// block, e.g. by a node locked on it; full validation (b) and what gets committed (c) judge that operator)
					byHash[blk.Hash()] = at
				}
				vstat.Label("ops_" + fmt.Sprint(len(at.ops)))
				for _, o := range at.ops {
					vstat.Label("op_" + o)
				}
				// oracle (b): full validation must reject every operator of the table
				var verr error
				var vpan interface{}
				func() {
					defer func() { vpan = recover() }()
					verr = nd.BlockExec.ValidateBlock(nd.CS.GetState(), blk)
				}()
				if vpan != nil {
					fail("validateblock-panics:"+strings.Join(at.ops, "+"), "the full block validation panics on a block corrupted by %v at height %d: %v", at.ops, rs.Height, vpan)
					return
				}
				if verr == nil {
					fail("validateblock-accepts:"+strings.Join(at.ops, "+"), "the full block validation accepts a block corrupted by %v at height %d", at.ops, rs.Height)
					return
				}
				var cpan interface{}
				func() {
					defer func() { cpan = recover() }()
					// on a throw-away replica: CheckBlock holds an application lock while it executes, and a panic in there
					// (we recover it here) would leave the node's own application wedged
					rep, err := worlds[nd.Idx].Replica()
					if err != nil {
						return
					}
					defer rep.Close()
					at.passes = rep.App.CheckBlock(blk)
				}()
				if cpan != nil {
					at.passes = false
					n.Logf("step %d: the application check PANICS on the block corrupted by %v: %v", step, at.ops, cpan)
					vstat.Label("appcheck_panics_on:" + strings.Join(at.ops, "+"))
				}
				n.Logf("step %d: byzantine proposer signs a proposal for %s corrupted by %v (application check alone passes: %v)", step, key, at.ops, at.passes)
			} else {
				n.Logf("step %d: byzantine proposer signs an honest proposal for %s", step, key)
			}
		}
		// Some rounds of honest proposers are starved (their proposal reaches nobody): the round ends in a nil polka, the next
		// round's proposer - possibly the Byzantine one - proposes in a round >= 1 and can name that polka as its proof-of-lock round.
		for ; starveSeen < len(n.Pool); starveSeen++ {
			e := n.Pool[starveSeen]
			if e.Byz {
				continue
			}
			var key string
			switch m := e.Msg.(type) {
			case *consensus.ProposalMessage:
				key = fmt.Sprintf("%d/%d", m.Proposal.Height, m.Proposal.Round)
				if _, seen := starved[key]; !seen {
					mode := rapid.IntRange(0, 5).Draw(t, "starve")
					starved[key] = m.Proposal.Round < 3 && mode <= 1
					// ... or the proposal arrives and is validated, but every correct node misses one prevote: no polka, nobody
					// locks, the round ends undecided and the next proposer can build on what the nodes have already validated
					voteStarved[key] = m.Proposal.Round < 3 && mode == 2
					if voteStarved[key] {
						n.Logf("step %d: in round %s every correct node misses one prevote", step, key)
						vstat.Label("honest_round_without_polka")
					}
					if starved[key] {
						n.Logf("step %d: the honest proposal for %s reaches nobody", step, key)
						vstat.Label("honest_round_starved")
					}
				}
			case *consensus.BlockPartMessage:
				key = fmt.Sprintf("%d/%d", m.Height, m.Round)
			case *consensus.VoteMessage:
				if m.Vote != nil && m.Vote.Type == types.VoteTypePrevote && voteStarved[fmt.Sprintf("%d/%d", m.Vote.Height, m.Vote.Round)] {
					// the prevote of correct node i never reaches the next correct node
					for j, nd := range n.Nodes {
						if nd.Idx == e.From {
							n.Nodes[(j+1)%len(n.Nodes)].Delivered[starveSeen] = true
						}
					}
				}
			}
			if key != "" && starved[key] {
				for _, nd := range n.Nodes {
					if nd.Idx != e.From {
						nd.Delivered[starveSeen] = true
					}
				}
			}
		}
		// like node.clearHistoricalDataRoutine: once per new height the pruning nodes delete what lies below their window
		if pruneKeep > 0 {
			for _, nd := range n.Nodes {
				if h := nd.CS.GetState().LastBlockHeight; nd.Crashed == nil && h >= 2 && !pruned[h*100+uint64(nd.Idx)] {
					pruned[h*100+uint64(nd.Idx)] = true
					var pan interface{}
					func() {
						defer func() { pan = recover() }()
						nd.CS.DeleteHistoricalData(pruneKeep)
					}()
					if pan != nil {
						fail("pruning-panics", "validator %d: pruning the consensus status at height %d (window %d) panics: %v", nd.Idx, h, pruneKeep, pan)
						return
					}
					n.Logf("step %d: validator %d prunes its consensus status at height %d, keeping %d", step, nd.Idx, h, pruneKeep)
				}
			}
		}
		// fair delivery round: every node gets everything it has not seen, then idle nodes fire their newest timeout
		progressed := false
		for k := 0; k < len(n.Pool); k++ {
			for _, nd := range n.Nodes {
				if nd.Crashed == nil && !nd.Delivered[k] {
					n.Deliver(nd, k)
					progressed = true
				}
			}
		}
		if !progressed {
			for _, nd := range n.Nodes {
				if nd.Crashed != nil {
					continue
				}
				sch := nd.Ticker.Scheduled()
				for j := len(sch) - 1; j >= 0; j-- {
					if !nd.Fired[j] {
						n.FireTimeout(nd, j)
						break
					}
				}
			}
		}
		// oracle (a): no correct node signs a prevote or precommit for a block that fails full validation
		for _, nd := range n.Nodes {
			for i := signedSeen[nd.Idx]; i < len(nd.Events); i++ {
				e := nd.Events[i]
				if e.Kind != "sign" || e.Vote == nil || e.Vote.BlockID.IsZero() {
					continue
				}
				if at := byHash[e.Vote.BlockID.Hash]; at != nil {
					typ := "prevote"
					if e.Vote.Type == types.VoteTypePrecommit {
						typ = "precommit"
					}
					rsd := nd.CS.GetRoundState()
					fail("honest-vote-for-invalid-block", "correct validator %d signed a %s at h=%d r=%d for a block corrupted by %v (it fails full validation; the application-level check alone passes: %v); the node: round %d step %v locked round %d locked block %v proposal block %v", nd.Idx, typ, e.Vote.Height, e.Vote.Round, at.ops, at.passes, rsd.Round, rsd.Step, rsd.LockedRound, rsd.LockedBlock != nil, rsd.ProposalBlock != nil)
					return
				}
			}
			signedSeen[nd.Idx] = len(nd.Events)
		}
		// oracle (c): nobody aborts, wedges or persists a block it cannot apply
		for _, nd := range n.Nodes {
			if nd.Crashed != nil {
				fail("correct-node-aborted", "correct validator %d panicked: %v", nd.Idx, nd.Crashed)
				return
			}
			// what it has committed is internally consistent (header hashes match the stored body)
			for h := checkedUpTo[nd.Idx] + 1; h <= nd.App.Height(); h++ {
				if b := nd.App.LoadBlock(h); b != nil {
					if err := b.ValidateBasic(); err != nil {
						fail("committed-block-inconsistent", "correct validator %d committed a block at height %d whose body is not what its header commits to: %v", nd.Idx, h, err)
						return
					}
				}
				checkedUpTo[nd.Idx] = h
			}
			if sh, ah := nd.CS.GetState().LastBlockHeight, nd.App.Height(); sh != ah {
				fail("committed-block-does-not-apply", "correct validator %d: the application is at height %d but the consensus status stayed at %d (ApplyBlock failed after CommitBlock; SIGTERMs so far: %d)", nd.Idx, ah, sh, atomic.LoadInt32(&sigterms)-startSig)
				return
			}
		}
		minH := uint64(1 << 62)
		for _, nd := range n.Nodes {
			if h := nd.App.Height(); h < minH {
				minH = h
			}
		}
		if minH >= targetHeight+2 && len(attacks) > 0 {
			break
		}
	}
	nontriv := false
	for _, at := range attacks {
		if at.passes {
			nontriv = true
			vstat.Label("attack_passes_application_check")
		}
	}
	if neutralAttacks > 0 && pruneKeep > 0 {
		vstat.Label("neutral_attack_on_pruning_nodes")
		nontriv = true
	}
	if changeAt > 0 {
		vstat.Label("validator_power_change")
	}
	vstat.Label(fmt.Sprintf("attacks_%d", min(len(attacks), 4)))
	if nontriv {
		var desc []string
		for _, at := range attacks {
			desc = append(desc, fmt.Sprintf("h%d r%d %v", at.height, at.round, at.ops))
		}
		vstat.NonTrivial(strings.Join(desc, "|") + fmt.Sprint(nv, byzKey, spec.IsTrie))
		if vstat.WantSample() {
			vstat.Sample(map[string]interface{}{"validators": nv, "byzantine": byzKey, "attacks": desc})
		}
	}
}

func TestByzantineProposer(t *testing.T) {
	rapid.Check(t, runProposer)
}
