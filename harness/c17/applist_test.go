package c17

// Application half of C17: "the same application output produces the same next validator set on every node".  A node learns
// the validators that follow a block in two ways: live, as the return value of CommitBlock, and on the recovery paths (WAL
// replay of an already stored block, start-up with the status one block behind) from GetValidators(height).  Both read the
// white list in the storage of the validators system contract.  The real contract (contract/v1/validators) is deployed in the
// genesis with a harness account holding the "validators" right (a record in the committee contract's storage), and
// generated blocks carry SetValidator calls (new keys, changed powers) next to ordinary traffic.  After every block the
// three answers - CommitBlock's return, GetValidators on the same application, GetValidators on an application reopened over
// a copy of the databases - must be the same set, and must be the generator's: every key ever set, with its latest power.

import (
	"encoding/hex"
	"fmt"
	"math/big"
	"os"
	"path/filepath"
	"sort"
	"strings"
	"testing"

	cfg "github.com/lianxiangcloud/linkchain/config"
	"github.com/lianxiangcloud/linkchain/libs/common"
	"github.com/lianxiangcloud/linkchain/libs/crypto"
	"github.com/lianxiangcloud/linkchain/types"
	"pgregory.net/rapid"

	"verifharness/chainsim"
	"verifharness/vstat"
	"verifharness/world"
)

func tlvString(s string) []byte {
	b := []byte{6, byte(len(s) + 1), byte((len(s) + 1) >> 8)}
	return append(append(b, s...), 0)
}

func renderVals(vals []*types.Validator) string {
	var out []string
	for _, v := range vals {
		out = append(out, fmt.Sprintf("%s:%d", v.Address.String()[:10], v.VotingPower))
	}
	sort.Strings(out)
	return strings.Join(out, " ")
}

func TestNextValidatorsLiveAndRecovered(t *testing.T) {
	world.Init()
	dir := os.Getenv("VERIF_REPO_DIR")
	if dir == "" {
		dir = "/repo"
	}
	code, err := os.ReadFile(filepath.Join(dir, "contract/v1/validators/output_online.wasm"))
	if err != nil {
		t.Fatalf("validators contract: %v", err)
	}
	rapid.Check(t, func(t *rapid.T) {
		vstat.Eval()
		admin, other := world.DetAcct(100), world.DetAcct(101)
		rightKey := append(append(append([]byte("right"), 6, byte(len("validators")+1), 0), []byte("validators")...), 0)
		spec := &world.Spec{IsTrie: rapid.Bool().Draw(t, "isTrie"), Accounts: []world.GenesisAccount{
			{Addr: admin.Addr, Balance: chainsim.E(1000000)},
			{Addr: other.Addr, Balance: chainsim.E(1000000)},
			{Addr: cfg.ContractValidatorsAddr, Code: code, Balance: big.NewInt(0)},
			{Addr: cfg.ContractCommitteeAddr, Balance: big.NewInt(0), Nonce: 1, Storage: map[common.Hash][]byte{crypto.Keccak256Hash(rightKey): tlvString(admin.Addr.String())}},
		}}
		mc := world.DefaultMempoolConfig()
		mc.CacheSize = 0 // (the real tx cache costs four pre-sized heaps and four never-ending goroutines per application)
		spec.Mempool = mc
		w, err := world.New(spec)
		if err != nil {
			t.Fatalf("world: %v", err)
		}
		defer func() { w.Close() }()
		model := map[string]int64{} // pubkey hex -> power
		var hist []string
		nblocks := rapid.IntRange(1, 5).Draw(t, "nblocks")
		changes := 0
		for b := 1; b <= nblocks; b++ {
			ntx := rapid.IntRange(0, 3).Draw(t, "ntx")
			type pending struct {
				key   string
				power int64
				hash  common.Hash
			}
			var sets []pending
			for i := 0; i < ntx; i++ {
				switch rapid.IntRange(0, 3).Draw(t, "txkind") {
				case 0:
					tx := world.Transfer(other, w.App.GetNonce(other.Addr), admin.Addr, big.NewInt(int64(1+i)))
					hist = append(hist, fmt.Sprintf("b%d transfer => %v", b, w.Submit(tx)))
				default:
					k := crypto.GenPrivKeyEd25519FromSecret([]byte(fmt.Sprintf("white-validator-%d", rapid.IntRange(0, 4).Draw(t, "whichkey")))).PubKey().(crypto.PubKeyEd25519)
					keyHex := "0x724c2517228e6aa0" + hex.EncodeToString(k[:])
					power := int64(rapid.IntRange(1, 50).Draw(t, "power"))
					from := admin
					if rapid.IntRange(0, 5).Draw(t, "noright") == 0 {
						from = other // no right: the call fails, nothing changes
					}
					input := fmt.Sprintf(`SetValidator|{"0":{"pub_key":"%s","voting_power":%d,"coinbase":"%s"}}`, keyHex, power, admin.Addr.String())
					tx := world.RawTx(from, w.App.GetNonce(from.Addr), &cfg.ContractValidatorsAddr, big.NewInt(0), 5000000, world.GasPrice, []byte(input))
					err := w.Submit(tx)
					hist = append(hist, fmt.Sprintf("b%d SetValidator(%s.., %d) by %s => %v", b, keyHex[18:26], power, map[bool]string{true: "the right holder", false: "somebody else"}[from == admin], err))
					if err == nil && from == admin {
						sets = append(sets, pending{keyHex, power, tx.Hash()})
					}
				}
			}
			blk := w.Propose(100, world.GenesisTime+uint64(10*b), cfg.ContractFoundationAddr)
			if err := w.Commit(blk); err != nil {
				t.Fatalf("commit: %v\n%s", err, strings.Join(hist, "\n"))
			}
			// the books: successful calls in block order
			receipts := w.BlockStore.GetReceipts(uint64(b))
			for i, tx := range blk.Data.Txs {
				for _, p := range sets {
					if p.hash == tx.Hash() && receipts != nil && i < len(*receipts) && (*receipts)[i].Status == types.ReceiptStatusSuccessful {
						if model[p.key] != p.power {
							changes++
						}
						model[p.key] = p.power
					}
				}
			}
			var want []*types.Validator
			for k, p := range model {
				pk, err := crypto.HexToPubkey(k)
				if err != nil {
					t.Fatalf("harness: key: %v", err)
				}
				want = append(want, &types.Validator{Address: pk.Address(), PubKey: pk, VotingPower: p})
			}
			live := renderVals(w.LastCommitVals)
			same := renderVals(w.App.GetValidators(uint64(b)))
			rep, err := w.Replica()
			if err != nil {
				t.Fatalf("replica: %v", err)
			}
			reopened := renderVals(rep.App.GetValidators(uint64(b)))
			rep.Close()
			hist = append(hist, fmt.Sprintf("-- block %d: CommitBlock says {%s}; GetValidators {%s}; reopened {%s}; books {%s}", b, live, same, reopened, renderVals(want)))
			if live != same || live != reopened {
				vstat.Violation(t, P, "app:next-validators-live-differs-from-recovered", "after block %d a node that committed it live is told {%s}, the same application answers GetValidators(%d) with {%s}, an application reopened over the same data with {%s}\n%s", b, live, b, same, reopened, strings.Join(hist, "\n"))
				return
			}
			if live != renderVals(want) {
				vstat.Violation(t, P, "app:next-validators-not-the-white-list-set", "after block %d the next validators are {%s}, the calls that succeeded so far give {%s}\n%s", b, live, renderVals(want), strings.Join(hist, "\n"))
				return
			}
		}
		vstat.Label(fmt.Sprintf("white_list_changes_%d", min(changes, 3)))
		if changes > 0 {
			vstat.NonTrivial(strings.Join(hist, "|"))
		}
	})
}
