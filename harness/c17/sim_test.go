package c17

// In-simulation part of C17: the proposer a REAL ConsensusState arrives at for (height, round) must not depend on how the
// node reached that round.  Two copies of one node (same validator set, generated powers) are driven against puppet
// validators: one WALKS to round R one round at a time (every round ends with nil votes and timeouts), the other SKIPS
// from round 0 (or from an intermediate round) straight to R because it sees +2/3 of the votes of round R.  Both must
// name the same proposer for round R, and that proposer must be the one R single rotation steps from round 0 give.

import (
	"fmt"
	"testing"

	"github.com/lianxiangcloud/linkchain/consensus"
	"github.com/lianxiangcloud/linkchain/types"
	"pgregory.net/rapid"

	"verifharness/consim"
	"verifharness/vstat"
)

type simNode struct {
	n   *consim.Net
	x   *consim.Node
	pup []int
}

func newSimNode(vals []*consim.ValKey) (*simNode, error) {
	puppets := map[int]bool{}
	for i := range vals {
		if i > 0 {
			puppets[i] = true
		}
	}
	n := consim.NewNet(vals, puppets, false)
	x, err := n.AddNode(0)
	if err != nil {
		return nil, err
	}
	n.Start(x)
	return &simNode{n: n, x: x, pup: consim.SortedKeys(puppets)}, nil
}

// votesFor makes every puppet cast a nil vote of the given type in the given round and hands them to the node.
func (s *simNode) votesFor(typ byte, round int) {
	rs := s.x.CS.GetRoundState()
	for _, b := range s.pup {
		k := s.n.Inject(b, &consensus.VoteMessage{Vote: s.n.SignedVote(b, typ, rs.Height, round, types.BlockID{})})
		s.n.Deliver(s.x, k)
	}
}

// fire fires the newest timeout that has not fired yet; false if there is none.
func (s *simNode) fire() bool {
	sch := s.x.Ticker.Scheduled()
	for j := len(sch) - 1; j >= 0; j-- {
		if !s.x.Fired[j] {
			s.n.FireTimeout(s.x, j)
			return true
		}
	}
	return false
}

// walkTo lets the node go through the rounds one at a time until it is in round target.
func (s *simNode) walkTo(target int) bool {
	for guard := 0; guard < 60*(target+1); guard++ {
		rs := s.x.CS.GetRoundState()
		if s.x.Crashed != nil {
			return false
		}
		if rs.Round >= target {
			return rs.Round == target
		}
		// the puppets' nil votes for the current round let the node conclude it; the timeouts move it on
		s.votesFor(types.VoteTypePrevote, rs.Round)
		s.votesFor(types.VoteTypePrecommit, rs.Round)
		for i := 0; i < 6 && s.x.CS.GetRoundState().Round == rs.Round; i++ {
			if !s.fire() {
				break
			}
		}
	}
	return false
}

// skipTo shows the node +2/3 prevotes of round target while it is in an earlier round.
func (s *simNode) skipTo(target int) bool {
	s.votesFor(types.VoteTypePrevote, target)
	return s.x.Crashed == nil && s.x.CS.GetRoundState().Round == target
}

func runSimSkip(t *rapid.T) {
	vstat.Eval()
	n := rapid.IntRange(2, 6).Draw(t, "nvals")
	powers, shape := genPowers(t, n, []string{"equal", "equal", "small", "small", "twolevel", "medium", "wide"})
	vals := make([]*consim.ValKey, n)
	for i := range vals {
		p := powers[i]
		if p <= 0 {
			p = 1
		}
		if p > 1<<40 {
			p = 1 << 40 // extreme totals are the library part's business
		}
		vals[i] = consim.DetVal(i, p)
		powers[i] = p
	}
	// the node under test must not hold +2/3 alone and the puppets must hold +2/3 together
	var total, own int64
	for i, v := range vals {
		total += v.Power
		if i == 0 {
			own = v.Power
		}
	}
	if (total-own)*3 <= total*2 {
		vals[0] = consim.DetVal(0, 1)
		powers[0] = 1
		total = total - own + 1
		if (total-1)*3 <= total*2 {
			t.Skip("the puppets cannot form +2/3")
		}
	}
	R := rapid.IntRange(1, 7).Draw(t, "targetround")
	via := rapid.IntRange(0, R-1).Draw(t, "skipfrom") // the skipping node first walks to this round
	walker, err := newSimNode(vals)
	if err != nil {
		t.Fatalf("node: %v", err)
	}
	defer walker.n.Close()
	skipper, err := newSimNode(vals)
	if err != nil {
		t.Fatalf("node: %v", err)
	}
	defer skipper.n.Close()
	hist := func() string {
		return fmt.Sprintf("powers %v (%s), target round %d, the skipping node walks to round %d and jumps from there", powers, shape, R, via)
	}
	// reference: R single rotation steps from the set the node starts round 0 with
	start := walker.x.CS.GetRoundState().Validators.Copy()
	ref := start.Copy()
	for i := 0; i < R; i++ {
		ref.IncrementAccum(1)
	}
	want := ref.GetProposer().Address.String()
	if !walker.walkTo(R) {
		t.Skip("the walking node did not reach the round: " + fmt.Sprint(walker.x.Crashed))
	}
	if via > 0 && !skipper.walkTo(via) {
		t.Skip("the skipping node did not reach its intermediate round")
	}
	if !skipper.skipTo(R) {
		t.Skip("the skipping node did not jump: " + fmt.Sprint(skipper.x.Crashed))
	}
	gw := walker.x.CS.GetRoundState().Validators.GetProposer().Address.String()
	gs := skipper.x.CS.GetRoundState().Validators.GetProposer().Address.String()
	labelSet("sim_", powers)
	vstat.Label(fmt.Sprintf("sim_skip_distance_%d", min(R-via, 4)))
	vstat.NonTrivial(fmt.Sprintf("sim|%v|%d|%d", powers, R, via))
	if gw != want {
		vstat.Violation(t, P, "sim:walked-proposer-differs-from-single-steps", "a node that walked to round %d names proposer %s, %d single rotation steps give %s; %s", R, gw[:8], R, want[:8], hist())
		return
	}
	if gs != gw {
		// is it the library's batch rotation (one call with n steps differs from n calls with one step)?  Then it is that finding.
		key := "sim:skipped-proposer-differs-from-walked"
		rebuilt := start.Copy()
		for i := 0; i < via; i++ {
			rebuilt.IncrementAccum(1)
		}
		rebuilt.IncrementAccum(R - via)
		if rebuilt.GetProposer().Address.String() == gs {
			key = keyBatch
		}
		detail := fmt.Sprintf("height 1 round %d: the node that walked there names proposer %s, the node that skipped there from round %d names %s (a single IncrementAccum(%d) on the round-%d set gives %s); %s",
			R, gw[:8], via, gs[:8], R-via, via, rebuilt.GetProposer().Address.String()[:8], hist())
		if !vstat.Violation(t, P, key, "%s", detail) {
			vstat.Label("sim_known_batch_rotation_divergence")
		}
		return
	}
	vstat.Label("sim_walk_and_skip_agree")
}

func TestC17SimRoundSkip(t *testing.T) {
	rapid.Check(t, runSimSkip)
}
