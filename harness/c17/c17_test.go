// C17 (library-level part) — proposer schedule and validator-set updates are deterministic and
// path-independent.
//
// What the property states, and what this file decides about types.ValidatorSet and its callers:
//
//	(1) path independence   the proposer (and every Accum) after n rotations is the same however the n
//	                        rotations were split into IncrementAccum calls (one round at a time, by round
//	                        difference as enterNewRound does, or n in one call as the fault-evidence check does);
//	(2) identity            Hash()/TotalVotingPower() depend on the content only: not on insertion order, not
//	                        on Accum/Proposer bookkeeping, not on copies; the same application list in any
//	                        order gives the same next set through the real update path (BlockExecutor.ApplyBlock
//	                        -> updateStatus);
//	(3) proportionality     over a window of T per-block rotations every validator proposes in proportion to
//	                        its power, within the bound this scheme guarantees (see checkWindow);
//	(4) saturation          with extreme powers totals and priorities clip at the int64 limits instead of
//	                        wrapping; that includes the two-thirds threshold computed from the total.
//
// The reference is an independent model of weighted round robin (type mset) with saturating arithmetic
// done in math/big.  The in-simulation part (round-skipping nodes inside a live consensus simulation) lives
// in another file of this package; everything here is named TestC17Lib….
package c17

import (
	"bytes"
	"encoding/hex"
	"fmt"
	"math"
	"math/big"
	"os"
	"sort"
	"strconv"
	"strings"
	"testing"
	"time"

	cfg "github.com/lianxiangcloud/linkchain/config"
	"github.com/lianxiangcloud/linkchain/consensus"
	"github.com/lianxiangcloud/linkchain/libs/common"
	"github.com/lianxiangcloud/linkchain/libs/crypto"
	dbm "github.com/lianxiangcloud/linkchain/libs/db"
	"github.com/lianxiangcloud/linkchain/libs/log"
	"github.com/lianxiangcloud/linkchain/libs/ser"
	"github.com/lianxiangcloud/linkchain/metrics"
	"github.com/lianxiangcloud/linkchain/types"
	"pgregory.net/rapid"

	"verifharness/vstat"
)

const P = "C17"

// Root-cause keys.
const (
	// listed in KNOWN_FINDINGS.jsonl: IncrementAccum(times>=2) adds power*times first and then pops the
	// maximum `times` times, which elects another proposer than `times` single steps.
	keyBatch = "incrementaccum:n-steps-in-one-call-differs-from-n-single-steps"
	// listed: nothing bounds the total voting power, and total*2/3 (and the plain += tallies next to it) wrap.
	keyQuorum = "quorum:two-thirds-threshold-wraps-when-total-power-exceeds-2^62"

	keySingle   = "rotation:single-step-differs-from-weighted-round-robin-model"
	keyMulti    = "rotation:multi-step-call-matches-neither-single-steps-nor-the-known-defect"
	keyNew      = "newvalidatorset:initial-state-differs-from-model"
	keyHashAcc  = "hash:depends-on-accum-or-proposer-bookkeeping"
	keyHashOrd  = "hash:depends-on-insertion-order"
	keyHashColl = "hash:different-content-same-hash"
	keyTotal    = "total:voting-power-total-wrong-or-wrapped"
	keyCopy     = "copy:not-independent-of-original"
	keyOps      = "setops:add-update-remove-differs-from-sorted-map-model"
	keyUpdate   = "update:same-app-output-different-next-set"
	keyUpdModel = "update:next-set-is-not-the-app-list-or-rotation-not-carried-over"
	keyEvidence = "evidence:expected-proposer-differs-from-round-walk"
	keyFreq     = "frequency:proposals-not-proportional-to-power"
	keyReload   = "persist:reloaded-set-differs"
	keyQuorumLo = "quorum:threshold-differs-from-exact-two-thirds-below-2^62"
	keyPanic    = "panic:validator-set-operation-panicked"
)

func TestMain(m *testing.M) {
	log.Root().SetHandler(log.DiscardHandler())
	// BlockExecutor.ApplyBlock reports to the metrics singleton; initialise it the way node start-up does,
	// with a key that is no validator's, so that the "I am the proposer" branch stays off.
	sk := crypto.GenPrivKeyEd25519FromSecret([]byte("c17-metrics-identity"))
	metrics.PrometheusMetricInstance.Init(cfg.DefaultConfig(), sk.PubKey(), log.NewNopLogger())
	metrics.PrometheusMetricInstance.SetRole(types.NodePeer)
	vstat.Main(m)
}

// ---------------------------------------------------------------- fixed material

const poolKeys = 16

var (
	keyPool  []crypto.PrivKeyEd25519
	pubPool  []crypto.PubKey
	addrPool [][]byte
	addrRank [poolKeys]int // position of pool key i in address order (for readable fingerprints)
)

func init() {
	for i := 0; i < poolKeys; i++ {
		k := crypto.GenPrivKeyEd25519FromSecret([]byte(fmt.Sprintf("c17-validator-key-%d", i)))
		keyPool = append(keyPool, k)
		pubPool = append(pubPool, k.PubKey())
		addrPool = append(addrPool, []byte(k.PubKey().Address()))
	}
	idx := make([]int, poolKeys)
	for i := range idx {
		idx[i] = i
	}
	sort.Slice(idx, func(a, b int) bool { return bytes.Compare(addrPool[idx[a]], addrPool[idx[b]]) < 0 })
	for r, k := range idx {
		addrRank[k] = r
	}
}

// vspec is one entry of an application validator list.
type vspec struct {
	Key   int   // index into the key pool
	Power int64 // voting power
	CB    byte  // coinbase selector
}

// val builds the validator the way app.getValidators / MakeGenesisStatus do: a struct literal, Accum 0.
func (s vspec) val() *types.Validator {
	return &types.Validator{
		Address:     crypto.Address(append([]byte(nil), addrPool[s.Key]...)),
		PubKey:      pubPool[s.Key],
		CoinBase:    common.BytesToAddress([]byte{0xcb, s.CB}),
		VotingPower: s.Power,
	}
}

func valsOf(list []vspec) []*types.Validator {
	out := make([]*types.Validator, len(list))
	for i, s := range list {
		out[i] = s.val()
	}
	return out
}

// ---------------------------------------------------------------- saturating arithmetic (math/big)

var (
	bigMax = big.NewInt(math.MaxInt64)
	bigMin = big.NewInt(math.MinInt64)
	// satEvents counts clips since the last reset (label only).
	satEvents int
)

func clip(x *big.Int) int64 {
	if x.Cmp(bigMax) > 0 {
		satEvents++
		return math.MaxInt64
	}
	if x.Cmp(bigMin) < 0 {
		satEvents++
		return math.MinInt64
	}
	return x.Int64()
}

const small = int64(1) << 61

func satAdd(a, b int64) int64 {
	if a > -small && a < small && b > -small && b < small {
		return a + b // cannot leave int64
	}
	return clip(new(big.Int).Add(big.NewInt(a), big.NewInt(b)))
}

func satSub(a, b int64) int64 {
	if a > -small && a < small && b > -small && b < small {
		return a - b
	}
	return clip(new(big.Int).Sub(big.NewInt(a), big.NewInt(b)))
}

func satMul(a, b int64) int64 {
	const h = int64(1) << 31
	if a > -h && a < h && b > -h && b < h {
		return a * b
	}
	return clip(new(big.Int).Mul(big.NewInt(a), big.NewInt(b)))
}

// ---------------------------------------------------------------- the model

type mval struct {
	vspec
	Accum int64
}

// mset is the reference: validators in address order, their priorities, and the elected proposer
// (prop == -1: nobody elected since the last membership change; the proposer is then the validator with the
// greatest priority, lowest address first).
type mset struct {
	v    []mval
	prop int
}

func sortSpecs(v []mval) {
	sort.SliceStable(v, func(i, j int) bool { return bytes.Compare(addrPool[v[i].Key], addrPool[v[j].Key]) < 0 })
}

// newModel is what a node makes of an application list: address order, priorities from zero, one rotation.
func newModel(list []vspec) *mset {
	m := &mset{prop: -1}
	for _, s := range list {
		m.v = append(m.v, mval{vspec: s})
	}
	sortSpecs(m.v)
	if len(m.v) > 0 {
		m.step()
	}
	return m
}

func (m *mset) clone() *mset {
	return &mset{v: append([]mval(nil), m.v...), prop: m.prop}
}

func (m *mset) total() int64 {
	var t int64
	for _, x := range m.v {
		t = satAdd(t, x.Power)
	}
	return t
}

func (m *mset) exactTotal() *big.Int {
	t := new(big.Int)
	for _, x := range m.v {
		t.Add(t, big.NewInt(x.Power))
	}
	return t
}

// top: greatest priority, lowest address on ties (m.v is in address order, so the first maximum).
func (m *mset) top() int {
	b := 0
	for i := 1; i < len(m.v); i++ {
		if m.v[i].Accum > m.v[b].Accum {
			b = i
		}
	}
	return b
}

// step is ONE rotation of weighted round robin: everybody gains its power, the greatest priority is elected
// and pays the total.
func (m *mset) step() {
	tot := m.total()
	for i := range m.v {
		m.v[i].Accum = satAdd(m.v[i].Accum, m.v[i].Power)
	}
	b := m.top()
	m.v[b].Accum = satSub(m.v[b].Accum, tot)
	m.prop = b
}

func (m *mset) steps(k int) {
	for i := 0; i < k; i++ {
		m.step()
	}
}

// batch predicts what the KNOWN defect (keyBatch) makes of IncrementAccum(k): power*k up front, then k
// elections.  It is used only to give a mismatch its root-cause key and to let the generator avoid calls that
// would do nothing but re-hit the finding; a mismatch with step()^k is a violation whatever batch says.
func (m *mset) batch(k int) {
	tot := m.total()
	for i := range m.v {
		m.v[i].Accum = satAdd(m.v[i].Accum, satMul(m.v[i].Power, int64(k)))
	}
	for j := 0; j < k; j++ {
		b := m.top()
		m.v[b].Accum = satSub(m.v[b].Accum, tot)
		m.prop = b
	}
}

func (m *mset) proposer() int {
	if len(m.v) == 0 {
		return -1
	}
	if m.prop >= 0 {
		return m.prop
	}
	return m.top()
}

func (m *mset) equal(o *mset) bool {
	if len(m.v) != len(o.v) || m.proposer() != o.proposer() {
		return false
	}
	for i := range m.v {
		if m.v[i] != o.v[i] {
			return false
		}
	}
	return true
}

func (m *mset) find(key int) int {
	for i, x := range m.v {
		if x.Key == key {
			return i
		}
	}
	return -1
}

func (m *mset) specs() []vspec {
	out := make([]vspec, len(m.v))
	for i, x := range m.v {
		out[i] = x.vspec
	}
	return out
}

// content is the canonical description of what a validator set IS (membership, powers, coinbases).
func content(list []vspec) string {
	c := append([]vspec(nil), list...)
	sort.Slice(c, func(i, j int) bool { return addrRank[c[i].Key] < addrRank[c[j].Key] })
	var sb strings.Builder
	for _, s := range c {
		fmt.Fprintf(&sb, "%d:%d:%d,", addrRank[s.Key], s.Power, s.CB)
	}
	return sb.String()
}

func (m *mset) String() string {
	var sb strings.Builder
	for i, x := range m.v {
		mark := ""
		if i == m.proposer() {
			mark = "*"
		}
		fmt.Fprintf(&sb, "%s#%d(p=%d a=%d) ", mark, addrRank[x.Key], x.Power, x.Accum)
	}
	return sb.String()
}

func (m *mset) powers() []int64 {
	out := make([]int64, len(m.v))
	for i, x := range m.v {
		out[i] = x.Power
	}
	return out
}

// realFrom builds the real object in the model's state, the way decoding a persisted set does (exported
// fields; Proposer pointing at the elected validator).
func realFrom(m *mset) *types.ValidatorSet {
	vs := &types.ValidatorSet{}
	for _, x := range m.v {
		v := x.val()
		v.Accum = x.Accum
		vs.Validators = append(vs.Validators, v)
	}
	if m.prop >= 0 {
		vs.Proposer = vs.Validators[m.prop]
	}
	return vs
}

func describeReal(r *types.ValidatorSet) string {
	var sb strings.Builder
	for _, v := range r.Validators {
		fmt.Fprintf(&sb, "%X(p=%d a=%d) ", []byte(v.Address)[:3], v.VotingPower, v.Accum)
	}
	if p := safeProposer(r); p != nil {
		fmt.Fprintf(&sb, "proposer=%X", []byte(p.Address)[:3])
	}
	return sb.String()
}

func safeProposer(r *types.ValidatorSet) (p *types.Validator) {
	defer func() { recover() }()
	return r.GetProposer()
}

// diffSet compares the real set with the model: membership in address order, powers, coinbases, priorities,
// proposer identity.  "" means equal.
func diffSet(r *types.ValidatorSet, m *mset) string {
	if len(r.Validators) != len(m.v) {
		return fmt.Sprintf("size %d, model %d", len(r.Validators), len(m.v))
	}
	for i, x := range m.v {
		v := r.Validators[i]
		want := x.val()
		switch {
		case !bytes.Equal(v.Address, want.Address):
			return fmt.Sprintf("index %d holds %X, model %X (address order)", i, []byte(v.Address)[:3], []byte(want.Address)[:3])
		case v.VotingPower != x.Power:
			return fmt.Sprintf("index %d power %d, model %d", i, v.VotingPower, x.Power)
		case v.CoinBase != want.CoinBase || !v.PubKey.Equals(want.PubKey):
			return fmt.Sprintf("index %d coinbase/pubkey differ", i)
		case v.Accum != x.Accum:
			return fmt.Sprintf("index %d (power %d) Accum %d, model %d", i, x.Power, v.Accum, x.Accum)
		}
	}
	p := r.GetProposer()
	mp := m.proposer()
	switch {
	case mp < 0 && p != nil:
		return "proposer of an empty set is not nil"
	case mp >= 0 && p == nil:
		return "proposer is nil"
	case mp >= 0 && !bytes.Equal(p.Address, addrPool[m.v[mp].Key]):
		return fmt.Sprintf("proposer %X (power %d), model index %d %X (power %d)", []byte(p.Address)[:3], p.VotingPower, mp, addrPool[m.v[mp].Key][:3], m.v[mp].Power)
	}
	return ""
}

// checkTotal: TotalVotingPower is the exact sum, clipped at MaxInt64 — never negative, never below one member.
func checkTotal(t vstat.TB, r *types.ValidatorSet, m *mset, where string) {
	got := r.TotalVotingPower()
	ex := m.exactTotal()
	want := int64(math.MaxInt64)
	if ex.Cmp(bigMax) <= 0 {
		want = ex.Int64()
	}
	if got != want {
		vstat.Violation(t, P, keyTotal, "%s: TotalVotingPower()=%d, exact sum %v (expected %d); powers %v", where, got, ex, want, m.powers())
	}
}

// try runs one call of the code under test and returns a recovered panic (never report inside).
func try(f func()) (rec interface{}) {
	defer func() {
		if r := recover(); r != nil {
			rec = r
		}
	}()
	f()
	return nil
}

// ---------------------------------------------------------------- generators

const (
	p61 = int64(1) << 61
	p62 = int64(1) << 62
)

// genPowers draws n voting powers.  Every non-negative int64 is individually legal: the validators contract
// only requires voting_power >= 0, candidates carry an unsigned value read into an int64, and
// updateStatus installs NewValidatorSet(list) unfiltered; nothing bounds the total.  At least one power is
// positive (a set nobody can propose in does not occur: genesis refuses power 0).
func genPowers(t *rapid.T, n int, shapes []string) ([]int64, string) {
	shape := rapid.SampledFrom(shapes).Draw(t, "shape")
	p := make([]int64, n)
	pick := func(vals []int64, label string) {
		for i := range p {
			p[i] = rapid.SampledFrom(vals).Draw(t, label)
		}
	}
	switch shape {
	case "equal":
		v := rapid.SampledFrom([]int64{1, 10, 1000, 1 << 40}).Draw(t, "eq")
		for i := range p {
			p[i] = v
		}
	case "small":
		for i := range p {
			p[i] = int64(rapid.IntRange(1, 5).Draw(t, "p"))
		}
	case "twolevel":
		a := int64(rapid.IntRange(1, 12).Draw(t, "a"))
		b := a + int64(rapid.IntRange(1, 40).Draw(t, "b"))
		pick([]int64{a, b}, "p")
	case "dominant":
		for i := range p {
			p[i] = int64(rapid.IntRange(1, 3).Draw(t, "p"))
		}
		p[rapid.IntRange(0, n-1).Draw(t, "dom")] = rapid.SampledFrom([]int64{50, 1000, 1000000, 1 << 40}).Draw(t, "big")
	case "wide":
		pick([]int64{1, 2, 7, 100, 12345, 1000000007, 1 << 40}, "p")
	case "medium":
		for i := range p {
			p[i] = int64(rapid.IntRange(1, 300).Draw(t, "p"))
		}
	case "zeros":
		for i := range p {
			p[i] = int64(rapid.IntRange(0, 3).Draw(t, "p"))
		}
	case "extreme": // totals beyond 2^62 from two large members on, beyond 2^63 from five on
		pick([]int64{p61, p61, p61 - 1, 1 << 60, 1, 3, p61 - 12345}, "p")
	case "extreme_equal":
		v := rapid.SampledFrom([]int64{p61, p61 - 1, 1 << 60}).Draw(t, "eq")
		for i := range p {
			p[i] = v
		}
	case "max": // individually legal values above the design range
		pick([]int64{p62, math.MaxInt64, math.MaxInt64 - 1, p61, 1, 2}, "p")
	default:
		panic("shape " + shape)
	}
	pos := false
	for _, x := range p {
		pos = pos || x > 0
	}
	if !pos {
		p[0] = 1
	}
	return p, shape
}

var (
	shapesAll      = []string{"equal", "small", "small", "small", "twolevel", "twolevel", "twolevel", "dominant", "dominant", "wide", "wide", "medium", "medium", "zeros", "extreme", "extreme", "extreme_equal", "max"}
	shapesModerate = []string{"equal", "small", "small", "small", "twolevel", "twolevel", "dominant", "dominant", "wide", "medium", "medium", "zeros"}
	shapesFreq     = []string{"equal", "small", "small", "small", "twolevel", "twolevel", "dominant", "dominant", "wide", "medium", "medium", "medium", "zeros"}
	shapesExtreme  = []string{"extreme", "extreme", "extreme_equal", "max", "wide"}
)

// genN draws a set size in 1..hi (single-validator sets are kept rare, they have no schedule to speak of).
func genN(t *rapid.T, hi int) int {
	var sizes []int
	for _, n := range []int{1, 2, 2, 3, 3, 3, 4, 4, 5, 5, 6, 7, 8, 9, 10, 10} {
		if n <= hi {
			sizes = append(sizes, n)
		}
	}
	return rapid.SampledFrom(sizes).Draw(t, "n")
}

// genList draws an application validator list of n entries in a generated (not address) order.
func genList(t *rapid.T, n int, shapes []string) ([]vspec, string) {
	ids := make([]int, poolKeys)
	for i := range ids {
		ids[i] = i
	}
	perm := rapid.Permutation(ids).Draw(t, "keys")
	pw, shape := genPowers(t, n, shapes)
	list := make([]vspec, n)
	for i := range list {
		list[i] = vspec{Key: perm[i], Power: pw[i], CB: byte(rapid.IntRange(0, 2).Draw(t, "cb"))}
	}
	return list, shape
}

func permuted(t *rapid.T, list []vspec, label string) []vspec {
	if len(list) < 2 {
		return append([]vspec(nil), list...)
	}
	return rapid.Permutation(list).Draw(t, label)
}

// genSplit draws a composition of n (k1+…+km = n, every k >= 1).
func genSplit(t *rapid.T, n int) []int {
	var parts []int
	for rem := n; rem > 0; {
		var k int
		switch rapid.IntRange(0, 9).Draw(t, "kshape") {
		case 0, 1, 2:
			k = 1
		case 3:
			k = rem
		default:
			k = rapid.IntRange(1, min(rem, 8)).Draw(t, "k")
		}
		parts = append(parts, k)
		rem -= k
	}
	return parts
}

func min(a, b int) int {
	if a < b {
		return a
	}
	return b
}

func unequal(p []int64) bool {
	for _, x := range p {
		if x != p[0] {
			return true
		}
	}
	return false
}

func labelSet(prefix string, p []int64) {
	n := len(p)
	switch {
	case n == 1:
		vstat.Label(prefix + "size:1")
	case n <= 3:
		vstat.Label(prefix + "size:2-3")
	case n <= 6:
		vstat.Label(prefix + "size:4-6")
	default:
		vstat.Label(prefix + "size:7-10")
	}
	lo, hi := int64(math.MaxInt64), int64(0)
	tot := new(big.Int)
	for _, x := range p {
		tot.Add(tot, big.NewInt(x))
		if x > hi {
			hi = x
		}
		if x < lo {
			lo = x
		}
	}
	switch {
	case lo == hi:
		vstat.Label(prefix + "ratio:equal")
	case lo == 0:
		vstat.Label(prefix + "ratio:has-zero-power")
	case hi/lo < 10:
		vstat.Label(prefix + "ratio:<10")
	case hi/lo < 1000:
		vstat.Label(prefix + "ratio:<1000")
	default:
		vstat.Label(prefix + "ratio:>=1000")
	}
	switch {
	case tot.Cmp(bigMax) > 0:
		vstat.Label(prefix + "total:>=2^63")
	case tot.Cmp(big.NewInt(p62)) >= 0:
		vstat.Label(prefix + "total:2^62..2^63")
	default:
		vstat.Label(prefix + "total:<2^62")
	}
}

// ---------------------------------------------------------------- (1) path independence

// rotateChecked performs IncrementAccum(k) on *cur (after a Copy when viaCopy, as enterNewRound and the evidence
// checks do) and compares with k single steps of the model.  ref is advanced by k steps in every case.  When
// the call is one that the known defect answers differently (predicted by mset.batch) and the finding is
// listed, the call is left out of the chain (replaced by k single steps, counted as excluded); the defect's
// answer is still checked on a throw-away copy so that anything ELSE going wrong in a multi-step call is seen.
// It returns whether a real multi-step call was executed on the chain, and whether one was excluded.
func rotateChecked(t vstat.TB, cur **types.ValidatorSet, ref *mset, k int, viaCopy bool, hist func() string) (ranMulti, excluded bool) {
	before := ref.clone()
	ref.steps(k)
	call := func(set *types.ValidatorSet, times int) *types.ValidatorSet {
		if viaCopy {
			set = set.Copy()
		}
		if rec := try(func() { set.IncrementAccum(times) }); rec != nil {
			vstat.Violation(t, P, keyPanic, "IncrementAccum(%d) panicked: %v; state before %v; %s", times, rec, before, hist())
		}
		return set
	}
	if k == 1 {
		*cur = call(*cur, 1)
		if d := diffSet(*cur, ref); d != "" {
			vstat.Violation(t, P, keySingle, "IncrementAccum(1): %s; before %v; after %s; model %v; %s", d, before, describeReal(*cur), ref, hist())
			*cur = realFrom(ref)
		}
		return false, false
	}
	pred := before.clone()
	pred.batch(k)
	diverges := !pred.equal(ref)
	if diverges && vstat.IsKnown(P, keyBatch) {
		vstat.Excluded(keyBatch)
		throw := call((*cur).Copy(), k)
		if diffSet(throw, pred) != "" && diffSet(throw, ref) != "" {
			vstat.Violation(t, P, keyMulti, "IncrementAccum(%d) from %v gives %s; %d single steps give %v; the known defect would give %v; %s",
				k, before, describeReal(throw), k, ref, pred, hist())
		}
		for i := 0; i < k; i++ {
			*cur = call(*cur, 1)
		}
		if d := diffSet(*cur, ref); d != "" {
			vstat.Violation(t, P, keySingle, "%d x IncrementAccum(1): %s; before %v; model %v; %s", k, d, before, ref, hist())
			*cur = realFrom(ref)
		}
		return false, true
	}
	*cur = call(*cur, k)
	if d := diffSet(*cur, ref); d != "" {
		key := keyMulti
		if diverges && diffSet(*cur, pred) == "" {
			key = keyBatch
		}
		vstat.Violation(t, P, key, "IncrementAccum(%d) differs from %d x IncrementAccum(1): %s; powers (address order) %v; state before %v; one call gives %s; single steps give %v; %s",
			k, k, d, before.powers(), before, describeReal(*cur), ref, hist())
		*cur = realFrom(ref) // keep exploring behind it from the reference state
	}
	return true, false
}

// checkEvidence: the proposer expected by the fault-validator evidence check for commit round R, recomputed
// from the round-0 set of that height, must be the proposer a node that walked rounds 0..R one at a time has
// (atR), and nobody else.  s0 must stay untouched.
func checkEvidence(t *rapid.T, s0 *types.ValidatorSet, at0, atR *mset, R int, hist func() string) {
	const h = 7
	status := consensus.NewStatus{ChainID: "c17-chain", LastValidators: s0}
	commit := &types.Commit{Precommits: []*types.Vote{nil, {Height: h, Round: R, Type: types.VoteTypePrecommit}}}
	pub := func(m *mset, i int) crypto.PubKey { return pubPool[m.v[i].Key] }
	verify := func(proposer, fault crypto.PubKey) (err error, rec interface{}) {
		rec = try(func() {
			err = consensus.VerifyFaultValEvidence(status, commit, &types.FaultValidatorsEvidence{BlockHeight: h, Round: R, Proposer: proposer, FaultVal: fault})
		})
		return
	}
	p0 := at0.proposer()
	want := atR.proposer()
	if R == 0 {
		if err, rec := verify(pub(at0, p0), nil); err != nil || rec != nil {
			vstat.Violation(t, P, keyEvidence, "round-0 evidence naming the round-0 proposer refused: %v %v; %s", err, rec, hist())
		}
		if len(at0.v) > 1 {
			other := (p0 + 1 + rapid.IntRange(0, len(at0.v)-2).Draw(t, "evother")) % len(at0.v)
			if err, rec := verify(pub(at0, other), nil); err == nil || rec != nil {
				vstat.Violation(t, P, keyEvidence, "round-0 evidence naming validator #%d accepted (proposer is #%d) %v; %s", other, p0, rec, hist())
			}
		}
		return
	}
	if R >= 2 {
		pred := at0.clone()
		pred.batch(R)
		if dp := pred.proposer(); dp != want {
			if vstat.IsKnown(P, keyBatch) {
				// The one-call recomputation elects somebody else (known defect): leave the comparison with
				// the walk out, but the check must still be exactly "the one-call result and nobody else".
				// (If the defect has been repaired while still listed, the walk's proposer is accepted: keep it.)
				vstat.Excluded(keyBatch)
				vstat.Label("evidence:excluded-known-divergence")
				if err, rec := verify(pub(atR, want), pub(at0, p0)); err != nil || rec != nil {
					want = dp
				}
			} else if err, rec := verify(pub(atR, dp), pub(at0, p0)); err == nil && rec == nil {
				vstat.Violation(t, P, keyBatch, "commit round %d: the evidence check (IncrementAccum(%d) in one call) expects proposer #%d, walking rounds one at a time from %v elects #%d; %s",
					R, R, dp, at0, want, hist())
				return
			}
		}
	}
	if err, rec := verify(pub(atR, want), pub(at0, p0)); err != nil || rec != nil {
		vstat.Violation(t, P, keyEvidence, "commit round %d: evidence naming the round-%d proposer #%d (walking rounds one at a time from %v) is refused: %v %v; %s",
			R, R, want, at0, err, rec, hist())
	}
	if len(at0.v) > 1 {
		other := (want + 1 + rapid.IntRange(0, len(at0.v)-2).Draw(t, "evother")) % len(at0.v)
		if err, rec := verify(pub(atR, other), pub(at0, p0)); err == nil || rec != nil {
			vstat.Violation(t, P, keyEvidence, "commit round %d: evidence naming validator #%d as proposer accepted, round walk gives #%d; %v; %s", R, other, want, rec, hist())
		}
		wrongFault := (p0 + 1) % len(at0.v)
		if err, rec := verify(pub(atR, want), pub(at0, wrongFault)); err == nil || rec != nil {
			vstat.Violation(t, P, keyEvidence, "commit round %d: evidence blaming #%d accepted, the round-0 proposer is #%d; %v; %s", R, wrongFault, p0, rec, hist())
		}
	}
	if d := diffSet(s0, at0); d != "" {
		vstat.Violation(t, P, keyEvidence, "VerifyFaultValEvidence changed the set it was given: %s; %s", d, hist())
	}
	vstat.Label("evidence:checked")
}

// reload sends a set through the encoding used for the persisted status (a restarted node continues from this).
func reload(t vstat.TB, r *types.ValidatorSet) *types.ValidatorSet {
	bz, err := ser.EncodeToBytes(r)
	if err != nil {
		t.Fatalf("harness: cannot encode validator set: %v", err)
	}
	out := new(types.ValidatorSet)
	if err := ser.DecodeBytes(bz, out); err != nil {
		t.Fatalf("harness: cannot decode validator set: %v", err)
	}
	return out
}

// TestC17LibRotationSplits: one height at library level.  A set is built from an application list, rotated
// per block (single steps, as updateStatus does), and then taken through R rounds along a generated split,
// with every call compared against the model walking one round at a time; finally the fault-evidence check
// for commit round R is compared with the walk.
func TestC17LibRotationSplits(t *testing.T) {
	rapid.Check(t, func(t *rapid.T) {
		vstat.Eval()
		satEvents = 0
		n := genN(t, 10)
		list, shape := genList(t, n, shapesAll)
		ref := newModel(list)
		var hs []string
		hist := func() string {
			return fmt.Sprintf("list(rank:power) %s shape %s history %v", content(list), shape, hs)
		}
		var cur *types.ValidatorSet
		if rec := try(func() { cur = types.NewValidatorSet(valsOf(list)) }); rec != nil {
			vstat.Violation(t, P, keyPanic, "NewValidatorSet panicked: %v; %s", rec, hist())
			return
		}
		if d := diffSet(cur, ref); d != "" {
			vstat.Violation(t, P, keyNew, "NewValidatorSet: %s; got %s; model %v; %s", d, describeReal(cur), ref, hist())
			return
		}
		hash0 := cur.Hash()
		checkTotal(t, cur, ref, "fresh set")

		// per-block rotations before the height under test
		blocks := rapid.IntRange(0, 12).Draw(t, "blocks")
		for i := 0; i < blocks; i++ {
			rotateChecked(t, &cur, ref, 1, true, hist)
		}
		hs = append(hs, fmt.Sprintf("blocks=%d", blocks))
		if rapid.IntRange(0, 5).Draw(t, "restart") == 0 {
			cur = reload(t, cur)
			hs = append(hs, "reload")
			if d := diffSet(cur, ref); d != "" {
				vstat.Violation(t, P, keyReload, "set after encode/decode: %s; %s", d, hist())
			}
		}
		s0, at0 := cur, ref.clone()

		// rounds
		R := 0
		switch rapid.IntRange(0, 9).Draw(t, "rshape") {
		case 0:
		case 1, 2, 3, 4, 5:
			R = rapid.IntRange(1, 10).Draw(t, "R")
		default:
			R = rapid.IntRange(11, 60).Draw(t, "R")
		}
		split := genSplit(t, R)
		inPlace := rapid.IntRange(0, 3).Draw(t, "inplace") == 0 // IncrementAccum without the Copy the callers make
		if inPlace {
			cur = cur.Copy() // keep s0 for the evidence check
		}
		multi, excl, maxk := 0, 0, 0
		for _, k := range split {
			hs = append(hs, "inc"+strconv.Itoa(k))
			ran, ex := rotateChecked(t, &cur, ref, k, !inPlace, hist)
			if ran {
				multi++
			}
			if ex {
				excl++
			}
			if k > maxk {
				maxk = k
			}
			if !bytes.Equal(cur.Hash(), hash0) {
				vstat.Violation(t, P, keyHashAcc, "Hash() changed by rotation: %X -> %X; %s", hash0, cur.Hash(), hist())
			}
		}
		checkTotal(t, cur, ref, "after rotations")
		// the untouched round-0 set still is what it was (copies do not share priorities)
		if d := diffSet(s0, at0); d != "" {
			vstat.Violation(t, P, keyCopy, "rotating copies changed the original: %s; %s", d, hist())
		}
		checkEvidence(t, s0, at0, ref, R, hist)

		pw := at0.powers()
		labelSet("rot/", pw)
		switch {
		case R == 0:
			vstat.Label("rot/split:no-rounds")
		case maxk == 1:
			vstat.Label("rot/split:all-single")
		case len(split) == 1:
			vstat.Label("rot/split:one-call")
		default:
			vstat.Label("rot/split:mixed")
		}
		if multi > 0 {
			vstat.Label("rot/multi-step-call-on-chain")
		}
		if excl > 0 {
			vstat.Label("rot/multi-step-call-excluded-known")
		}
		if satEvents > 0 {
			vstat.Label("rot/saturating")
		}
		if inPlace {
			vstat.Label("rot/in-place")
		}
		// non-trivial: unequal powers and a real IncrementAccum(k>=2) (on the chain, or on the throw-away copy
		// of an excluded call)
		if unequal(pw) && maxk >= 2 {
			vstat.NonTrivial(fmt.Sprintf("rot|%s|b%d|%v|%v", content(list), blocks, split, inPlace))
			if vstat.WantSample() {
				vstat.Sample(map[string]interface{}{"test": "rotation", "powers_by_address": fmt.Sprint(pw), "blocks_before": blocks, "split": split,
					"multi_step_calls_on_chain": multi, "excluded_known": excl, "proposer_index": ref.proposer()})
			}
		}
	})
}

// exhaustiveSets: the power vectors (in address order) of the exhaustive split test.
func exhaustiveSets() [][]int64 {
	var sets [][]int64
	var rec func(prefix []int64, n int, alphabet []int64)
	rec = func(prefix []int64, n int, alphabet []int64) {
		if len(prefix) == n {
			sets = append(sets, append([]int64(nil), prefix...))
			return
		}
		for _, a := range alphabet {
			rec(append(prefix, a), n, alphabet)
		}
	}
	for n := 1; n <= 3; n++ {
		rec(nil, n, []int64{1, 2, 3, 4})
	}
	rec(nil, 4, []int64{1, 2, 5})
	rec(nil, 5, []int64{1, 3})
	sets = append(sets,
		[]int64{1, 1, 1, 1, 1, 1, 1, 1, 1, 1},
		[]int64{1, 2, 3, 4, 5, 6, 7, 8, 9, 10},
		[]int64{10, 9, 8, 7, 6, 5, 4, 3, 2, 1},
		[]int64{1, 1, 1, 6, 6}, []int64{1000, 50, 1000, 1}, []int64{1, 0, 2}, []int64{0, 5},
		[]int64{p61, p61, 1}, []int64{p61, p61, p61}, []int64{1, p61}, []int64{p61, 1},
		[]int64{p61, p61, p61, p61, p61}, []int64{p61, p61 - 1, p61, 3, p61, p61, 1},
		[]int64{math.MaxInt64, 1}, []int64{p62, p62, p62},
	)
	return sets
}

// TestC17LibSplitsExhaustive: for every set of a fixed family and every total n <= 10, EVERY composition of n
// is executed as a chain of real IncrementAccum calls on one object (with a Copy before each call for every
// second composition) and compared call by call with the model walking single steps.
func TestC17LibSplitsExhaustive(t *testing.T) {
	shard, _ := strconv.Atoi(os.Getenv("VERIF_SHARD"))
	shards, _ := strconv.Atoi(os.Getenv("VERIF_SHARDS"))
	if shards < 1 {
		shards = 1
	}
	const maxN = 10
	for si, pw := range exhaustiveSets() {
		if si%shards != shard {
			continue
		}
		list := make([]vspec, len(pw))
		byRank := make([]int, poolKeys)
		for k, r := range addrRank {
			byRank[r] = k
		}
		for i, p := range pw {
			list[i] = vspec{Key: byRank[i], Power: p}
		}
		start := newModel(list)
		diverging, comps := 0, 0
		for n := 1; n <= maxN; n++ {
			for mask := 0; mask < 1<<(n-1); mask++ {
				// bit i of mask set = a call boundary after rotation i+1
				var split []int
				k := 1
				for i := 0; i < n-1; i++ {
					if mask&(1<<i) != 0 {
						split = append(split, k)
						k = 1
					} else {
						k++
					}
				}
				split = append(split, k)
				vstat.Eval()
				comps++
				ref := start.clone()
				cur := types.NewValidatorSet(valsOf(list))
				if d := diffSet(cur, ref); d != "" {
					vstat.Violation(t, P, keyNew, "NewValidatorSet: %s; powers %v", d, pw)
					return
				}
				viaCopy := mask%2 == 1
				hist := func() string {
					return fmt.Sprintf("powers (address order) %v fresh from NewValidatorSet, split %v", pw, split)
				}
				maxk := 0
				for _, k := range split {
					if k > maxk {
						maxk = k
					}
					before := ref.clone()
					ref.steps(k)
					if viaCopy {
						cur = cur.Copy()
					}
					cur.IncrementAccum(k)
					if d := diffSet(cur, ref); d != "" {
						pred := before.clone()
						pred.batch(k)
						key := keySingle
						if k >= 2 {
							key = keyMulti
							if diffSet(cur, pred) == "" {
								key = keyBatch
							}
						}
						diverging++
						vstat.Violation(t, P, key, "IncrementAccum(%d) differs from %d x IncrementAccum(1): %s; state before %v; one call gives %s; single steps give %v; %s",
							k, k, d, before, describeReal(cur), ref, hist())
						cur = realFrom(ref) // continue the composition from the reference state
					}
				}
				if unequal(pw) && maxk >= 2 {
					vstat.NonTrivial(fmt.Sprintf("exh|%v|%v", pw, split))
				}
			}
		}
		labelSet("exh/", pw)
		if diverging > 0 {
			vstat.Label("exh/set-with-diverging-calls")
		}
		if vstat.WantSample() && diverging > 0 {
			vstat.Sample(map[string]interface{}{"test": "exhaustive", "powers_by_address": fmt.Sprint(pw), "compositions": comps, "diverging_calls": diverging})
		}
	}
}

// TestC17LibRegressionBatchRotation keeps the known finding observed, without the model: real calls only.
// Smallest case: two validators, the lower address with power 2, the other with power 1, fresh from
// NewValidatorSet (proposer A).  Rounds one at a time: B, A.  Two rounds in one call: B.  And the case recorded
// in DESIGN.md: powers 3,1,1 with n = 2 and n = 4 (which n diverge depends on where the strong validator sits
// in address order, because ties go to the lower address: with the 3 last it is n = 2 and n = 7).
func TestC17LibRegressionBatchRotation(t *testing.T) {
	byRank := make([]int, poolKeys)
	for k, r := range addrRank {
		byRank[r] = k
	}
	for _, c := range []struct {
		pw []int64
		n  int
	}{{[]int64{2, 1}, 2}, {[]int64{3, 1, 1}, 2}, {[]int64{3, 1, 1}, 4}} {
		vstat.Eval()
		list := make([]vspec, len(c.pw))
		for i, p := range c.pw {
			list[i] = vspec{Key: byRank[i], Power: p}
		}
		walker := types.NewValidatorSet(valsOf(list))
		skipper := types.NewValidatorSet(valsOf(list))
		var walk []string
		for i := 0; i < c.n; i++ {
			walker = walker.Copy()
			walker.IncrementAccum(1)
			walk = append(walk, fmt.Sprintf("#%d", indexOf(walker, walker.GetProposer().Address)))
		}
		skipper = skipper.Copy()
		skipper.IncrementAccum(c.n)
		vstat.NonTrivial(fmt.Sprintf("regr|%v|%d", c.pw, c.n))
		if !bytes.Equal(walker.GetProposer().Address, skipper.GetProposer().Address) {
			vstat.Violation(t, P, keyBatch, "powers (address order) %v fresh from NewValidatorSet: %d x IncrementAccum(1) elects %v (finally #%d), IncrementAccum(%d) elects #%d",
				c.pw, c.n, walk, indexOf(walker, walker.GetProposer().Address), c.n, indexOf(skipper, skipper.GetProposer().Address))
		}
	}
}

func indexOf(r *types.ValidatorSet, addr []byte) int {
	i, _ := r.GetByAddress(addr)
	return i
}

// ---------------------------------------------------------------- (2) identity: Add / Update / Remove / Copy / Hash

// TestC17LibSetIdentity drives Add/Update/Remove/rotations/copies against a sorted-map model and checks after
// every step that the set is what the model says, that its Hash is the Hash of the same content inserted in
// another order, that different contents have different hashes, and that copies are independent.
func TestC17LibSetIdentity(t *testing.T) {
	rapid.Check(t, func(t *rapid.T) {
		vstat.Eval()
		n0 := rapid.IntRange(0, 6).Draw(t, "n0")
		shapes := shapesModerate
		if rapid.IntRange(0, 4).Draw(t, "extreme") == 0 {
			shapes = shapesExtreme
		}
		var list []vspec
		if n0 > 0 {
			list, _ = genList(t, n0, shapes)
		}
		var hs []string
		hist := func() string { return fmt.Sprintf("start %s ops %v", content(list), hs) }
		real := types.NewValidatorSet(valsOf(list))
		ref := newModel(list)
		seen := map[string]string{}   // content -> hash
		byHash := map[string]string{} // hash -> content
		check := func(r *types.ValidatorSet, m *mset, what string) {
			if d := diffSet(r, m); d != "" {
				vstat.Violation(t, P, keyOps, "%s: %s; real %s; model %v; %s", what, d, describeReal(r), m, hist())
			}
			checkTotal(t, r, m, what)
			h := hex.EncodeToString(r.Hash())
			c := content(m.specs())
			if prev, ok := seen[c]; ok && prev != h {
				vstat.Violation(t, P, keyHashAcc, "%s: same content, Hash %s before and %s now; content %s; %s", what, prev, h, c, hist())
			}
			if prev, ok := byHash[h]; ok && prev != c {
				vstat.Violation(t, P, keyHashColl, "%s: contents %s and %s have the same Hash %s; %s", what, prev, c, h, hist())
			}
			seen[c], byHash[h] = h, c
		}
		check(real, ref, "start")

		powerOf := func() int64 {
			p, _ := genPowers(t, 1, shapes)
			return p[0]
		}
		nops := rapid.IntRange(1, 14).Draw(t, "nops")
		effective, copies, rot := 0, 0, 0
		for i := 0; i < nops; i++ {
			op := rapid.SampledFrom([]string{"add", "add", "update", "update", "remove", "rotate", "rotate", "fork", "reload", "proposer"}).Draw(t, "op")
			// a membership operation, applicable to any (set, model) pair
			type memberOp struct {
				kind string
				s    vspec
			}
			genMember := func(kind string) memberOp {
				s := vspec{Key: rapid.IntRange(0, poolKeys-1).Draw(t, "key"), CB: byte(rapid.IntRange(0, 2).Draw(t, "cb"))}
				if len(ref.v) > 0 && rapid.Bool().Draw(t, "existing") {
					s.Key = ref.v[rapid.IntRange(0, len(ref.v)-1).Draw(t, "which")].Key
				}
				if kind != "remove" {
					s.Power = powerOf()
				}
				return memberOp{kind, s}
			}
			applyMember := func(r *types.ValidatorSet, m *mset, o memberOp) {
				idx := m.find(o.s.Key)
				var got bool
				var rec interface{}
				switch o.kind {
				case "add":
					if len(m.v) >= 10 && idx < 0 {
						return
					}
					rec = try(func() { got = r.Add(o.s.val()) })
					if idx < 0 {
						m.v = append(m.v, mval{vspec: o.s})
						sortSpecs(m.v)
						m.prop = -1
						effective++
					}
					if got != (idx < 0) {
						vstat.Violation(t, P, keyOps, "Add(%v) returned %v, member before: %v; %s", o.s, got, idx >= 0, hist())
					}
				case "update":
					rec = try(func() { got = r.Update(o.s.val()) })
					if idx >= 0 {
						m.v[idx] = mval{vspec: o.s} // the given value replaces the member (priority of the given value: 0)
						m.prop = -1
						effective++
					}
					if got != (idx >= 0) {
						vstat.Violation(t, P, keyOps, "Update(%v) returned %v, member before: %v; %s", o.s, got, idx >= 0, hist())
					}
				case "remove":
					if idx >= 0 && len(m.v) == 1 {
						return // keep one validator: rotating an empty set is documented to panic
					}
					rec = try(func() { _, got = r.Remove(addrPool[o.s.Key]) })
					if idx >= 0 {
						m.v = append(m.v[:idx:idx], m.v[idx+1:]...)
						m.prop = -1
						effective++
					}
					if got != (idx >= 0) {
						vstat.Violation(t, P, keyOps, "Remove(#%d) returned %v, member before: %v; %s", addrRank[o.s.Key], got, idx >= 0, hist())
					}
				}
				if rec != nil {
					vstat.Violation(t, P, keyPanic, "%s(%v) panicked: %v; %s", o.kind, o.s, rec, hist())
				}
			}
			switch op {
			case "add", "update", "remove":
				o := genMember(op)
				hs = append(hs, fmt.Sprintf("%s(#%d,p=%d,cb=%d)", op, addrRank[o.s.Key], o.s.Power, o.s.CB))
				applyMember(real, ref, o)
				check(real, ref, op)
			case "rotate":
				if len(ref.v) == 0 {
					continue
				}
				k := rapid.IntRange(1, 4).Draw(t, "steps")
				hs = append(hs, fmt.Sprintf("rotate%d", k))
				for j := 0; j < k; j++ {
					rotateChecked(t, &real, ref, 1, false, hist)
				}
				rot++
				check(real, ref, "rotate")
			case "proposer":
				hs = append(hs, "proposer")
				check(real, ref, "proposer") // GetProposer caches the election; nothing else may change
			case "reload":
				hs = append(hs, "reload")
				real = reload(t, real)
				if d := diffSet(real, ref); d != "" {
					vstat.Violation(t, P, keyReload, "set after encode/decode: %s; %s", d, hist())
				}
			case "fork":
				// c := Copy(); change ONE of the two; the other must still be what it was; go on with either.
				hs = append(hs, "fork")
				copies++
				c := real.Copy()
				cm := ref.clone()
				check(c, cm, "copy")
				changeCopy := rapid.Bool().Draw(t, "changecopy")
				tr, tm, or, om := c, cm, real, ref
				if !changeCopy {
					tr, tm, or, om = real, ref, c, cm
				}
				if len(tm.v) > 0 && rapid.Bool().Draw(t, "forkrotate") {
					hs = append(hs, fmt.Sprintf("  rotate(copy=%v)", changeCopy))
					rotateChecked(t, &tr, tm, 1, false, hist)
				} else {
					o := genMember(rapid.SampledFrom([]string{"add", "update", "remove"}).Draw(t, "forkop"))
					hs = append(hs, fmt.Sprintf("  %s(#%d,p=%d,cb=%d,copy=%v)", o.kind, addrRank[o.s.Key], o.s.Power, o.s.CB, changeCopy))
					applyMember(tr, tm, o)
				}
				if d := diffSet(or, om); d != "" {
					vstat.Violation(t, P, keyCopy, "changing %s changed the other: %s; %s", map[bool]string{true: "the copy", false: "the original"}[changeCopy], d, hist())
				}
				check(tr, tm, "fork-changed")
				check(or, om, "fork-untouched")
				if rapid.Bool().Draw(t, "keepchanged") {
					real, ref = tr, tm
				} else {
					real, ref = or, om
				}
			}
		}
		// the same final content inserted in other orders: through NewValidatorSet and through Add from empty
		final := ref.specs()
		h := real.Hash()
		if len(final) > 0 {
			p1 := types.NewValidatorSet(valsOf(permuted(t, final, "perm1")))
			if !bytes.Equal(p1.Hash(), h) || p1.TotalVotingPower() != real.TotalVotingPower() {
				vstat.Violation(t, P, keyHashOrd, "NewValidatorSet of the same content in another order: Hash %X total %d, history set %X total %d; content %s; %s",
					p1.Hash(), p1.TotalVotingPower(), h, real.TotalVotingPower(), content(final), hist())
			}
			if d := diffSet(p1, newModel(final)); d != "" {
				vstat.Violation(t, P, keyNew, "NewValidatorSet(permuted final content): %s; %s", d, hist())
			}
		}
		p2 := types.NewValidatorSet(nil)
		for _, s := range permuted(t, final, "perm2") {
			p2.Add(s.val())
		}
		if !bytes.Equal(p2.Hash(), h) || p2.TotalVotingPower() != real.TotalVotingPower() {
			vstat.Violation(t, P, keyHashOrd, "the same content added one by one in another order: Hash %X total %d, history set %X total %d; content %s; %s",
				p2.Hash(), p2.TotalVotingPower(), h, real.TotalVotingPower(), content(final), hist())
		}
		for i := range p2.Validators {
			if !bytes.Equal(p2.Validators[i].Address, addrPool[ref.v[i].Key]) {
				vstat.Violation(t, P, keyHashOrd, "Add in another order leaves another validator order at index %d; %s", i, hist())
				break
			}
		}
		if copies > 0 {
			vstat.Label("id/has-fork")
		}
		if rot > 0 {
			vstat.Label("id/has-rotation")
		}
		if effective > 0 {
			vstat.Label("id/has-effective-membership-op")
		}
		vstat.Label(fmt.Sprintf("id/final-size:%d", (len(final)+2)/3*3))
		// non-trivial: at least two effective membership changes and a final set of >= 2 with unequal powers
		if effective >= 2 && len(final) >= 2 && unequal(ref.powers()) {
			vstat.NonTrivial(fmt.Sprintf("id|%s|%v", content(list), hs))
			if vstat.WantSample() {
				vstat.Sample(map[string]interface{}{"test": "identity", "start": content(list), "ops": hs, "final": content(final), "hash": hex.EncodeToString(h)})
			}
		}
	})
}

// ---------------------------------------------------------------- (2b) the real update path

var fixedTime = uint64(time.Unix(1600000000, 0).Unix())

// applyBlock runs BlockExecutor.ApplyBlock (validateBlock + updateStatus + SaveStatus) for a first block on top
// of a status that carries the given current set, handing it the application's validator list.  Only the
// validator-set part of the status matters to updateStatus, so every block is presented as height 1 (no
// signed LastCommit needed).
func applyBlock(t *rapid.T, cur *types.ValidatorSet, appList []*types.Validator) (consensus.NewStatus, dbm.DB, error) {
	db := dbm.NewMemDB()
	st := consensus.NewStatus{
		ChainID:                          "c17-chain",
		Validators:                       cur,
		LastValidators:                   types.NewValidatorSet(nil),
		LastHeightValidatorsChanged:      1,
		ConsensusParams:                  *types.DefaultConsensusParams(),
		LastHeightConsensusParamsChanged: 1,
	}
	block := types.MakeBlock(1, nil, new(types.Commit))
	block.Header.Time = fixedTime
	block.ChainID = st.ChainID
	block.DataHash = block.Data.Hash()
	block.ConsensusHash = common.BytesToHash(st.ConsensusParams.Hash())
	block.ValidatorsHash = common.BytesToHash(cur.Hash())
	be := consensus.NewBlockExecutor(db, log.NewNopLogger(), consensus.MockEvidencePool{})
	var out consensus.NewStatus
	var err error
	if rec := try(func() { out, err = be.ApplyBlock(st, types.BlockID{Hash: block.Hash()}, block, appList) }); rec != nil {
		return out, db, fmt.Errorf("panic: %v", rec)
	}
	return out, db, err
}

// TestC17LibUpdatePath: two nodes hold the same current set, reached differently (one holds the object, the
// other a copy or a decoded one), and are handed the same application list in different orders, block after
// block.  They must end with the same next set; the next set must be exactly the application's list, and when
// the list leaves the set unchanged the rotation must continue by exactly one step.
func TestC17LibUpdatePath(t *testing.T) {
	rapid.Check(t, func(t *rapid.T) {
		vstat.Eval()
		n := genN(t, 8)
		shapes := shapesModerate
		if rapid.IntRange(0, 5).Draw(t, "extreme") == 0 {
			shapes = shapesExtreme
		}
		list, _ := genList(t, n, shapes)
		ref := newModel(list)
		a := types.NewValidatorSet(valsOf(list))
		b := types.NewValidatorSet(valsOf(permuted(t, list, "initperm")))
		var hs []string
		hist := func() string { return fmt.Sprintf("genesis %s blocks %v", content(list), hs) }
		nblocks := rapid.IntRange(1, 6).Draw(t, "nblocks")
		changes, unchangedBlocks, permutedLists := 0, 0, 0
		for blk := 0; blk < nblocks; blk++ {
			// the application's list for this block: the current content with a generated update list applied
			app := ref.specs()
			var upd []string
			nupd := rapid.SampledFrom([]int{0, 0, 0, 1, 1, 2, 3}).Draw(t, "nupd")
			for u := 0; u < nupd; u++ {
				switch rapid.SampledFrom([]string{"power", "power", "coinbase", "add", "remove"}).Draw(t, "upd") {
				case "power":
					i := rapid.IntRange(0, len(app)-1).Draw(t, "i")
					p, _ := genPowers(t, 1, shapes)
					app[i].Power = p[0]
					upd = append(upd, fmt.Sprintf("power(#%d=%d)", addrRank[app[i].Key], p[0]))
				case "coinbase":
					i := rapid.IntRange(0, len(app)-1).Draw(t, "i")
					app[i].CB = byte(rapid.IntRange(0, 2).Draw(t, "cb"))
					upd = append(upd, fmt.Sprintf("coinbase(#%d=%d)", addrRank[app[i].Key], app[i].CB))
				case "add":
					k := rapid.IntRange(0, poolKeys-1).Draw(t, "key")
					dup := false
					for _, s := range app {
						dup = dup || s.Key == k
					}
					if dup || len(app) >= 10 {
						continue
					}
					p, _ := genPowers(t, 1, shapes)
					app = append(app, vspec{Key: k, Power: p[0]})
					upd = append(upd, fmt.Sprintf("add(#%d=%d)", addrRank[k], p[0]))
				case "remove":
					if len(app) < 2 {
						continue
					}
					i := rapid.IntRange(0, len(app)-1).Draw(t, "i")
					upd = append(upd, fmt.Sprintf("remove(#%d)", addrRank[app[i].Key]))
					app = append(app[:i:i], app[i+1:]...)
				}
			}
			pos := false
			for _, s := range app {
				pos = pos || s.Power > 0
			}
			if !pos {
				app[0].Power = 1
			}
			changed := content(app) != content(ref.specs())
			nilList := !changed && rapid.IntRange(0, 3).Draw(t, "nillist") == 0 // "no change" may also arrive as no list
			la, lb := permuted(t, app, "orderA"), permuted(t, app, "orderB")
			if fmt.Sprint(la) != fmt.Sprint(lb) {
				permutedLists++
			}
			hs = append(hs, fmt.Sprintf("%v changed=%v nil=%v", upd, changed, nilList))
			// node B reaches the same current set by another road
			switch rapid.IntRange(0, 2).Draw(t, "roadB") {
			case 0:
				b = b.Copy()
			case 1:
				b = reload(t, b)
			}
			var va, vb []*types.Validator
			if !nilList {
				va, vb = valsOf(la), valsOf(lb)
			}
			prev := ref.clone()
			sa, dba, erra := applyBlock(t, a, va)
			sb, _, errb := applyBlock(t, b, vb)
			if erra != nil || errb != nil {
				vstat.Violation(t, P, keyUpdModel, "ApplyBlock failed: %v / %v; %s", erra, errb, hist())
				return
			}
			if changed {
				ref = newModel(app)
				changes++
			} else {
				ref.step()
				unchangedBlocks++
			}
			// the two nodes agree …
			if !bytes.Equal(sa.Validators.Hash(), sb.Validators.Hash()) || diffSet(sb.Validators, modelOf(sa.Validators)) != "" {
				vstat.Violation(t, P, keyUpdate, "the same application list in two orders gives different next sets: A %s (hash %X) B %s (hash %X); %s",
					describeReal(sa.Validators), sa.Validators.Hash(), describeReal(sb.Validators), sb.Validators.Hash(), hist())
			}
			// … on the set the application asked for, rotated as the schedule requires
			for _, s := range []consensus.NewStatus{sa, sb} {
				if d := diffSet(s.Validators, ref); d != "" {
					vstat.Violation(t, P, keyUpdModel, "next set: %s; got %s; expected %v (changed=%v, previous %v); %s", d, describeReal(s.Validators), ref, changed, prev, hist())
				}
				if d := diffSet(s.LastValidators, prev); d != "" {
					vstat.Violation(t, P, keyUpdModel, "LastValidators is not the previous set: %s; %s", d, hist())
				}
				if want := map[bool]uint64{true: 2, false: 1}[changed]; s.LastHeightValidatorsChanged != want {
					vstat.Violation(t, P, keyUpdModel, "LastHeightValidatorsChanged=%d, expected %d (changed=%v); %s", s.LastHeightValidatorsChanged, want, changed, hist())
				}
				checkTotal(t, s.Validators, ref, "next set")
			}
			// what a restarted node loads is the same set
			if ls, err := consensus.LoadStatus(dba); err != nil {
				vstat.Violation(t, P, keyReload, "LoadStatus: %v; %s", err, hist())
			} else if d := diffSet(ls.Validators, ref); d != "" {
				vstat.Violation(t, P, keyReload, "set loaded from the status db: %s; %s", d, hist())
			}
			a, b = sa.Validators, sb.Validators
		}
		if changes > 0 {
			vstat.Label("upd/has-change")
		}
		if unchangedBlocks > 0 {
			vstat.Label("upd/has-unchanged-block")
		}
		if changes > 0 && unchangedBlocks > 0 {
			vstat.Label("upd/change-and-carry-over")
		}
		labelSet("upd/", ref.powers())
		// non-trivial: a block that changes the set, delivered in two different orders
		if changes > 0 && permutedLists > 0 {
			vstat.NonTrivial(fmt.Sprintf("upd|%s|%v", content(list), hs))
			if vstat.WantSample() {
				vstat.Sample(map[string]interface{}{"test": "update-path", "genesis": content(list), "blocks": hs, "final": ref.String()})
			}
		}
	})
}

// modelOf reads a real set back into model form (for real-vs-real comparison with diffSet).
func modelOf(r *types.ValidatorSet) *mset {
	m := &mset{prop: -1}
	for _, v := range r.Validators {
		key := -1
		for k := range addrPool {
			if bytes.Equal(addrPool[k], v.Address) {
				key = k
			}
		}
		cb := v.CoinBase.Bytes()
		m.v = append(m.v, mval{vspec: vspec{Key: key, Power: v.VotingPower, CB: cb[len(cb)-1]}, Accum: v.Accum})
	}
	if p := r.GetProposer(); p != nil {
		m.prop, _ = r.GetByAddress(p.Address)
	}
	return m
}

// ---------------------------------------------------------------- (3) proportionality

// lcm(1..10) x H_n: harmonic numbers as integers.
var h2520 = func() [11]int64 {
	var h [11]int64
	for n := 1; n <= 10; n++ {
		h[n] = h[n-1] + 2520/int64(n)
	}
	return h
}()

// The bound this scheme guarantees (priorities start at zero, their sum stays zero, count_i =
// (t*p_i - accum_i)/total):
//   - ahead: the elected validator had at least the average priority total/n before paying, so
//     accum_i >= -(n-1)/n*total, i.e. count_i - t*p_i/total <= (n-1)/n < 1;
//   - behind: by induction on rotations the k greatest priorities sum to at most k*(H_n - H_k)*total, so
//     accum_i <= (H_n - 1)*total, i.e. t*p_i/total - count_i <= H_n - 1 (1/2, 5/6, 13/12, … < 1.93 for n <= 10).
//     The classic "within one slot" does NOT hold behind for n >= 4: powers (1000,50,1000,1) reach 1.06.
//   - after every total/gcd rotations all priorities are zero again and count_i = t*p_i/total exactly.
//
// Magnitudes: tot <= 10*2^40, t <= 6000, so c*tot and t*p stay below 2^57; the factor 2520 is applied only
// after the lag is known to be below 2*tot.
func windowViolation(n int, tot, t, p, c int64) string {
	ahead := c*tot - t*p
	if int64(n)*ahead > int64(n-1)*tot {
		return fmt.Sprintf("proposed %d times in %d rotations with power %d of %d: more than (n-1)/n ahead of its share", c, t, p, tot)
	}
	if -ahead >= 2*tot || 2520*(-ahead) > (h2520[n]-2520)*tot {
		return fmt.Sprintf("proposed %d times in %d rotations with power %d of %d: more than H_n-1 behind its share", c, t, p, tot)
	}
	return ""
}

func gcd(a, b int64) int64 {
	for b != 0 {
		a, b = b, a%b
	}
	return a
}

// TestC17LibProposerFrequency: per-block rotation (Copy + IncrementAccum(1), what updateStatus does while the
// application's list leaves the set unchanged) over a long window, counting who is proposer.
func TestC17LibProposerFrequency(t *testing.T) {
	rapid.Check(t, func(t *rapid.T) {
		vstat.Eval()
		n := genN(t, 10)
		list, shape := genList(t, n, shapesFreq)
		cur := types.NewValidatorSet(valsOf(list))
		m := newModel(list) // only for powers in address order
		pw := m.powers()
		var tot, g int64
		for _, p := range pw {
			tot += p // <= 10 * 2^40
			g = gcd(g, p)
		}
		period := tot / g
		// window: whole periods when they are short enough, else a generated length (10 x total capped)
		const maxWindow = 6000
		var T int64
		whole := false
		switch {
		case period <= maxWindow/2 && rapid.IntRange(0, 3).Draw(t, "partial") != 0:
			T = period * int64(rapid.IntRange(1, int(maxWindow/period)).Draw(t, "periods"))
			if T > 10*tot {
				T = (10 * tot / period) * period
			}
			whole = true
		default:
			T = int64(rapid.IntRange(1, maxWindow).Draw(t, "T"))
			if T > 10*tot {
				T = 10 * tot
			}
		}
		viaCopy := rapid.Bool().Draw(t, "viacopy")
		counts := make([]int64, n)
		hist := func() string {
			return fmt.Sprintf("powers (address order) %v, window %d (period %d), counts %v", pw, T, period, counts)
		}
		// rotation 1 is the one NewValidatorSet performs
		for step := int64(1); step <= T; step++ {
			if step > 1 {
				if viaCopy {
					cur = cur.Copy()
				}
				cur.IncrementAccum(1)
			}
			i, _ := cur.GetByAddress(cur.GetProposer().Address)
			if i < 0 {
				vstat.Violation(t, P, keyFreq, "proposer is not a member at rotation %d; %s", step, hist())
				return
			}
			counts[i]++
			// the elected one is the only one whose lead grew; everybody's lag may have grown
			for j := 0; j < n; j++ {
				if v := windowViolation(n, tot, step, pw[j], counts[j]); v != "" {
					vstat.Violation(t, P, keyFreq, "validator #%d %s; %s", j, v, hist())
					return
				}
			}
			if step%period == 0 {
				for j := 0; j < n; j++ {
					if counts[j]*tot != step*pw[j] || cur.Validators[j].Accum != 0 {
						vstat.Violation(t, P, keyFreq, "after %d whole periods validator #%d proposed %d times (share %d/%d of %d) and has priority %d (expected exact share, priority 0); %s",
							step/period, j, counts[j], pw[j], tot, step, cur.Validators[j].Accum, hist())
						return
					}
				}
			}
		}
		labelSet("freq/", pw)
		vstat.Label("freq/shape:" + shape)
		switch {
		case whole:
			vstat.Label("freq/window:whole-periods")
		case T >= period:
			vstat.Label("freq/window:>=1-period")
		default:
			vstat.Label("freq/window:<1-period")
		}
		// non-trivial: unequal powers and a window in which everybody with power could have proposed
		if unequal(pw) && T >= int64(2*n) {
			vstat.NonTrivial(fmt.Sprintf("freq|%v|%d", pw, T))
			if vstat.WantSample() {
				vstat.Sample(map[string]interface{}{"test": "frequency", "powers_by_address": fmt.Sprint(pw), "window": T, "period": period, "counts": fmt.Sprint(counts)})
			}
		}
	})
}

// ---------------------------------------------------------------- (4) saturation and the two-thirds threshold

var quorumBlock = types.BlockID{Hash: common.BytesToHash([]byte("c17-block")), PartsHeader: types.PartSetHeader{Total: 1, Hash: []byte("c17-parts-hash-c17-parts-hash-00")}}

// commitBy builds a commit for quorumBlock signed by the validators whose index is in signers.
func commitBy(r *types.ValidatorSet, m *mset, signers map[int]bool, height uint64) *types.Commit {
	c := &types.Commit{BlockID: quorumBlock, Precommits: make([]*types.Vote, len(m.v))}
	for i := range m.v {
		if !signers[i] {
			continue
		}
		v := &types.Vote{ValidatorAddress: r.Validators[i].Address, ValidatorIndex: i, ValidatorSize: len(m.v), Height: height, Round: 0,
			Timestamp: time.Unix(1600000000, 0).UTC(), Type: types.VoteTypePrecommit, BlockID: quorumBlock}
		sig, err := keyPool[m.v[i].Key].Sign(v.SignBytes("c17-chain"))
		if err != nil {
			panic(err)
		}
		v.Signature = sig
		c.Precommits[i] = v
	}
	return c
}

// checkQuorum: a commit signed by `signers` verifies IFF they hold strictly more than 2/3 of the exact total;
// an empty vote set reports no two-thirds.  Totals of 2^62 and more (total*2 leaves int64; tallies are plain
// sums) are the listed finding keyQuorum and left out while it is listed.
func checkQuorum(t *rapid.T, r *types.ValidatorSet, m *mset, hist func() string) {
	tot := m.exactTotal()
	wraps := new(big.Int).Mul(tot, big.NewInt(2)).Cmp(bigMax) > 0
	if wraps && vstat.IsKnown(P, keyQuorum) {
		vstat.Excluded(keyQuorum)
		vstat.Label("quorum:excluded-total>=2^62")
		return
	}
	key := keyQuorumLo
	if wraps {
		key = keyQuorum
	}
	vs := types.NewVoteSet("c17-chain", 5, 0, types.VoteTypePrevote, r)
	if vs.HasTwoThirdsAny() {
		vstat.Violation(t, P, key, "a vote set without any vote reports +2/3 (total %v, TotalVotingPower()*2/3 = %d); %s", tot, r.TotalVotingPower()*2/3, hist())
	}
	signers := map[int]bool{}
	tally := new(big.Int)
	for i := range m.v {
		if rapid.Bool().Draw(t, "signs") {
			signers[i] = true
			tally.Add(tally, big.NewInt(m.v[i].Power))
		}
	}
	want := new(big.Int).Mul(tally, big.NewInt(3)).Cmp(new(big.Int).Mul(tot, big.NewInt(2))) > 0
	var err error
	if rec := try(func() { err = r.VerifyCommit("c17-chain", quorumBlock, 5, commitBy(r, m, signers, 5)) }); rec != nil {
		vstat.Violation(t, P, keyPanic, "VerifyCommit panicked: %v; %s", rec, hist())
		return
	}
	if len(signers) == 0 {
		return // a commit without any precommit has no height; refused for that reason
	}
	if (err == nil) != want {
		vstat.Violation(t, P, key, "VerifyCommit with signers holding %v of %v: accepted=%v (%v), exact rule says %v; powers %v; %s", tally, tot, err == nil, err, want, m.powers(), hist())
	}
	vstat.Label(fmt.Sprintf("quorum:checked-accept=%v", want))
}

// TestC17LibExtremePowers: sets with powers up to 2^61 (and the int64 maximum), totals beyond 2^62 and 2^63:
// the total clips, priorities clip (compared with the saturating model after every single rotation and after
// multi-step calls), no priority of a validator that was not elected ever goes down, and the two-thirds
// threshold is the exact one.
func TestC17LibExtremePowers(t *testing.T) {
	rapid.Check(t, func(t *rapid.T) {
		vstat.Eval()
		satEvents = 0
		n := genN(t, 10)
		list, shape := genList(t, n, shapesExtreme)
		ref := newModel(list)
		var hs []string
		hist := func() string { return fmt.Sprintf("list %s shape %s history %v", content(list), shape, hs) }
		var cur *types.ValidatorSet
		if rec := try(func() { cur = types.NewValidatorSet(valsOf(list)) }); rec != nil {
			vstat.Violation(t, P, keyPanic, "NewValidatorSet panicked: %v; %s", rec, hist())
			return
		}
		if d := diffSet(cur, ref); d != "" {
			vstat.Violation(t, P, keyNew, "NewValidatorSet: %s; got %s; model %v; %s", d, describeReal(cur), ref, hist())
			return
		}
		checkTotal(t, cur, ref, "fresh set")
		if got := cur.TotalVotingPower(); got <= 0 {
			vstat.Violation(t, P, keyTotal, "TotalVotingPower()=%d is not positive; %s", got, hist())
		}
		checkQuorum(t, cur, ref, hist)

		steps := rapid.IntRange(1, 40).Draw(t, "steps")
		multi := 0
		for i := 0; i < steps; i++ {
			k := 1
			if rapid.IntRange(0, 3).Draw(t, "multi") == 0 {
				k = rapid.SampledFrom([]int{2, 3, 4, 5, 8, 60}).Draw(t, "k")
			}
			hs = append(hs, "inc"+strconv.Itoa(k))
			prev := make([]int64, n)
			for j, v := range cur.Validators {
				prev[j] = v.Accum
			}
			ran, _ := rotateChecked(t, &cur, ref, k, rapid.Bool().Draw(t, "viacopy"), hist)
			if ran {
				multi++
			}
			if k == 1 {
				// independent of the model: only the elected validator's priority may go down
				pi, _ := cur.GetByAddress(cur.GetProposer().Address)
				for j, v := range cur.Validators {
					if j != pi && v.Accum < prev[j] {
						vstat.Violation(t, P, keySingle, "priority of #%d (power %d), not elected, went from %d to %d in one rotation (wrapped); %s", j, v.VotingPower, prev[j], v.Accum, hist())
					}
					if j == pi && v.Accum > prev[j] && v.VotingPower < cur.TotalVotingPower() {
						vstat.Violation(t, P, keySingle, "priority of the elected #%d went up from %d to %d (wrapped); %s", j, prev[j], v.Accum, hist())
					}
				}
			}
		}
		checkTotal(t, cur, ref, "after rotations")
		pw := ref.powers()
		labelSet("ext/", pw)
		if satEvents > 0 {
			vstat.Label("ext/saturating")
		}
		if multi > 0 {
			vstat.Label("ext/multi-step-call-on-chain")
		}
		if unequal(pw) && (multi > 0 || satEvents > 0) {
			vstat.NonTrivial(fmt.Sprintf("ext|%s|%v", content(list), hs))
			if vstat.WantSample() {
				vstat.Sample(map[string]interface{}{"test": "extreme", "powers_by_address": fmt.Sprint(pw), "history": hs, "clips_in_model": satEvents, "final": ref.String()})
			}
		}
	})
}

// TestC17LibRegressionQuorumWrap keeps the second finding observed.  Powers 2^61, 2^61, 1 (each inside the
// range the design calls legal, total 2^62+1): TotalVotingPower()*2/3 is negative, so a vote set without a vote
// already "has +2/3", and a commit signed only by the validator with power 1 verifies.
func TestC17LibRegressionQuorumWrap(t *testing.T) {
	vstat.Eval()
	byRank := make([]int, poolKeys)
	for k, r := range addrRank {
		byRank[r] = k
	}
	list := []vspec{{Key: byRank[0], Power: p61}, {Key: byRank[1], Power: p61}, {Key: byRank[2], Power: 1}}
	r := types.NewValidatorSet(valsOf(list))
	m := newModel(list)
	vstat.NonTrivial("regr-quorum")
	thr := r.TotalVotingPower() * 2 / 3
	any := types.NewVoteSet("c17-chain", 5, 0, types.VoteTypePrevote, r).HasTwoThirdsAny()
	err := r.VerifyCommit("c17-chain", quorumBlock, 5, commitBy(r, m, map[int]bool{2: true}, 5))
	if thr < 0 || any || err == nil {
		vstat.Violation(t, P, keyQuorum, "powers (2^61, 2^61, 1): TotalVotingPower()=%d, TotalVotingPower()*2/3=%d; empty vote set HasTwoThirdsAny()=%v; VerifyCommit of a commit signed only by the power-1 validator: accepted=%v (%v)",
			r.TotalVotingPower(), thr, any, err == nil, err)
	}
}
