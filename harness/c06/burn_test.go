package c06

// Directed generator for one scenario the random chains reach only rarely: a contract self-destructs in one transaction
// of a block and a LATER transaction of the same block pays it.  Everything is generated (storage mode, heir, amounts,
// what else is in the block); the oracle is the same conservation of supply as in TestConservationChain.

import (
	"fmt"
	"math/big"
	"strings"
	"testing"

	cfg "github.com/lianxiangcloud/linkchain/config"
	"github.com/lianxiangcloud/linkchain/libs/common"
	"github.com/lianxiangcloud/linkchain/types"
	"pgregory.net/rapid"

	"verifharness/chainsim"
	"verifharness/vstat"
	"verifharness/world"
)

func TestSelfDestructThenPaymentInBlock(t *testing.T) {
	rapid.Check(t, func(t *rapid.T) {
		vstat.Eval()
		s := chainsim.New(t, chainsim.Options{Contracts: true, AllRich: true, NumAccts: 3, NumWallets: 1})
		defer s.Close()
		c := s.Contracts["suicider"]
		heir := rapid.SampledFrom(s.Recipients()).Draw(t, "heir")
		kill := world.RawTx(s.Accts[0], 0, &c, big.NewInt(0), 800000, world.GasPrice, common.LeftPadBytes(heir.Bytes(), 32))
		v := new(big.Int).Mul(big.NewInt(int64(rapid.IntRange(0, 1000).Draw(t, "value"))), big.NewInt(int64(rapid.SampledFrom([]int{1, 1e9, 1e15}).Draw(t, "unit"))))
		pay := world.RawTx(s.Accts[1], 0, &c, v, types.CalNewAmountGas(v, types.EverContractLiankeFee)+100000, world.GasPrice, nil)
		other := world.Transfer(s.Accts[2], 0, s.Sinks()[1], big.NewInt(int64(rapid.IntRange(0, 1000).Draw(t, "othervalue"))))
		// "undo": another contract makes the contract self-destruct and then reverts - nothing but the fee may move, and the
		// contract must be exactly what it was for the transactions that follow in the block
		kr := s.Contracts["killrevert"]
		uv := big.NewInt(int64(rapid.IntRange(0, 1000).Draw(t, "undovalue")))
		undo := world.RawTx(s.Accts[2], 0, &kr, uv, 900000, world.GasPrice, append(common.LeftPadBytes(c.Bytes(), 32), common.LeftPadBytes(heir.Bytes(), 32)...))
		// the order within the block and whether the two share a block at all
		order := rapid.SampledFrom([]string{"kill,pay", "kill,other,pay", "pay,kill", "kill|pay", "pay|kill", "kill,pay,other",
			"undo,pay", "undo,pay|kill", "undo|pay", "pay,undo", "undo,kill", "undo,pay,kill"}).Draw(t, "order")
		byName := map[string]types.Tx{"kill": kill, "pay": pay, "other": other, "undo": undo}
		for bi, part := range strings.Split(order, "|") {
			var txs types.Txs
			for _, n := range strings.Split(part, ",") {
				txs = append(txs, byName[n])
			}
			pre := s.Snapshot()
			if !pre.Code[c] {
				// the address is a plain one by now: a payment to it has to carry the legal gas limit of a plain transfer
				for i, tx := range txs {
					if tx == types.Tx(pay) {
						pay = world.Transfer(s.Accts[1], 0, c, v)
						txs[i] = pay
					}
				}
			}
			blk := s.W.BlockOf(txs, world.GenesisTime+uint64(10*(bi+1)), cfg.ContractFoundationAddr)
			s.W.App.PreRunBlock(blk)
			cp, err := world.CopyBlock(blk)
			if err != nil {
				t.Fatalf("copy: %v", err)
			}
			if err := s.W.Commit(cp); err != nil {
				vstat.Violation(t, P, "own-block-rejected", "node rejects the block it built (%s): %v", order, err)
				return
			}
			gen := map[common.Hash]*chainsim.Tx{kill.Hash(): {Tx: kill, Kind: "call-suicide", SuicideTo: &heir}, pay.Hash(): {Tx: pay, Kind: "pay-suicider"}}
			if err := s.AfterCommit(cp, gen, pre); err != nil {
				t.Fatalf("bookkeeping: %v", err)
			}
		}
		hist := fmt.Sprintf("isTrie=%v order %s (initial supply %v), the contract names %s as heir, the payment is %v", s.Spec.IsTrie, order, s.InitialNative, heir.Hex()[:10], v)
		vstat.Label("order_" + order)
		if (strings.HasPrefix(order, "kill,") || strings.HasPrefix(order, "undo,")) && v.Sign() > 0 {
			vstat.NonTrivial(hist)
		}
		if len(s.BurntAfterKill) > 0 {
			if vstat.Violation(t, P, keyBurnt, "%s; %s", strings.Join(s.BurntAfterKill, "; "), hist) {
				return
			}
			vstat.Label("known_payment_after_self_destruct_in_block")
		}
		checkSupply(t, s, "after "+hist)
	})
}
