// C06 — no transaction or block creates or destroys value.
package c06

import (
	"fmt"
	"math/big"
	"strings"
	"testing"

	cfg "github.com/lianxiangcloud/linkchain/config"
	"github.com/lianxiangcloud/linkchain/libs/common"
	lktypes "github.com/lianxiangcloud/linkchain/libs/cryptonote/types"
	"github.com/lianxiangcloud/linkchain/libs/cryptonote/ringct"
	"github.com/lianxiangcloud/linkchain/libs/cryptonote/xcrypto"
	"github.com/lianxiangcloud/linkchain/libs/ser"
	"github.com/lianxiangcloud/linkchain/types"
	"pgregory.net/rapid"

	"verifharness/chainsim"
	"verifharness/vstat"
	"verifharness/world"
)

const P = "C06"

const kShortRing = "utxo:short-ring-pseudo-out-not-bound-to-input-commitment"

func TestMain(m *testing.M) {
	world.Init()
	vstat.Main(m)
}

var accountKinds = []string{"transfer", "transfer", "token", "call-revert", "call-forward", "call-fwdrevert", "call-killrevert", "pay-suicider", "call-suicide", "call-issue", "create", "prefund-create", "create-and-die"}

// checkSupply is the conservation oracle: for the native coin and every token, everything held by accounts
// plus the generator-known value of unspent confidential outputs equals the genesis supply plus what token
// contracts issued minus what a self-destruct-to-self destroyed.
func checkSupply(t *rapid.T, s *chainsim.Sim, when string) {
	toks := append([]common.Address{common.EmptyAddress}, s.Tokens...)
	if c, ok := s.Contracts["issuer"]; ok {
		toks = append(toks, c)
	}
	for _, tok := range toks {
		acc, conf, _ := s.Supply(tok)
		have := new(big.Int).Add(acc, conf)
		want := new(big.Int)
		if tok == common.EmptyAddress {
			want.Set(s.InitialNative)
		} else if v := s.InitialToken[tok]; v != nil {
			want.Set(v)
		}
		if v := s.Issued[tok]; v != nil {
			want.Add(want, v)
		}
		if v := s.Destroyed[tok]; v != nil {
			want.Sub(want, v)
		}
		if have.Cmp(want) != 0 {
			d := new(big.Int).Sub(have, want)
			key := "supply-changed"
			if d.Sign() > 0 {
				key = "supply-created"
			} else {
				key = "supply-destroyed"
			}
			vstat.Violation(t, P, key, "%s: token %s supply is %v (accounts %v + confidential %v), expected %v (diff %v); isTrie=%v; log:\n%s",
				when, tok.Hex(), have, acc, conf, want, d, s.Spec.IsTrie, strings.Join(s.Log, "\n"))
		}
	}
	if out := s.UniverseOutside(); len(out) > 0 {
		// an account the generator never addressed appeared in the state: the universe used for the flat mode would be incomplete
		vstat.Violation(t, P, "harness:universe-incomplete", "%s: state has accounts outside the generator's universe: %v", when, out)
	}
	st := s.Committed()
	for _, name := range []string{"reverter", "fwdrevert", "killrevert"} {
		if c, ok := s.Contracts[name]; ok && st.GetBalance(c).Sign() != 0 {
			vstat.Violation(t, P, "failed-call-kept-value", "%s: contract %s, whose every call fails, holds %v", when, name, st.GetBalance(c))
		}
	}
}

// keyBurnt: a payment to a contract that self-destructed in an EARLIER transaction of the same block is destroyed at the end of the block.
const keyBurnt = "payment-to-contract-self-destructed-earlier-in-block-is-destroyed"

func TestConservationChain(t *testing.T) {
	rapid.Check(t, func(t *rapid.T) {
		vstat.Eval()
		s := chainsim.New(t, chainsim.Options{Contracts: true, Tokens: true, RichBalance: true})
		defer s.Close()
		checkSupply(t, s, "genesis")
		nblocks := rapid.IntRange(1, 6).Draw(t, "nblocks")
		kindsSeen := map[string]bool{}
		crossings, failedWithValue, burnt := 0, 0, 0
		var hist []string
		for b := 0; b < nblocks; b++ {
			ntx := rapid.IntRange(0, 6).Draw(t, "ntx")
			gen := map[common.Hash]*chainsim.Tx{}
			suicideInBlock := false
			for i := 0; i < ntx; i++ {
				var g *chainsim.Tx
				class := rapid.IntRange(0, 12).Draw(t, "class")
				if b == 0 && i < 2 {
					class = 0 // seed the confidential pool early so later blocks can spend from it
				}
				switch class {
				case 10:
					// a non-native token enters the confidential pool (its fee is paid in the native coin) ...
					g = s.GenTokenDeposit(t)
				case 11, 12:
					// ... and moves on or leaves it again; a generated account signs and pays the fee
					if g = s.GenTokenSpend(t); g == nil {
						g = s.GenTokenDeposit(t)
					}
				case 0, 1:
					g = s.GenA2U(t)
				case 2, 3, 4, 5:
					g = s.GenUSpend(t, nil)
					if g == nil {
						g = s.GenA2U(t)
					}
				default:
					g = s.GenAccountTx(t, accountKinds)
				}
				if g == nil {
					continue
				}
				if g.Kind == "call-suicide" {
					if suicideInBlock {
						continue // keeps the "destroyed by design" amount exactly known (see chainsim.AfterCommit)
					}
					suicideInBlock = true
				}
				err := s.W.Submit(g.Tx)
				hist = append(hist, fmt.Sprintf("b%d %s => %v", b+1, g.Desc, err))
				s.Log = append(s.Log, hist[len(hist)-1])
				if err == nil {
					gen[g.Tx.Hash()] = g
					kindsSeen[g.Kind] = true
					vstat.Label("admitted_" + g.Kind)
					if g.InnerTo != "" {
						vstat.Label("admitted_" + g.Kind + "_reaching_" + g.InnerTo)
					}
					if g.Kind == "a2u" || g.Kind == "u2a" || g.Kind == "u2mix" || g.Kind == "token-a2u" || g.Kind == "token-u2a" || g.Kind == "token-u2mix" {
						crossings++
					}
					if (g.Kind == "call-revert" || g.Kind == "call-fwdrevert" || g.Kind == "call-killrevert") && g.Tx.(*types.Transaction).Value().Sign() > 0 {
						failedWithValue++
					}
				} else {
					vstat.Label("rejected_" + g.Kind)
					vstat.Label("rej_" + g.Kind + ":" + err.Error())
				}
			}
			pre := s.Snapshot()
			var blk *types.Block
			var pan interface{}
			func() {
				defer func() { pan = recover() }()
				blk = s.W.Propose(1000, world.GenesisTime+uint64(10*(b+1)), cfg.ContractFoundationAddr)
			}()
			if pan != nil {
				// the mempool handed the proposer a set of transactions that does not execute (C15's business; reported there too)
				vstat.Violation(t, P, "proposer-cannot-execute-reaped-txs", "PreRunBlock panicked: %v; log:\n%s", pan, strings.Join(s.Log, "\n"))
				return
			}
			if blk == nil {
				t.Fatalf("no block")
			}
			if err := s.W.Commit(blk); err != nil {
				vstat.Violation(t, P, "own-block-rejected", "node rejects the block it built: %v; log:\n%s", err, strings.Join(s.Log, "\n"))
				return
			}
			if err := s.AfterCommit(blk, gen, pre); err != nil {
				vstat.Violation(t, P, "harness:bookkeeping", "%v; log:\n%s", err, strings.Join(s.Log, "\n"))
				return
			}
			s.Log = append(s.Log, fmt.Sprintf("-- block %d committed with %d txs", blk.Height, len(blk.Data.Txs)))
			vstat.LabelN("committed_txs", len(blk.Data.Txs))
			// exactness of a lone plain transfer: sender pays amount+fee, recipient gets amount, collector gets the fee
			if len(blk.Data.Txs) == 1 {
				// (only the generator's plain transfers: they carry exactly the legal gas limit and go to addresses without code)
				if tx, ok := blk.Data.Txs[0].(*types.Transaction); ok && tx.To() != nil && len(tx.Data()) == 0 && gen[tx.Hash()] != nil && gen[tx.Hash()].Kind == "transfer" {
					post := s.Committed()
					from, _ := tx.From()
					fee := new(big.Int).Mul(new(big.Int).SetUint64(tx.Gas()), tx.GasPrice())
					dFrom := new(big.Int).Sub(pre.Bal(from), post.GetBalance(from))
					dTo := new(big.Int).Sub(post.GetBalance(*tx.To()), pre.Bal(*tx.To()))
					dFee := new(big.Int).Sub(post.GetBalance(cfg.ContractFoundationAddr), pre.Bal(cfg.ContractFoundationAddr))
					wantFrom := new(big.Int).Add(tx.Value(), fee)
					wantTo := tx.Value()
					if from == *tx.To() {
						wantFrom, wantTo = fee, big.NewInt(0)
						dTo = big.NewInt(0)
					}
					if dFrom.Cmp(wantFrom) != 0 || dTo.Cmp(wantTo) != 0 || dFee.Cmp(fee) != 0 {
						vstat.Violation(t, P, "transfer-inexact", "lone transfer of %v (fee %v): sender paid %v, recipient got %v, collector got %v", tx.Value(), fee, dFrom, dTo, dFee)
					}
					vstat.Label("lone_transfer_checked")
				}
			}
			if n := len(s.BurntAfterKill); n > burnt {
				// known finding (the books above already count the amount as destroyed, so anything else still shows)
				if vstat.Violation(t, P, keyBurnt, "%s; log:\n%s", strings.Join(s.BurntAfterKill[burnt:], "; "), strings.Join(s.Log, "\n")) {
					return
				}
				burnt = n
				vstat.Label("known_payment_after_self_destruct_in_block")
			}
			checkSupply(t, s, fmt.Sprintf("after block %d", blk.Height))
		}
		if crossings > 0 || failedWithValue > 0 {
			vstat.NonTrivial(strings.Join(hist, "|"))
			if crossings > 0 {
				vstat.Label("nontrivial_boundary_crossing")
			}
			if failedWithValue > 0 {
				vstat.Label("nontrivial_failed_call_with_value")
			}
			if vstat.WantSample() {
				vstat.Sample(map[string]interface{}{"isTrie": s.Spec.IsTrie, "history": hist})
			}
		}
		vstat.Label(fmt.Sprintf("kinds_%d", len(kindsSeen)))
	})
}

// ------------------------------------------------------------------ rejection side

// freshCopy returns the transaction as a peer would receive it: decoded from its encoding, no warm caches.
func freshCopy(tx *types.UTXOTransaction) *types.UTXOTransaction {
	b, err := ser.EncodeToBytes(tx)
	if err != nil {
		panic(err)
	}
	var n types.UTXOTransaction
	if err := ser.DecodeBytes(b, &n); err != nil {
		panic(err)
	}
	return &n
}

// acceptedByValidator runs the decisive experiment: an attacker node puts the transaction directly into a block
// (no mempool), executes it on the proposer path to fill the header, and an honest replica validates a copy.
// It returns true if the honest validator accepts the block.
func acceptedByValidator(attacker, honest *world.World, tx types.Tx) (accepted bool, note string) {
	blk := attacker.BlockOf(types.Txs{tx}, world.GenesisTime+1000, cfg.ContractFoundationAddr)
	var pan interface{}
	func() {
		defer func() { pan = recover() }()
		attacker.App.PreRunBlock(blk)
	}()
	if pan != nil {
		return false, fmt.Sprintf("not even executable on the proposer path: %v", pan)
	}
	cp, err := world.CopyBlock(blk)
	if err != nil {
		return false, "block does not decode: " + err.Error()
	}
	return honest.Check(cp), "validator path"
}

func TestTamperRejected(t *testing.T) {
	rapid.Check(t, func(t *rapid.T) {
		vstat.Eval()
		s := chainsim.New(t, chainsim.Options{NumAccts: 2, Contracts: false, Tokens: false, RichBalance: true})
		defer s.Close()
		// block 1: a few confidential outputs
		gen := map[common.Hash]*chainsim.Tx{}
		for i := 0; i < 3; i++ {
			from := s.Accts[0]
			nonce := s.W.App.GetNonce(from.Addr)
			amt1 := chainsim.E(int64(rapid.IntRange(200, 900).Draw(t, "o1")))
			amt2 := chainsim.E(int64(rapid.IntRange(200, 900).Draw(t, "o2")))
			total := new(big.Int).Add(amt1, amt2)
			fee := new(big.Int).Mul(new(big.Int).SetUint64(types.CalNewAmountGas(total, types.EverLiankeFee)), world.GasPrice)
			w := s.Wallets[i%len(s.Wallets)]
			tx, err := world.AccountToUTXO(from, nonce, new(big.Int).Add(total, fee), []types.DestEntry{w.Dest(0, amt1), w.Dest(uint64(rapid.IntRange(0, 2).Draw(t, "sub")), amt2)}, common.EmptyAddress, big.NewInt(0))
			if err != nil {
				t.Fatalf("a2u: %v", err)
			}
			if err := s.W.Submit(tx); err != nil {
				t.Fatalf("a2u submit: %v", err)
			}
		}
		pre := s.Snapshot()
		blk := s.W.Propose(100, world.GenesisTime+10, cfg.ContractFoundationAddr)
		if err := s.W.Commit(blk); err != nil {
			t.Fatalf("commit: %v", err)
		}
		if err := s.AfterCommit(blk, gen, pre); err != nil {
			t.Fatalf("book: %v", err)
		}

		op := rapid.SampledFrom([]string{"inflate-input-ring1", "inflate-input-ringN", "outpk-inflated", "fee-lowered", "aout-amount", "aout-commit",
			"proof-corrupt-a2u", "proof-swap-a2u", "ain-amount", "ain-commit", "pseudo-out-shift", "ain-split", "ain-split"}).Draw(t, "op")
		vstat.Label("op_" + op)
		var bad types.Tx
		delta := new(big.Int).Mul(big.NewInt(int64(rapid.IntRange(1, 1000000).Draw(t, "delta"))), world.UTXOUnit)
		deltaKey, _ := types.BigInt2Hash(new(big.Int).Div(delta, world.UTXOUnit))
		switch op {
		case "inflate-input-ring1", "inflate-input-ringN":
			// claim more value for an input than its commitment holds and mint the difference into the outputs
			var g *chainsim.Tx
			for tries := 0; tries < 20 && g == nil; tries++ {
				c := s.GenUSpend(t, delta)
				if c == nil {
					continue
				}
				ring1 := strings.Contains(c.Desc, "(ring 1)")
				if ring1 == (op == "inflate-input-ring1") {
					g = c
				}
			}
			if g == nil {
				t.Skip("no spend of the wanted ring size generated")
			}
			bad = freshCopy(g.Tx.(*types.UTXOTransaction))
		case "outpk-inflated", "fee-lowered", "aout-amount", "aout-commit", "pseudo-out-shift":
			var g *chainsim.Tx
			for tries := 0; tries < 30 && g == nil; tries++ {
				c := s.GenUSpend(t, nil)
				if c == nil {
					continue
				}
				if (op == "aout-amount" || op == "aout-commit") && c.Kind == "u2u" {
					continue
				}
				if (op == "outpk-inflated" || op == "pseudo-out-shift") && c.Kind == "u2a" {
					continue
				}
				g = c
			}
			if g == nil {
				t.Skip("no suitable spend generated")
			}
			tx := freshCopy(g.Tx.(*types.UTXOTransaction))
			switch op {
			case "outpk-inflated":
				tx.RCTSig.OutPk[0].Mask, _ = xcrypto.AddKeys(tx.RCTSig.OutPk[0].Mask, xcrypto.ScalarmultH(deltaKey))
			case "pseudo-out-shift":
				// shift value into the outputs and compensate in a pseudo-out so the sums still balance
				tx.RCTSig.OutPk[0].Mask, _ = xcrypto.AddKeys(tx.RCTSig.OutPk[0].Mask, xcrypto.ScalarmultH(deltaKey))
				tx.RCTSig.P.PseudoOuts[0], _ = xcrypto.AddKeys(tx.RCTSig.P.PseudoOuts[0], xcrypto.ScalarmultH(deltaKey))
			case "fee-lowered":
				if tx.Fee.Cmp(big.NewInt(types.ParGasPrice)) <= 0 {
					t.Skip("fee too small")
				}
				tx.Fee = new(big.Int).Sub(tx.Fee, big.NewInt(types.ParGasPrice*int64(rapid.IntRange(1, 100).Draw(t, "feecut"))))
				if tx.Fee.Sign() < 0 {
					tx.Fee = big.NewInt(0)
				}
			case "aout-amount":
				for _, o := range tx.Outputs {
					if ao, ok := o.(*types.AccountOutput); ok {
						ao.Amount = new(big.Int).Add(ao.Amount, delta)
					}
				}
			case "aout-commit":
				for _, o := range tx.Outputs {
					if ao, ok := o.(*types.AccountOutput); ok {
						ao.Commit, _ = xcrypto.AddKeys(ao.Commit, xcrypto.ScalarmultH(deltaKey))
					}
				}
			}
			bad = tx
		case "proof-corrupt-a2u", "proof-swap-a2u", "ain-amount", "ain-commit", "ain-split":
			mk := func(label string) *types.UTXOTransaction {
				from := s.Accts[0]
				nonce := s.W.App.GetNonce(from.Addr)
				a := chainsim.E(int64(rapid.IntRange(100, 500).Draw(t, label)))
				fee := new(big.Int).Mul(new(big.Int).SetUint64(types.CalNewAmountGas(a, types.EverLiankeFee)), world.GasPrice)
				tx, err := world.AccountToUTXO(from, nonce, new(big.Int).Add(a, fee), []types.DestEntry{s.Wallets[0].Dest(0, a)}, common.EmptyAddress, big.NewInt(0))
				if err != nil {
					t.Fatalf("a2u: %v", err)
				}
				return tx
			}
			tx := mk("a")
			switch op {
			case "proof-corrupt-a2u":
				tx.RCTSig.P.Bulletproofs[0].R[0][0] ^= 1 // the proof now opens another amount than the commitment
			case "proof-swap-a2u":
				other := mk("b")
				if other.RCTSig.P.Bulletproofs[0].R[0] == tx.RCTSig.P.Bulletproofs[0].R[0] {
					t.Skip("same amount")
				}
				tx.RCTSig.P.Bulletproofs[0] = other.RCTSig.P.Bulletproofs[0]
			case "ain-amount":
				// debit less from the account than the commitment says (re-signed by the sender, who is the attacker)
				in := tx.Inputs[0].(*types.AccountInput)
				in.Amount = new(big.Int).Sub(in.Amount, world.UTXOUnit)
				tx.Sign(types.GlobalSTDSigner, s.Accts[0].Key)
			case "ain-split":
				// the one account input becomes 2-3 account inputs whose amounts and commitments add up to the original: the
				// commitments still balance, so the question is whether EVERY one of the amounts is debited
				in := tx.Inputs[0].(*types.AccountInput)
				parts := rapid.IntRange(2, 3).Draw(t, "parts")
				rest, restCF := new(big.Int).Set(in.Amount), in.CF
				var ins []types.Input
				for i := 1; i < parts; i++ {
					a := new(big.Int).Mul(world.UTXOUnit, big.NewInt(int64(rapid.IntRange(1, 1000000).Draw(t, "splitunits"))))
					cf := ringct.SkGen()
					ins = append(ins, &types.AccountInput{Nonce: in.Nonce, Amount: a, CF: cf, Commit: types.AmountCommit(new(big.Int).Div(a, world.UTXOUnit), cf)})
					rest.Sub(rest, a)
					restCF = ringct.ScSub(lktypes.EcScalar(restCF), lktypes.EcScalar(cf))
				}
				first := &types.AccountInput{Nonce: in.Nonce, Amount: rest, CF: restCF, Commit: types.AmountCommit(new(big.Int).Div(rest, world.UTXOUnit), restCF)}
				if rapid.Bool().Draw(t, "restfirst") {
					ins = append([]types.Input{first}, ins...)
				} else {
					ins = append(ins, first)
				}
				tx.Inputs = ins
				tx.Sign(types.GlobalSTDSigner, s.Accts[0].Key)
			case "ain-commit":
				in := tx.Inputs[0].(*types.AccountInput)
				in.Commit, _ = xcrypto.AddKeys(in.Commit, xcrypto.ScalarmultH(deltaKey))
				tx.Sign(types.GlobalSTDSigner, s.Accts[0].Key)
			}
			bad = freshCopy(tx)
		}

		// (1) admission check
		basicErr := s.W.App.CheckTx(bad, true)
		// (2) direct injection into a block, validated by an honest replica
		attacker, err := s.W.Replica()
		if err != nil {
			t.Fatalf("replica: %v", err)
		}
		defer attacker.Close()
		honest, err := s.W.Replica()
		if err != nil {
			t.Fatalf("replica: %v", err)
		}
		defer honest.Close()
		var injected types.Tx = bad
		if u, ok := bad.(*types.UTXOTransaction); ok {
			injected = freshCopy(u)
		}
		if op == "ain-split" {
			// not unbalanced by construction: accepting it is fine IF the sender pays every account input.  So the block is
			// committed by the honest validator when it accepts it, and the sender's books are read.
			want := new(big.Int)
			for _, in := range injected.(*types.UTXOTransaction).Inputs {
				want.Add(want, in.(*types.AccountInput).Amount)
			}
			sender := s.Accts[0].Addr
			before := new(big.Int).Set(honest.App.GetLatestStateDB().GetBalance(sender))
			blk := attacker.BlockOf(types.Txs{injected}, world.GenesisTime+1000, cfg.ContractFoundationAddr)
			var pan interface{}
			func() {
				defer func() { pan = recover() }()
				attacker.App.PreRunBlock(blk)
			}()
			accepted := false
			if pan == nil {
				if cp, err := world.CopyBlock(blk); err == nil && honest.Check(cp) {
					hasTx := len(cp.Data.Txs) == 1
					if err := honest.Commit(cp); err == nil && hasTx {
						accepted = true
						debit := new(big.Int).Sub(before, honest.App.GetLatestStateDB().GetBalance(sender))
						// a transaction that failed inside the block moves nothing and creates nothing
						created := honest.UtxoStore.GetMaxUtxoOutputSeq(common.EmptyAddress) > s.W.UtxoStore.GetMaxUtxoOutputSeq(common.EmptyAddress)
						if created && debit.Cmp(want) < 0 {
							vstat.Violation(t, P, "value-created:account-inputs-not-all-debited", "a confidential transaction with %d account inputs worth %v in total (their commitments balance the outputs and the fee) is accepted and creates its outputs, but the sender is debited only %v", len(injected.(*types.UTXOTransaction).Inputs), want, debit)
						}
					}
				}
			}
			vstat.Label(fmt.Sprintf("ain_split_accepted_%v_admission_%v", accepted, basicErr == nil))
			vstat.NonTrivial(fmt.Sprintf("%s|%v|%v", op, want, bad.Hash().Hex()))
			return
		}
		accepted, note := acceptedByValidator(attacker, honest, injected)
		vstat.NonTrivial(fmt.Sprintf("%s|%v|%v", op, delta, bad.Hash().Hex()))
		if vstat.WantSample() {
			vstat.Sample(map[string]interface{}{"op": op, "delta": delta.String(), "basic_check": fmt.Sprint(basicErr), "validator_accepts": accepted, "note": note})
		}
		if basicErr == nil || accepted {
			key := "unbalanced-tx-accepted:" + op
			if op == "inflate-input-ring1" {
				key = kShortRing
			}
			vstat.Violation(t, P, key, "tampered transaction (%s, delta %v) is not rejected: basic check error = %v, honest validator accepts block = %v (%s)", op, delta, basicErr, accepted, note)
		}
	})
}

var _ = lktypes.Key{}
