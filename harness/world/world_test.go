package world

import (
	"math/big"
	"testing"

	"github.com/lianxiangcloud/linkchain/libs/common"
	"github.com/lianxiangcloud/linkchain/types"
)

func ether(n int64) *big.Int { return new(big.Int).Mul(big.NewInt(n), big.NewInt(1e18)) }

func TestSmoke(t *testing.T) {
	for _, isTrie := range []bool{true, false} {
		a, b := DetAcct(1), DetAcct(2)
		spec := &Spec{IsTrie: isTrie, Accounts: []GenesisAccount{{Addr: a.Addr, Balance: ether(1000)}, {Addr: b.Addr, Balance: ether(5)}}}
		w, err := New(spec)
		if err != nil {
			t.Fatal(err)
		}
		rep, err := w.Replica()
		if err != nil {
			t.Fatal(err)
		}
		if err := w.Submit(Transfer(a, 0, b.Addr, ether(1))); err != nil {
			t.Fatal("submit", err)
		}
		wal := NewWallet(7, 2)
		utx, err := AccountToUTXO(a, 1, ether(910), []types.DestEntry{wal.Dest(0, ether(300)), wal.Dest(1, ether(600))}, common.EmptyAddress, big.NewInt(0))
		if err != nil {
			t.Fatal("ain", err)
		}
		if err := w.Submit(utx); err != nil {
			t.Fatal("submit utxo", err)
		}
		blk := w.Propose(100, GenesisTime+10, common.EmptyAddress)
		if blk == nil || len(blk.Data.Txs) != 2 {
			t.Fatalf("block %v", blk)
		}
		cp, err := CopyBlock(blk)
		if err != nil {
			t.Fatal(err)
		}
		if !rep.Check(cp) {
			t.Fatal("replica rejects block")
		}
		if err := w.Commit(blk); err != nil {
			t.Fatal(err)
		}
		if err := rep.Commit(cp); err != nil {
			t.Fatal(err)
		}
		st := w.App.GetLatestStateDB()
		t.Logf("trie=%v a=%v b=%v", isTrie, st.GetBalance(a.Addr), st.GetBalance(b.Addr))
		found, err := wal.ScanTx(utx, 1, 0)
		if err != nil || len(found) != 2 {
			t.Fatalf("scan: %v %v", found, err)
		}
		t.Logf("found %v %v sub=%d,%d", found[0].Amount, found[1].Amount, found[0].SubIdx, found[1].SubIdx)
		// spend output 0 with ring {0,1}: MLSAG path
		out0, _ := w.UtxoStore.GetUtxoOutput(common.EmptyAddress, 0)
		out1, _ := w.UtxoStore.GetUtxoOutput(common.EmptyAddress, 1)
		ring := []RingMember{{0, out0.OTAddr, out0.Commit}, {1, out1.OTAddr, out1.Commit}}
		w2 := NewWallet(8, 0)
		fee := new(big.Int).Mul(big.NewInt(5e8), big.NewInt(types.ParGasPrice))
		t.Logf("utxo fee %v", fee)
		sp, err := wal.SpendUTXO([]*types.UTXOSourceEntry{found[0].Source(ring)}, []types.DestEntry{w2.Dest(0, new(big.Int).Sub(ether(300), fee))}, common.EmptyAddress, nil)
		if err != nil {
			t.Fatal("spend", err)
		}
		if err := w.Submit(sp); err != nil {
			t.Fatal("submit spend", err)
		}
		// short ring spend of output 1 to an account
		sp2, err := wal.SpendUTXO([]*types.UTXOSourceEntry{found[1].Source(ring[1:])}, []types.DestEntry{&types.AccountDestEntry{To: b.Addr, Amount: ether(500)}}, common.EmptyAddress, nil)
		if err != nil {
			t.Fatal("spend2", err)
		}
		if err := w.Submit(sp2); err != nil {
			t.Fatal("submit spend2", err)
		}
		// double spend rejected
		sp3, _ := wal.SpendUTXO([]*types.UTXOSourceEntry{found[1].Source(ring[1:])}, []types.DestEntry{&types.AccountDestEntry{To: a.Addr, Amount: ether(500)}}, common.EmptyAddress, nil)
		if err := w.Submit(sp3); err == nil {
			t.Fatal("double spend admitted")
		}
		blk2 := w.Propose(100, GenesisTime+20, common.EmptyAddress)
		if len(blk2.Data.Txs) != 2 {
			t.Fatalf("block2 has %d txs", len(blk2.Data.Txs))
		}
		cp2, _ := CopyBlock(blk2)
		for i, tx := range cp2.Data.Txs {
			t.Logf("tx %d basic: %v", i, rep.App.CheckTx(tx, true))
		}
		if !rep.Check(cp2) {
			t.Fatal("replica rejects block 2")
		}
		if err := w.Commit(blk2); err != nil {
			t.Fatal(err)
		}
		st = w.App.GetLatestStateDB()
		t.Logf("after: a=%v b=%v foundation=%v", st.GetBalance(a.Addr), st.GetBalance(b.Addr), st.GetBalance(common.HexToAddress("0x0")))
		w.Close()
		rep.Close()
	}
}
