// Package world assembles a real linkchain application stack (state DB, block store, UTXO store,
// tx index, LinkApplication, Mempool) from the outside, through exported API only, the way
// cmd/commands/init.go (genesis) and node.NewNode (start-up) do it.  It is the shared fixture of
// the checks for C05, C06, C07, C08, C13, C15 and of the consensus simulator's real-app back-end.
package world

import (
	"crypto/ecdsa"
	"encoding/binary"
	"encoding/json"
	"fmt"
	"math/big"
	"os"
	"path/filepath"
	"sort"
	"sync"
	"sync/atomic"

	"github.com/lianxiangcloud/linkchain/app"
	bc "github.com/lianxiangcloud/linkchain/blockchain"
	cfg "github.com/lianxiangcloud/linkchain/config"
	"github.com/lianxiangcloud/linkchain/libs/common"
	"github.com/lianxiangcloud/linkchain/libs/crypto"
	dbm "github.com/lianxiangcloud/linkchain/libs/db"
	"github.com/lianxiangcloud/linkchain/libs/log"
	"github.com/lianxiangcloud/linkchain/libs/ser"
	"github.com/lianxiangcloud/linkchain/libs/txmgr"
	"github.com/lianxiangcloud/linkchain/mempool"
	"github.com/lianxiangcloud/linkchain/metrics"
	"github.com/lianxiangcloud/linkchain/state"
	"github.com/lianxiangcloud/linkchain/types"
	"github.com/lianxiangcloud/linkchain/utxo"
)

var initOnce sync.Once

// Init performs the process-wide set-up every real start-up does (quiet logger, metrics singleton).
func Init() {
	initOnce.Do(func() {
		log.Root().SetHandler(log.DiscardHandler())
		sk := crypto.GenPrivKeyEd25519()
		metrics.PrometheusMetricInstance.Init(cfg.DefaultConfig(), sk.PubKey(), log.NewNopLogger())
		metrics.PrometheusMetricInstance.SetRole(types.NodePeer)
		types.SaveBalanceRecord = false
	})
}

// ------------------------------------------------------------------ keys

// Acct is a secp256k1 account the harness holds the key of.
type Acct struct {
	Key  *ecdsa.PrivateKey
	Addr common.Address
}

// DetAcct derives an account deterministically from a small integer.
func DetAcct(i uint64) Acct {
	var b [40]byte
	copy(b[:], "verif-world-account")
	binary.BigEndian.PutUint64(b[32:], i)
	for ctr := 0; ; ctr++ {
		b[31] = byte(ctr)
		h := crypto.Keccak256(b[:])
		k, err := crypto.ToECDSA(h)
		if err == nil {
			return Acct{Key: k, Addr: crypto.PubkeyToAddress(k.PublicKey)}
		}
	}
}

// ------------------------------------------------------------------ databases

// DirDB is a MemDB that reports its own directory (the flat-KV state mode keeps a WAL file in
// db.Dir(); replicas in one process must not share it).
type DirDB struct {
	*dbm.MemDB
	dir string
}

func (d *DirDB) Dir() string { return d.dir }

// DBSet is the set of databases a node opens.
type DBSet struct {
	Dir                                      string
	State, Block, Tx, Balance                dbm.DB
	Utxo, UtxoOut, UtxoTok, Status, Evidence dbm.DB
}

var dirCtr int64

// ScratchDir returns a fresh directory under $VERIF_SCRATCH (or the OS temp dir).
func ScratchDir(prefix string) string {
	base := os.Getenv("VERIF_SCRATCH")
	if base == "" {
		base = os.TempDir()
	}
	d := filepath.Join(base, fmt.Sprintf("%s-%d-%d", prefix, os.Getpid(), atomic.AddInt64(&dirCtr, 1)))
	if err := os.MkdirAll(d, 0o700); err != nil {
		panic(err)
	}
	return d
}

// NewMemDBSet creates empty in-memory databases with a private directory for side files.
func NewMemDBSet() *DBSet {
	dir := ScratchDir("world")
	return &DBSet{
		Dir:   dir,
		State: &DirDB{dbm.NewMemDB(), dir}, Block: dbm.NewMemDB(), Tx: dbm.NewMemDB(), Balance: dbm.NewMemDB(),
		Utxo: dbm.NewMemDB(), UtxoOut: dbm.NewMemDB(), UtxoTok: dbm.NewMemDB(), Status: dbm.NewMemDB(), Evidence: dbm.NewMemDB(),
	}
}

// CopyMemDB copies every key/value of src into a new MemDB.
func CopyMemDB(src dbm.DB) *dbm.MemDB {
	dst := dbm.NewMemDB()
	it := src.Iterator(nil, nil)
	defer it.Close()
	for ; it.Valid(); it.Next() {
		dst.Set(common.CopyBytes(it.Key()), common.CopyBytes(it.Value()))
	}
	return dst
}

// Clone deep-copies a MemDB-backed set, including the flat-KV WAL file.
func (d *DBSet) Clone() *DBSet {
	dir := ScratchDir("world")
	if b, err := os.ReadFile(filepath.Join(d.Dir, "kvState.wal")); err == nil {
		_ = os.WriteFile(filepath.Join(dir, "kvState.wal"), b, 0o600)
	}
	return &DBSet{
		Dir:   dir,
		State: &DirDB{CopyMemDB(d.State), dir}, Block: CopyMemDB(d.Block), Tx: CopyMemDB(d.Tx), Balance: CopyMemDB(d.Balance),
		Utxo: CopyMemDB(d.Utxo), UtxoOut: CopyMemDB(d.UtxoOut), UtxoTok: CopyMemDB(d.UtxoTok), Status: CopyMemDB(d.Status), Evidence: CopyMemDB(d.Evidence),
	}
}

// Remove deletes the side-file directory.
func (d *DBSet) Remove() { _ = os.RemoveAll(d.Dir) }

// ------------------------------------------------------------------ genesis

// GenesisAccount is one funded account of the genesis state.
type GenesisAccount struct {
	Addr    common.Address
	Balance *big.Int
	Nonce   uint64
	Tokens  map[common.Address]*big.Int
	Code    []byte
	Storage map[common.Hash][]byte
}

// Spec describes a chain.
type Spec struct {
	ChainID  string
	IsTrie   bool
	Accounts []GenesisAccount
	Mempool  *cfg.MempoolConfig
	Time     uint64
	// UpgradeSigner, if set, is registered as the (only, sufficient) multi-signature signer for contract upgrades: the
	// record a committed MultiSignAccountTx leaves in the tx database (libs/txmgr saveMultiSignersInfo).
	UpgradeSigner *Acct
	// Validators, if set, is the validator set the node knows as "last changed" (node start-up and consensus tell the
	// application): the signers of a MultiSignAccountTx are checked against it.
	Validators []*types.Validator
	// Candidates are elected validator candidates present from genesis: written into the candidates contract's storage
	// (the layout state.GetAllCandidates / UpdateCandidateScore read) and into the genesis TxsResult.
	Candidates []CandidateSeed
}

const DefaultChainID = "verif-chain"

// GenesisTime is the fixed genesis block time.
const GenesisTime = uint64(1569409200)

// PartSize is the block part size the harness uses.
const PartSize = 65536

// CandidateSeed is one elected candidate of the genesis.
type CandidateSeed struct {
	Pub         crypto.PubKey
	CoinBase    common.Address
	VotingPower int64
	Score       int64
	ProduceInfo int
}

// candidateSlots returns the storage of the candidates contract for the given candidates.
func candidateSlots(cands []CandidateSeed) map[common.Hash][]byte {
	out := map[common.Hash][]byte{}
	le16 := func(n int) []byte { b := make([]byte, 2); binary.LittleEndian.PutUint16(b, uint16(n)); return b }
	list := append([]byte{state.TagArray}, le16(len(cands))...)
	for _, c := range cands {
		key := "0x" + common.Bytes2Hex(c.Pub.Bytes()) + string(rune(0))
		list = append(list, state.TagString)
		list = append(list, le16(len(key))...)
		list = append(list, key...)
		packed := append([]byte("cand"), state.TagString)
		packed = append(packed, le16(len(key))...)
		packed = append(packed, key...)
		js, _ := json.Marshal(state.CandidateJSON{PubKey: "0x" + common.Bytes2Hex(c.Pub.Bytes()), CoinBase: c.CoinBase, VotingPower: c.VotingPower, Score: c.Score})
		val := append([]byte{0x08, 0x01, 0x01}, js...)
		out[crypto.Keccak256Hash(packed)] = append(val, 0)
	}
	out[crypto.Keccak256Hash([]byte("pubkeys"))] = list
	return out
}

// Genesis writes block 0 and the funded state into dbs, like createGenesisBlock in cmd/commands/init.go.
func Genesis(spec *Spec, dbs *DBSet) error {
	Init()
	types.UpdateBlockHeightZero(0)
	storeState, err := state.New(common.EmptyHash, state.NewKeyValueDBWithCache(dbs.State, 0, spec.IsTrie, 0))
	if err != nil {
		return err
	}
	blockStore := bc.NewBlockStore(dbs.Block)
	blockStore.SaveInitHeight(types.BlockHeightZero)
	if spec.UpgradeSigner != nil {
		info := &types.SignersInfo{MinSignerPower: 1, Signers: []*types.SignerEntry{{Power: 1, Addr: spec.UpgradeSigner.Addr}}}
		v, err := ser.EncodeToBytes(info)
		if err != nil {
			return err
		}
		dbs.Tx.Set([]byte(types.DBcontractCreateKey), v)
	}
	accts := append([]GenesisAccount(nil), spec.Accounts...)
	if len(spec.Candidates) > 0 {
		accts = append(accts, GenesisAccount{Addr: cfg.ContractCandidatesAddr, Nonce: 1, Storage: candidateSlots(spec.Candidates)})
	}
	sort.Slice(accts, func(i, j int) bool { return accts[i].Addr.Hex() < accts[j].Addr.Hex() })
	for _, a := range accts {
		if a.Balance != nil {
			storeState.AddBalance(a.Addr, a.Balance)
		}
		storeState.SetNonce(a.Addr, a.Nonce)
		toks := make([]common.Address, 0, len(a.Tokens))
		for t := range a.Tokens {
			toks = append(toks, t)
		}
		sort.Slice(toks, func(i, j int) bool { return toks[i].Hex() < toks[j].Hex() })
		for _, t := range toks {
			storeState.AddTokenBalance(a.Addr, t, a.Tokens[t])
		}
		if len(a.Code) > 0 {
			storeState.SetCode(a.Addr, a.Code)
			if a.Nonce == 0 {
				storeState.SetNonce(a.Addr, 1)
			}
		}
		keys := make([]common.Hash, 0, len(a.Storage))
		for k := range a.Storage {
			keys = append(keys, k)
		}
		sort.Slice(keys, func(i, j int) bool { return keys[i].Hex() < keys[j].Hex() })
		for _, k := range keys {
			storeState.SetState(a.Addr, k, a.Storage[k])
		}
	}
	chainID := spec.ChainID
	if chainID == "" {
		chainID = DefaultChainID
	}
	params := types.DefaultConsensusParams()
	header := &types.Header{
		ChainID:    chainID,
		Height:     types.BlockHeightZero,
		Coinbase:   common.EmptyAddress,
		Time:       GenesisTime,
		ParentHash: common.EmptyHash,
		StateHash:  common.EmptyHash,
		GasLimit:   params.BlockSize.MaxGas,
	}
	stateHash := storeState.IntermediateRoot(false)
	trieRoot, err := storeState.Commit(false, header.Height)
	if err != nil {
		return err
	}
	storeState.Database().TrieDB().Commit(trieRoot, false)
	txsResult := types.TxsResult{TrieRoot: trieRoot, StateHash: stateHash}
	if len(spec.Candidates) > 0 {
		var cs []*types.CandidateInOrder
		for _, c := range spec.Candidates {
			cs = append(cs, &types.CandidateInOrder{Candidate: types.Candidate{Address: c.Pub.Address(), PubKey: c.Pub, VotingPower: c.VotingPower, CoinBase: c.CoinBase}, ProduceInfo: c.ProduceInfo, Score: c.Score})
		}
		txsResult.SetCandidates(cs)
	}
	header.StateHash = stateHash
	block := &types.Block{Header: header, Data: &types.Data{}, LastCommit: &types.Commit{}}
	blockStore.SaveBlock(block, block.MakePartSet(PartSize), nil, nil, &txsResult)
	types.BlockBalanceRecordsInstance.Reset()
	return nil
}

// ------------------------------------------------------------------ node

// World is one node's application stack.
type World struct {
	// LastCommitVals: what the last CommitBlock returned (the validators that follow the block, as consensus is told)
	LastCommitVals []*types.Validator
	Spec       *Spec
	DBs        *DBSet
	BlockStore *bc.BlockStore
	UtxoStore  *utxo.UtxoStore
	TxService  *txmgr.Service
	Balance    *bc.BalanceRecordStore
	EventBus   *types.EventBus
	App        *app.LinkApplication
	Mempool    *mempool.Mempool
	ChainID    string
	// Evidence is put into the next block FillHeader completes (the way createProposalBlock adds the evidence pool's
	// pending evidence and the fault-validator evidence); the caller clears it.
	Evidence []types.Evidence
}

// DefaultMempoolConfig is the node default without p2p broadcast.
func DefaultMempoolConfig() *cfg.MempoolConfig {
	c := cfg.DefaultMempoolConfig()
	c.Broadcast = false
	return c
}

// Open builds the application stack over dbs, following node.NewNode.
func Open(spec *Spec, dbs *DBSet) (*World, error) {
	Init()
	w := &World{Spec: spec, DBs: dbs, ChainID: spec.ChainID}
	if w.ChainID == "" {
		w.ChainID = DefaultChainID
	}
	w.BlockStore = bc.NewBlockStore(dbs.Block)
	initHeight, err := w.BlockStore.LoadInitHeight()
	if err != nil {
		return nil, err
	}
	types.UpdateBlockHeightZero(initHeight)
	w.Balance = bc.NewBalanceRecordStore(dbs.Balance, false)
	w.TxService = txmgr.NewCrossState(dbs.Tx, w.BlockStore)
	w.BlockStore.SetCrossState(w.TxService)
	w.EventBus = types.NewEventBus()
	w.UtxoStore = utxo.NewUtxoStore(dbs.Utxo, dbs.UtxoOut, dbs.UtxoTok)
	w.UtxoStore.SetLogger(log.NewNopLogger())
	a, err := app.NewLinkApplication(dbs.State, w.BlockStore, w.UtxoStore, w.TxService, w.EventBus, spec.IsTrie, w.Balance, app.SetPoceeds, app.AllocAward)
	if err != nil {
		return nil, err
	}
	w.App = a
	if len(spec.Validators) > 0 {
		a.SetLastChangedVals(0, spec.Validators)
	}
	mc := spec.Mempool
	if mc == nil {
		mc = DefaultMempoolConfig()
	}
	mcCopy := *mc
	w.Mempool = mempool.NewMempool(&mcCopy, w.BlockStore.Height(), nil)
	w.Mempool.SetApp(a)
	a.SetMempool(w.Mempool)
	return w, nil
}

// New = fresh databases + Genesis + Open.
func New(spec *Spec) (*World, error) {
	dbs := NewMemDBSet()
	if err := Genesis(spec, dbs); err != nil {
		return nil, err
	}
	return Open(spec, dbs)
}

// Replica opens an independent node over a deep copy of this node's databases.
func (w *World) Replica() (*World, error) {
	return Open(w.Spec, w.DBs.Clone())
}

// Close stops background routines that can be stopped and removes side files.
func (w *World) Close() {
	if w.Mempool != nil {
		w.Mempool.Stop()
	}
	w.DBs.Remove()
}

// Height is the committed height.
func (w *World) Height() uint64 { return w.BlockStore.Height() }

// Submit offers a transaction to the mempool, like an RPC submission.
func (w *World) Submit(tx types.Tx) error { return w.Mempool.AddTx("", tx) }

// FillHeader completes a block created by the application the way createProposalBlock does,
// with an empty evidence list and the given previous commit.
func (w *World) FillHeader(block *types.Block, coinbase common.Address, lastCommit *types.Commit) {
	block.Header.Coinbase = coinbase
	block.ChainID = w.ChainID
	if lastCommit == nil {
		lastCommit = &types.Commit{}
	}
	block.LastCommit = lastCommit
	if meta := w.BlockStore.LoadBlockMeta(w.Height()); meta != nil {
		block.LastBlockID = meta.BlockID
	}
	if len(w.Evidence) > 0 && len(block.Evidence.Evidence) == 0 {
		block.AddEvidence(w.Evidence)
	}
	block.LastCommitHash = block.LastCommit.Hash()
	block.EvidenceHash = block.Evidence.Hash()
}

// Propose builds the next block from the mempool on the proposer path (CreateBlock + PreRunBlock).
func (w *World) Propose(maxTxs int, timeUnix uint64, coinbase common.Address) *types.Block {
	params := types.DefaultConsensusParams()
	block := w.App.CreateBlock(w.Height()+1, maxTxs, params.BlockSize.MaxGas, timeUnix)
	if block == nil {
		return nil
	}
	w.FillHeader(block, coinbase, nil)
	w.App.PreRunBlock(block)
	// Like the real proposer, continue with the block as re-assembled from its parts: PreRunBlock
	// memoises Block.Hash() (it logs the hash) BEFORE it fills StateHash/ReceiptHash/GasUsed, so the
	// in-memory object carries a stale hash; production never uses that object again either
	// (the proposer receives its own parts through the internal queue and decodes them).
	nb, err := CopyBlock(block)
	if err != nil {
		panic(err)
	}
	return nb
}

// BlockOf builds a block with exactly the given transactions (no mempool involved) and pre-runs it.
// The header fields PreRunBlock fills are left to it; recover() is the caller's business.
func (w *World) BlockOf(txs types.Txs, timeUnix uint64, coinbase common.Address) *types.Block {
	params := types.DefaultConsensusParams()
	cur := w.BlockStore.LoadBlock(w.Height())
	block := &types.Block{
		Header: &types.Header{
			Height:     w.Height() + 1,
			Time:       timeUnix,
			NumTxs:     uint64(len(txs)),
			TotalTxs:   cur.TotalTxs + uint64(len(txs)),
			ParentHash: cur.Hash(),
			GasLimit:   params.BlockSize.MaxGas,
		},
		Data: &types.Data{Txs: txs},
	}
	block.DataHash = block.Data.Hash()
	w.FillHeader(block, coinbase, nil)
	return block
}

// Check runs the validator path.
func (w *World) Check(block *types.Block) bool { return w.App.CheckBlock(block) }

// FakeCommit is a structurally valid (unsigned) commit object for a block; the application layer stores it verbatim.
func FakeCommit(block *types.Block, parts *types.PartSet) *types.Commit {
	return &types.Commit{BlockID: types.BlockID{Hash: block.Hash(), PartsHeader: parts.Header()}}
}

// Commit commits a block that was checked (or is checked now) by this node.
func (w *World) Commit(block *types.Block) error {
	if !w.App.CheckBlock(block) {
		return fmt.Errorf("CheckBlock rejected block %d", block.Height)
	}
	parts := block.MakePartSet(PartSize)
	vals, err := w.App.CommitBlock(block, parts, FakeCommit(block, parts), false)
	w.LastCommitVals = vals
	return err
}

// CopyBlock returns an independent copy of a block by an encode/decode round trip (what a peer receives).
func CopyBlock(b *types.Block) (*types.Block, error) {
	parts := b.MakePartSet(PartSize)
	var nb *types.Block
	if _, err := ser.DecodeReader(parts.GetReader(), &nb, int64(types.DefaultConsensusParams().BlockSize.MaxBytes)); err != nil {
		return nil, err
	}
	return nb, nil
}
