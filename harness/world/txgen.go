package world

import (
	"encoding/binary"
	"fmt"
	"math/big"

	"github.com/lianxiangcloud/linkchain/libs/common"
	"github.com/lianxiangcloud/linkchain/libs/crypto"
	lktypes "github.com/lianxiangcloud/linkchain/libs/cryptonote/types"
	"github.com/lianxiangcloud/linkchain/libs/cryptonote/xcrypto"
	"github.com/lianxiangcloud/linkchain/types"
)

// GasPrice is the only gas price the chain accepts.
var GasPrice = big.NewInt(types.ParGasPrice)

// TransferGas is the exact gas limit a plain native transfer of amount must carry.
func TransferGas(amount *big.Int) uint64 { return types.CalNewAmountGas(amount, types.EverLiankeFee) }

// Transfer builds and signs a plain native-coin transfer with the legal gas limit.
func Transfer(from Acct, nonce uint64, to common.Address, amount *big.Int) *types.Transaction {
	tx := types.NewTransaction(nonce, to, amount, TransferGas(amount), GasPrice, nil)
	if err := tx.Sign(types.GlobalSTDSigner, from.Key); err != nil {
		panic(err)
	}
	return tx
}

// RawTx builds and signs a transaction with caller-chosen gas, price and payload (to == nil creates a contract).
func RawTx(from Acct, nonce uint64, to *common.Address, amount *big.Int, gas uint64, price *big.Int, data []byte) *types.Transaction {
	var tx *types.Transaction
	if to == nil {
		tx = types.NewContractCreation(nonce, amount, gas, price, data)
	} else {
		tx = types.NewTransaction(nonce, *to, amount, gas, price, data)
	}
	if err := tx.Sign(types.GlobalSTDSigner, from.Key); err != nil {
		panic(err)
	}
	return tx
}

// TokenTransferGas is the exact gas limit a token transfer to a plain account must carry.
func TokenTransferGas(token common.Address, amount *big.Int) uint64 {
	if common.IsLKC(token) {
		return types.CalNewAmountGas(amount, types.EverLiankeFee)
	}
	return uint64(types.MinGasLimit)
}

// TokenTransfer builds and signs a token transfer.
func TokenTransfer(from Acct, token common.Address, nonce uint64, to common.Address, amount *big.Int) *types.TokenTransaction {
	tx := types.NewTokenTransaction(token, nonce, to, amount, TokenTransferGas(token, amount), GasPrice, nil)
	if err := tx.Sign(types.GlobalSTDSigner, from.Key); err != nil {
		panic(err)
	}
	return tx
}

// RawTokenTx builds and signs a token transaction with caller-chosen gas and payload.
func RawTokenTx(from Acct, token common.Address, nonce uint64, to common.Address, amount *big.Int, gas uint64, price *big.Int, data []byte) *types.TokenTransaction {
	tx := types.NewTokenTransaction(token, nonce, to, amount, gas, price, data)
	if err := tx.Sign(types.GlobalSTDSigner, from.Key); err != nil {
		panic(err)
	}
	return tx
}

// ------------------------------------------------------------------ confidential wallet

// UTXOUnit is the commitment unit of the native coin.
var UTXOUnit = big.NewInt(types.UTXO_COMMITMENT_CHANGE_RATE)

// Owned is an output a wallet found and can spend.
type Owned struct {
	Token       common.Address
	GlobalIndex uint64
	OTAddr      lktypes.Key
	Commit      lktypes.Key
	RKey        lktypes.PublicKey // the tx key the derivation was made with (tx.RKey or an additional key)
	OutIndex    uint64            // index among the tx's UTXO outputs
	Amount      *big.Int          // in chain units (already multiplied by the commitment unit)
	Mask        lktypes.Key
	SubIdx      uint64
	KeyImage    lktypes.Key
	Height      uint64
	Spent       bool
}

// Wallet holds a confidential account (view/spend keys, sub-addresses) and what it found on chain.
type Wallet struct {
	Keys     *lktypes.AccountKey
	KeyIndex map[lktypes.PublicKey]uint64
	Owned    []*Owned
}

// NewWallet derives a confidential account deterministically and registers nSub sub-addresses.
func NewWallet(seed uint64, nSub int) *Wallet {
	var b [40]byte
	copy(b[:], "verif-world-wallet")
	binary.BigEndian.PutUint64(b[32:], seed)
	var rk lktypes.SecretKey
	copy(rk[:], crypto.Keccak256(b[:]))
	spendSK, spendPK := xcrypto.GenerateKeys(rk)
	var rk2 lktypes.SecretKey
	copy(rk2[:], crypto.Keccak256(spendSK[:]))
	viewSK, viewPK := xcrypto.GenerateKeys(rk2)
	w := &Wallet{
		Keys: &lktypes.AccountKey{
			Addr:      lktypes.AccountAddress{ViewPublicKey: viewPK, SpendPublicKey: spendPK},
			SpendSKey: spendSK,
			ViewSKey:  viewSK,
		},
		KeyIndex: map[lktypes.PublicKey]uint64{spendPK: 0},
	}
	for i := 1; i <= nSub; i++ {
		a := xcrypto.GetSubaddress(w.Keys, uint32(i))
		w.KeyIndex[a.SpendPublicKey] = uint64(i)
	}
	return w
}

// Address returns the main address (i == 0) or a sub-address.
func (w *Wallet) Address(i uint64) lktypes.AccountAddress {
	if i == 0 {
		return w.Keys.Addr
	}
	return xcrypto.GetSubaddress(w.Keys, uint32(i))
}

// Dest builds a confidential destination entry for this wallet.
func (w *Wallet) Dest(sub uint64, amount *big.Int) *types.UTXODestEntry {
	return &types.UTXODestEntry{Addr: w.Address(sub), Amount: new(big.Int).Set(amount), IsSubaddress: sub != 0}
}

// ScanTx looks for outputs of tx that belong to the wallet, exactly like wallet/linkaccount.go
// processNewTransaction (derivations from RKey and every additional key, ownership test, ECDH decode,
// re-commitment check).  firstGlobal is the global index of the tx's first UTXO output.
func (w *Wallet) ScanTx(tx *types.UTXOTransaction, height uint64, firstGlobal uint64) (found []*Owned, err error) {
	outputID := -1
	for _, o := range tx.Outputs {
		ro, ok := o.(*types.UTXOOutput)
		if !ok {
			continue
		}
		outputID++
		gid := firstGlobal + uint64(outputID)
		keyMaps := map[lktypes.KeyDerivation]lktypes.PublicKey{}
		var derivs []lktypes.KeyDerivation
		if d, e := xcrypto.GenerateKeyDerivation(tx.RKey, w.Keys.ViewSKey); e == nil {
			derivs = append(derivs, d)
			keyMaps[d] = tx.RKey
		}
		for _, ak := range tx.AddKeys {
			if d, e := xcrypto.GenerateKeyDerivation(ak, w.Keys.ViewSKey); e == nil {
				derivs = append(derivs, d)
				keyMaps[d] = ak
			}
		}
		realD, subIdx, e := types.IsOutputBelongToAccount(w.Keys, w.KeyIndex, ro.OTAddr, derivs, uint64(outputID))
		if e != nil {
			continue
		}
		sk, e := xcrypto.DeriveSecretKey(realD, outputID, w.Keys.SpendSKey)
		if e != nil {
			return found, e
		}
		if subIdx > 0 {
			sk = xcrypto.SecretAdd(sk, xcrypto.GetSubaddressSecretKey(w.Keys.ViewSKey, uint32(subIdx)))
		}
		ki, e := xcrypto.GenerateKeyImage(lktypes.PublicKey(ro.OTAddr), sk)
		if e != nil {
			return found, e
		}
		if outputID >= len(tx.RCTSig.EcdhInfo) || outputID >= len(tx.RCTSig.OutPk) {
			return found, fmt.Errorf("tx lacks ecdh/outpk for output %d", outputID)
		}
		ecdh := &lktypes.EcdhTuple{Mask: tx.RCTSig.EcdhInfo[outputID].Mask, Amount: tx.RCTSig.EcdhInfo[outputID].Amount}
		scalar, e := xcrypto.DerivationToScalar(realD, outputID)
		if e != nil {
			return found, e
		}
		if !xcrypto.EcdhDecode(ecdh, lktypes.Key(scalar), false) {
			continue
		}
		// the amount the sender encoded must open the public commitment
		c, e := xcrypto.GenC(ecdh.Mask, lktypes.Lk_amount(types.Hash2BigInt(ecdh.Amount).Uint64()))
		if e != nil || c != tx.RCTSig.OutPk[outputID].Mask || types.Hash2BigInt(ecdh.Amount).BitLen() > 64 {
			continue
		}
		rate, e := types.GetUtxoCommitmentChangeRate(tx.TokenID)
		if e != nil {
			return found, e
		}
		ow := &Owned{
			Token: tx.TokenID, GlobalIndex: gid, OTAddr: ro.OTAddr, Commit: tx.RCTSig.OutPk[outputID].Mask,
			RKey: keyMaps[realD], OutIndex: uint64(outputID), Mask: ecdh.Mask, SubIdx: subIdx, KeyImage: lktypes.Key(ki), Height: height,
			Amount: new(big.Int).Mul(types.Hash2BigInt(ecdh.Amount), big.NewInt(rate)),
		}
		w.Owned = append(w.Owned, ow)
		found = append(found, ow)
	}
	return found, nil
}

// RingMember is a decoy (or the real output) referenced by global index.
type RingMember struct {
	GlobalIndex uint64
	OTAddr      lktypes.Key
	Commit      lktypes.Key
}

// Source builds the source entry for spending ow inside the given ring (which must contain ow, sorted by index).
func (ow *Owned) Source(ring []RingMember) *types.UTXOSourceEntry {
	se := &types.UTXOSourceEntry{RKey: ow.RKey, OutIndex: ow.OutIndex, Amount: new(big.Int).Set(ow.Amount), Mask: ow.Mask}
	for i, m := range ring {
		se.Ring = append(se.Ring, types.UTXORingEntry{Index: m.GlobalIndex, OTAddr: m.OTAddr, Commit: m.Commit})
		if m.GlobalIndex == ow.GlobalIndex {
			se.RingIndex = uint64(i)
		}
	}
	return se
}

// SpendUTXO builds a confidential spend of the given sources to dests (UTXODestEntry / AccountDestEntry).
// For the native coin the fee is inputs - outputs; for tokens fee is given.
func (w *Wallet) SpendUTXO(sources []*types.UTXOSourceEntry, dests []types.DestEntry, token common.Address, fee *big.Int) (*types.UTXOTransaction, error) {
	tx, ins, mkeys, _, err := types.NewUinTokenTransaction(w.Keys, w.KeyIndex, sources, dests, token, common.EmptyAddress, fee, nil)
	if err != nil {
		return nil, err
	}
	if err := types.UInTransWithRctSig(tx, sources, ins, dests, mkeys); err != nil {
		return nil, err
	}
	return tx, nil
}

// AccountToUTXO builds (and signs with the account key) an account-input transaction.
// amount is the total debited from the account (outputs + fee for the native coin).
func AccountToUTXO(from Acct, nonce uint64, amount *big.Int, dests []types.DestEntry, token common.Address, fee *big.Int) (*types.UTXOTransaction, error) {
	src := &types.AccountSourceEntry{From: from.Addr, Nonce: nonce, Amount: new(big.Int).Set(amount)}
	tx, _, err := types.NewAinTokenTransaction(src, dests, token, fee, nil)
	if err != nil {
		return nil, err
	}
	if err := tx.Sign(types.GlobalSTDSigner, from.Key); err != nil {
		return nil, err
	}
	return tx, nil
}

// UpgradeTx builds a contract upgrade transaction signed by the registered upgrade signer (Spec.UpgradeSigner).
func UpgradeTx(signer Acct, contract common.Address, nonce uint64, code []byte) types.Tx {
	info := &types.ContractUpgradeMainInfo{FromAddr: signer.Addr, Recipient: contract, AccountNonce: nonce, Payload: code}
	tx := types.UpgradeContractTx(info, nil)
	if tx == nil {
		panic("UpgradeContractTx")
	}
	if err := tx.Sign(types.GlobalSTDSigner, signer.Key); err != nil {
		panic(err)
	}
	return tx
}

// MultiSignTx builds a MultiSignAccountTx that installs signers as the multi-signer set for contract upgrades, signed by the
// given validator keys (VerifySign wants more than 2/3 of the voting power of the application's last-changed validators).
func MultiSignTx(nonce uint64, minPower int32, signers []Acct, powers []int32, valKeys []crypto.PrivKeyEd25519) *types.MultiSignAccountTx {
	info := types.MultiSignMainInfo{AccountNonce: nonce, SupportTxType: types.TxContractCreateType}
	info.MinSignerPower = minPower
	for i, a := range signers {
		info.Signers = append(info.Signers, &types.SignerEntry{Power: powers[i], Addr: a.Addr})
	}
	bz, err := types.GenMultiSignBytes(info)
	if err != nil {
		panic(err)
	}
	var sigs []types.ValidatorSign
	for _, k := range valKeys {
		sig, err := k.Sign(bz)
		if err != nil {
			panic(err)
		}
		sigs = append(sigs, types.ValidatorSign{Addr: k.PubKey().Address(), Signature: sig.Bytes()})
	}
	return types.NewMultiSignAccountTx(&info, sigs)
}

// UpgradeTxBy builds a contract upgrade with FromAddr = from, signed by the given keys in that order.
func UpgradeTxBy(from common.Address, contract common.Address, nonce uint64, code []byte, signers []Acct) *types.ContractUpgradeTx {
	info := &types.ContractUpgradeMainInfo{FromAddr: from, Recipient: contract, AccountNonce: nonce, Payload: code}
	tx := types.UpgradeContractTx(info, nil)
	if tx == nil {
		panic("UpgradeContractTx")
	}
	for _, a := range signers {
		if err := tx.Sign(types.GlobalSTDSigner, a.Key); err != nil {
			panic(err)
		}
	}
	return tx
}

// SpendUTXOSigned is SpendUTXO for a non-native token: the fee is paid in the native coin by the account that signs.
func (w *Wallet) SpendUTXOSigned(sources []*types.UTXOSourceEntry, dests []types.DestEntry, token common.Address, fee *big.Int, payer Acct) (*types.UTXOTransaction, error) {
	tx, ins, mkeys, _, err := types.NewUinTokenTransaction(w.Keys, w.KeyIndex, sources, dests, token, common.EmptyAddress, fee, nil)
	if err != nil {
		return nil, err
	}
	if err := tx.Sign(types.GlobalSTDSigner, payer.Key); err != nil {
		return nil, err
	}
	if err := types.UInTransWithRctSig(tx, sources, ins, dests, mkeys); err != nil {
		return nil, err
	}
	return tx, nil
}
